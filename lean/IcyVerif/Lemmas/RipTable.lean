import IcyVerif.Model.Rip
/-! Decidable well-formedness of a RIP command table: the conditions on the regenerated `Gen/Rip.lean` under which
the generic `parse` interpreter cannot panic.  Checked for the generated table by `decide`. -/
namespace IcyVerif.Rip
open IcyVerif.RipSpec

def isDigitUnwrap : Act → Bool
  | .digitUnwrap _ => true
  | _ => false

def isVdigit : Act → Bool
  | .vdigit => true
  | _ => false

def isLtPoly : Ret → Bool
  | .ltPoly _ => true
  | _ => false

/-- an ordinary arm: no `unwrap`, no vector access, no `(npoints + 1) * 4` -/
def armOk (a : Arm) : Bool := !isDigitUnwrap a.act && !isVdigit a.act && !isLtPoly a.ret

/-- the arms in front of a `vdigit` default arm: none (SetPalette) or exactly `0 | 1 => digit i, Ok(true)` (polygons) -/
def polyArms (arms : List Arm) (i : Nat) : Bool := arms == [⟨0, 1, .digit i, .t⟩]

def dfltOk (arms : List Arm) : Option (Act × Ret) → Bool
  | none => true
  | some (.vdigit, .ltPoly i) => polyArms arms i
  | some (.vdigit, r) => arms.isEmpty && !isLtPoly r
  | some (a, r) => !isDigitUnwrap a && !isLtPoly r

def specOk (spec : CmdSpec) : Bool := spec.arms.all armOk && dfltOk spec.arms spec.dflt

def tableOk (T : Table) : Bool :=
  T.checked && T.cmds.all specOk && T.dispatch.all (fun d => decide (d.cmd < T.cmds.length))

theorem gen_table_ok : tableOk genTable = true := by decide

end IcyVerif.Rip
