import IcyVerif.Lemmas.LoadersBase
set_option linter.unusedSimpArgs false
set_option linter.unusedVariables false
/-! TheDraw font loader and clipboard loader never panic (C02). -/
namespace IcyVerif.Loaders
open IcyVerif.Bytes IcyVerif.Bytes.Res IcyVerif.Gen IcyVerif.Gen.Loaders

theorem tdfName_sat (d : Bytes) (o : Nat) : ∀ (k i : Nat), o + i + k ≤ d.size → (tdfName d o k i).Sat (fun r => r ≤ i + k) := by
  intro k
  induction k with
  | zero => intro i h; unfold tdfName; exact Nat.le_refl _
  | succ k ih =>
    intro i h
    unfold tdfName
    apply Sat.bind (rd_sat (by omega)); intro b _
    split
    · show i ≤ i + (k + 1); omega
    · apply Sat.mono (ih (i + 1) (by omega)); intro r hr; omega

theorem tdfGlyphData_sat (d : Bytes) (color : Bool) :
    ∀ (fuel off : Nat), d.size < fuel + off → (tdfGlyphData d color fuel off).Sat (fun _ => True) := by
  intro fuel
  induction fuel with
  | zero =>
    intro off hf
    unfold tdfGlyphData
    split
    · exact True.intro
    · omega
  | succ fuel ih =>
    intro off hf
    unfold tdfGlyphData
    split
    · exact True.intro
    · rename_i h
      apply Sat.bind (rd_sat (by omega)); intro ch _
      dsimp only
      split
      · exact True.intro
      · split
        · split
          · exact ih _ (by omega)
          · split
            · exact True.intro
            · rename_i h2
              apply Sat.bind (rd_sat (by omega)); intro _ _
              exact ih _ (by omega)
        · exact ih _ (by omega)

theorem tdfGlyphs_sat (d : Bytes) (o bs : Nat) (color : Bool) :
    ∀ (t : List Nat) (n : Nat) (fh : Option Nat), (tdfGlyphs d o bs color t n fh).Sat (fun _ => True) := by
  intro t
  induction t with
  | nil => intro n fh; unfold tdfGlyphs; exact True.intro
  | cons co rest ih =>
    intro n fh
    unfold tdfGlyphs
    split
    · exact ih n fh
    · split
      · exact True.intro
      · dsimp only
        split
        · exact True.intro
        · rename_i h
          apply Sat.bind (rd_sat (by omega)); intro _ _
          apply Sat.bind (rd_sat (by omega)); intro _ _
          apply Sat.bind (tdfGlyphData_sat d color _ _ (by omega)); intro _ _
          exact ih _ _

theorem tdfTable_sat (d : Bytes) : ∀ (k o : Nat) (acc : List Nat), o + 2 * k ≤ d.size → (tdfTable d k o acc).Sat (fun _ => True) := by
  intro k
  induction k with
  | zero => intro o acc h; unfold tdfTable; exact True.intro
  | succ k ih =>
    intro o acc h
    unfold tdfTable
    apply Sat.bind (rdU16_sat (by omega)); intro v _
    exact ih _ _ (by omega)

theorem tdfRecordLen_eq : tdfRecordLen = 213 := rfl

theorem tdfFonts_sat (d : Bytes) :
    ∀ (fuel o : Nat) (acc : List TdfFont), d.size < fuel + o → (tdfFonts d fuel o acc).Sat (fun _ => True) := by
  have e0 := tdfRecordLen_eq
  have e1 : tdfFontNameLen = 12 := rfl
  have e2 : tdfCharTableSize = 94 := rfl
  intro fuel
  induction fuel with
  | zero =>
    intro o acc hf
    unfold tdfFonts
    split
    · exact True.intro
    · omega
  | succ fuel ih =>
    intro o acc hf
    unfold tdfFonts
    split
    · exact True.intro
    · rename_i hc
      have hc' : o < d.size := Decidable.not_not.mp hc
      apply Sat.bind (rd_sat hc'); intro b _
      split
      · exact True.intro
      · split
        · exact True.intro
        · rename_i hlen
          apply Sat.bind (rdU32_sat (by omega)); intro ind _
          split
          · exact True.intro
          · dsimp only
            apply Sat.bind (rd_sat (by omega)); intro nameLen _
            split
            · exact True.intro
            · rename_i hn
              apply Sat.bind (tdfName_sat d _ nameLen 0 (by omega)); intro nl hnl
              apply Sat.bind (slice_sat (by omega)); intro _ _
              apply Sat.bind (rd_sat (by omega)); intro ty _
              split
              · exact True.intro
              · apply Sat.bind (rd_sat (by omega)); intro spaces _
                split
                · exact True.intro
                · apply Sat.bind (rdU16_sat (by omega)); intro blockSize _
                  apply Sat.bind (tdfTable_sat d _ _ _ (by omega)); intro table _
                  apply Sat.bind (tdfGlyphs_sat d _ _ _ table 0 none); intro r _
                  exact ih _ _ (by omega)

theorem loadTdf_sat (d : Bytes) : (loadTdf d).Sat (fun _ => True) := by
  unfold loadTdf
  have e0 : tdfHeaderSize = 233 := rfl
  have e1 : tdfId.length = 18 := rfl
  split
  · exact True.intro
  · rename_i hlen
    apply Sat.bind (rd_sat (by omega)); intro b _
    split
    · exact True.intro
    · apply Sat.bind (slice_sat (by omega)); intro _ _
      split
      · exact True.intro
      · dsimp only
        apply Sat.bind (rd_sat (by omega)); intro m _
        split
        · exact True.intro
        · exact tdfFonts_sat d _ _ _ (by omega)

-- ------------------------------------------------------------------------------------------------ clipboard
/-- the only panic-like outcome of the clipboard model: the abort of `char::from_u32_unchecked` on a
    surrogate code unit, present only while the source still has the unchecked conversion -/
def ClipSite (s : String) : Prop := clipCharUnchecked = true ∧ s = sClipAbort

theorem clipCells_sat (d : Bytes) : ∀ (n off : Nat), off + 14 * n ≤ d.size → (clipCells d n off).SatS ClipSite (fun _ => True) := by
  intro n
  induction n with
  | zero => intro off h; unfold clipCells; exact True.intro
  | succ n ih =>
    intro off h
    unfold clipCells
    apply SatS.bind (Sat.toSatS (rdU16_sat (by omega))); intro ch _
    apply SatS.bind (Sat.toSatS (rd_sat (by omega))); intro _ _
    split
    · rename_i hs
      exact ⟨by simpa using hs.1, rfl⟩
    · apply SatS.bind (Sat.toSatS (slice_sat (by omega))); intro _ _
      exact ih _ (by omega)

theorem loadClip_sat (d : Bytes) : (loadClip d).SatS ClipSite (fun _ => True) := by
  unfold loadClip
  split
  · exact True.intro
  · rename_i hlen
    apply SatS.bind (Sat.toSatS (rd_sat (by omega))); intro t _
    split
    · exact True.intro
    · apply SatS.bind (Sat.toSatS (rdU32_sat (by omega))); intro x _
      apply SatS.bind (Sat.toSatS (rdU32_sat (by omega))); intro y _
      apply SatS.bind (Sat.toSatS (rdU32_sat (by omega))); intro w _
      apply SatS.bind (Sat.toSatS (rdU32_sat (by omega))); intro h _
      apply SatS.bind (Sat.toSatS (slice_sat (by omega))); intro _ _
      dsimp only
      split
      · exact True.intro
      · rename_i hc
        have hc' : ¬ (w * h = 0) ∧ ¬ (w * h > 2147483647) ∧ ¬ ((d.size - 17) / 14 < w * h) := by
          refine ⟨fun a => hc (Or.inl a), fun a => hc (Or.inr (Or.inl a)), fun a => hc (Or.inr (Or.inr a))⟩
        have hcells : 14 * (w * h) ≤ d.size - 17 := by
          have := Nat.div_mul_le_self (d.size - 17) 14
          have h3 : w * h ≤ (d.size - 17) / 14 := by omega
          have := Nat.mul_le_mul_right 14 h3
          omega
        apply SatS.bind (clipCells_sat d (w * h) 17 (by omega)); intro _ _
        exact True.intro

end IcyVerif.Loaders
