import IcyVerif.Lemmas.TermFileStep
set_option linter.unusedSimpArgs false
set_option linter.unusedVariables false
/-! # The whole character loop on a file buffer: no panic, invariant kept (ANSI parser with music off) -/
namespace IcyVerif.TermFile
open IcyVerif.Term

/-- what the geometry-free state functions of `TermAnsi` (`csiCmd`, `csiReq`, `devAttr`) keep -/
def StF (t : St) : Prop := ScrF t.s ∧ CarF t.c ∧ NoMusic t.p.st
abbrev StFR (r : St × Out) : Prop := StF r.1

theorem ret_StF (t : St) (o : Out) (h : StF t) : okAnd (ret t o) StFR := h

theorem numChar_F (st st' : St) (ch : Char) (h : StF st) (he : numChar st ch = some st') : StF st' := by
  unfold numChar at he
  split at he
  · cases he; exact h
  · split at he
    · cases he; exact h
    · cases he

macro "sarm" : tactic => `(tactic| first
  | exact ret_StF _ _ (by assumption)
  | exact ret_StF _ _ ⟨by scrf, by assumption, by nomus⟩
  | exact ret_StF _ _ (numChar_F _ _ _ (by assumption) (by assumption)))

theorem csiCmd_F (st : St) (ch : Char) (h : StF st) : okAnd (csiCmd st ch) StFR := by
  have ⟨g1, g2, g3⟩ := h
  unfold csiCmd
  simp only []
  repeat' (first | (apply okAnd_ite <;> intro _) | split)
  all_goals sarm

theorem csiReq_F (st : St) (ch : Char) (h : StF st) : okAnd (csiReq st ch) StFR := by
  have ⟨g1, g2, g3⟩ := h
  unfold csiReq setSpecificMargin
  simp only []
  repeat' (first | (apply okAnd_ite <;> intro _) | split)
  all_goals sarm

theorem devAttr_F (st : St) (ch : Char) (h : StF st) : okAnd (devAttr st ch) StFR := by
  have ⟨g1, g2, g3⟩ := h
  unfold devAttr
  repeat' (first | (apply okAnd_ite <;> intro _) | split)
  all_goals sarm

theorem viaSt_good (st : FSt) (r : R) (h : FGood st) (hr : okAnd r StFR) : okAnd (viaSt st r) FGoodR := by
  have ⟨g1, g2, g3, g4, g5⟩ := h
  cases r with
  | error e => exact hr.elim
  | ok q =>
    obtain ⟨t, o⟩ := q
    exact ⟨hr.1, hr.2.1, g3, g4, hr.2.2⟩

theorem stepCoreF_good (cfg : Cfg) (o : Orc) (inv : Int → FSt → Res FSt) (st : FSt) (ch : Char) (hm : cfg.musicOpt = 0)
    (hinv : ∀ id st, FGood st → okAnd (inv id st) FGood) (h : FGood st) :
    okAnd (stepCoreF cfg o inv st ch) FGoodR := by
  have ⟨g1, g2, g3, g4, g5⟩ := h
  unfold stepCoreF
  rw [if_neg (not_not_intro (musicSafe_of_noMusic _ _ _ g5))]
  split
  · -- music: unreachable
    rename_i m hmm; exact absurd hmm (g5 m)
  · exact escCharF_good st ch h
  · repeat' (first | (apply okAnd_ite <;> intro _) | split)
    all_goals farm2
  · repeat' (first | (apply okAnd_ite <;> intro _) | split)
    all_goals farm2
  · -- dcsMacro
    simp only []
    repeat' (first | (apply okAnd_ite <;> intro _) | split)
    all_goals first
      | farm2
      | (rename_i hh; exact fret_ok _ _ (finv_ok inv _ _ _ hinv hh (fgood_mk _ (by scrf) (by carf) (by rowsf) (by assumption) (by nomus))))
      | (exfalso; rename_i hh; exact finv_err inv _ _ _ hinv hh (fgood_mk _ (by scrf) (by carf) (by rowsf) (by assumption) (by nomus)))
  · repeat' (first | (apply okAnd_ite <;> intro _) | split)
    all_goals farm2
  · -- dcsEsc
    apply okAnd_ite
    · intro _; exact executeDcsF_good st o h
    · intro _
      repeat' (first | (apply okAnd_ite <;> intro _) | split)
      all_goals farm2
  · repeat' (first | (apply okAnd_ite <;> intro _) | split)
    all_goals farm2
  · -- oscEsc
    apply okAnd_ite
    · intro _; exact parseOscF_good st o h
    · intro _; farm2
  · exact viaSt_good st _ h (csiCmd_F _ ch ⟨g1, g2, g5⟩)
  · exact viaSt_good st _ h (csiReq_F _ ch ⟨g1, g2, g5⟩)
  · -- rip
    apply okAnd_ite
    · intro _
      exact fret_ok _ _ (fgood_mk _ (resetTerminal_F _ g1) (carF_home _) g3 g4 (fun m hm => by cases hm))
    · intro _
      exact dfltCharF_good cfg (fdflt st) ch (fgood_mk _ g1 g2 g3 g4 (fun m hm => by cases hm))
  · exact viaSt_good st _ h (devAttr_F _ ch ⟨g1, g2, g5⟩)
  · exact endCsiF_good o inv st _ ch hinv h
  · exact csiFinalF_good cfg o st _ ch hm h
  · exact dfltCharF_good cfg st ch h

theorem fgood_par (st : FSt) (p' : Par) (h : FGood st) (hp : p'.st = st.p.st) : FGood { st with p := p' } := by
  have ⟨g1, g2, g3, g4, g5⟩ := h
  exact ⟨g1, g2, g3, g4, by show NoMusic p'.st; rw [hp]; exact g5⟩

theorem replayF_good (stepf : FSt → Char → FR) (hstep : ∀ st ch, FGood st → okAnd (stepf st ch) FGoodR) :
    ∀ (body : List Char) (st : FSt), FGood st → okAnd (replayF stepf body st) FGood := by
  intro body
  induction body with
  | nil => intro st h; exact h
  | cons ch rest ih =>
    intro st h
    unfold replayF
    apply okAnd_ite
    · intro _; exact h
    · intro _
      have h1 : FGood { st with p := { st.p with budget := st.p.budget - 1 } } := fgood_par st _ h rfl
      have h2 := hstep _ ch h1
      simp only []
      cases hs : stepf { st with p := { st.p with budget := st.p.budget - 1 } } ch with
      | error e => rw [hs] at h2; exact h2
      | ok r =>
        rw [hs] at h2
        obtain ⟨st', out⟩ := r
        exact ih st' h2

theorem invokerF_good (stepf : FSt → Char → FR) (top : Bool) (hstep : ∀ st ch, FGood st → okAnd (stepf st ch) FGoodR)
    (id : Int) (st : FSt) (h : FGood st) : okAnd (invokerF stepf top id st) FGood := by
  unfold invokerF
  split
  · exact h
  · apply replayF_good stepf hstep
    split
    · exact fgood_par st _ h rfl
    · exact h

theorem stepDF_good : ∀ (d : Nat) (cfg : Cfg) (o : Nat → Orc) (st : FSt) (ch : Char), cfg.musicOpt = 0 →
    FGood st → okAnd (stepDF d cfg o st ch) FGoodR := by
  intro d
  induction d with
  | zero =>
    intro cfg o st ch hm h
    unfold stepDF
    exact stepCoreF_good cfg _ _ _ ch hm (fun _ st hs => hs) (fgood_par st _ h rfl)
  | succ d ih =>
    intro cfg o st ch hm h
    unfold stepDF
    exact stepCoreF_good cfg _ _ _ ch hm (invokerF_good _ _ (fun st ch hs => ih cfg o st ch hm hs)) (fgood_par st _ h rfl)

theorem stepF_good (cfg : Cfg) (o : Nat → Orc) (st : FSt) (ch : Char) (hm : cfg.musicOpt = 0) (h : FGood st) :
    okAnd (stepF cfg o st ch) FGoodR := stepDF_good _ cfg o st ch hm h

theorem runFI_good (cfg : Cfg) (o : Nat → Orc) (hm : cfg.musicOpt = 0) :
    ∀ (cs : List Char) (i : Nat) (st : FSt), FGood st → okAnd (runFI cfg o i st cs) FGood := by
  intro cs
  induction cs with
  | nil => intro i st h; exact h
  | cons ch rest ih =>
    intro i st h
    unfold runFI
    have h2 := stepF_good cfg (fun _ => o i) st ch hm h
    cases hs : stepF cfg (fun _ => o i) st ch with
    | error e => rw [hs] at h2; exact h2
    | ok r =>
      rw [hs] at h2
      obtain ⟨st', out⟩ := r
      exact ih (i + 1) st' h2

theorem runF_good (cfg : Cfg) (o : Nat → Orc) (hm : cfg.musicOpt = 0) (cs : List Char) (st : FSt) (h : FGood st) :
    okAnd (runF cfg o st cs) FGood := runFI_good cfg o hm cs 0 st h

/-- the state a loader starts from: `Buffer::new` + `set_sauce` with a width 1..=1000 and a height 0..=65535 -/
theorem initF_good (w h tabW : Int) (rows : Array Nat) (hw1 : 1 ≤ w) (hw2 : w ≤ 1000) (hh0 : 0 ≤ h) (hh2 : h ≤ 65535) :
    FGood (initF w h tabW rows) := by
  refine ⟨⟨hw1, hw2, hh0, hh2, fun t b hh => by simp [initF, initScrF] at hh, fun t b hh => by simp [initF, initScrF] at hh⟩,
    carF_home _, ?_, ?_, ?_⟩
  · exact hw2
  · intro p hp; cases hp
  · intro m hm; cases hm

end IcyVerif.TermFile
