import IcyVerif.Lemmas.Sixel
set_option linter.unusedSimpArgs false
set_option linter.unusedVariables false
/-! After a raster attribute (`"Pan;Pad;Ph;Pv` or `"Pan;Pad;Pv`) — wherever in the payload it stands, also behind
    picture data — the number of rows is frozen at the declared height (`Vec::resize` cuts rows decoded above it and
    adds the missing ones) and rows only ever grow, until the next raster attribute.  The rows the attribute ADDS
    (index ≥ the number of rows decoded before it) are at least the declared width. -/
namespace IcyVerif.Sixel

/-- size declared by the numbers of a raster attribute: `[pan, pad, height]` or `[pan, pad, width, height]` -/
def declared : List Nat → Option (Nat × Nat)
  | [_, _, h] => some (0, h)
  | [_, _, w, h] => some (w, h)
  | _ => none

structure Frozen (H k m : Nat) (s : St) : Prop where
  hs : s.heightSet = true
  len : s.rows.length = H
  /-- the rows from index `k` on are at least `m` bytes wide -/
  wide : ∀ i r, k ≤ i → s.rows[i]? = some r → m ≤ r
  st : s.state ≠ .readSize

theorem pixelLoop_mono (k m mask yPos lastLine x : Nat) (is : List Nat) (rows rows' : List Nat)
    (h : pixelLoop mask yPos lastLine x is rows = .ok rows') (hw : ∀ i r, k ≤ i → rows[i]? = some r → m ≤ r) :
    (∀ i r, k ≤ i → rows'[i]? = some r → m ≤ r) ∧ rows'.length = rows.length := by
  induction is generalizing rows with
  | nil => simp only [pixelLoop] at h; injection h with h; subst h; exact ⟨hw, rfl⟩
  | cons i is ih =>
    simp only [pixelLoop] at h
    split at h
    · split at h
      · injection h with h; subst h; exact ⟨hw, rfl⟩
      · split at h
        · simp at h
        · rename_i len hsome
          by_cases hh : len ≤ x * 4 ∧ (x + 1) * 4 > hugeLimit
          · rw [if_pos hh] at h; simp at h
          · rw [if_neg hh] at h
            generalize hl' : (if len ≤ x * 4 then (x + 1) * 4 else len) = len' at h
            have hge : len ≤ len' := by subst hl'; split <;> omega
            by_cases hi : x * 4 + 3 < len'
            · rw [if_pos hi] at h
              have hw' : ∀ j r, k ≤ j → (rows.set (yPos + i) len')[j]? = some r → m ≤ r := by
                intro j r hk hj
                by_cases hij : yPos + i = j
                · subst hij
                  have hlt : yPos + i < rows.length := (List.getElem?_eq_some_iff.1 hsome).1
                  rw [List.getElem?_set_self hlt] at hj
                  injection hj with hj
                  have := hw _ len hk hsome
                  omega
                · rw [List.getElem?_set_ne hij] at hj
                  exact hw j r hk hj
              have := ih _ h hw'
              exact ⟨this.1, by rw [this.2]; simp⟩
            · rw [if_neg hi] at h; simp at h
    · exact ih rows h hw

theorem translate_frozen {H k m : Nat} {s s' : St} (f : Frozen H k m s) (ch : Char) (h : translate s ch = .ok s') :
    Frozen H k m s' := by
  unfold translate at h
  split at h
  · simp at h
  split at h
  · simp at h
  split at h
  · simp at h
  split at h
  · simp at h
  have hll : ¬ s.rows.length < lastLineOf s := by
    unfold lastLineOf; rw [f.hs]; simp only [Bool.true_and]
    split
    · omega
    · rename_i h'; simp at h'; omega
  simp only [growRows, hll, if_false, Out.andThen] at h
  generalize hp : pixelLoop (ch.toNat - 63) (s.y * 6) (lastLineOf s) s.x [0, 1, 2, 3, 4, 5] s.rows = o at h
  cases o with
  | ok rows' =>
    simp only at h
    split at h
    · simp at h
    · injection h with h; subst h
      have := pixelLoop_mono k m _ _ _ _ _ _ _ hp f.wide
      exact ⟨f.hs, by simp only; rw [this.2]; exact f.len, this.1, f.st⟩
  | err e => simp at h
  | panic p => simp at h
  | huge => simp at h

theorem sixelData_frozen {H k m : Nat} {s s' : St} (f : Frozen H k m s) (ch : Char) (hc : ch ≠ '"')
    (h : sixelData s ch = .ok s') : Frozen H k m s' := by
  unfold sixelData at h
  split at h
  · injection h with h; subst h; exact ⟨f.hs, f.len, f.wide, by simp⟩
  split at h
  · injection h with h; subst h; exact ⟨f.hs, f.len, f.wide, by simp⟩
  split at h
  · split at h
    · simp at h
    · injection h with h; subst h; exact ⟨f.hs, f.len, f.wide, f.st⟩
  split at h
  · injection h with h; subst h; exact ⟨f.hs, f.len, f.wide, f.st⟩
  split at h
  · injection h with h; subst h; exact f
  · exact translate_frozen f ch h

theorem andThen_ok {α β : Type} {o : Out α} {f : α → Out β} {b : β} (h : o.andThen f = .ok b) :
    ∃ a, o = .ok a ∧ f a = .ok b := by
  cases o with
  | ok a => exact ⟨a, rfl, h⟩
  | err e => simp [Out.andThen] at h
  | panic p => simp [Out.andThen] at h
  | huge => simp [Out.andThen] at h

theorem repeatN_frozen {H k m : Nat} (ch : Char) (hc : ch ≠ '"') (n : Nat) {s s' : St} (f : Frozen H k m s)
    (h : repeatN (fun t => sixelData t ch) n s = .ok s') : Frozen H k m s' := by
  induction n generalizing s with
  | zero => simp only [repeatN] at h; injection h with h; subst h; exact f
  | succ n ih =>
    rw [repeatN_succ] at h
    obtain ⟨s1, h1, h2⟩ := andThen_ok h
    exact ih (sixelData_frozen f ch hc h1) h2

theorem growPalette_frame {s s' : St} (h : growPalette s = .ok s') :
    s'.rows = s.rows ∧ s'.heightSet = s.heightSet ∧ s'.state = s.state := by
  unfold growPalette at h
  split at h
  · split at h
    · simp at h
    · injection h with h; subst h; exact ⟨rfl, rfl, rfl⟩
  · injection h with h; subst h; exact ⟨rfl, rfl, rfl⟩

theorem colorArm_frame {s s' : St} (h : colorArm s = .ok s') :
    s'.rows = s.rows ∧ s'.heightSet = s.heightSet ∧ s'.state = s.state := by
  have hs : (setColor s).rows = s.rows ∧ (setColor s).heightSet = s.heightSet ∧ (setColor s).state = s.state := by
    unfold setColor; split <;> exact ⟨rfl, rfl, rfl⟩
  unfold colorArm defineColor at h
  have key : ∀ t : St, growPalette t = .ok s' → t = setColor s →
      s'.rows = s.rows ∧ s'.heightSet = s.heightSet ∧ s'.state = s.state := by
    intro t ht he
    have := growPalette_frame ht
    subst he
    exact ⟨this.1.trans hs.1, this.2.1.trans hs.2.1, this.2.2.trans hs.2.2⟩
  split at h
  · split at h
    · simp at h
    · split at h
      · split at h
        · exact key _ h rfl
        · simp at h
      · split at h
        · exact key _ h rfl
        · simp at h
      · simp at h
      · simp at h
  · injection h with h; subst h; exact hs

theorem parseChar_frozen {H k m : Nat} {s s' : St} (f : Frozen H k m s) (ch : Char) (hc : ch ≠ '"')
    (h : parseChar s ch = .ok s') : Frozen H k m s' := by
  unfold parseChar at h
  split at h
  · exact sixelData_frozen f ch hc h
  · rename_i hst
    split at h
    · injection h with h; subst h; exact ⟨f.hs, f.len, f.wide, f.st⟩
    split at h
    · injection h with h; subst h; exact ⟨f.hs, f.len, f.wide, f.st⟩
    · obtain ⟨s1, h1, h2⟩ := andThen_ok h
      have fr := colorArm_frame h1
      have f1 : Frozen H k m s1 := ⟨by rw [fr.2.1]; exact f.hs, by rw [fr.1]; exact f.len, by rw [fr.1]; exact f.wide,
        by rw [fr.2.2]; exact f.st⟩
      exact sixelData_frozen f1 ch hc h2
  · rename_i hst; exact absurd hst f.st
  · split at h
    · injection h with h; subst h; exact ⟨f.hs, f.len, f.wide, f.st⟩
    · split at h
      · split at h
        · simp at h
        obtain ⟨s1, h1, h2⟩ := andThen_ok h
        have f1 := repeatN_frozen ch hc _ f h1
        injection h2 with h2; subst h2
        exact ⟨f1.hs, f1.len, f1.wide, by simp⟩
      · simp at h

theorem run_frozen {H k m : Nat} (cs : List Char) {s s' : St} (f : Frozen H k m s) (hc : ∀ c ∈ cs, c ≠ '"')
    (h : run s cs = .ok s') : Frozen H k m s' := by
  induction cs generalizing s with
  | nil => simp only [run] at h; injection h with h; subst h; exact f
  | cons c cs ih =>
    rw [run_cons] at h
    obtain ⟨s1, h1, h2⟩ := andThen_ok h
    exact ih (parseChar_frozen f c (hc c (by simp)) h1) (fun c' hc' => hc c' (by simp [hc'])) h2

theorem run_append (s : St) (a b : List Char) : run s (a ++ b) = (run s a).andThen fun s' => run s' b := by
  induction a generalizing s with
  | nil => rfl
  | cons c cs ih =>
    simp only [List.cons_append, run_cons]
    cases parseChar s c with
    | ok s1 => simp only [Out.andThen]; exact ih s1
    | err e => rfl
    | panic p => rfl
    | huge => rfl

/-- `Vec::resize`: what stands at an index beyond the old length is the fill value -/
theorem getElem?_resizeRows_new {rows : List Nat} {n fill i r : Nat} (hi : rows.length ≤ i)
    (h : (resizeRows rows n fill)[i]? = some r) : r = fill := by
  unfold resizeRows at h
  split at h
  · rw [List.getElem?_take] at h
    split at h
    · have : rows[i]? = none := List.getElem?_eq_none hi
      rw [this] at h; simp at h
    · simp at h
  · rw [List.getElem?_append_right hi, List.getElem?_replicate] at h
    split at h
    · injection h with h; exact h.symm
    · simp at h

/-- the raster arm itself, wherever it is executed: declared `(W, H)` gives exactly `H` rows — rows decoded above
    `H` are cut —; the rows it adds (index ≥ the old number of rows) are `4*W` bytes wide -/
theorem sizeArm_frozen {s s1 : St} {W H : Nat} (hd : declared s.nums = some (W, H)) (h : sizeArm s = .ok s1) :
    Frozen H s.rows.length (4 * W) s1 := by
  unfold declared at hd
  split at hd
  · rename_i a b h3 hs
    injection hd with hd; injection hd with h1 h2; subst h1; subst h2
    simp only [sizeArm, hs, List.length_cons, List.length_nil] at h
    simp at h
    split at h
    · simp at h
    split at h
    · simp at h
    · injection h with h; subst h
      exact ⟨rfl, by simp only [length_resizeRows], by intro i r _ _; omega, by simp⟩
  · rename_i a b w h4 hs
    injection hd with hd; injection hd with h1 h2; subst h1; subst h2
    simp only [sizeArm, hs, List.length_cons, List.length_nil] at h
    simp at h
    split at h
    · simp at h
    split at h
    · simp at h
    · injection h with h; subst h
      refine ⟨rfl, by simp only [length_resizeRows], ?_, by simp⟩
      intro i r hi hr
      simp only at hr
      have := getElem?_resizeRows_new hi hr
      omega
  · simp at hd

/-- a row that exists and is `m` wide bounds the common row length from below -/
theorem rowLen_ge_of_getElem? {rows : List Nat} {i r m : Nat} (h : rows[i]? = some r) (hm : m ≤ r) : m ≤ rowLen rows := by
  have := (foldl_max_ge rows 0).2 r (List.mem_of_getElem? h)
  unfold rowLen; omega

/-- the final `#` of `parse_from` leaves the parser in the colour state with no numbers; a further `#` changes nothing -/
theorem flush_idem {s sf : St} (hst : s.state = .readSize) (h : run s ['#'] = .ok sf) : run sf ['#'] = .ok sf := by
  rw [run_cons] at h
  obtain ⟨s1, h1, h2⟩ := andThen_ok h
  simp only [run] at h2
  injection h2 with h2; subst h2
  have hp : parseChar s '#' = (sizeArm s).andThen fun s' => sixelData s' '#' := by
    unfold parseChar; rw [hst]; simp
  rw [hp] at h1
  obtain ⟨s0, _, h0⟩ := andThen_ok h1
  have hd1 : sixelData s0 '#' = .ok { s0 with nums := [], state := .readColor } := by simp [sixelData]
  rw [hd1] at h0
  injection h0 with h0; subst h0
  rw [run_cons]
  have : parseChar { s0 with nums := [], state := .readColor } '#' = .ok { s0 with nums := [], state := .readColor } := by
    simp [parseChar, colorArm, setColor, defineColor, sixelData, Out.andThen]
  rw [this]
  simp [Out.andThen, run]

theorem rowLen_ge {rows : List Nat} {m : Nat} (hne : rows ≠ []) (h : ∀ r ∈ rows, m ≤ r) : m ≤ rowLen rows := by
  cases rows with
  | nil => exact absurd rfl hne
  | cons r rs =>
    have := (foldl_max_ge (r :: rs) 0).2 r (by simp)
    have := h r (by simp)
    unfold rowLen; omega

end IcyVerif.Sixel
