import IcyVerif.Lemmas.ArtAnsiSgr
import IcyVerif.Lemmas.ArtShows
/-! # The ANSI writer without compression, cell by cell and row by row, against the ANSI reader (C04, first theorem) -/
set_option linter.unusedSimpArgs false
namespace IcyVerif.ArtIO
open IcyVerif.Gen.Art

/-- characters the chosen control-character handling can encode -/
def EncDom (o : AnsiOpts) (ch : Nat) : Prop :=
  ch < 256 ∧ match o.ctrl with
    | .ignore => AnsiPrintable ch
    | .icyTerm => True
    | .filterOut => ¬ (ch ∈ ansiControlChars)

theorem not_ctrl_printable {ch : Nat} (h : ¬ (ch ∈ ansiControlChars)) : AnsiPrintable ch := by
  simp [ansiControlChars] at h
  unfold AnsiPrintable; omega

/-- `cell_char` makes the reader print the character with its current rendition -/
theorem cellChar_read (o : AnsiOpts) (p : AnsiP) (c : Core) (ch : Nat) (hs : c.stuck = false) (hg : p.st = .ground)
    (hd : EncDom o ch) :
    ansiRun p c (cellChar o ch) = ({ p with lastCh := ch }, c.printAnsi ch) := by
  obtain ⟨h256, hm⟩ := hd
  have hmod : ch % 256 = ch := by omega
  unfold cellChar
  by_cases hc : ansiControlChars.contains ch = true
  · rw [if_pos hc]
    cases hk : o.ctrl with
    | ignore =>
      rw [hk] at hm
      simp only [hmod]
      rw [ansiRun_cons, ansiStep_print p c ch hs hg hm, ansiRun_nil]
    | icyTerm =>
      simp only [hmod]
      have hmem : ch ∈ ansiControlChars := by simpa using hc
      have he : escPrintable ch = true := by
        simp [ansiControlChars] at hmem
        simp [escPrintable]; omega
      have h91 : ch ≠ 91 := by
        simp [ansiControlChars] at hmem; omega
      have e1 : ansiStep p c 27 = ({ p with st := .esc }, c) := by unfold ansiStep; simp [hs, hg]
      rw [ansiRun_cons, e1]
      simp only []
      rw [ansiRun_cons, ansiRun_nil]
      unfold ansiStep
      simp [hs, h91, he, hg]
    | filterOut =>
      rw [hk] at hm
      exact absurd (by simpa using hc) hm
  · rw [if_neg hc]
    have hnm : ¬ (ch ∈ ansiControlChars) := by simpa using hc
    simp only [hmod]
    rw [ansiRun_cons, ansiStep_print p c ch hs hg (not_ctrl_printable hnm), ansiRun_nil]

/-- the reader between two cells of the writer -/
structure AInv (ic : Bool) (st : AnsiState) (p : AnsiP) (c : Core) : Prop where
  ns : c.stuck = false
  ag : p.st = .ground
  ice : c.caretIce = ic
  rel : RelS ic st.isBlink st c.attr

/-- the bytes `generate` emits for one cell when nothing is compressed -/
def cellBytes (o : AnsiOpts) (cell : CharCell) : List Nat :=
  (if cell.sgr.isEmpty then [] else csi cell.sgr 109) ++ tcSeqs cell.sgrTc.length cell.sgrTc ++ cellChar o cell.ch

/-- the cell as the reader prints it (before the bold folding of `parse_with_parser`) -/
def prImg (c : Cell) : Cell := ⟨c.ch, printedAttr c.attr⟩

def CellDom (o : AnsiOpts) (ic : Bool) (c : Cell) : Prop := Attr16 ic c.attr ∧ EncDom o c.ch

/-- one cell: SGR sequence (if any), then the character -/
theorem cell_sim (o : AnsiOpts) (im : IceMode) (c : Cell) (hd : CellDom o (decide (im = .ice)) c) (st : AnsiState) (p : AnsiP)
    (core : Core) (h : AInv (decide (im = .ice)) st p core) :
    let g := getColor o dosPalette im c.attr st
    AInv (decide (im = .ice)) g.1 (ansiRun p core (cellBytes o ⟨c.ch, g.2.1, g.2.2, g.1⟩)).1 (ansiRun p core (cellBytes o ⟨c.ch, g.2.1, g.2.2, g.1⟩)).2 ∧
    (ansiRun p core (cellBytes o ⟨c.ch, g.2.1, g.2.2, g.1⟩)).2.scr = core.scr.put (prImg c) := by
  intro g
  obtain ⟨ha, he⟩ := hd
  obtain ⟨ns, ag, ice, rel⟩ := h
  obtain ⟨S1, S2, S3, S4⟩ := sgr_sync o im c.attr ha st core.attr rel
  show AInv _ g.1 _ _ ∧ _
  have hg1 : g = getColor o dosPalette im c.attr st := rfl
  rw [← hg1] at S1 S2 S3 S4
  -- the SGR part
  have hsgr : ∃ p1, ansiRun p core (if g.2.1.isEmpty then [] else csi g.2.1 109) =
      (p1, { core with attr := caretAttr (decide (im = .ice)) c.attr }) ∧ p1.st = .ground := by
    by_cases hemp : g.2.1.isEmpty = true
    · rw [if_pos hemp]
      have : g.2.1 = [] := by simpa using hemp
      rw [this, sgrSimple_nil] at S4
      refine ⟨p, ?_, ag⟩
      rw [ansiRun_nil, ← S4]
    · rw [if_neg hemp]
      have hne : g.2.1 ≠ [] := by intro e; rw [e] at hemp; exact hemp rfl
      rw [csi_read p core g.2.1 109 ns ag hne (fun n hn => (S2 n hn).2)]
      refine ⟨{ p with st := .ground }, ?_, rfl⟩
      have e : ansiStep { p with st := .csi g.2.1 false } core 109 = ({ p with st := .ground }, sgr core g.2.1) := by
        unfold ansiStep; simp [ns]
      rw [e, sgr_simple core g.2.1 hne (fun n hn => (S2 n hn).1), S4]
  obtain ⟨p1, e1, hp1⟩ := hsgr
  have htc : tcSeqs g.2.2.length g.2.2 = [] := by rw [S1]; rfl
  have hall : ansiRun p core (cellBytes o ⟨c.ch, g.2.1, g.2.2, g.1⟩) =
      ({ p1 with lastCh := c.ch }, ({ core with attr := caretAttr (decide (im = .ice)) c.attr } : Core).printAnsi c.ch) := by
    unfold cellBytes
    simp only []
    rw [htc, List.append_nil, ansiRun_append, e1]
    simp only []
    exact cellChar_read o p1 _ c.ch ns hp1 he
  rw [hall]
  refine ⟨⟨ns, hp1, ice, ?_⟩, ?_⟩
  · show RelS _ g.1.isBlink g.1 (caretAttr (decide (im = .ice)) c.attr)
    rw [← S4]; exact S3
  · show core.scr.put ⟨c.ch, ({ core with attr := caretAttr (decide (im = .ice)) c.attr } : Core).printAttr⟩ = core.scr.put (prImg c)
    rw [printAttr_caret (decide (im = .ice)) c.attr ha ({ core with attr := caretAttr (decide (im = .ice)) c.attr } : Core) ice rfl]
    rfl

/-! ### one row, all rows (no compression, no longer-terminal positioning) -/

theorem genLine_nocompress (o : AnsiOpts) (w : Nat) (hc : o.compress = false) : ∀ (cells : List CharCell) (fuel x : Nat),
    cells.length ≤ fuel → genLine o w fuel x cells = cells.flatMap (cellBytes o) := by
  intro cells
  induction cells with
  | nil => intro fuel x _; cases fuel <;> rfl
  | cons cell rest ih =>
    intro fuel x hf
    cases fuel with
    | zero => simp at hf
    | succ f =>
      unfold genLine
      simp only [hc, Bool.false_eq_true, if_false]
      rw [ih f (x + 1) (by simp at hf; omega)]
      simp [cellBytes, List.flatMap_cons, List.append_assoc]

theorem row_sim (o : AnsiOpts) (im : IceMode) (row : List Cell) (hd : ∀ c ∈ row, CellDom o (decide (im = .ice)) c) :
    ∀ (n x : Nat) (st : AnsiState) (p : AnsiP) (core : Core), x + n = row.length → AInv (decide (im = .ice)) st p core →
      (genCellsRow o dosPalette im row n x st).1.length = n ∧
      AInv (decide (im = .ice)) (genCellsRow o dosPalette im row n x st).2
        (ansiRun p core ((genCellsRow o dosPalette im row n x st).1.flatMap (cellBytes o))).1
        (ansiRun p core ((genCellsRow o dosPalette im row n x st).1.flatMap (cellBytes o))).2 ∧
      (ansiRun p core ((genCellsRow o dosPalette im row n x st).1.flatMap (cellBytes o))).2.scr =
        core.scr.runOps (putOps ((row.drop x).map prImg)) := by
  intro n
  induction n with
  | zero =>
    intro x st p core hx h
    have : row.drop x = [] := List.drop_eq_nil_of_le (by omega)
    rw [this]
    exact ⟨rfl, h, rfl⟩
  | succ k ih =>
    intro x st p core hx h
    have hxl : x < row.length := by omega
    have hget : row.getD x defaultCell = row[x] := by
      rw [List.getD_eq_getElem?_getD, List.getElem?_eq_getElem hxl]; rfl
    have hdc : CellDom o (decide (im = .ice)) row[x] := hd _ (List.getElem_mem hxl)
    have hvis : (row[x]).isVisible = true := by
      unfold Cell.isVisible; rw [hdc.1.2.2.2]; rfl
    unfold genCellsRow
    rw [hget]
    simp only [hvis, if_true]
    obtain ⟨C1, C2⟩ := cell_sim o im row[x] hdc st p core h
    obtain ⟨I1, I2, I3⟩ := ih (x + 1) (getColor o dosPalette im row[x].attr st).1 _ _ (by omega) C1
    refine ⟨by simp [I1], ?_, ?_⟩
    · simp only [List.flatMap_cons]
      rw [ansiRun_append]
      exact I2
    · simp only [List.flatMap_cons]
      rw [ansiRun_append, I3, C2, List.drop_eq_getElem_cons hxl]
      rfl

theorem rows_sim (o : AnsiOpts) (im : IceMode) (w ht : Nat) (hc : o.compress = false)
    (hl : o.longerTerminalOutput = false) : ∀ (rows : List (List Cell)) (st : AnsiState) (y : Nat) (first : Bool) (p : AnsiP) (core : Core),
    (∀ r ∈ rows, r.length = w) → (∀ r ∈ rows, ∀ c ∈ r, CellDom o (decide (im = .ice)) c) → AInv (decide (im = .ice)) st p core →
    (∃ st', AInv (decide (im = .ice)) st' (ansiRun p core (genLines o w ht (genCells o dosPalette im w rows st) y first)).1
      (ansiRun p core (genLines o w ht (genCells o dosPalette im w rows st) y first)).2) ∧
    (ansiRun p core (genLines o w ht (genCells o dosPalette im w rows st) y first)).2.scr =
      core.scr.runOps (picOps id prImg w rows) := by
  intro rows
  induction rows with
  | nil => intro st y first p core _ _ h; exact ⟨⟨st, h⟩, rfl⟩
  | cons row rest ih =>
    intro st y first p core hw hd h
    have hrw : row.length = w := hw row List.mem_cons_self
    have hlen : ansiRowLen o dosPalette w row = w := by unfold ansiRowLen; simp [hc]
    obtain ⟨R1, R2, R3⟩ := row_sim o im row (hd row List.mem_cons_self) w 0 st p core (by omega) h
    unfold genCells
    rw [hlen]
    generalize hg : genCellsRow o dosPalette im row w 0 st = res at R1 R2 R3
    obtain ⟨line, st1⟩ := res
    simp only [] at R1 R2 R3 ⊢
    unfold genLines
    simp only [hl, Bool.false_eq_true, if_false, List.nil_append]
    have heol : ¬ ((!false) = true ∧ line.length < w ∧ y + 1 < ht) := by rw [R1]; omega
    simp only [Bool.not_false, true_and] at heol
    have heol' : ¬ (line.length < w ∧ y + 1 < ht) := heol
    simp only [Bool.not_false, true_and, heol', if_false, List.append_nil]
    rw [genLine_nocompress o w hc line line.length 0 (Nat.le_refl _), ansiRun_append]
    obtain ⟨J1, J2⟩ := ih st1 (y + 1) false _ _ (fun r hr => hw r (List.mem_cons_of_mem _ hr))
      (fun r hr => hd r (List.mem_cons_of_mem _ hr)) R2
    refine ⟨J1, ?_⟩
    rw [J2, R3]
    show _ = core.scr.runOps (rowOps id prImg w row (!rest.isEmpty) ++ picOps id prImg w rest)
    unfold rowOps
    have : ¬ ((id row).length < w ∧ (!rest.isEmpty) = true) := by simp [hrw]
    rw [if_neg this, List.append_nil, runOps_append]
    rfl

end IcyVerif.ArtIO
