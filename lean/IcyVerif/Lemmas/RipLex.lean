import IcyVerif.Lemmas.RipTable
set_option linter.unusedSimpArgs false
set_option linter.unusedVariables false
/-! The RIP lexer never gets stuck and never panics (for a well-formed table): invariant and step lemma. -/
namespace IcyVerif.Rip
open IcyVerif.RipSpec

-- ------------------------------------------------------------------------------------------------ base 36
theorem digit36_lt {c d : Nat} (h : digit36? c = some d) : d < 36 := by
  unfold digit36? at h
  split at h
  · cases h; omega
  · split at h
    · cases h; omega
    · split at h
      · cases h; omega
      · cases h

theorem parseBase36_checked_no_panic (n : Int) (c : Nat) (site : String) : parseBase36 true n c ≠ .panic site := by
  unfold parseBase36
  cases hd : digit36? c with
  | none => simp
  | some d =>
    by_cases hc : i32Min ≤ n * 36 ∧ n * 36 ≤ i32Max ∧ n * 36 + (d : Int) ≤ i32Max
    · simp [hc]
    · simp [hc]

theorem parseBase36_ok {n : Int} {c : Nat} {v : Int} {chk : Bool} (h : parseBase36 chk n c = .ok v) :
    ∃ d : Nat, digit36? c = some d ∧ v = n * 36 + d ∧ v ≤ i32Max := by
  unfold parseBase36 at h
  cases hd : digit36? c with
  | none => simp [hd] at h
  | some d =>
    by_cases hc : i32Min ≤ n * 36 ∧ n * 36 ≤ i32Max ∧ n * 36 + (d : Int) ≤ i32Max
    · simp [hd, hc] at h
      exact ⟨d, rfl, h.symm, by rw [← h]; exact hc.2.2⟩
    · cases chk <;> simp [hd, hc] at h

-- ------------------------------------------------------------------------------------------------ command invariant
/-- where the vector region of a `vdigit` command starts -/
def vstart (spec : CmdSpec) : Int := 2 * spec.arms.length

/-- invariant of the command under construction in parameter state `p` -/
def CmdGood (spec : CmdSpec) (c : CmdSt) (p : Int) : Prop :=
  (∀ r, spec.dflt = some (.vdigit, r) → (p % 2 = 1 → vstart spec ≤ p → c.vec ≠ [])) ∧
  (∀ i, spec.dflt = some (.vdigit, .ltPoly i) →
      0 ≤ getInt c i ∧ (p = 0 → getInt c i = 0) ∧ (p = 1 → getInt c i < 36) ∧ getInt c i < 1296)

theorem getInt_setInt_self (c : CmdSt) (i : Nat) (v : Int) (h : i < c.ints.length) : getInt (setInt c i v) i = v := by
  simp [getInt, setInt, List.getD, h]

theorem getInt_setInt_lt (c : CmdSt) (i : Nat) (v : Int) : getInt (setInt c i v) i = v ∨ getInt (setInt c i v) i = getInt c i := by
  by_cases h : i < c.ints.length
  · left; exact getInt_setInt_self c i v h
  · right
    simp [getInt, setInt, List.getD]
    have : (c.ints.set i v)[i]? = none := by simp; omega
    have h2 : c.ints[i]? = none := by simp; omega
    simp [this, h2]

theorem getInt_setInt_ne (c : CmdSt) (i j : Nat) (v : Int) (h : i ≠ j) : getInt (setInt c i v) j = getInt c j := by
  simp [getInt, setInt, List.getD, List.getElem?_set, h]

theorem getInt_setStr (c : CmdSt) (s : Nat) (v : List Nat) (j : Nat) : getInt (setStr c s v) j = getInt c j := rfl

theorem vec_setInt (c : CmdSt) (i : Nat) (v : Int) : (setInt c i v).vec = c.vec := rfl
theorem vec_setStr (c : CmdSt) (i : Nat) (v : List Nat) : (setStr c i v).vec = c.vec := rfl

/-- `evalRet` cannot panic unless it is the polygon bound on a large value -/
theorem evalRet_no_panic (r : Ret) (c : CmdSt) (p : Int) (site : String)
    (h : ∀ i, r = .ltPoly i → 0 ≤ getInt c i ∧ getInt c i < 1296) : evalRet r c p ≠ .panic site := by
  cases r with
  | t => simp [evalRet]
  | f => simp [evalRet]
  | lt n => simp [evalRet]
  | ltPoly i =>
    have := h i rfl
    simp only [evalRet]
    split
    · simp
    · rename_i hn
      exfalso; apply hn
      simp only [i32Max, i32Min]
      omega

theorem evalRet_not_err (r : Ret) (c : CmdSt) (p : Int) : evalRet r c p ≠ .err := by
  cases r <;> simp [evalRet]
  split <;> simp

-- ------------------------------------------------------------------------------------------------ applyAct
theorem finish_ok (r : Ret) (c' : CmdSt) (p : Int) (hr : ∀ site, evalRet r c' p ≠ .panic site) :
    ∃ b, finish r c' p = .ok c' b := by
  unfold finish
  cases he : evalRet r c' p with
  | ok b => exact ⟨b, rfl⟩
  | err => exact absurd he (evalRet_not_err r c' p)
  | panic s => exact absurd he (hr s)

/-- an ordinary arm never panics; it leaves the vector alone and changes at most the one integer it parses into -/
theorem applyAct_plain (a : Act) (r : Ret) (c : CmdSt) (p : Int) (ch : Nat)
    (ha1 : isDigitUnwrap a = false) (ha2 : isVdigit a = false) (hr : isLtPoly r = false) :
    (∀ site, applyAct true a r c p ch ≠ .panic site) ∧
    (∀ c' b, applyAct true a r c p ch = .ok c' b → c'.vec = c.vec ∧
        ∀ i j, a = .digit i → getInt c' j = getInt c j ∨ (i = j ∧ ∃ d : Nat, d < 36 ∧ getInt c' j = getInt c j * 36 + d)) := by
  have hnp : ∀ c' site, evalRet r c' p ≠ .panic site := by
    intro c' site
    apply evalRet_no_panic
    intro i hi; subst hi; simp [isLtPoly] at hr
  cases a with
  | digit i =>
    simp only [applyAct]
    cases hp : parseBase36 true (getInt c i) ch with
    | ok v =>
      obtain ⟨d, hd, hv, _⟩ := parseBase36_ok hp
      have hd36 := digit36_lt hd
      obtain ⟨b', hb⟩ := finish_ok r (setInt c i v) p (hnp _)
      simp only [hb]
      constructor
      · intro site h; cases h
      · intro c' b h
        cases h
        refine ⟨rfl, ?_⟩
        intro i' j hi'
        cases hi'
        by_cases hij : i = j
        · subst hij
          rcases getInt_setInt_lt c i v with h1 | h1
          · right; exact ⟨rfl, d, hd36, by rw [h1, hv]⟩
          · left; exact h1
        · left; exact getInt_setInt_ne c i j v hij
    | err => simp
    | panic s => exact absurd hp (parseBase36_checked_no_panic _ _ _)
  | digitUnwrap i => simp [isDigitUnwrap] at ha1
  | vdigit => simp [isVdigit] at ha2
  | flag i =>
    simp only [applyAct]
    obtain ⟨b', hb⟩ := finish_ok r (setInt c i (if ch = 49 then 1 else 0)) p (hnp _)
    simp only [hb]
    constructor
    · intro site h; cases h
    · intro c' b h
      cases h
      exact ⟨rfl, fun i' j hi' => by cases hi'⟩
  | push s' =>
    simp only [applyAct]
    obtain ⟨b', hb⟩ := finish_ok r (setStr c s' (getStr c s' ++ [ch])) p (hnp _)
    simp only [hb]
    constructor
    · intro site h; cases h
    · intro c' b h
      cases h
      exact ⟨rfl, fun i' j hi' => by cases hi'⟩
  | setc s' =>
    simp only [applyAct]
    obtain ⟨b', hb⟩ := finish_ok r (setStr c s' [ch]) p (hnp _)
    simp only [hb]
    constructor
    · intro site h; cases h
    · intro c' b h
      cases h
      exact ⟨rfl, fun i' j hi' => by cases hi'⟩
  | dollar s' =>
    simp only [applyAct]
    by_cases hc : ch = 36
    · simp only [hc, if_true]
      constructor
      · intro site h; cases h
      · intro c' b h
        cases h
        exact ⟨rfl, fun i' j hi' => by cases hi'⟩
    · simp only [hc, if_false]
      obtain ⟨b', hb⟩ := finish_ok r (setStr c s' (getStr c s' ++ [ch])) p (hnp _)
      simp only [hb]
      constructor
      · intro site h; cases h
      · intro c' b h
        cases h
        exact ⟨rfl, fun i' j hi' => by cases hi'⟩

/-- the vector arm: never panics as long as the vector is non-empty in odd states and the polygon count is small -/
theorem applyAct_vdigit (r : Ret) (c : CmdSt) (p : Int) (ch : Nat)
    (hv : p % 2 = 1 → c.vec ≠ [])
    (hr : ∀ i, r = .ltPoly i → 0 ≤ getInt c i ∧ getInt c i < 1296) :
    (∀ site, applyAct true .vdigit r c p ch ≠ .panic site) ∧
    (∀ c' b, applyAct true .vdigit r c p ch = .ok c' b → c'.vec ≠ [] ∧ c'.ints = c.ints) := by
  simp only [applyAct]
  have hne : (if p % 2 = 0 then c.vec ++ [0] else c.vec) ≠ [] := by
    by_cases h0 : p % 2 = 0
    · simp [h0]
    · simp only [h0, if_false]
      apply hv
      omega
  cases hl : (if p % 2 = 0 then c.vec ++ [0] else c.vec).getLast? with
  | none =>
    exfalso
    rw [List.getLast?_eq_none_iff] at hl
    exact hne hl
  | some last =>
    simp only []
    cases hp : parseBase36 true last ch with
    | err => simp
    | panic s => exact absurd hp (parseBase36_checked_no_panic _ _ _)
    | ok v =>
      simp only []
      have hnp : ∀ site, evalRet r { c with vec := (if p % 2 = 0 then c.vec ++ [0] else c.vec).dropLast ++ [v] } p ≠ .panic site := by
        intro site
        apply evalRet_no_panic
        intro i hi
        exact hr i hi
      obtain ⟨b', hb⟩ := finish_ok r _ p hnp
      simp only [hb]
      constructor
      · intro site h; cases h
      · intro c' b h
        cases h
        exact ⟨by simp, rfl⟩

-- ------------------------------------------------------------------------------------------------ cmdParse
theorem findArm_some {arms : List Arm} {n : Nat} {a : Arm} (h : findArm arms n = some a) :
    a ∈ arms ∧ a.lo ≤ n ∧ n ≤ a.hi := by
  unfold findArm at h
  have h1 := List.mem_of_find?_eq_some h
  have h2 := List.find?_some h
  simp at h2
  exact ⟨h1, h2⟩

theorem dfltOk_vdigit {arms : List Arm} {r : Ret} (h : dfltOk arms (some (.vdigit, r)) = true) :
    (∃ i, r = .ltPoly i ∧ arms = [⟨0, 1, .digit i, .t⟩]) ∨ (arms = [] ∧ isLtPoly r = false) := by
  cases r with
  | ltPoly i =>
    left
    simp [dfltOk, polyArms] at h
    exact ⟨i, rfl, h⟩
  | t => right; simp [dfltOk] at h; simpa [isLtPoly] using h
  | f => right; simp [dfltOk] at h; simpa [isLtPoly] using h
  | lt n => right; simp [dfltOk] at h; simpa [isLtPoly] using h

theorem dfltOk_other {arms : List Arm} {a : Act} {r : Ret} (h : dfltOk arms (some (a, r)) = true) (hv : isVdigit a = false) :
    isDigitUnwrap a = false ∧ isLtPoly r = false := by
  cases a <;> simp_all [dfltOk, isVdigit, isDigitUnwrap]

theorem cmdParse_good (spec : CmdSpec) (hok : specOk spec = true) (c : CmdSt) (p : Int) (ch : Nat)
    (hp : 0 ≤ p) (hg : CmdGood spec c p) :
    (∀ site, cmdParse true spec c p ch ≠ .panic site) ∧
    (∀ c', cmdParse true spec c p ch = .ok c' true → CmdGood spec c' (p + 1)) := by
  simp only [specOk, Bool.and_eq_true, List.all_eq_true] at hok
  obtain ⟨harms, hd⟩ := hok
  obtain ⟨hg1, hg2⟩ := hg
  simp only [cmdParse, hp, if_true]
  cases hf : findArm spec.arms p.toNat with
  | some a =>
    simp only []
    obtain ⟨hmem, hlo, hhi⟩ := findArm_some hf
    have hak := harms a hmem
    simp only [armOk, Bool.and_eq_true, Bool.not_eq_true'] at hak
    obtain ⟨⟨hk1, hk2⟩, hk3⟩ := hak
    obtain ⟨hnp, hres⟩ := applyAct_plain a.act a.ret c p ch hk1 hk2 hk3
    refine ⟨hnp, ?_⟩
    intro c' hc'
    obtain ⟨hvec, hints⟩ := hres c' true hc'
    constructor
    · intro r hdf hodd hvs
      rw [hdf] at hd
      rcases dfltOk_vdigit hd with ⟨i, _, harm⟩ | ⟨harm, _⟩
      · rw [harm] at hmem
        simp at hmem
        subst hmem
        simp only [vstart, harm] at hvs
        simp at hlo hhi hvs
        omega
      · rw [harm] at hmem; simp at hmem
    · intro i hdf
      rw [hdf] at hd
      rcases dfltOk_vdigit hd with ⟨i', hi', harm⟩ | ⟨_, hl⟩
      · cases hi'
        rw [harm] at hmem
        simp at hmem
        subst hmem
        simp at hlo hhi
        obtain ⟨h0, hz, h1, h2⟩ := hg2 i hdf
        rcases hints i i rfl with he | ⟨_, d, hd36, he⟩
        · rw [he]
          refine ⟨h0, ?_, ?_, h2⟩
          · intro h; omega
          · intro h
            have : p = 0 := by omega
            rw [hz this]; omega
        · rw [he]
          refine ⟨by omega, ?_, ?_, ?_⟩
          · intro h; omega
          · intro h
            have : p = 0 := by omega
            rw [hz this]; omega
          · by_cases hp0 : p = 0
            · rw [hz hp0]; omega
            · have : p = 1 := by omega
              have := h1 this
              omega
      · simp [isLtPoly] at hl
  | none =>
    simp only []
    cases hdf : spec.dflt with
    | none => simp
    | some ar =>
      obtain ⟨a, r⟩ := ar
      simp only []
      rw [hdf] at hd
      by_cases hv : isVdigit a = true
      · have : a = .vdigit := by cases a <;> simp [isVdigit] at hv ⊢
        subst this
        have hvs : vstart spec ≤ p := by
          rcases dfltOk_vdigit hd with ⟨i, _, harm⟩ | ⟨harm, _⟩
          · simp only [vstart, harm]
            rw [harm] at hf
            simp [findArm] at hf
            simp
            omega
          · simp [vstart, harm]; omega
        have hvec : p % 2 = 1 → c.vec ≠ [] := fun ho => hg1 r hdf ho hvs
        have hr : ∀ i, r = .ltPoly i → 0 ≤ getInt c i ∧ getInt c i < 1296 := by
          intro i hi
          subst hi
          obtain ⟨h0, _, _, h2⟩ := hg2 i hdf
          exact ⟨h0, h2⟩
        obtain ⟨hnp, hres⟩ := applyAct_vdigit r c p ch hvec hr
        refine ⟨hnp, ?_⟩
        intro c' hc'
        obtain ⟨hne, hints⟩ := hres c' true hc'
        constructor
        · intro r' _ _ _; exact hne
        · intro i hdf'
          rw [hdf] at hdf'
          cases hdf'
          obtain ⟨h0, hz, h1, h2⟩ := hg2 i hdf
          have hge : 2 ≤ p := by
            rcases dfltOk_vdigit hd with ⟨i', hi', harm⟩ | ⟨_, hl⟩
            · simp only [vstart, harm] at hvs; simp at hvs; omega
            · simp [isLtPoly] at hl
          have : getInt c' i = getInt c i := by simp [getInt, hints]
          rw [this]
          exact ⟨h0, by intro h; omega, by intro h; omega, h2⟩
      · have hv' : isVdigit a = false := by simpa using hv
        obtain ⟨hk1, hk3⟩ := dfltOk_other hd hv'
        obtain ⟨hnp, hres⟩ := applyAct_plain a r c p ch hk1 hv' hk3
        refine ⟨hnp, ?_⟩
        intro c' hc'
        constructor
        · intro r' hdf' _ _
          rw [hdf] at hdf'
          cases hdf'
          simp [isVdigit] at hv'
        · intro i hdf'
          rw [hdf] at hdf'
          cases hdf'
          simp [isVdigit] at hv'

-- ------------------------------------------------------------------------------------------------ the command index is stable
theorem finish_ok_eq {r : Ret} {c' c'' : CmdSt} {p : Int} {b : Bool} (h : finish r c' p = .ok c'' b) : c'' = c' := by
  unfold finish at h
  cases he : evalRet r c' p with
  | ok b' => simp [he] at h; exact h.1.symm
  | err => simp [he] at h
  | panic s => simp [he] at h

theorem applyAct_idx {chk : Bool} {a : Act} {r : Ret} {c c' : CmdSt} {p : Int} {ch : Nat} {b : Bool}
    (h : applyAct chk a r c p ch = .ok c' b) : c'.idx = c.idx := by
  cases a with
  | digit i =>
    simp only [applyAct] at h
    cases hp : parseBase36 chk (getInt c i) ch with
    | ok v => simp only [hp] at h; rw [finish_ok_eq h]; rfl
    | err => simp [hp] at h
    | panic s => simp [hp] at h
  | digitUnwrap i =>
    simp only [applyAct] at h
    cases hd : digit36? ch with
    | some d => simp only [hd] at h; rw [finish_ok_eq h]; rfl
    | none => simp [hd] at h
  | flag i => simp only [applyAct] at h; rw [finish_ok_eq h]; rfl
  | push s' => simp only [applyAct] at h; rw [finish_ok_eq h]; rfl
  | setc s' => simp only [applyAct] at h; rw [finish_ok_eq h]; rfl
  | dollar s' =>
    simp only [applyAct] at h
    by_cases hc : ch = 36
    · simp [hc] at h; rw [h.1]
    · simp only [hc, if_false] at h; rw [finish_ok_eq h]; rfl
  | vdigit =>
    simp only [applyAct] at h
    cases hl : (if p % 2 = 0 then c.vec ++ [0] else c.vec).getLast? with
    | none => simp [hl] at h
    | some last =>
      simp only [hl] at h
      cases hp : parseBase36 chk last ch with
      | ok v => simp only [hp] at h; rw [finish_ok_eq h]
      | err => simp [hp] at h
      | panic s => simp [hp] at h

theorem cmdParse_idx {chk : Bool} {spec : CmdSpec} {c c' : CmdSt} {p : Int} {ch : Nat} {b : Bool}
    (h : cmdParse chk spec c p ch = .ok c' b) : c'.idx = c.idx := by
  unfold cmdParse at h
  split at h
  · exact applyAct_idx h
  · split at h
    · exact applyAct_idx h
    · cases h

end IcyVerif.Rip
