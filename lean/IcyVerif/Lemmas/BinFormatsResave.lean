import IcyVerif.Lemmas.BinFormatsResaveTnd
set_option linter.unusedSimpArgs false
set_option linter.unusedVariables false
/-!
# C05: re-save stability for every file the loaders accept — the per-format statements

`Restable f o date g`: the picture the loaded buffer `g` shows is written by `save`, and the written file loads to the same
picture (with a SAUCE record always; without one unless its tail reads as a SAUCE record — the guard of `rt_nosauce_partial`).
-/
namespace IcyVerif.BinFormats
open IcyVerif.XbCompress IcyVerif.Gen

def Restable (f : Fmt) (o : Opts) (date : List Nat) (g : LBuf) : Prop :=
  ∃ b₂, save f o date g.toPic = .ok b₂ ∧
    ((o.sauce = true ∨ tailReadsAsSauce b₂ = false) → ∃ g₂, fromBytes f b₂ = .ok g₂ ∧ SamePicture f g.toPic g₂)

/-- an accepted file: the SAUCE split and the loader's verdict -/
theorem fromBytes_ok (f : Fmt) (bytes : List Nat) (hb : ∀ b ∈ bytes, b < 256) (g : LBuf) (h : fromBytes f bytes = .ok g) :
    ∃ content s, loadBody f content s = .ok g ∧ (∀ b ∈ content, b < 256) ∧ metaOk (s.map metaOf) = true ∧
      (∀ s', s = some s' → s'.width < 65536) ∧ content.length ≤ bytes.length ∧
      Sauce.fromBytesSplit dateOk bytes = .ok (content, s) := by
  unfold fromBytes at h
  cases hs : Sauce.fromBytesSplit dateOk bytes with
  | ok r =>
    obtain ⟨content, s⟩ := r
    rw [hs] at h
    obtain ⟨h1, h2⟩ := metaOk_split bytes hb content s hs
    refine ⟨content, s, h, h2, h1, split_width bytes hb content s hs, ?_, rfl⟩
    have := IcyVerif.C11.from_bytes_split_total dateOk bytes
    -- the content is a prefix of the file
    unfold Sauce.fromBytesSplit at hs
    cases hx : Sauce.extract dateOk bytes with
    | ok o =>
      rw [hx] at hs
      cases o with
      | none =>
        simp only at hs
        obtain ⟨c, hc, hs⟩ := Sauce.bind_eq_ok hs
        have e := congrArg Prod.fst (Sauce.Res.ok.inj hs)
        simp only at e
        unfold Sauce.slice at hc
        split at hc
        · rw [← e, ← Sauce.Res.ok.inj hc]; simp
        · cases hc
      | some s' =>
        simp only at hs
        obtain ⟨len, _, hs⟩ := Sauce.bind_eq_ok hs
        obtain ⟨c, hc, hs⟩ := Sauce.bind_eq_ok hs
        have e := congrArg Prod.fst (Sauce.Res.ok.inj hs)
        simp only at e
        unfold Sauce.slice at hc
        split at hc
        · rw [← e, ← Sauce.Res.ok.inj hc]; simp; omega
        · cases hc
    | err e' =>
      rw [hx] at hs
      simp only at hs
      obtain ⟨c, hc, hs⟩ := Sauce.bind_eq_ok hs
      have e := congrArg Prod.fst (Sauce.Res.ok.inj hs)
      simp only at e
      unfold Sauce.slice at hc
      split at hc
      · rw [← e, ← Sauce.Res.ok.inj hc]; simp
      · cases hc
    | panic site => rw [hx] at hs; cases hs
  | err e => rw [hs] at h; cases h
  | panic site => rw [hs] at h; cases h

/-- **BIN**: every accepted file with at least one row, re-saved with a SAUCE record: the same picture — or, when the loaded
    width is odd or above 510 (a foreign SAUCE record said so), the writer refuses -/
theorem bin_resave (o : Opts) (date bytes : List Nat) (g : LBuf) (hb : ∀ b ∈ bytes, b < 256) (hdate : dateOk date = true)
    (hs : o.sauce = true) (hload : fromBytes .bin bytes = .ok g) (hh : 1 ≤ g.bh) :
    (g.bw % 2 = 0 ∧ g.bw ≤ 510 → Restable .bin o date g) ∧ (¬ (g.bw % 2 = 0 ∧ g.bw ≤ 510) → save .bin o date g.toPic = .err) := by
  obtain ⟨content, s, hl, hcb, hm, _, _, _⟩ := fromBytes_ok .bin bytes hb g hload
  have hr := bin_range content hcb s g hl
  have hmg : metaOk g.sauce = true := by rw [hr.sauce]; exact hm
  constructor
  · intro ⟨h1, h2⟩
    have hrep := bin_loaded_representable o s g hr hmg hs hh h1 h2
    obtain ⟨b₂, g₂, q1, q2, q3⟩ := bin_roundtrip o date g.toPic hrep hdate
    exact ⟨b₂, q1, fun _ => ⟨g₂, q2, q3⟩⟩
  · intro hn
    exact bin_loaded_refused o date s g hr hmg hs (by omega)

/-- **ADF**: every accepted file with 1..=65535 rows -/
theorem adf_resave (o : Opts) (date bytes : List Nat) (g : LBuf) (hb : ∀ b ∈ bytes, b < 256) (hdate : dateOk date = true)
    (hload : fromBytes .adf bytes = .ok g) (hh : 1 ≤ g.bh) (hh2 : g.bh ≤ 65535) : Restable .adf o date g := by
  obtain ⟨content, s, hl, hcb, hm, _, _, _⟩ := fromBytes_ok .adf bytes hb g hload
  have hr := adf_range content hcb s g hl
  have hmg : metaOk g.sauce = true := by rw [hr.sauce]; exact hm
  exact adf_roundtrip o date g.toPic (adf_loaded_representable o s g hr hmg hh hh2) hdate

/-- **XBin**: every accepted file with at least one row — PARTIAL: excluded are 512-character files whose cells all use
    the second font (re-saved as a one-font file: the same glyphs under another
    slot number — true under the weaker comparison `picSame false`, checked by the oracle and the correspondence run) -/
theorem xb_resave_partial (o : Opts) (date bytes : List Nat) (g : LBuf) (hb : ∀ b ∈ bytes, b < 256) (hdate : dateOk date = true)
    (hload : fromBytes .xb bytes = .ok g) (hh : 1 ≤ g.bh)
    (hp1 : analyzeFontUsage g.toPic.rows.flatten ≠ [1]) : Restable .xb o date g := by
  obtain ⟨content, s, hl, hcb, hm, _, _, _⟩ := fromBytes_ok .xb bytes hb g hload
  have hr := xb_range content hcb s g hl
  have hmg : metaOk g.sauce = true := by rw [hr.sauce]; exact hm
  exact xb_roundtrip o date g.toPic (xb_loaded_representable o s g hr hmg hh hp1) hdate

/-- **IDF**: every accepted file that announces at most 80 columns (the layer iCE Draw files are loaded into is 80 columns
    wide; PARTIAL: wider headers are excluded, the statement is not known to fail there): up to 200 rows the same picture,
    above that the writer refuses -/
theorem idf_resave_partial (o : Opts) (date bytes : List Nat) (g : LBuf) (hb : ∀ b ∈ bytes, b < 256) (hdate : dateOk date = true)
    (hload : fromBytes .idf bytes = .ok g) (hh : 1 ≤ g.bh) (hw : g.bw ≤ 80) :
    (g.bh ≤ 200 → Restable .idf o date g) ∧ (g.bh > 200 → save .idf o date g.toPic = .err) := by
  obtain ⟨content, s, hl, hcb, hm, _, _, _⟩ := fromBytes_ok .idf bytes hb g hload
  have hr := idf_range content hcb s g hl
  have hmg : metaOk g.sauce = true := by rw [hr.sauce]; exact hm
  exact ⟨fun h2 => idf_roundtrip o date g.toPic (idf_loaded_representable o s g hr hmg hh h2 hw) hdate,
    fun h2 => idf_loaded_refused o date s g hr h2⟩

/-- **Tundra**: every accepted file below 2 GiB with at least one row and fewer than 2^30 cells, re-saved with a SAUCE
    record (or 80 columns wide) -/
theorem tnd_resave (o : Opts) (date bytes : List Nat) (g : LBuf) (hb : ∀ b ∈ bytes, b < 256) (hdate : dateOk date = true)
    (hload : fromBytes .tnd bytes = .ok g) (hlen : bytes.length + 8 ≤ 2147483648) (hh : 1 ≤ g.bh)
    (harea : g.bw * g.bh.toNat < 1073741824) (hs : o.sauce = true ∨ g.bw = 80) : Restable .tnd o date g := by
  obtain ⟨content, s, hl, hcb, hm, hsw, hcl, _⟩ := fromBytes_ok .tnd bytes hb g hload
  have hr := tnd_range content hcb s hsw g hl
  have hmg : metaOk g.sauce = true := by rw [hr.sauce]; exact hm
  exact tnd_roundtrip o date g.toPic (tnd_loaded_representable o _ s g hr hmg (by omega) hh harea hs) hdate

/-! ## SAUCE-carrying saves -/

/-- the SAUCE variant each writer hands to `write_sauce_info` -/
def kindOf : Fmt → SauceKind
  | .xb => .xbin
  | .bin => .bin
  | .adf => .ansi
  | .idf => .bin
  | .tnd => .tundra

/-- a file saved with `save_sauce` is `write_sauce_info` applied to the format's own bytes -/
theorem save_sauce_form (f : Fmt) (o : Opts) (date : List Nat) (p : Pic) (bytes : List Nat) (hs : o.sauce = true)
    (h : save f o date p = .ok bytes) : ∃ body, writeSauce (kindOf f) p date body = .ok bytes := by
  cases f
  · simp only [save, xbSave, hs, if_true] at h
    repeat' split at h
    all_goals first | cases h | exact ⟨_, h⟩
  · simp only [save, binSave, hs, if_true] at h
    repeat' split at h
    all_goals first | cases h | exact ⟨_, h⟩
  · simp only [save, adfSave, hs, if_true] at h
    repeat' split at h
    all_goals first | cases h | exact ⟨_, h⟩
  · simp only [save, idfSave, hs, if_true] at h
    repeat' split at h
    all_goals first | cases h | exact ⟨_, h⟩
  · simp only [save, tndSave, hs, if_true] at h
    repeat' split at h
    all_goals first | cases h | exact ⟨_, h⟩

/-- the SAUCE data a loader keeps is the record `from_bytes` found -/
theorem loaded_sauce (f : Fmt) (content : List Nat) (hcb : ∀ b ∈ content, b < 256) (s : Option Sauce.Sauce)
    (hsw : ∀ s', s = some s' → s'.width < 65536) (g : LBuf) (h : loadBody f content s = .ok g) : g.sauce = s.map metaOf := by
  cases f
  · exact (xb_range content hcb s g h).sauce
  · exact (bin_range content hcb s g h).sauce
  · exact (adf_range content hcb s g h).sauce
  · exact (idf_range content hcb s g h).sauce
  · exact (tnd_range content hcb s hsw g h).sauce

/-- **title, author, group and comments survive the binary round trip** (every format, every picture the writer accepts):
    the buffer loaded from a file saved with SAUCE keeps exactly what the SAUCE fields carry of the saved buffer's texts —
    the text without its trailing blanks (a field that is blank altogether reads back as the blank field), comment lines
    up to their first NUL -/
theorem sauce_texts_roundtrip (f : Fmt) (o : Opts) (date : List Nat) (p : Pic) (bytes : List Nat) (g : LBuf)
    (hs : o.sauce = true) (hm : metaOk p.sauce = true) (hdate : dateOk date = true) (hb : ∀ b ∈ bytes, b < 256)
    (hsave : save f o date p = .ok bytes) (hload : fromBytes f bytes = .ok g) :
    ∃ m, g.sauce = some m ∧
      m.title = Sauce.carryPad Gen.Sauce.titleLen Gen.Sauce.titlePad (p.sauce.getD {}).title ∧
      m.author = Sauce.carryPad Gen.Sauce.authorLen Gen.Sauce.authorPad (p.sauce.getD {}).author ∧
      m.group = Sauce.carryPad Gen.Sauce.groupLen Gen.Sauce.groupPad (p.sauce.getD {}).group ∧
      m.comments = (p.sauce.getD {}).comments.map Sauce.carryNul := by
  obtain ⟨body, hw⟩ := save_sauce_form f o date p bytes hs hsave
  obtain ⟨content, s, hl, hcb, _, hsw, _, hsplit⟩ := fromBytes_ok f bytes hb g hload
  -- the writer's side: which record the file ends in
  have hw' := hw
  unfold writeSauce at hw'
  split at hw'
  · cases hw'
  · split at hw'
    · cases hw'
    · rename_i f0 hf0
      split at hw'
      · rename_i bs hwi
        have hbs : bs = bytes := Out.ok.inj hw'
        subst hbs
        obtain ⟨hv, _⟩ := metaOk_valid p f0.name hm
        have hsp := IcyVerif.C11.load_ignores_sauce dateOk (kindOf f).idx (kind_lt _) (bufInfo p f0.name) hv date
          (dateOk_length date hdate) hdate body bs hwi
        rw [hsp] at hsplit
        have e := Sauce.Res.ok.inj hsplit
        have e2 : some (Sauce.carry (kindOf f).idx (bufInfo p f0.name) (bs.length - body.length)) = s := congrArg Prod.snd e
        have hgs := loaded_sauce f content hcb s hsw g hl
        rw [← e2] at hgs
        obtain ⟨t1, t2, t3, t4⟩ := metaOf_carry (kindOf f) p f0.name (bs.length - body.length)
        exact ⟨_, hgs, t1, t2, t3, t4⟩
      · cases hw'
      · cases hw'

/-! ## fonts referenced by SAUCE name (BIN has no font block) -/

/-- a SAUCE font name written into TInfoS reads back as itself -/
theorem tinfo_name_rt (name : List Nat) (h1 : name.length ≤ 22) (h2 : name.contains 0 = false) (h3 : name.getLast? ≠ some 32) (h4 : name ≠ []) :
    Sauce.strText (Sauce.carryNul (Sauce.strFrom Gen.Sauce.tinfoLen name)) = name := by
  have ht : Gen.Sauce.tinfoLen = 22 := rfl
  have e1 : Sauce.strFrom Gen.Sauce.tinfoLen name = name := by
    unfold Sauce.strFrom; rw [ht]; exact List.take_of_length_le h1
  have h0 : 0 ∉ name := by
    intro hc
    have : name.contains 0 = true := List.contains_iff_mem.mpr hc
    rw [h2] at this; cases this
  have e2 : Sauce.carryNul name = name := Sauce.takeWhile_ne_zero_self name h0
  rw [e1, e2]
  unfold Sauce.strText Sauce.strLen
  obtain ⟨l, hl⟩ := List.getLast?_isSome.mpr h4 |> Option.isSome_iff_exists.mp
  obtain ⟨ys, hys⟩ := List.getLast?_eq_some_iff.mp hl
  have hrev : name.reverse = l :: ys.reverse := by rw [hys]; simp
  have hl0 : l ≠ 0 := by
    intro hc; subst hc
    exact h0 (List.mem_of_getLast? hl)
  have hl32 : l ≠ 32 := by
    intro hc; subst hc; exact h3 hl
  have hstrip : Gen.Sauce.stripSet.contains l = false := by
    have : Gen.Sauce.stripSet = [0, 32] := rfl
    rw [this]; simp [hl0, hl32]
  rw [hrev, List.dropWhile_cons, hstrip]
  simp only [Bool.false_eq_true, if_false]
  rw [← hrev, List.length_reverse, List.take_length]

/-- **BIN, font by SAUCE name**: a picture whose font 0 is one of the fonts `BitFont::from_sauce_name` knows (name AND glyphs
    from the regenerated table) comes back with exactly that font in slot 0 — the format stores no glyphs, the name in TInfoS
    carries the font -/
theorem bin_font_by_name (o : Opts) (date : List Nat) (p : Pic) (f0 : Font) (hrep : Representable .bin o p = true)
    (hdate : dateOk date = true) (hf0 : lookupFont p.fonts 0 = some f0) (hn : sauceFontByName f0.name = some f0) :
    ∃ bytes g, save .bin o date p = .ok bytes ∧ fromBytes .bin bytes = .ok g ∧ SamePicture .bin p g ∧ lookupFont g.fonts 0 = some f0 := by
  have hrep' := hrep
  unfold Representable at hrep
  simp only [Bool.and_eq_true, beq_iff_eq, decide_eq_true_eq] at hrep
  obtain ⟨⟨hmeta, hwf⟩, ⟨⟨⟨⟨⟨⟨⟨hev, hw2⟩, hw510⟩, hs⟩, hcells⟩, hpal⟩, hpages⟩, hfont⟩⟩ := hrep
  let body := p.rows.flatMap fun row => row.flatMap fun c => [c.ch % 256, asU8' p.ice c.attr]
  obtain ⟨bytes, hw, _, hfb⟩ := fromBytes_sauced .bin .bin p date body f0 hf0 hmeta (fun _ => by omega) hdate
  obtain ⟨c1, _, c3, c4⟩ := carry_bin p f0.name (bytes.length - body.length)
  have hcw : (Sauce.carry SauceKind.bin.idx (bufInfo p f0.name) (bytes.length - body.length)).width = p.w := by rw [c1]; omega
  -- the name survives TInfoS
  have hname : (Sauce.carry SauceKind.bin.idx (bufInfo p f0.name) (bytes.length - body.length)).font = some f0.name := by
    rw [c4]
    unfold sauceFontByName at hn
    cases hf : BinFonts.sauceFonts.find? (fun e => e.1 == f0.name) with
    | none => rw [hf] at hn; cases hn
    | some e =>
      rw [hf] at hn
      have hm := List.mem_of_find?_eq_some hf
      have hq := List.all_eq_true.mp sauceFonts_names e hm
      simp only [Bool.and_eq_true, decide_eq_true_eq, Bool.not_eq_true', bne_iff_ne, ne_eq] at hq
      obtain ⟨⟨⟨⟨q1, q2⟩, q3⟩, q4⟩, _⟩ := hq
      have he : e.1 = f0.name := by
        have := List.find?_some hf
        simpa using this
      rw [he] at q1 q2 q3 q4
      rw [tinfo_name_rt f0.name q1 q2 q3 q4]
  generalize Sauce.carry SauceKind.bin.idx (bufInfo p f0.name) (bytes.length - body.length) = sc at hfb c3 hcw hname
  refine ⟨bytes, binLoaded p sc, ?_, ?_, samePicture_bin p sc hwf c3 hpal, ?_⟩
  · show binSave o.sauce date p = .ok bytes
    unfold binSave
    have : ¬ (p.w % 2 ≠ 0) := by omega
    simp only [this, if_false, hs, if_true]
    exact hw
  · rw [hfb]
    exact bin_load p sc hwf (by omega) (by omega) hcw c3 hcells hpages
  · show lookupFont (startFonts sc) 0 = some f0
    unfold startFonts
    rw [hname]
    simp only [Option.bind_some, hn]
    simp [lookupFont, setFont, List.lookup]

end IcyVerif.BinFormats
