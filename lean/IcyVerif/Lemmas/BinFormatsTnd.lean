import IcyVerif.Lemmas.BinFormatsIdf
set_option linter.unusedSimpArgs false
set_option linter.unusedVariables false
/-!
# C05, Tundra: writer and loader in lock step (specification level)

`jstep` is what one cell does to the WRITER's running attribute and, through the bytes written for it, to the LOADER's
growing palette and running colour indices.  `jrows_good`: for every picture, every loaded cell carries palette indices
whose colours — in the palette as it is at the END of loading — are the colours the saved cell is displayed with.
The invariant: once the first cell is through, the loader's running foreground/background indices denote the colours of
the writer's running attribute.
-/
namespace IcyVerif.BinFormats
open IcyVerif.XbCompress IcyVerif.Gen

/-- joint state: the writer's running attribute and "first cell" flag, the loader's palette and running indices -/
structure JS where
  wattr : Attr
  first : Bool
  lpal : List Rgb
  lfg : Nat
  lbg : Nat

def ctlChar (ch : Nat) : Bool := decide (BinFmt.tndCtlLo ≤ ch) && decide (ch ≤ BinFmt.tndCtlHi)

/-- the writer's two decisions for a cell -/
def wfOf (P : List Rgb) (s : JS) (c : Cell) : Bool :=
  getRgb P (tndShown s.wattr) != getRgb P (tndShown c.attr) || isBold s.wattr != isBold c.attr || ctlChar c.ch || s.first

def wbOf (P : List Rgb) (s : JS) (c : Cell) : Bool :=
  getRgb P s.wattr.bg != getRgb P c.attr.bg || s.first

def jstep (P : List Rgb) (s : JS) (c : Cell) : JS × Cell :=
  let wf := wfOf P s c
  let wb := wbOf P s c
  let r1 := if wf then insertColor s.lpal (getRgb P (tndShown c.attr)) else (s.lpal, s.lfg)
  let r2 := if wb then insertColor r1.1 (getRgb P c.attr.bg) else (r1.1, s.lbg)
  ({ wattr := if wf || wb then c.attr else s.wattr, first := false, lpal := r2.1, lfg := r1.2, lbg := r2.2 },
   ⟨c.ch, ⟨r1.2, r2.2, 0, Xb.defaultPage⟩⟩)

def jrow (P : List Rgb) : JS → List Cell → JS × List Cell
  | s, [] => (s, [])
  | s, c :: cs =>
    let r := jstep P s c
    let t := jrow P r.1 cs
    (t.1, r.2 :: t.2)

def jrows (P : List Rgb) : JS → List (List Cell) → JS × List (List Cell)
  | s, [] => (s, [])
  | s, r :: rs =>
    let a := jrow P s r
    let t := jrows P a.1 rs
    (t.1, a.2 :: t.2)

theorem jrow_append (P : List Rgb) : ∀ (a b : List Cell) (s : JS),
    jrow P s (a ++ b) = ((jrow P (jrow P s a).1 b).1, (jrow P s a).2 ++ (jrow P (jrow P s a).1 b).2) := by
  intro a
  induction a with
  | nil => intro b s; simp [jrow]
  | cons c cs ih => intro b s; simp [jrow, ih]

/-- processing row by row is processing the flat cell list -/
theorem jrows_flatten (P : List Rgb) : ∀ (rows : List (List Cell)) (s : JS),
    jrow P s rows.flatten = ((jrows P s rows).1, (jrows P s rows).2.flatten) := by
  intro rows
  induction rows with
  | nil => intro s; simp [jrow, jrows]
  | cons r rs ih =>
    intro s
    simp only [List.flatten_cons, jrow_append, jrows, ih]

theorem jrow_length (P : List Rgb) : ∀ (cs : List Cell) (s : JS), (jrow P s cs).2.length = cs.length := by
  intro cs
  induction cs with
  | nil => intro s; rfl
  | cons c cs ih => intro s; simp [jrow, ih]

theorem jrows_lengths (P : List Rgb) : ∀ (rows : List (List Cell)) (s : JS),
    (jrows P s rows).2.length = rows.length ∧
    ∀ y, ((jrows P s rows).2.getD y []).length = (rows.getD y []).length := by
  intro rows
  induction rows with
  | nil => intro s; exact ⟨rfl, fun y => by simp [jrows]⟩
  | cons r rs ih =>
    intro s
    refine ⟨by simp [jrows, (ih _).1], fun y => ?_⟩
    cases y with
    | zero => simp [jrows, jrow_length]
    | succ y => simp only [jrows, List.getD_cons_succ]; exact (ih _).2 y

/-! ## palettes only grow -/

def Pref (a b : List Rgb) : Prop := ∃ t, b = a ++ t

theorem Pref.refl (a : List Rgb) : Pref a a := ⟨[], by simp⟩
theorem Pref.trans {a b c : List Rgb} (h1 : Pref a b) (h2 : Pref b c) : Pref a c := by
  obtain ⟨t1, rfl⟩ := h1; obtain ⟨t2, rfl⟩ := h2; exact ⟨t1 ++ t2, by simp⟩
theorem Pref.length_le {a b : List Rgb} (h : Pref a b) : a.length ≤ b.length := by
  obtain ⟨t, rfl⟩ := h; simp
theorem Pref.getD {a b : List Rgb} (h : Pref a b) (i : Nat) (hi : i < a.length) (d : Rgb) : b.getD i d = a.getD i d := by
  obtain ⟨t, rfl⟩ := h; exact getD_append_left' _ _ _ _ hi

/-- `insert_color_rgb`: the palette is extended by at most one entry, the answered index holds the colour -/
theorem insertColor_spec (pal : List Rgb) (c : Rgb) :
    Pref pal (insertColor pal c).1 ∧ (insertColor pal c).2 < (insertColor pal c).1.length ∧
    (insertColor pal c).1.getD (insertColor pal c).2 (0, 0, 0) = c ∧ (insertColor pal c).1.length ≤ pal.length + 1 := by
  unfold insertColor
  cases h : pal.findIdx? (· == c) with
  | none =>
    refine ⟨⟨[c], rfl⟩, by simp, ?_, by simp⟩
    simp only
    rw [getD_append_right' _ _ _ _ (Nat.le_refl _)]
    simp
  | some i =>
    have hi := List.findIdx?_eq_some_iff_getElem.mp h
    obtain ⟨hlt, hp, _⟩ := hi
    refine ⟨Pref.refl _, hlt, ?_, by simp⟩
    simp only
    rw [List.getD_eq_getElem?_getD, List.getElem?_eq_getElem hlt]
    simpa using hp

/-! ## the invariant and the loaded cells -/

/-- a loaded cell `d` shows, through palette `L`, what the saved cell `c` is displayed with -/
def Good (P L : List Rgb) (c d : Cell) : Prop :=
  d.ch = c.ch ∧ d.attr.flags = 0 ∧ d.attr.page = 0 ∧ d.attr.fg < L.length ∧ d.attr.bg < L.length ∧
  L.getD d.attr.fg (0, 0, 0) = getRgb P (tndShown c.attr) ∧ L.getD d.attr.bg (0, 0, 0) = getRgb P c.attr.bg

theorem Good.mono {P L L' : List Rgb} {c d : Cell} (h : Good P L c d) (hp : Pref L L') : Good P L' c d := by
  obtain ⟨h1, h2, h3, h4, h5, h6, h7⟩ := h
  have := hp.length_le
  exact ⟨h1, h2, h3, by omega, by omega, by rw [hp.getD _ h4]; exact h6, by rw [hp.getD _ h5]; exact h7⟩

/-- after the first cell: the loader's running indices denote the colours of the writer's running attribute -/
def JInv (P : List Rgb) (s : JS) : Prop :=
  s.first = false → s.lfg < s.lpal.length ∧ s.lbg < s.lpal.length ∧
    s.lpal.getD s.lfg (0, 0, 0) = getRgb P (tndShown s.wattr) ∧ s.lpal.getD s.lbg (0, 0, 0) = getRgb P s.wattr.bg

theorem jstep_good (P : List Rgb) (s : JS) (c : Cell) (hinv : JInv P s) :
    JInv P (jstep P s c).1 ∧ Pref s.lpal (jstep P s c).1.lpal ∧ Good P (jstep P s c).1.lpal c (jstep P s c).2 ∧
    (jstep P s c).1.lpal.length ≤ s.lpal.length + 2 ∧ (jstep P s c).1.first = false := by
  unfold jstep
  generalize hwf : wfOf P s c = wf
  generalize hwb : wbOf P s c = wb
  -- foreground
  obtain ⟨r1, hr1⟩ : ∃ r1, r1 = (if wf then insertColor s.lpal (getRgb P (tndShown c.attr)) else (s.lpal, s.lfg)) := ⟨_, rfl⟩
  have hfgfacts : Pref s.lpal r1.1 ∧ r1.2 < r1.1.length ∧ r1.1.getD r1.2 (0, 0, 0) = getRgb P (tndShown c.attr) ∧ r1.1.length ≤ s.lpal.length + 1 := by
    cases wf with
    | true =>
      simp only [if_true] at hr1
      rw [hr1]; exact insertColor_spec _ _
    | false =>
      simp only [Bool.false_eq_true, if_false] at hr1
      rw [hr1]
      have hnf : s.first = false := by
        unfold wfOf at hwf; simp only [Bool.or_eq_false_iff] at hwf; exact hwf.2
      obtain ⟨i1, _, i3, _⟩ := hinv hnf
      have heq : getRgb P (tndShown s.wattr) = getRgb P (tndShown c.attr) := by
        unfold wfOf at hwf; simp only [Bool.or_eq_false_iff, bne_eq_false_iff_eq] at hwf; exact hwf.1.1.1
      exact ⟨Pref.refl _, i1, by simp only; rw [i3, heq], by simp⟩
  obtain ⟨hp1, hlt1, hget1, hlen1⟩ := hfgfacts
  -- background
  obtain ⟨r2, hr2⟩ : ∃ r2, r2 = (if wb then insertColor r1.1 (getRgb P c.attr.bg) else (r1.1, s.lbg)) := ⟨_, rfl⟩
  have hbgfacts : Pref r1.1 r2.1 ∧ r2.2 < r2.1.length ∧ r2.1.getD r2.2 (0, 0, 0) = getRgb P c.attr.bg ∧ r2.1.length ≤ r1.1.length + 1 := by
    cases wb with
    | true =>
      simp only [if_true] at hr2
      rw [hr2]; exact insertColor_spec _ _
    | false =>
      simp only [Bool.false_eq_true, if_false] at hr2
      rw [hr2]
      have hnf : s.first = false := by
        unfold wbOf at hwb; simp only [Bool.or_eq_false_iff] at hwb; exact hwb.2
      obtain ⟨_, i2, _, i4⟩ := hinv hnf
      have heq : getRgb P s.wattr.bg = getRgb P c.attr.bg := by
        unfold wbOf at hwb; simp only [Bool.or_eq_false_iff, bne_eq_false_iff_eq] at hwb; exact hwb.1
      have := hp1.length_le
      exact ⟨Pref.refl _, by simp only; omega, by simp only; rw [hp1.getD _ i2, i4, heq], by simp⟩
  obtain ⟨hp2, hlt2, hget2, hlen2⟩ := hbgfacts
  dsimp only
  rw [← hr1, ← hr2]
  have hl12 := hp2.length_le
  have hget1' : r2.1.getD r1.2 (0, 0, 0) = getRgb P (tndShown c.attr) := by rw [hp2.getD _ hlt1]; exact hget1
  refine ⟨?_, hp1.trans hp2, ⟨rfl, rfl, rfl, (by show r1.2 < r2.1.length; omega), hlt2, hget1', hget2⟩,
    (by show r2.1.length ≤ s.lpal.length + 2; omega), rfl⟩
  intro _
  refine ⟨(by show r1.2 < r2.1.length; omega), hlt2, ?_, ?_⟩
  · -- the running foreground index denotes the new running attribute's colour
    by_cases hany : (wf || wb) = true
    · simp only [hany, if_true]; exact hget1'
    · have hboth : wf = false ∧ wb = false := by simpa using hany
      simp only [hboth.1, hboth.2, Bool.or_self, Bool.false_eq_true, if_false]
      have heq : getRgb P (tndShown s.wattr) = getRgb P (tndShown c.attr) := by
        have := hwf; rw [hboth.1] at this
        unfold wfOf at this; simp only [Bool.or_eq_false_iff, bne_eq_false_iff_eq] at this; exact this.1.1.1
      rw [heq]; exact hget1'
  · by_cases hany : (wf || wb) = true
    · simp only [hany, if_true]; exact hget2
    · have hboth : wf = false ∧ wb = false := by simpa using hany
      simp only [hboth.1, hboth.2, Bool.or_self, Bool.false_eq_true, if_false]
      have heq : getRgb P s.wattr.bg = getRgb P c.attr.bg := by
        have := hwb; rw [hboth.2] at this
        unfold wbOf at this; simp only [Bool.or_eq_false_iff, bne_eq_false_iff_eq] at this; exact this.1
      rw [heq]; exact hget2

/-- cell by cell along two lists -/
def allGood (P L : List Rgb) : List Cell → List Cell → Prop
  | [], [] => True
  | c :: cs, d :: ds => Good P L c d ∧ allGood P L cs ds
  | _, _ => False

theorem allGood.mono {P L L' : List Rgb} : ∀ {cs ds : List Cell}, allGood P L cs ds → Pref L L' → allGood P L' cs ds := by
  intro cs
  induction cs with
  | nil => intro ds h _; cases ds <;> simp_all [allGood]
  | cons c cs ih =>
    intro ds h hp
    cases ds with
    | nil => simp [allGood] at h
    | cons d ds => exact ⟨h.1.mono hp, ih h.2 hp⟩

theorem jrow_good (P : List Rgb) : ∀ (cs : List Cell) (s : JS), JInv P s →
    JInv P (jrow P s cs).1 ∧ Pref s.lpal (jrow P s cs).1.lpal ∧ allGood P (jrow P s cs).1.lpal cs (jrow P s cs).2 ∧
    (jrow P s cs).1.lpal.length ≤ s.lpal.length + 2 * cs.length ∧ (cs ≠ [] → (jrow P s cs).1.first = false) := by
  intro cs
  induction cs with
  | nil => intro s h; exact ⟨h, Pref.refl _, trivial, by simp [jrow], fun h => absurd rfl h⟩
  | cons c cs ih =>
    intro s h
    obtain ⟨h1, h2, h3, h4, h5⟩ := jstep_good P s c h
    obtain ⟨k1, k2, k3, k4, k5⟩ := ih (jstep P s c).1 h1
    simp only [jrow]
    refine ⟨k1, h2.trans k2, ⟨h3.mono k2, k3⟩, by simp only [List.length_cons]; omega, fun _ => ?_⟩
    cases cs with
    | nil => simpa [jrow] using h5
    | cons _ _ => exact k5 (by simp)

/-- row by row -/
def allGood2 (P L : List Rgb) : List (List Cell) → List (List Cell) → Prop
  | [], [] => True
  | r :: rs, q :: qs => allGood P L r q ∧ allGood2 P L rs qs
  | _, _ => False

theorem allGood2.mono {P L L' : List Rgb} : ∀ {rs qs : List (List Cell)}, allGood2 P L rs qs → Pref L L' → allGood2 P L' rs qs := by
  intro rs
  induction rs with
  | nil => intro qs h _; cases qs <;> simp_all [allGood2]
  | cons r rs ih =>
    intro qs h hp
    cases qs with
    | nil => simp [allGood2] at h
    | cons q qs => exact ⟨h.1.mono hp, ih h.2 hp⟩

theorem jrows_good (P : List Rgb) : ∀ (rows : List (List Cell)) (s : JS), JInv P s →
    JInv P (jrows P s rows).1 ∧ Pref s.lpal (jrows P s rows).1.lpal ∧ allGood2 P (jrows P s rows).1.lpal rows (jrows P s rows).2 ∧
    (jrows P s rows).1.lpal.length ≤ s.lpal.length + 2 * rows.flatten.length := by
  intro rows
  induction rows with
  | nil => intro s h; exact ⟨h, Pref.refl _, trivial, by simp [jrows]⟩
  | cons r rs ih =>
    intro s h
    obtain ⟨h1, h2, h3, h4, _⟩ := jrow_good P r s h
    obtain ⟨k1, k2, k3, k4⟩ := ih (jrow P s r).1 h1
    simp only [jrows]
    refine ⟨k1, h2.trans k2, ⟨h3.mono k2, k3⟩, ?_⟩
    simp only [List.flatten_cons, List.length_append]
    omega

theorem allGood_get (P L : List Rgb) : ∀ (cs ds : List Cell) (x : Nat), allGood P L cs ds → x < cs.length →
    Good P L (cs.getD x Cell.invisible) (ds.getD x Cell.invisible) := by
  intro cs
  induction cs with
  | nil => intro ds x _ hx; simp at hx
  | cons c cs ih =>
    intro ds x h hx
    cases ds with
    | nil => simp [allGood] at h
    | cons d ds =>
      cases x with
      | zero => exact h.1
      | succ x => simp only [List.getD_cons_succ]; exact ih ds x h.2 (by simpa using hx)

theorem allGood2_get (P L : List Rgb) : ∀ (rs qs : List (List Cell)) (y x : Nat), allGood2 P L rs qs → y < rs.length →
    x < (rs.getD y []).length →
    Good P L ((rs.getD y []).getD x Cell.invisible) ((qs.getD y []).getD x Cell.invisible) := by
  intro rs
  induction rs with
  | nil => intro qs y x _ hy; simp at hy
  | cons r rs ih =>
    intro qs y x h hy hx
    cases qs with
    | nil => simp [allGood2] at h
    | cons q qs =>
      cases y with
      | zero => exact allGood_get P L r q x h.1 (by simpa using hx)
      | succ y => simp only [List.getD_cons_succ] at hx ⊢; exact ih qs y x h.2 (by simpa using hy) hx

end IcyVerif.BinFormats
