import IcyVerif.Lemmas.ArtFormats
/-! # The ANSI reader on the writer's control sequences (C04)

`ansiRun` = the ANSI parser over a byte list.  Reading back `csi ps final` (numbers below 1000) leaves the parser in the
CSI state with exactly the parameters `ps` when the final byte arrives; an SGR sequence whose parameters are all
"simple" (no 38 / 48, none rejected) acts as a left fold of `sgrOne`. -/
set_option linter.unusedSimpArgs false
namespace IcyVerif.ArtIO
open IcyVerif.Gen.Art

def ansiRun (p : AnsiP) (c : Core) (bs : List Nat) : AnsiP × Core :=
  bs.foldl (fun pc ch => ansiStep pc.1 pc.2 ch) (p, c)

theorem ansiRun_nil (p : AnsiP) (c : Core) : ansiRun p c [] = (p, c) := rfl
theorem ansiRun_cons (p : AnsiP) (c : Core) (b : Nat) (bs : List Nat) :
    ansiRun p c (b :: bs) = ansiRun (ansiStep p c b).1 (ansiStep p c b).2 bs := rfl
theorem ansiRun_append (p : AnsiP) (c : Core) (a b : List Nat) :
    ansiRun p c (a ++ b) = ansiRun (ansiRun p c a).1 (ansiRun p c a).2 b := by
  simp [ansiRun, List.foldl_append]

theorem run_ansi_eq (bs : List Nat) : ∀ (r : RS),
    run .ansi r bs = { r with ansi := (ansiRun r.ansi r.core bs).1, core := (ansiRun r.ansi r.core bs).2 } := by
  induction bs with
  | nil => intro r; rfl
  | cons b bs ih =>
    intro r
    show run .ansi (step .ansi r b) bs = _
    rw [ih]
    simp [step, ansiRun_cons]

/-! ### numbers -/

theorem numsDigit_snoc (pre : List Nat) (d ch : Nat) : numsDigit (pre ++ [d]) ch = pre ++ [parseNextNumber d ch] := by
  simp [numsDigit]

theorem numsDigit_nil (ch : Nat) : numsDigit [] ch = [parseNextNumber 0 ch] := by simp [numsDigit]

theorem parse_digit (x d : Nat) (hx : x < 100000) (hd : d < 10) : parseNextNumber x (48 + d) = x * 10 + d := by
  unfold parseNextNumber i32Max; omega

/-- the CSI state after the digits of `n` arrived, starting a new parameter -/
def afterNum (nums : List Nat) (n : Nat) : List Nat :=
  match nums.reverse with
  | [] => [n]
  | _ :: rest => rest.reverse ++ [n]

/-- feeding the decimal digits of `n < 1000` to the CSI state when the current parameter is still 0 (fresh sequence, or
    right after `;`) -/
theorem csi_digits (p : AnsiP) (c : Core) (pre : List Nat) (b : Bool) (n : Nat) (hn : n < 1000) (hs : c.stuck = false)
    (hst : p.st = .csi (pre ++ [0]) b ∨ (p.st = .csi [] b ∧ pre = [])) :
    ansiRun p c (digits n) = ({ p with st := .csi (pre ++ [n]) false }, c) := by
  have step1 : ∀ (p : AnsiP) (nums : List Nat) (b : Bool) (d : Nat), d < 10 → p.st = .csi nums b →
      ansiStep p c (48 + d) = ({ p with st := .csi (numsDigit nums (48 + d)) false }, c) := by
    intro p nums b d hd hp
    unfold ansiStep
    have e : isDigit (48 + d) = true := by simp [isDigit]; omega
    have n1 : 48 + d ≠ 109 := by omega
    have n2 : ¬ (48 + d = 72 ∨ 48 + d = 102) := by omega
    have n3 : 48 + d ≠ 67 := by omega
    have n4 : 48 + d ≠ 115 := by omega
    have n5 : 48 + d ≠ 117 := by omega
    have n6 : 48 + d ≠ 74 := by omega
    have n7 : 48 + d ≠ 116 := by omega
    have n8 : 48 + d ≠ 98 := by omega
    have n9 : 48 + d ≠ 63 := by omega
    have n10 : 48 + d ≠ 32 := by omega
    simp [hs, hp, n1, n2, n3, n4, n5, n6, n7, n8, n9, n10, e]
  -- the first digit replaces the pending 0 (or starts the list), the others extend it
  have first : ∀ (d : Nat), d < 10 → ∃ q : AnsiP, ansiStep p c (48 + d) = (q, c) ∧ q.st = .csi (pre ++ [d]) false ∧ q.lastCh = p.lastCh ∧ q.saved = p.saved := by
    intro d hd
    rcases hst with h | ⟨h, hp⟩
    · refine ⟨_, step1 p _ b d hd h, ?_, rfl, rfl⟩
      simp [numsDigit_snoc, parse_digit 0 d (by omega) hd]
    · subst hp
      refine ⟨_, step1 p _ b d hd h, ?_, rfl, rfl⟩
      simp [numsDigit_nil, parse_digit 0 d (by omega) hd]
  have next : ∀ (q : AnsiP) (v d : Nat), v < 1000 → d < 10 → q.st = .csi (pre ++ [v]) false →
      ansiStep q c (48 + d) = ({ q with st := .csi (pre ++ [v * 10 + d]) false }, c) := by
    intro q v d hv hd hq
    rw [step1 q _ false d hd hq, numsDigit_snoc, parse_digit v d (by omega) hd]
  have fin : ∀ (q : AnsiP) (v : Nat), q.st = .csi (pre ++ [v]) false → q.lastCh = p.lastCh → q.saved = p.saved → v = n →
      (q, c) = ({ p with st := .csi (pre ++ [n]) false }, c) := by
    intro q v h1 h2 h3 h4
    subst h4
    cases q; cases p; simp_all
  unfold digits
  by_cases h1 : n < 10
  · rw [if_pos h1]
    obtain ⟨q, e, hq, l, sv⟩ := first n h1
    rw [ansiRun_cons, e, ansiRun_nil]
    exact fin q n hq l sv rfl
  · rw [if_neg h1]
    by_cases h2 : n < 100
    · rw [if_pos h2]
      obtain ⟨q, e, hq, l, sv⟩ := first (n / 10) (by omega)
      rw [ansiRun_cons, e]
      simp only []
      rw [ansiRun_cons, next q (n / 10) (n % 10) (by omega) (by omega) hq, ansiRun_nil]
      exact fin _ _ rfl l sv (by omega)
    · rw [if_neg h2, if_pos hn]
      obtain ⟨q, e, hq, l, sv⟩ := first (n / 100) (by omega)
      rw [ansiRun_cons, e]
      simp only []
      rw [ansiRun_cons, next q (n / 100) (n / 10 % 10) (by omega) (by omega) hq]
      simp only []
      rw [ansiRun_cons, next _ (n / 100 * 10 + n / 10 % 10) (n % 10) (by omega) (by omega) rfl, ansiRun_nil]
      exact fin _ _ rfl l sv (by omega)

theorem csi_semicolon (p : AnsiP) (c : Core) (nums : List Nat) (b : Bool) (hs : c.stuck = false) (hst : p.st = .csi nums b) :
    ansiStep p c 59 = ({ p with st := .csi (nums ++ [0]) false }, c) := by
  unfold ansiStep
  simp [hs, hst, isDigit]

/-- the parameter string `p1;p2;…` (all below 1000) is read back as the list of parameters -/
theorem csi_params (c : Core) (hs : c.stuck = false) : ∀ (ps : List Nat) (p : AnsiP) (pre : List Nat) (b : Bool),
    ps ≠ [] → (∀ n ∈ ps, n < 1000) → (p.st = .csi (pre ++ [0]) b ∨ (p.st = .csi [] b ∧ pre = [])) →
    ansiRun p c (params ps) = ({ p with st := .csi (pre ++ ps) false }, c) := by
  intro ps
  induction ps with
  | nil => intro p pre b h; exact absurd rfl h
  | cons n rest ih =>
    intro p pre b _ hlt hst
    have hn : n < 1000 := hlt n List.mem_cons_self
    cases rest with
    | nil =>
      show ansiRun p c (digits n) = _
      exact csi_digits p c pre b n hn hs hst
    | cons m rest2 =>
      show ansiRun p c (digits n ++ [59] ++ params (m :: rest2)) = _
      rw [List.append_assoc, ansiRun_append, csi_digits p c pre b n hn hs hst]
      simp only []
      rw [List.singleton_append, ansiRun_cons, csi_semicolon _ c (pre ++ [n]) false hs rfl]
      simp only []
      have := ih { p with st := .csi (pre ++ [n] ++ [0]) false } (pre ++ [n]) false (by simp)
        (fun k hk => hlt k (List.mem_cons_of_mem _ hk)) (Or.inl rfl)
      rw [this]
      simp

/-- a complete control sequence: ESC [ params, then the final byte meets the CSI state with exactly these parameters -/
theorem csi_read (p : AnsiP) (c : Core) (ps : List Nat) (final : Nat) (hs : c.stuck = false) (hg : p.st = .ground)
    (hne : ps ≠ []) (hlt : ∀ n ∈ ps, n < 1000) :
    ansiRun p c (csi ps final) = ansiStep { p with st := .csi ps false } c final := by
  unfold csi
  have e1 : ansiRun p c [27, 91] = ({ p with st := .csi [] true }, c) := by
    simp [ansiRun, ansiStep, hs, hg]
  rw [List.append_assoc, ansiRun_append, e1]
  simp only []
  rw [ansiRun_append, csi_params c hs ps { p with st := .csi [] true } [] true hne hlt (Or.inr ⟨rfl, rfl⟩)]
  simp only [List.nil_append]
  rfl

end IcyVerif.ArtIO
