import IcyVerif.Lemmas.IcyDrawLayer
/-! Lemmas about the IcyDraw model (C07): the `ICED` header record and the run of the reader over the chunk
sequence of a whole document. -/
set_option linter.unusedSimpArgs false
namespace IcyVerif.IcyDraw
open IcyVerif.Gen.Icy

/-- `from_byte(to_byte(v)) = v` for every variant of the four mode enums — the quantifier is the finite variant table
    regenerated from src/buffers.rs, so this is checked by evaluation.  The buffer type passes through `as u16` and
    `as u8` on its way. -/
theorem bufferType_table_rt : ∀ v, v < bufferTypeVariants.length → bufferTypeOfByte (bufferTypeByte v % 65536 % 256) = v := by decide
theorem iceMode_table_rt : ∀ v, v < iceModeVariants.length → iceModeOfByte (iceModeByte v % 256) = v := by decide
theorem paletteMode_table_rt : ∀ v, v < paletteModeVariants.length → paletteModeOfByte (paletteModeByte v % 256) = v := by decide
theorem fontMode_table_rt : ∀ v, v < fontModeVariants.length → fontModeOfByte (fontModeByte v % 256) = v := by decide

theorem decodeHeader_encode (h : Header) (hw : h.wf = true) : decodeHeader (encodeHeader h) = .ok h := by
  obtain ⟨bt, ice, pal, font, w, ht⟩ := h
  simp only [Header.wf, Bool.and_eq_true, decide_eq_true_eq] at hw
  obtain ⟨⟨⟨⟨⟨h1, h2⟩, h3⟩, h4⟩, h5⟩, h6⟩ := hw
  unfold decodeHeader encodeHeader
  have hl : ([icdVersion % 256, icdVersion / 256 % 256] ++ leBytes 4 0 ++ leBytes 2 (bufferTypeByte bt) ++
      [iceModeByte ice % 256, paletteModeByte pal % 256, fontModeByte font % 256] ++
      leBytes 4 w ++ leBytes 4 ht).length = icedHeaderSize := by
    simp [leBytes_length, icedHeaderSize]
  rw [if_neg (by rw [hl]; simp)]
  have : ([icdVersion % 256, icdVersion / 256 % 256] ++ leBytes 4 0 ++ leBytes 2 (bufferTypeByte bt) ++
      [iceModeByte ice % 256, paletteModeByte pal % 256, fontModeByte font % 256] ++
      leBytes 4 w ++ leBytes 4 ht).drop 6 = leBytes 2 (bufferTypeByte bt) ++
        (iceModeByte ice % 256 :: paletteModeByte pal % 256 :: fontModeByte font % 256 :: (leBytes 4 w ++ (leBytes 4 ht ++ []))) := by
    simp [leBytes]
  rw [this]
  simp only [rdLE_leBytes, rdU8]
  have hp4 : (256 : Nat) ^ 4 = 4294967296 := by decide
  have hp2 : (256 : Nat) ^ 2 = 65536 := by decide
  rw [hp4, hp2, if_neg (by omega)]
  have e5 : w % 4294967296 = w := by omega
  have e6 : ht % 4294967296 = ht := by omega
  rw [bufferType_table_rt bt h1, iceMode_table_rt ice h2, paletteMode_table_rt pal h3, fontMode_table_rt font h4, e5, e6]


/-! ## whole documents -/

variable {F S : Type}

theorem runChunks_append (cd : Codecs F S) (a b : List (Key × Bytes)) (st st' : Loaded F S)
    (hne : ∀ kb ∈ a, kb.1 ≠ Key.end_) (hrun : runChunks cd st a = .ok st') :
    runChunks cd st (a ++ b) = runChunks cd st' b := by
  induction a generalizing st with
  | nil => simp only [runChunks] at hrun; cases hrun; rfl
  | cons kb a ih =>
    obtain ⟨k, p⟩ := kb
    have hk : k ≠ Key.end_ := hne (k, p) (List.mem_cons_self ..)
    simp only [List.cons_append, runChunks, hk, if_false] at hrun ⊢
    cases hs : stepChunk cd st k p with
    | fail e => rw [hs] at hrun; cases hrun
    | ok st1 =>
      rw [hs] at hrun
      exact ih st1 (fun kb h => hne kb (List.mem_cons_of_mem _ h)) hrun

/-- the font table after the `FONT_n` chunks of `fs` -/
def fontsApply (g : Nat → Option F) : List (Nat × F) → Nat → Option F
  | [] => g
  | kf :: fs => fontsApply (fun k => if k = kf.1 then some kf.2 else g k) fs

theorem fontsApply_lookup (fs : List (Nat × F)) (g : Nat → Option F) (hnd : (fs.map (·.1)).Nodup) (k : Nat) :
    fontsApply g fs k = match fs.lookup k with | some f => some f | none => g k := by
  induction fs generalizing g with
  | nil => rfl
  | cons kf fs ih =>
    obtain ⟨k0, f0⟩ := kf
    simp only [List.map_cons, List.nodup_cons] at hnd
    obtain ⟨hnot, hnd'⟩ := hnd
    simp only [fontsApply, ih _ hnd', List.lookup_cons]
    by_cases e : k = k0
    · subst e
      have : fs.lookup k = none := by
        rw [List.lookup_eq_none_iff]
        intro p hp
        simp only [List.mem_map, not_exists, not_and] at hnot
        have := hnot p hp
        simp only [bne_iff_ne, ne_eq]
        exact fun h => this h.symm
      simp [this]
    · have : (k == k0) = false := by simpa using e
      simp [this, e]

theorem runChunks_fonts (cd : Codecs F S) (fs : List (Nat × F)) (st : Loaded F S)
    (hfont : ∀ kf ∈ fs, (cd.fontName kf.2).length < 4294967296 ∧ cd.fontDec (cd.fontName kf.2) (cd.fontData kf.2) = .ok kf.2) :
    runChunks cd st (fs.map fun kf => (Key.font kf.1, fontPayload cd kf.2)) =
      .ok { st with fontAt := fontsApply st.fontAt fs } := by
  induction fs generalizing st with
  | nil => rfl
  | cons kf fs ih =>
    obtain ⟨k0, f0⟩ := kf
    obtain ⟨h1, h2⟩ := hfont (k0, f0) (List.mem_cons_self ..)
    have e : rdString (fontPayload cd f0) = .ok (cd.fontName f0, cd.fontData f0) := by
      have := rdString_enc (cd.fontName f0) (cd.fontData f0) h1
      simpa [fontPayload, List.append_assoc] using this
    simp only [List.map_cons, runChunks, reduceCtorEq, if_false, stepChunk, e, h2]
    rw [ih _ (fun kf h => hfont kf (List.mem_cons_of_mem _ h))]
    rfl

/-- pairwise `≈doc` -/
def layersEq : List Layer → List Layer → Prop
  | [], [] => True
  | a :: as, b :: bs => a ≈doc b ∧ layersEq as bs
  | _, _ => False

theorem layersEq_append (a1 a2 b1 b2 : List Layer) (h1 : layersEq a1 b1) (h2 : layersEq a2 b2) :
    layersEq (a1 ++ a2) (b1 ++ b2) := by
  induction a1 generalizing b1 with
  | nil => cases b1 with
    | nil => simpa using h2
    | cons b bs => cases h1
  | cons a as ih => cases b1 with
    | nil => cases h1
    | cons b bs => exact ⟨h1.1, ih bs h1.2⟩

theorem decodeLayerMain_of_decodeLayer (c : Bytes) (l' : Layer) (h : decodeLayer [c] = .ok l') :
    decodeLayerMain c = .ok l' := by
  simp only [decodeLayer] at h
  cases hm : decodeLayerMain c with
  | fail e => rw [hm] at h; cases h
  | ok l => rw [hm] at h; simpa [decodeConts] using h

theorem runChunks_layers (cd : Codecs F S) (ls : List Layer) (hw : ∀ l ∈ ls, l.wf = true) (n : Nat) (st : Loaded F S) :
    ∃ css ls', encodeAllLayers ls = some css ∧
      (∀ kb ∈ numberLayers n css, kb.1 ≠ Key.end_) ∧
      runChunks cd st (numberLayers n css) = .ok { st with layers := st.layers ++ ls' } ∧ layersEq ls' ls := by
  induction ls generalizing n st with
  | nil => exact ⟨[], [], rfl, by simp [numberLayers], by simp [numberLayers, runChunks], trivial⟩
  | cons l ls ih =>
    have hl := hw l (List.mem_cons_self ..)
    have hl' := hl
    simp only [Layer.wf, Bool.and_eq_true, decide_eq_true_eq, beq_iff_eq] at hl'
    obtain ⟨⟨⟨⟨⟨⟨⟨⟨⟨⟨⟨⟨⟨_, hrole⟩, _⟩, _⟩, _⟩, _⟩, _⟩, _⟩, _⟩, _⟩, _⟩, _⟩, hfits⟩, _⟩ := hl'
    have henc := encodeLayer_wf l hrole hfits
    obtain ⟨l1, hdec, heq⟩ := decodeLayer_encode l hl
    have hmain := decodeLayerMain_of_decodeLayer _ _ hdec
    obtain ⟨css, ls', h1, h2, h3, h4⟩ := ih (fun l h => hw l (List.mem_cons_of_mem _ h)) (n + 1)
      { st with layers := st.layers ++ [l1] }
    generalize (encodeLayerHeader l ++ (leBytes 8 ((allRows l).flatMap (encodeRow l.width)).length ++
      (allRows l).flatMap (encodeRow l.width))) = c at henc hdec hmain
    refine ⟨[c] :: css, l1 :: ls', by simp only [encodeAllLayers, henc, h1], ?_, ?_, ⟨heq, h4⟩⟩
    · intro kb hkb
      simp only [numberLayers, layerChunks, List.length_nil, List.range_zero, List.zipWith_nil_left, List.cons_append,
        List.nil_append, List.mem_cons] at hkb
      rcases hkb with rfl | hkb
      · simp
      · exact h2 kb hkb
    · simp only [numberLayers, layerChunks, List.length_nil, List.range_zero, List.zipWith_nil_left, List.cons_append,
        List.nil_append, runChunks, reduceCtorEq, if_false, stepChunk, hmain]
      rw [h3]
      simp

end IcyVerif.IcyDraw
