import IcyVerif.Model.Palette
set_option linter.unusedSimpArgs false
/-! Text-level lemmas for the palette file formats (C16): `str::lines`, number rendering/parsing, the hand-written
    regex matchers on the lines the exporter writes. -/
namespace IcyVerif.Palette
open IcyVerif.Gen.Palette

/-- no line break character -/
def NoBreak (l : List Nat) : Prop := ∀ c ∈ l, c ≠ 10 ∧ c ≠ 13
def noBreakB (l : List Nat) : Bool := l.all fun c => c != 10 && c != 13

theorem noBreak_of_B (l : List Nat) (h : noBreakB l = true) : NoBreak l := by
  intro c hc
  have := List.all_eq_true.mp h c hc
  simp only [Bool.and_eq_true, bne_iff_ne, ne_eq] at this
  exact this

theorem NoBreak.append {a b : List Nat} (ha : NoBreak a) (hb : NoBreak b) : NoBreak (a ++ b) := by
  intro c hc
  rcases List.mem_append.mp hc with h | h
  · exact ha c h
  · exact hb c h

theorem NoBreak.cons {a : Nat} {b : List Nat} (ha : a ≠ 10 ∧ a ≠ 13) (hb : NoBreak b) : NoBreak (a :: b) := by
  intro c hc
  rcases List.mem_cons.mp hc with rfl | h
  · exact ha
  · exact hb c h

theorem NoBreak.nil : NoBreak [] := by intro c hc; simp at hc

/-! ### `str::lines` -/

theorem stripCrRev_of_no13 (x : List Nat) (h : ∀ c ∈ x, c ≠ 13) : stripCrRev x = x.reverse := by
  unfold stripCrRev
  split
  · rename_i rest; exact absurd rfl (h 13 (by simp))
  · rfl

theorem linesGo_append (l rest cur : List Nat) (hl : ∀ c ∈ l, c ≠ 10) :
    linesGo (l ++ 10 :: rest) cur = stripCrRev (l.reverse ++ cur) :: linesGo rest [] := by
  induction l generalizing cur with
  | nil => simp [linesGo]
  | cons c cs ih =>
    have hc : c ≠ 10 := hl c (by simp)
    simp only [List.cons_append, linesGo, if_neg hc]
    rw [ih _ (fun x hx => hl x (by simp [hx]))]
    simp

theorem splitLines_cons (l rest : List Nat) (hl : NoBreak l) : splitLines (l ++ 10 :: rest) = l :: splitLines rest := by
  unfold splitLines
  rw [linesGo_append l rest [] (fun c hc => (hl c hc).1)]
  rw [stripCrRev_of_no13 _ (by intro c hc; simp at hc; exact (hl c hc).2)]
  simp

/-- lines, each terminated by `\n` -/
def joinLines (ls : List (List Nat)) : List Nat := ls.flatMap fun l => l ++ [10]

theorem splitLines_nil : splitLines [] = [] := rfl

theorem splitLines_joinLines (ls : List (List Nat)) (h : ∀ l ∈ ls, NoBreak l) : splitLines (joinLines ls) = ls := by
  induction ls with
  | nil => rfl
  | cons l ls ih =>
    simp only [joinLines, List.flatMap_cons, List.append_assoc, List.cons_append, List.nil_append]
    rw [splitLines_cons l _ (h l (by simp))]
    congr 1
    exact ih (fun x hx => h x (by simp [hx]))

theorem joinLines_append (a b : List (List Nat)) : joinLines (a ++ b) = joinLines a ++ joinLines b := by
  simp [joinLines]

theorem joinLines_flatMap {β : Type} (cs : List β) (g : β → List (List Nat)) :
    joinLines (cs.flatMap g) = cs.flatMap fun c => joinLines (g c) := by
  simp [joinLines, List.flatMap_assoc]

/-! ### rendering -/

theorem hexDigit_facts : ∀ n, n < 16 → isHex (hexDigit n) = true ∧ hexVal (hexDigit n) = n ∧ hexDigit n ≠ 10 ∧
    hexDigit n ≠ 13 ∧ hexDigit n ≠ 35 ∧ hexDigit n ≠ 59 := by decide

theorem hex2_parse : ∀ n, n < 256 → parseHex2 (hexDigit (n / 16 % 16)) (hexDigit (n % 16)) = n := by decide +kernel

theorem hex2_isHex (n : Nat) : isHex (hexDigit (n / 16 % 16)) = true ∧ isHex (hexDigit (n % 16)) = true :=
  ⟨(hexDigit_facts _ (Nat.mod_lt _ (by decide))).1, (hexDigit_facts _ (Nat.mod_lt _ (by decide))).1⟩

theorem hex2_noBreak (n : Nat) : NoBreak (hex2 n) := by
  have a := hexDigit_facts (n / 16 % 16) (Nat.mod_lt _ (by decide))
  have b := hexDigit_facts (n % 16) (Nat.mod_lt _ (by decide))
  exact NoBreak.cons ⟨a.2.2.1, a.2.2.2.1⟩ (NoBreak.cons ⟨b.2.2.1, b.2.2.2.1⟩ NoBreak.nil)

theorem decRev_digits (f n : Nat) : ∀ c ∈ decRev f n, 48 ≤ c ∧ c ≤ 57 := by
  induction f generalizing n with
  | zero => intro c hc; simp [decRev] at hc
  | succ f ih =>
    intro c hc
    simp only [decRev, List.mem_cons] at hc
    rcases hc with rfl | hc
    · omega
    · split at hc
      · simp at hc
      · exact ih _ c hc

theorem dec_digits (n : Nat) : ∀ c ∈ dec n, 48 ≤ c ∧ c ≤ 57 := by
  intro c hc
  exact decRev_digits _ _ c (by simpa [dec] using hc)

theorem dec_noBreak (n : Nat) : NoBreak (dec n) := by
  intro c hc; have := dec_digits n c hc; omega

/-- the 256 byte values: non-empty, at most 3 digits, parse back -/
theorem dec_byte : ∀ n, n < 256 → (dec n ≠ [] ∧ (dec n).length ≤ 3 ∧ parseU8 (dec n) = some n) := by decide +kernel

theorem oneLine_consts : oneLineFrom = [13, 10] ∧ oneLineTo = [32] := ⟨rfl, rfl⟩

theorem oneLine_noBreak (s : List Nat) : NoBreak (oneLine s) := by
  intro c hc
  simp only [oneLine, List.mem_flatMap] at hc
  obtain ⟨x, _, hx⟩ := hc
  split at hx
  · rw [oneLine_consts.2] at hx; simp at hx; omega
  · rename_i hn
    rw [oneLine_consts.1] at hn
    simp at hx hn
    omega

theorem isDigit_iff (c : Nat) : isDigit c = true ↔ 48 ≤ c ∧ c ≤ 57 := by
  simp [isDigit]

theorem isWs_32 : isWs 32 = true := by decide
theorem not_isWs_of_digit (c : Nat) (h : isDigit c = true) : isWs c = false := by
  have := (isDigit_iff c).mp h
  have : ∀ c, c < 58 → 48 ≤ c → isWs c = false := by decide
  exact this c (by omega) (by omega)
theorem not_isDigit_32 : isDigit 32 = false := by decide

/-! ### anchored matchers on rendered text -/

theorem takeWhile_append_all (q : Nat → Bool) (ds rest : List Nat) (h : ∀ c ∈ ds, q c = true) :
    (ds ++ rest).takeWhile q = ds ++ rest.takeWhile q ∧ (ds ++ rest).dropWhile q = rest.dropWhile q := by
  induction ds with
  | nil => simp
  | cons d ds ih =>
    have hd := h d (by simp)
    have := ih (fun c hc => h c (by simp [hc]))
    simp [List.takeWhile_cons, List.dropWhile_cons, hd, this]

/-- `\d+` on a digit run followed by a non-digit (or the end) -/
theorem digits1_run (ds rest : List Nat) (hne : ds ≠ []) (hd : ∀ c ∈ ds, isDigit c = true)
    (hr : rest.takeWhile isDigit = []) : digits1 (ds ++ rest) = some (ds, rest) := by
  have := takeWhile_append_all isDigit ds rest hd
  have hdrop : rest.dropWhile isDigit = rest := by
    cases rest with
    | nil => rfl
    | cons r rs =>
      simp only [List.takeWhile_cons] at hr
      split at hr
      · simp at hr
      · rename_i h; simp [List.dropWhile_cons, h]
  unfold digits1
  rw [this.1, this.2, hr, hdrop]
  simp [hne]

theorem digits1_space (rest : List Nat) : digits1 (32 :: rest) = none := by
  simp [digits1, List.takeWhile_cons, not_isDigit_32]

/-- `\s+` on k+1 blanks followed by a digit -/
theorem ws1_spaces (k : Nat) (d : Nat) (rest : List Nat) (hd : isDigit d = true) :
    ws1 (List.replicate (k + 1) 32 ++ d :: rest) = some (d :: rest) := by
  have hall : ∀ c ∈ List.replicate (k + 1) 32, isWs c = true := by
    intro c hc; rw [List.eq_of_mem_replicate hc]; exact isWs_32
  have := takeWhile_append_all isWs (List.replicate (k + 1) 32) (d :: rest) hall
  have hnd := not_isWs_of_digit d hd
  unfold ws1
  rw [this.1, this.2]
  simp [List.takeWhile_cons, List.dropWhile_cons, hnd, List.replicate_succ]

theorem takeWhile_digit_space (rest : List Nat) : (32 :: rest).takeWhile isDigit = [] := by
  simp [List.takeWhile_cons, not_isDigit_32]

/-- a rendered decimal triple `r␣+g␣+b` followed by `tail` (empty or starting with a non-digit) -/
theorem rgbAt_triple (dr dg db tail : List Nat) (k2 k3 : Nat)
    (hr : dr ≠ [] ∧ ∀ c ∈ dr, isDigit c = true) (hg : dg ≠ [] ∧ ∀ c ∈ dg, isDigit c = true)
    (hb : db ≠ [] ∧ ∀ c ∈ db, isDigit c = true) (ht : tail.takeWhile isDigit = []) :
    rgbAt (dr ++ (List.replicate (k2 + 1) 32 ++ (dg ++ (List.replicate (k3 + 1) 32 ++ (db ++ tail))))) =
      some ((dr, dg, db), tail) := by
  obtain ⟨g0, gs, rfl⟩ := List.exists_cons_of_ne_nil hg.1
  obtain ⟨b0, bs, rfl⟩ := List.exists_cons_of_ne_nil hb.1
  have hg0 : isDigit g0 = true := hg.2 g0 (by simp)
  have hb0 : isDigit b0 = true := hb.2 b0 (by simp)
  unfold rgbAt
  rw [digits1_run dr _ hr.1 hr.2 (by simp [List.replicate_succ, List.takeWhile_cons, not_isDigit_32])]
  simp only [List.cons_append]
  rw [ws1_spaces k2 g0 _ hg0]
  simp only []
  have e1 : g0 :: (gs ++ (List.replicate (k3 + 1) 32 ++ b0 :: (bs ++ tail))) =
      (g0 :: gs) ++ (List.replicate (k3 + 1) 32 ++ b0 :: (bs ++ tail)) := by simp
  rw [e1, digits1_run (g0 :: gs) _ hg.1 hg.2 (by simp [List.replicate_succ, List.takeWhile_cons, not_isDigit_32])]
  simp only []
  rw [ws1_spaces k3 b0 _ hb0]
  simp only []
  have e2 : b0 :: (bs ++ tail) = (b0 :: bs) ++ tail := by simp
  rw [e2, digits1_run (b0 :: bs) tail hb.1 hb.2 ht]

theorem rgbAt_space (rest : List Nat) : rgbAt (32 :: rest) = none := by
  unfold rgbAt; rw [digits1_space]

theorem findFirst_here {α : Type} (m : List Nat → Option (α × List Nat)) (c : Nat) (cs : List Nat) (r : α × List Nat)
    (h : m (c :: cs) = some r) : findFirst m (c :: cs) = some r := by
  simp [findFirst, h]

theorem findFirst_spaces (k : Nat) (s : List Nat) : findFirst rgbAt (List.replicate k 32 ++ s) = findFirst rgbAt s := by
  induction k with
  | zero => simp
  | succ k ih => simp only [List.replicate_succ, List.cons_append, findFirst, rgbAt_space]; exact ih

theorem scanWith_skip {α : Type} (m : List Nat → Option (α × List Nat)) (pre s : List Nat) :
    scanWith m (pre ++ s) pre.length = scanWith m s 0 := by
  induction pre with
  | nil => simp
  | cons c cs ih => simpa [scanWith] using ih

theorem scanWith_match {α : Type} (m : List Nat → Option (α × List Nat)) (c : Nat) (pre rest : List Nat) (a : α)
    (h : m (c :: (pre ++ rest)) = some (a, rest)) : scanWith m (c :: (pre ++ rest)) 0 = a :: scanWith m rest 0 := by
  simp only [scanWith, h]
  have : (pre ++ rest).length - rest.length = pre.length := by simp
  rw [this, scanWith_skip]

theorem scanWith_nomatch {α : Type} (m : List Nat → Option (α × List Nat)) (c : Nat) (cs : List Nat)
    (h : m (c :: cs) = none) : scanWith m (c :: cs) 0 = scanWith m cs 0 := by
  simp only [scanWith, h]

theorem hexRun6 (a b c d e f : Nat) (rest : List Nat) (h : isHex a = true ∧ isHex b = true ∧ isHex c = true ∧
    isHex d = true ∧ isHex e = true ∧ isHex f = true) :
    hexRun 6 (a :: b :: c :: d :: e :: f :: rest) = some ([a, b, c, d, e, f], rest) := by
  simp [hexRun, h.1, h.2.1, h.2.2.1, h.2.2.2.1, h.2.2.2.2.1, h.2.2.2.2.2]

theorem hexRun8 (x y a b c d e f : Nat) (rest : List Nat) (h : isHex x = true ∧ isHex y = true ∧ isHex a = true ∧
    isHex b = true ∧ isHex c = true ∧ isHex d = true ∧ isHex e = true ∧ isHex f = true) :
    hexRun 8 (x :: y :: a :: b :: c :: d :: e :: f :: rest) = some ([x, y, a, b, c, d, e, f], rest) := by
  simp [hexRun, h.1, h.2.1, h.2.2.1, h.2.2.2.1, h.2.2.2.2.1, h.2.2.2.2.2.1, h.2.2.2.2.2.2.1, h.2.2.2.2.2.2.2]

theorem hexRun_break (k : Nat) (rest : List Nat) : hexRun (k + 1) (10 :: rest) = none := by
  simp [hexRun, isHex]

/-- the six digits `{:02x}{:02x}{:02x}` of a colour -/
def hex6 (c : Rgb) : List Nat := hex2 c.r ++ hex2 c.g ++ hex2 c.b

theorem hex6_run (c : Rgb) (rest : List Nat) : hexRun 6 (hex6 c ++ rest) = some (hex6 c, rest) := by
  simp only [hex6, hex2, List.cons_append, List.nil_append]
  exact hexRun6 _ _ _ _ _ _ rest ⟨(hex2_isHex c.r).1, (hex2_isHex c.r).2, (hex2_isHex c.g).1, (hex2_isHex c.g).2,
    (hex2_isHex c.b).1, (hex2_isHex c.b).2⟩

theorem rgbOfHex6_hex6 (c : Rgb) (h : c.Valid) : rgbOfHex6 (hex6 c) = c := by
  simp only [hex6, hex2, List.cons_append, List.nil_append, rgbOfHex6]
  rw [hex2_parse c.r h.1, hex2_parse c.g h.2.1, hex2_parse c.b h.2.2]

theorem hex6_noBreak (c : Rgb) : NoBreak (hex6 c) :=
  ((hex2_noBreak c.r).append (hex2_noBreak c.g)).append (hex2_noBreak c.b)

theorem hex6_head (c : Rgb) : ∃ h t, hex6 c = h :: t ∧ h ≠ 35 ∧ h ≠ 59 := by
  have a := hexDigit_facts (c.r / 16 % 16) (Nat.mod_lt _ (by decide))
  exact ⟨_, _, rfl, a.2.2.2.2.1, a.2.2.2.2.2⟩

end IcyVerif.Palette
