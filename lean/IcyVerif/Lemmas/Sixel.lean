import IcyVerif.Model.Sixel
set_option linter.unusedSimpArgs false
set_option linter.unusedVariables false
/-! Invariant of the sixel machine: every row length is a multiple of 4 and within the modelled range;
    the palette is never empty.  Preserved by every step; implies that every panic site is
    unreachable and that the output is a full rectangle. -/
namespace IcyVerif.Sixel

/-- per-row invariant -/
def RowOK (r : Nat) : Prop := r % 4 = 0 ∧ r ≤ hugeLimit

structure Good (s : St) : Prop where
  rows : ∀ r ∈ s.rows, RowOK r
  height : s.rows.length ≤ hugeLimit
  palPos : 0 < s.palLen
  palLe : s.palLen ≤ hugeLimit

/-- what a step from a good state may produce: a good state, a parse error or the out-of-range outcome —
    never a panic -/
def OutGood : Out St → Prop
  | .ok s => Good s
  | .panic _ => False
  | _ => True

theorem good_init : Good {} := by
  constructor <;> simp [hugeLimit]

/-! ### rows -/
theorem length_resizeRows (rows : List Nat) (n fill : Nat) : (resizeRows rows n fill).length = n := by
  unfold resizeRows; split
  · simp; omega
  · simp; omega

theorem mem_resizeRows {rows : List Nat} {n fill r : Nat} (h : r ∈ resizeRows rows n fill) :
    r ∈ rows ∨ r = fill := by
  unfold resizeRows at h; split at h
  · exact Or.inl (List.mem_of_mem_take h)
  · rcases List.mem_append.1 h with h | h
    · exact Or.inl h
    · exact Or.inr (List.eq_of_mem_replicate h)

theorem resizeRows_ok' {rows : List Nat} {n fill : Nat} (h : ∀ r ∈ rows, RowOK r) (hf : RowOK fill) :
    ∀ r ∈ resizeRows rows n fill, RowOK r := by
  intro r hr
  rcases mem_resizeRows hr with h' | h'
  · exact h r h'
  · rw [h']; exact hf

theorem width_ok {rows : List Nat} (h : ∀ r ∈ rows, RowOK r) : RowOK (width rows * 4) := by
  unfold width; cases rows with
  | nil => simp [RowOK]
  | cons r rs =>
    have := h r (by simp)
    simp only [RowOK] at this ⊢
    omega

/-- result of the pixel loop from `n` good rows: same number of good rows, or out of range; never a panic -/
def LoopOK (n : Nat) : Out (List Nat) → Prop
  | .ok rows' => (∀ r ∈ rows', RowOK r) ∧ rows'.length = n
  | .huge => True
  | _ => False

theorem pixelLoop_spec (mask yPos lastLine x : Nat) (is : List Nat) (rows : List Nat)
    (hr : ∀ r ∈ rows, RowOK r) (hl : lastLine ≤ rows.length) :
    LoopOK rows.length (pixelLoop mask yPos lastLine x is rows) := by
  induction is generalizing rows with
  | nil => exact ⟨hr, rfl⟩
  | cons i is ih =>
    simp only [pixelLoop]
    split
    · split
      · exact ⟨hr, rfl⟩
      · rename_i hlt
        split
        · rename_i hnone
          have : rows.length ≤ yPos + i := by simpa using hnone
          omega
        · rename_i len hsome
          have hmem : len ∈ rows := List.mem_of_getElem? hsome
          have hok := hr len hmem
          split
          · trivial
          · rename_i hnh
            simp only [RowOK] at hok
            have hlen' : RowOK (if len ≤ x * 4 then (x + 1) * 4 else len) := by
              simp only [RowOK]; split <;> omega
            have hidx : x * 4 + 3 < (if len ≤ x * 4 then (x + 1) * 4 else len) := by
              split <;> omega
            simp only [hidx, if_true]
            have hr' : ∀ r ∈ rows.set (yPos + i) (if len ≤ x * 4 then (x + 1) * 4 else len), RowOK r := by
              intro r hrm
              rcases List.mem_or_eq_of_mem_set hrm with h | h
              · exact hr r h
              · rw [h]; exact hlen'
            have := ih (rows.set (yPos + i) (if len ≤ x * 4 then (x + 1) * 4 else len)) hr' (by simpa using hl)
            simpa using this
    · exact ih rows hr hl

theorem lastLineOf_le (s : St) : lastLineOf s ≤ s.y * 6 + 6 := by
  unfold lastLineOf; split
  · rename_i h; simp at h; omega
  · exact Nat.le_refl _

/-- rows after the optional resize: all good, at least `lastLine` of them, count in range -/
def GrowOK (rows0 : List Nat) (lastLine : Nat) : Out (List Nat) → Prop
  | .ok rows => (∀ r ∈ rows, RowOK r) ∧ lastLine ≤ rows.length ∧ rows.length ≤ hugeLimit ∧ rows0.length ≤ rows.length
  | .huge => True
  | _ => False

theorem growRows_spec {rows : List Nat} (hr : ∀ r ∈ rows, RowOK r) (hh : rows.length ≤ hugeLimit) (lastLine : Nat) :
    GrowOK rows lastLine (growRows rows lastLine) := by
  unfold growRows
  by_cases h1 : rows.length < lastLine
  · simp only [h1, if_true]
    by_cases h2 : lastLine > hugeLimit ∨ (lastLine - rows.length) * (width rows * 4) > hugeLimit
    · simp only [h2, if_true]; trivial
    · simp only [h2, if_false]
      refine ⟨resizeRows_ok' hr (width_ok hr), ?_, ?_, ?_⟩
      · rw [length_resizeRows]; exact Nat.le_refl _
      · rw [length_resizeRows]; omega
      · rw [length_resizeRows]; omega
  · simp only [h1, if_false]
    exact ⟨hr, by omega, hh, Nat.le_refl _⟩

theorem translate_good {s : St} (g : Good s) (ch : Char) : OutGood (translate s ch) := by
  unfold translate
  by_cases h1 : ch.toNat < 63
  · simp only [h1, if_true]; trivial
  simp only [h1, if_false]
  by_cases h2 : s.palLen % 4294967296 = 0
  · have := g.palPos; have := g.palLe; simp only [hugeLimit] at *; omega
  simp only [h2, if_false]
  by_cases h3 : s.y * 6 + 6 > i32Max
  · simp only [h3, if_true]; trivial
  simp only [h3, if_false]
  by_cases h4 : s.x ≥ maxSize ∨ lastLineOf s > maxSize
  · simp only [h4, if_true]; trivial
  simp only [h4, if_false]
  have hg := growRows_spec g.rows g.height (lastLineOf s)
  revert hg
  cases growRows s.rows (lastLineOf s) with
  | ok rows =>
    intro ⟨hr, hl, hlen, _⟩
    simp only [Out.andThen]
    have := pixelLoop_spec (ch.toNat - 63) (s.y * 6) (lastLineOf s) s.x [0, 1, 2, 3, 4, 5] rows hr hl
    revert this
    cases pixelLoop (ch.toNat - 63) (s.y * 6) (lastLineOf s) s.x [0, 1, 2, 3, 4, 5] rows with
    | ok rows' =>
      intro ⟨h1, h2⟩
      simp only
      split
      · trivial
      · exact ⟨h1, by simp only; omega, g.palPos, g.palLe⟩
    | err e => intro h; exact h.elim
    | panic p => intro h; exact h.elim
    | huge => intro _; trivial
  | err e => intro h; exact h.elim
  | panic p => intro h; exact h.elim
  | huge => intro _; trivial

theorem sixelData_good {s : St} (g : Good s) (ch : Char) : OutGood (sixelData s ch) := by
  unfold sixelData
  split
  · exact ⟨g.rows, g.height, g.palPos, g.palLe⟩
  split
  · exact ⟨g.rows, g.height, g.palPos, g.palLe⟩
  split
  · split
    · trivial
    · exact ⟨g.rows, g.height, g.palPos, g.palLe⟩
  split
  · exact ⟨g.rows, g.height, g.palPos, g.palLe⟩
  split
  · exact ⟨g.rows, g.height, g.palPos, g.palLe⟩
  split
  · exact g
  · exact translate_good g ch

theorem andThen_good {o : Out St} {f : St → Out St} (ho : OutGood o) (hf : ∀ s, Good s → OutGood (f s)) :
    OutGood (o.andThen f) := by
  cases o with
  | ok s' => exact hf s' ho
  | err e => trivial
  | panic p => exact ho
  | huge => trivial

theorem repeatN_good (f : St → Out St) (hf : ∀ s, Good s → OutGood (f s)) (n : Nat) {s : St} (g : Good s) :
    OutGood (repeatN f n s) := by
  induction n generalizing s with
  | zero => exact g
  | succ n ih => rw [repeatN_succ]; exact andThen_good (hf s g) (fun s' g' => ih g')

/-- outcome of the colour / raster arms: cursor untouched, never a panic -/
def ArmOK (s : St) : Out St → Prop
  | .ok s' => Good s' ∧ s'.x = s.x ∧ s'.y = s.y
  | .panic _ => False
  | _ => True

theorem armOK_good {s : St} {o : Out St} (h : ArmOK s o) : OutGood o := by
  cases o with
  | ok s' => exact h.1
  | err e => trivial
  | panic p => exact h.elim
  | huge => trivial

theorem growPalette_arm {s : St} (g : Good s) : ArmOK s (growPalette s) := by
  unfold growPalette
  split
  · split
    · trivial
    · exact ⟨⟨g.rows, g.height, by simp, by simp only; omega⟩, rfl, rfl⟩
  · exact ⟨g, rfl, rfl⟩

theorem setColor_good {s : St} (g : Good s) : Good (setColor s) := by
  unfold setColor; split
  · exact ⟨g.rows, g.height, g.palPos, g.palLe⟩
  · exact g

theorem defineColor_arm {s : St} (g : Good s) : ArmOK s (defineColor s) := by
  unfold defineColor
  by_cases h1 : s.nums.length > 1
  · simp only [h1, if_true]
    by_cases h5 : s.nums.length ≠ 5 ∨ s.color ≥ maxColors
    · rw [if_pos h5]; trivial
    · rw [if_neg h5]
      have h5' : s.nums.length = 5 := by omega
      match hs : s.nums, h5' with
      | [a, b, c, d, e], _ =>
        simp only [List.getElem?_cons_succ, List.getElem?_cons_zero]
        split
        · exact growPalette_arm g
        · exact growPalette_arm g
        · trivial
        · trivial
  · simp only [h1, if_false]; exact ⟨g, rfl, rfl⟩

theorem colorArm_arm {s : St} (g : Good s) : ArmOK s (colorArm s) := by
  have hx : (setColor s).x = s.x := by unfold setColor; split <;> rfl
  have hy : (setColor s).y = s.y := by unfold setColor; split <;> rfl
  have := defineColor_arm (setColor_good g)
  unfold colorArm
  revert this
  cases defineColor (setColor s) with
  | ok s' => intro ⟨g', h1, h2⟩; exact ⟨g', by omega, by omega⟩
  | err e => intro _; trivial
  | panic p => intro h; exact h
  | huge => intro _; trivial

theorem colorArm_good {s : St} (g : Good s) : OutGood (colorArm s) := armOK_good (colorArm_arm g)

theorem sizeArm_arm {s : St} (g : Good s) : ArmOK s (sizeArm s) := by
  unfold sizeArm
  split
  · trivial
  · rename_i hlen
    split
    · split
      · split
        · split
          · trivial
          · rename_i hh
            exact ⟨⟨resizeRows_ok' g.rows (by simp [RowOK]), by simp only [length_resizeRows]; omega, g.palPos, g.palLe⟩, rfl, rfl⟩
        · rename_i h3 _ hx
          exfalso
          match hs : s.nums, h3 with
          | [a, b, c], _ => simp [hs] at hx
      · split
        · split
          · split
            · trivial
            · rename_i hh
              exact ⟨⟨resizeRows_ok' g.rows (by simp only [RowOK]; omega), by simp only [length_resizeRows]; omega, g.palPos, g.palLe⟩, rfl, rfl⟩
          · rename_i h4 _ _ hx
            exfalso
            match hs : s.nums, h4 with
            | [a, b, c, d], _ => simp [hs] at hx
        · exact ⟨⟨g.rows, g.height, g.palPos, g.palLe⟩, rfl, rfl⟩
    · rename_i hx
      exfalso
      match hs : s.nums with
      | [] => simp [hs] at hlen
      | [a] => simp [hs] at hlen
      | a :: b :: rest => simp [hs] at hx

theorem sizeArm_good {s : St} (g : Good s) : OutGood (sizeArm s) := armOK_good (sizeArm_arm g)

theorem parseChar_good {s : St} (g : Good s) (ch : Char) : OutGood (parseChar s ch) := by
  unfold parseChar
  split
  · exact sixelData_good g ch
  · split
    · exact ⟨g.rows, g.height, g.palPos, g.palLe⟩
    split
    · exact ⟨g.rows, g.height, g.palPos, g.palLe⟩
    · exact andThen_good (colorArm_good g) (fun s' g' => sixelData_good g' ch)
  · split
    · exact ⟨g.rows, g.height, g.palPos, g.palLe⟩
    split
    · exact ⟨g.rows, g.height, g.palPos, g.palLe⟩
    · exact andThen_good (sizeArm_good g) (fun s' g' => sixelData_good g' ch)
  · split
    · exact ⟨g.rows, g.height, g.palPos, g.palLe⟩
    · split
      · rename_i n _
        split
        · trivial
        · exact andThen_good (repeatN_good (fun t => sixelData t ch) (fun t gt => sixelData_good gt ch) n g)
            (fun s' h => ⟨h.rows, h.height, h.palPos, h.palLe⟩)
      · trivial

theorem run_good {s : St} (g : Good s) (cs : List Char) : OutGood (run s cs) := by
  induction cs generalizing s with
  | nil => exact g
  | cons c cs ih => rw [run_cons]; exact andThen_good (parseChar_good g c) (fun s' g' => ih g')

/-! ### the output rectangle -/
theorem foldl_max_ge (rows : List Nat) (a : Nat) : a ≤ rows.foldl max a ∧ ∀ r ∈ rows, r ≤ rows.foldl max a := by
  induction rows generalizing a with
  | nil => simp
  | cons r rs ih =>
    simp only [List.foldl]
    have := ih (max a r)
    refine ⟨by omega, ?_⟩
    intro r' hr'
    rcases List.mem_cons.1 hr' with h | h
    · subst h; omega
    · exact this.2 r' h

theorem foldl_max_prop (P : Nat → Prop) (rows : List Nat) (a : Nat) (ha : P a) (h : ∀ r ∈ rows, P r) :
    P (rows.foldl max a) := by
  induction rows generalizing a with
  | nil => exact ha
  | cons r rs ih =>
    simp only [List.foldl]
    apply ih
    · rcases Nat.le_total a r with h' | h'
      · rw [Nat.max_eq_right h']; exact h r (by simp)
      · rw [Nat.max_eq_left h']; exact ha
    · intro r' hr'; exact h r' (by simp [hr'])

theorem sum_const (rows : List Nat) (c : Nat) : (rows.map fun _ => c).sum = rows.length * c := by
  induction rows with
  | nil => simp
  | cons r rs ih => simp [ih, Nat.succ_mul]; omega

theorem rowLen_ok {rows : List Nat} (h : ∀ r ∈ rows, RowOK r) : RowOK (rowLen rows) :=
  foldl_max_prop RowOK rows 0 (by simp [RowOK]) h

end IcyVerif.Sixel
