import IcyVerif.Lemmas.UndoOps
set_option linter.unusedSimpArgs false
set_option linter.unusedVariables false
/-! # C08: the inverse law for the row and column records (they carry raw rows / cells as payload) -/
namespace IcyVerif.Undo


theorem rowsGet_eraseIdx (ls : List Row) (k x y : Nat) :
    rowsGet (ls.eraseIdx k) x y = if y < k then rowsGet ls x y else rowsGet ls x (y + 1) := by
  simp only [rowsGet, List.getD_eq_getElem?_getD, List.getElem?_eraseIdx]
  split <;> rfl

theorem rowsGet_insertIdx (ls : List Row) (k x y : Nat) (r : Row) (hk : k ≤ ls.length) :
    rowsGet (ls.insertIdx k r) x y = if y < k then rowsGet ls x y else if y = k then r.getD x Cell.invisible else rowsGet ls x (y - 1) := by
  simp only [rowsGet, List.getD_eq_getElem?_getD, List.getElem?_insertIdx]
  split
  · rfl
  · split
    · rename_i h1 h2; subst h2; simp [hk]
    · rfl

theorem length_growTo {α : Type} (l : List α) (n : Nat) (a : α) : n ≤ (growTo l n a).length := by
  simp [growTo]; omega

/-- what `DeleteRow::redo` does to the observation of the layer, and the row it records -/
theorem deleteRowRedo_obs (l : LayerM) (k : Nat) :
    (deleteRowRedo l k).2.obs = (l.w, l.h - 1, l.props, fun x y => if y < k then rowsGet l.lines x y else rowsGet l.lines x (y + 1)) ∧
    ∀ x, (deleteRowRedo l k).1.getD x Cell.invisible = rowsGet l.lines x k := by
  constructor
  · simp only [deleteRowRedo, LayerM.obs]
    congr 3
    funext x y
    rw [rowsGet_eraseIdx]
    simp only [rowsGet_growTo_nil]
  · intro x
    simp only [deleteRowRedo]
    have := rowsGet_growTo_nil l.lines (k + 1) x k
    simpa [rowsGet] using this

/-- `DeleteRow::undo` on the observation -/
theorem deleteRowUndo_obs (l : LayerM) (k : Nat) (r : Row) :
    ({ l with lines := (growTo l.lines k []).insertIdx k r, h := l.h + 1 } : LayerM).obs =
      (l.w, l.h + 1, l.props, fun x y => if y < k then rowsGet l.lines x y else if y = k then r.getD x Cell.invisible else rowsGet l.lines x (y - 1)) := by
  simp only [LayerM.obs]
  congr 3
  funext x y
  rw [rowsGet_insertIdx _ _ _ _ _ (length_growTo _ _ _)]
  simp only [rowsGet_growTo_nil]

/-- **DeleteRow** — at every document: caret row beyond the materialised rows or beyond the layer height, hidden rows
    below; a negative caret row panics in the edit -/
theorem inverse_deleteRow (d : Doc) (i : Nat) (line : Int) (row0 : Row) : InverseAt (.deleteRow i line row0) d := by
  intro op' d' hr
  simp only [UndoOp.redo] at hr
  cases hl : d.layers[i]? with
  | none => rw [hl] at hr; simp at hr
  | some l =>
    rw [hl] at hr
    by_cases hneg : line < 0
    · simp [hneg] at hr
    · simp only [hneg, if_false] at hr
      simp at hr
      obtain ⟨rfl, rfl⟩ := hr
      obtain ⟨hobs, hrow⟩ := deleteRowRedo_obs l line.toNat
      refine ⟨fun o => ∃ r, o = .deleteRow i line r ∧ ∀ x, r.getD x Cell.invisible = rowsGet l.lines x line.toNat,
              fun o => ∃ r, o = .deleteRow i line r, ⟨_, rfl, hrow⟩, ?_, ?_⟩
      · rintro o ⟨r, rfl, hr⟩ e' he'
        have hd' : (d.setLayer i (deleteRowRedo l line.toNat).2).layers[i]? = some (deleteRowRedo l line.toNat).2 :=
          getElem?_setLayer_self d i _ l hl
        obtain ⟨l', hl1, hl2⟩ := obs_some he'.symm hd'
        refine ⟨.deleteRow i line [], e'.setLayer i { l' with lines := (growTo l'.lines line.toNat []).insertIdx line.toNat r, h := l'.h + 1 },
          ?_, ?_, [], rfl⟩
        · simp [UndoOp.undo, hl1, hneg]
        · have e1 : ({ l' with lines := (growTo l'.lines line.toNat []).insertIdx line.toNat r, h := l'.h + 1 } : LayerM).obs = l.obs := by
            rw [deleteRowUndo_obs]
            rw [hobs] at hl2
            have hw : l'.w = l.w := congrArg (·.1) hl2
            have hh : l'.h = l.h - 1 := congrArg (·.2.1) hl2
            have hp : l'.props = l.props := congrArg (·.2.2.1) hl2
            have hc : rowsGet l'.lines = fun x y => if y < line.toNat then rowsGet l.lines x y else rowsGet l.lines x (y + 1) := congrArg (·.2.2.2) hl2
            simp only [LayerM.obs, hw, hh, hp, hc]
            have hh2 : l.h - 1 + 1 = l.h := by omega
            rw [hh2]
            congr 3
            funext x y
            by_cases h1 : y < line.toNat
            · simp [h1]
            · by_cases h2 : y = line.toNat
              · subst h2; simp only [Nat.lt_irrefl, if_false, if_true]; exact hr x
              · have h3 : ¬ (y - 1 < line.toNat) := by omega
                have h4 : y - 1 + 1 = y := by omega
                simp [h1, h2, h3, h4]
          rw [obs_setLayer, e1]
          have h1 := obs_w he'; have h2 := obs_h he'; have h3 := obs_layers he'; have hx4 := obs_x he'
          refine DObs.ext' h1 h2 ?_ hx4
          show (e'.layers.map LayerM.obs).set i l.obs = d.layers.map LayerM.obs
          rw [h3]
          show ((d.setLayer i _).layers.map LayerM.obs).set i l.obs = _
          simp only [Doc.setLayer, List.map_set, List.set_set]
          exact map_set_self _ _ _ _ hl
      · rintro o ⟨r, rfl⟩ e he
        obtain ⟨l', hl1, hl2⟩ := obs_some he.symm hl
        obtain ⟨hobs', hrow'⟩ := deleteRowRedo_obs l' line.toNat
        have hw : l'.w = l.w := congrArg (·.1) hl2
        have hh : l'.h = l.h := congrArg (·.2.1) hl2
        have hp : l'.props = l.props := congrArg (·.2.2.1) hl2
        have hc : rowsGet l'.lines = rowsGet l.lines := congrArg (·.2.2.2) hl2
        refine ⟨.deleteRow i line (deleteRowRedo l' line.toNat).1, e.setLayer i (deleteRowRedo l' line.toNat).2, ?_, ?_, _, rfl, ?_⟩
        · simp [UndoOp.redo, hl1, hneg]
        · apply obs_setLayer_congr he
          rw [hobs', hobs, hw, hh, hp, hc]
        · intro x; rw [hrow' x, hc]


theorem rowsGet_beyond (ls : List Row) (x y : Nat) (h : ls.length ≤ y) : rowsGet ls x y = Cell.invisible := by
  simp [rowsGet, List.getD_eq_getElem?_getD, List.getElem?_eq_none h]

theorem insertRowRedo_obs (l : LayerM) (k : Nat) (row : Row) :
    (insertRowRedo l k row).obs = (l.w, l.h + 1, l.props,
      fun x y => if y < k then rowsGet l.lines x y else if y = k then row.getD x Cell.invisible else rowsGet l.lines x (y - 1)) := by
  simp only [insertRowRedo, LayerM.obs]
  congr 3
  funext x y
  rw [rowsGet_insertIdx _ _ _ _ _ (by have := length_growTo l.lines (k + 1) ([] : Row); omega)]
  simp only [rowsGet_growTo_nil]

/-- **InsertRow** — at every document (row inserted beyond the materialised rows, beyond the height, …) -/
theorem inverse_insertRow (d : Doc) (i : Nat) (line : Int) (row0 : Row) : InverseAt (.insertRow i line row0) d := by
  intro op' d' hr
  simp only [UndoOp.redo] at hr
  cases hl : d.layers[i]? with
  | none => rw [hl] at hr; simp at hr
  | some l =>
    rw [hl] at hr
    by_cases hneg : line < 0
    · simp [hneg] at hr
    · simp only [hneg, if_false] at hr
      simp at hr
      obtain ⟨rfl, rfl⟩ := hr
      have hobs := insertRowRedo_obs l line.toNat row0
      refine ⟨fun o => o = .insertRow i line [],
              fun o => ∃ r, o = .insertRow i line r ∧ ∀ x, r.getD x Cell.invisible = row0.getD x Cell.invisible, rfl, ?_, ?_⟩
      · rintro o rfl e' he'
        have hd' : (d.setLayer i (insertRowRedo l line.toNat row0)).layers[i]? = some (insertRowRedo l line.toNat row0) :=
          getElem?_setLayer_self d i _ l hl
        obtain ⟨l', hl1, hl2⟩ := obs_some he'.symm hd'
        rw [hobs] at hl2
        have hw : l'.w = l.w := congrArg (·.1) hl2
        have hh : l'.h = l.h + 1 := congrArg (·.2.1) hl2
        have hp : l'.props = l.props := congrArg (·.2.2.1) hl2
        have hc : rowsGet l'.lines = fun x y => if y < line.toNat then rowsGet l.lines x y else if y = line.toNat then row0.getD x Cell.invisible else rowsGet l.lines x (y - 1) := congrArg (·.2.2.2) hl2
        have hh2 : l.h + 1 - 1 = l.h := by omega
        -- both branches of `undo` produce the observation of `l`
        have key : ∀ (lines' : List Row), (∀ x y, rowsGet lines' x y = if y < line.toNat then rowsGet l'.lines x y else rowsGet l'.lines x (y + 1)) →
            ({ l' with lines := lines', h := l'.h - 1 } : LayerM).obs = l.obs := by
          intro lines' hv
          simp only [LayerM.obs, hw, hh, hp, hh2]
          congr 3
          funext x y
          rw [hv, hc]
          by_cases h1 : y < line.toNat
          · simp [h1]
          · have h3 : ¬ (y + 1 < line.toNat) := by omega
            have h4 : ¬ (y + 1 = line.toNat) := by omega
            simp [h1, h3, h4]
        have fin : ∀ (l2 : LayerM), l2.obs = l.obs → (e'.setLayer i l2).obs = d.obs := by
          intro l2 h2
          rw [obs_setLayer, h2]
          have h1 := obs_w he'; have h2' := obs_h he'; have h3 := obs_layers he'; have hx4 := obs_x he'
          refine DObs.ext' h1 h2' ?_ hx4
          show (e'.layers.map LayerM.obs).set i l.obs = d.layers.map LayerM.obs
          rw [h3]
          show ((d.setLayer i _).layers.map LayerM.obs).set i l.obs = _
          simp only [Doc.setLayer, List.map_set, List.set_set]
          exact map_set_self _ _ _ _ hl
        by_cases hlen : line.toNat < l'.lines.length
        · refine ⟨.insertRow i line (l'.lines.getD line.toNat []), e'.setLayer i { l' with lines := l'.lines.eraseIdx line.toNat, h := l'.h - 1 }, ?_, ?_, _, rfl, ?_⟩
          · simp [UndoOp.undo, hl1, hneg, hlen]
          · exact fin _ (key _ (fun x y => rowsGet_eraseIdx _ _ _ _))
          · intro x
            have : (l'.lines.getD line.toNat []).getD x Cell.invisible = rowsGet l'.lines x line.toNat := rfl
            rw [this, hc]; simp
        · refine ⟨.insertRow i line [], e'.setLayer i { l' with h := l'.h - 1 }, ?_, ?_, _, rfl, ?_⟩
          · simp [UndoOp.undo, hl1, hneg, hlen]
          · refine fin _ (key _ (fun x y => ?_))
            by_cases h1 : y < line.toNat
            · simp [h1]
            · simp only [h1, if_false]
              rw [rowsGet_beyond _ _ _ (by omega), rowsGet_beyond _ _ _ (by omega)]
          · intro x
            have h0 : rowsGet l'.lines x line.toNat = Cell.invisible := rowsGet_beyond _ _ _ (by omega)
            rw [hc] at h0
            simp at h0
            simp [h0]
      · rintro o ⟨r, rfl, hr⟩ e he
        obtain ⟨l', hl1, hl2⟩ := obs_some he.symm hl
        have hw : l'.w = l.w := congrArg (·.1) hl2
        have hh : l'.h = l.h := congrArg (·.2.1) hl2
        have hp : l'.props = l.props := congrArg (·.2.2.1) hl2
        have hc : rowsGet l'.lines = rowsGet l.lines := congrArg (·.2.2.2) hl2
        refine ⟨.insertRow i line [], e.setLayer i (insertRowRedo l' line.toNat r), ?_, ?_, rfl⟩
        · simp [UndoOp.redo, hl1, hneg]
        · apply obs_setLayer_congr he
          rw [insertRowRedo_obs, hobs, hw, hh, hp, hc]
          congr 3
          funext x y
          simp only [hr]



theorem getD_beyond (r : Row) (x : Nat) (h : r.length ≤ x) : r.getD x Cell.invisible = Cell.invisible := by
  simp [List.getD_eq_getElem?_getD, List.getElem?_eq_none h]

theorem row_insertCol (r : Row) (o x : Nat) :
    (if r.length ≥ o then r.insertIdx o Cell.invisible else r).getD x Cell.invisible =
      if x < o then r.getD x Cell.invisible else if x = o then Cell.invisible else r.getD (x - 1) Cell.invisible := by
  by_cases h : r.length ≥ o
  · simp only [h, if_true, List.getD_eq_getElem?_getD, List.getElem?_insertIdx]
    split
    · rfl
    · split
      · rename_i h1 h2; subst h2; simp [h]
      · rfl
  · simp only [h, if_false]
    by_cases h1 : x < o
    · simp [h1]
    · simp only [h1, if_false]
      rw [getD_beyond r x (by omega)]
      by_cases h2 : x = o
      · simp [h2]
      · simp only [h2, if_false]
        rw [getD_beyond r (x - 1) (by omega)]

theorem row_eraseCol (r : Row) (o x : Nat) :
    (if r.length > o then r.eraseIdx o else r).getD x Cell.invisible =
      if x < o then r.getD x Cell.invisible else r.getD (x + 1) Cell.invisible := by
  by_cases h : r.length > o
  · simp only [h, if_true, List.getD_eq_getElem?_getD, List.getElem?_eraseIdx]
    split <;> rfl
  · simp only [h, if_false]
    by_cases h1 : x < o
    · simp [h1]
    · simp only [h1, if_false]
      rw [getD_beyond r x (by omega), getD_beyond r (x + 1) (by omega)]

theorem rowsGet_map (ls : List Row) (g : Row → Row) (x y : Nat) (hg : (g []).getD x Cell.invisible = Cell.invisible) :
    rowsGet (ls.map g) x y = (g (ls.getD y [])).getD x Cell.invisible := by
  simp only [rowsGet, List.getD_eq_getElem?_getD, List.getElem?_map]
  cases ls[y]? with
  | none =>
    have hg' := hg
    rw [List.getD_eq_getElem?_getD] at hg'
    simp [hg']
  | some r => simp

def LObs.insertColumn (a : LObs) (col : Int) : LObs :=
  match colIdx col with
  | none => (a.1 + 1, a.2.1, a.2.2.1, a.2.2.2)
  | some o => (a.1 + 1, a.2.1, a.2.2.1, fun x y => if x < o then a.2.2.2 x y else if x = o then Cell.invisible else a.2.2.2 (x - 1) y)

def LObs.removeColumn (a : LObs) (col : Int) : LObs :=
  match colIdx col with
  | none => (a.1 - 1, a.2.1, a.2.2.1, a.2.2.2)
  | some o => (a.1 - 1, a.2.1, a.2.2.1, fun x y => if x < o then a.2.2.2 x y else a.2.2.2 (x + 1) y)

theorem insertColumnRedo_obs (l : LayerM) (col : Int) : (insertColumnRedo l col).obs = l.obs.insertColumn col := by
  unfold insertColumnRedo LObs.insertColumn
  cases hc : colIdx col with
  | none => rfl
  | some o =>
    simp only [LayerM.obs]
    congr 3
    funext x y
    rw [rowsGet_map _ _ _ _ (by rw [row_insertCol]; simp)]
    rw [row_insertCol]
    rfl

theorem insertColumnUndo_obs (l : LayerM) (col : Int) : (insertColumnUndo l col).obs = l.obs.removeColumn col := by
  unfold insertColumnUndo LObs.removeColumn
  cases hc : colIdx col with
  | none => rfl
  | some o =>
    simp only [LayerM.obs]
    congr 3
    funext x y
    rw [rowsGet_map _ _ _ _ (by rw [row_eraseCol]; simp)]
    rw [row_eraseCol]
    rfl

/-- **InsertColumn** — at every document (rows shorter than the column, negative caret column, …) -/
theorem inverse_insertColumn (d : Doc) (i : Nat) (col : Int) : InverseAt (.insertColumn i col) d := by
  intro op' d' hr
  have hop : op' = .insertColumn i col := by
    simp only [UndoOp.redo, onLayer] at hr
    cases hl : d.layers[i]? with
    | none => rw [hl] at hr; simp at hr
    | some l => rw [hl] at hr; simp at hr; exact hr.1.symm
  subst hop
  exact undoable_onLayer (.insertColumn i col) i .err .err (insertColumnRedo · col) (insertColumnUndo · col)
    (·.insertColumn col) (·.removeColumn col) (fun l => insertColumnRedo_obs l col) (fun l => insertColumnUndo_obs l col)
    (fun e _ => rfl) (fun e _ => rfl) hr
    (fun (l : LayerM) hl => by
      show (l.obs.insertColumn col).removeColumn col = l.obs
      generalize l.obs = a
      obtain ⟨w, h, p, c⟩ := a
      unfold LObs.insertColumn LObs.removeColumn
      cases hc : colIdx col with
      | none => simp
      | some o =>
        simp only []
        have hw : w + 1 - 1 = w := by omega
        rw [hw]
        congr 3
        funext x y
        by_cases h1 : x < o
        · simp [h1]
        · have h2 : ¬ (x + 1 < o) := by omega
          have h3 : ¬ (x + 1 = o) := by omega
          simp [h1, h2, h3])



theorem getD_beyond' (r : Row) (x : Nat) (h : r.length ≤ x) : r.getD x Cell.invisible = Cell.invisible := by
  simp [List.getD_eq_getElem?_getD, List.getElem?_eq_none h]

theorem getD_growTo_inv (r : Row) (n x : Nat) : (growTo r n Cell.invisible).getD x Cell.invisible = r.getD x Cell.invisible := by
  simp only [growTo, List.getD_eq_getElem?_getD, List.getElem?_append, List.getElem?_replicate]
  split
  · rfl
  · rename_i h
    have : r[x]? = none := List.getElem?_eq_none (by omega)
    rw [this]
    split <;> simp

theorem getD_insertCell (r : Row) (o x : Nat) (c : Cell) :
    (r.insertCell o c).getD x Cell.invisible = if x < o then r.getD x Cell.invisible else if x = o then c else r.getD (x - 1) Cell.invisible := by
  unfold Row.insertCell
  have hlen : o ≤ (growTo r o Cell.invisible).length := by simp [growTo]; omega
  simp only [List.getD_eq_getElem?_getD, List.getElem?_insertIdx]
  split
  · rw [← List.getD_eq_getElem?_getD, getD_growTo_inv, List.getD_eq_getElem?_getD]
  · split
    · rename_i h1 h2; subst h2; simp [hlen]
    · rw [← List.getD_eq_getElem?_getD, getD_growTo_inv, List.getD_eq_getElem?_getD]

/-- the rows after `DeleteColumn::undo`'s loop: rows below `i` untouched; row `y ≥ i` gets its deleted cell back at
    column `o` if one was recorded, else stays as it is -/
theorem go_view (o : Nat) (del : List (Option Cell)) : ∀ (i : Nat) (lines : List Row) (x y : Nat),
    rowsGet (deleteColumnUndo.go o i del lines) x y =
      if y < i then rowsGet lines x y else
        match del.getD (y - i) none with
        | some c => if x < o then rowsGet lines x y else if x = o then c else rowsGet lines (x - 1) y
        | none => rowsGet lines x y := by
  induction del with
  | nil => intro i lines x y; simp [deleteColumnUndo.go]
  | cons dc rest ih =>
    intro i lines x y
    cases dc with
    | none =>
      simp only [deleteColumnUndo.go]
      rw [ih]
      by_cases h1 : y < i
      · have : y < i + 1 := by omega
        simp [h1, this]
      · by_cases h2 : y = i
        · subst h2; simp
        · have h3 : ¬ y < i + 1 := by omega
          have h4 : y - i = (y - (i + 1)) + 1 := by omega
          simp only [h1, h3, if_false]
          rw [h4]; simp
    | some c =>
      simp only [deleteColumnUndo.go]
      rw [ih]
      have hlen : i < (growTo lines (i + 1) ([] : Row)).length := by simp [growTo]; omega
      have hv : ∀ x' y', rowsGet ((growTo lines (i + 1) ([] : Row)).set i (((growTo lines (i + 1) ([] : Row)).getD i []).insertCell o c)) x' y' =
          if y' = i then (if x' < o then rowsGet lines x' i else if x' = o then c else rowsGet lines (x' - 1) i) else rowsGet lines x' y' := by
        intro x' y'
        rw [rowsGet_set _ _ _ _ _ hlen]
        by_cases hy : y' = i
        · subst hy
          simp only [if_true]
          rw [getD_insertCell]
          have e : ∀ z, ((growTo lines (y' + 1) ([] : Row)).getD y' []).getD z Cell.invisible = rowsGet lines z y' := by
            intro z
            have := rowsGet_growTo_nil lines (y' + 1) z y'
            simpa [rowsGet] using this
          simp only [e]
        · simp only [hy, if_false]
          exact rowsGet_growTo_nil _ _ _ _
      by_cases h1 : y < i
      · have : y < i + 1 := by omega
        have hne : ¬ y = i := by omega
        simp only [h1, this, if_true, hv, hne, if_false]
      · by_cases h2 : y = i
        · subst h2
          have : y < y + 1 := by omega
          simp only [this, if_true, Nat.lt_irrefl, if_false, Nat.sub_self, List.getD_cons_zero]
          rw [hv]; simp
        · have h3 : ¬ y < i + 1 := by omega
          have h4 : y - i = (y - (i + 1)) + 1 := by omega
          simp only [h1, h3, if_false, hv, h2]
          rw [h4]; simp



theorem colIdx_neg {col : Int} (h : col < 0) : colIdx col = none := by simp [colIdx, h]
theorem colIdx_nonneg {col : Int} (h : ¬ col < 0) : colIdx col = some col.toNat := by simp [colIdx, h]

/-- `DeleteColumn::redo` on the observation, and what the recorded column says about the layer -/
theorem deleteColumnRedo_obs (l : LayerM) (col : Int) :
    (deleteColumnRedo l col).2.obs = l.obs.removeColumn col ∧
    (col < 0 → ∀ y, (deleteColumnRedo l col).1.getD y none = none) ∧
    (¬ col < 0 → ∀ y, match (deleteColumnRedo l col).1.getD y none with
      | some c => c = rowsGet l.lines col.toNat y
      | none => ∀ x, col.toNat ≤ x → rowsGet l.lines x y = Cell.invisible) := by
  by_cases hneg : col < 0
  · have hc := colIdx_neg hneg
    refine ⟨?_, ?_, fun h => absurd hneg h⟩
    · simp [deleteColumnRedo, LObs.removeColumn, hc, LayerM.obs]
    · intro _ y
      simp only [deleteColumnRedo, hc, List.getD_eq_getElem?_getD, List.getElem?_map]
      cases l.lines[y]? <;> simp
  · have hc := colIdx_nonneg hneg
    refine ⟨?_, fun h => absurd h hneg, ?_⟩
    · simp only [deleteColumnRedo, LObs.removeColumn, hc, LayerM.obs]
      congr 3
      funext x y
      rw [rowsGet_map _ _ _ _ (by simp)]
      have := row_eraseCol (l.lines.getD y []) col.toNat x
      simpa [rowsGet, GT.gt] using this
    · intro _ y
      simp only [deleteColumnRedo, hc, List.getD_eq_getElem?_getD, List.getElem?_map, rowsGet]
      cases hy : l.lines[y]? with
      | none => simp
      | some r =>
        simp only [Option.map_some, Option.getD_some]
        by_cases ho : col.toNat < r.length
        · simp [ho, List.getD_eq_getElem?_getD]
        · simp only [ho, if_false]
          intro x hx
          rw [← List.getD_eq_getElem?_getD]
          exact getD_beyond' r x (by omega)

theorem deleteColumnUndo_obs (l : LayerM) (col : Int) (del : List (Option Cell)) :
    (deleteColumnUndo l col del).obs = (l.w + 1, l.h, l.props, fun x y =>
      match del.getD y none with
      | some c => if x < col.toNat then rowsGet l.lines x y else if x = col.toNat then c else rowsGet l.lines (x - 1) y
      | none => rowsGet l.lines x y) := by
  simp only [deleteColumnUndo, LayerM.obs]
  congr 3
  funext x y
  rw [go_view]
  simp only [Nat.not_lt_zero, if_false, Nat.sub_zero]
  try (cases del.getD y none <;> rfl)

/-- **DeleteColumn** — at every document: rows shorter than the column (nothing recorded for them), rows that are not
    materialised, negative caret column -/
theorem inverse_deleteColumn (d : Doc) (i : Nat) (col : Int) (del0 : List (Option Cell)) : InverseAt (.deleteColumn i col del0) d := by
  intro op' d' hr
  simp only [UndoOp.redo] at hr
  cases hl : d.layers[i]? with
  | none => rw [hl] at hr; simp at hr
  | some l =>
    rw [hl] at hr
    simp at hr
    obtain ⟨rfl, rfl⟩ := hr
    obtain ⟨hobs, hdelneg, hdelpos⟩ := deleteColumnRedo_obs l col
    -- what a recorded column must say about the layer `l` it was taken from
    let P : List (Option Cell) → Prop := fun del =>
      (col < 0 → ∀ y, del.getD y none = none) ∧
      (¬ col < 0 → ∀ y, match del.getD y none with
        | some c => c = rowsGet l.lines col.toNat y
        | none => ∀ x, col.toNat ≤ x → rowsGet l.lines x y = Cell.invisible)
    refine ⟨fun o => ∃ del, o = .deleteColumn i col del ∧ P del, fun o => ∃ del, o = .deleteColumn i col del,
      ⟨_, rfl, hdelneg, hdelpos⟩, ?_, ?_⟩
    · rintro o ⟨del, rfl, hP1, hP2⟩ e' he'
      have hd' : (d.setLayer i (deleteColumnRedo l col).2).layers[i]? = some (deleteColumnRedo l col).2 :=
        getElem?_setLayer_self d i _ l hl
      obtain ⟨l', hl1, hl2⟩ := obs_some he'.symm hd'
      rw [hobs] at hl2
      refine ⟨.deleteColumn i col del, e'.setLayer i (deleteColumnUndo l' col del), ?_, ?_, del, rfl⟩
      · simp [UndoOp.undo, onLayer, hl1]
      · have e1 : (deleteColumnUndo l' col del).obs = l.obs := by
          rw [deleteColumnUndo_obs]
          by_cases hneg : col < 0
          · have hc := colIdx_neg hneg
            simp only [LObs.removeColumn, hc] at hl2
            have hw : l'.w = l.w - 1 := congrArg (·.1) hl2
            have hh : l'.h = l.h := congrArg (·.2.1) hl2
            have hp : l'.props = l.props := congrArg (·.2.2.1) hl2
            have hcl : rowsGet l'.lines = rowsGet l.lines := congrArg (·.2.2.2) hl2
            have hw2 : l.w - 1 + 1 = l.w := by omega
            simp only [LayerM.obs, hw, hh, hp, hcl, hw2]
            congr 3
            funext x y
            rw [hP1 hneg y]
          · have hc := colIdx_nonneg hneg
            simp only [LObs.removeColumn, hc] at hl2
            have hw : l'.w = l.w - 1 := congrArg (·.1) hl2
            have hh : l'.h = l.h := congrArg (·.2.1) hl2
            have hp : l'.props = l.props := congrArg (·.2.2.1) hl2
            have hcl : rowsGet l'.lines = fun x y => if x < col.toNat then rowsGet l.lines x y else rowsGet l.lines (x + 1) y :=
              congrArg (·.2.2.2) hl2
            have hw2 : l.w - 1 + 1 = l.w := by omega
            simp only [LayerM.obs, hw, hh, hp, hw2]
            congr 3
            funext x y
            have hy := hP2 hneg y
            cases hd : del.getD y none with
            | some c =>
              rw [hd] at hy
              simp only [hcl]
              by_cases h1 : x < col.toNat
              · simp [h1]
              · by_cases h2 : x = col.toNat
                · simp [h2, hy]
                · have h3 : ¬ (x - 1 < col.toNat) := by omega
                  have h4 : x - 1 + 1 = x := by omega
                  simp [h1, h2, h3, h4]
            | none =>
              rw [hd] at hy
              simp only [hcl]
              by_cases h1 : x < col.toNat
              · simp [h1]
              · simp only [h1, if_false]
                rw [hy x (by omega), hy (x + 1) (by omega)]
        rw [obs_setLayer, e1]
        have h1 := obs_w he'; have h2 := obs_h he'; have h3 := obs_layers he'; have hx4 := obs_x he'
        refine DObs.ext' h1 h2 ?_ hx4
        show (e'.layers.map LayerM.obs).set i l.obs = d.layers.map LayerM.obs
        rw [h3]
        show ((d.setLayer i _).layers.map LayerM.obs).set i l.obs = _
        simp only [Doc.setLayer, List.map_set, List.set_set]
        exact map_set_self _ _ _ _ hl
    · rintro o ⟨del, rfl⟩ e he
      obtain ⟨l', hl1, hl2⟩ := obs_some he.symm hl
      obtain ⟨hobs', hdn', hdp'⟩ := deleteColumnRedo_obs l' col
      have hcl : rowsGet l'.lines = rowsGet l.lines := congrArg (·.2.2.2) hl2
      refine ⟨.deleteColumn i col (deleteColumnRedo l' col).1, e.setLayer i (deleteColumnRedo l' col).2, ?_, ?_, _, rfl, hdn', ?_⟩
      · simp [UndoOp.redo, hl1]
      · apply obs_setLayer_congr he
        rw [hobs', hobs, hl2]
      · intro hneg y
        have := hdp' hneg y
        rw [hcl] at this
        exact this

end IcyVerif.Undo
