import IcyVerif.Lemmas.ArtShows
import IcyVerif.Lemmas.ArtFormats
/-! # Avatar: attribute command ^V^A, run-length command ^Y, the writer's look-ahead loop — C15 -/
set_option linter.unusedSimpArgs false
namespace IcyVerif.ArtIO
open IcyVerif.Gen.Art

theorem cell_same_iff (a b : Cell) : a.same b = true ↔ a = b := by
  cases a with | mk ca aa => cases b with | mk cb ab =>
  simp only [Cell.same, Bool.and_eq_true, beq_iff_eq, same_iff, Cell.mk.injEq]

/-! ### the look-ahead never leaves the run of equal cells -/

/-- `avtRun` returns a run: every cell from the start position to the returned position equals the start cell -/
theorem avtRun_spec (w : Nat) (row : List Cell) : ∀ (fuel x n : Nat),
    let res := avtRun w row fuel x n
    x ≤ res.2 ∧ res.1 + x = n + res.2 ∧ ∀ i, x ≤ i → i ≤ res.2 → row.getD i defaultCell = row.getD x defaultCell := by
  intro fuel
  induction fuel with
  | zero =>
    intro x n
    refine ⟨Nat.le_refl _, rfl, ?_⟩
    intro i h1 h2
    have : i = x := by simp [avtRun] at h2; omega
    rw [this]
  | succ f ih =>
    intro x n
    unfold avtRun
    by_cases hc : x + avtLookAhead < w ∧ (row.getD x defaultCell).same (row.getD (x + 1) defaultCell) = true
    · rw [if_pos hc]
      obtain ⟨i1, i2, i3⟩ := ih (x + 1) (n + 1)
      have heq : row.getD (x + 1) defaultCell = row.getD x defaultCell := ((cell_same_iff _ _).1 hc.2).symm
      refine ⟨by omega, by omega, ?_⟩
      intro i h1 h2
      by_cases hi : i = x
      · rw [hi]
      · rw [i3 i (by omega) h2, heq]
    · rw [if_neg hc]
      refine ⟨Nat.le_refl _, rfl, ?_⟩
      intro i h1 h2
      have : i = x := by omega
      rw [this]

theorem trimRow_last_not_transparent (r : List Cell) (h : trimRow r ≠ []) :
    ((trimRow r).getD ((trimRow r).length - 1) defaultCell).isTransparent = false := by
  unfold trimRow at h ⊢
  have hd := List.head?_dropWhile_not Cell.isTransparent r.reverse
  cases hl : r.reverse.dropWhile Cell.isTransparent with
  | nil => rw [hl] at h; simp at h
  | cons a t =>
    rw [hl] at hd
    simp only [List.head?_cons] at hd
    simp only [List.reverse_cons, List.length_append, List.length_reverse, List.length_cons, List.length_nil,
      Nat.zero_add, Nat.add_sub_cancel, List.getD_eq_getElem?_getD]
    rw [List.getElem?_append_right (by simp)]
    simp [hd]

/-- a run that starts inside the row's length ends inside it: the last significant cell is not blank-on-black, the
    cell after it is -/
theorem run_stays_inside (row : List Cell) (x x1 : Nat) (hx : x < rowLen row) (_hle : x ≤ x1)
    (heq : ∀ i, x ≤ i → i ≤ x1 → row.getD i defaultCell = row.getD x defaultCell) : x1 < rowLen row := by
  rcases Nat.lt_or_ge x1 (rowLen row) with h | h
  · exact h
  · exfalso
    have hne : trimRow row ≠ [] := by
      intro e; unfold rowLen at hx; rw [e] at hx; simp at hx
    have hlast : ((trimRow row).getD (rowLen row - 1) defaultCell).isTransparent = false :=
      trimRow_last_not_transparent row hne
    have hl1 : rowLen row - 1 < (trimRow row).length := by unfold rowLen; unfold rowLen at hx; omega
    rw [trimRow_getD row _ _ hl1] at hlast
    have e1 : row.getD (rowLen row - 1) defaultCell = row.getD x defaultCell :=
      heq _ (by unfold rowLen at *; omega) (by unfold rowLen at *; omega)
    have e2 : row.getD (rowLen row) defaultCell = row.getD x defaultCell := heq _ (by omega) h
    have ht : (row.getD (rowLen row) defaultCell).isTransparent = true := by
      by_cases hxl : rowLen row < row.length
      · exact trimRow_rest_transparent row _ (Nat.le_refl _) hxl
      · have : row.getD (rowLen row) defaultCell = defaultCell := by
          have hq : row.length ≤ rowLen row := by omega
          rw [List.getD_eq_getElem?_getD, List.getElem?_eq_none hq]; rfl
        rw [this]; decide
    rw [e2, ← e1] at ht
    rw [hlast] at ht; cases ht

/-! ### the reader on the writer's tokens -/

structure AvtR (s : Attr × Bool) (r : RS) : Prop where
  ns : r.core.stuck = false
  q : r.avt.st = .chars
  ag : r.ansi.st = .ground
  ice : r.core.caretIce = false
  bi : r.core.bufIce = .unlimited
  attr : s.2 = false → r.core.attr = s.1

def AvtDom (c : Cell) : Prop :=
  c.attr.fg < 16 ∧ c.attr.bg < 8 ∧ c.attr.fl = Flags.none ∧ 0 < c.ch ∧ c.ch < 256 ∧ c.ch ≠ 22 ∧ c.ch ≠ 25 ∧ AnsiPrintable c.ch

theorem avt_attr_byte (im : IceMode) : ∀ fg < 16, ∀ bg < 8,
    attrFromU8 (attrAsU8 ⟨fg, bg, Flags.none⟩ im % 256) .unlimited = ⟨fg, bg, Flags.none⟩ ∧
    attrAsU8 ⟨fg, bg, Flags.none⟩ im % 65536 = attrAsU8 ⟨fg, bg, Flags.none⟩ im := by
  cases im <;> decide

/-- `^V ^A <attr>` -/
theorem avt_tok_attr (s : Attr × Bool) (r : RS) (b : Nat) (h : AvtR s r) :
    AvtR (attrFromU8 (b % 256) .unlimited, false) ([22, 1, b].foldl (step .avatar) r) ∧
    ([22, 1, b].foldl (step .avatar) r).core.scr = r.core.scr := by
  obtain ⟨ns, q, ag, ice, bi, _⟩ := h
  have e : [22, 1, b].foldl (step .avatar) r =
      { r with core := { r.core with attr := attrFromU8 (b % 256) .unlimited } } := by
    simp [step, avtStep, ns, q, avtClr, avtRep, avtCmd, bi]
    cases r with | mk core ansi pcb ren ctrla avt ata => cases avt; simp_all
  rw [e]
  exact ⟨⟨ns, q, ag, ice, bi, fun _ => rfl⟩, rfl⟩

/-- a character of the domain in the ground state is printed with the caret attribute -/
theorem avt_tok_char (s : Attr × Bool) (r : RS) (ch : Nat) (h : AvtR s r) (h22 : ch ≠ 22) (h25 : ch ≠ 25)
    (hpr : AnsiPrintable ch) :
    AvtR s ([ch].foldl (step .avatar) r) ∧
    ([ch].foldl (step .avatar) r).core.scr = r.core.scr.put ⟨ch, r.core.attr⟩ ∧
    ([ch].foldl (step .avatar) r).core.attr = r.core.attr := by
  obtain ⟨ns, q, ag, ice, bi, ha⟩ := h
  have h12 : ch ≠ 12 := hpr.2.2.1
  have e : [ch].foldl (step .avatar) r =
      { r with core := { r.core with scr := r.core.scr.put ⟨ch, r.core.attr⟩ }, ansi := { r.ansi with lastCh := ch } } := by
    simp [step, avtStep, ns, q, avtClr, avtRep, avtCmd, h12, h22, h25, ansiStep_print, ag, hpr, Core.printAnsi, Core.printAttr, ice]
  rw [e]
  exact ⟨⟨ns, q, ag, ice, bi, ha⟩, rfl, rfl⟩

/-- the same character `n` times -/
theorem avt_tok_chars (s : Attr × Bool) (ch : Nat) (h22 : ch ≠ 22) (h25 : ch ≠ 25) (hpr : AnsiPrintable ch) :
    ∀ (n : Nat) (r : RS), AvtR s r →
    AvtR s ((List.replicate n ch).foldl (step .avatar) r) ∧
    ((List.replicate n ch).foldl (step .avatar) r).core.scr = r.core.scr.runOps (putOps (List.replicate n ⟨ch, r.core.attr⟩)) ∧
    ((List.replicate n ch).foldl (step .avatar) r).core.attr = r.core.attr := by
  intro n
  induction n with
  | zero => intro r h; exact ⟨h, rfl, rfl⟩
  | succ k ih =>
    intro r h
    obtain ⟨R1, s1, a1⟩ := avt_tok_char s r ch h h22 h25 hpr
    obtain ⟨R2, s2, a2⟩ := ih _ R1
    rw [List.replicate_succ, List.foldl_cons]
    have e0 : step .avatar r ch = [ch].foldl (step .avatar) r := rfl
    rw [e0]
    refine ⟨R2, ?_, by rw [a2, a1]⟩
    rw [s2, s1, a1, List.replicate_succ]; rfl

theorem ansiRepeat_spec (ch : Nat) (hpr : AnsiPrintable ch) : ∀ (n : Nat) (p : AnsiP) (c : Core),
    c.stuck = false → p.st = .ground → c.caretIce = false →
    (ansiRepeat n p c ch).2 = { c with scr := c.scr.runOps (putOps (List.replicate n ⟨ch, c.attr⟩)) } ∧
    (ansiRepeat n p c ch).1.st = .ground := by
  intro n
  induction n with
  | zero => intro p c _ hg _; exact ⟨rfl, hg⟩
  | succ k ih =>
    intro p c ns hg ice
    unfold ansiRepeat
    rw [ansiStep_print p c ch ns hg hpr]
    simp only []
    have hc : (c.printAnsi ch) = { c with scr := c.scr.put ⟨ch, c.attr⟩ } := by
      simp [Core.printAnsi, Core.printAttr, ice]
    obtain ⟨i1, i2⟩ := ih { p with lastCh := ch } (c.printAnsi ch) (by rw [hc]; exact ns) hg (by rw [hc]; exact ice)
    refine ⟨?_, i2⟩
    rw [i1, hc, List.replicate_succ]; rfl

/-- `^Y <ch> <n>` -/
theorem avt_tok_rep (s : Attr × Bool) (r : RS) (ch n : Nat) (h : AvtR s r) (hpr : AnsiPrintable ch) :
    AvtR s ([25, ch, n].foldl (step .avatar) r) ∧
    ([25, ch, n].foldl (step .avatar) r).core.scr = r.core.scr.runOps (putOps (List.replicate n ⟨ch, r.core.attr⟩)) ∧
    ([25, ch, n].foldl (step .avatar) r).core.attr = r.core.attr := by
  obtain ⟨ns, q, ag, ice, bi, ha⟩ := h
  obtain ⟨i1, i2⟩ := ansiRepeat_spec ch hpr n r.ansi r.core ns ag ice
  have e : [25, ch, n].foldl (step .avatar) r =
      { r with avt := { r.avt with sub := 3, st := .chars, repCh := ch }, ansi := (ansiRepeat n r.ansi r.core ch).1,
               core := (ansiRepeat n r.ansi r.core ch).2 } := by
    simp [step, avtStep, ns, q, avtClr, avtRep, avtCmd]
  rw [e]
  refine ⟨⟨by simp [i1, ns], rfl, i2, by simp [i1, ice], by simp [i1, bi], fun h => by simp [i1, ha h]⟩, by simp [i1], by simp [i1]⟩

/-! ### the cell loop of one row -/

theorem drop_run {l : List Cell} {c : Cell} : ∀ (k x : Nat), x + k < l.length →
    (∀ i, x ≤ i → i ≤ x + k → l.getD i defaultCell = c) → l.drop x = List.replicate (k + 1) c ++ l.drop (x + k + 1) := by
  intro k
  induction k with
  | zero =>
    intro x h heq
    have hx : x < l.length := by omega
    rw [List.drop_eq_getElem_cons hx]
    have := heq x (Nat.le_refl _) (by omega)
    rw [List.getD_eq_getElem?_getD, List.getElem?_eq_getElem hx] at this
    simp only [Option.getD_some] at this
    rw [this]; rfl
  | succ k ih =>
    intro x h heq
    have hx : x < l.length := by omega
    rw [List.drop_eq_getElem_cons hx]
    have h0 := heq x (Nat.le_refl _) (by omega)
    rw [List.getD_eq_getElem?_getD, List.getElem?_eq_getElem hx] at h0
    simp only [Option.getD_some] at h0
    rw [h0, ih (x + 1) (by omega) (fun i a b => heq i (by omega) (by omega))]
    have e : x + 1 + k + 1 = x + (k + 1) + 1 := by omega
    rw [e]; rfl

theorem putOps_append (a b : List Cell) : putOps (a ++ b) = putOps a ++ putOps b := by simp [putOps]

theorem avtCells_spec (im : IceMode) (w : Nat) (row : List Cell) (hw : rowLen row ≤ w) (hw2 : w < 256)
    (hdom : ∀ c ∈ row, AvtDom c) :
    ∀ (fuel x : Nat) (s : Attr × Bool) (r : RS), x ≤ rowLen row → rowLen row - x < fuel → AvtR s r →
      (avtCells im w (rowLen row) row fuel x s).2.2 = rowLen row ∧
      AvtR (avtCells im w (rowLen row) row fuel x s).2.1 ((avtCells im w (rowLen row) row fuel x s).1.foldl (step .avatar) r) ∧
      ((avtCells im w (rowLen row) row fuel x s).1.foldl (step .avatar) r).core.scr =
        r.core.scr.runOps (putOps ((trimRow row).drop x)) := by
  intro fuel
  induction fuel with
  | zero => intro x s r _ h; omega
  | succ f ih =>
    intro x s r hx hf hR
    unfold avtCells
    by_cases hend : rowLen row ≤ x
    · rw [if_pos hend]
      have : x = rowLen row := by omega
      refine ⟨this, hR, ?_⟩
      have hd : (trimRow row).drop x = [] := by
        apply List.drop_eq_nil_of_le; unfold rowLen at this; omega
      rw [hd]; rfl
    · rw [if_neg hend]
      have hxl : x < rowLen row := by omega
      obtain ⟨g1, g2, g3⟩ := avtRun_spec w row w x 1
      generalize hrun : avtRun w row w x 1 = res at g1 g2 g3
      obtain ⟨n, x1⟩ := res
      simp only [] at g1 g2 g3 ⊢
      have hx1 : x1 < rowLen row := run_stays_inside row x x1 hxl g1 g3
      have hx1r : x1 < row.length := Nat.lt_of_lt_of_le hx1 (trimRow_length_le row)
      have hn : n = x1 - x + 1 := by omega
      -- the cell of the run
      have hcm : row.getD x1 defaultCell ∈ row := mem_of_getD_lt hx1r
      obtain ⟨hfg, hbg, hfl, hc0, hc1, h22, h25, hpr⟩ := hdom _ hcm
      generalize hc : row.getD x1 defaultCell = c at hfg hbg hfl hc0 hc1 h22 h25 hpr hcm
      have h12 : c.ch ≠ 12 := hpr.2.2.1
      have hctl : avtIsCtl c.ch = false := by simp [avtIsCtl, h22, h25, h12]
      have hm : c.ch % 256 = c.ch := by omega
      have hattr : (⟨c.attr.fg, c.attr.bg, Flags.none⟩ : Attr) = c.attr := by
        cases c with | mk ch a => cases a with | mk fg bg fl => simp_all
      -- stage 1: the attribute command (if any)
      have S1 : ∃ r1, (if (s.2 || !(c.attr.same s.1)) = true then [22, 1, attrAsU8 c.attr im] else []).foldl (step .avatar) r = r1 ∧
          AvtR (if (s.2 || !(c.attr.same s.1)) = true then c.attr else s.1, false) r1 ∧ r1.core.attr = c.attr ∧
          r1.core.scr = r.core.scr := by
        by_cases hchg : (s.2 || !(c.attr.same s.1)) = true
        · rw [if_pos hchg, if_pos hchg]
          obtain ⟨T1, T2⟩ := avt_tok_attr s r (attrAsU8 c.attr im) hR
          have hb := (avt_attr_byte im c.attr.fg hfg c.attr.bg hbg).1
          rw [hattr] at hb
          rw [hb] at T1
          exact ⟨_, rfl, T1, T1.attr rfl, T2⟩
        · rw [if_neg hchg, if_neg hchg]
          have hs2 : s.2 = false := by
            cases h : s.2 with
            | false => rfl
            | true => simp [h] at hchg
          have hsame : c.attr = s.1 := by
            have : c.attr.same s.1 = true := by
              cases h : c.attr.same s.1 with
              | true => rfl
              | false => simp [h] at hchg
            exact (same_iff _ _).1 this
          refine ⟨r, rfl, ?_, by rw [hR.attr hs2, hsame], rfl⟩
          have : (s.1, false) = s := by rw [← hs2]
          rw [this]; exact hR
      obtain ⟨r1, e1, R1, a1, sc1⟩ := S1
      -- stage 2: the run itself
      have S2 : ∃ r2, (if 1 < n then (if n < avtRepeatMin ∧ (!avtIsCtl c.ch) = true then List.replicate n (c.ch % 256)
              else [25, c.ch % 256, n % 256])
            else if avtIsCtl c.ch = true then [25, c.ch % 256, 1] else [chByte c.ch]).foldl (step .avatar) r1 = r2 ∧
          AvtR (if (s.2 || !(c.attr.same s.1)) = true then c.attr else s.1, false) r2 ∧
          r2.core.scr = r1.core.scr.runOps (putOps (List.replicate n c)) := by
        have hcc : (⟨c.ch, r1.core.attr⟩ : Cell) = c := by rw [a1]
        by_cases h1n : 1 < n
        · rw [if_pos h1n]
          by_cases hsm : n < avtRepeatMin ∧ (!avtIsCtl c.ch) = true
          · rw [if_pos hsm, hm]
            obtain ⟨T1, T2, _⟩ := avt_tok_chars _ c.ch h22 h25 hpr n r1 R1
            exact ⟨_, rfl, T1, by rw [T2, hcc]⟩
          · rw [if_neg hsm, hm]
            have hn256 : n % 256 = n := by omega
            rw [hn256]
            obtain ⟨T1, T2, _⟩ := avt_tok_rep _ r1 c.ch n R1 hpr
            exact ⟨_, rfl, T1, by rw [T2, hcc]⟩
        · rw [if_neg h1n, hctl]
          simp only [Bool.false_eq_true, if_false]
          have hn1 : n = 1 := by omega
          rw [chByte_id hc0 hc1, hn1]
          obtain ⟨T1, T2, _⟩ := avt_tok_char _ r1 c.ch R1 h22 h25 hpr
          exact ⟨_, rfl, T1, by rw [T2, hcc]; rfl⟩
      obtain ⟨r2, e2, R2, sc2⟩ := S2
      -- stage 3: the rest of the row
      obtain ⟨I1, I2, I3⟩ := ih (x1 + 1) (if (s.2 || !(c.attr.same s.1)) = true then c.attr else s.1, false) r2 (by omega) (by omega) R2
      generalize hrec : avtCells im w (rowLen row) row f (x1 + 1)
        (if (s.2 || !(c.attr.same s.1)) = true then c.attr else s.1, false) = rec at I1 I2 I3
      obtain ⟨rest, s', xe⟩ := rec
      simp only [] at I1 I2 I3 ⊢
      refine ⟨I1, ?_, ?_⟩
      · rw [List.foldl_append, List.foldl_append, e1, e2]; exact I2
      · rw [List.foldl_append, List.foldl_append, e1, e2, I3, sc2, sc1]
        have hdrop : (trimRow row).drop x = List.replicate n c ++ (trimRow row).drop (x1 + 1) := by
          have hx1t : x + (x1 - x) < (trimRow row).length := by unfold rowLen at hx1; omega
          have := drop_run (l := trimRow row) (c := c) (x1 - x) x hx1t (by
            intro i a b
            have hil : i < (trimRow row).length := by omega
            rw [trimRow_getD row i _ hil, g3 i a (by omega), ← hc]
            exact (g3 x1 g1 (Nat.le_refl _)).symm)
          rw [this, hn]
          have e : x + (x1 - x) + 1 = x1 + 1 := by omega
          rw [e]
        rw [hdrop, putOps_append, runOps_append]

/-! ### all rows, screen preparation -/

theorem avt_eol (s : Attr × Bool) (r : RS) (hR : AvtR s r) :
    AvtR s (crlf.foldl (step .avatar) r) ∧ (crlf.foldl (step .avatar) r).core.scr = r.core.scr.exec Op.nl := by
  obtain ⟨ns, q, ag, ice, bi, ha⟩ := hR
  have e : crlf.foldl (step .avatar) r = { r with core := { r.core with scr := r.core.scr.cr.lf } } := by
    simp [crlf, step, avtStep, ns, q, avtClr, avtRep, avtCmd, ansiStep_cr, ansiStep_lf, ag]
  rw [e]
  exact ⟨⟨ns, q, ag, ice, bi, ha⟩, rfl⟩

theorem avtRows_sim (im : IceMode) (w : Nat) (hw2 : w < 256) : ∀ (rows : List (List Cell)) (s : Attr × Bool) (r : RS),
    AvtR s r → (∀ row ∈ rows, row.length ≤ w) → (∀ row ∈ rows, ∀ c ∈ row, AvtDom c) →
    (∃ s', AvtR s' ((avtRows im w s rows).foldl (step .avatar) r)) ∧
    ((avtRows im w s rows).foldl (step .avatar) r).core.scr = r.core.scr.runOps (picOps trimRow id w rows) := by
  intro rows
  induction rows with
  | nil => intro s r hR _ _; exact ⟨⟨s, hR⟩, rfl⟩
  | cons row rest ih =>
    intro s r hR hfit hd
    have hrl : rowLen row ≤ w := Nat.le_trans (trimRow_length_le row) (hfit row List.mem_cons_self)
    obtain ⟨C1, C2, C3⟩ := avtCells_spec im w row hrl hw2 (hd row List.mem_cons_self) (w + 1) 0 s r (Nat.zero_le _) (by omega) hR
    unfold avtRows
    generalize hcells : avtCells im w (rowLen row) row (w + 1) 0 s = res at C1 C2 C3
    obtain ⟨b, s1, xe⟩ := res
    simp only [] at C1 C2 C3 ⊢
    rw [C1]
    have hops : putOps ((trimRow row).drop 0) = putOps ((trimRow row).map id) := by simp
    rw [hops] at C3
    by_cases hnl : rowLen row < w ∧ (!rest.isEmpty) = true
    · rw [if_pos hnl]
      obtain ⟨E1, E2⟩ := avt_eol s1 _ C2
      obtain ⟨I1, I2⟩ := ih s1 _ E1 (fun q h => hfit q (List.mem_cons_of_mem _ h)) (fun q h => hd q (List.mem_cons_of_mem _ h))
      rw [List.foldl_append, List.foldl_append]
      refine ⟨I1, ?_⟩
      rw [I2, E2, C3]
      show _ = r.core.scr.runOps (rowOps trimRow id w row (!rest.isEmpty) ++ picOps trimRow id w rest)
      unfold rowOps
      have hnl' : (trimRow row).length < w ∧ (!rest.isEmpty) = true := hnl
      rw [if_pos hnl', runOps_append, runOps_append]; rfl
    · rw [if_neg hnl]
      obtain ⟨I1, I2⟩ := ih s1 _ C2 (fun q h => hfit q (List.mem_cons_of_mem _ h)) (fun q h => hd q (List.mem_cons_of_mem _ h))
      rw [List.append_nil, List.foldl_append]
      refine ⟨I1, ?_⟩
      rw [I2, C3]
      show _ = r.core.scr.runOps (rowOps trimRow id w row (!rest.isEmpty) ++ picOps trimRow id w rest)
      unfold rowOps
      have hnl' : ¬ ((trimRow row).length < w ∧ (!rest.isEmpty) = true) := hnl
      rw [if_neg hnl', runOps_append, runOps_append]; rfl

/-- ^L (clear) and ^V^H 1 1 (home) on the fresh screen change nothing -/
theorem avt_prep (prep : Prep) (r : RS) (hR : AvtR (defaultAttr, true) r)
    (hfresh : r.core.scr.lines = [] ∧ r.core.scr.cx = 0 ∧ r.core.scr.cy = 0) :
    AvtR (defaultAttr, true) ((avtPrep prep).foldl (step .avatar) r) ∧
    ((avtPrep prep).foldl (step .avatar) r).core.scr = r.core.scr := by
  obtain ⟨ns, q, ag, ice, bi, ha⟩ := hR
  obtain ⟨f1, f2, f3⟩ := hfresh
  have hscr : ∀ sc : Screen, sc.lines = [] → sc.cx = 0 → sc.cy = 0 → sc.clear = sc ∧
      ({ sc with cy := 1 - 1, cx := 1 - 1 } : Screen).limit = sc := by
    intro sc a b c; cases sc; simp_all [Screen.clear, Screen.limit]
  obtain ⟨k1, k2⟩ := hscr r.core.scr f1 f2 f3
  cases prep with
  | none => exact ⟨⟨ns, q, ag, ice, bi, ha⟩, rfl⟩
  | clear =>
    have e : (avtPrep .clear).foldl (step .avatar) r = { r with core := { r.core with attr := defaultAttr } } := by
      simp [avtPrep, avtClrW, step, avtStep, ns, q, avtClr, Core.ff, k1]
    rw [e]
    exact ⟨⟨ns, q, ag, ice, bi, fun h => by cases h⟩, rfl⟩
  | home =>
    have e : (avtPrep .home).foldl (step .avatar) r = { r with avt := { r.avt with sub := 2, repCh := 1 } } := by
      simp [avtPrep, avtCmdW, step, avtStep, ns, q, avtClr, avtRep, avtCmd, k2]
      cases r with | mk core ansi pcb ren ctrla avt ata => cases avt; cases core; simp_all
    rw [e]
    exact ⟨⟨ns, q, ag, ice, bi, ha⟩, rfl⟩

/-- an Avatar file starts with ^V, ^L or CR — never with a UTF-8 BOM -/
theorem avt_cells_head (im : IceMode) (w : Nat) (row : List Cell) : ∀ (fuel x : Nat) (s : Attr × Bool), s.2 = true →
    ((avtCells im w (rowLen row) row fuel x s).1 = [] ∧ (avtCells im w (rowLen row) row fuel x s).2.1 = s) ∨
    (avtCells im w (rowLen row) row fuel x s).1.head? = some 22 := by
  intro fuel
  cases fuel with
  | zero => intro x s _; left; exact ⟨rfl, rfl⟩
  | succ f =>
    intro x s hs
    unfold avtCells
    by_cases hend : rowLen row ≤ x
    · rw [if_pos hend]; left; exact ⟨rfl, rfl⟩
    · rw [if_neg hend]
      right
      generalize avtRun w row w x 1 = res
      obtain ⟨n, x1⟩ := res
      simp only [hs, Bool.true_or, if_true]
      generalize avtCells im w (rowLen row) row f (x1 + 1) _ = rec
      obtain ⟨rest, s', xe⟩ := rec
      rfl

theorem avt_rows_head (im : IceMode) (w : Nat) : ∀ (rows : List (List Cell)) (s : Attr × Bool), s.2 = true →
    (avtRows im w s rows).head? ≠ some 239 := by
  intro rows
  induction rows with
  | nil => intro s _; simp [avtRows]
  | cons row rest ih =>
    intro s hs
    unfold avtRows
    have H := avt_cells_head im w row (w + 1) 0 s hs
    generalize avtCells im w (rowLen row) row (w + 1) 0 s = res at H
    obtain ⟨b, s1, xe⟩ := res
    simp only [] at H ⊢
    rcases H with ⟨e1, e2⟩ | hh
    · subst e1; subst e2
      by_cases hnl : xe < w ∧ (!rest.isEmpty) = true
      · rw [if_pos hnl]; simp [crlf]
      · rw [if_neg hnl]; simp only [List.nil_append]; exact ih s1 hs
    · cases b with
      | nil => simp at hh
      | cons a t => simp at hh; simp [hh]

theorem avt_noBom (prep : Prep) (im : IceMode) (w : Nat) (rows : List (List Cell)) :
    bomPrefixed (avtPrep prep ++ avtRows im w (defaultAttr, true) rows) = false := by
  apply noBom_of_head
  cases prep with
  | clear => simp [avtPrep, avtClrW]
  | home => simp [avtPrep, avtCmdW]
  | none => simp only [avtPrep, List.nil_append]; exact avt_rows_head im w rows _ rfl

end IcyVerif.ArtIO
