import IcyVerif.Model.SixelLoad
import IcyVerif.Lemmas.SixelQueue
set_option linter.unusedSimpArgs false
set_option linter.unusedVariables false
/-! Lemmas about the file-loading path: the conversion loop maps the delivered sixels one-to-one onto image
    layers (newest first), cell sizes are ceilings, the join loop delivers the arrival-order placement whatever
    the completion schedule, and the covering rule removes nothing but covered images. -/
namespace IcyVerif.SixelLoad
open IcyVerif.SixelQueue

/-! ### the conversion loop -/

theorem convLoop_eq (fw fh : Int) (stack : List Img) (num : Nat) (acc : List ImgLayer) :
    convLoop fw fh stack num acc = acc ++ (stack.zipIdx (num + 1)).map (fun p => mkLayer fw fh p.2 p.1) := by
  induction stack generalizing num acc with
  | nil => simp [convLoop]
  | cons i st ih => simp [convLoop, ih, List.zipIdx_cons, List.append_assoc]

theorem toLayers_eq (fw fh : Int) (sixels : List Img) :
    toLayers fw fh sixels = (sixels.reverse.zipIdx 1).map (fun p => mkLayer fw fh p.2 p.1) := by
  simp [toLayers, convLoop_eq]

theorem toLayers_length (fw fh : Int) (sixels : List Img) : (toLayers fw fh sixels).length = sixels.length := by
  simp [toLayers_eq]

theorem toLayers_getElem? (fw fh : Int) (sixels : List Img) (k : Nat) :
    (toLayers fw fh sixels)[k]? = (sixels.reverse[k]?).map (fun i => mkLayer fw fh (k + 1) i) := by
  rw [toLayers_eq, List.getElem?_map, List.getElem?_zipIdx]
  cases sixels.reverse[k]? <;> simp [Nat.add_comm]

theorem map_fst_zipIdx {α : Type} (l : List α) (n : Nat) : (l.zipIdx n).map (·.1) = l := by
  induction l generalizing n with
  | nil => rfl
  | cons a l ih => simp [List.zipIdx_cons, ih]

theorem map_snd_zipIdx {α : Type} (l : List α) (n : Nat) : (l.zipIdx n).map (·.2) = List.range' n l.length := by
  induction l generalizing n with
  | nil => rfl
  | cons a l ih => simp [List.zipIdx_cons, ih, List.range'_succ]

theorem toLayers_ids (fw fh : Int) (sixels : List Img) :
    (toLayers fw fh sixels).map (·.id) = (sixels.map (·.id)).reverse := by
  rw [toLayers_eq, List.map_map]
  have : ((fun l : ImgLayer => l.id) ∘ fun p : Img × Nat => mkLayer fw fh p.2 p.1) = (fun i : Img => i.id) ∘ (·.1) := by
    funext p; rfl
  rw [this, ← List.map_map, map_fst_zipIdx, List.map_reverse]

theorem toLayers_nums (fw fh : Int) (sixels : List Img) :
    (toLayers fw fh sixels).map (·.num) = List.range' 1 sixels.length := by
  rw [toLayers_eq, List.map_map]
  have : ((fun l : ImgLayer => l.num) ∘ fun p : Img × Nat => mkLayer fw fh p.2 p.1) = (·.2) := by
    funext p; rfl
  rw [this, map_snd_zipIdx, List.length_reverse]

/-! ### cell sizes -/

theorem cells_ceil (p f : Int) (hf : 0 < f) (hp : 0 ≤ p) :
    0 ≤ cells p f ∧ (cells p f - 1) * f < p ∧ p ≤ cells p f * f := by
  unfold cells
  have hnn : 0 ≤ p + f - 1 := by omega
  rw [Int.tdiv_eq_ediv_of_nonneg hnn]
  have h1 : (p + f - 1) / f * f ≤ p + f - 1 := Int.ediv_mul_le _ (by omega)
  have h2 : p + f - 1 < ((p + f - 1) / f + 1) * f := Int.lt_ediv_add_one_mul_self _ hf
  have h0 : 0 ≤ (p + f - 1) / f := Int.ediv_nonneg hnn (by omega)
  rw [Int.add_mul] at h2
  rw [Int.sub_mul]
  refine ⟨h0, by omega, by omega⟩

theorem cells_zero (f : Int) (hf : 0 < f) : cells 0 f = 0 := by
  have := cells_ceil 0 f hf (by omega)
  obtain ⟨h0, h1, h2⟩ := this
  rw [Int.sub_mul] at h1
  by_cases h : cells 0 f = 0
  · exact h
  · have hpos : 1 ≤ cells 0 f := by omega
    have : 1 * f ≤ cells 0 f * f := Int.mul_le_mul_of_nonneg_right hpos (by omega)
    omega

/-! ### the covering rule removes nothing but covered images -/

def covers (cfg : Cfg) (new old : Img) : Bool :=
  containsRect (screenRect cfg.fw cfg.fh new) (screenRect cfg.fw cfg.fh old)

theorem removeShadowed_sublist (cfg : Cfg) (new : Img) (l : List Img) : (removeShadowed cfg new l).Sublist l := by
  induction l with
  | nil => exact List.Sublist.slnil
  | cons o l ih =>
    simp only [removeShadowed]; split
    · exact ih.cons o
    · exact ih.cons_cons o

theorem mem_removeShadowed {cfg : Cfg} {new i : Img} {l : List Img} (hi : i ∈ l) (hc : covers cfg new i = false) :
    i ∈ removeShadowed cfg new l := by
  induction l with
  | nil => simp at hi
  | cons o l ih =>
    simp only [removeShadowed]
    rcases List.mem_cons.1 hi with h | h
    · subst h
      simp only [covers] at hc
      simp [hc]
    · split
      · exact ih h
      · exact List.mem_cons_of_mem _ (ih h)

/-- an image on the layer stays there while later images are placed, unless one of them covers it -/
theorem foldl_place_keeps (cfg : Cfg) (post : List Img) (L : List Img) (i : Img) (hi : i ∈ L) :
    i ∈ post.foldl (place cfg) L ∨ ∃ j ∈ post, covers cfg j i = true := by
  induction post generalizing L with
  | nil => exact Or.inl hi
  | cons j post ih =>
    simp only [List.foldl_cons]
    by_cases hc : covers cfg j i = true
    · exact Or.inr ⟨j, by simp, hc⟩
    · have hm : i ∈ place cfg L j := by
        unfold place
        exact List.mem_append_left _ (mem_removeShadowed hi (by simpa using hc))
      rcases ih (place cfg L j) hm with h | ⟨k, hk, hck⟩
      · exact Or.inl h
      · exact Or.inr ⟨k, List.mem_cons_of_mem _ hk, hck⟩

theorem placeAll_lost_only_if_covered (cfg : Cfg) (pre post : List Img) (i : Img) :
    i ∈ placeAll cfg (pre ++ i :: post) ∨ ∃ j ∈ post, covers cfg j i = true := by
  unfold placeAll
  rw [List.foldl_append, List.foldl_cons]
  apply foldl_place_keeps
  unfold place
  simp

theorem place_sublist (cfg : Cfg) (L : List Img) (i : Img) : (place cfg L i).Sublist (L ++ [i]) := by
  unfold place
  exact List.Sublist.append (removeShadowed_sublist cfg i L) (List.Sublist.refl _)

theorem foldl_place_sublist (cfg : Cfg) (imgs : List Img) (L : List Img) :
    (imgs.foldl (place cfg) L).Sublist (L ++ imgs) := by
  induction imgs generalizing L with
  | nil => simp
  | cons i imgs ih =>
    simp only [List.foldl_cons]
    have h1 := ih (place cfg L i)
    have h2 : (place cfg L i ++ imgs).Sublist ((L ++ [i]) ++ imgs) :=
      List.Sublist.append (place_sublist cfg L i) (List.Sublist.refl _)
    simpa [List.append_assoc] using h1.trans h2

/-- the layer is a sub-sequence of the successfully decoded images in ARRIVAL order: nothing is reordered,
    nothing is shown twice -/
theorem placeAll_sublist (cfg : Cfg) (imgs : List Img) : (placeAll cfg imgs).Sublist imgs := by
  have := foldl_place_sublist cfg imgs []
  simpa [placeAll] using this

/-- the newest image is always on top -/
theorem placeAll_newest (cfg : Cfg) (imgs : List Img) (i : Img) :
    (placeAll cfg (imgs ++ [i])).getLast? = some i := by
  rw [placeAll_snoc]; unfold place; simp

/-! ### the join loop -/

def NoErr (cfg : Cfg) (l : List Nat) : Prop := ∀ id ∈ l, cfg.res id ≠ .err

theorem pollLoop_ok_noErr (cfg : Cfg) (q : List (Nat × Option Res)) (layer : List Img) (log : List Nat) (upd b : Bool)
    (he : Entries cfg q) (h : (pollLoop cfg q layer log upd).2 = .ok b) :
    ∃ p, ids q = p ++ ids (pollLoop cfg q layer log upd).1.queue ∧ NoErr cfg p := by
  induction q generalizing layer log upd with
  | nil => exact ⟨[], by simp [pollLoop_nil, ids], fun _ h => by simp at h⟩
  | cons e q ih =>
    obtain ⟨id, h'⟩ := e
    have he' : Entries cfg q := fun e' h'' => he e' (by simp [h''])
    cases h' with
    | none => exact ⟨[], by simp [pollLoop_none, ids], fun _ h => by simp at h⟩
    | some r =>
      have hr : r = cfg.res id := by
        have := he (id, some r) (by simp)
        simpa using this
      cases r with
      | panicked =>
        simp only [pollLoop_panicked] at h ⊢
        obtain ⟨p, h1, h2⟩ := ih layer log upd he' h
        refine ⟨id :: p, by simp [ids] at h1 ⊢; exact h1, ?_⟩
        intro x hx
        rcases List.mem_cons.1 hx with hx | hx
        · subst hx; rw [← hr]; simp
        · exact h2 x hx
      | err => simp [pollLoop_err] at h
      | ok img =>
        simp only [pollLoop_ok] at h ⊢
        obtain ⟨p, h1, h2⟩ := ih _ _ _ he' h
        refine ⟨id :: p, by simp [ids] at h1 ⊢; exact h1, ?_⟩
        intro x hx
        rcases List.mem_cons.1 hx with hx | hx
        · subst hx; rw [← hr]; simp
        · exact h2 x hx

theorem pollLoop_err_hasErr (cfg : Cfg) (q : List (Nat × Option Res)) (layer : List Img) (log : List Nat) (upd : Bool)
    (he : Entries cfg q) (h : (pollLoop cfg q layer log upd).2 = .err) :
    ∃ id ∈ ids q, cfg.res id = .err := by
  induction q generalizing layer log upd with
  | nil => simp [pollLoop_nil] at h
  | cons e q ih =>
    obtain ⟨id, h'⟩ := e
    have he' : Entries cfg q := fun e' h'' => he e' (by simp [h''])
    cases h' with
    | none => simp [pollLoop_none] at h
    | some r =>
      have hr : r = cfg.res id := by
        have := he (id, some r) (by simp)
        simpa using this
      cases r with
      | panicked =>
        simp only [pollLoop_panicked] at h
        obtain ⟨x, hx, hxe⟩ := ih layer log upd he' h
        exact ⟨x, by simp [ids] at hx ⊢; exact Or.inr hx, hxe⟩
      | err => exact ⟨id, by simp [ids], hr.symm⟩
      | ok img =>
        simp only [pollLoop_ok] at h
        obtain ⟨x, hx, hxe⟩ := ih _ _ _ he' h
        exact ⟨x, by simp [ids] at hx ⊢; exact Or.inr hx, hxe⟩

/-- what a poll leaves in the queue is a suffix of what it found -/
theorem pollLoop_suffix (cfg : Cfg) (q : List (Nat × Option Res)) (layer : List Img) (log : List Nat) (upd : Bool) :
    ∀ e ∈ (pollLoop cfg q layer log upd).1.queue, e ∈ q := by
  induction q generalizing layer log upd with
  | nil => simp [pollLoop_nil]
  | cons e q ih =>
    obtain ⟨id, h'⟩ := e
    cases h' with
    | none => simp [pollLoop_none]
    | some r =>
      cases r with
      | panicked => simp only [pollLoop_panicked]; intro e he; exact List.mem_cons_of_mem _ (ih _ _ _ e he)
      | err => simp only [pollLoop_err]; intro e he; exact List.mem_cons_of_mem _ he
      | ok img => simp only [pollLoop_ok]; intro e he; exact List.mem_cons_of_mem _ (ih _ _ _ e he)

theorem finishAll_good {cfg : Cfg} {arr popped : List Nat} (fin : List Nat) {s : St} (g : Good cfg arr popped s) :
    Good cfg arr popped (finishAll cfg s fin) := by
  unfold finishAll
  induction fin generalizing s with
  | nil => exact g
  | cons a fin ih =>
    simp only [List.foldl_cons]
    exact ih (finish_good g a)

/-- a handle that is still running after the threads `fin` completed was running before and is not in `fin` -/
theorem finishAll_running (cfg : Cfg) (fin : List Nat) (s : St) :
    ∀ e ∈ (finishAll cfg s fin).queue, e.2 = none → e ∈ s.queue ∧ e.1 ∉ fin := by
  unfold finishAll
  induction fin generalizing s with
  | nil => intro e he _; exact ⟨he, by simp⟩
  | cons a fin ih =>
    intro e he hn
    simp only [List.foldl_cons] at he
    obtain ⟨h1, h2⟩ := ih (step cfg s (.finish a)) e he hn
    simp only [step] at h1
    obtain ⟨e0, h0, h0e⟩ := List.mem_map.1 h1
    by_cases ha : e0.1 = a
    · simp only [ha, if_true] at h0e
      rw [← h0e] at hn; simp at hn
    · simp only [ha, if_false] at h0e
      subst h0e
      exact ⟨h0, by simp [ha, h2]⟩

structure JInv (cfg : Cfg) (arr popped : List Nat) (s : St) (sched : List (List Nat)) : Prop where
  good : Good cfg arr popped s
  noErr : NoErr cfg popped
  head : s.queue = [] ∨ ∃ id rest, s.queue = (id, none) :: rest
  cover : ∀ e ∈ s.queue, e.2 = none → e.1 ∈ sched.flatten

/-- outcome of the join loop from a state satisfying the invariant -/
def JoinOK (cfg : Cfg) (arr : List Nat) : St × JoinRet → Prop
  | (s, .done) => s.queue = [] ∧ ∃ popped, Good cfg arr popped s ∧ NoErr cfg popped
  | (_, .err) => ∃ id ∈ arr, cfg.res id = .err
  | (_, .blocked) => False
  | (_, .waiting) => False

theorem joinLoop_ok (cfg : Cfg) (arr : List Nat) (sched : List (List Nat)) (popped : List Nat) (s : St)
    (inv : JInv cfg arr popped s sched) : JoinOK cfg arr (joinLoop cfg sched s) := by
  induction sched generalizing popped s with
  | nil =>
    simp only [joinLoop]
    rcases inv.head with h | ⟨id, rest, h⟩
    · simp only [h, List.isEmpty_nil, if_true]
      exact ⟨h, popped, inv.good, inv.noErr⟩
    · have := inv.cover (id, none) (by simp [h]) rfl
      simp at this
  | cons fin rest ih =>
    simp only [joinLoop]
    rcases inv.head with h | ⟨id0, rest0, h⟩
    · simp only [h, List.isEmpty_nil, if_true]
      exact ⟨h, popped, inv.good, inv.noErr⟩
    · have hne : s.queue.isEmpty = false := by simp [h]
      simp only [hne, Bool.false_eq_true, if_false]
      have g1 : Good cfg arr popped (finishAll cfg s fin) := finishAll_good fin inv.good
      obtain ⟨p, g2, hnb⟩ := poll_good g1
      -- the three possible return values of the poll
      cases hret : (poll cfg (finishAll cfg s fin)).2 with
      | blocked => exact absurd hret hnb
      | err =>
        simp only []
        obtain ⟨x, hx, hxe⟩ := pollLoop_err_hasErr cfg _ _ _ false g1.entries hret
        refine ⟨x, ?_, hxe⟩
        rw [g1.split]; exact List.mem_append_right _ hx
      | ok b =>
        simp only []
        apply ih (popped ++ p)
        obtain ⟨p2, e1, n2⟩ := pollLoop_ok_noErr cfg _ _ _ false b g1.entries hret
        have hsplit2 := g2.split
        have hsplit1 := g1.split
        have hp : p2 = p := by
          have e1' : ids (finishAll cfg s fin).queue = p2 ++ ids (poll cfg (finishAll cfg s fin)).1.queue := e1
          rw [hsplit1, e1', ← List.append_assoc] at hsplit2
          have := List.append_cancel_right hsplit2
          exact (List.append_cancel_left this)
        subst hp
        refine ⟨g2, ?_, pollLoop_ok_head cfg _ _ _ false b hret, ?_⟩
        · intro x hx
          rcases List.mem_append.1 hx with hx | hx
          · exact inv.noErr x hx
          · exact n2 x hx
        · intro e he hn
          have he1 : e ∈ (finishAll cfg s fin).queue := pollLoop_suffix cfg _ _ _ false e he
          obtain ⟨h1, h2⟩ := finishAll_running cfg fin s e he1 hn
          have := inv.cover e h1 hn
          simp only [List.flatten_cons, List.mem_append] at this
          rcases this with h' | h'
          · exact absurd h' h2
          · exact h'

/-! ### the state when the text has been parsed -/

theorem arrived_queue (cfg : Cfg) (ids0 : List Nat) (s : St) :
    (ids0.foldl (fun s id => step cfg s (.arrive id)) s).queue = s.queue ++ ids0.map (fun id => (id, none)) ∧
    (ids0.foldl (fun s id => step cfg s (.arrive id)) s).layer = s.layer ∧
    (ids0.foldl (fun s id => step cfg s (.arrive id)) s).log = s.log := by
  induction ids0 generalizing s with
  | nil => simp
  | cons a l ih =>
    simp only [List.foldl_cons]
    obtain ⟨h1, h2, h3⟩ := ih (step cfg s (.arrive a))
    refine ⟨?_, ?_, ?_⟩
    · rw [h1]; simp [step, List.append_assoc]
    · rw [h2]; simp [step]
    · rw [h3]; simp [step]

theorem arrived_inv (cfg : Cfg) (ids0 : List Nat) (sched : List (List Nat))
    (hc : ∀ id ∈ ids0, id ∈ sched.flatten) : JInv cfg ids0 [] (arrived cfg ids0) sched := by
  obtain ⟨hq, hl, hg⟩ := arrived_queue cfg ids0 {}
  have hq' : (arrived cfg ids0).queue = ids0.map (fun id => (id, none)) := by simpa [arrived] using hq
  refine ⟨⟨?_, ?_, ?_, ?_⟩, fun _ h => by simp at h, ?_, ?_⟩
  · rw [hq']; simp [ids, Function.comp_def]
  · have : (arrived cfg ids0).log = [] := by simpa [arrived] using hg
    rw [this]; rfl
  · have : (arrived cfg ids0).layer = [] := by simpa [arrived] using hl
    rw [this]; rfl
  · intro e he; rw [hq'] at he
    obtain ⟨id, _, rfl⟩ := List.mem_map.1 he
    exact Or.inl rfl
  · rw [hq']
    cases ids0 with
    | nil => exact Or.inl rfl
    | cons a l => exact Or.inr ⟨a, l.map (fun id => (id, none)), rfl⟩
  · intro e he _; rw [hq'] at he
    obtain ⟨id, hid, rfl⟩ := List.mem_map.1 he
    exact hc id hid

/-- the join loop never calls `join` on a running thread, whatever the schedule (covering or not) -/
theorem joinLoop_not_blocked (cfg : Cfg) (arr : List Nat) (sched : List (List Nat)) (popped : List Nat) (s : St)
    (g : Good cfg arr popped s) : (joinLoop cfg sched s).2 ≠ .blocked := by
  induction sched generalizing popped s with
  | nil => simp only [joinLoop]; split <;> simp
  | cons fin rest ih =>
    simp only [joinLoop]
    split
    · simp
    · have g1 : Good cfg arr popped (finishAll cfg s fin) := finishAll_good fin g
      obtain ⟨p, g2, hnb⟩ := poll_good g1
      cases hret : (poll cfg (finishAll cfg s fin)).2 with
      | blocked => exact absurd hret hnb
      | err => simp
      | ok b => simp only []; exact ih (popped ++ p) _ g2

/-! ### `execute_dcs` -/

def IsParam (c : Char) : Prop := c.isDigit = true ∨ c = ';'

theorem dcsNumbers_append (nums : List Nat) (params : List Char) (c0 : Char) (rest : List Char)
    (hp : ∀ c ∈ params, IsParam c) (h0 : c0.isDigit = false) (h1 : c0 ≠ ';') :
    dcsNumbers nums (params ++ c0 :: rest) = ((dcsNumbers nums params).1, c0 :: rest) := by
  induction params generalizing nums with
  | nil => simp [dcsNumbers, h0, h1]
  | cons c cs ih =>
    have hcs : ∀ c ∈ cs, IsParam c := fun c h => hp c (List.mem_cons_of_mem _ h)
    rcases hp c (by simp) with hd | hs
    · simp only [List.cons_append, dcsNumbers, hd, if_true]; exact ih _ hcs
    · subst hs
      have : (';' : Char).isDigit = false := by decide
      simp only [List.cons_append, dcsNumbers, this, Bool.false_eq_true, if_false, if_true]; exact ih _ hcs

theorem not_fontPrefix (params : List Char) (c0 : Char) (rest : List Char)
    (hp : ∀ c ∈ params, IsParam c) (h0 : c0 ≠ 'C') :
    fontPrefix.isPrefixOf (params ++ c0 :: rest) = false := by
  cases params with
  | nil =>
    simp only [List.nil_append, fontPrefix, List.isPrefixOf]
    have : ('C' == c0) = false := by simp; exact fun h => h0 h.symm
    simp [this]
  | cons c cs =>
    have hc : c ≠ 'C' := by
      intro h; subst h
      rcases hp 'C' (by simp) with h | h
      · revert h; decide
      · revert h; decide
    simp only [List.cons_append, fontPrefix, List.isPrefixOf]
    have : ('C' == c) = false := by simp; exact fun h => hc h.symm
    simp [this]

/-- a DCS string made of numeric parameters, `q` and a payload is handed to a decode thread with exactly that
    payload; the scale is selected by the first parameter -/
theorem classify_sixel (params payload : List Char) (hp : ∀ c ∈ params, IsParam c) :
    classify (params ++ 'q' :: payload) =
      .sixel (vscaleOf (dcsNumbers [] params).1) ((dcsNumbers [] params).1[1]? == some 1) payload := by
  unfold classify
  rw [not_fontPrefix params 'q' payload hp (by decide)]
  simp only [Bool.false_eq_true, if_false]
  rw [dcsNumbers_append [] params 'q' payload hp (by decide) (by decide)]
  simp

theorem vscaleOf_range (nums : List Nat) : vscaleOf nums = 1 ∨ vscaleOf nums = 2 ∨ vscaleOf nums = 3 ∨ vscaleOf nums = 5 := by
  unfold vscaleOf; split <;> simp

/-! ### clear-screen sequences in the text -/

def TextEv (e : Ev) : Prop := (∃ id, e = .arrive id) ∨ e = .clear

theorem arrived_snoc (cfg : Cfg) (a : List Nat) (id : Nat) :
    arrived cfg (a ++ [id]) = step cfg (arrived cfg a) (.arrive id) := by
  simp [arrived, List.foldl_append]

theorem foldl_text (cfg : Cfg) (evs : List Ev) (a : List Nat) (h : ∀ e ∈ evs, TextEv e) :
    evs.foldl (step cfg) (arrived cfg a) = arrived cfg (evs.foldl arrStep a) := by
  induction evs generalizing a with
  | nil => rfl
  | cons e evs ih =>
    have he := h e (by simp)
    have hrest : ∀ e ∈ evs, TextEv e := fun e' h' => h e' (List.mem_cons_of_mem _ h')
    simp only [List.foldl_cons]
    rcases he with ⟨id, rfl⟩ | rfl
    · rw [← arrived_snoc]; exact ih _ hrest
    · have : step cfg (arrived cfg a) .clear = arrived cfg [] := rfl
      rw [this]; exact ih _ hrest

/-- while the text is parsed only arrivals and clear-screens happen: what is queued at the end are the
    sequences that arrived after the last clear-screen -/
theorem run_text (cfg : Cfg) (evs : List Ev) (h : ∀ e ∈ evs, TextEv e) : run cfg evs = arrived cfg (arrivals evs) := by
  have := foldl_text cfg evs [] h
  simpa [run, arrivals, arrived] using this

end IcyVerif.SixelLoad
