import IcyVerif.Lemmas.TermFile
set_option linter.unusedSimpArgs false
set_option linter.unusedVariables false
/-! # Every character keeps the file-buffer invariant and never panics (music off) -/
namespace IcyVerif.TermFile
open IcyVerif.Term

theorem okAnd_ite {α : Type} {c : Prop} [Decidable c] {a b : Res α} {P : α → Prop}
    (ha : c → okAnd a P) (hb : ¬ c → okAnd b P) : okAnd (if c then a else b) P := by
  by_cases h : c
  · rw [if_pos h]; exact ha h
  · rw [if_neg h]; exact hb h

theorem fret_ok (st : FSt) (o : Out) (h : FGood st) : okAnd (fret st o) FGoodR := h

theorem fgood_mk (st : FSt) (h1 : ScrF st.s) (h2 : CarF st.c) (h3 : RowsF st.r) (h4 : HlF st.hl) (h5 : NoMusic st.p.st) :
    FGood st := ⟨h1, h2, h3, h4, h5⟩

theorem fliftC_limit_ok (d : FSt) (s : Scr) (c0 : Car) (o : Out) (hs : ScrF s) (h1 : ScrF d.s) (h3 : RowsF d.r) (h4 : HlF d.hl)
    (h5 : NoMusic d.p.st) : okAnd (fliftC d (limitF s c0) o) FGoodR := by
  have hl := limitF_spec s c0 hs
  cases hlc : limitF s c0 with
  | error e => rw [hlc] at hl; exact hl.elim
  | ok c' =>
    rw [hlc] at hl
    exact ⟨h1, hl.1, h3, h4, h5⟩

theorem fliftCR_ok (d : FSt) (r : Res (Car × Rows)) (o : Out) (h1 : ScrF d.s) (h4 : HlF d.hl) (h5 : NoMusic d.p.st)
    (hr : okAnd r (fun p => CarF p.1 ∧ RowsF p.2 ∧ True)) : okAnd (fliftCR d r o) FGoodR := by
  cases r with
  | error e => exact hr.elim
  | ok p =>
    obtain ⟨c, rows⟩ := p
    exact ⟨h1, hr.1, hr.2.1, h4, h5⟩

theorem weaken3 {r : Res (Car × Rows)} {b : Bool}
    (h : okAnd r (fun p => CarF p.1 ∧ RowsF p.2 ∧ p.1.ins = b)) : okAnd r (fun p => CarF p.1 ∧ RowsF p.2 ∧ True) :=
  okAnd_mono h (fun p hp => ⟨hp.1, hp.2.1, trivial⟩)

theorem mtbBottom_nonneg_F (s : Scr) (hk : ScrF s) : 0 ≤ mtbBottom s := by
  unfold mtbBottom
  split
  · rename_i t e he; have := hk.mtb t e he; omega
  · exact Int.le_refl 0
theorem not_lineOpPanics_F (s : Scr) (y : Int) (hk : ScrF s) (hy : 0 ≤ y) : ¬ LineOpPanics s y := by
  have := mtbBottom_nonneg_F s hk
  unfold LineOpPanics; omega

theorem add1_ne_error (site : String) (v : Int) (e : Panic) (h : v ≤ 2147483646) : add1 site v ≠ .error e := by
  rw [add1_ok site v h]; intro hh; cases hh

theorem musicSafe_of_noMusic (ps : PSt) (mus : Mus) (ch : Char) (h : NoMusic ps) : MusicSafe ps mus ch := by
  unfold MusicSafe
  split
  · rename_i x; exact absurd rfl (h (.pause x))
  · trivial

theorem hlF_cons (hl : List (Int × Int)) (x y : Int) (h : HlF hl) (hx : 0 ≤ x ∧ x ≤ 1000) (hy : 0 ≤ y ∧ y ≤ capY) : HlF ((x, y) :: hl) := by
  intro p hp
  cases hp with
  | head => exact ⟨hx.1, hx.2, hy.1, hy.2⟩
  | tail _ hm => exact h p hm
theorem hlF_tail (hl : List (Int × Int)) (p : Int × Int) (h : HlF (p :: hl)) : HlF hl :=
  fun q hq => h q (List.mem_cons_of_mem _ hq)

/-- cursor records that appear in the arms -/
theorem carF_home (b : Bool) : CarF { x := 0, y := 0, ins := b } := ⟨Int.le_refl 0, by show (0 : Int) ≤ 1000; omega, Int.le_refl 0, capY_lo⟩
theorem carF_x (c : Car) (x' : Int) (b : Bool) (h : CarF c) (h0 : 0 ≤ x') (h1 : x' ≤ 1000) : CarF { x := x', y := c.y, ins := b } :=
  ⟨h0, h1, h.2.2.1, h.2.2.2⟩

/-- goals `NoMusic <concrete non-music state>` -/
macro "nomus" : tactic => `(tactic| first | assumption | (intro m hm; cases hm))

/-- goals `RowsF <row-table expression>` -/
theorem iterN_lw' (f : Rows → Rows) (hf : ∀ r, (f r).lw = r.lw) (n : Nat) (r : Rows) : (iterN f n r).lw = r.lw := iterN_lw f hf n r

macro "lwsimp" : tactic => `(tactic| simp only [setChar_lw, touchRect_lw, insertLine_lw, del_lw, ins_lw, ech_lw, scrollUpF_lw, scrollDownF_lw,
          scrollLeftF_lw, scrollRightF_lw, removeTermLine_lw, removeTermLines_lw, insertTermLine_lw, rectF_lw])

macro "rowsf" : tactic => `(tactic| first
  | assumption
  | (apply rowsF_of_lw _ _ (by assumption); first
      | rfl
      | exact iterN_lw' _ (fun r => by first | rfl | lwsimp) _ _
      | (lwsimp; done)))

/-- goals `ScrF <screen expression>` -/
macro "scrf" : tactic => `(tactic| first
  | assumption
  | exact setMarginsLR_F _ _ _ (by assumption)
  | exact setMarginsTB_F _ _ _ (by assumption)
  | exact setMarginsLR_F _ _ _ (setMarginsTB_F _ _ _ (by assumption))
  | exact scrF_modes _ _ _ _ (by assumption)
  | exact scrF_nomargins _ _ _ _ (by assumption)
  | exact scrF_nolr _ _ _ _ (by assumption)
  | exact scrF_resize _ _ _ _ (by assumption)
  | exact resetTerminal_F _ (by assumption)
  | exact resetTerminal_F _ (resetTerminal_F _ (by assumption)))

/-- goals `CarF <cursor expression>` -/
macro "carf" : tactic => `(tactic| first
  | assumption
  | exact carF_home _
  | (apply carF_x _ _ _ (by assumption) <;> omega)
  | (refine ⟨?_, ?_, ?_, ?_⟩ <;> simp only [] <;> omega))

macro "farm" : tactic => `(tactic| first
  | exact fret_ok _ _ (by assumption)
  | exact fliftC_limit_ok _ _ _ _ (by assumption) (by scrf) (by rowsf) (by assumption) (by nomus)
  | exact fret_ok _ _ (fgood_mk _ (by scrf) (by carf) (by rowsf) (by assumption) (by nomus))
  | (exfalso; rename_i hh; exact not_echPanics _ _ _ (by assumption) hh)
  | (exfalso; rename_i hh; exact not_lineOpPanics_F _ _ (by assumption) (by assumption) hh)
  | (exfalso; rename_i hh; exact not_lineOpPanics_F _ _ (by assumption) (by assumption) hh.2))

theorem csiFinalF_good (cfg : Cfg) (o : Orc) (st : FSt) (isStart : Bool) (ch : Char) (hm : cfg.musicOpt = 0) (h : FGood st) :
    okAnd (csiFinalF cfg o st isStart ch) FGoodR := by
  have ⟨g1, g2, g3, g4, g5⟩ := h
  have hx0 : 0 ≤ st.c.x := g2.1
  have hx1 : st.c.x ≤ 1000 := g2.2.1
  have hy0 : 0 ≤ st.c.y := g2.2.2.1
  have hy1 : st.c.y ≤ capY := g2.2.2.2
  have := capY_hi
  have := g1.tw1; have := g1.tw2
  have hm1 : ¬ (cfg.musicOpt = 1 ∨ cfg.musicOpt = 3) := by omega
  have hm2 : ¬ (cfg.musicOpt = 2 ∨ cfg.musicOpt = 3) := by omega
  have hm3 : ¬ (cfg.musicOpt ≠ 0) := by omega
  unfold csiFinalF
  simp only [leftF, rightF, upF, downF, hm1, hm2, hm3, if_false]
  repeat' (first | (apply okAnd_ite <;> intro _) | split)
  all_goals first
    | farm
    | exact fliftCR_ok _ _ _ (by scrf) (by assumption) (by nomus) (weaken3 (printNF_spec _ _ _ _ (by assumption) (by assumption) (by assumption)))
    | (exfalso; rename_i hh; exact add1_ne_error _ _ _ (by omega) hh)
    | (exfalso; rename_i hh _; exact add1_ne_error _ _ _ (by omega) hh)


macro "farm2" : tactic => `(tactic| first
  | farm
  | exact fliftCR_ok _ _ _ (by scrf) (by assumption) (by nomus) (weaken3 (printCharF_spec _ _ _ (by assumption) (by assumption) (by assumption)))
  | exact fliftCR_ok _ _ _ (by scrf) (by assumption) (by nomus) (weaken3 (lfF_spec _ _ _ (by assumption) (by assumption) (by assumption) (by assumption)))
  | exact fliftCR_ok _ _ _ (by scrf) (by assumption) (by nomus) (weaken3 (indexF_spec _ _ _ (by assumption) (by assumption) (by assumption)))
  | exact fliftCR_ok _ _ _ (by scrf) (by assumption) (by nomus) (weaken3 (nextLineF_spec _ _ _ (by assumption) (by assumption) (by assumption)))
  | exact fliftCR_ok _ _ _ (by scrf) (by assumption) (by nomus) (weaken3 (reverseIndexF_spec _ _ _ (by assumption) (by assumption) (by assumption))))

theorem ffF_good (st : FSt) (h : FGood st) : FGood (ffF st) := by
  have ⟨g1, g2, g3, g4, g5⟩ := h
  exact ⟨resetTerminal_F _ g1, ⟨Int.le_refl 0, by show (0 : Int) ≤ 1000; omega, Int.le_refl 0, capY_lo⟩, g3, g4, g5⟩
theorem clearScreenF_good (st : FSt) (h : FGood st) : FGood (clearScreenF st) := by
  have ⟨g1, g2, g3, g4, g5⟩ := h
  exact ⟨g1, ⟨Int.le_refl 0, by show (0 : Int) ≤ 1000; omega, Int.le_refl 0, capY_lo⟩, g3, g4, g5⟩

theorem dfltCharF_good (cfg : Cfg) (st : FSt) (ch : Char) (h : FGood st) : okAnd (dfltCharF cfg st ch) FGoodR := by
  have ⟨g1, g2, g3, g4, g5⟩ := h
  have hx0 : 0 ≤ st.c.x := g2.1
  have hx1 : st.c.x ≤ 1000 := g2.2.1
  have hy0 : 0 ≤ st.c.y := g2.2.2.1
  have hy1 : st.c.y ≤ capY := g2.2.2.2
  unfold dfltCharF
  simp only []
  repeat' (first | (apply okAnd_ite <;> intro _) | split)
  all_goals first
    | farm2
    | exact fret_ok _ _ (ffF_good _ (by assumption))

theorem escCharF_good (st : FSt) (ch : Char) (h : FGood st) : okAnd (escCharF st ch) FGoodR := by
  have ⟨g1, g2, g3, g4, g5⟩ := h
  have hx0 : 0 ≤ st.c.x := g2.1
  have hx1 : st.c.x ≤ 1000 := g2.2.1
  have hy0 : 0 ≤ st.c.y := g2.2.2.1
  have hy1 : st.c.y ≤ capY := g2.2.2.2
  unfold escCharF
  simp only []
  repeat' (first | (apply okAnd_ite <;> intro _) | split)
  all_goals first
    | farm2
    | exact fret_ok _ _ (fgood_mk _ (resetTerminal_F _ (resetTerminal_F _ (by assumption))) (carF_home _) (by assumption) (by assumption) (by nomus))

theorem finv_ok (inv : Int → FSt → Res FSt) (id : Int) (d st' : FSt)
    (hinv : ∀ id st, FGood st → okAnd (inv id st) FGood) (hh : inv id d = .ok st') (hd : FGood d) : FGood st' := by
  have := hinv id d hd
  rw [hh] at this; exact this
theorem finv_err (inv : Int → FSt → Res FSt) (id : Int) (d : FSt) (e : Panic)
    (hinv : ∀ id st, FGood st → okAnd (inv id st) FGood) (hh : inv id d = .error e) (hd : FGood d) : False := by
  have := hinv id d hd
  rw [hh] at this; exact this

theorem endCsiF_good (o : Orc) (inv : Int → FSt → Res FSt) (st : FSt) (f ch : Char)
    (hinv : ∀ id st, FGood st → okAnd (inv id st) FGood) (h : FGood st) :
    okAnd (endCsiF o inv st f ch) FGoodR := by
  have ⟨g1, g2, g3, g4, g5⟩ := h
  unfold endCsiF
  simp only []
  repeat' (first | (apply okAnd_ite <;> intro _) | split)
  all_goals first
    | farm2
    | (rename_i hh; exact fret_ok _ _ (finv_ok inv _ _ _ hinv hh (fgood_mk _ (by scrf) (by carf) (by rowsf) (by assumption) (by nomus))))
    | (exfalso; rename_i hh; exact finv_err inv _ _ _ hinv hh (fgood_mk _ (by scrf) (by carf) (by rowsf) (by assumption) (by nomus)))

theorem executeDcs_st (p : Par) (o : Orc) : (executeDcs p o).1.st = p.st := by
  unfold executeDcs
  repeat' split
  all_goals rfl

theorem executeDcsF_good (st : FSt) (o : Orc) (h : FGood st) : okAnd (executeDcsF st o) FGoodR := by
  have ⟨g1, g2, g3, g4, g5⟩ := h
  unfold executeDcsF
  have hx := executeDcs_st { st.p with st := .dflt } o
  generalize executeDcs { st.p with st := .dflt } o = r at hx
  obtain ⟨p, out⟩ := r
  simp only at hx
  have hp : NoMusic p.st := by rw [hx]; intro m hm; cases hm
  simp only []
  split
  · exact ⟨g1, g2, g3, g4, hp⟩
  · exact ⟨g1, g2, g3, g4, hp⟩

theorem parseOscF_good (st : FSt) (o : Orc) (h : FGood st) : okAnd (parseOscF st o) FGoodR := by
  have ⟨g1, g2, g3, g4, g5⟩ := h
  unfold parseOscF
  simp only []
  apply okAnd_ite
  · intro _; exact ⟨g1, g2, g3, g4, fun m hm => by cases hm⟩
  · intro _
    apply okAnd_ite
    · intro _
      apply okAnd_ite
      · intro _
        cases hhl : st.hl with
        | nil => exact ⟨g1, g2, g3, by rw [hhl] at g4; exact g4, fun m hm => by cases hm⟩
        | cons p rest =>
          obtain ⟨px, py⟩ := p
          rw [hhl] at g4
          have hp := g4 (px, py) (List.mem_cons_self)
          obtain ⟨v, hv⟩ := hyperLen_ok st.s.tw st.c.x st.c.y px py g1.tw1 g1.tw2 ⟨g2.1, g2.2.1⟩ ⟨g2.2.2.1, g2.2.2.2⟩ ⟨hp.1, hp.2.1⟩ ⟨hp.2.2.1, hp.2.2.2⟩
          simp only [hv]
          exact ⟨g1, g2, g3, hlF_tail _ _ g4, fun m hm => by cases hm⟩
      · intro _
        exact ⟨g1, g2, g3, hlF_cons _ _ _ g4 ⟨g2.1, g2.2.1⟩ ⟨g2.2.2.1, g2.2.2.2⟩, fun m hm => by cases hm⟩
    · intro _; exact ⟨g1, g2, g3, g4, fun m hm => by cases hm⟩

end IcyVerif.TermFile
