import IcyVerif.Model.BinFormats
set_option linter.unusedSimpArgs false
set_option linter.unusedVariables false
/-!
# Sequential placement of cells into an empty layer (C05)

`placeAll_rows`: writing the cells of `rows` (all of width `w`) one after the other with `set_char` + `advance_pos`
into a layer without allocated rows yields exactly the rows (padded with invisible cells up to the layer width),
for every number of rows and every width — induction over the rows, inside it over the cells of a row.
`getCell_rows`: `Buffer::get_char` then reads the cells back.
-/
namespace IcyVerif.BinFormats
open IcyVerif.XbCompress IcyVerif.Gen

theorem getD_append_left' {α : Type} (l₁ l₂ : List α) (i : Nat) (d : α) (h : i < l₁.length) :
    (l₁ ++ l₂).getD i d = l₁.getD i d := by
  simp [List.getD_eq_getElem?_getD, List.getElem?_append_left h]

theorem getD_append_right' {α : Type} (l₁ l₂ : List α) (i : Nat) (d : α) (h : l₁.length ≤ i) :
    (l₁ ++ l₂).getD i d = l₂.getD (i - l₁.length) d := by
  simp [List.getD_eq_getElem?_getD, List.getElem?_append_right h]

/-- the row being written: the cells so far, then invisible cells up to the layer width -/
def partRow (lw : Nat) (pre : List Cell) : List Cell := pre ++ List.replicate (lw - pre.length) Cell.invisible

theorem partRow_length (lw : Nat) (pre : List Cell) (h : pre.length ≤ lw) : (partRow lw pre).length = lw := by
  simp [partRow]; omega

/-- `set_char` on a row that does not exist yet behaves as on a row of invisible cells -/
theorem setChar_fresh (b : LBuf) (x : Nat) (c : Cell) (hx : x < b.lw) (hy : (b.lines.length : Int) < b.lh) :
    b.setChar x b.lines.length c = ({ b with lines := b.lines ++ [partRow b.lw []] } : LBuf).setChar x b.lines.length c := by
  unfold LBuf.setChar
  have h : ¬ (x ≥ b.lw ∨ (b.lines.length : Int) ≥ b.lh) := by omega
  simp only [h, if_false, ge_iff_le, Nat.le_refl, if_true, List.length_append, List.length_cons, List.length_nil]
  have h1 : b.lines.length + 1 - b.lines.length = 1 := by omega
  have h2 : ¬ (b.lines.length + (0 + 1) ≤ b.lines.length) := by omega
  simp [h1, h2, partRow]

/-- one `set_char` into the row being written -/
theorem setChar_part (b : LBuf) (L : List (List Cell)) (pre : List Cell) (c : Cell)
    (hl : b.lines = L ++ [partRow b.lw pre]) (hx : pre.length < b.lw) (hy : (L.length : Int) < b.lh) :
    b.setChar pre.length L.length c = { b with lines := L ++ [partRow b.lw (pre ++ [c])] } := by
  unfold LBuf.setChar
  have h0 : ¬ (pre.length ≥ b.lw ∨ (L.length : Int) ≥ b.lh) := by omega
  have hlen : b.lines.length = L.length + 1 := by simp [hl]
  have h1 : ¬ (L.length ≥ b.lines.length) := by omega
  simp only [h0, h1, if_false]
  have hget : b.lines.getD L.length [] = partRow b.lw pre := by
    rw [hl, getD_append_right' _ _ _ _ (Nat.le_refl _)]; simp
  have hrow : lineSet (partRow b.lw pre) pre.length c = partRow b.lw (pre ++ [c]) := by
    unfold lineSet
    have : ¬ (pre.length ≥ (partRow b.lw pre).length) := by rw [partRow_length _ _ (by omega)]; omega
    simp only [this, if_false]
    unfold partRow
    rw [List.set_append_right _ _ (Nat.le_refl _)]
    have hn : b.lw - pre.length = (b.lw - (pre.length + 1)) + 1 := by omega
    simp only [Nat.sub_self, List.length_append, List.length_cons, List.length_nil]
    rw [hn, List.replicate_succ]
    simp
  rw [hget, hrow, hl, List.set_append_right _ _ (Nat.le_refl _)]
  simp

/-- the rest of a row: from the state "`pre` written" to "row complete, cursor at the start of the next row" -/
theorem placeAll_rowAux (gl gb : Bool) (w : Nat) (L : List (List Cell)) :
    ∀ (suf pre : List Cell) (b : LBuf), suf ≠ [] → pre.length + suf.length = w → w ≤ b.lw →
      b.lines = L ++ [partRow b.lw pre] → (gl = true ∨ (L.length : Int) < b.lh) →
      placeAll gl gb 0 (w - 1) b pre.length L.length suf =
        ({ b with lines := L ++ [partRow b.lw (pre ++ suf)],
                  lh := if gl then (L.length : Int) + 1 else b.lh,
                  bh := if gb then (L.length : Int) + 1 else b.bh }, 0, L.length + 1) := by
  intro suf
  induction suf with
  | nil => intro pre b h; exact absurd rfl h
  | cons c t ih =>
    intro pre b _ hlen hw hl hg
    simp only [List.length_cons] at hlen
    -- the state the cell is written into
    let b2 : LBuf := { b with lh := if gl then (L.length : Int) + 1 else b.lh, bh := if gb then (L.length : Int) + 1 else b.bh }
    have hb2l : b2.lines = L ++ [partRow b2.lw pre] := hl
    have hb2y : (L.length : Int) < b2.lh := by
      show (L.length : Int) < (if gl then (L.length : Int) + 1 else b.lh)
      cases hg with
      | inl h => simp only [h, if_true]; omega
      | inr h => by_cases hgl : gl = true <;> simp only [hgl, if_true, if_false] <;> omega
    have hstep := setChar_part b2 L pre c hb2l (by show pre.length < b.lw; omega) hb2y
    have hcell : placeCell gl gb 0 (w - 1) (b, pre.length, L.length) c =
        (({ b2 with lines := L ++ [partRow b.lw (pre ++ [c])] } : LBuf),
          (if pre.length + 1 > w - 1 then 0 else pre.length + 1), (if pre.length + 1 > w - 1 then L.length + 1 else L.length)) := by
      unfold placeCell
      have e : (if gb then ({ (if gl then ({ b with lh := (L.length : Int) + 1 } : LBuf) else b) with bh := (L.length : Int) + 1 } : LBuf)
                 else (if gl then ({ b with lh := (L.length : Int) + 1 } : LBuf) else b)) = b2 := by
        cases gl <;> cases gb <;> rfl
      simp only [e, hstep]
      have elw : b2.lw = b.lw := rfl
      by_cases hwrap : pre.length + 1 > w - 1 <;> simp [hwrap, elw]
    cases t with
    | nil =>
      simp only [List.length_nil] at hlen
      have hwrap : pre.length + 1 > w - 1 := by omega
      simp only [placeAll, List.foldl_cons, List.foldl_nil, hcell, hwrap, if_true]
      rfl
    | cons c2 t2 =>
      simp only [List.length_cons] at hlen
      have hwrap : ¬ (pre.length + 1 > w - 1) := by omega
      have := ih (pre ++ [c]) ({ b2 with lines := L ++ [partRow b.lw (pre ++ [c])] } : LBuf) (by simp)
        (by simp only [List.length_append, List.length_cons, List.length_nil]; omega) hw rfl (Or.inr hb2y)
      simp only [placeAll, List.foldl_cons, hcell, hwrap, if_false] at this ⊢
      simp only [List.length_append, List.length_cons, List.length_nil] at this
      rw [this]
      simp only [List.append_assoc, List.cons_append, List.nil_append]
      cases gl <;> cases gb <;> simp [b2]

/-- a whole row, starting from "no row allocated for it yet" -/
theorem placeAll_row (gl gb : Bool) (w : Nat) (row : List Cell) (b : LBuf) (hw0 : 0 < w) (hrow : row.length = w)
    (hw : w ≤ b.lw) (hg : gl = true ∨ (b.lines.length : Int) < b.lh) :
    placeAll gl gb 0 (w - 1) b 0 b.lines.length row =
      ({ b with lines := b.lines ++ [partRow b.lw row],
                lh := if gl then (b.lines.length : Int) + 1 else b.lh,
                bh := if gb then (b.lines.length : Int) + 1 else b.bh }, 0, b.lines.length + 1) := by
  cases row with
  | nil => simp at hrow; omega
  | cons c t =>
    -- first cell: same as writing into a fresh row of invisible cells
    let b2 : LBuf := { b with lh := if gl then (b.lines.length : Int) + 1 else b.lh, bh := if gb then (b.lines.length : Int) + 1 else b.bh }
    have hb2y : (b2.lines.length : Int) < b2.lh := by
      show (b.lines.length : Int) < (if gl then (b.lines.length : Int) + 1 else b.lh)
      cases hg with
      | inl h => simp only [h, if_true]; omega
      | inr h => by_cases hgl : gl = true <;> simp only [hgl, if_true, if_false] <;> omega
    have hfresh := setChar_fresh b2 0 c (by show 0 < b.lw; omega) hb2y
    have h1 : placeAll gl gb 0 (w - 1) b 0 b.lines.length (c :: t) =
        placeAll gl gb 0 (w - 1) ({ b with lines := b.lines ++ [partRow b.lw []] } : LBuf) 0 b.lines.length (c :: t) := by
      simp only [placeAll, List.foldl_cons]
      congr 1
      unfold placeCell
      have e1 : (if gb then ({ (if gl then ({ b with lh := (b.lines.length : Int) + 1 } : LBuf) else b) with bh := (b.lines.length : Int) + 1 } : LBuf)
                 else (if gl then ({ b with lh := (b.lines.length : Int) + 1 } : LBuf) else b)) = b2 := by
        cases gl <;> cases gb <;> rfl
      have e2 : (if gb then ({ (if gl then ({ ({ b with lines := b.lines ++ [partRow b.lw []] } : LBuf) with lh := (b.lines.length : Int) + 1 } : LBuf)
                      else ({ b with lines := b.lines ++ [partRow b.lw []] } : LBuf)) with bh := (b.lines.length : Int) + 1 } : LBuf)
                 else (if gl then ({ ({ b with lines := b.lines ++ [partRow b.lw []] } : LBuf) with lh := (b.lines.length : Int) + 1 } : LBuf)
                      else ({ b with lines := b.lines ++ [partRow b.lw []] } : LBuf))) =
                ({ b2 with lines := b2.lines ++ [partRow b2.lw []] } : LBuf) := by
        cases gl <;> cases gb <;> rfl
      simp only [e1, e2]
      have : b2.lines.length = b.lines.length := rfl
      rw [this] at hfresh
      rw [hfresh]
    rw [h1]
    have := placeAll_rowAux gl gb w b.lines (c :: t) [] ({ b with lines := b.lines ++ [partRow b.lw []] } : LBuf)
      (by simp) (by simpa using hrow) hw rfl hg
    simpa using this

/-- every row in turn -/
theorem placeAll_rows (gl gb : Bool) (w : Nat) (hw0 : 0 < w) :
    ∀ (rows : List (List Cell)) (b : LBuf), (∀ r ∈ rows, r.length = w) → w ≤ b.lw →
      (gl = true ∨ (b.lines.length : Int) + rows.length ≤ b.lh) →
      placeAll gl gb 0 (w - 1) b 0 b.lines.length rows.flatten =
        ({ b with lines := b.lines ++ rows.map (partRow b.lw),
                  lh := if gl ∧ rows ≠ [] then (b.lines.length : Int) + rows.length else b.lh,
                  bh := if gb ∧ rows ≠ [] then (b.lines.length : Int) + rows.length else b.bh },
          0, b.lines.length + rows.length) := by
  intro rows
  induction rows with
  | nil => intro b _ _ _; simp [placeAll]
  | cons r rs ih =>
    intro b hr hw hg
    have hrl : r.length = w := hr r (by simp)
    have h1 := placeAll_row gl gb w r b hw0 hrl hw (by
      cases hg with
      | inl h => exact Or.inl h
      | inr h => simp only [List.length_cons] at h; right; omega)
    simp only [List.flatten_cons]
    unfold placeAll at h1 ⊢
    rw [List.foldl_append, h1]
    let b' : LBuf := { b with lines := b.lines ++ [partRow b.lw r],
                              lh := (if gl then (b.lines.length : Int) + 1 else b.lh),
                              bh := (if gb then (b.lines.length : Int) + 1 else b.bh) }
    have hlen' : b'.lines.length = b.lines.length + 1 := by simp [b']
    have h2 := ih b' (fun r' h' => hr r' (by simp [h'])) hw (by
      by_cases hgl : gl = true
      · exact Or.inl hgl
      · cases hg with
        | inl h => exact absurd h hgl
        | inr h =>
          right
          simp only [List.length_cons] at h
          show ((b.lines ++ [partRow b.lw r]).length : Int) + rs.length ≤ (if gl then (b.lines.length : Int) + 1 else b.lh)
          have hf : gl = false := by simpa using hgl
          subst hf
          simp only [Bool.false_eq_true, if_false, List.length_append, List.length_cons, List.length_nil]
          omega)
    unfold placeAll at h2
    rw [hlen'] at h2
    rw [h2]
    simp only [b', List.map_cons, List.length_cons, List.append_assoc, List.cons_append, List.nil_append, List.length_append,
      List.length_nil]
    refine Prod.ext ?_ (Prod.ext rfl (by simp; omega))
    simp only
    cases gl <;> cases gb <;> by_cases hrs : rs = [] <;> simp [hrs] <;> omega

/-- `get_char` reads a complete row back -/
theorem getD_partRow (lw : Nat) (row : List Cell) (x : Nat) (hx : x < row.length) :
    (partRow lw row).getD x Cell.invisible = row.getD x Cell.invisible := by
  unfold partRow
  exact getD_append_left' _ _ _ _ hx

theorem getD_map_partRow (lw : Nat) (rows : List (List Cell)) (y : Nat) (hy : y < rows.length) :
    (rows.map (partRow lw)).getD y [] = partRow lw (rows.getD y []) := by
  simp [List.getD_eq_getElem?_getD, List.getElem?_map, List.getElem?_eq_getElem hy]

end IcyVerif.BinFormats
