import IcyVerif.Lemmas.IgsPaint3
import IcyVerif.Lemmas.IgsLine
import IcyVerif.Lemmas.IgsFlood
import IcyVerif.Lemmas.IgsBlit
import IcyVerif.Lemmas.IgsBlit2
set_option linter.unusedSimpArgs false
set_option linter.unusedVariables false
/-! Lemmas about the IGS `DrawExecutor` model, part 6: executor-level totality.  `execute_command` neither panics nor
stalls for every command name outside a short list of arms (`hardArms`), in every state satisfying the invariant `Good`
and the auxiliary invariant `Aux` (current position within ±2^20, a fill pattern with at least one row, a polymarker
type of the table, the saved block's size within ±2^21), for every parameter list whose values are within ±(2^20 - 64) — and both invariants are kept. -/
namespace IcyVerif.IgsPaint

/-- neither `panic` nor `stall` -/
def XOut.Safe : XOut → Prop
  | .panic => False
  | .stall => False
  | _ => True

/-- the part of the executor state the painting arithmetic reads besides `Good`: the current position (written by
DrawLine / LineDrawTo / PolyLine from parameter values only) and the fill pattern (`fill_pixel` takes
`y % fill_pattern.len()`; every pattern table has 8 or 16 rows) -/
structure Aux (p : Paint) : Prop where
  curx : Bd p.cur.1
  cury : Bd p.cur.2
  pat : p.fillPattern.length ≠ 0
  mw : Bd2 p.memSize.1
  mh : Bd2 p.memSize.2
  pm : p.polymarkerType < 6

/-- within ±(2^20 - 64): room for the stroke offsets of the polymarker tables -/
def BdM (v : Int) : Prop := -1048512 ≤ v ∧ v ≤ 1048512

theorem BdM.bd {v : Int} (h : BdM v) : Bd v := by unfold BdM at h; unfold Bd; omega

/-- every parameter within ±(2^20 - 64): the property's range -50..=99999 and everything the `&` loop arithmetic (`x`, `y`,
`+n`, `-n`, `!n` with loop bounds in that range) makes of it -/
def ParamsOk (ps : List Int) : Prop := ∀ v, v ∈ ps → BdM v

theorem getD_bdm {ps : List Int} (h : ParamsOk ps) (i : Nat) : BdM (ps.getD i 0) := by
  rw [List.getD_eq_getElem?_getD]
  cases hi : ps[i]? with
  | none => simp [BdM]
  | some v => exact h v (List.mem_of_getElem? hi)

theorem getD_bd {ps : List Int} (h : ParamsOk ps) (i : Nat) : Bd (ps.getD i 0) := (getD_bdm h i).bd

theorem lift_safe {r : Res Paint} {c : Char} (h : ∃ p', r = .ok p') : (lift r c).Safe := by
  obtain ⟨p', e⟩ := h
  rw [e]; simp [lift, XOut.Safe]

theorem Kept.res {p p' : Paint} (h : Kept p p') : p'.res = p.res := by rw [h.1]
theorem Kept.cur {p p' : Paint} (h : Kept p p') : p'.cur = p.cur := by rw [h.1]

theorem bd_min {a b : Int} (ha : Bd a) (hb : Bd b) : Bd (min a b) := by unfold Bd at *; omega
theorem bd_max {a b : Int} (ha : Bd a) (hb : Bd b) : Bd (max a b) := by unfold Bd at *; omega

-- ------------------------------------------------------------------------------------------------ polymarker strokes
/-- the points of one stroke exist in the table and are small -/
def strokeOk (tab : Array Int) (i1 : Nat) : List Nat → Bool
  | [] => true
  | x :: xs =>
    (match tab[i1 + x * 2]?, tab[i1 + x * 2 + 1]? with
     | some a, some b => decide (-64 ≤ a ∧ a ≤ 64 ∧ -64 ≤ b ∧ b ≤ 64)
     | _, _ => false) && strokeOk tab i1 xs

/-- the stroke table is well formed from cursor `i` on for `n` strokes -/
def markerOk (tab : Array Int) : Nat → Nat → Bool
  | 0, _ => true
  | n + 1, i =>
    match tab[i]? with
    | none => false
    | some np => decide (0 ≤ np ∧ np ≤ 16) && strokeOk tab (i + 1) (List.range np.toNat) && markerOk tab n (i + 1 + np.toNat * 2)

theorem stroke_total (tab : Array Int) (i1 : Nat) (x0 y0 : Int) (hx : BdM x0) (hy : BdM y0) :
    ∀ (xs : List Nat) (acc : List Int), strokeOk tab i1 xs = true → (∀ v, v ∈ acc → Bd v) →
    ∃ pts, xs.foldlM (fun (acc : List Int) x => (do
      let a ← ofOpt tab[i1 + x * 2]?
      let b ← ofOpt tab[i1 + x * 2 + 1]?
      let ax ← chk (a + x0)
      let by' ← chk (b + y0)
      pure (acc ++ [ax, by']) : Res (List Int))) acc = .ok pts ∧ pts.length = acc.length + 2 * xs.length ∧ (∀ v, v ∈ pts → Bd v) := by
  unfold BdM at hx hy
  intro xs
  induction xs with
  | nil => intro acc _ hb; exact ⟨acc, rfl, by simp, hb⟩
  | cons x xs ih =>
    intro acc hs hb
    unfold strokeOk at hs
    simp only [Bool.and_eq_true] at hs
    obtain ⟨h1, h2⟩ := hs
    split at h1
    · rename_i a b ea eb
      simp only [decide_eq_true_eq] at h1
      simp only [List.foldlM_cons, ea, eb, ofOpt, ok_bind]
      rw [chk_of_range (v := a + x0) (by simp only [i32Min]; omega) (by simp only [i32Max]; omega), ok_bind]
      rw [chk_of_range (v := b + y0) (by simp only [i32Min]; omega) (by simp only [i32Max]; omega), ok_bind]
      obtain ⟨pts, e, l, bd⟩ := ih (acc ++ [a + x0, b + y0]) h2 (by
        intro v hv
        simp only [List.mem_append, List.mem_cons, List.mem_nil_iff, or_false] at hv
        rcases hv with hv | hv | hv
        · exact hb v hv
        · subst hv; unfold Bd; omega
        · subst hv; unfold Bd; omega)
      refine ⟨pts, e, ?_, bd⟩
      rw [l]; simp; omega
    · cases h1


theorem markerLines_total (tab : Array Int) (x0 y0 : Int) (hx : BdM x0) (hy : BdM y0) :
    ∀ (n i : Nat) (p : Paint), p.res < 3 → p.fillColor < 16 → markerOk tab n i = true → ∃ p', markerLines tab x0 y0 n i p = .ok p' := by
  have bx : Bd x0 := by unfold BdM at hx; unfold Bd; omega
  have by0 : Bd y0 := by unfold BdM at hy; unfold Bd; omega
  intro n
  induction n with
  | zero => intro i p _ _ _; exact ⟨p, rfl⟩
  | succ k ih =>
    intro i p hr hf hm
    unfold markerOk at hm
    split at hm
    · cases hm
    · rename_i np enp
      simp only [Bool.and_eq_true, decide_eq_true_eq] at hm
      obtain ⟨⟨hnp, hs⟩, hrest⟩ := hm
      have hneg : ¬ np < 0 := by omega
      have hu : usize np = np.toNat := by
        unfold usize
        simp only [hneg, if_false]
      unfold markerLines
      have hopt : ofOpt (some np) = Res.ok np := rfl
      simp only [enp, hopt, ok_bind, hu]
      obtain ⟨pts, e, l, bd⟩ := stroke_total tab (i + 1) x0 y0 hx hy (List.range np.toNat) [x0, y0] hs (by
        intro v hv
        simp only [List.mem_cons, List.mem_nil_iff, or_false] at hv
        rcases hv with hv | hv <;> subst hv <;> assumption)
      rw [e, ok_bind]
      obtain ⟨p1, h1⟩ := drawPolyline_total p hr hf np.toNat pts (by rw [l]; simp; omega) bd
      rw [h1, ok_bind]
      have k1 := (drawPolyline_keeps hf h1).1
      exact ih _ p1 (by rw [k1.res]; exact hr) (by rw [k1.fillColor]; exact hf) hrest

theorem markerTables_ok : ∀ t : Fin 6, ∃ nl, ((Gen.IgsPaint.markerTables.getD t.val []).toArray)[0]? = some nl ∧
    markerOk (Gen.IgsPaint.markerTables.getD t.val []).toArray nl.toNat 1 = true := by
  decide

/-- `draw_poly_maker` for a polymarker type of the table and a position within ±(2^20 - 64) -/
theorem drawPolyMarker_total (p : Paint) (hr : p.res < 3) (hl : p.lineColor < 16) (ht : p.polymarkerType < 6) (x0 y0 : Int)
    (hx : BdM x0) (hy : BdM y0) : ∃ p', drawPolyMarker p x0 y0 = .ok p' := by
  obtain ⟨nl, e0, hm⟩ := markerTables_ok ⟨p.polymarkerType, ht⟩
  unfold drawPolyMarker
  simp only [] at e0 hm ⊢
  have hopt : ofOpt (some nl) = Res.ok nl := rfl
  simp only [e0, hopt, ok_bind]
  obtain ⟨p2, h2⟩ := markerLines_total _ x0 y0 hx hy nl.toNat 1 { p with lineType := 0, fillColor := p.lineColor } hr hl hm
  rw [h2, ok_bind]
  exact ⟨_, rfl⟩


/-- the arms `exec_safe` does not cover -/
def hardArms : List String := ["RoundedRectangles", "Circle", "Ellipse", "PolyFill"]

theorem registerToPen_lt : Gen.IgsPaint.registerToPen.all (fun v => decide (v < 16)) = true := by decide

theorem polyReject_bd {ps : List Int} (h : ParamsOk ps) : polyReject ps ≠ none := by
  unfold polyReject
  cases ps with
  | nil => simp
  | cons v t =>
    have hv := h v (by simp)
    unfold BdM at hv
    simp only []
    split
    · simp
    · have h1 : ¬ v * 2 > i32Max := by simp only [i32Max]; omega
      have h2 : ¬ v * 2 + 1 > i32Max := by simp only [i32Max]; omega
      simp [h1, h2]


theorem polyReject_false {ps : List Int} (h : polyReject ps = some false) : ∃ n : Nat, ps.tail.length = 2 * n + 2 := by
  unfold polyReject at h
  cases ps with
  | nil => simp at h
  | cons v t =>
    simp only [] at h
    split at h
    · simp at h
    · split at h
      · simp at h
      · split at h
        · simp at h
        · rename_i h1 _ _
          simp at h
          refine ⟨v.toNat - 1, ?_⟩
          simp only [List.tail_cons]
          omega

macro "tv" : tactic => `(tactic| first | trivial | simp [XOut.Safe])
macro "hard" : tactic => `(tactic| (exfalso; apply ‹¬ _ ∈ hardArms›; simp [hardArms]))

theorem exec_safe {p : Paint} {name : String} {ps : List Int} (hg : Good p) (ha : Aux p) (hps : ParamsOk ps)
    (hn : name ∉ hardArms) : (exec p name ps).Safe := by
  have B := getD_bd hps
  unfold exec
  simp only []
  split
  · split
    · tv
    · split
      · -- Initialize
        repeat' split
        all_goals tv
      · -- AskIG
        split <;> tv
      · -- Cursor
        split <;> tv
      · -- ColorSet
        repeat' split
        all_goals tv
      · -- SetPenColor
        split
        · tv
        · split
          · tv
          · rename_i h1 h2
            exfalso; rw [hg.pens] at h2; omega
      · -- DrawLine
        obtain ⟨p1, h1⟩ := drawLine_total p hg.res _ _ _ _ p.lineColor p.lineType (B 0) (B 1) (B 2) (B 3)
        apply lift_safe; rw [h1]; exact ⟨_, rfl⟩
      · -- LineDrawTo
        obtain ⟨p1, h1⟩ := drawLine_total p hg.res _ _ _ _ p.lineColor p.lineType ha.curx ha.cury (B 0) (B 1)
        apply lift_safe; rw [h1]; exact ⟨_, rfl⟩
      · -- Box
        apply lift_safe
        have bx0 := bd_min (B 0) (B 2)
        have bx1 := bd_max (B 0) (B 2)
        have by0 := bd_min (B 1) (B 3)
        have by1 := bd_max (B 1) (B 3)
        obtain ⟨p1, h1⟩ := fillRect_total p hg.res ha.pat hg.fill (min (ps.getD 0 0) (ps.getD 2 0)) (min (ps.getD 1 0) (ps.getD 3 0))
          (max (ps.getD 0 0) (ps.getD 2 0)) (max (ps.getD 1 0) (ps.getD 3 0))
        have k1 := (fillRect_keeps hg.fill h1).1
        have r1 : p1.res < 3 := by rw [k1.res]; exact hg.res
        have f1 : p1.fillColor < 16 := by rw [k1.fillColor]; exact hg.fill
        rw [h1, ok_bind]
        split
        · obtain ⟨p2, h2⟩ := drawLine_total p1 r1 _ _ _ _ p1.fillColor 0 bx0 by0 bx0 by1
          have r2 : p2.res < 3 := by rw [drawLine_res f1 h2]; exact r1
          rw [h2, ok_bind]
          obtain ⟨p3, h3⟩ := drawLine_total p2 r2 _ _ _ _ p1.fillColor 0 bx1 by0 bx1 by1
          have r3 : p3.res < 3 := by rw [drawLine_res f1 h3]; exact r2
          rw [h3, ok_bind]
          obtain ⟨p4, h4⟩ := drawLine_total p3 r3 _ _ _ _ p1.fillColor 0 bx0 by0 bx1 by0
          have r4 : p4.res < 3 := by rw [drawLine_res f1 h4]; exact r3
          rw [h4, ok_bind]
          exact drawLine_total p4 r4 _ _ _ _ p1.fillColor 0 bx0 by1 bx1 by1
        · exact ⟨_, rfl⟩
      · -- RoundedRectangles
        hard
      · -- HollowSet
        split <;> tv
      · -- Pieslice
        tv
      · -- Circle
        hard
      · -- Ellipse
        hard
      · -- EllipticalArc
        tv
      · -- QuickPause
        repeat' split
        all_goals tv
      · -- AttributeForFills
        split
        · tv
        · repeat' split
          all_goals tv
      · -- FilledRectangle
        apply lift_safe; exact fillRect_total p hg.res ha.pat hg.fill _ _ _ _
      · -- TimeAPause
        tv
      · -- PolymarkerPlot
        apply lift_safe
        exact drawPolyMarker_total p hg.res hg.line ha.pm _ _ (getD_bdm hps 0) (getD_bdm hps 1)
      · -- TextEffects
        repeat' split
        all_goals tv
      · -- LineMarkerTypes
        repeat' split
        all_goals tv
      · -- DrawingMode
        split <;> tv
      · -- SetResolution
        repeat' split
        all_goals tv
      · -- WriteText
        tv
      · -- FloodFill
        apply lift_safe; exact floodFill_total p hg.res hg.size _ _
      · -- VTColor
        split
        · rename_i pen heq
          have hp : pen < p.pens.length := by
            have := List.all_eq_true.mp registerToPen_lt pen (List.mem_of_getElem? heq)
            rw [hg.pens]
            simpa using this
          simp only [hp, if_true]
          split <;> tv
        · tv
      · -- VTPosition
        tv
      · tv
  · split
    · -- ScreenClear
      tv
    · -- PolyFill
      hard
    · -- PolyLine
      split
      · rename_i heq
        exact absurd heq (polyReject_bd hps)
      · tv
      · rename_i heq
        obtain ⟨n, hl⟩ := polyReject_false heq
        obtain ⟨p1, h1⟩ := drawPolyline_total p hg.res hg.fill n ps.tail hl (fun v hv => (hps v (List.mem_of_mem_tail hv)).bd)
        apply lift_safe; rw [h1]; exact ⟨_, rfl⟩
    · -- GrabScreen
      split
      · tv
      · split
        · split
          · tv
          · apply lift_safe; exact blitScreenToScreen_total p hg.res _ _ _ _ _ _ (B 2) (B 3) (B 4) (B 5) (B 6) (B 7)
        · split
          · split
            · tv
            · apply lift_safe
              obtain ⟨p', h, _⟩ := blitScreenToMemory_total p hg.res _ _ _ _ (B 2) (B 3) (B 4) (B 5)
              exact ⟨p', h⟩
          · split
            · split
              · tv
              · apply lift_safe
                exact blitMemoryToScreen_total p hg.res 0 0 _ _ _ _ (by unfold Bd2; omega) (by unfold Bd2; omega) ha.mw ha.mh (B 2) (B 3)
            · split
              · split
                · tv
                · apply lift_safe
                  exact blitMemoryToScreen_total p hg.res _ _ _ _ _ _ (B 2).bd2 (B 3).bd2 (B 4).bd2 (B 5).bd2 (B 6) (B 7)
              · tv
    · tv


-- ------------------------------------------------------------------------------------------------ `Aux` is kept
/-- `P` holds of the executor state after a command that returned -/
def XOut.All (P : Paint → Prop) : XOut → Prop
  | .ok p _ => P p
  | .err p => P p
  | _ => True

theorem lift_all {P : Paint → Prop} {r : Res Paint} {c : Char} (h : ∀ p', r = .ok p' → P p') : (lift r c).All P := by
  cases r with
  | ok a => exact h a rfl
  | panic => trivial
  | stall => trivial

theorem Kept.memSize {p p' : Paint} (h : Kept p p') : p'.memSize = p.memSize := by rw [h.1]

theorem Aux.of_kept {p p' : Paint} (ha : Aux p) (k : Kept p p') : Aux p' :=
  ⟨by rw [k.cur]; exact ha.curx, by rw [k.cur]; exact ha.cury, by rw [k.fillPattern]; exact ha.pat,
   by rw [k.memSize]; exact ha.mw, by rw [k.memSize]; exact ha.mh, by rw [k.1]; exact ha.pm⟩

theorem typeLen : Gen.IgsPaint.typePatternFlat.length = 192 := by decide +kernel
theorem hatchLen : Gen.IgsPaint.hatchPatternFlat.length = 48 := by decide +kernel
theorem hatchWideLen : Gen.IgsPaint.hatchWidePatternFlat.length = 96 := by decide +kernel

macro "ax" h:ident : tactic => `(tactic| first
  | exact $h
  | trivial
  | (simp only [XOut.All]; first | trivial | exact $h | (have a1 := Aux.curx $h; have a2 := Aux.cury $h; have a3 := Aux.pat $h; have a4 := Aux.mw $h; have a5 := Aux.mh $h; have a6 := Aux.pm $h; exact ⟨a1, a2, a3, a4, a5, a6⟩)))

theorem exec_aux {p : Paint} {name : String} {ps : List Int} (hg : Good p) (ha : Aux p) (hps : ParamsOk ps) :
    (exec p name ps).All Aux := by
  have B := getD_bd hps
  unfold exec
  simp only []
  split
  · split
    · ax ha
    · split
      · -- Initialize
        repeat' split
        all_goals ax ha
      · split <;> ax ha
      · split <;> ax ha
      · -- ColorSet
        repeat' split
        all_goals ax ha
      · -- SetPenColor
        repeat' split
        all_goals ax ha
      · -- DrawLine
        apply lift_all; intro p' h
        obtain ⟨p1, h1, h2⟩ := rbind_ok h
        cases h2
        have a1 := ha.of_kept (drawLine_keeps hg.line h1).1
        exact ⟨B 2, B 3, a1.pat, a1.mw, a1.mh, a1.pm⟩
      · -- LineDrawTo
        apply lift_all; intro p' h
        obtain ⟨p1, h1, h2⟩ := rbind_ok h
        cases h2
        have a1 := ha.of_kept (drawLine_keeps hg.line h1).1
        exact ⟨B 0, B 1, a1.pat, a1.mw, a1.mh, a1.pm⟩
      · -- Box
        apply lift_all; intro p' h
        obtain ⟨p1, h1, h2⟩ := bind_ok h
        have k1 := fillRect_keeps hg.fill h1
        have f1 : p1.fillColor < 16 := by rw [k1.1.fillColor]; exact hg.fill
        split at h2
        · obtain ⟨p2, e2, h2⟩ := bind_ok h2
          obtain ⟨p3, e3, h2⟩ := bind_ok h2
          obtain ⟨p4, e4, h2⟩ := bind_ok h2
          exact ha.of_kept (k1.trans ((drawLine_keeps f1 e2).trans ((drawLine_keeps f1 e3).trans ((drawLine_keeps f1 e4).trans (drawLine_keeps f1 h2))))).1
        · have := pure_ok h2; subst this; exact ha.of_kept k1.1
      · -- RoundedRectangles
        apply lift_all; intro p' h
        exact ha.of_kept (roundRect_keeps hg.fill h).1
      · split <;> ax ha
      · ax ha
      · -- Circle
        apply lift_all; intro p' h
        obtain ⟨p1, h1, h2⟩ := bind_ok h
        have k1 := ellipse_keeps hg.fill hg.line h1
        split at h2
        · exact ha.of_kept (k1.trans (drawCircle_keeps (by rw [k1.1.lineColor]; exact hg.line) h2)).1
        · have := pure_ok h2; subst this; exact ha.of_kept k1.1
      · -- Ellipse
        apply lift_all; intro p' h
        obtain ⟨p1, h1, h2⟩ := bind_ok h
        have k1 := ellipse_keeps hg.fill hg.line h1
        split at h2
        · exact ha.of_kept (k1.trans (ellipse_keeps (by rw [k1.1.fillColor]; exact hg.fill) (by rw [k1.1.lineColor]; exact hg.line) h2)).1
        · have := pure_ok h2; subst this; exact ha.of_kept k1.1
      · ax ha
      · -- QuickPause
        repeat' split
        all_goals ax ha
      · -- AttributeForFills
        split
        · ax ha
        · rename_i pt heq
          have hpt : pt.length ≠ 0 := by
            repeat' split at heq
            all_goals (first | (cases heq) | skip)
            all_goals (first | decide | skip)
            all_goals (rw [List.length_take, List.length_drop])
            all_goals (first | rw [typeLen] | rw [hatchLen] | rw [hatchWideLen])
            all_goals omega
          have a1 : Aux { p with fillPattern := pt } := ⟨ha.curx, ha.cury, hpt, ha.mw, ha.mh, ha.pm⟩
          repeat' split
          all_goals (first | exact a1 | exact ⟨a1.curx, a1.cury, a1.pat, a1.mw, a1.mh, a1.pm⟩)
      · -- FilledRectangle
        apply lift_all; intro p' h
        exact ha.of_kept (fillRect_keeps hg.fill h).1
      · ax ha
      · -- PolymarkerPlot
        apply lift_all; intro p' h
        exact ha.of_kept (drawPolyMarker_keeps hg.line h).1
      · -- TextEffects
        repeat' split
        all_goals ax ha
      · -- LineMarkerTypes
        split
        · split
          · rename_i h16
            exact ⟨ha.curx, ha.cury, ha.pat, ha.mw, ha.mh, by show (ps.getD 1 0).toNat - 1 < 6; omega⟩
          · ax ha
        · repeat' split
          all_goals ax ha
      · split <;> ax ha
      · -- SetResolution
        repeat' split
        all_goals ax ha
      · ax ha
      · -- FloodFill
        apply lift_all; intro p' h
        exact ha.of_kept (floodFill_keeps hg.fill h).1
      · -- VTColor
        repeat' split
        all_goals ax ha
      · ax ha
      · ax ha
  · split
    · ax ha
    · -- PolyFill
      split
      · ax ha
      · ax ha
      · apply lift_all; intro p' h
        obtain ⟨p1, h1, h2⟩ := bind_ok h
        have k1 := fillPoly_keeps hg.fill h1
        split at h2
        · exact ha.of_kept (k1.trans (drawPoly_keeps (by rw [k1.1.fillColor]; exact hg.fill) h2)).1
        · have := pure_ok h2; subst this; exact ha.of_kept k1.1
    · -- PolyLine
      split
      · ax ha
      · ax ha
      · apply lift_all; intro p' h
        obtain ⟨p1, h1, h2⟩ := rbind_ok h
        cases h2
        have a1 := ha.of_kept (drawPolyline_keeps hg.fill h1).1
        exact ⟨B _, B _, a1.pat, a1.mw, a1.mh, a1.pm⟩
    · -- GrabScreen
      split
      · ax ha
      · split
        · split
          · ax ha
          · apply lift_all; intro p' h
            exact ha.of_kept (blitScreenToScreen_keeps h).1
        · split
          · split
            · ax ha
            · apply lift_all; intro p' h
              obtain ⟨q, hq, c1, c2, c3, c4, c5⟩ := blitScreenToMemory_total p hg.res _ _ _ _ (B 2) (B 3) (B 4) (B 5)
              rw [hq] at h; cases h
              exact ⟨by rw [c1]; exact ha.curx, by rw [c1]; exact ha.cury, by rw [c2]; exact ha.pat, c3.1, c4.1, by rw [c5]; exact ha.pm⟩
          · split
            · split
              · ax ha
              · apply lift_all; intro p' h
                exact ha.of_kept (blitMemoryToScreen_keeps hg.mem h).1
            · split
              · split
                · ax ha
                · apply lift_all; intro p' h
                  exact ha.of_kept (blitMemoryToScreen_keeps hg.mem h).1
              · ax ha
    · ax ha

end IcyVerif.IgsPaint
