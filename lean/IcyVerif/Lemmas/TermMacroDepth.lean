import IcyVerif.Model.TermMacroDepth
set_option linter.unusedSimpArgs false
/-! # The counter accounting of the code is the fuel accounting of the model (when the test sits in the callee) -/
namespace IcyVerif.Term

/-- at the limit the callee refuses every invocation -/
theorem invokerK_at_limit (stepf : St → Char → R) (k : Nat) (hk : MAX_MACRO_DEPTH ≤ k) :
    invokerK true stepf k = fun _ st => .ok st := by
  funext id st
  unfold invokerK
  cases macroGet st.p.macros id.toNat with
  | none => rfl
  | some body => simp [hk]

/-- below the limit it is the model's invoker; "top level" is `macro_depth == 0` -/
theorem invokerK_below (stepf : St → Char → R) (k n : Nat) (hk : k + n + 1 = MAX_MACRO_DEPTH) :
    invokerK true stepf k = invoker stepf (decide (n + 1 = MAX_MACRO_DEPTH)) := by
  funext id st
  unfold invokerK invoker
  cases macroGet st.p.macros id.toNat with
  | none => rfl
  | some body =>
    have h1 : ¬ MAX_MACRO_DEPTH ≤ k := by omega
    have h2 : (k = 0) ↔ (n + 1 = MAX_MACRO_DEPTH) := by omega
    by_cases h0 : k = 0
    · have h3 : n + 1 = MAX_MACRO_DEPTH := h2.mp h0
      subst h0
      have h1' : ¬ MAX_MACRO_DEPTH ≤ 0 := h1
      have h4 : ¬ MAX_MACRO_DEPTH = 0 := by omega
      simp [h1', h3, h4]
    · have h3 : ¬ n + 1 = MAX_MACRO_DEPTH := fun h => h0 (h2.mpr h)
      simp [h1, h0, h3]

/-- counter `k`, `n` levels left below the limit, at least `n` frames of fuel: the fuel-style step with `n` levels -/
theorem stepK_eq_stepD : ∀ (n f k : Nat), k + n = MAX_MACRO_DEPTH → n ≤ f →
    ∀ cfg o st ch, stepK true f k cfg o st ch = stepD n cfg o st ch := by
  intro n
  induction n with
  | zero =>
    intro f k hk _ cfg o st ch
    cases f with
    | zero => rfl
    | succ f =>
      show stepCore cfg (o st.p.tick) (invokerK true (stepK true f (k + 1) cfg o) k) (tickSt st) ch = _
      rw [invokerK_at_limit _ k (by omega)]
      rfl
  | succ n ih =>
    intro f k hk hf cfg o st ch
    cases f with
    | zero => omega
    | succ f =>
      show stepCore cfg (o st.p.tick) (invokerK true (stepK true f (k + 1) cfg o) k) (tickSt st) ch
        = stepCore cfg (o st.p.tick) (invoker (stepD n cfg o) (decide (n + 1 = MAX_MACRO_DEPTH))) (tickSt st) ch
      have hfun : stepK true f (k + 1) cfg o = stepD n cfg o := by
        funext st' ch'
        exact ih f (k + 1) (by omega) (by omega) cfg o st' ch'
      rw [hfun, invokerK_below _ k n (by omega)]

theorem stepK_eq_step (f : Nat) (hf : MAX_MACRO_DEPTH ≤ f) (cfg : Cfg) (o : Nat → Orc) (st : St) (ch : Char) :
    stepK true f 0 cfg o st ch = step cfg o st ch :=
  stepK_eq_stepD MAX_MACRO_DEPTH f 0 (by omega) hf cfg o st ch

theorem runK_eq_run (f : Nat) (hf : MAX_MACRO_DEPTH ≤ f) (cfg : Cfg) (o : Nat → Orc) :
    ∀ (cs : List Char) (st : St), runK true f cfg o st cs = run cfg o st cs := by
  intro cs
  induction cs with
  | nil => intro st; rfl
  | cons c rest ih =>
    intro st
    unfold runK run
    rw [stepK_eq_step f hf]
    cases step cfg o st c with
    | error e => rfl
    | ok r => exact ih r.1

end IcyVerif.Term
