import IcyVerif.Lemmas.TermWrap
import IcyVerif.Lemmas.TermOther
set_option linter.unusedSimpArgs false
set_option linter.unusedVariables false
/-! # The terminal size is constant along every stream that does not request a resize
`CSI 8;h;w t` is the only control function that writes `tw`/`th`, and it sets the sticky flag `resized`.  Everything
else — resets, form feed, clear screen, margins, macros — leaves the size of the screen alone (what the repaired
`Buffer::reset_terminal` guarantees: it rebuilds the terminal state from the *terminal* size, not the buffer size). -/
namespace IcyVerif.Term

/-- one step: if the result is still resize-free, so was the start, and the size is the same -/
def SizeStep (st st' : St) : Prop :=
  st'.p.resized = false → st.p.resized = false ∧ st'.s.tw = st.s.tw ∧ st'.s.th = st.s.th
abbrev SizeR (st : St) (r : St × Out) : Prop := SizeStep st r.1

theorem sizeStep_refl (st : St) : SizeStep st st := fun h => ⟨h, rfl, rfl⟩
theorem sizeStep_trans {a b c : St} (h1 : SizeStep a b) (h2 : SizeStep b c) : SizeStep a c := by
  intro h
  obtain ⟨r2, w2, t2⟩ := h2 h
  obtain ⟨r1, w1, t1⟩ := h1 r2
  exact ⟨r1, w2.trans w1, t2.trans t1⟩
/-- a state with the same `resized`, `tw`, `th` -/
theorem sizeStep_same (st x : St) (h1 : x.p.resized = st.p.resized) (h2 : x.s.tw = st.s.tw) (h3 : x.s.th = st.s.th) :
    SizeStep st x := fun h => ⟨by rw [← h1]; exact h, h2, h3⟩
theorem sizeStep_resized (st x : St) (h1 : x.p.resized = true) : SizeStep st x := by
  intro h; rw [h1] at h; cases h

theorem ret_size (st x : St) (o : Out) (h1 : x.p.resized = st.p.resized) (h2 : x.s.tw = st.s.tw) (h3 : x.s.th = st.s.th) :
    okThen (ret x o) (SizeR st) := sizeStep_same st x h1 h2 h3
theorem ret_size_resized (st x : St) (o : Out) (h1 : x.p.resized = true) : okThen (ret x o) (SizeR st) :=
  sizeStep_resized st x h1
theorem liftC_size (st d : St) (r : Res Car) (o : Out) (h1 : d.p.resized = st.p.resized) (h2 : d.s.tw = st.s.tw)
    (h3 : d.s.th = st.s.th) : okThen (liftC d r o) (SizeR st) := by
  cases r with
  | ok c => exact sizeStep_same st _ h1 h2 h3
  | error e => trivial

/-- the primitives that may grow the buffer keep the terminal size -/
def KeepsSize (s : Scr) (r : Res (Scr × Car)) : Prop := okThen r (fun p => p.1.tw = s.tw ∧ p.1.th = s.th)

theorem lf_keeps (s : Scr) (c : Car) : KeepsSize s (lf s c) := by
  unfold KeepsSize lf
  simp only []
  split
  · split
    · exact ⟨rfl, rfl⟩
    · trivial
  · exact ⟨rfl, rfl⟩

theorem printChar_keeps (s : Scr) (c : Car) : KeepsSize s (printChar s c) := by
  unfold KeepsSize printChar
  simp only []
  apply okThen_ite
  · intro _; trivial
  · intro _
    apply okThen_ite
    · intro _; trivial
    · intro _
      apply okThen_ite
      · intro _
        apply okThen_ite
        · intro _; exact lf_keeps { s with bh := max s.bh (c.y + 1) } _
        · intro _; exact ⟨rfl, rfl⟩
      · intro _; exact ⟨rfl, rfl⟩

theorem printN_keeps : ∀ (n : Nat) (s : Scr) (c : Car), KeepsSize s (printN n s c) := by
  intro n
  induction n with
  | zero => intro s c; exact ⟨rfl, rfl⟩
  | succ n ih =>
    intro s c
    unfold KeepsSize printN
    apply okThen_ite
    · intro _; trivial
    · intro _
      have hp := printChar_keeps s c
      cases hpc : printChar s c with
      | error e => trivial
      | ok r =>
        obtain ⟨s1, c1⟩ := r
        rw [hpc] at hp
        have h2 := ih s1 c1
        show okThen (printN n s1 c1) _
        cases hn : printN n s1 c1 with
        | error e => trivial
        | ok r2 =>
          rw [hn] at h2
          exact ⟨h2.1.trans hp.1, h2.2.trans hp.2⟩

theorem liftSC_size (st d : St) (r : Res (Scr × Car)) (o : Out) (h1 : d.p.resized = st.p.resized)
    (hk : KeepsSize st.s r) : okThen (liftSC d r o) (SizeR st) := by
  cases r with
  | ok p => obtain ⟨s', c'⟩ := p; exact sizeStep_same st _ h1 hk.1 hk.2
  | error e => trivial

theorem okThen_mono' {α : Type} {r : Res α} {P Q : α → Prop} (h : okThen r P) (hpq : ∀ a, P a → Q a) : okThen r Q := by
  cases r with
  | ok a => exact hpq a h
  | error e => trivial

theorem numChar_size (st st' : St) (ch : Char) (he : numChar st ch = some st') : SizeStep st st' := by
  unfold numChar at he
  split at he
  · cases he; exact sizeStep_refl _
  · split at he
    · cases he; exact sizeStep_refl _
    · cases he

macro "sarm" : tactic => `(tactic| first
  | exact ret_size _ _ _ rfl rfl rfl
  | exact liftC_size _ _ _ _ rfl rfl rfl
  | exact liftSC_size _ _ _ _ rfl (lf_keeps _ _)
  | exact liftSC_size _ _ _ _ rfl (printChar_keeps _ _)
  | exact liftSC_size _ _ _ _ rfl (printN_keeps _ _ _)
  | exact ret_size_resized _ _ _ rfl
  | (rename_i hh; exact numChar_size _ _ _ hh)
  | trivial)

theorem csiFinal_size (cfg : Cfg) (o : Orc) (st : St) (isStart : Bool) (ch : Char) :
    okThen (csiFinal cfg o st isStart ch) (SizeR st) := by
  unfold csiFinal
  simp only [left, right, up, down]
  repeat' (first | (apply okThen_ite <;> intro _) | split)
  all_goals sarm

theorem escChar_size (st : St) (ch : Char) : okThen (escChar st ch) (SizeR st) := by
  unfold escChar
  simp only [index, reverseIndex, nextLine]
  repeat' (first | (apply okThen_ite <;> intro _) | split)
  all_goals sarm

theorem dfltChar_size (cfg : Cfg) (st d : St) (ch : Char) (h1 : d.p.resized = st.p.resized) (h2 : d.s.tw = st.s.tw)
    (h3 : d.s.th = st.s.th) : okThen (dfltChar cfg d ch) (SizeR st) := by
  unfold dfltChar
  simp only []
  repeat' (first | (apply okThen_ite <;> intro _) | split)
  all_goals first
    | exact ret_size _ _ _ h1 h2 h3
    | exact liftC_size _ _ _ _ h1 h2 h3
    | exact okThen_mono' (liftSC_size d d _ _ rfl (lf_keeps _ _)) (fun r hr => sizeStep_trans (sizeStep_same st d h1 h2 h3) hr)
    | exact okThen_mono' (liftSC_size d d _ _ rfl (printChar_keeps _ _)) (fun r hr => sizeStep_trans (sizeStep_same st d h1 h2 h3) hr)
    | trivial

theorem csiCmd_size (st : St) (ch : Char) : okThen (csiCmd st ch) (SizeR st) := by
  unfold csiCmd
  simp only []
  repeat' (first | (apply okThen_ite <;> intro _) | split)
  all_goals sarm

theorem csiReq_size (st : St) (ch : Char) : okThen (csiReq st ch) (SizeR st) := by
  unfold csiReq setSpecificMargin
  simp only []
  repeat' (first | (apply okThen_ite <;> intro _) | split)
  all_goals sarm

theorem devAttr_size (st : St) (ch : Char) : okThen (devAttr st ch) (SizeR st) := by
  unfold devAttr
  repeat' (first | (apply okThen_ite <;> intro _) | split)
  all_goals sarm

/-- what the macro invoker must guarantee -/
def InvSize (inv : Int → St → Res St) : Prop := ∀ id d st', inv id d = .ok st' → SizeStep d st'

theorem endCsi_size (o : Orc) (inv : Int → St → Res St) (st : St) (f ch : Char) (hinv : InvSize inv) :
    okThen (endCsi o inv st f ch) (SizeR st) := by
  unfold endCsi
  simp only []
  repeat' (first | (apply okThen_ite <;> intro _) | split)
  all_goals first
    | sarm
    | (rename_i hh; have h2 := hinv _ _ _ hh; exact sizeStep_trans (sizeStep_same st _ rfl rfl rfl) h2)

theorem stepCore_size (cfg : Cfg) (o : Orc) (inv : Int → St → Res St) (st : St) (ch : Char) (hinv : InvSize inv) :
    okThen (stepCore cfg o inv st ch) (SizeR st) := by
  unfold stepCore
  apply okThen_ite
  · intro _; trivial
  · intro _
    split
    · exact ret_size _ _ _ rfl rfl rfl
    · exact escChar_size st ch
    · repeat' (first | (apply okThen_ite <;> intro _) | split)
      all_goals sarm
    · repeat' (first | (apply okThen_ite <;> intro _) | split)
      all_goals sarm
    · -- dcsMacro
      simp only []
      repeat' (first | (apply okThen_ite <;> intro _) | split)
      all_goals first
        | sarm
        | (rename_i hh; have h2 := hinv _ _ _ hh; exact sizeStep_trans (sizeStep_same st _ rfl rfl rfl) h2)
    · repeat' (first | (apply okThen_ite <;> intro _) | split)
      all_goals sarm
    · -- dcsEsc
      apply okThen_ite
      · intro _
        have hx := executeDcs_resized { st.p with st := .dflt } o
        generalize executeDcs { st.p with st := .dflt } o = r at hx
        obtain ⟨p, out⟩ := r
        exact ret_size _ _ _ hx rfl rfl
      · intro _
        repeat' (first | (apply okThen_ite <;> intro _) | split)
        all_goals sarm
    · repeat' (first | (apply okThen_ite <;> intro _) | split)
      all_goals sarm
    · repeat' (first | (apply okThen_ite <;> intro _) | split)
      all_goals sarm
    · exact csiCmd_size st ch
    · exact csiReq_size st ch
    · -- rip
      apply okThen_ite
      · intro _; exact ret_size _ _ _ rfl rfl rfl
      · intro _; exact dfltChar_size cfg st (dflt st) ch rfl rfl rfl
    · exact devAttr_size st ch
    · exact endCsi_size o inv st _ ch hinv
    · exact csiFinal_size cfg o st _ ch
    · exact dfltChar_size cfg st st ch rfl rfl rfl

theorem replay_size (stepf : St → Char → R) (hstep : ∀ st ch, okThen (stepf st ch) (SizeR st)) :
    ∀ (body : List Char) (st st' : St), replay stepf body st = .ok st' → SizeStep st st' := by
  intro body
  induction body with
  | nil => intro st st' h; simp only [replay] at h; cases h; exact sizeStep_refl _
  | cons ch rest ih =>
    intro st st' h
    unfold replay at h
    split at h
    · cases h; exact sizeStep_refl _
    · have h2 := hstep { st with p := { st.p with budget := st.p.budget - 1 } } ch
      simp only [] at h
      cases hs : stepf { st with p := { st.p with budget := st.p.budget - 1 } } ch with
      | error e => rw [hs] at h; cases h
      | ok r =>
        rw [hs] at h h2
        obtain ⟨st1, out⟩ := r
        exact sizeStep_trans (sizeStep_trans (sizeStep_same st _ rfl rfl rfl) h2) (ih st1 st' h)

theorem invoker_size (stepf : St → Char → R) (top : Bool) (hstep : ∀ st ch, okThen (stepf st ch) (SizeR st)) :
    InvSize (invoker stepf top) := by
  intro id d st' h
  unfold invoker at h
  split at h
  · cases h; exact sizeStep_refl _
  · split at h
    · have h2 := replay_size stepf hstep _ _ _ h
      exact sizeStep_trans (sizeStep_same d _ rfl rfl rfl) h2
    · exact replay_size stepf hstep _ _ _ h

theorem stepD_size : ∀ (d : Nat) (cfg : Cfg) (o : Nat → Orc) (st : St) (ch : Char),
    okThen (stepD d cfg o st ch) (SizeR st) := by
  intro d
  induction d with
  | zero =>
    intro cfg o st ch
    unfold stepD
    have h := stepCore_size cfg (o st.p.tick) (fun _ st => .ok st) (tickSt st) ch
      (fun id d st' hh => by cases hh; exact sizeStep_refl _)
    cases hs : stepCore cfg (o st.p.tick) (fun _ st => .ok st) (tickSt st) ch with
    | error e => trivial
    | ok r => rw [hs] at h; exact sizeStep_trans (sizeStep_same st (tickSt st) rfl rfl rfl) h
  | succ d ih =>
    intro cfg o st ch
    unfold stepD
    have h := stepCore_size cfg (o st.p.tick) (invoker (stepD d cfg o) (decide (d + 1 = MAX_MACRO_DEPTH))) (tickSt st) ch
      (invoker_size _ _ (fun st ch => ih cfg o st ch))
    cases hs : stepCore cfg (o st.p.tick) (invoker (stepD d cfg o) (decide (d + 1 = MAX_MACRO_DEPTH))) (tickSt st) ch with
    | error e => trivial
    | ok r => rw [hs] at h; exact sizeStep_trans (sizeStep_same st (tickSt st) rfl rfl rfl) h

theorem step_size (cfg : Cfg) (o : Nat → Orc) (st : St) (ch : Char) : okThen (step cfg o st ch) (SizeR st) :=
  stepD_size _ cfg o st ch

theorem run_size (cfg : Cfg) (o : Nat → Orc) : ∀ (cs : List Char) (st st' : St), run cfg o st cs = .ok st' → SizeStep st st' := by
  intro cs
  induction cs with
  | nil => intro st st' h; simp only [run] at h; cases h; exact sizeStep_refl _
  | cons ch rest ih =>
    intro st st' h
    unfold run at h
    have h2 := step_size cfg o st ch
    cases hs : step cfg o st ch with
    | error e => rw [hs] at h; cases h
    | ok r =>
      rw [hs] at h h2
      obtain ⟨st1, out⟩ := r
      exact sizeStep_trans h2 (ih st1 st' h)

/-! ## wrappers -/
abbrev SizeW (w : WSt) (r : WSt × Out) : Prop := SizeStep w.inner r.1.inner

theorem inner_size (w : WSt) (o : Nat → Orc) (ch : Char) : okThen (inner w o ch) (SizeW w) := by
  unfold inner
  have hs := step_size wcfg o w.inner ch
  cases hst : step wcfg o w.inner ch with
  | error e => trivial
  | ok r => rw [hst] at hs; obtain ⟨st, out⟩ := r; exact hs

theorem wlimit_size (w w0 : WSt) (c : Car) (out : Out) (h : w.inner = w0.inner) : okThen (wlimit w c out) (SizeW w0) := by
  unfold wlimit
  cases hl : limit w.inner.s c with
  | error e => trivial
  | ok c' => exact sizeStep_same _ _ (by rw [← h]) (by rw [← h]) (by rw [← h])

theorem avtRepeat_size (o : Nat → Orc) (ch : Char) : ∀ (n : Nat) (w : WSt),
    okThen (avtRepeat o ch n w) (SizeW w) := by
  intro n
  induction n with
  | zero => intro w; exact sizeStep_refl _
  | succ n ih =>
    intro w
    unfold avtRepeat
    have hs := step_size wcfg o w.inner ch
    cases hst : step wcfg o w.inner ch with
    | error e => trivial
    | ok r =>
      rw [hst] at hs
      obtain ⟨st, out⟩ := r
      have h2 := ih { w with inner := st }
      cases out with
      | err => exact hs
      | ok =>
        show okThen (avtRepeat o ch n { w with inner := st }) _
        cases hr : avtRepeat o ch n { w with inner := st } with
        | error e => trivial
        | ok r2 => rw [hr] at h2; exact sizeStep_trans hs h2
      | resize =>
        show okThen (avtRepeat o ch n { w with inner := st }) _
        cases hr : avtRepeat o ch n { w with inner := st } with
        | error e => trivial
        | ok r2 => rw [hr] at h2; exact sizeStep_trans hs h2

theorem wok_size (w x : WSt) (out : Out) (h1 : x.inner.p.resized = w.inner.p.resized) (h2 : x.inner.s.tw = w.inner.s.tw)
    (h3 : x.inner.s.th = w.inner.s.th) : okThen (.ok (x, out) : WR) (SizeW w) := sizeStep_same _ _ h1 h2 h3

theorem avatarStep_size (w : WSt) (o : Nat → Orc) (ch : Char) : okThen (avatarStep w o ch) (SizeW w) := by
  unfold avatarStep
  simp only []
  split
  · repeat' (first | (apply okThen_ite <;> intro _))
    all_goals first
      | exact wok_size _ _ _ rfl rfl rfl
      | exact inner_size w o ch
  · repeat' (first | (apply okThen_ite <;> intro _))
    all_goals first
      | exact wok_size _ _ _ rfl rfl rfl
      | exact wlimit_size _ _ _ _ rfl
  · repeat' (first | (apply okThen_ite <;> intro _))
    · exact wok_size _ _ _ rfl rfl rfl
    · have hr := avtRepeat_size o w.avtChar (min ch.toNat 255) { w with avt := .repeatChars 3 }
      cases hrr : avtRepeat o w.avtChar (min ch.toNat 255) { w with avt := .repeatChars 3 } with
      | error e => trivial
      | ok r =>
        rw [hrr] at hr
        obtain ⟨w', out⟩ := r
        cases out <;> exact hr
    · exact wok_size _ _ _ rfl rfl rfl
  · exact wok_size _ _ _ rfl rfl rfl
  · repeat' (first | (apply okThen_ite <;> intro _))
    all_goals first
      | exact wok_size _ _ _ rfl rfl rfl
      | exact wlimit_size _ _ _ _ rfl

theorem pcboardStep_size (w : WSt) (o : Nat → Orc) (ch : Char) : okThen (pcboardStep w o ch) (SizeW w) := by
  unfold pcboardStep
  simp only []
  repeat' (first | (apply okThen_ite <;> intro _))
  all_goals first | exact wok_size _ _ _ rfl rfl rfl | exact inner_size w o ch

theorem renegadeStep_size (w : WSt) (o : Nat → Orc) (ch : Char) : okThen (renegadeStep w o ch) (SizeW w) := by
  unfold renegadeStep
  simp only []
  repeat' (first | (apply okThen_ite <;> intro _))
  all_goals first | exact wok_size _ _ _ rfl rfl rfl | exact inner_size w o ch

theorem ctrlaStep_size (w : WSt) (o : Nat → Orc) (ch : Char) : okThen (ctrlaStep w o ch) (SizeW w) := by
  unfold ctrlaStep
  simp only []
  repeat' (first | (apply okThen_ite <;> intro _))
  all_goals first
    | exact wok_size _ _ _ rfl rfl rfl
    | exact inner_size w o ch
    | exact wlimit_size _ _ _ _ rfl
    | skip
  · have hs := step_size wcfg o w.inner '\x01'
    cases hst : step wcfg o w.inner '\x01' with
    | error e => simp only [hst]; trivial
    | ok r => simp only [hst]; rw [hst] at hs; obtain ⟨st, out⟩ := r; exact hs

theorem wstep_size (e : Emu) (o : Nat → Orc) (w : WSt) (ch : Char) : okThen (wstep e o w ch) (SizeW w) := by
  unfold wstep
  apply okThen_ite
  · intro _; trivial
  · intro _
    cases e with
    | avatar => exact avatarStep_size w o ch
    | pcboard => exact pcboardStep_size w o ch
    | ctrla => exact ctrlaStep_size w o ch
    | renegade => exact renegadeStep_size w o ch

theorem wrun_size (e : Emu) (o : Nat → Orc) : ∀ (cs : List Char) (w w' : WSt), wrun e o w cs = .ok w' →
    SizeStep w.inner w'.inner := by
  intro cs
  induction cs with
  | nil => intro w w' h; simp only [wrun] at h; cases h; exact sizeStep_refl _
  | cons ch rest ih =>
    intro w w' h
    unfold wrun at h
    have h2 := wstep_size e o w ch
    cases hs : wstep e o w ch with
    | error e => rw [hs] at h; cases h
    | ok r =>
      rw [hs] at h h2
      obtain ⟨w1, out⟩ := r
      exact sizeStep_trans h2 (ih w1 w' h)

/-! ## byte-oriented emulations: no resize function at all -/
theorem oliftSC_same (st : OSt) (r : Res (Scr × Car)) (hk : KeepsSize st.s r) : okThen (oliftSC st r) (SameSize st) := by
  cases r with
  | ok p => obtain ⟨s', c'⟩ := p; exact hk
  | error e => trivial

theorem printValue_same (st st0 : OSt) (v : Nat) (h : st.s = st0.s) : okThen (printValue st v) (SameSize st0) := by
  unfold printValue
  apply okThen_ite
  · intro _; exact ⟨by rw [← h], by rw [← h]⟩
  · intro _
    have := oliftSC_same st (printChar st.s st.c) (printChar_keeps _ _)
    cases hp : oliftSC st (printChar st.s st.c) with
    | error e => trivial
    | ok r => rw [hp] at this; exact ⟨by rw [← h]; exact this.1, by rw [← h]; exact this.2⟩

theorem ostep_same (e : Emu2) (st : OSt) (ch : Char) : okThen (ostep e st ch) (SameSize st) := by
  cases e with
  | viewdata => exact page_step_same .viewdata (Or.inl rfl) st ch
  | mode7 => exact page_step_same .mode7 (Or.inr rfl) st ch
  | ascii =>
    unfold ostep
    apply okThen_ite
    · intro _; trivial
    · intro _
      simp only []
      unfold asciiStep
      simp only []
      repeat' (first | (apply okThen_ite <;> intro _))
      all_goals first
        | exact ⟨rfl, rfl⟩
        | exact oliftSC_same _ _ (lf_keeps _ _)
        | exact oliftSC_same _ _ (printChar_keeps _ _)
  | atascii =>
    unfold ostep
    apply okThen_ite
    · intro _; trivial
    · intro _
      simp only []
      unfold atasciiStep
      simp only [up, down, left, right]
      repeat' (first | (apply okThen_ite <;> intro _))
      all_goals first
        | exact ⟨rfl, rfl⟩
        | exact oliftC_same _ _
        | exact oliftSC_same _ _ (lf_keeps _ _)
        | exact oliftSC_same _ _ (printChar_keeps _ _)
        | exact oliftSC_same { st with esc := false } _ (printChar_keeps _ _)
        | trivial
  | petscii =>
    unfold ostep
    apply okThen_ite
    · intro _; trivial
    · intro _
      simp only []
      unfold petsciiStep
      simp only [up, down, left, right]
      repeat' (first | (apply okThen_ite <;> intro _) | split)
      all_goals first
        | exact ⟨rfl, rfl⟩
        | exact oliftC_same _ _
        | exact oliftSC_same _ _ (lf_keeps _ _)
        | exact oliftSC_same _ _ (printChar_keeps _ _)
        | trivial

theorem orun_same (e : Emu2) : ∀ (cs : List Char) (st st' : OSt), orun e st cs = .ok st' →
    st'.s.tw = st.s.tw ∧ st'.s.th = st.s.th := by
  intro cs
  induction cs with
  | nil => intro st st' h; simp only [orun] at h; cases h; exact ⟨rfl, rfl⟩
  | cons ch rest ih =>
    intro st st' h
    unfold orun at h
    have h2 := ostep_same e st ch
    cases hs : ostep e st ch with
    | error e => rw [hs] at h; cases h
    | ok r =>
      rw [hs] at h h2
      obtain ⟨st1, out⟩ := r
      have h3 := ih st1 st' h
      exact ⟨h3.1.trans h2.1, h3.2.trans h2.2⟩

end IcyVerif.Term
