import IcyVerif.Lemmas.ArtAnsiXSgr
import IcyVerif.Lemmas.ArtAnsiTrim
/-! # The ANSI writer's line loop against the reader, for ALL colours (C04, `ansi_rt_partial₄`)

Same structure as `ArtAnsiComp.lean`, but the reader's state between two cells is its caret attribute AND its palette
(`RdSt`), and what a printed cell shows is stated in RGB values (`Disp`): the loaded cell's colour indices, resolved
through the reader's palette, give the colours the saved cell shows through the picture's palette.  The palette only
grows, so `Disp` facts survive to the end of the file (`Disp.mono`). -/
set_option linter.unusedSimpArgs false
namespace IcyVerif.ArtIO
open IcyVerif.Gen.Art

/-- `Caret::get_attribute` as a function of the iCE flag and the caret attribute -/
def prAttr (ic : Bool) (A : Attr) : Attr :=
  if ic = true then
    { A with bg := if A.bg < 8 && A.fl.blink then A.bg + 8 else A.bg, fl := { A.fl with blink := false } }
  else A

theorem printAttr_prAttr (c : Core) (ic : Bool) (A : Attr) (h1 : c.caretIce = ic) (h2 : c.attr = A) : c.printAttr = prAttr ic A := by
  subst h1; subst h2
  unfold Core.printAttr prAttr
  rfl

/-- the loaded (or printed) cell `l` shows what the saved cell `c` shows: same character, the displayed foreground
    colour (bold low colour = bright colour), the background colour and the blink flag agree — `c` seen through the
    picture's palette `pal`, `l` through the reader's palette `P` (indices inside it) -/
structure Disp (pal P : List Rgb) (c l : Cell) : Prop where
  ch : l.ch = c.ch
  vis : l.attr.fl.invisible = false
  fgb : dispFg l.attr < P.length
  bgb : l.attr.bg < P.length
  fg : pget P (dispFg l.attr) = getRgb pal (dispFg c.attr)
  bg : pget P l.attr.bg = getRgb pal c.attr.bg
  blink : l.attr.fl.blink = c.attr.fl.blink

theorem Disp.mono {pal P Q : List Rgb} {c l : Cell} (h : Disp pal P c l) (hq : P <+: Q) : Disp pal Q c l := by
  obtain ⟨h1, h2, h3, h4, h5, h6, h7⟩ := h
  have hl := hq.length_le
  exact ⟨h1, h2, by omega, by omega, by rw [pget_prefix hq h3]; exact h5, by rw [pget_prefix hq h4]; exact h6, h7⟩

/-- the bold folding of `parse_with_parser` does not change what is displayed -/
theorem Disp.fold {pal P : List Rgb} {c l : Cell} (h : Disp pal P c l) : Disp pal P c (foldBold l) := by
  obtain ⟨h1, h2, h3, h4, h5, h6, h7⟩ := h
  unfold foldBold
  by_cases hb : l.attr.fl.bold = true
  · rw [if_pos hb]
    have e : dispFg ({ l with attr := { l.attr with fg := if l.attr.fg < 8 then l.attr.fg + 8 else l.attr.fg, fl := { l.attr.fl with bold := false } } } : Cell).attr = dispFg l.attr := by
      unfold dispFg
      simp [hb]
    exact ⟨h1, h2, by rw [e]; exact h3, h4, by rw [e]; exact h5, h6, h7⟩
  · rw [if_neg hb]; exact ⟨h1, h2, h3, h4, h5, h6, h7⟩

/-- what the reader prints for a cell after the cell's `get_color` output -/
theorem disp_of_sync (ic : Bool) (pal : List Rgb) (attr : Attr) (P0 : List Rgb) (g : AnsiState × List Nat × List Nat) (R : RdSt)
    (h : SyncX ic pal attr P0 g R) (ha : AttrX ic attr) (ch : Nat) : Disp pal R.2 ⟨ch, attr⟩ ⟨ch, prAttr ic R.1⟩ := by
  obtain ⟨_, _, ⟨fl, dp, ⟨f1, _, f3⟩, ⟨b1, b2⟩⟩, _, _, fgc, bgc, blk⟩ := h
  obtain ⟨a1, _, _⟩ := ha
  have h16 := dp.len
  have hbold : R.1.fl.bold = g.1.isBold := by rw [fl]; rfl
  have hblink : R.1.fl.blink = g.1.isBlink := by rw [fl]; rfl
  have hinv : R.1.fl.invisible = false := by rw [fl]; rfl
  have efg : dispFg (prAttr ic R.1) = (if (g.1.isBold && decide (R.1.fg < 8)) = true then R.1.fg + 8 else R.1.fg) := by
    unfold dispFg prAttr
    cases ic <;> simp [hbold]
  have ebg : (prAttr ic R.1).bg = (if (ic && g.1.isBlink && decide (R.1.bg < 8)) = true then R.1.bg + 8 else R.1.bg) := by
    unfold prAttr
    cases ic with
    | false => simp
    | true =>
      simp only [if_true, Bool.true_and]
      rw [hblink]
      cases hq : g.1.isBlink <;> by_cases h8 : R.1.bg < 8 <;> simp [hq, h8]
  refine ⟨rfl, ?_, ?_, ?_, ?_, ?_, ?_⟩
  · show (prAttr ic R.1).fl.invisible = false
    unfold prAttr; cases ic <;> simp [hinv]
  · show dispFg (prAttr ic R.1) < R.2.length
    rw [efg]; split
    · rename_i hc; simp only [Bool.and_eq_true, decide_eq_true_eq] at hc; omega
    · exact f1
  · show (prAttr ic R.1).bg < R.2.length
    rw [ebg]; split
    · rename_i hc; simp only [Bool.and_eq_true, decide_eq_true_eq] at hc; omega
    · exact b1
  · show pget R.2 (dispFg (prAttr ic R.1)) = getRgb pal (dispFg attr)
    rw [efg, ← f3, fgc]
  · show pget R.2 (prAttr ic R.1).bg = getRgb pal attr.bg
    rw [ebg, ← b2, bgc]
  · show (prAttr ic R.1).fl.blink = attr.fl.blink
    cases hq : ic with
    | true => rw [a1 hq]; unfold prAttr; simp
    | false => unfold prAttr; simp; rw [hblink, blk hq]

/-! ### the reader, byte level -/

/-- the reader between two steps of the line loop: as `CInv`, plus its palette -/
structure CInvX (ic : Bool) (R : RdSt) (w : Nat) (p : AnsiP) (c : Core) : Prop where
  base : CInv ic R.1 w p c
  pal : c.pal = R.2

theorem tc_read (ic : Bool) (w : Nat) : ∀ (fuel : Nat) (tc : List Nat) (R : RdSt) (p : AnsiP) (core : Core),
    CInvX ic R w p core → (∀ n ∈ tc, n < 1000) →
    ∃ p1 core1, ansiRun p core (tcSeqs fuel tc) = (p1, core1) ∧ core1.scr = core.scr ∧ CInvX ic (rdTc fuel tc R) w p1 core1 := by
  intro fuel
  induction fuel with
  | zero => intro tc R p core h _; exact ⟨p, core, rfl, rfl, h⟩
  | succ f ih =>
    intro tc R p core h hlt
    rcases tc with _ | ⟨a, _ | ⟨b, _ | ⟨c, _ | ⟨d, rest⟩⟩⟩⟩
    · exact ⟨p, core, rfl, rfl, h⟩
    · exact ⟨p, core, rfl, rfl, h⟩
    · exact ⟨p, core, rfl, rfl, h⟩
    · exact ⟨p, core, rfl, rfl, h⟩
    · obtain ⟨⟨ns, ag, ice, hat, sw, th⟩, hpal⟩ := h
      have hlt4 : ∀ n ∈ [a, b, c, d], n < 1000 := by
        intro n hn
        apply hlt
        simp at hn ⊢
        rcases hn with q | q | q | q <;> simp [q]
      show ∃ p1 core1, ansiRun p core (csi [a, b, c, d] 116 ++ tcSeqs f rest) = (p1, core1) ∧ _
      rw [ansiRun_append, csi_read p core [a, b, c, d] 116 ns ag (by simp) hlt4]
      have e : ansiStep { p with st := .csi [a, b, c, d] false } core 116 = ({ p with st := .ground }, color24 core [a, b, c, d]) := by
        unfold ansiStep; simp [ns]
      rw [e]
      simp only []
      -- the core after the colour command
      have hc : ∃ core2, color24 core [a, b, c, d] = core2 ∧ core2.scr = core.scr ∧
          CInvX ic (if a = 0 then ({ R.1 with bg := (insertColor R.2 (b % 256, c % 256, d % 256)).2 }, (insertColor R.2 (b % 256, c % 256, d % 256)).1)
            else if a = 1 then ({ R.1 with fg := (insertColor R.2 (b % 256, c % 256, d % 256)).2 }, (insertColor R.2 (b % 256, c % 256, d % 256)).1)
            else (R.1, (insertColor R.2 (b % 256, c % 256, d % 256)).1)) w { p with st := .ground } core2 := by
        refine ⟨_, rfl, ?_, ?_⟩
        · unfold color24
          simp only [List.head?_cons]
          split <;> rfl
        · unfold color24
          simp only [List.head?_cons, List.getD_cons_succ, List.getD_cons_zero, hpal]
          by_cases h0 : a = 0
          · subst h0
            simp only [if_true]
            exact ⟨⟨ns, rfl, ice, by simp [hat], sw, th⟩, rfl⟩
          · by_cases h1 : a = 1
            · subst h1
              simp only [if_neg h0, if_true]
              exact ⟨⟨ns, rfl, ice, by simp [hat], sw, th⟩, rfl⟩
            · simp only [if_neg h0, if_neg h1]
              split
              · rename_i q; simp at q; exact absurd q h0
              · rename_i q; simp at q; exact absurd q h1
              · exact ⟨⟨ns, rfl, ice, hat, sw, th⟩, rfl⟩
      obtain ⟨core2, e2, s2, inv2⟩ := hc
      rw [e2]
      obtain ⟨p3, core3, e3, s3, inv3⟩ := ih rest _ _ core2 inv2 (fun n hn => hlt n (by simp [hn]))
      exact ⟨p3, core3, e3, by rw [s3, s2], inv3⟩

/-- the SGR sequence and the 24-bit commands in front of a cell move the reader as `rdPre` says -/
theorem pre_readX (ic : Bool) (R : RdSt) (w : Nat) (p : AnsiP) (core : Core) (sgrs tc : List Nat) (h : CInvX ic R w p core)
    (hs : ∀ n ∈ sgrs, n < 1000) (ht : ∀ n ∈ tc, n < 1000) :
    ∃ p1 core1, ansiRun p core ((if sgrs.isEmpty then [] else csi sgrs 109) ++ tcSeqs tc.length tc) = (p1, core1) ∧
      core1.scr = core.scr ∧ CInvX ic (rdPre R sgrs tc) w p1 core1 := by
  rw [ansiRun_append]
  have hsgr : ∃ p1 core1, ansiRun p core (if sgrs.isEmpty then [] else csi sgrs 109) = (p1, core1) ∧ core1.scr = core.scr ∧
      CInvX ic (rdSgr R sgrs) w p1 core1 := by
    unfold rdSgr
    by_cases hemp : sgrs.isEmpty = true
    · rw [if_pos hemp, if_pos hemp]
      exact ⟨p, core, rfl, rfl, h⟩
    · rw [if_neg hemp, if_neg hemp]
      obtain ⟨⟨ns, ag, ice, hat, sw, th⟩, hpal⟩ := h
      have hne : sgrs ≠ [] := by intro e; rw [e] at hemp; exact hemp rfl
      rw [csi_read p core sgrs 109 ns ag hne hs]
      have e : ansiStep { p with st := .csi sgrs false } core 109 = ({ p with st := .ground }, sgr core sgrs) := by
        unfold ansiStep; simp [ns]
      rw [e]
      refine ⟨_, _, rfl, ?_, ?_⟩
      · unfold sgr; rfl
      · unfold sgr
        have : sgrs.isEmpty = false := by cases sgrs <;> simp_all
        simp only [this, Bool.false_eq_true, if_false, hat, hpal]
        exact ⟨⟨ns, rfl, ice, rfl, sw, th⟩, rfl⟩
  obtain ⟨p1, core1, e1, s1, inv1⟩ := hsgr
  rw [e1]
  simp only []
  obtain ⟨p2, core2, e2, s2, inv2⟩ := tc_read ic w tc.length tc (rdSgr R sgrs) p1 core1 inv1 ht
  exact ⟨p2, core2, e2, by rw [s2, s1], inv2⟩

/-! ### one line: cells next to the `CharCell`s made of them -/

def CellDomX (o : AnsiOpts) (ic : Bool) (c : Cell) : Prop := AttrX ic c.attr ∧ EncDom o c.ch

/-- the cells of (part of) a row next to the `CharCell`s `generate_cells` made of them, with the reader's state before
    and after: each cell's sequences move the reader (`rdPre`) to a state in which it prints what the cell shows -/
inductive LineOkX (o : AnsiOpts) (ic : Bool) (pal : List Rgb) : RdSt → List Cell → List CharCell → RdSt → Prop
  | nil (R : RdSt) : LineOkX o ic pal R [] [] R
  | cons (R R' Re : RdSt) (c : Cell) (cc : CharCell) (cs : List Cell) (ccs : List CharCell) :
      cc.ch = c.ch → (∀ n ∈ cc.sgr, n < 1000) → (∀ n ∈ cc.sgrTc, n < 1000) → rdPre R cc.sgr cc.sgrTc = R' →
      R.2 <+: R'.2 → R'.2.length ≤ R.2.length + 2 →
      Disp pal R'.2 c ⟨c.ch, prAttr ic R'.1⟩ →
      (cc.cur.bg = black → cc.cur.isBlink = false → getRgb pal c.attr.bg = black ∧ c.attr.fl.blink = false) →
      EncDom o c.ch → LineOkX o ic pal R' cs ccs Re → LineOkX o ic pal R (c :: cs) (cc :: ccs) Re

theorem LineOkX.length_eq {o : AnsiOpts} {ic : Bool} {pal : List Rgb} {R Re : RdSt} {cs : List Cell} {ccs : List CharCell}
    (h : LineOkX o ic pal R cs ccs Re) : ccs.length = cs.length := by
  induction h with
  | nil => rfl
  | cons _ _ _ _ _ _ _ _ _ _ _ _ _ _ _ _ _ ih => simp [ih]

/-- the palette only grows along a line, by at most two colours per cell -/
theorem LineOkX.grow {o : AnsiOpts} {ic : Bool} {pal : List Rgb} {R Re : RdSt} {cs : List Cell} {ccs : List CharCell}
    (h : LineOkX o ic pal R cs ccs Re) : R.2 <+: Re.2 ∧ Re.2.length ≤ R.2.length + 2 * cs.length := by
  induction h with
  | nil => exact ⟨List.prefix_refl _, by simp⟩
  | cons _ _ _ _ _ _ _ _ _ _ _ h5 h6 _ _ _ _ ih =>
    exact ⟨List.IsPrefix.trans h5 ih.1, by simp; omega⟩

theorem rdPre_nil (R : RdSt) : rdPre R [] [] = R := rfl

/-- `generate_cells` on one row produces a `LineOkX` line -/
theorem lineOk_genX (o : AnsiOpts) (pal : List Rgb) (hpal : PalBytes pal) (im : IceMode) (ic : Bool) (hic : ic = decide (im = .ice))
    (row : List Cell) (hd : ∀ c ∈ row, CellDomX o ic c) :
    ∀ (n x : Nat) (st : AnsiState) (R : RdSt), x + n ≤ row.length → RelX ic st.isBlink st R.1 R.2 →
      ∃ Re, LineOkX o ic pal R ((row.drop x).take n) (genCellsRow o pal im row n x st).1 Re ∧
        RelX ic (genCellsRow o pal im row n x st).2.isBlink (genCellsRow o pal im row n x st).2 Re.1 Re.2 := by
  subst hic
  intro n
  induction n with
  | zero => intro x st R _ h; exact ⟨R, by simp [genCellsRow]; exact LineOkX.nil R, by simpa [genCellsRow] using h⟩
  | succ k ih =>
    intro x st R hx h
    have hxl : x < row.length := by omega
    have hget : row.getD x defaultCell = row[x] := by
      rw [List.getD_eq_getElem?_getD, List.getElem?_eq_getElem hxl]; rfl
    have hdc : CellDomX o (decide (im = .ice)) row[x] := hd _ (List.getElem_mem hxl)
    have hvis : (row[x]).isVisible = true := by
      unfold Cell.isVisible; rw [hdc.1.2.2]; rfl
    have S := sgr_syncX o pal hpal im row[x].attr hdc.1 st R.1 R.2 h
    generalize hg : getColor o pal im row[x].attr st = g at S
    generalize hR' : rdPre (R.1, R.2) g.2.1 g.2.2 = R' at S
    obtain ⟨Re, I1, I2⟩ := ih (x + 1) g.1 R' (by omega) S.rel
    have hdrop : (row.drop x).take (k + 1) = row[x] :: (row.drop (x + 1)).take k := by
      rw [List.drop_eq_getElem_cons hxl]; rfl
    unfold genCellsRow
    rw [hget, hdrop]
    simp only [hvis, if_true, hg]
    refine ⟨Re, ?_, I2⟩
    have hD := disp_of_sync _ pal row[x].attr R.2 g R' S hdc.1 row[x].ch
    refine LineOkX.cons R R' Re row[x] _ _ _ rfl S.lt S.lttc hR' S.pre S.len hD ?_ hdc.2 I1
    intro hb hk
    show getRgb pal row[x].attr.bg = black ∧ row[x].attr.fl.blink = false
    refine ⟨by rw [← S.bgc]; exact hb, ?_⟩
    cases hq : decide (im = IceMode.ice) with
    | true => exact hdc.1.1 hq
    | false => rw [← S.blk hq]; exact hk

/-- a run found by the RLE scan: its cells are printed like the first one, and the rest of the line is still `LineOkX` -/
theorem lineOk_runX (o : AnsiOpts) (ic : Bool) (pal : List Rgb) (ch0 : Nat) : ∀ (r : Nat) (R Re : RdSt) (cs : List Cell) (ccs : List CharCell),
    LineOkX o ic pal R cs ccs Re → r ≤ ccs.length →
    (∀ j, j < r → ∃ cc, ccs[j]? = some cc ∧ cc.ch = ch0 ∧ cc.sgr = [] ∧ cc.sgrTc = []) →
    (∀ j, j < r → (cs.getD j defaultCell).ch = ch0 ∧ Disp pal R.2 (cs.getD j defaultCell) ⟨ch0, prAttr ic R.1⟩ ∧
      EncDom o (cs.getD j defaultCell).ch) ∧
    LineOkX o ic pal R (cs.drop r) (ccs.drop r) Re := by
  intro r
  induction r with
  | zero => intro R Re cs ccs h _ _; exact ⟨fun j hj => by omega, by simpa using h⟩
  | succ k ih =>
    intro R Re cs ccs h hr hrun
    cases h with
    | nil => simp at hr
    | cons _ R' _ c cc cs' ccs' h1 h2 h3 h4 h5 h6 h7 h8 h9 h10 =>
      obtain ⟨cc0, e0, g1, g2, g3⟩ := hrun 0 (by omega)
      simp at e0; subst e0
      have hR : R' = R := by rw [← h4, g2, g3]; rfl
      subst hR
      have hrun' : ∀ j, j < k → ∃ cc, ccs'[j]? = some cc ∧ cc.ch = ch0 ∧ cc.sgr = [] ∧ cc.sgrTc = [] := by
        intro j hj
        obtain ⟨cc, e, q1, q2, q3⟩ := hrun (j + 1) (by omega)
        exact ⟨cc, by simpa using e, q1, q2, q3⟩
      obtain ⟨J1, J2⟩ := ih R' Re cs' ccs' h10 (by simp at hr; omega) hrun'
      refine ⟨?_, by simpa using J2⟩
      intro j hj
      cases j with
      | zero =>
        have hc : c.ch = ch0 := by rw [← h1, g1]
        refine ⟨by simpa using hc, ?_, by simpa using h9⟩
        rw [← hc]; simpa using h7
      | succ j' => simpa using J1 j' (by omega)

/-! ### the three shapes of output, with the palette carried along -/

theorem char_readX (o : AnsiOpts) (ic : Bool) (R : RdSt) (w : Nat) (p : AnsiP) (core : Core) (ch : Nat) (h : CInvX ic R w p core)
    (hd : EncDom o ch) :
    ∃ p1 core1, ansiRun p core (cellChar o ch) = (p1, core1) ∧ core1.scr = core.scr.put ⟨ch, prAttr ic R.1⟩ ∧ p1.lastCh = ch ∧
      CInvX ic R w p1 core1 := by
  obtain ⟨hb, hp⟩ := h
  obtain ⟨p1, e, l, inv⟩ := char_read o ic R.1 (prAttr ic R.1) w p core ch hb hd (printAttr_prAttr core ic R.1 hb.ice hb.attr)
  exact ⟨p1, _, e, rfl, l, inv, hp⟩

theorem cuf_readX (ic : Bool) (R : RdSt) (w : Nat) (p : AnsiP) (core : Core) (n : Nat) (h : CInvX ic R w p core) (hn : n < 1000)
    (hfit : core.scr.cx + n < w) (hw : w ≤ 100000) :
    ∃ p1 core1, ansiRun p core (csi [n] 67) = (p1, core1) ∧ core1.scr = core.scr.runItems (List.replicate n none) ∧ CInvX ic R w p1 core1 := by
  obtain ⟨hb, hp⟩ := h
  obtain ⟨p1, e, inv⟩ := cuf_read ic R.1 w p core n hb hn hfit hw
  exact ⟨p1, _, e, rfl, inv, hp⟩

theorem rep_readX (ic : Bool) (R : RdSt) (w : Nat) (p : AnsiP) (core : Core) (n : Nat) (h : CInvX ic R w p core) (hn : n < 1000) (hnw : n ≤ w) :
    ∃ p1 core1, ansiRun p core (csi [n] 98) = (p1, core1) ∧
      core1.scr = core.scr.runItems (List.replicate n (some ⟨p.lastCh, prAttr ic R.1⟩)) ∧ CInvX ic R w p1 core1 := by
  obtain ⟨hb, hp⟩ := h
  obtain ⟨p1, e, inv⟩ := rep_read ic R.1 (prAttr ic R.1) w p core n hb hn hnw (printAttr_prAttr core ic R.1 hb.ice hb.attr)
  exact ⟨p1, _, e, rfl, inv, hp⟩

/-! ### `subst_soundX`: the line loop with RLE / CUF / REP substitution -/

/-- a cell the writer may skip with cursor forward: a space on a black background that does not blink -/
def SkipCellX (pal : List Rgb) (c : Cell) : Prop := c.ch = 32 ∧ getRgb pal c.attr.bg = black ∧ c.attr.fl.blink = false

/-- the items the reader performs for the cells of (the rest of) a row that starts in column `x`: each cell is printed
    as a cell that shows the same (through the palette `Pf`), or it is a skippable cell skipped away from the margin -/
def ItemsOkX (pal Pf : List Rgb) (x w : Nat) (cells : List Cell) (items : List (Option Cell)) : Prop :=
  ∀ j, j < cells.length →
    (∃ l, items.getD j none = some l ∧ Disp pal Pf (cells.getD j defaultCell) l) ∨
    (items.getD j none = none ∧ SkipCellX pal (cells.getD j defaultCell) ∧ x + j + 1 < w)

theorem ItemsOkX.mono {pal P Q : List Rgb} {x w : Nat} {cells : List Cell} {items : List (Option Cell)}
    (h : ItemsOkX pal P x w cells items) (hq : P <+: Q) : ItemsOkX pal Q x w cells items := by
  intro j hj
  rcases h j hj with ⟨l, e, d⟩ | q
  · exact Or.inl ⟨l, e, d.mono hq⟩
  · exact Or.inr q

/-- a run of `m` equal items followed by the items of the rest -/
theorem itemsOk_runX (pal Pf : List Rgb) (x w m : Nat) (c : Cell) (cs : List Cell) (it : Option Cell) (items' : List (Option Cell))
    (hm : m ≤ cs.length + 1)
    (hrun : ∀ j, j < m → (∃ l, it = some l ∧ Disp pal Pf ((c :: cs).getD j defaultCell) l) ∨
      (it = none ∧ SkipCellX pal ((c :: cs).getD j defaultCell) ∧ x + j + 1 < w))
    (hrest : ItemsOkX pal Pf (x + m) w ((c :: cs).drop m) items') :
    ItemsOkX pal Pf x w (c :: cs) (List.replicate m it ++ items') := by
  intro j hj
  by_cases hjm : j < m
  · have e : (List.replicate m it ++ items').getD j none = it := by
      rw [List.getD_eq_getElem?_getD, List.getElem?_append_left (by simp; exact hjm), List.getElem?_replicate, if_pos hjm]; rfl
    rw [e]; exact hrun j hjm
  · have e : (List.replicate m it ++ items').getD j none = items'.getD (j - m) none := by
      rw [List.getD_eq_getElem?_getD, List.getElem?_append_right (by simp; omega)]
      simp [List.getD_eq_getElem?_getD]
    have e2 : (c :: cs).getD j defaultCell = ((c :: cs).drop m).getD (j - m) defaultCell := by
      simp only [List.getD_eq_getElem?_getD, List.getElem?_drop]
      congr 2; omega
    have hlen : j - m < ((c :: cs).drop m).length := by simp at hj ⊢; omega
    rw [e, e2]
    rcases hrest (j - m) hlen with h | ⟨h1, h2, h3⟩
    · exact Or.inl h
    · exact Or.inr ⟨h1, h2, by omega⟩

theorem genLine_itemsX (o : AnsiOpts) (ic : Bool) (pal : List Rgb) (w : Nat) (hw : w ≤ 999) : ∀ (fuel : Nat) (cells : List Cell)
    (line : List CharCell) (R Re : RdSt) (x : Nat) (p : AnsiP) (core : Core),
    line.length ≤ fuel → LineOkX o ic pal R cells line Re → x + cells.length ≤ w → CInvX ic R w p core → (cells ≠ [] → core.scr.cx = x) →
    ∃ items : List (Option Cell), items.length = cells.length ∧ ItemsOkX pal Re.2 x w cells items ∧
      (ansiRun p core (genLine o w fuel x line)).2.scr = core.scr.runItems items ∧
      CInvX ic Re w (ansiRun p core (genLine o w fuel x line)).1 (ansiRun p core (genLine o w fuel x line)).2 := by
  intro fuel
  induction fuel with
  | zero =>
    intro cells line R Re x p core hl hok _ hinv _
    have : line = [] := by cases line <;> simp_all
    subst this
    cases hok
    exact ⟨[], rfl, fun j hj => by simp at hj, rfl, hinv⟩
  | succ f ih =>
    intro cells line R Re x p core hl hok hfit hinv hcx
    cases hok with
    | nil => exact ⟨[], rfl, fun j hj => by simp at hj, by cases f <;> rfl, by cases f <;> exact hinv⟩
    | cons _ R' _ c cc cs rest h1 h2 h3 h4 h5 h6 h7 h8 h9 h10 =>
      have hx : core.scr.cx = x := hcx (by simp)
      have hlr : rest.length = cs.length := h10.length_eq
      obtain ⟨r1, r2⟩ := rleCount_spec cc rest
      obtain ⟨g1, g2⟩ := h10.grow
      -- the SGR prefix
      obtain ⟨p1, core1, e1, s1, inv1⟩ := pre_readX ic R w p core cc.sgr cc.sgrTc hinv h2 h3
      rw [h4] at inv1
      -- the run the RLE scan found, on the picture's cells
      obtain ⟨run1, run2⟩ := lineOk_runX o ic pal cc.ch (rleCount cc rest) R' Re cs rest h10 r1 r2
      have hrunfacts : ∀ j, j < rleCount cc rest + 1 →
          ((c :: cs).getD j defaultCell).ch = c.ch ∧ Disp pal R'.2 ((c :: cs).getD j defaultCell) ⟨c.ch, prAttr ic R'.1⟩ ∧
          EncDom o ((c :: cs).getD j defaultCell).ch := by
        intro j hj
        cases j with
        | zero => exact ⟨rfl, h7, h9⟩
        | succ j' =>
          have := run1 j' (by omega)
          rw [h1] at this
          simpa using this
      have hfit' : x + (rleCount cc rest + 1) + (cs.drop (rleCount cc rest)).length ≤ w := by
        simp at hfit ⊢; omega
      have hdropc : (c :: cs).drop (rleCount cc rest + 1) = cs.drop (rleCount cc rest) := rfl
      have hrl : rleCount cc rest < 1000 := by simp at hfit; omega
      have hxe : x + rleCount cc rest + 1 = x + (rleCount cc rest + 1) := by omega
      have hsw : core.scr.w = w := hinv.base.sw
      -- the cell alone: SGR prefix, character, then the rest of the line
      have plain : ∃ items : List (Option Cell), items.length = (c :: cs).length ∧ ItemsOkX pal Re.2 x w (c :: cs) items ∧
          (ansiRun p core (((if cc.sgr.isEmpty = true then [] else csi cc.sgr 109) ++ tcSeqs cc.sgrTc.length cc.sgrTc) ++
            cellChar o cc.ch ++ genLine o w f (x + 1) rest)).2.scr = core.scr.runItems items ∧
          CInvX ic Re w
            (ansiRun p core (((if cc.sgr.isEmpty = true then [] else csi cc.sgr 109) ++ tcSeqs cc.sgrTc.length cc.sgrTc) ++
              cellChar o cc.ch ++ genLine o w f (x + 1) rest)).1
            (ansiRun p core (((if cc.sgr.isEmpty = true then [] else csi cc.sgr 109) ++ tcSeqs cc.sgrTc.length cc.sgrTc) ++
              cellChar o cc.ch ++ genLine o w f (x + 1) rest)).2 := by
        rw [List.append_assoc, ansiRun_append, e1]
        simp only []
        obtain ⟨p2, core2, e2, s2, _, inv2⟩ := char_readX o ic R' w p1 core1 cc.ch inv1 (by rw [h1]; exact h9)
        rw [ansiRun_append, e2]
        simp only []
        have hscr2 : core2.scr = core.scr.put ⟨c.ch, prAttr ic R'.1⟩ := by rw [s2, s1, h1]
        have hpos : cs ≠ [] → core2.scr.cx = x + 1 := by
          intro hne
          have hlt : 0 < cs.length := List.length_pos_iff.2 hne
          rw [hscr2, (put_pos_in core.scr _ (by rw [hx, hsw]; simp at hfit; omega)).1, hx]
        obtain ⟨items', q1, q2, q3, q4⟩ := ih cs rest R' Re (x + 1) p2 core2 (by simp at hl; omega) h10
          (by simp at hfit; omega) inv2 hpos
        refine ⟨some ⟨c.ch, prAttr ic R'.1⟩ :: items', by simp [q1], ?_, ?_, q4⟩
        · intro j hj
          cases j with
          | zero => left; exact ⟨_, rfl, h7.mono g1⟩
          | succ j' =>
            have := q2 j' (by simp at hj; omega)
            rcases this with ⟨l, a, b⟩ | ⟨a, b, d⟩
            · left; exact ⟨l, by simpa using a, by simpa using b⟩
            · right; exact ⟨by simpa using a, by simpa using b, by omega⟩
        · rw [q3, hscr2, runItems_cons]; rfl
      unfold genLine
      simp only []
      by_cases hcomp : o.compress = true
      · rw [if_pos hcomp]
        by_cases hcuf : o.useCursorForward = true ∧ cc.ch = 32 ∧ cc.cur.bgIdx = 0 ∧ cc.cur.bg = (0, 0, 0) ∧ (!cc.cur.isBlink) = true ∧
            x + rleCount cc rest + 1 < w ∧ (csi [rleCount cc rest + 1] 67).length ≤ rleCount cc rest
        · -- cursor forward over the whole run
          rw [if_pos hcuf]
          obtain ⟨_, k1, _, k2, k3, k4, _⟩ := hcuf
          have hnb : cc.cur.isBlink = false := by
            cases hb : cc.cur.isBlink with
            | false => rfl
            | true => simp [hb] at k3
          obtain ⟨sk1, sk2⟩ := h8 k2 hnb
          rw [List.append_assoc, ansiRun_append, e1]
          simp only []
          obtain ⟨p2, core2, e2, s2, inv2⟩ := cuf_readX ic R' w p1 core1 (rleCount cc rest + 1) inv1 (by omega)
            (by rw [s1, hx]; omega) (by omega)
          rw [ansiRun_append, e2]
          simp only []
          have hsk : SkipsInside core.scr (List.replicate (rleCount cc rest + 1) none) := by
            intro i hi _; simp at hi; rw [hx, hsw]; omega
          have P := items_spec (List.replicate (rleCount cc rest + 1) none) core.scr (by simp; rw [hx, hsw]; omega)
            (by rw [hsw]; omega) hsk
          have hpos : cs.drop (rleCount cc rest) ≠ [] → core2.scr.cx = x + (rleCount cc rest + 1) := by
            intro _
            rw [s2, s1]
            have := (P.pos_in (by simp; rw [hx, hsw]; omega)).1
            simpa [hx] using this
          obtain ⟨items', q1, q2, q3, q4⟩ := ih (cs.drop (rleCount cc rest)) (rest.drop (rleCount cc rest)) R' Re
            (x + (rleCount cc rest + 1)) p2 core2 (by simp at hl ⊢; omega) run2 hfit' inv2 hpos
          rw [hxe]
          refine ⟨List.replicate (rleCount cc rest + 1) none ++ items', ?_, ?_, ?_, q4⟩
          · simp [q1]; omega
          · apply itemsOk_runX pal Re.2 x w (rleCount cc rest + 1) c cs none items' (by omega)
            · intro j hj
              right
              obtain ⟨f1, f2, _⟩ := hrunfacts j hj
              -- the run's cells show what the first cell shows: a space on black that does not blink
              have hbg : getRgb pal ((c :: cs).getD j defaultCell).attr.bg = black := by
                rw [← f2.bg, h7.bg]; exact sk1
              have hbl : ((c :: cs).getD j defaultCell).attr.fl.blink = false := by
                rw [← f2.blink, h7.blink]; exact sk2
              exact ⟨rfl, ⟨by rw [f1, ← h1]; exact k1, hbg, hbl⟩, by omega⟩
            · rw [hdropc]; exact q2
          · rw [q3, s2, s1, runItems_append]
        · rw [if_neg hcuf]
          by_cases hrep : o.useRepeatSequences = true ∧ (csi [rleCount cc rest] 98).length ≤ rleCount cc rest
          · -- the cell, then CSI n b for the rest of the run
            rw [if_pos hrep]
            have hr4 : 4 ≤ rleCount cc rest := by
              have : 4 ≤ (csi [rleCount cc rest] 98).length := by
                unfold csi params digits
                by_cases a : rleCount cc rest < 10 <;> by_cases b : rleCount cc rest < 100 <;> simp [a, b, hrl]
              omega
            rw [List.append_assoc, List.append_assoc, ansiRun_append, e1]
            simp only []
            obtain ⟨p2, core2, e2, s2, l2, inv2⟩ := char_readX o ic R' w p1 core1 cc.ch inv1 (by rw [h1]; exact h9)
            rw [ansiRun_append, e2]
            simp only []
            obtain ⟨p3, core3, e3, s3, inv3⟩ := rep_readX ic R' w p2 core2 (rleCount cc rest) inv2 (by omega) (by omega)
            rw [ansiRun_append, e3]
            simp only []
            have hscr3 : core3.scr = core.scr.runItems (List.replicate (rleCount cc rest + 1) (some ⟨c.ch, prAttr ic R'.1⟩)) := by
              rw [s3, s2, s1, l2, h1, List.replicate_succ, runItems_cons]; rfl
            have hsk : SkipsInside core.scr (List.replicate (rleCount cc rest + 1) (some ⟨c.ch, prAttr ic R'.1⟩)) := by
              intro i hi hn
              rw [List.getD_eq_getElem?_getD, List.getElem?_replicate, if_pos (by simpa using hi)] at hn
              cases hn
            have P := items_spec (List.replicate (rleCount cc rest + 1) (some ⟨c.ch, prAttr ic R'.1⟩)) core.scr (by simp; rw [hx, hsw]; omega)
              (by rw [hsw]; omega) hsk
            have hpos : cs.drop (rleCount cc rest) ≠ [] → core3.scr.cx = x + (rleCount cc rest + 1) := by
              intro hne
              rw [hscr3]
              have hlt : 0 < (cs.drop (rleCount cc rest)).length := List.length_pos_iff.2 hne
              have := (P.pos_in (by simp; rw [hx, hsw]; omega)).1
              simpa [hx] using this
            obtain ⟨items', q1, q2, q3, q4⟩ := ih (cs.drop (rleCount cc rest)) (rest.drop (rleCount cc rest)) R' Re
              (x + (rleCount cc rest + 1)) p3 core3 (by simp at hl ⊢; omega) run2 hfit' inv3 hpos
            rw [hxe]
            refine ⟨List.replicate (rleCount cc rest + 1) (some ⟨c.ch, prAttr ic R'.1⟩) ++ items', ?_, ?_, ?_, q4⟩
            · simp [q1]; omega
            · apply itemsOk_runX pal Re.2 x w (rleCount cc rest + 1) c cs (some ⟨c.ch, prAttr ic R'.1⟩) items' (by omega)
              · intro j hj
                left
                obtain ⟨_, f2, _⟩ := hrunfacts j hj
                exact ⟨_, rfl, f2.mono g1⟩
              · rw [hdropc]; exact q2
            · rw [q3, hscr3, runItems_append]
          · -- the cell alone
            rw [if_neg hrep]
            exact plain
      · rw [if_neg hcomp]
        exact plain

end IcyVerif.ArtIO
