import IcyVerif.Lemmas.ArtAnsiRead
/-! # `sgr_sync`: the writer's `AnsiState` and the reader's caret attribute stay in step (C04, 16 colours, blink / unlimited mode)

`RelS st A`: the reader's attribute `A` is what the writer's state `st` believes the terminal shows.  Each block of
`get_color` (`gcReset`, `gcBold`, …, `gcFg`, `gcBg`) pushes parameters that move the reader exactly as the block moves
the state; after the last block the reader prints with the cell's own rendition (`sgr_sync`). -/
set_option linter.unusedSimpArgs false
namespace IcyVerif.ArtIO
open IcyVerif.Gen.Art

/-! ### the reader on simple SGR parameters -/

/-- an SGR parameter that is neither 38 nor 48 and is never rejected -/
def SimpleParam (n : Nat) : Prop := n ≠ 38 ∧ n ≠ 48 ∧ ∀ a, (sgrOne a n).isSome = true

/-- the left fold the reader performs on a list of simple parameters -/
def sgrSimple (a : Attr) (ns : List Nat) : Attr := ns.foldl (fun a n => (sgrOne a n).getD a) a

theorem sgrSimple_append (a : Attr) (l1 l2 : List Nat) : sgrSimple a (l1 ++ l2) = sgrSimple (sgrSimple a l1) l2 := by
  simp [sgrSimple, List.foldl_append]

theorem sgrSimple_nil (a : Attr) : sgrSimple a [] = a := rfl

theorem sgrLoop_simple : ∀ (fuel : Nat) (ns : List Nat) (i : Nat) (a : Attr) (pal : List Rgb),
    (∀ n ∈ ns, SimpleParam n) → ns.length - i ≤ fuel → sgrLoop fuel ns i a pal = (sgrSimple a (ns.drop i), pal) := by
  intro fuel
  induction fuel with
  | zero =>
    intro ns i a pal _ h
    have : ns.drop i = [] := List.drop_eq_nil_of_le (by omega)
    simp [sgrLoop, this, sgrSimple]
  | succ f ih =>
    intro ns i a pal hs h
    unfold sgrLoop
    by_cases hi : i < ns.length
    · rw [List.getElem?_eq_getElem hi]
      have hm : ns[i] ∈ ns := List.getElem_mem hi
      obtain ⟨n38, n48, hsome⟩ := hs _ hm
      simp only [n38, n48, if_false]
      cases ho : sgrOne a ns[i] with
      | none => have := hsome a; rw [ho] at this; cases this
      | some a' =>
        simp only []
        rw [ih ns (i + 1) a' pal hs (by omega), List.drop_eq_getElem_cons hi]
        simp only [sgrSimple, List.foldl_cons, ho, Option.getD_some]
    · have hd : ns.drop i = [] := List.drop_eq_nil_of_le (by omega)
      rw [List.getElem?_eq_none (by omega), hd]; rfl

/-- the reader's `select_graphic_rendition` on a non-empty list of simple parameters -/
theorem sgr_simple (c : Core) (ns : List Nat) (hne : ns ≠ []) (hs : ∀ n ∈ ns, SimpleParam n) :
    sgr c ns = { c with attr := sgrSimple c.attr ns } := by
  unfold sgr
  have : ns.isEmpty = false := by cases ns <;> simp_all
  rw [this]
  simp only [Bool.false_eq_true, if_false]
  rw [sgrLoop_simple ns.length ns 0 c.attr c.pal hs (by omega)]
  simp

theorem sgrOne_fg (a : Attr) (n : Nat) (h1 : 30 ≤ n) (h2 : n ≤ 37) :
    sgrOne a n = some { a with fg := colorOffsets.getD (n - 30) 0 } := by
  unfold sgrOne
  have e : ∀ k, k < 30 → ¬ (n = k) := by intro k hk; omega
  simp only [e 0 (by omega), e 1 (by omega), e 2 (by omega), e 3 (by omega), e 4 (by omega), e 5 (by omega), e 6 (by omega), e 7 (by omega),
    e 8 (by omega), e 9 (by omega), e 21 (by omega), e 22 (by omega), e 23 (by omega), e 24 (by omega), e 25 (by omega), e 28 (by omega),
    e 29 (by omega), if_false, false_or]
  have e2 : ¬ (10 ≤ n ∧ n ≤ 20) := by omega
  simp only [e2, if_false, h1, h2, and_self, if_true]

theorem sgrOne_bg (a : Attr) (n : Nat) (h1 : 40 ≤ n) (h2 : n ≤ 47) :
    sgrOne a n = some { a with bg := colorOffsets.getD (n - 40) 0 } := by
  unfold sgrOne
  have e : ∀ k, k < 40 → ¬ (n = k) := by intro k hk; omega
  simp only [e 0 (by omega), e 1 (by omega), e 2 (by omega), e 3 (by omega), e 4 (by omega), e 5 (by omega), e 6 (by omega), e 7 (by omega),
    e 8 (by omega), e 9 (by omega), e 21 (by omega), e 22 (by omega), e 23 (by omega), e 24 (by omega), e 25 (by omega), e 28 (by omega),
    e 29 (by omega), e 39 (by omega), if_false, false_or]
  have e2 : ¬ (10 ≤ n ∧ n ≤ 20) := by omega
  have e3 : ¬ (30 ≤ n ∧ n ≤ 37) := by omega
  simp only [e2, e3, if_false, h1, h2, and_self, if_true]

/-- `COLOR_OFFSETS` is its own inverse: the writer's `COLOR_OFFSETS[i] + 30` is read back as colour `i` -/
theorem color_offsets_inv : ∀ i < 8, 30 ≤ colorOffsets.getD i 0 + 30 ∧ colorOffsets.getD i 0 + 30 ≤ 37 ∧
    colorOffsets.getD (colorOffsets.getD i 0 + 30 - 30) 0 = i ∧ colorOffsets.getD (colorOffsets.getD i 0 + 40 - 40) 0 = i := by decide

theorem simple_0 : SimpleParam 0 := ⟨by decide, by decide, fun _ => rfl⟩
theorem simple_1 : SimpleParam 1 := ⟨by decide, by decide, fun _ => rfl⟩
theorem simple_2 : SimpleParam 2 := ⟨by decide, by decide, fun _ => rfl⟩
theorem simple_3 : SimpleParam 3 := ⟨by decide, by decide, fun _ => rfl⟩
theorem simple_4 : SimpleParam 4 := ⟨by decide, by decide, fun _ => rfl⟩
theorem simple_5 : SimpleParam 5 := ⟨by decide, by decide, fun _ => rfl⟩
theorem simple_8 : SimpleParam 8 := ⟨by decide, by decide, fun _ => rfl⟩
theorem simple_9 : SimpleParam 9 := ⟨by decide, by decide, fun _ => rfl⟩
theorem simple_21 : SimpleParam 21 := ⟨by decide, by decide, fun _ => rfl⟩
theorem simple_fg (n : Nat) (h1 : 30 ≤ n) (h2 : n ≤ 37) : SimpleParam n :=
  ⟨by omega, by omega, fun a => by rw [sgrOne_fg a n h1 h2]; rfl⟩
theorem simple_bg (n : Nat) (h1 : 40 ≤ n) (h2 : n ≤ 47) : SimpleParam n :=
  ⟨by omega, by omega, fun a => by rw [sgrOne_bg a n h1 h2]; rfl⟩

/-! ### the simulation relation -/

theorem dos_index : ∀ i < 16, dosIndex (getRgb dosPalette i) = some i := by decide
theorem dos_inj : ∀ i < 16, ∀ j < 16, getRgb dosPalette i = getRgb dosPalette j → i = j := by decide

/-- the reader's flags as the writer's state records them (overline is never emitted, invisible never set) -/
def stFlags (st : AnsiState) : Flags :=
  { bold := st.isBold, faint := st.isFaint, italic := st.isItalic, blink := st.isBlink, underline := st.isUnderlined,
    dunderline := st.isDoubleUnderlined, conceal := st.isConcealed, crossed := st.isCrossedOut }

/-- the reader's caret attribute `A` is what the writer's state `st` stands for (16 colours).  `ic` = the reader is in iCE
    mode (a blinking caret attribute prints a bright background); `k` = the blink flag the recorded background colour was
    written under (`st.isBlink` between two cells; inside `get_color` the blink block may run ahead of the colour) -/
structure RelS (ic k : Bool) (st : AnsiState) (A : Attr) : Prop where
  fl : A.fl = stFlags st
  fgl : A.fg < 8
  bgl : A.bg < 8
  idx : st.isBold = false → st.fgIdx = A.fg
  cf : st.fg = getRgb dosPalette (A.fg + if st.isBold then 8 else 0)
  cb : st.bg = getRgb dosPalette (A.bg + if (ic && k) = true then 8 else 0)
  bi : st.bgIdx = A.bg

/-- accumulated fact about the pushed parameters -/
def AllSimple (l : List Nat) : Prop := ∀ n ∈ l, SimpleParam n ∧ n < 1000

theorem allSimple_nil : AllSimple [] := by intro n h; cases h
theorem allSimple_snoc {l : List Nat} {n : Nat} (h : AllSimple l) (hn : SimpleParam n) (hlt : n < 1000) : AllSimple (l ++ [n]) := by
  intro m hm
  rcases List.mem_append.1 hm with h1 | h1
  · exact h m h1
  · simp at h1; subst h1; exact ⟨hn, hlt⟩

/-- the state of the simulation between two blocks of `get_color`: the parameters pushed so far are simple and move the
    reader from `A0` to an attribute related to the state -/
structure GcInv (A0 : Attr) (ic k : Bool) (x : GcAcc) : Prop where
  simple : AllSimple x.2
  rel : RelS ic k x.1 (sgrSimple A0 x.2)

/-- no flag is set in the state that the cell does not want (established by the reset block) -/
structure Mono (t : GcTarget) (st : AnsiState) : Prop where
  bold : st.isBold = true → t.bold = true
  blink : st.isBlink = true → t.blink = true
  faint : st.isFaint = true → t.faint = true
  italic : st.isItalic = true → t.italic = true
  underline : st.isUnderlined = true → t.underline = true
  dunderline : st.isDoubleUnderlined = true → t.dunderline = true
  crossed : st.isCrossedOut = true → t.crossed = true
  conceal : st.isConcealed = true → t.conceal = true

theorem relS_default (ic : Bool) (st : AnsiState) : RelS ic false (stReset st) defaultAttr := by
  refine ⟨rfl, by decide, by decide, fun _ => rfl, ?_, ?_, rfl⟩
  · show dosPalette.getD 7 (0, 0, 0) = getRgb dosPalette (defaultAttr.fg + 0); decide
  · show dosPalette.getD 0 (0, 0, 0) = getRgb dosPalette (defaultAttr.bg + if (ic && false) = true then 8 else 0)
    simp only [Bool.and_false, Bool.false_eq_true, if_false]; decide

theorem gcReset_inv (ic : Bool) (t : GcTarget) (st : AnsiState) (A0 : Attr) (h : RelS ic st.isBlink st A0) :
    GcInv A0 ic (gcReset t st).1.isBlink (gcReset t st) ∧ Mono t (gcReset t st).1 := by
  unfold gcReset
  by_cases hr : gcNeedReset t st = true
  · rw [if_pos hr]
    refine ⟨⟨allSimple_snoc allSimple_nil simple_0 (by omega), ?_⟩, ?_⟩
    · show RelS ic (stReset st).isBlink (stReset st) (sgrSimple A0 [0])
      have : sgrSimple A0 [0] = defaultAttr := rfl
      rw [this]; exact relS_default ic st
    · refine ⟨?_, ?_, ?_, ?_, ?_, ?_, ?_, ?_⟩ <;> intro h' <;> cases h'
  · rw [if_neg hr]
    refine ⟨⟨allSimple_nil, h⟩, ?_⟩
    have hr' : gcNeedReset t st = false := by
      cases hq : gcNeedReset t st with
      | false => rfl
      | true => exact absurd hq hr
    unfold gcNeedReset at hr'
    simp only [Bool.or_eq_false_iff, Bool.and_eq_false_iff, Bool.not_eq_false'] at hr'
    obtain ⟨⟨⟨⟨⟨⟨⟨⟨h1, h2⟩, h3⟩, h4⟩, h5⟩, h6⟩, h7⟩, h8⟩, _⟩ := hr'
    refine ⟨?_, ?_, ?_, ?_, ?_, ?_, ?_, ?_⟩ <;> intro hs
    · rcases h1 with h | h <;> simp_all
    · rcases h2 with h | h <;> simp_all
    · rcases h4 with h | h <;> simp_all
    · rcases h3 with h | h <;> simp_all
    · rcases h5 with h | h <;> simp_all
    · rcases h6 with h | h <;> simp_all
    · rcases h7 with h | h <;> simp_all
    · rcases h8 with h | h <;> simp_all

/-- after the reset block no flag is set that the cell does not want (no assumption on the reader) -/
theorem gcReset_mono (t : GcTarget) (st : AnsiState) : Mono t (gcReset t st).1 := by
  unfold gcReset
  by_cases hr : gcNeedReset t st = true
  · rw [if_pos hr]
    refine ⟨?_, ?_, ?_, ?_, ?_, ?_, ?_, ?_⟩ <;> intro h' <;> cases h'
  · rw [if_neg hr]
    have hr' : gcNeedReset t st = false := by
      cases hq : gcNeedReset t st with
      | false => rfl
      | true => exact absurd hq hr
    unfold gcNeedReset at hr'
    simp only [Bool.or_eq_false_iff, Bool.and_eq_false_iff, Bool.not_eq_false'] at hr'
    obtain ⟨⟨⟨⟨⟨⟨⟨⟨h1, h2⟩, h3⟩, h4⟩, h5⟩, h6⟩, h7⟩, h8⟩, _⟩ := hr'
    refine ⟨?_, ?_, ?_, ?_, ?_, ?_, ?_, ?_⟩ <;> intro hs
    · rcases h1 with h | h <;> simp_all
    · rcases h2 with h | h <;> simp_all
    · rcases h4 with h | h <;> simp_all
    · rcases h3 with h | h <;> simp_all
    · rcases h5 with h | h <;> simp_all
    · rcases h6 with h | h <;> simp_all
    · rcases h7 with h | h <;> simp_all
    · rcases h8 with h | h <;> simp_all

/-! ### the flag blocks -/

/-- a block of the shape `if cond { sgr.push(k); state = upS(state) }` keeps the simulation when the reader's reaction to
    `k` (`upA`) matches `upS` -/
theorem flag_stage (A0 : Attr) (ic kb : Bool) (x : GcAcc) (cond : Bool) (k : Nat) (upS : AnsiState → AnsiState) (upA : Attr → Attr)
    (hk : SimpleParam k) (hk' : k < 1000) (hone : ∀ a, sgrOne a k = some (upA a))
    (hrel : cond = true → RelS ic kb x.1 (sgrSimple A0 x.2) → RelS ic kb (upS x.1) (upA (sgrSimple A0 x.2)))
    (h : GcInv A0 ic kb x) : GcInv A0 ic kb (if cond = true then (upS x.1, x.2 ++ [k]) else x) := by
  by_cases hc : cond = true
  · rw [if_pos hc]
    refine ⟨allSimple_snoc h.simple hk hk', ?_⟩
    show RelS ic kb (upS x.1) (sgrSimple A0 (x.2 ++ [k]))
    rw [sgrSimple_append]
    have : sgrSimple (sgrSimple A0 x.2) [k] = upA (sgrSimple A0 x.2) := by
      simp [sgrSimple, hone]
    rw [this]
    exact hrel hc h.rel
  · rw [if_neg hc]; exact h

theorem gcBold_inv (t : GcTarget) (A0 : Attr) (ic kb : Bool) (x : GcAcc) (h : GcInv A0 ic kb x) : GcInv A0 ic kb (gcBold t x) := by
  unfold gcBold
  refine flag_stage A0 ic kb x (t.bold && !x.1.isBold) 1 (fun st => { st with fgIdx := st.fgIdx + 8, fg := if st.fgIdx + 8 < 16 then dosPalette.getD (st.fgIdx + 8) (0, 0, 0) else st.fg, isBold := true }) (fun a => { a with fl := { a.fl with bold := true } }) simple_1 (by omega)
    (fun _ => rfl) ?_ h
  intro hc R
  have hb : x.1.isBold = false := by
    cases hq : x.1.isBold with
    | false => rfl
    | true => simp [hq] at hc
  obtain ⟨fl, fgl, bgl, idx, cf, cb, bi⟩ := R
  have hi := idx hb
  refine ⟨?_, fgl, bgl, fun h' => (by cases h'), ?_, cb, bi⟩
  · show ({ (sgrSimple A0 x.2).fl with bold := true } : Flags) = _
    rw [fl]; rfl
  · show (if x.1.fgIdx + 8 < 16 then dosPalette.getD (x.1.fgIdx + 8) (0, 0, 0) else x.1.fg) = getRgb dosPalette ((sgrSimple A0 x.2).fg + 8)
    rw [hi, if_pos (by omega)]
    generalize (sgrSimple A0 x.2).fg = f at fgl
    have : ∀ f < 8, dosPalette.getD (f + 8) (0, 0, 0) = getRgb dosPalette (f + 8) := by decide
    exact this f fgl

theorem gcBold_state (t : GcTarget) (x : GcAcc) : (gcBold t x).1.isBold = (x.1.isBold || t.bold) ∧
    (gcBold t x).1.isFaint = x.1.isFaint ∧ (gcBold t x).1.isItalic = x.1.isItalic ∧ (gcBold t x).1.isUnderlined = x.1.isUnderlined ∧
    (gcBold t x).1.isBlink = x.1.isBlink ∧ (gcBold t x).1.isConcealed = x.1.isConcealed ∧ (gcBold t x).1.isCrossedOut = x.1.isCrossedOut ∧
    (gcBold t x).1.isDoubleUnderlined = x.1.isDoubleUnderlined := by
  unfold gcBold
  cases h1 : t.bold <;> cases h2 : x.1.isBold <;> simp [h1, h2]

/-- the six plain flag blocks and (outside iCE mode) the blink block: only the block's own flag moves -/
theorem gcFaint_inv (t : GcTarget) (A0 : Attr) (ic kb : Bool) (x : GcAcc) (h : GcInv A0 ic kb x) : GcInv A0 ic kb (gcFaint t x) := by
  unfold gcFaint
  refine flag_stage A0 ic kb x (t.faint && !x.1.isFaint) 2 (fun st => { st with isFaint := true }) (fun a => { a with fl := { a.fl with faint := true } }) simple_2 (by omega)
    (fun _ => rfl) ?_ h
  intro _ R
  exact ⟨by show ({ (sgrSimple A0 x.2).fl with faint := true } : Flags) = _; rw [R.fl]; rfl, R.fgl, R.bgl, R.idx, R.cf, R.cb, R.bi⟩

theorem gcItalic_inv (t : GcTarget) (A0 : Attr) (ic kb : Bool) (x : GcAcc) (h : GcInv A0 ic kb x) : GcInv A0 ic kb (gcItalic t x) := by
  unfold gcItalic
  refine flag_stage A0 ic kb x (t.italic && !x.1.isItalic) 3 (fun st => { st with isItalic := true }) (fun a => { a with fl := { a.fl with italic := true } }) simple_3 (by omega)
    (fun _ => rfl) ?_ h
  intro _ R
  exact ⟨by show ({ (sgrSimple A0 x.2).fl with italic := true } : Flags) = _; rw [R.fl]; rfl, R.fgl, R.bgl, R.idx, R.cf, R.cb, R.bi⟩

theorem gcUnderline_inv (t : GcTarget) (A0 : Attr) (ic kb : Bool) (x : GcAcc) (h : GcInv A0 ic kb x) : GcInv A0 ic kb (gcUnderline t x) := by
  unfold gcUnderline
  refine flag_stage A0 ic kb x (t.underline && !x.1.isUnderlined) 4 (fun st => { st with isUnderlined := true }) (fun a => { a with fl := { a.fl with underline := true } }) simple_4 (by omega)
    (fun _ => rfl) ?_ h
  intro _ R
  exact ⟨by show ({ (sgrSimple A0 x.2).fl with underline := true } : Flags) = _; rw [R.fl]; rfl, R.fgl, R.bgl, R.idx, R.cf, R.cb, R.bi⟩

theorem gcBlink_inv (t : GcTarget) (A0 : Attr) (ic kb : Bool) (x : GcAcc) (h : GcInv A0 ic kb x) : GcInv A0 ic kb (gcBlink t x) := by
  unfold gcBlink
  refine flag_stage A0 ic kb x (t.blink && !x.1.isBlink) 5 (fun st => { st with isBlink := true }) (fun a => { a with fl := { a.fl with blink := true } }) simple_5 (by omega)
    (fun a => by simp [sgrOne]) ?_ h
  intro _ R
  exact ⟨by show ({ (sgrSimple A0 x.2).fl with blink := true } : Flags) = _; rw [R.fl]; rfl, R.fgl, R.bgl, R.idx, R.cf, R.cb, R.bi⟩

theorem gcConceal_inv (t : GcTarget) (A0 : Attr) (ic kb : Bool) (x : GcAcc) (h : GcInv A0 ic kb x) : GcInv A0 ic kb (gcConceal t x) := by
  unfold gcConceal
  refine flag_stage A0 ic kb x (t.conceal && !x.1.isConcealed) 8 (fun st => { st with isConcealed := true }) (fun a => { a with fl := { a.fl with conceal := true } }) simple_8 (by omega)
    (fun _ => rfl) ?_ h
  intro _ R
  exact ⟨by show ({ (sgrSimple A0 x.2).fl with conceal := true } : Flags) = _; rw [R.fl]; rfl, R.fgl, R.bgl, R.idx, R.cf, R.cb, R.bi⟩

theorem gcCrossed_inv (t : GcTarget) (A0 : Attr) (ic kb : Bool) (x : GcAcc) (h : GcInv A0 ic kb x) : GcInv A0 ic kb (gcCrossed t x) := by
  unfold gcCrossed
  refine flag_stage A0 ic kb x (t.crossed && !x.1.isCrossedOut) 9 (fun st => { st with isCrossedOut := true }) (fun a => { a with fl := { a.fl with crossed := true } }) simple_9 (by omega)
    (fun _ => rfl) ?_ h
  intro _ R
  exact ⟨by show ({ (sgrSimple A0 x.2).fl with crossed := true } : Flags) = _; rw [R.fl]; rfl, R.fgl, R.bgl, R.idx, R.cf, R.cb, R.bi⟩

theorem gcDUnderline_inv (t : GcTarget) (A0 : Attr) (ic kb : Bool) (x : GcAcc) (h : GcInv A0 ic kb x) : GcInv A0 ic kb (gcDUnderline t x) := by
  unfold gcDUnderline
  refine flag_stage A0 ic kb x (t.dunderline && !x.1.isDoubleUnderlined) 21 (fun st => { st with isDoubleUnderlined := true }) (fun a => { a with fl := { a.fl with dunderline := true } }) simple_21 (by omega)
    (fun _ => rfl) ?_ h
  intro _ R
  exact ⟨by show ({ (sgrSimple A0 x.2).fl with dunderline := true } : Flags) = _; rw [R.fl]; rfl, R.fgl, R.bgl, R.idx, R.cf, R.cb, R.bi⟩

/-- the state after all nine flag blocks: every flag is what the cell wants (given `Mono` before the blocks) -/
def afterFlags (t : GcTarget) (x : GcAcc) : GcAcc :=
  gcDUnderline t (gcCrossed t (gcConceal t (gcBlink t (gcUnderline t (gcItalic t (gcFaint t (gcBold t x)))))))

theorem afterFlags_inv (t : GcTarget) (A0 : Attr) (ic kb : Bool) (x : GcAcc) (h : GcInv A0 ic kb x) : GcInv A0 ic kb (afterFlags t x) :=
  gcDUnderline_inv t A0 ic kb _ (gcCrossed_inv t A0 ic kb _ (gcConceal_inv t A0 ic kb _ (gcBlink_inv t A0 ic kb _ (gcUnderline_inv t A0 ic kb _
    (gcItalic_inv t A0 ic kb _ (gcFaint_inv t A0 ic kb _ (gcBold_inv t A0 ic kb _ h)))))))

theorem gcFaint_st (t : GcTarget) (x : GcAcc) : (gcFaint t x).1 = { x.1 with isFaint := x.1.isFaint || t.faint } := by
  unfold gcFaint; cases h1 : t.faint <;> cases h2 : x.1.isFaint <;> simp [h1, h2] <;> (cases x with | mk a b => cases a; simp_all)
theorem gcItalic_st (t : GcTarget) (x : GcAcc) : (gcItalic t x).1 = { x.1 with isItalic := x.1.isItalic || t.italic } := by
  unfold gcItalic; cases h1 : t.italic <;> cases h2 : x.1.isItalic <;> simp [h1, h2] <;> (cases x with | mk a b => cases a; simp_all)
theorem gcUnderline_st (t : GcTarget) (x : GcAcc) : (gcUnderline t x).1 = { x.1 with isUnderlined := x.1.isUnderlined || t.underline } := by
  unfold gcUnderline; cases h1 : t.underline <;> cases h2 : x.1.isUnderlined <;> simp [h1, h2] <;> (cases x with | mk a b => cases a; simp_all)
theorem gcBlink_st (t : GcTarget) (x : GcAcc) : (gcBlink t x).1 = { x.1 with isBlink := x.1.isBlink || t.blink } := by
  unfold gcBlink; cases h1 : t.blink <;> cases h2 : x.1.isBlink <;> simp [h1, h2] <;> (cases x with | mk a b => cases a; simp_all)
theorem gcConceal_st (t : GcTarget) (x : GcAcc) : (gcConceal t x).1 = { x.1 with isConcealed := x.1.isConcealed || t.conceal } := by
  unfold gcConceal; cases h1 : t.conceal <;> cases h2 : x.1.isConcealed <;> simp [h1, h2] <;> (cases x with | mk a b => cases a; simp_all)
theorem gcCrossed_st (t : GcTarget) (x : GcAcc) : (gcCrossed t x).1 = { x.1 with isCrossedOut := x.1.isCrossedOut || t.crossed } := by
  unfold gcCrossed; cases h1 : t.crossed <;> cases h2 : x.1.isCrossedOut <;> simp [h1, h2] <;> (cases x with | mk a b => cases a; simp_all)
theorem gcDUnderline_st (t : GcTarget) (x : GcAcc) :
    (gcDUnderline t x).1 = { x.1 with isDoubleUnderlined := x.1.isDoubleUnderlined || t.dunderline } := by
  unfold gcDUnderline; cases h1 : t.dunderline <;> cases h2 : x.1.isDoubleUnderlined <;> simp [h1, h2] <;>
    (cases x with | mk a b => cases a; simp_all)

theorem afterFlags_flags (t : GcTarget) (x : GcAcc) (hm : Mono t x.1) :
    stFlags (afterFlags t x).1 = ({ bold := t.bold, faint := t.faint, italic := t.italic, blink := t.blink, underline := t.underline, dunderline := t.dunderline, conceal := t.conceal, crossed := t.crossed } : Flags) := by
  obtain ⟨m1, m2, m3, m4, m5, m6, m7, m8⟩ := hm
  obtain ⟨b1, b2, b3, b4, b5, b6, b7, b8⟩ := gcBold_state t x
  unfold afterFlags stFlags
  simp only [gcDUnderline_st, gcCrossed_st, gcConceal_st, gcBlink_st, gcUnderline_st, gcItalic_st, gcFaint_st, b1, b2, b3, b4, b5, b6, b7, b8]
  have e : ∀ (a b : Bool), (a = true → b = true) → (a || b) = b := by intro a b h; cases a <;> cases b <;> simp_all
  rw [e _ _ m1, e _ _ m2, e _ _ m3, e _ _ m4, e _ _ m5, e _ _ m6, e _ _ m7, e _ _ m8]

/-- the colour part of the state is untouched by the blocks after the bold block -/
theorem afterFlags_colours (t : GcTarget) (x : GcAcc) :
    (afterFlags t x).1.fg = (gcBold t x).1.fg ∧ (afterFlags t x).1.bg = (gcBold t x).1.bg ∧
    (afterFlags t x).1.fgIdx = (gcBold t x).1.fgIdx ∧ (afterFlags t x).1.bgIdx = (gcBold t x).1.bgIdx := by
  unfold afterFlags
  simp [gcDUnderline_st, gcCrossed_st, gcConceal_st, gcBlink_st, gcUnderline_st, gcItalic_st, gcFaint_st]

/-! ### the colour blocks (16 DOS colours; blink / unlimited mode: 8 backgrounds, iCE mode: 16 backgrounds) -/

/-- the colour index that is displayed as the foreground: a bold low colour shows as the bright one -/
def dispFg (a : Attr) : Nat := if a.fl.bold && a.fg < 8 then a.fg + 8 else a.fg

/-- the cells the C04 theorems speak about: 16 foreground colours, 8 background colours (16 in iCE mode, where cells do
    not blink), any of the attributes the writer emits -/
def Attr16 (ic : Bool) (a : Attr) : Prop :=
  a.fg < 16 ∧ (if ic = true then a.bg < 16 ∧ a.fl.blink = false else a.bg < 8) ∧ a.fl.overline = false ∧ a.fl.invisible = false

/-- in iCE mode a bright background is written as blink + the dark colour -/
def brightBg (ic : Bool) (a : Attr) : Bool := ic && decide (8 ≤ a.bg)

/-- what `gcTarget` is on the DOS palette -/
def dosTarget (ic : Bool) (attr : Attr) : GcTarget :=
  { curFore := getRgb dosPalette (dispFg attr), curBack := getRgb dosPalette attr.bg, fgc := dispFg attr, bgc := attr.bg,
    foreIdx := some (if dispFg attr < 8 then dispFg attr else dispFg attr - 8),
    backIdx := some (attr.bg - if brightBg ic attr = true then 8 else 0),
    bold := decide (8 ≤ dispFg attr), blink := if ic = true then decide (8 ≤ attr.bg) else attr.fl.blink,
    faint := attr.fl.faint, italic := attr.fl.italic,
    underline := attr.fl.underline, dunderline := attr.fl.dunderline, crossed := attr.fl.crossed, conceal := attr.fl.conceal }

theorem gcTarget_dos (im : IceMode) (attr : Attr) (ha : Attr16 (decide (im = .ice)) attr) :
    gcTarget dosPalette im attr = dosTarget (decide (im = .ice)) attr := by
  obtain ⟨hfg, hbg, _, _⟩ := ha
  have hd : dispFg attr < 16 := by unfold dispFg; split <;> simp_all <;> omega
  have e0 : (if (attr.fl.bold && decide (attr.fg < 8)) = true then attr.fg + 8 else attr.fg) = dispFg attr := rfl
  cases im with
  | ice =>
    simp only [decide_true, if_true] at hbg
    obtain ⟨hb16, hbl⟩ := hbg
    have e1 := dos_index _ hd
    have e2 := dos_index attr.bg hb16
    unfold gcTarget dosTarget brightBg
    simp only [e0, e1, e2, decide_true, Bool.true_and, if_true, hbl]
    by_cases h8 : dispFg attr < 8
    · by_cases b8 : 8 ≤ attr.bg
      · have nb : ¬ attr.bg < 8 := by omega
        simp [h8, b8, nb] <;> omega
      · have nb : attr.bg < 8 := by omega
        simp [h8, b8, nb] <;> omega
    · by_cases b8 : 8 ≤ attr.bg
      · have nb : ¬ attr.bg < 8 := by omega
        simp [h8, b8, nb] <;> omega
      · have nb : attr.bg < 8 := by omega
        simp [h8, b8, nb] <;> omega
  | blink =>
    have hb8 : attr.bg < 8 := by simpa using hbg
    have e1 := dos_index _ hd
    have e2 := dos_index attr.bg (by omega)
    have hb7 : ¬ (7 < attr.bg) := by omega
    unfold gcTarget dosTarget brightBg
    simp only [e0, e1, e2]
    by_cases h8 : dispFg attr < 8 <;> simp [h8, hb7] <;> omega
  | unlimited =>
    have hb8 : attr.bg < 8 := by simpa using hbg
    have e1 := dos_index _ hd
    have e2 := dos_index attr.bg (by omega)
    have hb7 : ¬ (7 < attr.bg) := by omega
    unfold gcTarget dosTarget brightBg
    simp only [e0, e1, e2]
    by_cases h8 : dispFg attr < 8 <;> simp [h8, hb7] <;> omega

/-- the foreground block -/
theorem gcFg_inv (o : AnsiOpts) (t : GcTarget) (A0 : Attr) (ic kb : Bool) (x : GcAcc) (fgc : Nat) (hf : fgc < 16)
    (ht1 : t.curFore = getRgb dosPalette fgc) (ht2 : t.fgc = fgc) (ht3 : t.foreIdx = some (if fgc < 8 then fgc else fgc - 8))
    (ht4 : t.bold = decide (8 ≤ fgc)) (hb : x.1.isBold = decide (8 ≤ fgc)) (h : GcInv A0 ic kb x) :
    (gcFg o t x).2.2 = [] ∧ GcInv A0 ic kb ((gcFg o t x).1, (gcFg o t x).2.1) ∧
    (sgrSimple A0 (gcFg o t x).2.1).fg + (if 8 ≤ fgc then 8 else 0) = fgc ∧
    stFlags (gcFg o t x).1 = stFlags x.1 := by
  obtain ⟨hs, ⟨fl, fgl, bgl, idx, cf, cb, bi⟩⟩ := h
  unfold gcFg
  by_cases hne : (t.curFore != x.1.fg) = true
  · rw [if_pos hne, ht3]
    simp only []
    have hi : (if fgc < 8 then fgc else fgc - 8) < 8 := by split <;> omega
    obtain ⟨c1, c2, c3, _⟩ := color_offsets_inv _ hi
    have hsimple := simple_fg _ c1 c2
    refine ⟨by simp, ⟨allSimple_snoc hs hsimple (by omega), ?_⟩, ?_, rfl⟩
    · show RelS ic kb _ (sgrSimple A0 (x.2 ++ [_]))
      rw [sgrSimple_append]
      have e : sgrSimple (sgrSimple A0 x.2) [colorOffsets.getD (if fgc < 8 then fgc else fgc - 8) 0 + 30] =
          { sgrSimple A0 x.2 with fg := if fgc < 8 then fgc else fgc - 8 } := by
        simp only [sgrSimple, List.foldl_cons, List.foldl_nil, sgrOne_fg _ _ c1 c2, Option.getD_some, c3]
      rw [e]
      refine ⟨fl, hi, bgl, ?_, ?_, cb, bi⟩
      · intro hb'
        show (if fgc < 8 then fgc else fgc - 8) + (if t.bold = true then 8 else 0) = _
        have h8 : ¬ (8 ≤ fgc) := by
          intro h8; rw [hb] at hb'; simp [h8] at hb'
        have htb : t.bold = false := by rw [ht4]; simp [h8]
        rw [htb]; simp
      · show t.curFore = getRgb dosPalette ((if fgc < 8 then fgc else fgc - 8) + if x.1.isBold = true then 8 else 0)
        rw [ht1, hb]
        by_cases h8 : 8 ≤ fgc
        · have : ¬ fgc < 8 := by omega
          simp only [h8, decide_true, if_true, this, if_false]
          congr 1; omega
        · have : fgc < 8 := by omega
          simp [h8, this]
    · show (sgrSimple A0 (x.2 ++ [_])).fg + _ = fgc
      rw [sgrSimple_append]
      simp only [sgrSimple, List.foldl_cons, List.foldl_nil, sgrOne_fg _ _ c1 c2, Option.getD_some, c3]
      by_cases h8 : 8 ≤ fgc
      · have : ¬ fgc < 8 := by omega
        simp only [h8, if_true, this, if_false]; omega
      · have : fgc < 8 := by omega
        simp [h8, this]
  · rw [if_neg hne]
    have heq : t.curFore = x.1.fg := by
      cases hq : (t.curFore != x.1.fg) with
      | true => exact absurd hq hne
      | false => simpa using hq
    refine ⟨rfl, ⟨hs, ⟨fl, fgl, bgl, idx, cf, cb, bi⟩⟩, ?_, rfl⟩
    -- the colour already in force is the cell's: the indices agree because the DOS colours are pairwise different
    rw [ht1, cf, hb] at heq
    by_cases h8 : 8 ≤ fgc
    · simp only [h8, decide_true, if_true] at heq ⊢
      have := dos_inj fgc hf ((sgrSimple A0 x.2).fg + 8) (by omega) heq
      omega
    · simp only [h8, decide_false, if_false, Bool.false_eq_true] at heq ⊢
      have := dos_inj fgc hf ((sgrSimple A0 x.2).fg + 0) (by omega) heq
      omega

/-- the background block.  `br` = the background is a bright colour written as blink + dark colour (iCE mode only); the
    blink block has already run, so the state's blink flag is `br` in iCE mode, while the recorded background colour may
    still be the one written under the old flag `kb` -/
theorem gcBg_inv (o : AnsiOpts) (t : GcTarget) (A0 : Attr) (ic kb : Bool) (y : AnsiState × List Nat × List Nat) (bg : Nat)
    (br : Bool) (hbr : br = (ic && decide (8 ≤ bg))) (hbg : bg < 16) (hbg8 : ic = false → bg < 8)
    (ht1 : t.curBack = getRgb dosPalette bg) (ht3 : t.backIdx = some (bg - if br = true then 8 else 0)) (hy : y.2.2 = [])
    (hblink : ic = true → y.1.isBlink = br) (hmono : (ic && kb) = true → br = true)
    (h : GcInv A0 ic kb (y.1, y.2.1)) :
    (gcBg o t y).2.2 = [] ∧ GcInv A0 ic (gcBg o t y).1.isBlink ((gcBg o t y).1, (gcBg o t y).2.1) ∧
    (sgrSimple A0 (gcBg o t y).2.1).bg + (if br = true then 8 else 0) = bg ∧
    (sgrSimple A0 (gcBg o t y).2.1).fg = (sgrSimple A0 y.2.1).fg ∧
    stFlags (gcBg o t y).1 = stFlags y.1 := by
  obtain ⟨hs, ⟨fl, fgl, bgl, idx, cf, cb, bi⟩⟩ := h
  have bgl : (sgrSimple A0 y.2.1).bg < 8 := bgl
  have cb : y.1.bg = getRgb dosPalette ((sgrSimple A0 y.2.1).bg + if (ic && kb) = true then 8 else 0) := cb
  -- the low colour index that is written
  have hlow : bg - (if br = true then 8 else 0) < 8 := by
    cases hic : ic with
    | false => have := hbg8 hic; rw [hbr, hic]; simp; omega
    | true =>
      rw [hbr, hic]
      by_cases h8 : 8 ≤ bg <;> simp [h8] <;> omega
  have hsum : bg - (if br = true then 8 else 0) + (if br = true then 8 else 0) = bg := by
    cases hic : ic with
    | false => rw [hbr, hic]; simp
    | true =>
      rw [hbr, hic]
      by_cases h8 : 8 ≤ bg <;> simp [h8] <;> omega
  unfold gcBg
  by_cases hne : (t.curBack != y.1.bg) = true
  · rw [if_pos hne, ht3]
    simp only []
    obtain ⟨_, _, _, c4⟩ := color_offsets_inv _ hlow
    have c1 : 40 ≤ colorOffsets.getD (bg - if br = true then 8 else 0) 0 + 40 := by omega
    have c2 : colorOffsets.getD (bg - if br = true then 8 else 0) 0 + 40 ≤ 47 := by
      have : ∀ i < 8, colorOffsets.getD i 0 + 40 ≤ 47 := by decide
      exact this _ hlow
    have hsimple := simple_bg _ c1 c2
    have e : sgrSimple (sgrSimple A0 y.2.1) [colorOffsets.getD (bg - if br = true then 8 else 0) 0 + 40] =
        { sgrSimple A0 y.2.1 with bg := bg - if br = true then 8 else 0 } := by
      simp only [sgrSimple, List.foldl_cons, List.foldl_nil, sgrOne_bg _ _ c1 c2, Option.getD_some, c4]
    refine ⟨hy, ⟨allSimple_snoc hs hsimple (by omega), ?_⟩, ?_, ?_, rfl⟩
    · show RelS ic y.1.isBlink _ (sgrSimple A0 (y.2.1 ++ [_]))
      rw [sgrSimple_append, e]
      refine ⟨fl, fgl, hlow, idx, cf, ?_, rfl⟩
      show t.curBack = getRgb dosPalette ((bg - if br = true then 8 else 0) + if (ic && y.1.isBlink) = true then 8 else 0)
      rw [ht1]
      cases hic : ic with
      | false =>
        have : br = false := by rw [hbr, hic]; rfl
        simp [this]
      | true =>
        rw [hblink hic]
        simp only [Bool.true_and]
        rw [hsum]
    · show (sgrSimple A0 (y.2.1 ++ [_])).bg + _ = bg
      rw [sgrSimple_append, e]; exact hsum
    · show (sgrSimple A0 (y.2.1 ++ [_])).fg = _
      rw [sgrSimple_append, e]
  · rw [if_neg hne]
    have heq : t.curBack = y.1.bg := by
      cases hq : (t.curBack != y.1.bg) with
      | true => exact absurd hq hne
      | false => simpa using hq
    rw [ht1, cb] at heq
    have hidx := dos_inj bg hbg _ (by split <;> omega) heq
    -- the old flag the colour was recorded under is the new one
    have hk : (ic && kb) = br := by
      cases hic : ic with
      | false => rw [hbr, hic]; rfl
      | true =>
        rw [hic] at hidx hmono
        simp only [Bool.true_and] at hidx hmono ⊢
        cases hkb : kb with
        | true => exact (hmono hkb).symm
        | false =>
          rw [hkb] at hidx
          simp only [Bool.false_eq_true, if_false, Nat.add_zero] at hidx
          rw [hbr, hic]
          have : ¬ (8 ≤ bg) := by omega
          simp [this]
    have hk' : (ic && y.1.isBlink) = br := by
      cases hic : ic with
      | false => rw [hbr, hic]; rfl
      | true => rw [hblink hic]; rfl
    refine ⟨hy, ⟨hs, ⟨fl, fgl, bgl, idx, cf, ?_, bi⟩⟩, ?_, rfl, rfl⟩
    · show y.1.bg = getRgb dosPalette ((sgrSimple A0 y.2.1).bg + if (ic && y.1.isBlink) = true then 8 else 0)
      rw [cb, hk, hk']
    · rw [hk] at hidx; omega

/-- the reader's caret attribute for a cell: low colour + bold flag for a bright foreground; in iCE mode low colour +
    blink flag for a bright background -/
def caretAttr (ic : Bool) (a : Attr) : Attr :=
  ⟨if dispFg a < 8 then dispFg a else dispFg a - 8, a.bg - (if brightBg ic a = true then 8 else 0),
   { a.fl with bold := decide (8 ≤ dispFg a), blink := if ic = true then decide (8 ≤ a.bg) else a.fl.blink }⟩

/-- the attribute the reader prints a cell with (`Caret::get_attribute`: in iCE mode blink becomes the bright
    background): low colour + bold flag for a bright foreground, the cell's own background -/
def printedAttr (a : Attr) : Attr :=
  ⟨if dispFg a < 8 then dispFg a else dispFg a - 8, a.bg, { a.fl with bold := decide (8 ≤ dispFg a) }⟩

/-- **sgr_sync**: after the parameters `get_color` emits for a cell, the reader's attribute is the cell's rendition and
    is again in step with the writer's state; no 24-bit colour command is needed. -/
theorem sgr_sync (o : AnsiOpts) (im : IceMode) (attr : Attr) (ha : Attr16 (decide (im = .ice)) attr) (st : AnsiState) (A0 : Attr)
    (h : RelS (decide (im = .ice)) st.isBlink st A0) :
    (getColor o dosPalette im attr st).2.2 = [] ∧ AllSimple (getColor o dosPalette im attr st).2.1 ∧
    RelS (decide (im = .ice)) (getColor o dosPalette im attr st).1.isBlink (getColor o dosPalette im attr st).1
      (sgrSimple A0 (getColor o dosPalette im attr st).2.1) ∧
    sgrSimple A0 (getColor o dosPalette im attr st).2.1 = caretAttr (decide (im = .ice)) attr := by
  generalize hic : decide (im = IceMode.ice) = ic at ha h ⊢
  have ha' := ha
  obtain ⟨hfg, hbg, hov, hinv⟩ := ha
  have hd : dispFg attr < 16 := by unfold dispFg; split <;> simp_all <;> omega
  have hbg16 : attr.bg < 16 := by cases ic <;> simp at hbg <;> omega
  have hbg8 : ic = false → attr.bg < 8 := by intro e; rw [e] at hbg; simpa using hbg
  unfold getColor
  simp only []
  rw [gcTarget_dos im attr (by rw [hic]; exact ha'), hic]
  generalize ht : dosTarget ic attr = t
  have t1 : t.curFore = getRgb dosPalette (dispFg attr) := by rw [← ht]; rfl
  have t2 : t.fgc = dispFg attr := by rw [← ht]; rfl
  have t3 : t.foreIdx = some (if dispFg attr < 8 then dispFg attr else dispFg attr - 8) := by rw [← ht]; rfl
  have t4 : t.curBack = getRgb dosPalette attr.bg := by rw [← ht]; rfl
  have t5 : t.backIdx = some (attr.bg - if brightBg ic attr = true then 8 else 0) := by rw [← ht]; rfl
  have t6 : t.bold = decide (8 ≤ dispFg attr) := by rw [← ht]; rfl
  have t7 : t.blink = if ic = true then decide (8 ≤ attr.bg) else attr.fl.blink := by rw [← ht]; rfl
  obtain ⟨I0, M0⟩ := gcReset_inv ic t st A0 h
  have I1 := afterFlags_inv t A0 ic _ _ I0
  have F1 := afterFlags_flags t _ M0
  have hbold : (afterFlags t (gcReset t st)).1.isBold = decide (8 ≤ dispFg attr) := by
    have := congrArg Flags.bold F1
    simp only [stFlags] at this
    rw [this, t6]
  have hblinkF : (afterFlags t (gcReset t st)).1.isBlink = t.blink := by
    have := congrArg Flags.blink F1
    simpa only [stFlags] using this
  show (gcBg o t (gcFg o t (afterFlags t (gcReset t st)))).2.2 = [] ∧ _
  obtain ⟨G1, G2, G3, G4⟩ := gcFg_inv o t A0 ic _ (afterFlags t (gcReset t st)) (dispFg attr) hd t1 t2 t3 t6 hbold I1
  have hG4b : (gcFg o t (afterFlags t (gcReset t st))).1.isBlink = t.blink := by
    have := congrArg Flags.blink G4
    simp only [stFlags] at this
    rw [this, hblinkF]
  obtain ⟨B1, B2, B3, B4, B5⟩ := gcBg_inv o t A0 ic _ (gcFg o t (afterFlags t (gcReset t st))) attr.bg (brightBg ic attr) rfl
    hbg16 hbg8 t4 t5 G1
    (by intro e; rw [hG4b, t7, e]; simp [brightBg, e])
    (by
      intro hk
      have hk2 : (gcReset t st).1.isBlink = true := by
        cases hq : (gcReset t st).1.isBlink with
        | true => rfl
        | false => rw [hq] at hk; simp at hk
      have hic' : ic = true := by cases hq : ic with
        | true => rfl
        | false => rw [hq] at hk; simp at hk
      have := M0.blink hk2
      rw [t7, hic'] at this
      simp only [if_true] at this
      simp [brightBg, hic', this])
    G2
  refine ⟨B1, B2.simple, B2.rel, ?_⟩
  -- the reader's attribute, component by component
  have hfl : (sgrSimple A0 (gcBg o t (gcFg o t (afterFlags t (gcReset t st)))).2.1).fl =
      { attr.fl with bold := decide (8 ≤ dispFg attr), blink := if ic = true then decide (8 ≤ attr.bg) else attr.fl.blink } := by
    rw [B2.rel.fl, B5, G4, F1, ← ht]
    unfold dosTarget
    simp only []
    cases hq : attr.fl with
    | mk b f i k u d c x ov inv =>
      rw [hq] at hov hinv
      simp only at hov hinv
      subst hov; subst hinv
      rfl
  have hfgv : (sgrSimple A0 (gcBg o t (gcFg o t (afterFlags t (gcReset t st)))).2.1).fg =
      if dispFg attr < 8 then dispFg attr else dispFg attr - 8 := by
    rw [B4]
    by_cases h8 : 8 ≤ dispFg attr
    · rw [if_pos h8] at G3
      have : ¬ dispFg attr < 8 := by omega
      rw [if_neg this]; omega
    · rw [if_neg h8] at G3
      have : dispFg attr < 8 := by omega
      rw [if_pos this]; omega
  have hbgv : (sgrSimple A0 (gcBg o t (gcFg o t (afterFlags t (gcReset t st)))).2.1).bg =
      attr.bg - (if brightBg ic attr = true then 8 else 0) := by omega
  have attr_ext : ∀ a b : Attr, a.fg = b.fg → a.bg = b.bg → a.fl = b.fl → a = b := by
    intro a b h1 h2 h3; cases a; cases b; simp_all
  exact attr_ext _ (caretAttr ic attr) hfgv hbgv hfl

/-- `Caret::get_attribute` on the caret attribute of a cell is the cell's printed attribute -/
theorem printAttr_caret (ic : Bool) (a : Attr) (ha : Attr16 ic a) (c : Core) (hice : c.caretIce = ic) (hat : c.attr = caretAttr ic a) :
    c.printAttr = printedAttr a := by
  obtain ⟨_, hbg, _, _⟩ := ha
  unfold Core.printAttr
  rw [hice, hat]
  cases ic with
  | false =>
    simp only [Bool.false_eq_true, if_false]
    unfold caretAttr printedAttr brightBg
    simp
  | true =>
    simp only [if_true] at hbg ⊢
    obtain ⟨hb16, hbl⟩ := hbg
    unfold caretAttr printedAttr brightBg
    simp only [Bool.true_and, if_true]
    by_cases h8 : 8 ≤ a.bg
    · have e1 : a.bg - 8 < 8 := by omega
      have e2 : a.bg - 8 + 8 = a.bg := by omega
      simp [h8, e1, e2, hbl]
    · have e1 : a.bg < 8 := by omega
      simp [h8, e1, hbl]

/-- the printed attribute is determined by the caret attribute -/
theorem printed_eq_of_caret_eq (ic : Bool) (a b : Attr) (ha : Attr16 ic a) (hb : Attr16 ic b)
    (h : caretAttr ic a = caretAttr ic b) : printedAttr a = printedAttr b := by
  obtain ⟨_, hab, _, _⟩ := ha
  obtain ⟨_, hbb, _, _⟩ := hb
  have h1 := congrArg Attr.fg h
  have h2 := congrArg Attr.bg h
  have h3 := congrArg Attr.fl h
  simp only [caretAttr] at h1 h2 h3
  have attr_ext : ∀ x y : Attr, x.fg = y.fg → x.bg = y.bg → x.fl = y.fl → x = y := by
    intro x y q1 q2 q3; cases x; cases y; simp_all
  cases ic with
  | false =>
    simp only [brightBg, Bool.false_and, Bool.false_eq_true, if_false, Nat.sub_zero] at h2 h3
    apply attr_ext
    · exact h1
    · exact h2
    · show ({ a.fl with bold := decide (8 ≤ dispFg a) } : Flags) = { b.fl with bold := decide (8 ≤ dispFg b) }
      cases hfa : a.fl; cases hfb : b.fl
      rw [hfa, hfb] at h3
      simp only [Flags.mk.injEq] at h3 ⊢
      obtain ⟨q1, q2, q3, q4, q5, q6, q7, q8, q9, q10⟩ := h3
      exact ⟨q1, q2, q3, q4, q5, q6, q7, q8, q9, q10⟩
  | true =>
    simp only [if_true] at hab hbb
    simp only [brightBg, Bool.true_and, if_true] at h2 h3
    have hk : decide (8 ≤ a.bg) = decide (8 ≤ b.bg) := by
      cases hfa : a.fl; cases hfb : b.fl
      rw [hfa, hfb] at h3
      simp only [Flags.mk.injEq] at h3
      exact h3.2.2.2.1
    have hbgeq : a.bg = b.bg := by
      by_cases h8 : 8 ≤ a.bg
      · have h8b : 8 ≤ b.bg := by simpa [h8] using hk.symm
        simp only [h8, h8b, decide_true, if_true] at h2; omega
      · have h8b : ¬ 8 ≤ b.bg := by
          intro q; simp [h8, q] at hk
        simp only [h8, h8b, decide_false, Bool.false_eq_true, if_false, Nat.sub_zero] at h2; exact h2
    apply attr_ext
    · exact h1
    · exact hbgeq
    · show ({ a.fl with bold := decide (8 ≤ dispFg a) } : Flags) = { b.fl with bold := decide (8 ≤ dispFg b) }
      have hba := hab.2
      have hbb' := hbb.2
      cases hfa : a.fl; cases hfb : b.fl
      rw [hfa] at hba; rw [hfb] at hbb'
      rw [hfa, hfb] at h3
      simp only [Flags.mk.injEq] at h3 ⊢
      simp only at hba hbb'
      obtain ⟨q1, q2, q3, _, q5, q6, q7, q8, q9, q10⟩ := h3
      exact ⟨q1, q2, q3, by rw [hba, hbb'], q5, q6, q7, q8, q9, q10⟩

/-- a caret attribute on colour 0 without blink means the cell itself is on colour 0 and does not blink -/
theorem skip_of_caret (ic : Bool) (a : Attr) (ha : Attr16 ic a) (h1 : (caretAttr ic a).bg = 0)
    (h2 : (caretAttr ic a).fl.blink = false) : (printedAttr a).bg = 0 ∧ (printedAttr a).fl.blink = false := by
  obtain ⟨_, hab, _, _⟩ := ha
  simp only [caretAttr] at h1 h2
  cases ic with
  | false =>
    simp only [brightBg, Bool.false_and, Bool.false_eq_true, if_false, Nat.sub_zero] at h1 h2
    exact ⟨h1, h2⟩
  | true =>
    simp only [if_true] at hab h2
    simp only [brightBg, Bool.true_and] at h1
    have h8 : ¬ 8 ≤ a.bg := by intro q; simp [q] at h2
    simp only [h8, decide_false, Bool.false_eq_true, if_false, Nat.sub_zero] at h1
    exact ⟨h1, hab.2⟩

end IcyVerif.ArtIO
