import IcyVerif.Lemmas.FontBox
set_option linter.unusedSimpArgs false
set_option linter.unusedVariables false
/-!
# C17: ADF and IDF font round trips for EVERY font name (the font part of C05's `adf_roundtrip` / `idf_roundtrip`, re-proved
from C05's loader lemmas `adf_load` / `idf_load` under `boxOk`, i.e. without `fontOk`'s clause about names)
-/
namespace IcyVerif.FontBox
open IcyVerif.Font IcyVerif.BinFormats IcyVerif.XbCompress IcyVerif.Gen

theorem boxOk_parts (f : Fmt) (p : Pic) (h : boxOk f p = true) :
    metaOk p.sauce = true ∧ wellFormed p = true ∧ p.ice = .ice ∧ allCells p (attrCell true) = true ∧ pal16 p.pal = true ∧
    analyzeFontUsage p.rows.flatten = [0] ∧
    (∃ f0, lookupFont p.fonts 0 = some f0 ∧ f0.height = 16 ∧ f0.data.length = 4096) ∧
    (match f with
     | .adf => p.w = 80 ∧ p.h ≤ 65535
     | .idf => 1 ≤ p.w ∧ p.w ≤ 80 ∧ p.h ≤ 200
     | _ => False) := by
  unfold boxOk at h
  simp only [Bool.and_eq_true, beq_iff_eq] at h
  obtain ⟨⟨⟨⟨⟨⟨⟨h0, h1⟩, h2⟩, h3⟩, h4⟩, h5⟩, h6⟩, h7⟩ := h
  refine ⟨h0, h1, h2, h3, h4, h5, ?_, ?_⟩
  · cases hl : lookupFont p.fonts 0 with
    | none => rw [hl] at h6; cases h6
    | some f0 =>
      rw [hl] at h6
      simp only [Bool.and_eq_true, beq_iff_eq] at h6
      exact ⟨f0, rfl, h6.1, h6.2⟩
  · cases f <;> simp_all

/-- ADF: the writer accepts every `boxOk` picture and the loader installs exactly the embedded font block -/
theorem adf_font_roundtrip (o : Opts) (date : List Nat) (p : Pic) (hok : boxOk .adf p = true) (hdate : dateOk date = true) :
    ∃ bytes f0, lookupFont p.fonts 0 = some f0 ∧ save .adf o date p = .ok bytes ∧
      ((o.sauce = true ∨ looksLikeSauce bytes = false) → ∃ g, fromBytes .adf bytes = .ok g ∧ g.fonts = [(0, mkFont 16 f0.data)]) := by
  obtain ⟨hmeta, hwf, hice, hcells, hpal, hpages, ⟨f0, hf, hf16, hfd⟩, hdim⟩ := boxOk_parts .adf p hok
  obtain ⟨hw, hh⟩ : p.w = 80 ∧ p.h ≤ 65535 := hdim
  obtain ⟨hne, hrows, hwid⟩ := rows_nonempty p hwf
  have hpl : p.pal.length = 16 := by
    unfold pal16 at hpal; simp only [Bool.and_eq_true, beq_iff_eq] at hpal; exact hpal.1
  let cellBytes := p.rows.flatMap (fun row => row.flatMap fun c => [c.ch, asU8 .ice c.attr])
  let body := [BinFmt.adfVersion] ++ toEgaData p.pal ++ f0.data ++ cellBytes
  have hbody : body = BinFmt.adfVersion :: (toEgaData p.pal ++ (f0.data ++ cellBytes)) := by
    simp [body, List.append_assoc]
  have hsave0 : adfSave o.sauce date p = if o.sauce then writeSauce .ansi p date body else .ok body := by
    unfold adfSave
    have h1 : (p.ice != IceMode.ice) = false := by rw [hice]; rfl
    have h2 : ¬ (p.w ≠ BinFmt.adfWidth) := by rw [hw]; decide
    have h3 : ¬ (p.pal.length ≠ 16) := by rw [hpl]; decide
    have h4 : ¬ ((analyzeFontUsage p.rows.flatten).length > 1) := by rw [hpages]; decide
    have h5 : ¬ (f0.height ≠ 16) := by rw [hf16]; decide
    have h6 : (analyzeFontUsage p.rows.flatten).headD 0 = 0 := by rw [hpages]; rfl
    have h7 : (!rowsFit8 p.rows) = false := by
      have := fits8_of_cells p true hcells
      simp [rowsFit8, this]
    simp only [h1, Bool.false_eq_true, if_false, h2, h3, h4, hf, h5, h6, h7]
    rfl
  cases hsa : o.sauce with
  | true =>
    obtain ⟨bytes, hw1, _, hfb⟩ := fromBytes_sauced .adf .ansi p date body f0 hf hmeta (fun h => by cases h) hdate
    obtain ⟨c1, _, _⟩ := carry_ansi p f0.name (bytes.length - body.length) (by omega) (by omega)
    generalize Sauce.carry SauceKind.ansi.idx (bufInfo p f0.name) (bytes.length - body.length) = sc at hfb c1
    refine ⟨bytes, f0, hf, ?_, fun _ => ⟨adfLoaded p f0 (some (metaOf sc)), ?_, rfl⟩⟩
    · show adfSave o.sauce date p = _
      rw [hsave0, hsa]; exact hw1
    · rw [hfb]
      show adfLoad body _ = _
      rw [hbody]
      exact adf_load p f0 _ (fun s' hs' => by cases hs'; rw [c1, hw]) hwf hw hcells hpal hpages hfd
  | false =>
    refine ⟨body, f0, hf, ?_, fun hor => ?_⟩
    · show adfSave o.sauce date p = _
      rw [hsave0, hsa]; rfl
    · have hl : looksLikeSauce body = false := by
        rcases hor with h | h
        · exact absurd h (by simp)
        · exact h
      refine ⟨adfLoaded p f0 none, ?_, rfl⟩
      rw [fromBytes_plain .adf body hl]
      show adfLoad body none = _
      rw [hbody]
      exact adf_load p f0 none (fun s' hs' => by cases hs') hwf hw hcells hpal hpages hfd

/-- IDF (raw and run-length coded): the same -/
theorem idf_font_roundtrip (o : Opts) (date : List Nat) (p : Pic) (hok : boxOk .idf p = true) (hdate : dateOk date = true) :
    ∃ bytes f0, lookupFont p.fonts 0 = some f0 ∧ save .idf o date p = .ok bytes ∧
      ((o.sauce = true ∨ looksLikeSauce bytes = false) → ∃ g, fromBytes .idf bytes = .ok g ∧ g.fonts = [(0, mkFont 16 f0.data)]) := by
  obtain ⟨hmeta, hwf, hice, hcells, hpal, hpages, ⟨f0, hf, hf16, hfd⟩, hdim⟩ := boxOk_parts .idf p hok
  obtain ⟨hw1, hw2, hh⟩ : 1 ≤ p.w ∧ p.w ≤ 80 ∧ p.h ≤ 200 := hdim
  obtain ⟨hne, hrows, hwid⟩ := rows_nonempty p hwf
  have hpl : p.pal.length = 16 := by
    unfold pal16 at hpal; simp only [Bool.and_eq_true, beq_iff_eq] at hpal; exact hpal.1
  have hch : ∀ r ∈ p.rows, ∀ c ∈ r, c.ch ≤ 255 := by
    intro r hr c hc
    unfold allCells at hcells
    exact (attrCell_ice c (List.all_eq_true.mp (List.all_eq_true.mp hcells r hr) c hc)).1
  obtain ⟨img, himg⟩ := idfRows_some o.compress p.rows hch
  let body := 4 :: 49 :: 46 :: 52 :: 0 :: 0 :: 0 :: 0 :: ((p.w - 1) % 256) :: (((p.w - 1) / 256) % 256) :: ((p.h - 1) % 256) ::
      (((p.h - 1) / 256) % 256) :: (img ++ (f0.data ++ asVec63 p.pal))
  have hsave0 : idfSave o.compress o.sauce date p = if o.sauce then writeSauce .bin p date body else .ok body := by
    unfold idfSave
    have h1 : (p.ice != IceMode.ice) = false := by rw [hice]; rfl
    have h2 : ¬ (p.h > BinFmt.idfMaxHeight) := by have : BinFmt.idfMaxHeight = 200 := rfl; omega
    have h3 : ¬ (p.pal.length ≠ 16) := by rw [hpl]; decide
    have h4 : ¬ ((analyzeFontUsage p.rows.flatten).length > 1) := by rw [hpages]; decide
    have h5 : ¬ (f0.height ≠ 16) := by rw [hf16]; decide
    have h6 : (analyzeFontUsage p.rows.flatten).headD 0 = 0 := by rw [hpages]; rfl
    simp only [h1, Bool.false_eq_true, if_false, h2, h3, h4, himg, hf, h5, h6]
    have hb : BinFmt.idfHeader14 ++ [0, 0, 0, 0] ++ u16le (p.w - 1) ++ u16le (p.h - 1) ++ img ++ f0.data ++ asVec63 p.pal = body := by
      simp [body, BinFmt.idfHeader14, u16le, List.append_assoc]
    rw [hb]
  have hload := idf_load p f0 img o.compress hwf hw1 hw2 hh hcells hpal hpages hfd himg
  cases hsa : o.sauce with
  | true =>
    obtain ⟨bytes, hw, _, hfb⟩ := fromBytes_sauced .idf .bin p date body f0 hf hmeta (fun _ => by omega) hdate
    generalize Sauce.carry SauceKind.bin.idx (bufInfo p f0.name) (bytes.length - body.length) = sc at hfb
    refine ⟨bytes, f0, hf, ?_, fun _ => ⟨idfLoaded p f0 (some (metaOf sc)), ?_, rfl⟩⟩
    · show idfSave o.compress o.sauce date p = _
      rw [hsave0, hsa]; exact hw
    · rw [hfb]; exact hload (some sc)
  | false =>
    refine ⟨body, f0, hf, ?_, fun hor => ?_⟩
    · show idfSave o.compress o.sauce date p = _
      rw [hsave0, hsa]; rfl
    · have hl : looksLikeSauce body = false := by
        rcases hor with h | h
        · exact absurd h (by simp)
        · exact h
      refine ⟨idfLoaded p f0 none, ?_, rfl⟩
      rw [fromBytes_plain .idf body hl]
      exact hload none

theorem fontBack_single (g : LBuf) (F : BinFormats.Font) (hg : g.fonts = [(0, F)]) (f : BitFont) (hu : unboxFont F = f) :
    FontBack g 0 f := ⟨F, by rw [hg]; exact lookupFont_single F, hu⟩

end IcyVerif.FontBox
