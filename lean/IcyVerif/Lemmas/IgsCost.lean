import IcyVerif.Model.IgsCost
import IcyVerif.Lemmas.IgsBlit
import IcyVerif.Lemmas.IgsPaint3
set_option linter.unusedSimpArgs false
set_option linter.unusedVariables false
/-! Lemmas about the cost functions of `Model/IgsCost.lean`: erasing the counters gives back the functions of
`Model/IgsPaint.lean` (same outcome, same canvas), and the counters are closed forms of the loop bounds:
`rows * columns` rounds for the two screen blits (two pixel accesses / one pixel access per round), exactly
`rows * columns` rounds and at most as many pixel writes for `fill_rect`. -/
namespace IcyVerif.IgsPaint

theorem rbind_assoc {α β γ : Type} (r : Res α) (f : α → Res β) (g : β → Res γ) :
    (r.bind f).bind g = r.bind (fun a => (f a).bind g) := by cases r <;> rfl

theorem bind_eq {α β : Type} (r : Res α) (f : α → Res β) : (r >>= f) = r.bind f := rfl

theorem pure_eq {α : Type} (a : α) : (pure a : Res α) = .ok a := rfl

-- ------------------------------------------------------------------------------------------------ screen to screen
theorem blitSSRowC_eq (fx fy dx dy y : Int) : ∀ (n : Nat) (p : Paint) (x : Int) (k : Cost),
    blitSSRowC fx fy dx dy y n p x k = (blitSSRow fx fy dx dy y n p x).bind fun p' => .ok (p', (k.1 + n, k.2 + 2 * n)) := by
  intro n
  induction n with
  | zero => intro p x k; rfl
  | succ n ih =>
    intro p x k
    simp only [blitSSRowC, blitSSRow, bind_eq, rbind_assoc, ih]
    have e1 : k.1 + 1 + n = k.1 + (n + 1) := by omega
    have e2 : k.2 + 2 + 2 * n = k.2 + 2 * (n + 1) := by omega
    simp only [e1, e2]

theorem blitSSRowsC_eq (fx fy dx dy : Int) (cols : Nat) : ∀ (n : Nat) (p : Paint) (y : Int) (k : Cost),
    blitSSRowsC fx fy dx dy cols n p y k
      = (blitSSRows fx fy dx dy cols n p y).bind fun p' => .ok (p', (k.1 + n * cols, k.2 + 2 * (n * cols))) := by
  intro n
  induction n with
  | zero => intro p y k; simp only [blitSSRowsC, blitSSRows, Res.bind, Nat.zero_mul, Nat.mul_zero, Nat.add_zero]
  | succ n ih =>
    intro p y k
    simp only [blitSSRowsC, blitSSRows, bind_eq, rbind_assoc, ih, blitSSRowC_eq]
    have e1 : k.1 + cols + n * cols = k.1 + (n + 1) * cols := by rw [Nat.add_mul]; omega
    have e2 : k.2 + 2 * cols + 2 * (n * cols) = k.2 + 2 * ((n + 1) * cols) := by rw [Nat.add_mul]; omega
    congr 1; funext p1
    simp only [Res.bind, e1, e2]

/-- `blit_screen_to_screen` with counters = `blit_screen_to_screen`, and the counters are `blitCost` rounds with two
pixel accesses each -/
theorem blitScreenToScreenC_eq (p : Paint) (fx fy tx ty dx dy : Int) :
    blitScreenToScreenC p fx fy tx ty dx dy
      = (blitScreenToScreen p fx fy tx ty dx dy).bind fun p' => .ok (p', (blitCost p fx fy tx ty, 2 * blitCost p fx fy tx ty)) := by
  rw [show blitCost p fx fy tx ty = (min (ty - fy) (resH p)).toNat * (min (tx - fx) (resW p)).toNat from Nat.mul_comm _ _]
  unfold blitScreenToScreenC blitScreenToScreen
  simp only [bind_eq, rbind_assoc, blitSSRowsC_eq, Nat.zero_add]
  unfold chk
  repeat' (first | rfl | split)

-- ------------------------------------------------------------------------------------------------ screen to memory
theorem grabRowC_eq (y : Int) : ∀ (n : Nat) (p : Paint) (x : Int) (m : Array Nat) (k : Cost),
    grabRowC y n p x m k = (grabRow y n p x m).bind fun m' => .ok (m', (k.1 + n, k.2 + n)) := by
  intro n
  induction n with
  | zero => intro p x m k; rfl
  | succ n ih =>
    intro p x m k
    simp only [grabRowC, grabRow, bind_eq, rbind_assoc, ih]
    have e1 : k.1 + 1 + n = k.1 + (n + 1) := by omega
    have e2 : k.2 + 1 + n = k.2 + (n + 1) := by omega
    simp only [e1, e2]

theorem grabRowsC_eq (fx : Int) (cols : Nat) : ∀ (n : Nat) (p : Paint) (y : Int) (m : Array Nat) (k : Cost),
    grabRowsC fx cols n p y m k = (grabRows fx cols n p y m).bind fun m' => .ok (m', (k.1 + n * cols, k.2 + n * cols)) := by
  intro n
  induction n with
  | zero => intro p y m k; simp only [grabRowsC, grabRows, Res.bind, Nat.zero_mul, Nat.add_zero]
  | succ n ih =>
    intro p y m k
    simp only [grabRowsC, grabRows, bind_eq, rbind_assoc, ih, grabRowC_eq]
    have e1 : k.1 + cols + n * cols = k.1 + (n + 1) * cols := by rw [Nat.add_mul]; omega
    have e2 : k.2 + cols + n * cols = k.2 + (n + 1) * cols := by rw [Nat.add_mul]; omega
    congr 1; funext m1
    simp only [Res.bind, e1, e2]

/-- `blit_screen_to_memory` with counters = `blit_screen_to_memory`; `blitCost` rounds, one `get_pixel` each -/
theorem blitScreenToMemoryC_eq (p : Paint) (fx fy tx ty : Int) :
    blitScreenToMemoryC p fx fy tx ty
      = (blitScreenToMemory p fx fy tx ty).bind fun p' => .ok (p', (blitCost p fx fy tx ty, blitCost p fx fy tx ty)) := by
  rw [show blitCost p fx fy tx ty = (min (ty - fy) (resH p)).toNat * (min (tx - fx) (resW p)).toNat from Nat.mul_comm _ _]
  unfold blitScreenToMemoryC blitScreenToMemory
  simp only [bind_eq, rbind_assoc, grabRowsC_eq, Nat.zero_add, pure_eq]
  unfold chk
  repeat' (first | rfl | split)

-- ------------------------------------------------------------------------------------------------ fill_rect
theorem fillPixelC_ok {p : Paint} {x y : Int} {k : Cost} {r : Paint × Cost} (h : fillPixelC p x y k = .ok r) :
    fillPixel p x y = .ok r.1 ∧ r.2.1 = k.1 + 1 ∧ r.2.2 ≤ k.2 + 1 := by
  unfold fillPixelC at h
  unfold fillPixel
  split at h
  · cases h
  · rename_i hl
    simp only [hl, if_false]
    simp only [] at h
    split at h
    · rename_i hb
      obtain ⟨p1, h1, h2⟩ := rbind_ok h
      cases h2
      refine ⟨?_, rfl, Nat.le_refl _⟩
      rw [if_pos hb]; exact h1
    · rename_i hb
      cases h
      refine ⟨?_, rfl, Nat.le_succ _⟩
      rw [if_neg hb]

theorem fillRowC_ok (y : Int) : ∀ (n : Nat) (p : Paint) (x : Int) (k : Cost) (r : Paint × Cost),
    fillRowC y n p x k = .ok r → fillRow y n p x = .ok r.1 ∧ r.2.1 = k.1 + n ∧ r.2.2 ≤ k.2 + n := by
  intro n
  induction n with
  | zero => intro p x k r h; cases h; exact ⟨rfl, rfl, Nat.le_refl _⟩
  | succ n ih =>
    intro p x k r h
    unfold fillRowC at h
    obtain ⟨r1, h1, h2⟩ := rbind_ok h
    obtain ⟨e1, e2, e3⟩ := fillPixelC_ok h1
    obtain ⟨f1, f2, f3⟩ := ih r1.1 (x + 1) r1.2 r h2
    unfold fillRow
    simp only [bind_eq, e1, Res.bind, f1]
    exact ⟨trivial, by omega, by omega⟩

theorem fillRowsC_ok (x0 : Int) (cols : Nat) : ∀ (n : Nat) (p : Paint) (y : Int) (k : Cost) (r : Paint × Cost),
    fillRowsC x0 cols n p y k = .ok r → fillRows x0 cols n p y = .ok r.1 ∧ r.2.1 = k.1 + n * cols ∧ r.2.2 ≤ k.2 + n * cols := by
  intro n
  induction n with
  | zero => intro p y k r h; cases h; exact ⟨rfl, by simp, by simp⟩
  | succ n ih =>
    intro p y k r h
    unfold fillRowsC at h
    obtain ⟨r1, h1, h2⟩ := rbind_ok h
    obtain ⟨e1, e2, e3⟩ := fillRowC_ok y cols p x0 k r1 h1
    obtain ⟨f1, f2, f3⟩ := ih r1.1 (y + 1) r1.2 r h2
    unfold fillRows
    simp only [bind_eq, e1, Res.bind, f1]
    have : (n + 1) * cols = n * cols + cols := by rw [Nat.add_mul]; omega
    exact ⟨trivial, by omega, by omega⟩

/-- the rectangle `fill_rect` walks after clipping: columns x rows -/
def fillCost (p : Paint) (x0 y0 x1 y1 : Int) : Nat :=
  (min (max y0 y1) (resH p - 1) - max (min y0 y1) 0 + 1).toNat * (min (max x0 x1) (resW p - 1) - max (min x0 x1) 0 + 1).toNat

theorem fillCost_le (p : Paint) (hr : p.res < 3) (x0 y0 x1 y1 : Int) : fillCost p x0 y0 x1 y1 ≤ (resW p).toNat * (resH p).toNat := by
  obtain ⟨hw, hh⟩ := resWH p hr
  unfold fillCost
  rw [Nat.mul_comm]
  apply Nat.mul_le_mul <;> omega

theorem fillRectC_ok {p : Paint} {x0 y0 x1 y1 : Int} {r : Paint × Cost} (h : fillRectC p x0 y0 x1 y1 = .ok r) :
    fillRect p x0 y0 x1 y1 = .ok r.1 ∧ r.2.1 = fillCost p x0 y0 x1 y1 ∧ r.2.2 ≤ fillCost p x0 y0 x1 y1 := by
  unfold fillRectC at h
  obtain ⟨f1, f2, f3⟩ := fillRowsC_ok _ _ _ _ _ _ _ h
  unfold fillRect fillCost
  exact ⟨f1, by simpa using f2, by simpa using f3⟩

end IcyVerif.IgsPaint
