import IcyVerif.Lemmas.LoaderCostIdfTnd
import IcyVerif.Lemmas.LoadersIcy
set_option linter.unusedSimpArgs false
set_option linter.unusedVariables false
/-! IcyDraw LAYER chunk decoders: the cost-instrumented model forgets to the C02 model, and its budgets (C03). -/
namespace IcyVerif.LoaderCost
open IcyVerif.Bytes IcyVerif.Bytes.Res IcyVerif.Loaders IcyVerif.Gen IcyVerif.Gen.Loaders RC

@[simp] theorem res_laySetCharC (l : Lay) (x y : Int) : (laySetCharC l x y).res = .ok (l.setChar x y) := rfl

theorem icyRowC_res (d : Bytes) (y : Int) : ∀ n x o l, (icyRowC d y n x o l).res = icyRow d y n x o l := by
  intro n
  induction n with
  | zero => intro x o l; rfl
  | succ n ih =>
    intro x o l
    simp only [icyRowC, icyRow, res_bind, res_tick, res_fail, ok_bind, apply_ite RC.res, res_pure, res_lift, res_laySetCharC, ih]
    try rfl

/-- rows of a layer without columns read nothing and change nothing: the loop the repair cut short only counted -/
theorem icyRows_no_columns (d : Bytes) (l : Lay) (hw : l.w ≤ 0) : ∀ n y o, icyRows d n y o l = .ok l := by
  intro n
  induction n with
  | zero => intro y o; rfl
  | succ n ih =>
    intro y o
    unfold icyRows
    split
    · rfl
    · have h0 : l.w.toNat = 0 := by omega
      rw [h0]
      simp only [icyRow, ok_bind]
      exact ih _ _

theorem icyRows_succ (d : Bytes) (n : Nat) (y : Int) (o : Nat) (l : Lay) :
    icyRows d (n + 1) y o l = if o ≥ d.size then .ok l else (icyRow d y l.w.toNat 0 o l >>= fun r => icyRows d n (y + 1) r.1 r.2) := rfl

theorem icyRowsC_res (d : Bytes) : ∀ n y o l, (icyRowsC d n y o l).res = icyRows d n y o l := by
  intro n
  induction n with
  | zero => intro y o l; rfl
  | succ n ih =>
    intro y o l
    unfold icyRowsC
    simp only [res_bind, res_tick, ok_bind]
    by_cases h1 : o ≥ d.size
    · simp only [h1, true_or, if_true, res_pure]
      rw [icyRows_succ]; simp only [h1, if_true]
    · by_cases h2 : (LoaderLoops.icyNoColumnsGuard = true ∧ l.w ≤ 0)
      · simp only [h2, and_self, or_true, if_true, res_pure]
        exact (icyRows_no_columns d l h2.2 _ _ _).symm
      · simp only [h1, h2, or_self, if_false, res_bind, icyRowC_res, ih]
        rw [icyRows_succ]; simp only [h1, if_false]

theorem icyNewLayerC_res (d : Bytes) (st : IcySt) : (icyNewLayerC d st).res = icyNewLayer d st := by
  unfold icyNewLayerC icyNewLayer
  simp only [res_bind, res_spend, res_fail, ok_bind, apply_ite RC.res, res_pure, res_lift, icyRowsC_res]
  try rfl

theorem icyContinueC_res (d : Bytes) (st : IcySt) (n : Nat) : (icyContinueC d st n).res = icyContinue d st n := by
  unfold icyContinueC icyContinue
  split
  · simp only []
    split
    · simp only [res_bind, res_pure, icyRowsC_res]
      rfl
    · simp only [res_bind, res_spend, ok_bind, res_pure]
      rfl
  · rfl

theorem map_some_eq {α : Type} (x : Res α) : (x >>= fun a => Res.ok (some a)) = some <$> x := by
  cases x <;> rfl

theorem icyChunkC_res (kw : String) (d : Bytes) (f : Foreign) (st : IcySt) : (icyChunkC kw d f st).res = icyChunk kw d f st := by
  by_cases h1 : (kw == "END") = true
  · unfold icyChunkC icyChunk; simp only [h1, if_true]; rfl
  · by_cases h2 : (kw == "ICED") = true
    · unfold icyChunkC; simp only [h1, h2, if_true, if_false, res_lift, Bool.false_eq_true, ↓reduceIte]
    · by_cases h3 : ((kw == "PALETTE") = true ∨ (kw == "SAUCE") = true)
      · unfold icyChunkC; simp only [h1, h2, h3, if_true, if_false, res_lift, Bool.false_eq_true, ↓reduceIte]
      · by_cases h4 : "FONT_".toList.isPrefixOf kw.toList = true
        · unfold icyChunkC; simp only [h1, h2, h3, h4, if_true, if_false, res_lift, Bool.false_eq_true, ↓reduceIte]
        · by_cases h5 : (!"LAYER_".toList.isPrefixOf kw.toList) = true
          · unfold icyChunkC icyChunk; simp only [h1, h2, h3, h4, h5, if_true, if_false, Bool.false_eq_true, ↓reduceIte]; rfl
          · unfold icyChunkC icyChunk
            simp only [h1, h2, h3, h4, h5, if_true, if_false, Bool.false_eq_true, ↓reduceIte]
            cases layerContinue (kw.toList.length + 1) kw.toList with
            | none => simp only [res_bind, icyNewLayerC_res, res_pure]; exact map_some_eq _
            | some ds =>
              simp only []
              cases parseUsize ds with
              | none => rfl
              | some n => simp only [res_bind, icyContinueC_res, res_pure]; exact map_some_eq _

theorem icyChunksC_res : ∀ (cs : List (String × Bytes × Foreign)) (st : IcySt), (icyChunksC cs st).res = icyChunks cs st := by
  intro cs
  induction cs with
  | nil => intro st; rfl
  | cons c rest ih =>
    intro st
    obtain ⟨kw, d, f⟩ := c
    unfold icyChunksC icyChunks
    simp only [res_bind, res_tick, ok_bind, icyChunkC_res]
    congr 1; funext r
    cases r with
    | none => rfl
    | some st' => exact ih st'

theorem loadIcyC_res (chunks : List (String × Bytes × Foreign)) : (loadIcyC chunks).res = loadIcy chunks :=
  icyChunksC_res chunks _

-- ------------------------------------------------------------------------------------------------ budgets
theorem icyCell_adv (d : Bytes) (o : Nat) (short : Bool) :
    (icyCell d o short).SatS (fun _ => True) (fun o' => o ≤ o' ∧ o' ≤ d.size) := by
  unfold icyCell
  split
  · split
    · exact True.intro
    · rename_i h
      apply SatS.bind (Sat.toSatS (rd_sat (by omega))); intro _ _
      apply SatS.bind (Sat.toSatS (rd_sat (by omega))); intro _ _
      apply SatS.bind (Sat.toSatS (rd_sat (by omega))); intro _ _
      apply SatS.bind (Sat.toSatS (rd_sat (by omega))); intro _ _
      exact ⟨by omega, by omega⟩
  · split
    · exact True.intro
    · rename_i h
      apply SatS.bind (Sat.toSatS (rdU32_sat (by omega))); intro ch _
      apply SatS.bind (Sat.toSatS (rdU32_sat (by omega))); intro _ _
      apply SatS.bind (Sat.toSatS (rdU32_sat (by omega))); intro _ _
      apply SatS.bind (Sat.toSatS (rdU16s_sat (by omega))); intro _ _
      split
      · exact True.intro
      · split
        · exact True.intro
        · exact ⟨by omega, by omega⟩

theorem laySetChar_lines_ge (l : Lay) (x y : Int) : l.lines ≤ (l.setChar x y).lines := by
  unfold Lay.setChar; split
  · exact Nat.le_refl _
  · split
    · exact Nat.le_refl _
    · split
      · simp only; omega
      · exact Nat.le_refl _

theorem laySetChar_lines_le (l : Lay) (x y : Int) (B : Nat) (hl : l.lines ≤ B) (hy : y < B) : (l.setChar x y).lines ≤ B := by
  unfold Lay.setChar; split
  · exact hl
  · split
    · exact hl
    · split
      · simp only; omega
      · exact hl

theorem laySetChar_fields (l : Lay) (x y : Int) :
    (l.setChar x y).w = l.w ∧ (l.setChar x y).h = l.h ∧ (l.setChar x y).role = l.role := by
  unfold Lay.setChar; split
  · exact ⟨rfl, rfl, rfl⟩
  · split
    · exact ⟨rfl, rfl, rfl⟩
    · split <;> exact ⟨rfl, rfl, rfl⟩

theorem pot_laySetCharC (l : Lay) (x y : Int) (B : Nat) (hl : l.lines ≤ B) (hy : y < B) :
    (laySetCharC l x y).Pot 0 (B - l.lines) 0 (fun l' => l' = l.setChar x y)
      (fun _ => 0) (fun l' => B - l'.lines) (fun _ => 0) := by
  have h1 := laySetChar_lines_ge l x y
  have h2 := laySetChar_lines_le l x y B hl hy
  refine ⟨Nat.zero_le _, ?_, Nat.zero_le _, ?_⟩
  · show (l.setChar x y).lines - l.lines ≤ B - l.lines
    omega
  · intro a ha; simp only [res_laySetCharC] at ha; cases ha
    refine ⟨rfl, Nat.le_refl _, ?_, Nat.le_refl _⟩
    show (l.setChar x y).lines - l.lines + (B - (l.setChar x y).lines) ≤ B - l.lines
    omega

/-- what one row of cells returns -/
structure IcyRowPost (d : Bytes) (B : Nat) (n o : Nat) (l : Lay) (r : Nat × Lay) : Prop where
  ge : o ≤ r.1
  adv : 0 < n → o + 2 ≤ r.1
  le : r.1 ≤ d.size
  lines : r.2.lines ≤ B
  mono : l.lines ≤ r.2.lines
  w : r.2.w = l.w
  h : r.2.h = l.h

/-- one row: every cell that is read consumes at least two bytes, so at most `(|d| - o) / 2 + 1` iterations whatever width
    the layer declares; the row `y` is allocated at most once -/
theorem icyRowC_pot (d : Bytes) (y : Int) (B : Nat) (hy : y < B) :
    ∀ (n : Nat) (x : Int) (o : Nat) (l : Lay), o ≤ d.size → l.lines ≤ B →
      (icyRowC d y n x o l).Pot (2 * (d.size - o) + 1) (B - l.lines) 0 (fun r => IcyRowPost d B n o l r)
        (fun r => (d.size - r.1) + (d.size - o) + 1) (fun r => B - r.2.lines) (fun _ => 0) := by
  intro n
  induction n with
  | zero =>
    intro x o l ho hl
    exact Pot.pure ⟨Nat.le_refl _, fun h => by omega, ho, hl, Nat.le_refl _, rfl, rfl⟩ (by somega) (by somega) (by somega)
  | succ n ih =>
    intro x o l ho hl
    unfold icyRowC
    apply Pot.bind_le pot_tick (by somega) (by somega) (by somega); intro _ _
    split
    · exact pot_fail
    · rename_i hlen
      apply Pot.bind_le (pot_lift_any _) (by somega) (by somega) (by somega); intro attr _
      dsimp only
      split
      · exact Pot.pure ⟨by somega, fun _ => by somega, by somega, hl, Nat.le_refl _, rfl, rfl⟩ (by somega) (by somega) (by somega)
      · generalize (if (attr &&& attrShortData != 0) = true then attr - attrShortData else attr) = attr'
        by_cases hinv : attr' = attrInvisible
        · rw [if_pos hinv]
          apply Pot.mono (ih (x + 1) (o + 2) l (by omega) hl) (by somega) (by somega) (by somega)
          intro r hr
          exact ⟨⟨by have := hr.ge; omega, fun _ => by have := hr.ge; omega, hr.le, hr.lines, hr.mono, hr.w, hr.h⟩,
            by have := hr.ge; have := hr.le; omega, by omega, by omega⟩
        · rw [if_neg hinv]
          apply Pot.bind_le (pot_lift_ok (fun a h => SatS.panic_ok (icyCell_adv d _ _) h)) (by somega) (by somega) (by somega); intro o' ho'
          apply Pot.bind_le (pot_laySetCharC l x y B hl hy) (by somega) (by somega) (by somega); intro l' hl'
          have hf := laySetChar_fields l x y
          have hl1 := laySetChar_lines_ge l x y
          have hl2 := laySetChar_lines_le l x y B hl hy
          subst hl'
          apply Pot.mono (ih (x + 1) o' (l.setChar x y) ho'.2 hl2) (by somega) (by somega) (by somega)
          intro r hr
          exact ⟨⟨by have := hr.ge; omega, fun _ => by have := hr.ge; omega, hr.le, hr.lines, Nat.le_trans hl1 hr.mono,
            hr.w.trans hf.1, hr.h.trans hf.2.1⟩, by have := hr.ge; have := hr.le; omega, by omega, by omega⟩

/-- the row loop: every row that is decoded consumes at least two bytes (layers without columns are not iterated at all since
    the repair), so at most `|d| - o` loop iterations in all and at most one new row per two bytes -/
theorem icyRowsC_pot (hguard : LoaderLoops.icyNoColumnsGuard = true) (d : Bytes) (B : Nat) :
    ∀ (n : Nat) (y : Int) (o : Nat) (l : Lay), o ≤ d.size → l.lines ≤ B → 2 * y + ((d.size - o : Nat) : Int) < 2 * (B : Int) →
      (icyRowsC d n y o l).Pot (2 * (d.size - o) + 2) (B - l.lines) 0 (fun l' => l'.lines ≤ B ∧ l.lines ≤ l'.lines)
        (fun _ => 0) (fun l' => B - l'.lines) (fun _ => 0) := by
  intro n
  induction n with
  | zero =>
    intro y o l ho hl hy
    exact Pot.pure ⟨hl, Nat.le_refl _⟩ (by somega) (by somega) (by somega)
  | succ n ih =>
    intro y o l ho hl hy
    unfold icyRowsC
    apply Pot.bind_le pot_tick (by somega) (by somega) (by somega); intro _ _
    split
    · exact Pot.pure ⟨hl, Nat.le_refl _⟩ (by somega) (by somega) (by somega)
    · rename_i hc
      have hc' : ¬ o ≥ d.size ∧ ¬ l.w ≤ 0 := by
        constructor
        · intro h; exact hc (Or.inl h)
        · intro h; exact hc (Or.inr ⟨hguard, h⟩)
      have hyB : y < (B : Int) := by omega
      apply Pot.bind_le (icyRowC_pot d y B hyB l.w.toNat 0 o l ho hl) (by somega) (by somega) (by somega); intro r hr
      have hadv := hr.adv (by omega)
      have hle := hr.le
      have hmono := hr.mono
      apply Pot.mono (ih (y + 1) r.1 r.2 hr.le hr.lines (by omega)) (by somega) (by somega) (by somega)
      intro l' hl'
      exact ⟨⟨hl'.1, Nat.le_trans hr.mono hl'.2⟩, by omega, by omega, by omega⟩

/-- a `LAYER_n` chunk of `|d|` bytes: at most `2 |d| + 2` loop iterations, at most `|d| / 2 + 1` new rows, at most `|d|` bytes
    copied (title, picture data) — whatever width / height / data length its header declares -/
theorem icyNewLayerC_pot (hguard : LoaderLoops.icyNoColumnsGuard = true) (d : Bytes) (st : IcySt) :
    (icyNewLayerC d st).Pot (2 * d.size + 2) (d.size / 2 + 1) d.size (fun _ => True) (fun _ => 0) (fun _ => 0) (fun _ => 0) := by
  unfold icyNewLayerC
  have hL : icyLayerHeaderLen = 41 := rfl
  apply Pot.bind_le (pot_lift (icyString_sat d 0 (Nat.zero_le _))) (by somega) (by somega) (by somega); intro size hsize
  apply Pot.bind_le (pot_spend size) (by somega) (by somega) (by somega); intro _ _
  dsimp only
  split
  · exact pot_fail
  · rename_i hlen
    apply Pot.bind_le (pot_lift_any _) (by somega) (by somega) (by somega); intro role _
    apply Pot.bind_le (pot_lift_any _) (by somega) (by somega) (by somega); intro mode _
    split
    · exact pot_fail
    · apply Pot.bind_le (pot_lift_any _) (by somega) (by somega) (by somega); intro _ _
      apply Pot.bind_le (pot_lift_any _) (by somega) (by somega) (by somega); intro _ _
      apply Pot.bind_le (pot_lift_any _) (by somega) (by somega) (by somega); intro _ _
      apply Pot.bind_le (pot_lift_any _) (by somega) (by somega) (by somega); intro _ _
      apply Pot.bind_le (pot_lift_any _) (by somega) (by somega) (by somega); intro flags _
      apply Pot.bind_le (pot_lift_any _) (by somega) (by somega) (by somega); intro _ _
      apply Pot.bind_le (pot_lift_any _) (by somega) (by somega) (by somega); intro ox _
      apply Pot.bind_le (pot_lift_any _) (by somega) (by somega) (by somega); intro oy _
      apply Pot.bind_le (pot_lift_any _) (by somega) (by somega) (by somega); intro w _
      apply Pot.bind_le (pot_lift_any _) (by somega) (by somega) (by somega); intro h _
      apply Pot.bind_le (pot_lift_any _) (by somega) (by somega) (by somega); intro _ _
      apply Pot.bind_le (pot_lift_any _) (by somega) (by somega) (by somega); intro length _
      split
      · split
        · exact pot_fail
        · apply Pot.bind_le (pot_lift_any _) (by somega) (by somega) (by somega); intro _ _
          apply Pot.bind_le (pot_lift_any _) (by somega) (by somega) (by somega); intro _ _
          apply Pot.bind_le (pot_lift_any _) (by somega) (by somega) (by somega); intro _ _
          apply Pot.bind_le (pot_lift_any _) (by somega) (by somega) (by somega); intro _ _
          apply Pot.bind_le (pot_lift_any _) (by somega) (by somega) (by somega); intro _ _
          apply Pot.bind_le (pot_spend _) (by somega) (by somega) (by somega); intro _ _
          exact Pot.pure trivial (by somega) (by somega) (by somega)
      · apply Pot.bind_le (pot_lift_ok (fun a h => SatS.panic_ok usub_site h)) (by somega) (by somega) (by somega); intro rest hrest
        split
        · exact pot_fail
        · apply Pot.bind_le (icyRowsC_pot hguard d (d.size / 2 + 1) _ 0 _ ⟨0, asI32 w, asI32 h, 0, asI32 ox, asI32 oy, 0, true⟩ (by omega) (by show 0 ≤ _; omega)
            (by omega)) (by somega) (by somega) (by somega); intro l _
          exact Pot.pure trivial (by somega) (by somega) (by somega)

/-- a continuation chunk `LAYER_n~k` of `|d|` bytes: the same budgets (an image layer copies the chunk) -/
theorem icyContinueC_pot (hguard : LoaderLoops.icyNoColumnsGuard = true) (d : Bytes) (st : IcySt) (n : Nat) :
    (icyContinueC d st n).Pot (2 * d.size + 2) (d.size / 2 + 1) d.size (fun _ => True) (fun _ => 0) (fun _ => 0) (fun _ => 0) := by
  unfold icyContinueC
  split
  · rename_i hn
    dsimp only
    split
    · apply Pot.bind_le (icyRowsC_pot hguard d (st.layers[n].lines + d.size / 2 + 1) _ (st.layers[n].lines : Int) 0 st.layers[n] (by omega) (by omega)
        (by omega)) (by somega) (by somega) (by somega); intro l _
      exact Pot.pure trivial (by somega) (by somega) (by somega)
    · apply Pot.bind_le (pot_spend _) (by somega) (by somega) (by somega); intro _ _
      exact Pot.pure trivial (by somega) (by somega) (by somega)
  · exact pot_fail

/-- without the guard a layer without columns makes the row loop run once per DECLARED row, whatever the chunk holds -/
theorem icyRowsC_work_without_guard (hg : LoaderLoops.icyNoColumnsGuard = false) (d : Bytes) (l : Lay) (hw : l.w ≤ 0) (o : Nat)
    (ho : o < d.size) : ∀ (n : Nat) (y : Int), (icyRowsC d n y o l).work = n := by
  intro n
  induction n with
  | zero => intro y; rfl
  | succ n ih =>
    intro y
    unfold icyRowsC
    have h0 : l.w.toNat = 0 := by omega
    have hc : ¬ (o ≥ d.size ∨ (LoaderLoops.icyNoColumnsGuard = true ∧ l.w ≤ 0)) := by
      intro h
      cases h with
      | inl h => omega
      | inr h => rw [hg] at h; exact absurd h.1 (by decide)
    simp only [hc, if_false, h0]
    show (RC.bind tick fun _ => RC.bind (icyRowC d y 0 0 o l) fun r => icyRowsC d n (y + 1) r.1 r.2).work = n + 1
    simp only [RC.bind, tick, icyRowC, pure]
    have := ih (y + 1)
    omega
