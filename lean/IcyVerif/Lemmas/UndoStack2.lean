import IcyVerif.Lemmas.UndoFonts
set_option linter.unusedSimpArgs false
set_option linter.unusedVariables false
/-! # C08: Paste, AddFloatingLayer, RotateLayer, UpdateLayerProperties, MergeLayerDown -/
namespace IcyVerif.Undo

/-- a record that applies a fixed function to one layer when it exists and does nothing otherwise
    (`if let Some(layer) = layers.get_mut(i) { … } Ok(())`) -/
theorem undoable_onLayerOpt (o : UndoOp) (i : Nat) (fr fu : LayerM → LayerM) (FR FU : LObs → LObs)
    (hfr : ∀ l, (fr l).obs = FR l.obs) (hfu : ∀ l, (fu l).obs = FU l.obs)
    {d d' : Doc}
    (hredo : ∀ e, o.redo e = onLayerOpt e i o fr)
    (hundo : ∀ e, o.undo e = onLayerOpt e i o fu)
    (hr : o.redo d = .ok (o, d'))
    (hrt : ∀ l, d.layers[i]? = some l → FU (FR l.obs) = l.obs) : Undoable o d.obs d'.obs := by
  cases hl : d.layers[i]? with
  | none =>
    rw [hredo d] at hr
    simp [onLayerOpt, hl] at hr
    subst hr
    refine ⟨(· = o), (· = o), rfl, ?_, ?_⟩
    · intro o1 ho e' he'
      subst ho
      have := obs_none he'.symm hl
      exact ⟨o1, e', by rw [hundo e']; simp [onLayerOpt, this], he', rfl⟩
    · intro o1 ho e he
      subst ho
      have := obs_none he.symm hl
      exact ⟨o1, e, by rw [hredo e]; simp [onLayerOpt, this], he, rfl⟩
  | some l =>
    have hd' : d' = d.setLayer i (fr l) := by
      rw [hredo d] at hr
      simp [onLayerOpt, hl] at hr
      exact hr.symm
    refine undoable_onLayer o i .err .err fr fu FR FU hfr hfu ?_ ?_ hr hrt
    · intro e he
      obtain ⟨l', hl1, _⟩ := obs_some he.symm hl
      rw [hredo e]
      simp [onLayerOpt, onLayerE, hl1]
    · intro e he
      have hl' : d'.layers[i]? = some (fr l) := by rw [hd']; exact getElem?_setLayer_self d i (fr l) l hl
      obtain ⟨l', hl1, _⟩ := obs_some he.symm hl'
      rw [hundo e]
      simp [onLayerOpt, onLayerE, hl1]

/-- **RotateLayer** — the record holds complete copies of the row storage before and after, sizes are swapped back and
    forth: exact at every document (hidden rows included), given that `old_lines` is the layer's storage (it is cloned
    from it); a missing layer makes both directions no-ops -/
theorem inverse_rotateLayer (d : Doc) (i : Nat) (old new : List Row)
    (hold : ∀ l, d.layers[i]? = some l → old = l.lines) : InverseAt (.rotateLayer i old new) d := by
  intro op' d' hr
  have hop : op' = .rotateLayer i old new := by
    simp only [UndoOp.redo, onLayerOpt] at hr
    cases hl : d.layers[i]? with
    | none => rw [hl] at hr; simp at hr; exact hr.1.symm
    | some l => rw [hl] at hr; simp at hr; exact hr.1.symm
  subst hop
  exact undoable_onLayerOpt (.rotateLayer i old new) i
    (fun l => { l with w := l.h, h := l.w, lines := new }) (fun l => { l with w := l.h, h := l.w, lines := old })
    (fun a => (a.2.1, a.1, a.2.2.1, rowsGet new)) (fun a => (a.2.1, a.1, a.2.2.1, rowsGet old))
    (fun l => rfl) (fun l => rfl) (fun e => rfl) (fun e => rfl) hr
    (fun l hl => by
      show (l.w, l.h, l.props, rowsGet old) = l.obs
      rw [hold l hl]; rfl)

/-- **UpdateLayerProperties** — at every document, given that the record holds the layer's properties as
    `old_properties` (it clones them); `Layer::role` is not part of the properties and stays -/
theorem inverse_updateLayerProps (d : Doc) (i : Nat) (old new : Props)
    (hold : ∀ l, d.layers[i]? = some l → old = l.props) : InverseAt (.updateLayerProps i old new) d := by
  intro op' d' hr
  have hop : op' = .updateLayerProps i old new := by
    simp only [UndoOp.redo, onLayer] at hr
    cases hl : d.layers[i]? with
    | none => rw [hl] at hr; simp at hr
    | some l => rw [hl] at hr; simp at hr; exact hr.1.symm
  subst hop
  exact undoable_onLayer (.updateLayerProps i old new) i .err .err
    (fun l => { l with props := { new with role := l.props.role } }) (fun l => { l with props := { old with role := l.props.role } })
    (fun a => (a.1, a.2.1, { new with role := a.2.2.1.role }, a.2.2.2)) (fun a => (a.1, a.2.1, { old with role := a.2.2.1.role }, a.2.2.2))
    (fun l => rfl) (fun l => rfl) (fun e _ => rfl) (fun e _ => rfl) hr
    (fun l hl => by
      show (l.w, l.h, ({ old with role := l.props.role } : Props), rowsGet l.lines) = l.obs
      rw [hold l hl]; rfl)

/-- **AddFloatingLayer** — on a freshly pasted layer (role PastePreview / PasteImage, title "pasted"), which is how the
    operation is used; on any other layer the record would not be its own inverse (the title is overwritten) -/
theorem inverse_addFloatingLayer (d : Doc) (i : Nat)
    (hpaste : ∀ l, d.layers[i]? = some l → (l.props.role = 1 ∨ l.props.role = 2) ∧ l.props.title = IcyVerif.Gen.Undo.layerPastedName) :
    InverseAt (.addFloatingLayer i) d := by
  intro op' d' hr
  have hop : op' = .addFloatingLayer i := by
    simp only [UndoOp.redo, onLayerOpt] at hr
    cases hl : d.layers[i]? with
    | none => rw [hl] at hr; simp at hr; exact hr.1.symm
    | some l => rw [hl] at hr; simp at hr; exact hr.1.symm
  subst hop
  let FR : LObs → LObs := fun a => (a.1, a.2.1, { a.2.2.1 with role := if a.2.2.1.role = 2 then 3 else 0, title := IcyVerif.Gen.Undo.layerNewName }, a.2.2.2)
  let FU : LObs → LObs := fun a => (a.1, a.2.1, { a.2.2.1 with role := if a.2.2.1.role = 3 then 2 else 1, title := IcyVerif.Gen.Undo.layerPastedName }, a.2.2.2)
  exact undoable_onLayerOpt (.addFloatingLayer i) i floatRedo floatUndo FR FU (fun l => rfl) (fun l => rfl) (fun e => rfl) (fun e => rfl) hr
    (fun l hl => by
      obtain ⟨hrole, htitle⟩ := hpaste l hl
      obtain ⟨w, h, ⟨v, lk, pl, ha, al, ox, oy, ti, ro⟩, lines⟩ := l
      simp only at hrole htitle
      subst htitle
      rcases hrole with rfl | rfl <;> simp [FR, FU, LayerM.obs])

/-- **Paste** (`paste_clipboard_data`) — the record keeps the layer it removes; at every document -/
theorem inverse_paste (d : Doc) (cur : Nat) (l : LayerM) : InverseAt (.paste cur (some l)) d := by
  intro op' d' hr
  simp only [UndoOp.redo] at hr
  by_cases hidx : cur + 1 ≤ d.layers.length
  · simp only [hidx, if_true] at hr
    simp at hr
    obtain ⟨rfl, rfl⟩ := hr
    refine ⟨fun o => ∃ p, o = .paste cur p, fun o => ∃ l', o = .paste cur (some l') ∧ l'.obs = l.obs, ⟨none, rfl⟩, ?_, ?_⟩
    · rintro o ⟨p, rfl⟩ e' he'
      have hd' : ({ d with layers := d.layers.insertIdx (cur + 1) l } : Doc).layers[cur + 1]? = some l := getElem?_insertIdx_self' _ _ _ hidx
      obtain ⟨l', hl1, hl2⟩ := obs_some he'.symm hd'
      refine ⟨.paste cur (some l'), ({ e' with layers := e'.layers.eraseIdx (cur + 1) } : Doc), ?_, ?_, l', rfl, hl2⟩
      · simp [UndoOp.undo, hl1]
      · have h1 := obs_w he'; have h2 := obs_h he'; have h3 := obs_layers he'; have h4 := obs_x he'
        refine DObs.ext' (a := Doc.obs _) (b := Doc.obs _) h1 h2 ?_ h4
        show (e'.layers.eraseIdx (cur + 1)).map LayerM.obs = d.layers.map LayerM.obs
        rw [map_eraseIdx', h3]
        show ((d.layers.insertIdx (cur + 1) l).map LayerM.obs).eraseIdx (cur + 1) = _
        rw [map_insertIdx', List.eraseIdx_insertIdx_self]
    · rintro o ⟨l', rfl, hl'⟩ e he
      have hlen := obs_length he
      refine ⟨.paste cur none, { e with layers := e.layers.insertIdx (cur + 1) l' }, ?_, ?_, none, rfl⟩
      · simp [UndoOp.redo, hlen, hidx]
      · have h1 := obs_w he; have h2 := obs_h he; have h3 := obs_layers he; have h4 := obs_x he
        refine DObs.ext' (a := Doc.obs _) (b := Doc.obs _) h1 h2 ?_ h4
        show (e.layers.insertIdx (cur + 1) l').map LayerM.obs = (d.layers.insertIdx (cur + 1) l).map LayerM.obs
        rw [map_insertIdx', map_insertIdx', h3, hl']
  · simp [hidx] at hr

/-! ## MergeLayerDown -/

theorem take_drop_split {α : Type} (l : List α) (k : Nat) (h : k + 2 ≤ l.length) :
    ∃ a b post, l = l.take k ++ a :: b :: post ∧ (l.take k).length = k := by
  have hk : (l.take k).length = k := by simp; omega
  cases h1 : l.drop k with
  | nil => have := congrArg List.length h1; simp at this; omega
  | cons a t =>
    cases t with
    | nil => have := congrArg List.length h1; simp at this; omega
    | cons b post =>
      refine ⟨a, b, post, ?_, hk⟩
      rw [← h1, List.take_append_drop]

/-- the layer stack around the two merged layers -/
theorem merge_shapes {α : Type} (pre : List α) (a b m : α) (post : List α) (k : Nat) (hk : pre.length = k) :
    (pre ++ a :: b :: post).take k = pre ∧ ((pre ++ a :: b :: post).drop k).take 2 = [a, b] ∧
      (pre ++ a :: b :: post).drop (k + 2) = post ∧
      (pre ++ m :: post).take k = pre ∧ (pre ++ m :: post).drop k = m :: post := by
  subst hk
  refine ⟨by simp, by simp, ?_, by simp, by simp⟩
  have : pre.length + 2 = (pre ++ [a, b]).length := by simp
  rw [this]
  have e : pre ++ a :: b :: post = (pre ++ [a, b]) ++ post := by simp
  rw [e, List.drop_left']
  rfl

/-- **MergeLayerDown** (`merge_layer_down`, `anchor_layer`): two layers are replaced by the merged one and the record
    keeps them; undo puts them back in order and takes the merged layer out again — exact at every document, whatever the
    merged layer is -/
theorem inverse_mergeLayerDown (d : Doc) (idx : Nat) (m : LayerM) (o0 : Option (List LayerM)) :
    InverseAt (.mergeLayerDown idx (some m) o0) d := by
  intro op' d' hr
  simp only [UndoOp.redo] at hr
  by_cases hbad : idx = 0 ∨ idx ≥ d.layers.length
  · simp [hbad] at hr
  · simp only [hbad, if_false] at hr
    simp at hr
    obtain ⟨rfl, rfl⟩ := hr
    have hidx0 : idx ≠ 0 := fun h => hbad (Or.inl h)
    have hidxl : idx < d.layers.length := by
      rcases Nat.lt_or_ge idx d.layers.length with h | h
      · exact h
      · exact absurd (Or.inr h) hbad
    obtain ⟨k, rfl⟩ : ∃ k, idx = k + 1 := ⟨idx - 1, by omega⟩
    simp only [Nat.add_sub_cancel]
    obtain ⟨a, b, post, hsplit, hpre⟩ := take_drop_split d.layers k (by omega)
    generalize hpre' : d.layers.take k = pre at hsplit hpre
    obtain ⟨s1, s2, s3, s4, s5⟩ := merge_shapes pre a b m post k hpre
    have horig : (d.layers.drop k).take 2 = [a, b] := by rw [hsplit]; exact s2
    have hpost : d.layers.drop (k + 1 + 1) = post := by rw [hsplit]; exact s3
    rw [horig, hpost]
    show Undoable _ d.obs ({ d with layers := pre ++ m :: post } : Doc).obs
    -- decomposition of any stack observed like a given one
    have decomp3 : ∀ (ls : List LayerM), ls.map LayerM.obs = (pre ++ a :: b :: post).map LayerM.obs →
        ∃ pre' a' b' post', ls = pre' ++ a' :: b' :: post' ∧ pre'.length = k ∧ pre'.map LayerM.obs = pre.map LayerM.obs ∧
          a'.obs = a.obs ∧ b'.obs = b.obs ∧ post'.map LayerM.obs = post.map LayerM.obs := by
      intro ls h
      rw [List.map_append] at h
      obtain ⟨pre', rest, rfl, h1, h2⟩ := List.map_eq_append_iff.mp h
      rw [List.map_cons] at h2
      obtain ⟨a', rest2, rfl, h3, h4⟩ := List.map_eq_cons_iff.mp h2
      rw [List.map_cons] at h4
      obtain ⟨b', post', rfl, h5, h6⟩ := List.map_eq_cons_iff.mp h4
      refine ⟨pre', a', b', post', rfl, ?_, h1, h3, h5, h6⟩
      have := congrArg List.length h1
      simpa [hpre] using this
    have decomp1 : ∀ (ls : List LayerM), ls.map LayerM.obs = (pre ++ m :: post).map LayerM.obs →
        ∃ pre' m' post', ls = pre' ++ m' :: post' ∧ pre'.length = k ∧ pre'.map LayerM.obs = pre.map LayerM.obs ∧
          m'.obs = m.obs ∧ post'.map LayerM.obs = post.map LayerM.obs := by
      intro ls h
      rw [List.map_append] at h
      obtain ⟨pre', rest, rfl, h1, h2⟩ := List.map_eq_append_iff.mp h
      rw [List.map_cons] at h2
      obtain ⟨m', post', rfl, h3, h4⟩ := List.map_eq_cons_iff.mp h2
      refine ⟨pre', m', post', rfl, ?_, h1, h3, h4⟩
      have := congrArg List.length h1
      simpa [hpre] using this
    refine ⟨fun o => ∃ a' b', o = .mergeLayerDown (k + 1) none (some [a', b']) ∧ a'.obs = a.obs ∧ b'.obs = b.obs,
            fun o => ∃ m' r, o = .mergeLayerDown (k + 1) (some m') r ∧ m'.obs = m.obs, ⟨a, b, rfl, rfl, rfl⟩, ?_, ?_⟩
    · rintro o ⟨a', b', rfl, ha, hb⟩ e' he'
      have h3 : e'.layers.map LayerM.obs = (pre ++ m :: post).map LayerM.obs := obs_layers he'
      obtain ⟨pre', m', post', hls, hlen, hp1, hm1, hp2⟩ := decomp1 e'.layers h3
      obtain ⟨t1, t2, t3, t4, t5⟩ := merge_shapes pre' a' b' m' post' k hlen
      have hlay : e'.layers.take k ++ [a', b'] ++ e'.layers.drop k = pre' ++ a' :: b' :: m' :: post' := by
        rw [hls, t4, t5]; simp
      have hget : (pre' ++ a' :: b' :: m' :: post')[k + 1 + 1]? = some m' := by
        have e : pre' ++ a' :: b' :: m' :: post' = (pre' ++ [a', b']) ++ m' :: post' := by simp
        rw [e, List.getElem?_append_right (by simp; omega)]
        simp [hlen]
      have herase : (pre' ++ a' :: b' :: m' :: post').eraseIdx (k + 1 + 1) = pre' ++ a' :: b' :: post' := by
        have e : pre' ++ a' :: b' :: m' :: post' = (pre' ++ [a', b']) ++ m' :: post' := by simp
        rw [e, List.eraseIdx_append_of_length_le (by simp; omega)]
        simp [hlen]
      refine ⟨.mergeLayerDown (k + 1) (some m') none,
        { e' with layers := pre' ++ a' :: b' :: post', cur := min (k + 1) ((pre' ++ a' :: b' :: post').length - 1) }, ?_, ?_, m', none, rfl, hm1⟩
      · have hnp : ¬ (([a', b'] : List LayerM) ≠ [] ∧ (k + 1 = 0 ∨ k > e'.layers.length)) := by
          intro ⟨_, h⟩
          rcases h with h | h
          · omega
          · rw [hls] at h; simp at h; omega
        simp only [UndoOp.undo, Nat.add_sub_cancel, hlay, hget, herase]
        rw [if_neg hnp]
      · have h1 := obs_w he'; have h2 := obs_h he'; have h4 := obs_x he'
        refine DObs.ext' (a := Doc.obs _) (b := Doc.obs _) h1 h2 ?_ h4
        show (pre' ++ a' :: b' :: post').map LayerM.obs = d.layers.map LayerM.obs
        rw [hsplit]
        simp [hp1, ha, hb, hp2]
    · rintro o ⟨m', r, rfl, hm'⟩ e he
      have h3 : e.layers.map LayerM.obs = (pre ++ a :: b :: post).map LayerM.obs := by rw [obs_layers he, hsplit]
      obtain ⟨pre', a', b', post', hls, hlen, hp1, ha, hb, hp2⟩ := decomp3 e.layers h3
      obtain ⟨t1, t2, t3, t4, t5⟩ := merge_shapes pre' a' b' m' post' k hlen
      refine ⟨.mergeLayerDown (k + 1) none (some [a', b']),
        { e with layers := pre' ++ m' :: post', cur := min k ((pre' ++ m' :: post').length - 1) }, ?_, ?_, a', b', rfl, ha, hb⟩
      · have hnb : ¬ (k + 1 = 0 ∨ k + 1 ≥ e.layers.length) := by
          intro h
          rcases h with h | h
          · omega
          · rw [hls] at h; simp at h; omega
        simp only [UndoOp.redo, hnb, if_false, Nat.add_sub_cancel]
        rw [hls, t1, t2, t3]
      · have h1 := obs_w he; have h2 := obs_h he; have h4 := obs_x he
        refine DObs.ext' (a := Doc.obs _) (b := Doc.obs _) h1 h2 ?_ h4
        show (pre' ++ m' :: post').map LayerM.obs = (pre ++ m :: post).map LayerM.obs
        simp [hp1, hm', hp2]

end IcyVerif.Undo
