import IcyVerif.Lemmas.BgiFill2
set_option linter.unusedSimpArgs false
set_option linter.unusedVariables false
/-! Lemmas about the flood-fill model, part 3: the two loops.  The scan loop of one stack entry ends within
`x2 - x1 + 1` iterations (`cx` strictly increases), never indexes outside the screen or the span lists, and every span
it collects shrinks `unc`; the worklist loop ends because `3 * unc + stack size` decreases with every entry popped. -/
namespace IcyVerif.Bgi

/-- a stack entry: columns inside `0 .. W-1` (`W = min(viewport width, 640)`), a screen row, direction ±1 -/
def FLIok (W : Int) (f : FLI) : Prop := 0 ≤ f.x1 ∧ f.x2 ≤ W - 1 ∧ (f.dir = 1 ∨ f.dir = -1) ∧ 0 ≤ f.y ∧ f.y < 350

theorem pushSpans_ok (s : Bgi) (W : Int) (st : List FLI) (fli : FLI) (li : LI) (hf : FLIok W fli)
    (hx2 : 0 ≤ fli.x2) (hx1 : fli.x1 ≤ W) (hl1 : 0 ≤ li.x1) (hl2 : li.x2 ≤ W - 1) (hy0 : 0 ≤ li.y) (hy1 : li.y < 350)
    (hst : ∀ f, f ∈ st → FLIok W f) :
    (∀ f, f ∈ pushSpans s st fli li → FLIok W f) ∧ (pushSpans s st fli li).length ≤ st.length + 3 := by
  obtain ⟨f1, f2, f3, f4, f5⟩ := hf
  have hd : (-fli.dir = 1 ∨ -fli.dir = -1) := by omega
  have a0 : FLIok W ⟨fli.dir, li.x1, li.x2, li.y⟩ := ⟨hl1, hl2, f3, hy0, hy1⟩
  have a1 : FLIok W ⟨-fli.dir, fli.x2 + 1, li.x2, li.y⟩ := ⟨by dsimp only; omega, hl2, hd, hy0, hy1⟩
  have a2 : FLIok W ⟨-fli.dir, li.x1, fli.x1 - 1, li.y⟩ := ⟨hl1, by dsimp only; omega, hd, hy0, hy1⟩
  unfold pushSpans
  simp only []
  split
  · split <;> split
    · refine ⟨?_, by simp only [List.length_cons]; omega⟩
      intro f hm
      simp only [List.mem_cons] at hm
      rcases hm with h | h | h | h
      · subst h; exact a2
      · subst h; exact a1
      · subst h; exact a0
      · exact hst f h
    · refine ⟨?_, by simp only [List.length_cons]; omega⟩
      intro f hm
      simp only [List.mem_cons] at hm
      rcases hm with h | h | h
      · subst h; exact a2
      · subst h; exact a0
      · exact hst f h
    · refine ⟨?_, by simp only [List.length_cons]; omega⟩
      intro f hm
      simp only [List.mem_cons] at hm
      rcases hm with h | h | h
      · subst h; exact a1
      · subst h; exact a0
      · exact hst f h
    · refine ⟨?_, by simp only [List.length_cons]; omega⟩
      intro f hm
      simp only [List.mem_cons] at hm
      rcases hm with h | h
      · subst h; exact a0
      · exact hst f h
  · refine ⟨?_, by simp only [List.length_cons]; omega⟩
    intro f hm
    simp only [List.mem_cons] at hm
    rcases hm with h | h
    · subst h; exact a0
    · exact hst f h

/-- the scan loop of one stack entry -/
theorem ffInner_spec {s : Bgi} (hc : FillCtx s) (b : Nat) (fli : FLI) (hfli : FLIok (min s.vp.w 640) fli)
    (cury : Int) (hy0 : 0 ≤ cury) (hy1 : cury < 350) :
    ∀ (fuel : Nat) (cx : Int) (fl : Array (List LI)) (st : List FLI) (n : Nat),
      fli.x1 ≤ cx → 0 ≤ cx → (fli.x2 + 1 - cx).toNat ≤ fuel → FlOk fl → (∀ f, f ∈ st → FLIok (min s.vp.w 640) f) →
      ∃ fl' st' n', ffInner s b fli cury (cury * 640) fuel cx fl st n = .ok (fl', st', n') ∧ FlOk fl' ∧
        (∀ f, f ∈ st' → FLIok (min s.vp.w 640) f) ∧ 3 * unc fl' + st'.length ≤ 3 * unc fl + st.length ∧
        spans fl' + unc fl' ≤ spans fl + unc fl ∧ n' ≤ n + fuel * 1281 := by
  have hW := hc.hW
  have hsz := hc.hsz
  have hwid : 1 ≤ min s.vp.w 640 ∧ min s.vp.w 640 ≤ 640 := by have := hc.hvw1; omega
  intro fuel
  induction fuel with
  | zero =>
    intro cx fl st n h1 h0 hfu hfl hst
    unfold ffInner
    have : cx > fli.x2 := by omega
    simp only [this, if_true]
    exact ⟨fl, st, n, rfl, hfl, hst, Nat.le_refl _, Nat.le_refl _, by omega⟩
  | succ f ih =>
    intro cx fl st n h1 h0 hfu hfl hst
    unfold ffInner
    by_cases hgt : cx > fli.x2
    · simp only [hgt, if_true]
      exact ⟨fl, st, n, rfl, hfl, hst, Nat.le_refl _, Nat.le_refl _, by omega⟩
    · simp only [hgt, if_false]
      have hx2 : fli.x2 ≤ min s.vp.w 640 - 1 := hfli.2.1
      rw [chk_of_range (v := cury * 640 + cx) (by simp only [i32Min]; omega) (by simp only [i32Max]; omega)]
      simp only []
      obtain ⟨v, hv⟩ := scrAt_some (scr := s.screen) (i := cury * 640 + cx) (by omega) (by rw [hsz]; omega)
      rw [hv]
      simp only []
      by_cases hb : v = b ∨ (v = s.fillColor ∧ s.fillStyle = Gen.Bgi.fillStyleSolid)
      · simp only [hb, if_true]
        obtain ⟨fl', st', n', e, a1, a2, a3, a4, a5⟩ := ih (cx + 1) fl st (n + 1) (by omega) (by omega) (by omega) hfl hst
        exact ⟨fl', st', n', e, a1, a2, a3, a4, by omega⟩
      · simp only [hb, if_false]
        have hvb : v ≠ b := fun h => hb (Or.inl h)
        obtain ⟨row, hrow, had⟩ := alreadyDrawn_ok hfl cx hy0 hy1
        rw [had]
        cases hcov : coversX row cx with
        | true =>
          simp only []
          obtain ⟨fl', st', n', e, a1, a2, a3, a4, a5⟩ := ih (cx + 1) fl st (n + 1) (by omega) (by omega) (by omega) hfl hst
          exact ⟨fl', st', n', e, a1, a2, a3, a4, by omega⟩
        | false =>
          simp only []
          obtain ⟨r, c, hfind, hcle, hli⟩ := findLine_spec hc cx cury b h0 (by omega) hy0 hy1
          rw [hfind]
          cases r with
          | none =>
            simp only []
            obtain ⟨fl', st', n', e, a1, a2, a3, a4, a5⟩ := ih (cx + 1) fl st (n + 1 + c) (by omega) (by omega) (by omega) hfl hst
            exact ⟨fl', st', n', e, a1, a2, a3, a4, by omega⟩
          | some li =>
            simp only []
            obtain ⟨l1, l2, l3, l4, l5, l6⟩ := hli li rfl
            have hcxli : cx ≤ li.x2 := l6 (by omega) v hv hvb
            obtain ⟨fl1, hpush, hfl1, hsp, hun, hdec⟩ := pushLine_ok hfl li cury.toNat (by omega) ⟨by omega, l2, by omega, l4, by omega⟩
            rw [hpush]
            simp only []
            have hdec' := hdec cx h0 (by omega) (by rw [l1, had, hcov]) l3 hcxli
            obtain ⟨hps1, hps2⟩ := pushSpans_ok s (min s.vp.w 640) st fli li hfli (by omega) (by omega) l2 l5 (by omega) (by omega) hst
            obtain ⟨fl', st', n', e, a1, a2, a3, a4, a5⟩ := ih (li.x2 + 1) fl1 (pushSpans s st fli li) (n + 1 + c)
              (by omega) (by omega) (by omega) hfl1 hps1
            exact ⟨fl', st', n', e, a1, a2, by omega, by omega, by omega⟩

/-- the worklist loop -/
theorem ffOuter_spec {s : Bgi} (hc : FillCtx s) (b : Nat) (top bottom : Int) (ht : 0 ≤ top) (hb : bottom ≤ 350) :
    ∀ (fuel : Nat) (st : List FLI) (fl : Array (List LI)) (n : Nat),
      FlOk fl → (∀ f, f ∈ st → FLIok (min s.vp.w 640) f) → 3 * unc fl + st.length ≤ fuel →
      ∃ fl' n', ffOuter s b top bottom fuel st fl n = .ok (fl', n') ∧ FlOk fl' ∧
        spans fl' + unc fl' ≤ spans fl + unc fl ∧ n' ≤ n + fuel * 819841 := by
  have hW := hc.hW
  intro fuel
  induction fuel with
  | zero =>
    intro st fl n hfl hst hm
    cases st with
    | nil => exact ⟨fl, n, rfl, hfl, Nat.le_refl _, by omega⟩
    | cons a t => simp at hm
  | succ f ih =>
    intro st fl n hfl hst hm
    cases st with
    | nil => exact ⟨fl, n, by unfold ffOuter; rfl, hfl, Nat.le_refl _, by omega⟩
    | cons fli t =>
      have hfli := hst fli (List.mem_cons_self)
      have ht' : ∀ f, f ∈ t → FLIok (min s.vp.w 640) f := fun f h => hst f (List.mem_cons_of_mem _ h)
      obtain ⟨f1, f2, f3, f4, f5⟩ := hfli
      have hwid : 1 ≤ min s.vp.w 640 ∧ min s.vp.w 640 ≤ 640 := by have := hc.hvw1; omega
      unfold ffOuter
      rw [chk_of_range (v := fli.y + fli.dir) (by simp only [i32Min]; omega) (by simp only [i32Max]; omega)]
      simp only []
      simp only [List.length_cons] at hm
      by_cases hin : fli.y + fli.dir < bottom ∧ fli.y + fli.dir ≥ top
      · simp only [hin, and_self, if_true, hW]
        rw [chk_of_range (v := (fli.y + fli.dir) * 640) (by simp only [i32Min]; omega) (by simp only [i32Max]; omega)]
        simp only []
        obtain ⟨fl1, st1, n1, e, a1, a2, a3, a4, a5⟩ := ffInner_spec hc b fli ⟨f1, f2, f3, f4, f5⟩ (fli.y + fli.dir) (by omega) (by omega)
          (fli.x2 - fli.x1 + 1).toNat fli.x1 fl t (n + 1) (by omega) f1 (by omega) hfl ht'
        rw [e]
        simp only []
        obtain ⟨fl', n', e', b1, b2, b3⟩ := ih st1 fl1 n1 a1 a2 (by omega)
        have hfu : (fli.x2 - fli.x1 + 1).toNat ≤ 640 := by omega
        exact ⟨fl', n', e', b1, by omega, by omega⟩
      · simp only [hin, if_false]
        obtain ⟨fl', n', e', b1, b2, b3⟩ := ih t fl (n + 1) hfl ht' (by omega)
        exact ⟨fl', n', e', b1, b2, by omega⟩

end IcyVerif.Bgi
