import IcyVerif.Model.BgiLine
import IcyVerif.Lemmas.Bgi
/-! `fill_x` / `fill_y` / `line`: the screen keeps its length and the pixel work of every span is bounded by the viewport. -/
set_option linter.unusedSimpArgs false
set_option linter.unusedVariables false
namespace IcyVerif.Bgi

theorem pixelRun_size (n : Nat) : ∀ (s s' : Bgi) (hz : Bool) (fixed lo : Int), pixelRun s hz fixed lo n = some s' →
    s'.screen.size = s.screen.size ∧ s'.vp = s.vp ∧ s'.winW = s.winW ∧ s'.winH = s.winH := by
  induction n with
  | zero => intro s s' hz fixed lo h; simp [pixelRun] at h; subst h; exact ⟨rfl, rfl, rfl, rfl⟩
  | succ k ih =>
    intro s s' hz fixed lo h
    unfold pixelRun at h
    cases hp : (if hz then putPixel s lo fixed s.color else putPixel s fixed lo s.color) with
    | none => simp [hp] at h
    | some s1 =>
      simp only [hp] at h
      obtain ⟨a, b, c, d⟩ := ih s1 s' hz fixed (lo + 1) h
      have hs1 : s1.screen.size = s.screen.size ∧ s1.vp = s.vp ∧ s1.winW = s.winW ∧ s1.winH = s.winH := by
        cases hz with
        | true => simp at hp; exact ⟨putPixel_size hp, (putPixel_frame hp).1, (putPixel_frame hp).2.1, (putPixel_frame hp).2.2.1⟩
        | false => simp at hp; exact ⟨putPixel_size hp, (putPixel_frame hp).1, (putPixel_frame hp).2.1, (putPixel_frame hp).2.2.1⟩
      exact ⟨by rw [a, hs1.1], by rw [b, hs1.2.1], by rw [c, hs1.2.2.1], by rw [d, hs1.2.2.2]⟩

theorem spanLoop_spec (n : Nat) : ∀ (s : Bgi) (isX : Bool) (pos runLo : Int) (runLen : Nat) (inc offset : Int) (cost : Nat)
    (s' : Bgi) (off' : Int) (cost' : Nat),
    spanLoop s isX pos runLo runLen inc n offset cost = some (s', off', cost') →
    s'.screen.size = s.screen.size ∧ s'.vp = s.vp ∧ s'.winW = s.winW ∧ s'.winH = s.winH ∧ cost' ≤ cost + n * runLen := by
  induction n with
  | zero =>
    intro s isX pos runLo runLen inc offset cost s' off' cost' h
    simp [spanLoop] at h
    obtain ⟨h1, _, h3⟩ := h
    subst h1; subst h3
    exact ⟨rfl, rfl, rfl, rfl, by omega⟩
  | succ k ih =>
    intro s isX pos runLo runLen inc offset cost s' off' cost' h
    unfold spanLoop at h
    have hmul : (k + 1) * runLen = k * runLen + runLen := by rw [Nat.add_mul]; simp
    split at h
    · cases hp : pixelRun s (!isX) pos runLo runLen with
      | none => simp [hp] at h
      | some s1 =>
        simp only [hp] at h
        obtain ⟨a, b, c, d, e⟩ := ih _ _ _ _ _ _ _ _ _ _ _ h
        obtain ⟨a1, b1, c1, d1⟩ := pixelRun_size _ _ _ _ _ _ hp
        exact ⟨by rw [a, a1], by rw [b, b1], by rw [c, c1], by rw [d, d1], by omega⟩
    · obtain ⟨a, b, c, d, e⟩ := ih _ _ _ _ _ _ _ _ _ _ _ h
      exact ⟨a, b, c, d, by omega⟩

/-- the pixel work of one `fill_x` is bounded by the viewport, whatever `count` and the coordinates are -/
theorem fillX_spec {s s' : Bgi} {y startx count offset off' : Int} {cost : Nat}
    (h : fillX s y startx count offset = some (s', off', cost)) :
    s'.screen.size = s.screen.size ∧ s'.vp = s.vp ∧ s'.winW = s.winW ∧ s'.winH = s.winH ∧
    cost ≤ (s.vp.x + s.vp.w).toNat * (s.vp.y + s.vp.h).toNat := by
  unfold fillX at h
  by_cases hge : min startx (spanEnd startx count) ≥ s.vp.x + s.vp.w
  · rw [if_pos hge] at h
    cases h; exact ⟨rfl, rfl, rfl, rfl, by omega⟩
  · rw [if_neg hge] at h
    rw [Option.map_eq_some_iff] at h
    obtain ⟨r, hsl, hr⟩ := h
    obtain ⟨s1, off1, c1⟩ := r
    simp only [Prod.mk.injEq] at hr
    obtain ⟨h1, _, h3⟩ := hr
    subst h1; subst h3
    obtain ⟨a, b, c, d, e⟩ := spanLoop_spec _ _ _ _ _ _ _ _ _ _ _ _ hsl
    refine ⟨a, b, c, d, ?_⟩
    refine Nat.le_trans e ?_
    simp only [Nat.zero_add]
    apply Nat.mul_le_mul
    · unfold spanLen; omega
    · unfold spanLen; omega

theorem fillY_spec {s s' : Bgi} {x startY count offset off' : Int} {cost : Nat}
    (h : fillY s x startY count offset = some (s', off', cost)) :
    s'.screen.size = s.screen.size ∧ s'.vp = s.vp ∧ s'.winW = s.winW ∧ s'.winH = s.winH ∧
    cost ≤ (s.vp.y + s.vp.h).toNat * (s.vp.x + s.vp.w).toNat := by
  unfold fillY at h
  by_cases hge : min startY (spanEnd startY count) ≥ s.vp.y + s.vp.h
  · rw [if_pos hge] at h
    cases h; exact ⟨rfl, rfl, rfl, rfl, by omega⟩
  · rw [if_neg hge] at h
    rw [Option.map_eq_some_iff] at h
    obtain ⟨r, hsl, hr⟩ := h
    obtain ⟨s1, off1, c1⟩ := r
    simp only [Prod.mk.injEq] at hr
    obtain ⟨h1, _, h3⟩ := hr
    subst h1; subst h3
    obtain ⟨a, b, c, d, e⟩ := spanLoop_spec _ _ _ _ _ _ _ _ _ _ _ _ hsl
    refine ⟨a, b, c, d, ?_⟩
    refine Nat.le_trans e ?_
    simp only [Nat.zero_add]
    apply Nat.mul_le_mul
    · unfold spanLen; omega
    · unfold spanLen; omega

/-- viewport area in pixels (columns 0..right-1, rows 0..bottom-1): the bound of one span -/
def vpArea (s : Bgi) : Nat := (s.vp.x + s.vp.w).toNat * (s.vp.y + s.vp.h).toNat

theorem fillX_area {s s' : Bgi} {y startx count offset off' : Int} {cost : Nat}
    (h : fillX s y startx count offset = some (s', off', cost)) :
    s'.screen.size = s.screen.size ∧ s'.vp = s.vp ∧ s'.winW = s.winW ∧ s'.winH = s.winH ∧ cost ≤ vpArea s :=
  fillX_spec h

theorem fillY_area {s s' : Bgi} {x startY count offset off' : Int} {cost : Nat}
    (h : fillY s x startY count offset = some (s', off', cost)) :
    s'.screen.size = s.screen.size ∧ s'.vp = s.vp ∧ s'.winW = s.winW ∧ s'.winH = s.winH ∧ cost ≤ vpArea s := by
  obtain ⟨a, b, c, d, e⟩ := fillY_spec h
  exact ⟨a, b, c, d, by unfold vpArea; rw [Nat.mul_comm]; exact e⟩

theorem vpArea_congr {s s' : Bgi} (h : s'.vp = s.vp) : vpArea s' = vpArea s := by unfold vpArea; rw [h]

theorem xRuns_spec (n : Nat) : ∀ (s : Bgi) (whole step adjUp adjDown px py err offset : Int) (cost : Nat)
    (s' : Bgi) (px' py' err' off' : Int) (cost' : Nat),
    xRuns s whole step adjUp adjDown n px py err offset cost = some (s', px', py', err', off', cost') →
    s'.screen.size = s.screen.size ∧ s'.vp = s.vp ∧ s'.winW = s.winW ∧ s'.winH = s.winH ∧ cost' ≤ cost + n * vpArea s := by
  induction n with
  | zero =>
    intro s whole step adjUp adjDown px py err offset cost s' px' py' err' off' cost' h
    simp [xRuns] at h
    obtain ⟨h1, _, _, _, _, h6⟩ := h
    subst h1; subst h6
    exact ⟨rfl, rfl, rfl, rfl, by omega⟩
  | succ k ih =>
    intro s whole step adjUp adjDown px py err offset cost s' px' py' err' off' cost' h
    unfold xRuns at h
    simp only [] at h
    have hmul : (k + 1) * vpArea s = k * vpArea s + vpArea s := by rw [Nat.add_mul]; simp
    by_cases he : err + adjUp > 0
    · simp only [he, if_true] at h
      cases hf : fillX s py px (whole + step) offset with
      | none => simp [hf] at h
      | some r =>
        obtain ⟨s1, off1, c1⟩ := r
        simp only [hf] at h
        obtain ⟨a1, b1, c1', d1, e1⟩ := fillX_area hf
        obtain ⟨a, b, c, d, e⟩ := ih _ _ _ _ _ _ _ _ _ _ _ _ _ _ _ _ h
        rw [vpArea_congr b1] at e
        exact ⟨by rw [a, a1], by rw [b, b1], by rw [c, c1'], by rw [d, d1], by omega⟩
    · simp only [he, if_false] at h
      cases hf : fillX s py px whole offset with
      | none => simp [hf] at h
      | some r =>
        obtain ⟨s1, off1, c1⟩ := r
        simp only [hf] at h
        obtain ⟨a1, b1, c1', d1, e1⟩ := fillX_area hf
        obtain ⟨a, b, c, d, e⟩ := ih _ _ _ _ _ _ _ _ _ _ _ _ _ _ _ _ h
        rw [vpArea_congr b1] at e
        exact ⟨by rw [a, a1], by rw [b, b1], by rw [c, c1'], by rw [d, d1], by omega⟩

theorem yRuns_spec (n : Nat) : ∀ (s : Bgi) (whole adv adjUp adjDown px py err offset : Int) (cost : Nat)
    (s' : Bgi) (px' py' err' off' : Int) (cost' : Nat),
    yRuns s whole adv adjUp adjDown n px py err offset cost = some (s', px', py', err', off', cost') →
    s'.screen.size = s.screen.size ∧ s'.vp = s.vp ∧ s'.winW = s.winW ∧ s'.winH = s.winH ∧ cost' ≤ cost + n * vpArea s := by
  induction n with
  | zero =>
    intro s whole adv adjUp adjDown px py err offset cost s' px' py' err' off' cost' h
    simp [yRuns] at h
    obtain ⟨h1, _, _, _, _, h6⟩ := h
    subst h1; subst h6
    exact ⟨rfl, rfl, rfl, rfl, by omega⟩
  | succ k ih =>
    intro s whole adv adjUp adjDown px py err offset cost s' px' py' err' off' cost' h
    unfold yRuns at h
    simp only [] at h
    have hmul : (k + 1) * vpArea s = k * vpArea s + vpArea s := by rw [Nat.add_mul]; simp
    by_cases he : err + adjUp > 0
    · simp only [he, if_true] at h
      cases hf : fillY s px py (whole + 1) offset with
      | none => simp [hf] at h
      | some r =>
        obtain ⟨s1, off1, c1⟩ := r
        simp only [hf] at h
        obtain ⟨a1, b1, c1', d1, e1⟩ := fillY_area hf
        obtain ⟨a, b, c, d, e⟩ := ih _ _ _ _ _ _ _ _ _ _ _ _ _ _ _ _ h
        rw [vpArea_congr b1] at e
        exact ⟨by rw [a, a1], by rw [b, b1], by rw [c, c1'], by rw [d, d1], by omega⟩
    · simp only [he, if_false] at h
      cases hf : fillY s px py whole offset with
      | none => simp [hf] at h
      | some r =>
        obtain ⟨s1, off1, c1⟩ := r
        simp only [hf] at h
        obtain ⟨a1, b1, c1', d1, e1⟩ := fillY_area hf
        obtain ⟨a, b, c, d, e⟩ := ih _ _ _ _ _ _ _ _ _ _ _ _ _ _ _ _ h
        rw [vpArea_congr b1] at e
        exact ⟨by rw [a, a1], by rw [b, b1], by rw [c, c1'], by rw [d, d1], by omega⟩

theorem lineX_spec {s s' : Bgi} {px py step : Int} {dx dy n : Nat} (hd : dy ≠ 0) (h : lineX s px py step dx dy = some (s', n)) :
    s'.screen.size = s.screen.size ∧ s'.vp = s.vp ∧ s'.winW = s.winW ∧ s'.winH = s.winH ∧ n ≤ (dy + 1) * vpArea s := by
  unfold lineX at h
  simp only [] at h
  split at h
  · cases h
  · rename_i r1 hf1
    obtain ⟨s1, off1, c1⟩ := r1
    obtain ⟨a1, b1, w1, d1, e1⟩ := fillX_area hf1
    split at h
    · cases h
    · rename_i r2 hx
      obtain ⟨s2, px2, py2, err2, off2, c2⟩ := r2
      obtain ⟨a2, b2, w2, d2, e2⟩ := xRuns_spec _ _ _ _ _ _ _ _ _ _ _ _ _ _ _ _ _ hx
      split at h
      · cases h
      · rename_i r3 hf3
        obtain ⟨s3, off3, c3⟩ := r3
        obtain ⟨a3, b3, w3, d3, e3⟩ := fillX_area hf3
        cases h
        simp only [] at *
        have v2 : vpArea s2 = vpArea s := by rw [vpArea_congr b2, vpArea_congr b1]
        have v1 : vpArea s1 = vpArea s := vpArea_congr b1
        rw [v2] at e3
        rw [v1] at e2
        refine ⟨by rw [a3, a2, a1], by rw [b3, b2, b1], by rw [w3, w2, w1], by rw [d3, d2, d1], ?_⟩
        have hm : (dy + 1) * vpArea s = dy * vpArea s + vpArea s := by rw [Nat.add_mul]; simp
        have hk : (dy - 1) * vpArea s + vpArea s ≤ dy * vpArea s + vpArea s := by
          apply Nat.add_le_add_right
          exact Nat.mul_le_mul_right _ (by omega)
        have : (dy - 1) * vpArea s + vpArea s = dy * vpArea s := by
          have hdd : dy = (dy - 1) + 1 := by omega
          conv => rhs; rw [hdd, Nat.add_mul]
          simp
        omega

theorem lineY_spec {s s' : Bgi} {px py adv : Int} {dx dy n : Nat} (hd : dx ≠ 0) (h : lineY s px py adv dx dy = some (s', n)) :
    s'.screen.size = s.screen.size ∧ s'.vp = s.vp ∧ s'.winW = s.winW ∧ s'.winH = s.winH ∧ n ≤ (dx + 1) * vpArea s := by
  unfold lineY at h
  simp only [] at h
  split at h
  · cases h
  · rename_i r1 hf1
    obtain ⟨s1, off1, c1⟩ := r1
    obtain ⟨a1, b1, w1, d1, e1⟩ := fillY_area hf1
    split at h
    · cases h
    · rename_i r2 hx
      obtain ⟨s2, px2, py2, err2, off2, c2⟩ := r2
      obtain ⟨a2, b2, w2, d2, e2⟩ := yRuns_spec _ _ _ _ _ _ _ _ _ _ _ _ _ _ _ _ _ hx
      split at h
      · cases h
      · rename_i r3 hf3
        obtain ⟨s3, off3, c3⟩ := r3
        obtain ⟨a3, b3, w3, d3, e3⟩ := fillY_area hf3
        cases h
        simp only [] at *
        have v2 : vpArea s2 = vpArea s := by rw [vpArea_congr b2, vpArea_congr b1]
        have v1 : vpArea s1 = vpArea s := vpArea_congr b1
        rw [v2] at e3
        rw [v1] at e2
        refine ⟨by rw [a3, a2, a1], by rw [b3, b2, b1], by rw [w3, w2, w1], by rw [d3, d2, d1], ?_⟩
        have hm : (dx + 1) * vpArea s = dx * vpArea s + vpArea s := by rw [Nat.add_mul]; simp
        have : (dx - 1) * vpArea s + vpArea s = dx * vpArea s := by
          have hdd : dx = (dx - 1) + 1 := by omega
          conv => rhs; rw [hdd, Nat.add_mul]
          simp
        omega

/-- `line`: the screen keeps its length; the number of `put_pixel` calls is at most (shorter delta + 1) spans, each
bounded by the viewport area -/
theorem lineCost_spec {s s' : Bgi} {x1 y1 x2 y2 : Int} {n : Nat} (h : lineCost s x1 y1 x2 y2 = some (s', n)) :
    s'.screen.size = s.screen.size ∧ s'.vp = s.vp ∧ s'.winW = s.winW ∧ s'.winH = s.winH ∧
    n ≤ (min (x2 - x1).natAbs (y2 - y1).natAbs + 1) * vpArea s := by
  unfold lineCost at h
  simp only [] at h
  by_cases hdx : (x2 - x1).natAbs = 0
  · rw [if_pos hdx] at h
    rw [Option.map_eq_some_iff] at h
    obtain ⟨r, hf, hr⟩ := h
    obtain ⟨s1, off1, c1⟩ := r
    simp only [Prod.mk.injEq] at hr
    obtain ⟨h1, h2⟩ := hr
    subst h1; subst h2
    obtain ⟨a, b, c, d, e⟩ := fillY_area hf
    refine ⟨a, b, c, d, ?_⟩
    rw [hdx]; simp; exact e
  · rw [if_neg hdx] at h
    by_cases hdy : (y2 - y1).natAbs = 0
    · rw [if_pos hdy] at h
      rw [Option.map_eq_some_iff] at h
      obtain ⟨r, hf, hr⟩ := h
      obtain ⟨s1, off1, c1⟩ := r
      simp only [Prod.mk.injEq] at hr
      obtain ⟨h1, h2⟩ := hr
      subst h1; subst h2
      obtain ⟨a, b, c, d, e⟩ := fillX_area hf
      refine ⟨a, b, c, d, ?_⟩
      rw [hdy]; simp; exact e
    · rw [if_neg hdy] at h
      by_cases hge : (x2 - x1).natAbs ≥ (y2 - y1).natAbs
      · rw [if_pos hge] at h
        obtain ⟨a, b, c, d, e⟩ := lineX_spec hdy h
        refine ⟨a, b, c, d, ?_⟩
        have : min (x2 - x1).natAbs (y2 - y1).natAbs = (y2 - y1).natAbs := by omega
        rw [this]; exact e
      · rw [if_neg hge] at h
        obtain ⟨a, b, c, d, e⟩ := lineY_spec hdx h
        refine ⟨a, b, c, d, ?_⟩
        have : min (x2 - x1).natAbs (y2 - y1).natAbs = (x2 - x1).natAbs := by omega
        rw [this]; exact e

theorem line_size {s s' : Bgi} {x1 y1 x2 y2 : Int} (h : line s x1 y1 x2 y2 = some s') :
    s'.screen.size = s.screen.size ∧ s'.winW = s.winW ∧ s'.winH = s.winH := by
  unfold line at h
  rw [Option.map_eq_some_iff] at h
  obtain ⟨r, hr, he⟩ := h
  obtain ⟨s1, n⟩ := r
  simp only [] at he
  subst he
  obtain ⟨a, _, c, d, _⟩ := lineCost_spec hr
  exact ⟨a, c, d⟩

end IcyVerif.Bgi
