import IcyVerif.Model.SauceUni
import IcyVerif.Lemmas.Sauce
set_option linter.unusedSimpArgs false
set_option linter.unusedVariables false
/-! # C11: lemmas for the CP437 ↔ Unicode layer of `SauceString` -/
namespace IcyVerif.Sauce
open IcyVerif.Gen.Sauce IcyVerif.Gen.Codec

theorem firstIdx_some : ∀ (tbl : List Nat) (i ch j : Nat), firstIdx tbl i ch = some j →
    i ≤ j ∧ j - i < tbl.length ∧ tbl.getD (j - i) 0 = ch := by
  intro tbl
  induction tbl with
  | nil => intro i ch j h; simp [firstIdx] at h
  | cons x xs ih =>
    intro i ch j h
    unfold firstIdx at h
    by_cases hx : x = ch
    · rw [if_pos hx] at h
      simp only [Option.some.injEq] at h
      subst h
      simp [hx]
    · rw [if_neg hx] at h
      obtain ⟨h1, h2, h3⟩ := ih (i + 1) ch j h
      refine ⟨by omega, by simp; omega, ?_⟩
      have e : j - i = (j - (i + 1)) + 1 := by omega
      rw [e]
      simpa using h3

theorem firstIdx_none : ∀ (tbl : List Nat) (i ch : Nat), ch ∉ tbl → firstIdx tbl i ch = none := by
  intro tbl
  induction tbl with
  | nil => intro i ch _; rfl
  | cons x xs ih =>
    intro i ch h
    unfold firstIdx
    have hx : x ≠ ch := fun e => h (by simp [e])
    rw [if_neg hx]
    exact ih (i + 1) ch (fun e => h (List.mem_cons_of_mem _ e))

theorem firstIdx_nodup : ∀ (tbl : List Nat) (i k : Nat), tbl.Nodup → k < tbl.length →
    firstIdx tbl i (tbl.getD k 0) = some (i + k) := by
  intro tbl
  induction tbl with
  | nil => intro i k _ hk; simp at hk
  | cons x xs ih =>
    intro i k hn hk
    cases k with
    | zero => simp [firstIdx]
    | succ k =>
      have hnd := List.nodup_cons.mp hn
      have hk' : k < xs.length := by simp at hk; omega
      have hmem : xs.getD k 0 ∈ xs := by
        rw [List.getD_eq_getElem?_getD, List.getElem?_eq_getElem hk']
        exact List.getElem_mem hk'
      have hne : x ≠ xs.getD k 0 := fun e => hnd.1 (e ▸ hmem)
      have e : (x :: xs).getD (k + 1) 0 = xs.getD k 0 := by simp
      rw [e]
      unfold firstIdx
      rw [if_neg hne, ih (i + 1) k hnd.2 hk']
      congr 1; omega

/-- membership in a list by traversal (for `decide +kernel`) -/
def nodupB : List Nat → Bool
  | [] => true
  | x :: xs => !(xs.contains x) && nodupB xs

theorem nodupB_sound : ∀ (l : List Nat), nodupB l = true → l.Nodup := by
  intro l
  induction l with
  | nil => intro _; exact List.nodup_nil
  | cons x xs ih =>
    intro h
    simp only [nodupB, Bool.and_eq_true, Bool.not_eq_true', List.contains_eq_mem, decide_eq_false_iff_not] at h
    exact List.nodup_cons.mpr ⟨h.1, ih h.2⟩

theorem cp437_nodup : cp437.Nodup := nodupB_sound _ (by decide +kernel)
theorem cp437_length : cp437.length = 256 := by decide +kernel

theorem cpByte_cpChar (b : Nat) (hb : b < 256) : cpByte (cpChar b) = b := by
  unfold cpByte cpChar
  rw [firstIdx_nodup cp437 0 b cp437_nodup (by rw [cp437_length]; exact hb)]
  simp

theorem cpChar_mem (b : Nat) (hb : b < 256) : cpChar b ∈ cp437 := by
  unfold cpChar
  have hl : b < cp437.length := by rw [cp437_length]; exact hb
  rw [List.getD_eq_getElem?_getD, List.getElem?_eq_getElem hl]
  exact List.getElem_mem hl

theorem cpByte_lt (ch : Nat) : cpByte ch < 256 := by
  unfold cpByte
  cases h : firstIdx cp437 0 ch with
  | none => simp [IcyVerif.Gen.SauceUni.substitute]
  | some j =>
    have := (firstIdx_some cp437 0 ch j h).2.1
    rw [cp437_length] at this
    simp; omega

theorem cpChar_cpByte (ch : Nat) (h : ch ∈ cp437) : cpChar (cpByte ch) = ch := by
  unfold cpByte
  cases hf : firstIdx cp437 0 ch with
  | none =>
    exfalso
    -- a member is found
    have : ∀ (tbl : List Nat) (i : Nat), ch ∈ tbl → firstIdx tbl i ch ≠ none := by
      intro tbl
      induction tbl with
      | nil => intro i hm; simp at hm
      | cons x xs ih =>
        intro i hm
        unfold firstIdx
        by_cases hx : x = ch
        · rw [if_pos hx]; simp
        · rw [if_neg hx]
          simp only [List.mem_cons] at hm
          rcases hm with hm | hm
          · exact absurd hm.symm hx
          · exact ih (i + 1) hm
    exact this cp437 0 h hf
  | some j =>
    have := (firstIdx_some cp437 0 ch j hf).2.2
    simpa [cpChar] using this

theorem cpByte_other (ch : Nat) (h : ch ∉ cp437) : cpByte ch = 63 := by
  unfold cpByte; rw [firstIdx_none cp437 0 ch h]; rfl

/-- a table character is a blank / NUL exactly when its byte is -/
theorem strip_cpByte (ch : Nat) (h : ch ∈ cp437) : stripSet.contains (cpByte ch) = stripSet.contains ch := by
  have h0 : cpChar 0 = 0 := by decide +kernel
  have h32 : cpChar 32 = 32 := by decide +kernel
  have hs : ∀ x, stripSet.contains x = (x == 0 || x == 32) := by
    intro x
    have : stripSet = [0, 32] := by decide
    rw [this]
    simp only [List.contains_cons, List.contains_nil, Bool.or_false]
  rw [hs, hs]
  have hrt := cpChar_cpByte ch h
  by_cases c0 : ch = 0
  · subst c0
    have : cpByte 0 = 0 := by have := cpByte_cpChar 0 (by omega); rwa [h0] at this
    rw [this]
  · by_cases c32 : ch = 32
    · subst c32
      have : cpByte 32 = 32 := by have := cpByte_cpChar 32 (by omega); rwa [h32] at this
      rw [this]
    · have b0 : cpByte ch ≠ 0 := fun e => by rw [e, h0] at hrt; exact c0 hrt.symm
      have b32 : cpByte ch ≠ 32 := fun e => by rw [e, h32] at hrt; exact c32 hrt.symm
      rw [beq_eq_false_iff_ne.mpr b0, beq_eq_false_iff_ne.mpr b32, beq_eq_false_iff_ne.mpr c0, beq_eq_false_iff_ne.mpr c32]

theorem stripT_map (f : Nat → Nat) (t : List Nat) (h : ∀ x ∈ t, stripSet.contains (f x) = stripSet.contains x) :
    stripT (t.map f) = (stripT t).map f := by
  unfold stripT
  have : ∀ (l : List Nat), (∀ x ∈ l, stripSet.contains (f x) = stripSet.contains x) →
      (l.map f).dropWhile (fun c => stripSet.contains c) = (l.dropWhile (fun c => stripSet.contains c)).map f := by
    intro l
    induction l with
    | nil => intro _; rfl
    | cons x xs ih =>
      intro hl
      have hx := hl x (List.mem_cons_self ..)
      simp only [List.map_cons, List.dropWhile_cons, hx]
      split
      · exact ih (fun y hy => hl y (List.mem_cons_of_mem _ hy))
      · rfl
  rw [← List.map_reverse, this t.reverse (fun x hx => h x (List.mem_reverse.mp hx)), List.map_reverse]

theorem stripT_length_le (s : List Nat) : (stripT s).length ≤ s.length := by
  unfold stripT
  rw [List.length_reverse]
  have := (List.dropWhile_suffix (fun c => stripSet.contains c) (l := s.reverse)).length_le
  simpa using this

theorem stripT_prefix (s : List Nat) : stripT s = s.take (stripT s).length := by
  unfold stripT
  rw [List.length_reverse]
  exact reverse_dropWhile_eq_take _ s

theorem stripT_mem (s : List Nat) : ∀ x ∈ stripT s, x ∈ s := by
  intro x hx
  rw [stripT_prefix] at hx
  exact List.mem_of_mem_take hx

/-- the heart of the string round trip: encode every character, strip, decode -/
theorem uni_core (len : Nat) (t : List Nat) (hl : t.length ≤ len) (hc : ∀ ch ∈ t, ch ∈ cp437) :
    (stripT (strFromUni len t)).map cpChar = stripT t := by
  have ht : t.take len = t := List.take_of_length_le hl
  unfold strFromUni
  rw [ht, stripT_map cpByte t (fun x hx => strip_cpByte x (hc x hx)), List.map_map]
  have : ∀ x ∈ stripT t, (cpChar ∘ cpByte) x = x := fun x hx => cpChar_cpByte x (hc x (stripT_mem t x hx))
  rw [List.map_congr_left this, List.map_id']

end IcyVerif.Sauce
