import IcyVerif.Model.Crc
set_option linter.unusedSimpArgs false
namespace IcyVerif.Crc
open IcyVerif.Gen.Crc

/-! ## generic helpers -/
theorem iter_succ' (f : α → α) (n : Nat) (x : α) : iter f (n+1) x = f (iter f n x) := by
  induction n generalizing x with
  | zero => rfl
  | succ n ih => simp only [iter] at ih ⊢; rw [ih]

theorem iter_add (f : α → α) (m n : Nat) (x : α) : iter f (m+n) x = iter f n (iter f m x) := by
  induction m generalizing x with
  | zero => simp [iter]
  | succ m ih => rw [Nat.add_right_comm]; simp only [iter]; exact ih _

theorem iter_linear {n : Nat} (f : BitVec n → BitVec n) (hf : ∀ a b, f (a ^^^ b) = f a ^^^ f b)
    (k : Nat) (a b : BitVec n) : iter f k (a ^^^ b) = iter f k a ^^^ iter f k b := by
  induction k generalizing a b with
  | zero => rfl
  | succ k ih => simp only [iter]; rw [hf, ih]

theorem xor_cancel_mid {n : Nat} (x y p : BitVec n) : x ^^^ p ^^^ (y ^^^ p) = x ^^^ y := by
  calc x ^^^ p ^^^ (y ^^^ p) = x ^^^ y ^^^ (p ^^^ p) := by ac_rfl
    _ = x ^^^ y := by simp

/-! ## linearity of the two shift-register steps -/
theorem step16_linear (a b : BitVec 16) : step16 (a ^^^ b) = step16 a ^^^ step16 b := by
  unfold step16
  have h : (a ^^^ b).msb = (a.msb ^^ b.msb) := by simp [BitVec.msb_xor]
  rw [h]
  cases ha : a.msb <;> cases hb : b.msb <;> simp [BitVec.shiftLeft_xor_distrib]
  · ac_rfl
  · ac_rfl
  · rw [xor_cancel_mid]

theorem step32_linear (a b : BitVec 32) : step32 (a ^^^ b) = step32 a ^^^ step32 b := by
  unfold step32
  have h : (a ^^^ b).getLsbD 0 = (a.getLsbD 0 ^^ b.getLsbD 0) := by simp
  rw [h]
  cases ha : a.getLsbD 0 <;> cases hb : b.getLsbD 0 <;> simp [BitVec.ushiftRight_xor_distrib]
  · ac_rfl
  · ac_rfl
  · rw [xor_cancel_mid]

/-- `Z` = eight steps = one zero byte shifted through the CRC-32 register -/
def Z (x : BitVec 32) : BitVec 32 := iter step32 8 x
theorem Z_linear (a b : BitVec 32) : Z (a ^^^ b) = Z a ^^^ Z b := iter_linear _ step32_linear 8 a b
def Z16 (x : BitVec 16) : BitVec 16 := iter step16 8 x
theorem Z16_linear (a b : BitVec 16) : Z16 (a ^^^ b) = Z16 a ^^^ Z16 b := iter_linear _ step16_linear 8 a b

/-! ## bits that are zero shift through untouched -/
theorem step32_clean (x : BitVec 32) (k : Nat) (h : ∀ j, j < k → x.getLsbD j = false) :
    iter step32 k x = x >>> k := by
  induction k with
  | zero => simp [iter]
  | succ k ih =>
    rw [iter_succ', ih (fun j hj => h j (Nat.lt_succ_of_lt hj))]
    unfold step32
    have : (x >>> k).getLsbD 0 = false := by simpa using h k (Nat.lt_succ_self k)
    rw [this]; simp [BitVec.shiftRight_add]

theorem step16_clean (x : BitVec 16) (k : Nat) (hk : k ≤ 16) (h : ∀ j, j < k → x.getLsbD (15 - j) = false) :
    iter step16 k x = x <<< k := by
  induction k with
  | zero => simp [iter]
  | succ k ih =>
    rw [iter_succ', ih (by omega) (fun j hj => h j (Nat.lt_succ_of_lt hj))]
    unfold step16
    have : (x <<< k).msb = false := by
      have := h k (Nat.lt_succ_self k)
      simp only [BitVec.msb_eq_getLsbD_last, BitVec.getLsbD_shiftLeft]
      have e : 16 - 1 - k = 15 - k := by omega
      simp [this]
    rw [this]; simp [BitVec.shiftLeft_add]

/-! ## table checks (`decide +kernel` over list traversals of the regenerated tables) -/
def okFrom (P : Nat → Nat → Bool) : Nat → List Nat → Bool
  | _, [] => true
  | i, v :: vs => P i v && okFrom P (i+1) vs

theorem okFrom_spec (P : Nat → Nat → Bool) (l : List Nat) (i : Nat) (h : okFrom P i l = true)
    (j : Nat) (hj : j < l.length) : P (i+j) (l.getD j 0) = true := by
  induction l generalizing i j with
  | nil => simp at hj
  | cons v vs ih =>
    simp only [okFrom, Bool.and_eq_true] at h
    cases j with
    | zero => simpa using h.1
    | succ j =>
      have := ih (i+1) h.2 j (by simpa using hj)
      simpa [Nat.add_assoc, Nat.add_comm 1 j] using this

def ok2 (P : Nat → Nat → Bool) : List Nat → List Nat → Bool
  | [], [] => true
  | p :: ps, q :: qs => P p q && ok2 P ps qs
  | _, _ => false

theorem ok2_spec (P : Nat → Nat → Bool) (a b : List Nat) (h : ok2 P a b = true)
    (j : Nat) (hj : j < a.length) : P (a.getD j 0) (b.getD j 0) = true := by
  induction a generalizing b j with
  | nil => simp at hj
  | cons p ps ih =>
    cases b with
    | nil => simp [ok2] at h
    | cons q qs =>
      simp only [ok2, Bool.and_eq_true] at h
      cases j with
      | zero => simpa using h.1
      | succ j => simpa using ih qs h.2 j (by simpa using hj)

def P16row (i v : Nat) : Bool := BitVec.ofNat 16 v == Z16 (BitVec.ofNat 16 (i <<< 8))
theorem t16_ok : okFrom P16row 0 t16 = true ∧ t16.length = 256 := by decide +kernel

theorem tab16_eq (i : Nat) (hi : i < 256) : tab16 i = Z16 (BitVec.ofNat 16 (i <<< 8)) := by
  have := okFrom_spec P16row t16 0 t16_ok.1 i (by rw [t16_ok.2]; exact hi)
  simpa [P16row, tab16] using this

def P32row0 (i v : Nat) : Bool := BitVec.ofNat 32 v == Z (BitVec.ofNat 32 i)
theorem t32r0_ok : okFrom P32row0 0 t32r0 = true ∧ t32r0.length = 256 := by decide +kernel

theorem t32_rows : t32 = [t32r0, t32r1, t32r2, t32r3, t32r4, t32r5, t32r6, t32r7, t32r8, t32r9,
    t32r10, t32r11, t32r12, t32r13, t32r14, t32r15] := rfl

theorem tab32_0_eq (i : Nat) (hi : i < 256) : tab32 0 i = Z (BitVec.ofNat 32 i) := by
  have := okFrom_spec P32row0 t32r0 0 t32r0_ok.1 i (by rw [t32r0_ok.2]; exact hi)
  simpa [P32row0, tab32, t32_rows] using this

/-- row k+1 is row k pushed through one more zero byte, *stated with the table-driven update* -/
def P32next (p q : Nat) : Bool :=
  BitVec.ofNat 32 q == ((BitVec.ofNat 32 p) >>> 8) ^^^ tab32 0 ((BitVec.ofNat 32 p).setWidth 8).toNat
def okChain : List (List Nat) → Bool
  | a :: b :: rest => (ok2 P32next a b && a.length == 256) && okChain (b :: rest)
  | _ => true
theorem t32_chain_ok : okChain t32 = true ∧ t32.length = 16 := by decide +kernel

end IcyVerif.Crc
