import IcyVerif.Lemmas.BinFormatsBin
import IcyVerif.Lemmas.BinFormatsSauce
set_option linter.unusedSimpArgs false
set_option linter.unusedVariables false
/-!
# C05, ArtWorx ADF: save → load reproduces every representable picture (with and without a SAUCE record)
-/
namespace IcyVerif.BinFormats
open IcyVerif.XbCompress IcyVerif.Gen

/-- `crop_loaded_file` leaves rows that hold cells alone -/
theorem popEmpty_nonempty (ls : List (List Cell)) (h : ∀ r ∈ ls, r ≠ []) : popEmpty ls = ls := by
  unfold popEmpty
  cases hr : ls.reverse with
  | nil =>
    have : ls = [] := by simpa using hr
    simp [this]
  | cons last before =>
    have hlast : last ≠ [] := h last (by
      have : last ∈ ls.reverse := by rw [hr]; simp
      simpa using this)
    have hd : popEmpty.dropEmptyRev (last :: before) = last :: before := by
      cases before with
      | nil => rfl
      | cons l2 r =>
        unfold popEmpty.dropEmptyRev
        have : last.isEmpty = false := by
          cases last with
          | nil => exact absurd rfl hlast
          | cons _ _ => rfl
        simp [this]
    simp only [hd]
    rw [← hr, List.reverse_reverse]

theorem partRow_nonempty (lw : Nat) (row : List Cell) (h : row ≠ []) : partRow lw row ≠ [] := by
  unfold partRow
  cases row with
  | nil => exact absurd rfl h
  | cons _ _ => simp

theorem palSame_of_eq (p : Pic) (g : LBuf) (h : g.pal = p.pal) : palSame p g = true := by
  unfold palSame
  simp [h]

theorem fits8_of_cells (p : Pic) (ice : Bool) (h : allCells p (attrCell ice) = true) : fits8 p.rows = true := by
  unfold fits8
  unfold allCells at h
  apply List.all_eq_true.mpr
  intro r hr
  apply List.all_eq_true.mpr
  intro c hc
  have := List.all_eq_true.mp (List.all_eq_true.mp h r hr) c hc
  unfold attrCell at this
  simp only [Bool.and_eq_true, decide_eq_true_eq] at this
  simpa using this.1.1

/-- the ADF loader on the body the writer produced, whatever `from_bytes` found at the end of the file -/
theorem adf_load (p : Pic) (f0 : Font) (s : Option Sauce.Sauce)
    (hs : ∀ s', s = some s' → s'.width = 80)
    (hwf : wellFormed p = true) (hw : p.w = 80) (hcells : allCells p (attrCell true) = true)
    (hpal : pal16 p.pal = true) (hpages : analyzeFontUsage p.rows.flatten = [0]) (hfd : f0.data.length = 4096) :
    adfLoad (BinFmt.adfVersion :: (toEgaData p.pal ++ (f0.data ++
        p.rows.flatMap (fun row => row.flatMap fun c => [c.ch, asU8 .ice c.attr])))) s =
      .ok { bw := 80, bh := (p.h : Int), lw := 80, lh := (p.h : Int),
            lines := (p.rows.map fun r => r.map shownCell).map (partRow 80), ice := .ice, pal := p.pal,
            fonts := [(0, mkFont 16 f0.data)], sauce := s.map metaOf } := by
  obtain ⟨hne, hrows, hwid⟩ := rows_nonempty p hwf
  unfold pal16 at hpal
  simp only [Bool.and_eq_true, beq_iff_eq] at hpal
  obtain ⟨hpl, hp6⟩ := hpal
  let rows' := p.rows.map fun r => r.map shownCell
  have hdec : p.rows.flatten.map ((fun q => (⟨q.1, fromU8 true q.2⟩ : Cell)) ∘ fun c => (c.ch, asU8 .ice c.attr)) =
      p.rows.flatten.map shownCell := by
    apply List.map_congr_left
    intro c hc
    obtain ⟨r, hr, hcr⟩ := List.mem_flatten.mp hc
    have hac : attrCell true c = true := by
      unfold allCells at hcells
      exact List.all_eq_true.mp (List.all_eq_true.mp hcells r hr) c hcr
    exact dec_ice c hac (page_zero p.rows hpages r hr c hcr)
  have hrl : rows'.length = p.h := by simp [rows', hrows]
  have hrne : rows' ≠ [] := by simp [rows', hne]
  have hrw : ∀ r ∈ rows', r.length = 80 := by
    intro r hr
    obtain ⟨r0, hr0, rfl⟩ := List.mem_map.mp hr
    rw [List.length_map, hwid r0 hr0, hw]
  -- the start buffer
  have hc : (BinFmt.adfClearsRows == 1) = true := by decide
  have hstart : ∃ (bh0 lh0 : Int) (ic : IceMode) (fs : List (Nat × Font)),
      (LBuf.start BinFmt.adfStartW BinFmt.adfStartH (BinFmt.adfClearsRows == 1)).setSauce true s =
      { bw := 80, bh := bh0, lw := 80, lh := lh0, lines := [], ice := ic, pal := dosPalette, fonts := fs, sauce := s.map metaOf } := by
    cases s with
    | none => rw [hc, start_setSauce_none]; exact ⟨_, _, _, _, rfl⟩
    | some s' =>
      have hw' := hs s' rfl
      rw [hc, start_setSauce _ _ s' (by omega) (by omega), hw']
      exact ⟨_, _, _, _, rfl⟩
  obtain ⟨bh0, lh0, ic, fs, hst⟩ := hstart
  generalize hrest : toEgaData p.pal ++ (f0.data ++ p.rows.flatMap (fun row => row.flatMap fun c => [c.ch, asU8 .ice c.attr])) = rest
  have hrlen : rest.length ≥ 4288 := by
    rw [← hrest]; simp only [List.length_append, toEgaData_length, hfd]; omega
  unfold adfLoad
  rw [hst]
  have hlen : ¬ ((BinFmt.adfVersion :: rest).length < BinFmt.adfHeaderLength) := by
    have : BinFmt.adfHeaderLength = 4289 := rfl
    simp only [List.length_cons, this]; omega
  simp only [hlen, if_false, ne_eq, not_true_eq_false]
  have hps : BinFmt.adfPaletteSize = 192 := rfl
  have hfs : BinFmt.adfFontSize = 4096 := rfl
  have ht1 : rest.take BinFmt.adfPaletteSize = toEgaData p.pal := by
    rw [← hrest]; exact List.take_left' (by rw [toEgaData_length, hps])
  have hd1 : rest.drop BinFmt.adfPaletteSize =
      f0.data ++ p.rows.flatMap (fun row => row.flatMap fun c => [c.ch, asU8 .ice c.attr]) := by
    rw [← hrest]; exact List.drop_left' (by rw [toEgaData_length, hps])
  rw [ht1, hd1, List.take_left' (by rw [hfd, hfs]), List.drop_left' (by rw [hfd, hfs]), fromEga_toEga p.pal hpl hp6,
    flatMap_rows, pairsOf_flat, List.map_map, hdec, map_flatten_rows]
  have hplace := placeAll_rows true false 80 (by omega) rows'
    ({ bw := 80, bh := bh0, lw := 80, lh := lh0, lines := [], ice := IceMode.ice, pal := p.pal, fonts := [(0, mkFont 16 f0.data)],
       sauce := s.map metaOf } : LBuf)
    hrw (Nat.le_refl _) (Or.inl rfl)
  simp only [List.length_nil, List.nil_append, hrne, ne_eq, not_false_eq_true, and_true, if_true, Bool.false_eq_true,
    false_and, if_false, hrl] at hplace
  have hw80 : BinFmt.adfWidth = 80 := rfl
  simp only [hw80]
  show Out.ok (LBuf.crop (placeAll true false 0 (80 - 1) _ 0 0 rows'.flatten).1) = _
  rw [hplace]
  unfold LBuf.crop
  rw [popEmpty_nonempty]
  · simp [hrl, rows', hrows]
  · intro r hr
    obtain ⟨r0, hr0, rfl⟩ := List.mem_map.mp hr
    apply partRow_nonempty
    have := hrw r0 hr0
    intro he; rw [he] at this; simp at this


/-- the buffer the ADF loader produces for a representable picture -/
def adfLoaded (p : Pic) (f0 : Font) (m : Option Sauce.Meta) : LBuf :=
  { bw := 80, bh := (p.h : Int), lw := 80, lh := (p.h : Int),
    lines := (p.rows.map fun r => r.map shownCell).map (partRow 80), ice := .ice, pal := p.pal,
    fonts := [(0, mkFont 16 f0.data)], sauce := m }

theorem fontOk_parts (f : Font) (h : fontOk f = true) :
    1 ≤ f.height ∧ f.height ≤ 32 ∧ f.data.length = 256 * f.height ∧ (f.isDefault = true → f = defaultFont) := by
  unfold fontOk at h
  simp only [Bool.and_eq_true, decide_eq_true_eq, beq_iff_eq] at h
  obtain ⟨⟨h1, h2⟩, h3⟩ := h
  refine ⟨h1, h2, h3, fun hd => ?_⟩
  unfold Font.isDefault at hd
  simp only [Bool.and_eq_true, beq_iff_eq] at hd
  obtain ⟨⟨hn, hh⟩, hdt⟩ := hd
  cases f
  simp only [defaultFont] at *
  subst hn hh hdt
  rfl

theorem lookupFont_single (f : Font) : lookupFont [(0, f)] 0 = some f := by
  unfold lookupFont; simp [List.lookup]

theorem font16_parts (f : Font) (h : font16 f = true) : f.height = 16 ∧ f.data.length = 4096 := by
  unfold font16 at h
  simpa using h

theorem samePicture_adf (p : Pic) (f0 : Font) (m : Option Sauce.Meta) (hwf : wellFormed p = true) (hw : p.w = 80) (hice : p.ice = .ice)
    (hpages : analyzeFontUsage p.rows.flatten = [0]) (hf : lookupFont p.fonts 0 = some f0) (hf16 : f0.height = 16) :
    SamePicture .adf p (adfLoaded p f0 m) := by
  obtain ⟨hne, hrows, hwid⟩ := rows_nonempty p hwf
  refine ⟨hw.symm, rfl, ?_, ?_, ?_, ?_, ?_⟩
  · show (((p.rows.map fun r => r.map shownCell).map (partRow 80)).length : Int) ≤ (p.h : Int)
    simp [hrows]
  · show isIce IceMode.ice = isIce p.ice
    rw [hice]
  · exact cells_of_rows p (adfLoaded p f0 m) hwf (by rw [hw]; exact Nat.le_refl _) rfl rfl rfl
  · intro _
    unfold fontsSame
    rw [hpages]
    simp only [List.all_cons, List.all_nil, Bool.and_true, hf]
    show (match lookupFont [(0, mkFont 16 f0.data)] 0 with
          | some b => f0.height == b.height && f0.data == b.data
          | none => false) = true
    rw [lookupFont_single]
    simp [mkFont, hf16]
  · intro _; exact palSame_of_eq p (adfLoaded p f0 m) rfl

/-- ADF: every representable picture is written, and — unless it was saved without a SAUCE record and its tail reads as
    one — loaded back as the same picture -/
theorem adf_roundtrip (o : Opts) (date : List Nat) (p : Pic) (hrep : Representable .adf o p = true) (hdate : dateOk date = true) :
    ∃ bytes, save .adf o date p = .ok bytes ∧
      ((o.sauce = true ∨ tailReadsAsSauce bytes = false) → ∃ g, fromBytes .adf bytes = .ok g ∧ SamePicture .adf p g) := by
  unfold Representable at hrep
  simp only [Bool.and_eq_true, beq_iff_eq, decide_eq_true_eq] at hrep
  obtain ⟨⟨hmeta, hwf⟩, ⟨⟨⟨⟨⟨⟨hw, hh⟩, hice⟩, hcells⟩, hpal⟩, hpages⟩, hfont⟩⟩ := hrep
  cases hf : lookupFont p.fonts 0 with
  | none => rw [hf] at hfont; exact absurd hfont (by simp)
  | some f0 =>
    rw [hf] at hfont
    obtain ⟨hf16, hfd⟩ := font16_parts f0 hfont
    have hpl : p.pal.length = 16 := by
      unfold pal16 at hpal; simp only [Bool.and_eq_true, beq_iff_eq] at hpal; exact hpal.1
    let cellBytes := p.rows.flatMap (fun row => row.flatMap fun c => [c.ch, asU8 .ice c.attr])
    let body := [BinFmt.adfVersion] ++ toEgaData p.pal ++ f0.data ++ cellBytes
    have hbody : body = BinFmt.adfVersion :: (toEgaData p.pal ++ (f0.data ++ cellBytes)) := by
      simp [body, List.append_assoc]
    -- what the writer does before the SAUCE record
    have hsave0 : adfSave o.sauce date p = if o.sauce then writeSauce .ansi p date body else .ok body := by
      unfold adfSave
      have h1 : (p.ice != IceMode.ice) = false := by rw [hice]; rfl
      have h2 : ¬ (p.w ≠ BinFmt.adfWidth) := by rw [hw]; decide
      have h3 : ¬ (p.pal.length ≠ 16) := by rw [hpl]; decide
      have h4 : ¬ ((analyzeFontUsage p.rows.flatten).length > 1) := by rw [hpages]; decide
      have h5 : ¬ (f0.height ≠ 16) := by rw [hf16]; decide
      have h6 : (analyzeFontUsage p.rows.flatten).headD 0 = 0 := by rw [hpages]; rfl
      have h7 : (!rowsFit8 p.rows) = false := by
        have := fits8_of_cells p true hcells
        simp [rowsFit8, this]
      simp only [h1, Bool.false_eq_true, if_false, h2, h3, h4, hf, h5, h6, h7]
      rfl
    cases hsa : o.sauce with
    | true =>
      obtain ⟨bytes, hw1, _, hfb⟩ := fromBytes_sauced .adf .ansi p date body f0 hf hmeta (fun h => by cases h) hdate
      obtain ⟨c1, _, _⟩ := carry_ansi p f0.name (bytes.length - body.length) (by omega) (by omega)
      generalize Sauce.carry SauceKind.ansi.idx (bufInfo p f0.name) (bytes.length - body.length) = sc at hfb c1
      refine ⟨bytes, ?_, fun _ => ⟨adfLoaded p f0 (some (metaOf sc)), ?_, samePicture_adf p f0 _ hwf hw hice hpages hf hf16⟩⟩
      · show adfSave o.sauce date p = _
        rw [hsave0, hsa]; exact hw1
      · rw [hfb]
        show adfLoad body _ = _
        rw [hbody]
        exact adf_load p f0 _ (fun s' hs' => by cases hs'; rw [c1, hw]) hwf hw hcells hpal hpages hfd
    | false =>
      refine ⟨body, ?_, fun hor => ?_⟩
      · show adfSave o.sauce date p = _
        rw [hsave0, hsa]; rfl
      · have hl : tailReadsAsSauce body = false := by
          rcases hor with h | h
          · exact absurd h (by simp)
          · exact h
        refine ⟨adfLoaded p f0 none, ?_, samePicture_adf p f0 none hwf hw hice hpages hf hf16⟩
        rw [fromBytes_plain' .adf body hl]
        show adfLoad body none = _
        rw [hbody]
        exact adf_load p f0 none (fun s' hs' => by cases hs') hwf hw hcells hpal hpages hfd

end IcyVerif.BinFormats
