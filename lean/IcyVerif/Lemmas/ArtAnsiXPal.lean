import IcyVerif.Lemmas.ArtAnsiSgr
/-! # Palette facts for the extended-colour round trip (C04, `ansi_rt_partial₄`)

The reader's palette starts as the DOS palette and only grows (`Palette::insert_color` appends).  `pget P i` is the
palette lookup without the "bit 31 = direct RGB" escape of `Palette::get_rgb`; the two agree below 2^31.
Facts: what `insertColor` returns resolves to the inserted colour and stays valid when the palette grows; the DOS prefix
is never touched; the writer's xterm-256 lookup returns an index of the regenerated `XTERM_256_PALETTE` that holds
exactly the colour asked for. -/
set_option linter.unusedSimpArgs false
namespace IcyVerif.ArtIO
open IcyVerif.Gen.Art

def black : Rgb := (0, 0, 0)

/-- palette lookup by position (out of range: black) -/
def pget (P : List Rgb) (i : Nat) : Rgb := (P[i]?).getD (0, 0, 0)

theorem getRgb_eq_pget (P : List Rgb) (i : Nat) (h : i < 2147483648) : getRgb P i = pget P i := by
  unfold getRgb pget
  have : i / 2147483648 = 0 := Nat.div_eq_of_lt h
  simp [this]

/-- the palette starts with the 16 DOS colours -/
def DosPre (P : List Rgb) : Prop := dosPalette <+: P

theorem dosPre_refl : DosPre dosPalette := List.prefix_refl _

theorem DosPre.len {P : List Rgb} (h : DosPre P) : 16 ≤ P.length := by
  have := h.length_le
  simpa [dosPalette] using this

theorem pget_prefix {P Q : List Rgb} (h : P <+: Q) {i : Nat} (hi : i < P.length) : pget Q i = pget P i := by
  obtain ⟨t, rfl⟩ := h
  unfold pget
  rw [List.getElem?_append_left hi]

theorem DosPre.mono {P Q : List Rgb} (h : DosPre P) (hq : P <+: Q) : DosPre Q := List.IsPrefix.trans h hq

theorem DosPre.get {P : List Rgb} (h : DosPre P) {i : Nat} (hi : i < 16) : pget P i = getRgb dosPalette i := by
  have h1 : pget P i = pget dosPalette i := pget_prefix h (by simpa [dosPalette] using hi)
  rw [h1, getRgb_eq_pget _ _ (by omega)]

/-! ### `insertColor` -/

theorem insertColor_prefix (P : List Rgb) (c : Rgb) : P <+: (insertColor P c).1 := by
  unfold insertColor
  cases h : P.findIdx? (· == c) with
  | some i => exact List.prefix_refl _
  | none => exact List.prefix_append _ _

theorem insertColor_len (P : List Rgb) (c : Rgb) : (insertColor P c).1.length ≤ P.length + 1 := by
  unfold insertColor
  cases h : P.findIdx? (· == c) with
  | some i => simp
  | none => simp

theorem insertColor_lt (P : List Rgb) (c : Rgb) : (insertColor P c).2 < (insertColor P c).1.length := by
  unfold insertColor
  cases h : P.findIdx? (· == c) with
  | some i =>
    have := List.findIdx?_eq_some_iff_getElem.1 h
    obtain ⟨hi, _⟩ := this
    exact hi
  | none => simp

/-- `insert_resolves`: the index `insert_color` returns holds the colour -/
theorem insertColor_get (P : List Rgb) (c : Rgb) : pget (insertColor P c).1 (insertColor P c).2 = c := by
  unfold insertColor pget
  cases h : P.findIdx? (· == c) with
  | some i =>
    obtain ⟨hi, hp, _⟩ := List.findIdx?_eq_some_iff_getElem.1 h
    simp only []
    rw [List.getElem?_eq_getElem hi]
    simpa using hp
  | none => simp

/-! ### the DOS palette and the xterm-256 table -/

theorem dosIndex_some {c : Rgb} {j : Nat} (h : dosIndex c = some j) : j < 16 ∧ getRgb dosPalette j = c := by
  unfold dosIndex at h
  obtain ⟨hi, hp, _⟩ := List.findIdx?_eq_some_iff_getElem.1 h
  have hj : j < 16 := by simpa [dosPalette] using hi
  refine ⟨hj, ?_⟩
  rw [getRgb_eq_pget _ _ (by omega)]
  unfold pget
  rw [List.getElem?_eq_getElem hi]
  simpa using hp

theorem dosIndex_none {c : Rgb} (h : dosIndex c = none) : ∀ j < 16, getRgb dosPalette j ≠ c := by
  intro j hj e
  have := dos_index j hj
  rw [e, h] at this
  cases this

/-- a colour found in a palette with the DOS prefix at a position below 16 is that DOS colour -/
theorem dosIndex_of_pget {P : List Rgb} (hp : DosPre P) {j : Nat} (hj : j < 16) : dosIndex (pget P j) = some j := by
  rw [hp.get hj]; exact dos_index j hj

theorem xtermPalette_length : xtermPalette.length = 256 := by decide +kernel

theorem revIdx_spec (X : List Rgb) (c : Rgb) (i : Nat) (h : X.reverse.findIdx? (· == c) = some i) :
    i < X.length ∧ X.getD (X.length - 1 - i) (0, 0, 0) = c := by
  obtain ⟨hi, hp, _⟩ := List.findIdx?_eq_some_iff_getElem.1 h
  have hi' : i < X.length := by simpa using hi
  have hc : X.reverse[i] = c := by simpa using hp
  refine ⟨hi', ?_⟩
  have hidx : X.length - 1 - i < X.length := by omega
  rw [List.getD_eq_getElem?_getD, List.getElem?_eq_getElem hidx]
  simp only [Option.getD_some]
  rw [← hc, List.getElem_reverse]

/-- the writer's xterm-256 lookup returns a table index (at most 255) whose entry is the colour -/
theorem xtermIndex_spec (b : Bool) (c : Rgb) (e : Nat) (h : xtermIndex b c = some e) :
    e ≤ 255 ∧ xtermPalette.getD e (0, 0, 0) = c := by
  unfold xtermIndex at h
  have hlen := xtermPalette_length
  generalize xtermPalette = X at h hlen ⊢
  cases b with
  | false => simp at h
  | true =>
    simp only [if_true] at h
    cases hq : X.reverse.findIdx? (· == c) with
    | none => rw [hq] at h; cases h
    | some i =>
      rw [hq] at h
      simp only [Option.some.injEq] at h
      obtain ⟨h1, h2⟩ := revIdx_spec X c i hq
      subst h
      exact ⟨by omega, h2⟩

/-- every palette colour is a triple of bytes (`Color { r, g, b : u8 }`) -/
def PalBytes (pal : List Rgb) : Prop := ∀ c ∈ pal, c.1 < 256 ∧ c.2.1 < 256 ∧ c.2.2 < 256

theorem getRgb_bytes {pal : List Rgb} (h : PalBytes pal) (i : Nat) :
    (getRgb pal i).1 < 256 ∧ (getRgb pal i).2.1 < 256 ∧ (getRgb pal i).2.2 < 256 := by
  unfold getRgb
  split
  · exact ⟨Nat.mod_lt _ (by omega), Nat.mod_lt _ (by omega), Nat.mod_lt _ (by omega)⟩
  · cases hq : pal[i]? with
    | none => simp
    | some c =>
      have hm : c ∈ pal := List.mem_of_getElem? hq
      simpa using h c hm

end IcyVerif.ArtIO
