import IcyVerif.Lemmas.UndoFrames2
set_option linter.unusedSimpArgs false
set_option linter.unusedVariables false
/-! # C08: every public operation of `Call` only pushes records that obey the inverse law -/
namespace IcyVerif.Undo
open IcyVerif.Gen.Undo

theorem onValid_some {d : Doc} {layer : Nat} {op o : UndoOp} (h : onValid d layer op = .ok (some o)) : o = op := by
  unfold onValid at h
  split at h <;> simp at h
  exact h.symm

theorem onCurrent_some {d : Doc} {mk : Nat → UndoOp} {o : UndoOp} (h : onCurrent d mk = .ok (some o)) : ∃ i, o = mk i := by
  unfold onCurrent at h
  cases hc : d.currentLayer with
  | none => rw [hc] at h; simp at h
  | some i => rw [hc] at h; simp at h; exact ⟨i, h.symm⟩

/-- a record pushed with `push_undo_action` whose effect on the document is known -/
theorem inverseAt_of_undoable {op : UndoOp} {d : Doc} (h : ∀ op' d', op.redo d = .ok (op', d') → Undoable op' d.obs d'.obs) :
    InverseAt op d := h

theorem setSelectionBuild_good (s : Doc → Except Err Sel) : (Step.act (fun d => setSelectionBuild (s d) d)).Good := by
  intro d op hop
  simp only [setSelectionBuild] at hop
  cases hs : s d with
  | error e => rw [hs] at hop; simp at hop
  | ok sl =>
    rw [hs] at hop
    simp only at hop
    split at hop <;> simp at hop
    subst hop; exact inverse_setSelection d _ _

theorem clearSelectionBuild_good : (Step.act clearSelectionBuild).Good := by
  intro d op hop
  simp only [clearSelectionBuild] at hop
  split at hop <;> simp at hop
  subst hop; exact inverse_selectNothing d _ _

theorem replaceFontUsage_good (src dst : Nat) : (Step.edit (replaceFontUsageEdit src dst)).Good := by
  intro d op d' h
  simp only [replaceFontUsageEdit] at h
  simp at h
  obtain ⟨rfl, rfl⟩ := h
  exact undoable_replaceFontUsage d _ _ _

theorem areaSteps_good (f : Doc → LayerM → Rect → Except Err LayerM)
    (hf : ∀ d l l', f d l (getArea d.sel l.rect) = .ok l' → Frame (getArea d.sel l.rect) l.obs l'.obs) :
    ∀ s ∈ areaSteps f, s.Good := by
  intro s hs
  simp only [areaSteps, List.mem_cons, List.mem_nil_iff, or_false] at hs
  rcases hs with rfl | rfl | rfl
  · trivial
  · exact areaOp_good f hf
  · trivial

theorem centerSteps_good : ∀ s ∈ centerSteps, s.Good := by
  intro s hs
  simp only [centerSteps, List.mem_append, List.mem_cons, List.mem_nil_iff, or_false] at hs
  rcases hs with (rfl | hs) | rfl | rfl
  · trivial
  · exact areaSteps_good justifyLeftF (fun d l l' h => justifyLeft_frame d l _ l' h) s hs
  · exact areaOp_good centerF (fun d l l' h => center_frame d l _ l' h)
  · trivial

theorem scrollLeft_good : (Step.edit (fun d => match d.curLayer with
      | none => .error .err
      | some (i, l) => let a := getArea d.sel l.rect; if a.isEmpty then .ok none else layerEdit d i l a (scrollLeftF d l a))).Good :=
  scrollLR_good true

theorem scrollRight_good : (Step.edit (fun d => match d.curLayer with
      | none => .error .err
      | some (i, l) => let a := getArea d.sel l.rect; if a.isEmpty then .ok none else layerEdit d i l a (scrollRightF d l a))).Good :=
  scrollLR_good false

theorem merge_undoable {d : Doc} {layer : Nat} {op op' : UndoOp} {d' : Doc} (hb : mergeBuild layer d = .ok (some op))
    (hr : op.redo d = .ok (op', d')) : Undoable op' d.obs d'.obs := by
  unfold mergeBuild at hb
  split at hb
  · simp at hb
  · cases hc : d.curLayer with
    | none => rw [hc] at hb; simp at hb
    | some p =>
      obtain ⟨j, c⟩ := p
      rw [hc] at hb
      simp only at hb
      split at hb
      · simp at hb
      · cases h1 : d.layers[layer - 1]? with
        | none => rw [h1] at hb; simp at hb
        | some base =>
          cases h2 : d.layers[layer]? with
          | none => rw [h1, h2] at hb; simp at hb
          | some cur =>
            rw [h1, h2] at hb
            simp only at hb
            cases hm : mergeLayers base cur with
            | none => rw [hm] at hb; simp at hb
            | some r =>
              rw [hm] at hb
              cases r with
              | none => simp at hb
              | some m =>
                simp at hb
                subst hb
                exact inverse_mergeLayerDown d layer m none op' d' hr

/-- every step of every public operation of `Call` pushes only records that obey the inverse law — at every document,
    with no side condition -/
theorem call_steps_good (c : Call) : ∀ s ∈ c.steps, s.Good := by
  intro s hs
  cases c with
  | setCaret x y => simp [Call.steps] at hs; subst hs; intro d; rfl
  | setCurrentLayer i => simp [Call.steps] at hs; subst hs; intro d; rfl
  | selectPasteLayer =>
    simp [Call.steps] at hs; subst hs
    intro d
    simp only
    split <;> rfl
  | setMirror b => simp [Call.steps] at hs; subst hs; intro d; rfl
  | setChar x y c => simp [Call.steps] at hs; subst hs; exact setChar_good x y c
  | swapChar x1 y1 x2 y2 =>
    simp [Call.steps] at hs; subst hs
    intro d op hop
    obtain ⟨i, rfl⟩ := onCurrent_some hop
    exact inverse_swapChar d i _ _ _ _
  | addLayer layer =>
    simp [Call.steps] at hs
    rcases hs with rfl | rfl
    · intro d op hop
      simp only at hop
      cases hn : newLayer d.w d.h with
      | error e => rw [hn] at hop; simp at hop
      | ok l => rw [hn] at hop; simp at hop; subst hop; exact inverse_addLayer d _ _
    · intro d; rfl
  | removeLayer layer =>
    simp [Call.steps] at hs; subst hs
    intro d op hop
    rw [onValid_some hop]; exact inverse_removeLayer d layer none
  | raiseLayer layer =>
    simp [Call.steps] at hs
    rcases hs with rfl | rfl
    · intro d op hop
      simp only at hop
      split at hop <;> simp at hop
      subst hop; exact inverse_raiseLayer d layer
    · intro d; rfl
  | lowerLayer layer =>
    by_cases h0 : layer = 0
    · simp [Call.steps, h0] at hs
    · simp [Call.steps, h0] at hs
      rcases hs with rfl | rfl
      · intro d op hop
        rw [onValid_some hop]; exact inverse_lowerLayer d layer
      · intro d; rfl
  | duplicateLayer layer =>
    simp [Call.steps] at hs
    rcases hs with rfl | rfl
    · intro d op hop
      simp only at hop
      cases hl : d.layers[layer]? with
      | none => rw [hl] at hop; simp at hop
      | some l => rw [hl] at hop; simp at hop; subst hop; exact inverse_addLayer d _ _
    · intro d; rfl
  | clearLayer layer =>
    simp [Call.steps] at hs
    rcases hs with rfl | rfl
    · intro d op hop
      rw [onValid_some hop]; exact inverse_clearLayer d layer []
    · intro d; rfl
  | mergeLayerDown layer =>
    simp [Call.steps] at hs; subst hs
    intro d op d' h
    simp only [mergeEdit] at h
    cases hb : mergeBuild layer d with
    | error e => rw [hb] at h; simp at h
    | ok r =>
      rw [hb] at h
      cases r with
      | none => simp at h
      | some op0 =>
        simp only at h
        cases hr : op0.redo d with
        | error e => rw [hr] at h; simp at h
        | ok q =>
          obtain ⟨op1, d1⟩ := q
          rw [hr] at h
          simp at h
          obtain ⟨rfl, rfl⟩ := h
          exact merge_undoable (d' := d1) hb hr
  | anchorLayer =>
    simp [Call.steps] at hs
    rcases hs with rfl | rfl
    · trivial
    · intro d op d' h
      simp only [anchorEdit] at h
      cases hc : d.curLayer with
      | none => rw [hc] at h; simp at h
      | some p =>
        obtain ⟨i, c⟩ := p
        rw [hc] at h
        simp only at h
        split at h
        · simp at h
        · cases hb : mergeBuild i d with
          | error e => rw [hb] at h; simp at h
          | ok r =>
            rw [hb] at h
            cases r with
            | none => simp at h
            | some op0 =>
              simp only at h
              cases hr : op0.redo d with
              | error e => rw [hr] at h; simp at h
              | ok q =>
                obtain ⟨op1, d1⟩ := q
                rw [hr] at h
                simp at h
                obtain ⟨rfl, rfl⟩ := h
                have h1 := merge_undoable (d' := d1) hb hr
                exact undoable_atomic (a := d.obs) (c := d1.obs) (.cons h1 (.nil _))
  | toggleVisibility layer =>
    simp [Call.steps] at hs; subst hs
    intro d op hop
    rw [onValid_some hop]; exact inverse_toggleVisibility d layer
  | moveLayer x y =>
    simp [Call.steps] at hs; subst hs
    intro d op hop
    simp only at hop
    cases hc : d.curLayer with
    | none => rw [hc] at hop; simp at hop
    | some p =>
      obtain ⟨i, l⟩ := p
      rw [hc] at hop
      simp at hop
      subst hop
      apply inverse_moveLayer
      intro l' hl'
      -- the unclamped index is valid, so it is the clamped one
      have hlt : d.cur < d.layers.length := (List.getElem?_eq_some_iff.mp hl').1
      have hl := curLayer_some hc
      have hi : i = d.cur := by
        unfold Doc.curLayer at hc
        cases hcl : d.currentLayer with
        | none => rw [hcl] at hc; simp at hc
        | some j =>
          rw [hcl] at hc
          simp only at hc
          cases hlj : d.layers[j]? with
          | none => rw [hlj] at hc; simp at hc
          | some l0 =>
            rw [hlj] at hc
            simp at hc
            unfold Doc.currentLayer at hcl
            split at hcl <;> simp at hcl
            omega
      subst hi
      rw [hl] at hl'
      cases hl'
      exact ⟨rfl, rfl⟩
  | setLayerSize layer w h =>
    simp [Call.steps] at hs; subst hs
    intro d op hop
    rw [onValid_some hop]; exact inverse_setLayerSize d layer w h w h
  | updateLayerProps layer flags =>
    simp [Call.steps] at hs; subst hs
    intro d op hop
    simp only at hop
    cases hl : d.layers[layer]? with
    | none => rw [hl] at hop; simp at hop
    | some l =>
      rw [hl] at hop
      simp at hop
      subst hop
      exact inverse_updateLayerProps d layer _ _ (fun l0 hl0 => by rw [hl] at hl0; cases hl0; rfl)
  | rotateLayer =>
    simp [Call.steps] at hs; subst hs
    intro d op hop
    simp only [rotateBuild] at hop
    cases hl : d.layers[d.cur]? with
    | none => rw [hl] at hop; simp at hop
    | some l =>
      rw [hl] at hop
      simp only at hop
      cases hn : newLayer l.h l.w with
      | error e => rw [hn] at hop; simp at hop
      | ok nl =>
        rw [hn] at hop
        simp at hop
        subst hop
        exact inverse_rotateLayer d d.cur _ _ (fun l0 hl0 => by rw [hl] at hl0; cases hl0; rfl)
  | makeTransparent =>
    simp [Call.steps] at hs
    rcases hs with rfl | rfl | rfl
    · trivial
    · exact makeTransparent_good
    · trivial
  | stampDown =>
    simp [Call.steps] at hs
    rcases hs with rfl | rfl | rfl
    · trivial
    · exact stampDown_good
    · trivial
  | paste layer =>
    simp [Call.steps] at hs
    rcases hs with rfl | rfl
    · intro d op hop
      simp only [pasteBuild] at hop
      cases layer with
      | none => simp at hop
      | some l =>
        simp only at hop
        obtain ⟨i, rfl⟩ := onCurrent_some hop
        exact inverse_paste d i l
    · intro d; rfl
  | addFloatingLayer =>
    simp [Call.steps] at hs; subst hs
    intro d op hop
    simp only [floatBuild] at hop
    cases hc : d.curLayer with
    | none => rw [hc] at hop; simp at hop
    | some p =>
      obtain ⟨i, l⟩ := p
      rw [hc] at hop
      simp only at hop
      split at hop
      · rename_i hcond
        simp at hop
        subst hop
        have hl := curLayer_some hc
        exact inverse_addFloatingLayer d i (fun l0 hl0 => by rw [hl] at hl0; cases hl0; exact hcond)
      · simp at hop
  | resizeBuffer w h =>
    simp [Call.steps] at hs; subst hs
    intro d op hop
    simp at hop; subst hop; exact inverse_resizeBuffer d w h
  | resizeBufferLayers w h =>
    simp [Call.steps] at hs; subst hs
    intro d op d' hop
    simp only at hop
    cases hcl : cropLayers d.layers ⟨0, 0, w, h⟩ with
    | nil => rw [hcl] at hop; simp at hop
    | cons l0 rest =>
      rw [hcl] at hop
      simp at hop
      obtain ⟨rfl, rfl⟩ := hop
      exact undoable_crop d w h _
  | cropRect r =>
    simp [Call.steps] at hs; subst hs
    intro d op d' hop
    simp at hop
    obtain ⟨rfl, rfl⟩ := hop
    exact undoable_crop d r.w r.h _
  | crop =>
    simp [Call.steps] at hs; subst hs
    intro d op d' hop
    simp only at hop
    cases hsel : d.sel with
    | none => rw [hsel] at hop; simp at hop
    | some sl =>
      rw [hsel] at hop
      simp at hop
      obtain ⟨rfl, rfl⟩ := hop
      exact undoable_crop d _ _ _
  | deleteRow =>
    simp [Call.steps] at hs; subst hs
    intro d op hop
    obtain ⟨i, rfl⟩ := onCurrent_some hop
    exact inverse_deleteRow d i _ _
  | insertRow =>
    simp [Call.steps] at hs; subst hs
    intro d op hop
    obtain ⟨i, rfl⟩ := onCurrent_some hop
    exact inverse_insertRow d i _ _
  | deleteColumn =>
    simp [Call.steps] at hs; subst hs
    intro d op hop
    obtain ⟨i, rfl⟩ := onCurrent_some hop
    exact inverse_deleteColumn d i _ _
  | insertColumn =>
    simp [Call.steps] at hs; subst hs
    intro d op hop
    obtain ⟨i, rfl⟩ := onCurrent_some hop
    exact inverse_insertColumn d i _
  | setSelection sl =>
    simp [Call.steps] at hs; subst hs
    exact setSelectionBuild_good (fun _ => .ok sl)
  | clearSelection =>
    simp [Call.steps] at hs; subst hs
    exact clearSelectionBuild_good
  | deselect =>
    simp [Call.steps] at hs; subst hs
    intro d op hop
    simp only at hop
    cases hsel : d.sel with
    | none => rw [hsel] at hop; simp at hop
    | some sl => rw [hsel] at hop; simp at hop; subst hop; exact inverse_deselect d _
  | addSelectionToMask =>
    simp [Call.steps] at hs; subst hs
    intro d op hop
    simp only at hop
    cases hsel : d.sel with
    | none => rw [hsel] at hop; simp at hop
    | some sl => rw [hsel] at hop; simp at hop; subst hop; exact inverse_addSelectionToMask d _ _
  | inverseSelection =>
    simp [Call.steps] at hs; subst hs
    intro d op d' hop
    simp at hop
    obtain ⟨rfl, rfl⟩ := hop
    exact undoable_inverseSelection d _ _ _
  | enumerateSelections kind =>
    simp [Call.steps] at hs; subst hs
    intro d op d' hop
    simp only [enumerateEdit] at hop
    cases hc : d.curLayer with
    | none => rw [hc] at hop; simp at hop
    | some p =>
      obtain ⟨i, l⟩ := p
      rw [hc] at hop
      simp only at hop
      generalize List.foldl _ d.mask (intRange 0 d.h) = m at hop
      split at hop
      · simp at hop
      · simp at hop
        obtain ⟨rfl, rfl⟩ := hop
        exact undoable_selection _ d _ rfl (fun e => ⟨{ e with mask := d.mask }, by simp [UndoOp.undo], rfl⟩)
          (fun e => ⟨{ e with mask := m }, by simp [UndoOp.redo], rfl⟩)
  | eraseSelection =>
    simp [Call.steps] at hs; subst hs
    exact erase_good
  | eraseLine kind =>
    simp [Call.steps] at hs
    rcases hs with rfl | rfl | rfl | rfl
    · trivial
    · exact setSelectionBuild_good (eraseLineSel kind)
    · exact erase_good
    · trivial
  | flipX => exact areaSteps_good flipXF (fun d l l' h => flipX_frame d l _ l' h) s hs
  | flipY => exact areaSteps_good flipYF (fun d l l' h => flipY_frame d l _ l' h) s hs
  | justifyLeft => exact areaSteps_good justifyLeftF (fun d l l' h => justifyLeft_frame d l _ l' h) s hs
  | justifyRight => exact areaSteps_good justifyRightF (fun d l l' h => justifyRight_frame d l _ l' h) s hs
  | center => exact centerSteps_good s hs
  | lineOp kind =>
    simp only [Call.steps, List.mem_append, List.mem_cons, List.mem_nil_iff, or_false] at hs
    rcases hs with ((rfl | rfl) | hs) | rfl | rfl
    · trivial
    · exact setSelectionBuild_good lineSel
    · split at hs
      · exact areaSteps_good justifyLeftF (fun d l l' h => justifyLeft_frame d l _ l' h) s hs
      · split at hs
        · exact areaSteps_good justifyRightF (fun d l l' h => justifyRight_frame d l _ l' h) s hs
        · exact centerSteps_good s hs
    · exact clearSelectionBuild_good
    · trivial
  | scrollUp =>
    simp [Call.steps] at hs
    rcases hs with rfl | rfl | rfl
    · trivial
    · exact scroll_good true
    · trivial
  | scrollDown =>
    simp [Call.steps] at hs
    rcases hs with rfl | rfl | rfl
    · trivial
    · exact scroll_good false
    · trivial
  | scrollLeft =>
    simp only [Call.steps, List.mem_cons, List.mem_nil_iff, or_false] at hs
    rcases hs with rfl | rfl | rfl
    · trivial
    · exact scrollLeft_good
    · trivial
  | scrollRight =>
    simp only [Call.steps, List.mem_cons, List.mem_nil_iff, or_false] at hs
    rcases hs with rfl | rfl | rfl
    · trivial
    · exact scrollRight_good
    · trivial
  | switchToFontPage page =>
    simp [Call.steps] at hs; subst hs
    intro d op hop
    simp at hop; subst hop; exact inverse_switchToFontPage d _ _
  | setFont kind font =>
    simp [Call.steps] at hs; subst hs
    intro d op hop
    have key : ∀ (page f : Nat) (b : Bool), setFontInSlot d page f b = .ok (some op) → InverseAt op d := by
      intro page f b h
      unfold setFontInSlot at h
      cases hlk : fmLookup d.x.fonts page with
      | some g => rw [hlk] at h; simp at h; subst h; exact inverse_setFont d page g f hlk
      | none =>
        rw [hlk] at h
        simp only at h
        split at h
        · simp at h; subst h; exact inverse_addFont d _ _ _ _
        · simp at h
    unfold setFontBuild at hop
    simp only at hop
    split at hop
    · simp at hop
    · cases font with
      | none => simp at hop
      | some f =>
        simp only at hop
        split at hop
        · exact key _ _ _ hop
        · exact key _ _ _ hop
  | addFont slot font =>
    simp [Call.steps] at hs; subst hs
    intro d op hop
    unfold addFontBuild at hop
    split at hop
    · simp at hop
    · cases font with
      | none => simp at hop
      | some f => simp at hop; subst hop; exact inverse_addFont d _ _ _ _
  | replaceFontUsage src dst =>
    simp [Call.steps] at hs; subst hs
    exact replaceFontUsage_good src dst
  | changeFontSlot src dst =>
    simp [Call.steps] at hs
    rcases hs with rfl | rfl | rfl | rfl
    · trivial
    · intro d op hop
      simp only at hop
      split at hop
      · simp at hop; subst hop; exact inverse_changeFontSlot d src dst none
      · simp at hop
    · exact replaceFontUsage_good src dst
    · trivial
  | removeFont slot =>
    simp [Call.steps] at hs
    rcases hs with rfl | rfl | rfl | rfl
    · trivial
    · exact replaceFontUsage_good slot 0
    · intro d op hop
      simp at hop; subst hop; exact inverse_removeFont d slot none
    · trivial
  | setIceMode mode =>
    simp [Call.steps] at hs; subst hs
    intro d op hop
    simp [iceBuild] at hop
    subst hop
    intro op' d' hr
    simp [UndoOp.redo] at hr
    obtain ⟨rfl, rfl⟩ := hr
    exact undoable_setIceMode d mode _
  | setPaletteMode mode =>
    simp [Call.steps] at hs; subst hs
    intro d op hop
    simp only [paletteModeBuild] at hop
    split at hop
    · simp at hop
    · split at hop
      · simp at hop
      · simp at hop
        subst hop
        intro op' d' hr
        simp [UndoOp.redo] at hr
        obtain ⟨rfl, rfl⟩ := hr
        exact undoable_switchPalette d mode _ _
  | copyPaste =>
    simp [Call.steps] at hs
    rcases hs with rfl | rfl
    · intro d op hop
      simp only at hop
      cases hcl : copyLayer d with
      | none => rw [hcl] at hop; simp at hop
      | some layer =>
        rw [hcl] at hop
        simp only [pasteBuild] at hop
        cases layer with
        | none => simp at hop
        | some l =>
          simp only at hop
          obtain ⟨i, rfl⟩ := onCurrent_some hop
          exact inverse_paste d i l
    · intro d; rfl
  | switchToPalette pal =>
    simp [Call.steps] at hs; subst hs
    intro d op hop
    simp at hop; subst hop; exact inverse_switchPalettte d pal
  | updateSauce data =>
    simp [Call.steps] at hs; subst hs
    intro d op hop
    simp at hop; subst hop; exact inverse_setSauceData d data
  | undoCaretPosition =>
    simp [Call.steps] at hs; subst hs
    intro d op d' hop
    simp at hop
    obtain ⟨rfl, rfl⟩ := hop
    exact undoable_reverseCaret d _ _ _ _
  | pushReverseResize w h =>
    simp [Call.steps] at hs; subst hs
    intro d op hop
    simp at hop; subst hop
    -- the inner record leads from the resized document up to `d`
    let d0 : Doc := ({ d with w := w, h := h } : Doc).setMaskSize
    have hin : Undoable (.resizeBuffer w h d.w d.h) d0.obs d.obs :=
      inverse_resizeBuffer d0 d.w d.h (.resizeBuffer w h d.w d.h) (({ d0 with w := d.w, h := d.h } : Doc).setMaskSize) rfl
    exact inverse_reversed d _ d0.obs hin
  | beginAtomic => simp [Call.steps] at hs; subst hs; trivial
  | endAtomic => simp [Call.steps] at hs; subst hs; trivial
  | undo => simp [Call.steps] at hs; subst hs; trivial
  | redo => simp [Call.steps] at hs; subst hs; trivial

end IcyVerif.Undo
