import IcyVerif.Lemmas.UndoRows
set_option linter.unusedSimpArgs false
set_option linter.unusedVariables false
/-! # C08: the modelled public operations (`Call`) only push records that obey the inverse law -/
namespace IcyVerif.Undo


theorem onValid_some {d : Doc} {layer : Nat} {op o : UndoOp} (h : onValid d layer op = .ok (some o)) : o = op := by
  unfold onValid at h
  split at h <;> simp at h
  exact h.symm

theorem onCurrent_some {d : Doc} {mk : Nat → UndoOp} {o : UndoOp} (h : onCurrent d mk = .ok (some o)) : ∃ i, o = mk i := by
  unfold onCurrent at h
  cases hc : d.currentLayer with
  | none => rw [hc] at h; simp at h
  | some i => rw [hc] at h; simp at h; exact ⟨i, h.symm⟩

/-- every step of every modelled public operation of `Call` pushes only records that obey the inverse law — at
    every document, with no side condition -/
theorem call_steps_good (c : Call) : ∀ s ∈ c.steps, s.Good := by
  intro s hs
  cases c with
  | setCaret x y => simp [Call.steps] at hs; subst hs; intro d; rfl
  | setCurrentLayer i => simp [Call.steps] at hs; subst hs; intro d; rfl
  | setMirror b => simp [Call.steps] at hs; subst hs; intro d; rfl
  | addLayer layer =>
    simp [Call.steps] at hs
    rcases hs with rfl | rfl
    · intro d op hop
      simp only at hop
      cases hn : newLayer d.w d.h with
      | error e => rw [hn] at hop; simp at hop
      | ok l => rw [hn] at hop; simp at hop; subst hop; exact inverse_addLayer d _ _
    · intro d; rfl
  | removeLayer layer =>
    simp [Call.steps] at hs; subst hs
    intro d op hop
    rw [onValid_some hop]; exact inverse_removeLayer d layer none
  | raiseLayer layer =>
    simp [Call.steps] at hs
    rcases hs with rfl | rfl
    · intro d op hop
      simp only at hop
      split at hop <;> simp at hop
      subst hop; exact inverse_raiseLayer d layer
    · intro d; rfl
  | lowerLayer layer =>
    by_cases h0 : layer = 0
    · simp [Call.steps, h0] at hs
    · simp [Call.steps, h0] at hs
      rcases hs with rfl | rfl
      · intro d op hop
        rw [onValid_some hop]; exact inverse_lowerLayer d layer
      · intro d; rfl
  | duplicateLayer layer =>
    simp [Call.steps] at hs
    rcases hs with rfl | rfl
    · intro d op hop
      simp only at hop
      cases hl : d.layers[layer]? with
      | none => rw [hl] at hop; simp at hop
      | some l => rw [hl] at hop; simp at hop; subst hop; exact inverse_addLayer d _ _
    · intro d; rfl
  | clearLayer layer =>
    simp [Call.steps] at hs
    rcases hs with rfl | rfl
    · intro d op hop
      rw [onValid_some hop]; exact inverse_clearLayer d layer []
    · intro d; rfl
  | toggleVisibility layer =>
    simp [Call.steps] at hs; subst hs
    intro d op hop
    rw [onValid_some hop]; exact inverse_toggleVisibility d layer
  | moveLayer x y =>
    simp [Call.steps] at hs; subst hs
    intro d op hop
    simp only at hop
    cases hc : d.currentLayer with
    | none => rw [hc] at hop; simp at hop
    | some i =>
      rw [hc] at hop
      simp only at hop
      cases hl : d.layers[i]? with
      | none => rw [hl] at hop; simp at hop
      | some l =>
        rw [hl] at hop
        simp at hop
        subst hop
        apply inverse_moveLayer
        intro l' hl'
        -- the unclamped index is valid, so it is the clamped one
        have hlt : d.cur < d.layers.length := (List.getElem?_eq_some_iff.mp hl').1
        have hi : i = d.cur := by
          unfold Doc.currentLayer at hc
          split at hc <;> simp at hc
          omega
        subst hi
        rw [hl] at hl'
        cases hl'
        exact ⟨rfl, rfl⟩
  | setLayerSize layer w h =>
    simp [Call.steps] at hs; subst hs
    intro d op hop
    rw [onValid_some hop]; exact inverse_setLayerSize d layer w h w h
  | resizeBuffer w h =>
    simp [Call.steps] at hs; subst hs
    intro d op hop
    simp at hop; subst hop; exact inverse_resizeBuffer d w h
  | resizeBufferLayers w h =>
    simp [Call.steps] at hs; subst hs
    intro d op d' hop
    simp only at hop
    cases hcl : cropLayers d.layers ⟨0, 0, w, h⟩ with
    | nil => rw [hcl] at hop; simp at hop
    | cons l0 rest =>
      rw [hcl] at hop
      simp at hop
      obtain ⟨rfl, rfl⟩ := hop
      exact undoable_crop d w h _
  | cropRect r =>
    simp [Call.steps] at hs; subst hs
    intro d op d' hop
    simp at hop
    obtain ⟨rfl, rfl⟩ := hop
    exact undoable_crop d r.w r.h _
  | crop =>
    simp [Call.steps] at hs; subst hs
    intro d op d' hop
    simp only at hop
    cases hsel : d.sel with
    | none => rw [hsel] at hop; simp at hop
    | some sl =>
      rw [hsel] at hop
      simp at hop
      obtain ⟨rfl, rfl⟩ := hop
      exact undoable_crop d _ _ _
  | deleteRow =>
    simp [Call.steps] at hs; subst hs
    intro d op hop
    obtain ⟨i, rfl⟩ := onCurrent_some hop
    exact inverse_deleteRow d i _ _
  | insertRow =>
    simp [Call.steps] at hs; subst hs
    intro d op hop
    obtain ⟨i, rfl⟩ := onCurrent_some hop
    exact inverse_insertRow d i _ _
  | deleteColumn =>
    simp [Call.steps] at hs; subst hs
    intro d op hop
    obtain ⟨i, rfl⟩ := onCurrent_some hop
    exact inverse_deleteColumn d i _ _
  | insertColumn =>
    simp [Call.steps] at hs; subst hs
    intro d op hop
    obtain ⟨i, rfl⟩ := onCurrent_some hop
    exact inverse_insertColumn d i _
  | setSelection r =>
    simp [Call.steps] at hs; subst hs
    intro d op hop
    simp only at hop
    split at hop <;> simp at hop
    subst hop; exact inverse_setSelection d _ _
  | clearSelection =>
    simp [Call.steps] at hs; subst hs
    intro d op hop
    simp only at hop
    cases hsel : d.sel with
    | none => rw [hsel] at hop; simp at hop
    | some sl => rw [hsel] at hop; simp at hop; subst hop; exact inverse_selectNothing d _
  | deselect =>
    simp [Call.steps] at hs; subst hs
    intro d op hop
    simp only at hop
    cases hsel : d.sel with
    | none => rw [hsel] at hop; simp at hop
    | some sl => rw [hsel] at hop; simp at hop; subst hop; exact inverse_deselect d _
  | beginAtomic => simp [Call.steps] at hs; subst hs; trivial
  | endAtomic => simp [Call.steps] at hs; subst hs; trivial
  | undo => simp [Call.steps] at hs; subst hs; trivial
  | redo => simp [Call.steps] at hs; subst hs; trivial

end IcyVerif.Undo
