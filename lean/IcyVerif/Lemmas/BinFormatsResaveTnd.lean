import IcyVerif.Lemmas.BinFormatsResaveIdf
set_option linter.unusedSimpArgs false
set_option linter.unusedVariables false
/-!
# C05, Tundra: every file the loader accepts loads to a picture the writer reproduces

The command loop keeps: every cell it wrote is a visible 8-bit character on page 0 without attribute flags whose colour
indices are below `K` (the loader's start colours 7 / 0, or indices `insert_color_rgb` returned — the palette cannot grow
beyond one entry per four bytes of the file).
-/
namespace IcyVerif.BinFormats
open IcyVerif.XbCompress IcyVerif.Gen

def TCell (K : Nat) (c : Cell) : Prop :=
  c.ch < 256 ∧ c.attr.flags = 0 ∧ c.attr.page = 0 ∧ c.attr.fg < K ∧ c.attr.bg < K

/-- what the loop never touches -/
structure TFrame (a b : LBuf) : Prop where
  bw : b.bw = a.bw
  lw : b.lw = a.lw
  ice : b.ice = a.ice
  fonts : b.fonts = a.fonts
  sauce : b.sauce = a.sauce

theorem TFrame.refl (a : LBuf) : TFrame a a := ⟨rfl, rfl, rfl, rfl, rfl⟩
theorem TFrame.trans {a b c : LBuf} (h1 : TFrame a b) (h2 : TFrame b c) : TFrame a c :=
  ⟨h2.bw.trans h1.bw, h2.lw.trans h1.lw, h2.ice.trans h1.ice, h2.fonts.trans h1.fonts, h2.sauce.trans h1.sauce⟩

/-- loop invariant: `N` bounds palette length + unread bytes -/
structure TInv (K N : Nat) (rest : List Nat) (s : TL) : Prop where
  cells : CellsOK (TCell K) s.buf.lines
  fg : s.fg < K
  bg : s.bg < K
  pal : s.buf.pal.length + rest.length ≤ N
  bytes : ∀ b ∈ rest, b < 256

theorem insertColor_idx (pal : List Rgb) (c : Rgb) : (insertColor pal c).2 ≤ pal.length ∧ (insertColor pal c).1.length ≤ pal.length + 1 := by
  unfold insertColor
  cases hf : pal.findIdx? (· == c) with
  | none => simp
  | some i =>
    simp only
    have := List.findIdx?_eq_some_iff_findIdx_eq.mp hf
    omega

theorem tndPut_inv (K N : Nat) (rest : List Nat) (s : TL) (ch : Nat) (hch : ch < 256) (h : TInv K N rest s) :
    TInv K N rest (tndPut s ch) ∧ TFrame s.buf (tndPut s ch).buf ∧ (tndPut s ch).buf.pal = s.buf.pal := by
  unfold tndPut
  simp only
  have hcell : TCell K ⟨ch, ⟨s.fg, s.bg, 0, Xb.defaultPage⟩⟩ := ⟨hch, rfl, rfl, h.fg, h.bg⟩
  have key : CellsOK (TCell K) (({ s.buf with lh := s.y + 1 } : LBuf).setCharI s.x s.y ⟨ch, ⟨s.fg, s.bg, 0, Xb.defaultPage⟩⟩).lines ∧
      TFrame s.buf (({ s.buf with lh := s.y + 1 } : LBuf).setCharI s.x s.y ⟨ch, ⟨s.fg, s.bg, 0, Xb.defaultPage⟩⟩) ∧
      (({ s.buf with lh := s.y + 1 } : LBuf).setCharI s.x s.y ⟨ch, ⟨s.fg, s.bg, 0, Xb.defaultPage⟩⟩).pal = s.buf.pal := by
    unfold LBuf.setCharI
    split
    · exact ⟨h.cells, ⟨rfl, rfl, rfl, rfl, rfl⟩, rfl⟩
    · have hf := (setChar_frame ({ s.buf with lh := s.y + 1 } : LBuf) s.x.toNat s.y.toNat ⟨ch, ⟨s.fg, s.bg, 0, Xb.defaultPage⟩⟩).1
      exact ⟨cellsOK_setChar _ _ _ _ _ h.cells (fun _ => hcell), ⟨hf.bw, hf.lw, hf.ice, hf.fonts, hf.sauce⟩, hf.pal⟩
  split
  · exact ⟨⟨key.1, h.fg, h.bg, by show _ + _ ≤ N; rw [key.2.2]; exact h.pal, h.bytes⟩, key.2.1, key.2.2⟩
  · exact ⟨⟨key.1, h.fg, h.bg, by show _ + _ ≤ N; rw [key.2.2]; exact h.pal, h.bytes⟩, key.2.1, key.2.2⟩

/-- the foreground operand of a colour command (the text of `tndLoop`) -/
def fgStep (cmd : Nat) (rest1 : List Nat) (s : TL) : Out (List Nat × TL) :=
  if cmd &&& BinFmt.tndColorFg ≠ 0 then
    match rest1 with
    | _ :: r :: g :: b :: rest2 =>
      let ins := insertColor s.buf.pal (r, g, b)
      .ok (rest2, { s with buf := { s.buf with pal := ins.1 }, fg := ins.2 })
    | _ => .err
  else .ok (rest1, s)

/-- the background operand -/
def bgStep (cmd : Nat) (rest2 : List Nat) (s2 : TL) : Out (List Nat × TL) :=
  if cmd &&& BinFmt.tndColorBg ≠ 0 then
    match rest2 with
    | _ :: r :: g :: b :: rest3 =>
      let ins := insertColor s2.buf.pal (r, g, b)
      .ok (rest3, { s2 with buf := { s2.buf with pal := ins.1 }, bg := ins.2 })
    | _ => .err
  else .ok (rest2, s2)

theorem fgStep_ok (K N : Nat) (hK : N < K) (cmd : Nat) (rest1 : List Nat) (s : TL) (rest2 : List Nat) (s2 : TL)
    (hc : CellsOK (TCell K) s.buf.lines) (hfg : s.fg < K) (hbg : s.bg < K) (hp : s.buf.pal.length + rest1.length + 2 ≤ N)
    (hb : ∀ b ∈ rest1, b < 256) (h : fgStep cmd rest1 s = .ok (rest2, s2)) :
    CellsOK (TCell K) s2.buf.lines ∧ s2.fg < K ∧ s2.bg < K ∧ s2.buf.pal.length + rest2.length + 1 ≤ N ∧ (∀ b ∈ rest2, b < 256) ∧
      TFrame s.buf s2.buf := by
  unfold fgStep at h
  by_cases cf : cmd &&& BinFmt.tndColorFg ≠ 0
  · rw [if_pos cf] at h
    match rest1, hp, hb, h with
    | _ :: r :: g :: b :: rest2', hp, hb, h =>
      simp only at h
      have := Out.ok.inj h
      have e1 : rest2' = rest2 := congrArg Prod.fst this
      have e2 := congrArg Prod.snd this
      simp only at e2
      subst e1
      rw [← e2]
      obtain ⟨i1, i2⟩ := insertColor_idx s.buf.pal (r, g, b)
      simp only [List.length_cons] at hp
      exact ⟨hc, by show (insertColor s.buf.pal (r, g, b)).2 < K; omega, hbg,
        by show (insertColor s.buf.pal (r, g, b)).1.length + _ + 1 ≤ N; omega, fun x hx => hb x (by simp [hx]), ⟨rfl, rfl, rfl, rfl, rfl⟩⟩
    | [], _, _, h => cases h
    | [_], _, _, h => cases h
    | [_, _], _, _, h => cases h
    | [_, _, _], _, _, h => cases h
  · rw [if_neg cf] at h
    have := Out.ok.inj h
    have e1 : rest1 = rest2 := congrArg Prod.fst this
    have e2 : s = s2 := congrArg Prod.snd this
    subst e1 e2
    exact ⟨hc, hfg, hbg, by omega, hb, TFrame.refl _⟩

theorem bgStep_ok (K N : Nat) (hK : N < K) (cmd : Nat) (rest2 : List Nat) (s2 : TL) (rest3 : List Nat) (s3 : TL)
    (hc : CellsOK (TCell K) s2.buf.lines) (hfg : s2.fg < K) (hbg : s2.bg < K) (hp : s2.buf.pal.length + rest2.length + 1 ≤ N)
    (hb : ∀ b ∈ rest2, b < 256) (h : bgStep cmd rest2 s2 = .ok (rest3, s3)) :
    TInv K N rest3 s3 ∧ TFrame s2.buf s3.buf := by
  unfold bgStep at h
  by_cases cb : cmd &&& BinFmt.tndColorBg ≠ 0
  · rw [if_pos cb] at h
    match rest2, hp, hb, h with
    | _ :: r :: g :: b :: rest3', hp, hb, h =>
      simp only at h
      have := Out.ok.inj h
      have e1 : rest3' = rest3 := congrArg Prod.fst this
      have e2 := congrArg Prod.snd this
      simp only at e2
      subst e1
      rw [← e2]
      obtain ⟨i1, i2⟩ := insertColor_idx s2.buf.pal (r, g, b)
      simp only [List.length_cons] at hp
      exact ⟨⟨hc, hfg, by show (insertColor s2.buf.pal (r, g, b)).2 < K; omega,
        by show (insertColor s2.buf.pal (r, g, b)).1.length + _ ≤ N; omega, fun x hx => hb x (by simp [hx])⟩, ⟨rfl, rfl, rfl, rfl, rfl⟩⟩
    | [], _, _, h => cases h
    | [_], _, _, h => cases h
    | [_, _], _, _, h => cases h
    | [_, _, _], _, _, h => cases h
  · rw [if_neg cb] at h
    have := Out.ok.inj h
    have e1 : rest2 = rest3 := congrArg Prod.fst this
    have e2 : s2 = s3 := congrArg Prod.snd this
    subst e1 e2
    exact ⟨⟨hc, hfg, hbg, by omega, hb⟩, TFrame.refl _⟩

theorem tndLoop_inv (K N : Nat) (hK : N < K) : ∀ (fuel : Nat) (rest : List Nat) (s r : TL), TInv K N rest s →
    tndLoop fuel rest s = .ok r → CellsOK (TCell K) r.buf.lines ∧ TFrame s.buf r.buf := by
  intro fuel
  induction fuel with
  | zero =>
    intro rest s r hi h
    simp only [tndLoop] at h
    rw [← Out.ok.inj h]; exact ⟨hi.cells, TFrame.refl _⟩
  | succ fuel ih =>
    intro rest s r hi h
    match rest, hi, h with
    | [], hi, h =>
      simp only [tndLoop] at h
      rw [← Out.ok.inj h]; exact ⟨hi.cells, TFrame.refl _⟩
    | cmd :: rest, hi, h =>
      have hcmd : cmd < 256 := hi.bytes cmd (by simp)
      have hbr : ∀ b ∈ rest, b < 256 := fun b hb => hi.bytes b (by simp [hb])
      have hpl : s.buf.pal.length + rest.length + 1 ≤ N := by have := hi.pal; simp only [List.length_cons] at this; omega
      simp only [tndLoop] at h
      by_cases c1 : cmd = BinFmt.tndPosition
      · rw [if_pos c1] at h
        match rest, hbr, hpl, h with
        | y0 :: y1 :: y2 :: y3 :: rest', hbr, hpl, h =>
          dsimp only at h
          by_cases cy : be32 y0 y1 y2 y3 ≥ BinFmt.tndMaxY
          · rw [if_pos cy] at h; cases h
          rw [if_neg cy] at h
          match rest', hbr, hpl, h with
          | x0 :: x1 :: x2 :: x3 :: rest'', hbr, hpl, h =>
            dsimp only at h
            by_cases cx : be32 x0 x1 x2 x3 ≥ (s.buf.bw : Int)
            · rw [if_pos cx] at h; cases h
            rw [if_neg cx] at h
            have hi' : TInv K N rest'' ({ s with x := be32 x0 x1 x2 x3, y := be32 y0 y1 y2 y3 } : TL) :=
              ⟨hi.cells, hi.fg, hi.bg, by simp only [List.length_cons] at hpl; show s.buf.pal.length + _ ≤ N; omega,
                fun b hb => hbr b (by simp [hb])⟩
            have := ih rest'' ({ s with x := be32 x0 x1 x2 x3, y := be32 y0 y1 y2 y3 } : TL) r hi' h
            exact this
          | [], _, _, h => cases h
          | [_], _, _, h => cases h
          | [_, _], _, _, h => cases h
          | [_, _, _], _, _, h => cases h
        | [], _, _, h => cases h
        | [_], _, _, h => cases h
        | [_, _], _, _, h => cases h
        | [_, _, _], _, _, h => cases h
      · rw [if_neg c1] at h
        by_cases c2 : cmd > BinFmt.tndCmdAbove ∧ cmd ≤ BinFmt.tndCmdUpTo
        · rw [if_pos c2] at h
          match rest, hbr, hpl, h with
          | [], _, _, h => cases h
          | ch :: rest1, hbr, hpl, h =>
            have hch : ch < 256 := hbr ch (by simp)
            have hbr1 : ∀ b ∈ rest1, b < 256 := fun b hb => hbr b (by simp [hb])
            have hpl1 : s.buf.pal.length + rest1.length + 2 ≤ N := by simp only [List.length_cons] at hpl; omega
            change (match fgStep cmd rest1 s with
              | .panic => Out.panic
              | .err => Out.err
              | .ok (rest2, s2) =>
                match bgStep cmd rest2 s2 with
                | .panic => Out.panic
                | .err => Out.err
                | .ok (rest3, s3) => tndLoop fuel rest3 (tndPut s3 ch)) = Out.ok r at h
            cases hq : fgStep cmd rest1 s with
            | panic => rw [hq] at h; cases h
            | err => rw [hq] at h; cases h
            | ok q =>
              obtain ⟨rest2, s2⟩ := q
              rw [hq] at h
              dsimp only at h
              obtain ⟨a1, a2, a3, a4, a5, a6⟩ := fgStep_ok K N hK cmd rest1 s rest2 s2 hi.cells hi.fg hi.bg hpl1 hbr1 hq
              cases hq2 : bgStep cmd rest2 s2 with
              | panic => rw [hq2] at h; cases h
              | err => rw [hq2] at h; cases h
              | ok q2 =>
                obtain ⟨rest3, s3⟩ := q2
                rw [hq2] at h
                dsimp only at h
                obtain ⟨hi3, hf3⟩ := bgStep_ok K N hK cmd rest2 s2 rest3 s3 a1 a2 a3 a4 a5 hq2
                obtain ⟨hi4, hf4, _⟩ := tndPut_inv K N rest3 s3 ch hch hi3
                obtain ⟨r1, r2⟩ := ih rest3 _ r hi4 h
                exact ⟨r1, TFrame.trans (TFrame.trans (TFrame.trans a6 hf3) hf4) r2⟩
        · rw [if_neg c2] at h
          obtain ⟨hi4, hf4, _⟩ := tndPut_inv K N rest s cmd hcmd ⟨hi.cells, hi.fg, hi.bg, by omega, hbr⟩
          obtain ⟨r1, r2⟩ := ih rest _ r hi4 h
          exact ⟨r1, TFrame.trans hf4 r2⟩

/-! ## the range of the Tundra loader -/

structure TndRange (K : Nat) (s : Option Sauce.Sauce) (g : LBuf) : Prop where
  w1 : 1 ≤ g.bw
  w2 : g.bw ≤ 65535
  lw : g.lw = g.bw
  lh : g.lh = g.bh
  ice : g.ice = .ice
  font : (lookupFont g.fonts 0).isSome = true
  sauce : g.sauce = s.map metaOf
  cells : CellsOK (TCell K) g.lines

theorem tndStart_ok (s : Option Sauce.Sauce) (hsw : ∀ s', s = some s' → s'.width < 65536) :
    (tndStart s).lines = [] ∧ (tndStart s).lw = (tndStart s).bw ∧ 1 ≤ (tndStart s).bw ∧ (tndStart s).bw ≤ 65535 ∧
    (lookupFont (tndStart s).fonts 0).isSome = true ∧ (tndStart s).sauce = s.map metaOf := by
  cases s with
  | none => rw [tnd_start_none]; exact ⟨rfl, rfl, by decide, by decide, by decide, rfl⟩
  | some s' =>
    have hw := hsw s' rfl
    unfold tndStart
    have hc : (BinFmt.tndClearsRows == 1) = true := by decide
    have hwa : BinFmt.tndWideAbove = 1000 := rfl
    have hmw : BinFmt.sauceMaxWidth = 1000 := rfl
    have hfb : BinFmt.sauceFallbackWidth = 80 := rfl
    rw [hc]
    unfold LBuf.setSauce LBuf.start
    simp only
    by_cases hwide : s'.width > BinFmt.tndWideAbove
    · rw [if_pos hwide]
      refine ⟨rfl, rfl, ?_, ?_, lookup_startFonts s', rfl⟩
      · show 1 ≤ s'.width; omega
      · show s'.width ≤ 65535; omega
    · rw [if_neg hwide]
      refine ⟨rfl, rfl, ?_, ?_, lookup_startFonts s', rfl⟩
      · show 1 ≤ (if s'.width = 0 ∨ s'.width > BinFmt.sauceMaxWidth then BinFmt.sauceFallbackWidth else s'.width)
        split <;> omega
      · show (if s'.width = 0 ∨ s'.width > BinFmt.sauceMaxWidth then BinFmt.sauceFallbackWidth else s'.width) ≤ 65535
        split <;> omega

theorem tnd_range (data : List Nat) (hb : ∀ b ∈ data, b < 256) (s : Option Sauce.Sauce) (hsw : ∀ s', s = some s' → s'.width < 65536)
    (g : LBuf) (h : tndLoad data s = .ok g) : TndRange (data.length + 8) s g := by
  unfold tndLoad at h
  obtain ⟨t1, t2, t3, t4, t5, t6⟩ := tndStart_ok s hsw
  generalize tndStart s = b0 at h t1 t2 t3 t4 t5 t6
  dsimp only at h
  by_cases c1 : data.length < 1 + BinFmt.tndHeader.length
  · rw [if_pos c1] at h; cases h
  rw [if_neg c1] at h
  by_cases c2 : ((data.drop 1).take BinFmt.tndHeader.length != BinFmt.tndHeader) = true
  · rw [if_pos c2] at h; cases h
  rw [if_neg c2] at h
  have hhl : BinFmt.tndHeader.length = 8 := rfl
  generalize hrest : data.drop (1 + BinFmt.tndHeader.length) = rest at h
  have hrl : rest.length + 9 = data.length := by rw [← hrest, List.length_drop, hhl]; rw [hhl] at c1; omega
  have hrb : ∀ b ∈ rest, b < 256 := by intro b hbm; rw [← hrest] at hbm; exact hb b (List.mem_of_mem_drop hbm)
  cases hl : tndLoop (rest.length + 1) rest ⟨{ b0 with pal := [(0, 0, 0)], ice := IceMode.ice }, Xb.defaultFg, Xb.defaultBg, 0, 0⟩ with
  | err => rw [hl] at h; cases h
  | panic => rw [hl] at h; cases h
  | ok r =>
    rw [hl] at h
    dsimp only at h
    have hg := Out.ok.inj h
    have hinv : TInv (data.length + 8) (rest.length + 1) rest
        ⟨{ b0 with pal := [(0, 0, 0)], ice := IceMode.ice }, Xb.defaultFg, Xb.defaultBg, 0, 0⟩ :=
      ⟨by show CellsOK _ b0.lines; rw [t1]; exact cellsOK_nil _, by show Xb.defaultFg < _; have : Xb.defaultFg = 7 := rfl; omega,
       by show Xb.defaultBg < _; have : Xb.defaultBg = 0 := rfl; omega, by show ([(0, 0, 0)] : List Rgb).length + _ ≤ _; simp; omega, hrb⟩
    obtain ⟨r1, r2⟩ := tndLoop_inv (data.length + 8) (rest.length + 1) (by omega) _ rest _ r hinv hl
    rw [← hg]
    exact ⟨by show 1 ≤ r.buf.lw; rw [r2.lw]; show 1 ≤ b0.lw; omega, by show r.buf.lw ≤ 65535; rw [r2.lw]; show b0.lw ≤ 65535; omega,
      rfl, rfl, by show r.buf.ice = _; rw [r2.ice], by show (lookupFont r.buf.fonts 0).isSome = true; rw [r2.fonts]; exact t5,
      by show r.buf.sauce = _; rw [r2.sauce]; exact t6, r1⟩

/-- a loaded Tundra picture with at least one row is in the writer's domain (saved with SAUCE, or 80 columns wide) — for
    files below 2 GiB and pictures below 2^30 cells -/
theorem tnd_loaded_representable (o : Opts) (K : Nat) (s : Option Sauce.Sauce) (g : LBuf) (hr : TndRange K s g) (hm : metaOk g.sauce = true)
    (hK : K ≤ 2147483648) (hh : 1 ≤ g.bh) (harea : g.bw * g.bh.toNat < 1073741824) (hs : o.sauce = true ∨ g.bw = 80) :
    Representable .tnd o g.toPic = true := by
  unfold Representable
  have hwf := toPic_wellFormed g hh
  have hpg : analyzeFontUsage g.toPic.rows.flatten = [0] :=
    toPic_usage_zero g hh hr.w1 (fun l hl c hc hv => (hr.cells l hl c hc hv).2.2.1)
  have hcells : allCells g.toPic (fun c => decide (c.ch ≤ 255) && isVisible c && !isBlink c.attr && decide (c.attr.fg < 2147483648) &&
      decide (c.attr.bg < 2147483648)) = true := by
    unfold allCells
    apply List.all_eq_true.mpr
    intro r hrow
    apply List.all_eq_true.mpr
    intro c hc
    simp only [LBuf.toPic, List.mem_map, List.mem_range] at hrow
    obtain ⟨y, hy, rfl⟩ := hrow
    have hylh : (y : Int) < g.lh := by rw [hr.lh]; omega
    rcases mem_rowCells_inside g y c hc (by rw [hr.lw]; exact Nat.le_refl _) hylh with h1 | ⟨hv, line, hl, hcl⟩
    · rw [h1]; decide
    · obtain ⟨a, b, _, d, e⟩ := hr.cells line hl c hcl hv
      have hbl : isBlink c.attr = false := by unfold isBlink; rw [b]; decide
      simp only [Bool.and_eq_true, decide_eq_true_eq, Bool.not_eq_true']
      exact ⟨⟨⟨⟨by omega, hv⟩, hbl⟩, by omega⟩, by omega⟩
  have hw : (g.toPic.w == 80 || (o.sauce && decide (1 ≤ g.toPic.w) && decide (g.toPic.w ≤ 65535))) = true := by
    show (g.bw == 80 || (o.sauce && decide (1 ≤ g.bw) && decide (g.bw ≤ 65535))) = true
    rcases hs with h | h
    · have := hr.w1; have := hr.w2
      simp [h]; right; omega
    · simp [h]
  have hfont : (!o.sauce || (lookupFont g.toPic.fonts 0).isSome) = true := by
    have : (lookupFont g.toPic.fonts 0).isSome = true := hr.font
    simp [this]
  have hice : (g.toPic.ice == IceMode.ice) = true := by show (g.ice == IceMode.ice) = true; rw [hr.ice]; rfl
  have har : decide (g.toPic.w * g.toPic.h < 1073741824) = true := by
    have : g.toPic.w * g.toPic.h < 1073741824 := harea
    simpa using this
  simp only [Bool.and_eq_true]
  exact ⟨⟨hm, hwf⟩, ⟨⟨⟨⟨⟨hw, har⟩, hice⟩, by simpa using hpg⟩, hfont⟩, hcells⟩⟩

end IcyVerif.BinFormats
