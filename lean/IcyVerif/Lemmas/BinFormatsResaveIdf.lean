import IcyVerif.Lemmas.BinFormatsResaveXb
set_option linter.unusedSimpArgs false
set_option linter.unusedVariables false
set_option maxRecDepth 20000
/-!
# C05, iCE Draw IDF: every file the loader accepts loads to a picture the writer reproduces (or refuses: more than 200 rows)
-/
namespace IcyVerif.BinFormats
open IcyVerif.XbCompress IcyVerif.Gen

theorem idfScan_ok : ∀ (fuel : Nat) (bs : List Nat),
    (idfScan fuel bs).2 ≤ bs.length ∧ ∀ it ∈ (idfScan fuel bs).1, it.2.1 ∈ bs ∧ it.2.2 ∈ bs := by
  intro fuel
  induction fuel with
  | zero => intro bs; simp [idfScan]
  | succ fuel ih =>
    intro bs
    match bs with
    | [] => simp [idfScan]
    | [_] => simp [idfScan]
    | c :: a :: rest =>
      simp only [idfScan]
      split
      · match rest with
        | nl :: nh :: c2 :: a2 :: rest2 =>
          simp only
          obtain ⟨h1, h2⟩ := ih rest2
          refine ⟨by simp only [List.length_cons]; omega, ?_⟩
          intro it hit
          simp only [List.mem_cons] at hit
          rcases hit with rfl | hit
          · simp
          · have := h2 it hit
            exact ⟨by simp [this.1], by simp [this.2]⟩
        | [] => simp
        | [_] => simp
        | [_, _] => simp
        | [_, _, _] => simp
      · simp only
        obtain ⟨h1, h2⟩ := ih rest
        refine ⟨by simp only [List.length_cons]; omega, ?_⟩
        intro it hit
        simp only [List.mem_cons] at hit
        rcases hit with rfl | hit
        · simp
        · have := h2 it hit
          exact ⟨by simp [this.1], by simp [this.2]⟩

theorem placeCell_tt (x0 xl : Nat) (s : LBuf × Nat × Nat) (c : Cell) : (placeCell true true x0 xl s c).1.lh = (placeCell true true x0 xl s c).1.bh := by
  unfold placeCell
  simp only [if_true]
  have := setChar_frame ({ ({ s.1 with lh := (s.2.2 : Int) + 1 } : LBuf) with bh := (s.2.2 : Int) + 1 } : LBuf) s.2.1 s.2.2 c
  split
  · show (LBuf.setChar _ _ _ _).lh = (LBuf.setChar _ _ _ _).bh; rw [this.2.1, this.2.2]
  · show (LBuf.setChar _ _ _ _).lh = (LBuf.setChar _ _ _ _).bh; rw [this.2.1, this.2.2]

theorem placeAll_tt (x0 xl : Nat) (cells : List Cell) : ∀ (b : LBuf) (x y : Nat), b.lh = b.bh →
    (placeAll true true x0 xl b x y cells).1.lh = (placeAll true true x0 xl b x y cells).1.bh := by
  induction cells with
  | nil => intro b x y h; exact h
  | cons c cs ih =>
    intro b x y h
    unfold placeAll
    simp only [List.foldl_cons]
    have h1 := placeCell_tt x0 xl (b, x, y) c
    generalize placeCell true true x0 xl (b, x, y) c = q at h1 ⊢
    have := ih q.1 q.2.1 q.2.2 h1
    unfold placeAll at this
    exact this

structure IdfRange (s : Option Sauce.Sauce) (g : LBuf) : Prop where
  w1 : 1 ≤ g.bw
  lw : g.lw = 80
  ice : g.ice = .ice
  pal : pal16 g.pal = true
  font : ∃ fd, g.fonts = [(0, mkFont 16 fd)] ∧ fd.length = 4096
  lh : g.lh = g.bh
  sauce : g.sauce = s.map metaOf
  cells : CellsOK (fun c => attrCell true c = true ∧ c.attr.page = 0) g.lines

theorem idf_range (data : List Nat) (hb : ∀ b ∈ data, b < 256) (s : Option Sauce.Sauce) (g : LBuf) (h : idfLoad data s = .ok g) :
    IdfRange s g := by
  unfold idfLoad at h
  have hc : (BinFmt.idfClearsRows == 1) = true := by decide
  rw [hc] at h
  dsimp only at h
  by_cases c1 : data.length < BinFmt.idfHeaderSize + BinFmt.idfFontSize + BinFmt.idfPaletteSize
  · rw [if_pos c1] at h; cases h
  rw [if_neg c1] at h
  by_cases c2 : (data.take 4 != BinFmt.idfHeader13) = true ∧ (data.take 4 != BinFmt.idfHeader14) = true
  · rw [if_pos c2] at h; cases h
  rw [if_neg c2] at h
  by_cases c3 : data.getD 8 0 + data.getD 9 0 * 256 < data.getD 4 0 + data.getD 5 0 * 256
  · rw [if_pos c3] at h; cases h
  rw [if_neg c3] at h
  generalize hx1 : data.getD 4 0 + data.getD 5 0 * 256 = x1 at h c3
  generalize hy1 : data.getD 6 0 + data.getD 7 0 * 256 = y1 at h
  generalize hx2 : data.getD 8 0 + data.getD 9 0 * 256 = x2 at h c3
  generalize hscreen : (data.take (data.length - BinFmt.idfFontSize - BinFmt.idfPaletteSize)).drop BinFmt.idfHeaderSize = screen at h
  obtain ⟨hsc1, hsc2⟩ := idfScan_ok (screen.length + 1) screen
  generalize hscan : idfScan (screen.length + 1) screen = scan at h hsc1 hsc2
  by_cases c4 : (scan.1.map fun it => it.1).sum > 0 ∧ y1 + ((scan.1.map fun it => it.1).sum - 1) / (x2 - x1 + 1) > BinFmt.idfMaxY
  · rw [if_pos c4] at h; cases h
  rw [if_neg c4] at h
  have hg := Out.ok.inj h
  have hhs : BinFmt.idfHeaderSize = 12 := rfl
  have hfs : BinFmt.idfFontSize = 4096 := rfl
  have hps : BinFmt.idfPaletteSize = 48 := rfl
  have hsl : screen.length + 12 + 4096 + 48 ≤ data.length := by
    rw [← hscreen, List.length_drop, List.length_take, hhs, hfs, hps]
    rw [hhs, hfs, hps] at c1
    omega
  have hscreen_mem : ∀ b ∈ screen, b ∈ data := by
    intro b hbm
    rw [← hscreen] at hbm
    exact List.mem_of_mem_take (List.mem_of_mem_drop hbm)
  generalize hcells : (scan.1.flatMap fun it => List.replicate it.1 (⟨it.2.1, fromU8 true it.2.2⟩ : Cell)) = cells at hg
  have hb1 : ((({ (LBuf.start BinFmt.idfStartW BinFmt.idfStartH true) with ice := IceMode.ice } : LBuf).setSauce false s)) =
      { (LBuf.start BinFmt.idfStartW BinFmt.idfStartH true) with ice := IceMode.ice, sauce := s.map metaOf } := by
    rw [setSauce_false _ s (by simp [LBuf.start])]
  rw [hb1] at hg
  generalize hb2 : ({ ({ (LBuf.start BinFmt.idfStartW BinFmt.idfStartH true) with ice := IceMode.ice, sauce := s.map metaOf } : LBuf) with bw := x2 - x1 + 1 } : LBuf) = b2 at hg
  have hfr := placeAll_frame true true x1 x2 cells b2 x1 y1
  have htt := placeAll_tt x1 x2 cells b2 x1 y1 (by rw [← hb2]; rfl)
  have hok := placeAll_lines (fun c => attrCell true c = true ∧ c.attr.page = 0) true true x1 x2 cells b2 x1 y1
    (by rw [← hb2]; exact cellsOK_nil _)
    (by
      intro c hc _
      rw [← hcells] at hc
      obtain ⟨it, hit, hcr⟩ := List.mem_flatMap.mp hc
      rw [List.eq_of_mem_replicate hcr]
      obtain ⟨m1, m2⟩ := hsc2 it hit
      exact attrCell_fromU8 true _ _ (hb _ (hscreen_mem _ m1)) (hb _ (hscreen_mem _ m2)))
  rw [← hg]
  refine ⟨?_, ?_, ?_, ?_, ?_, htt, ?_, hok⟩
  · show 1 ≤ (placeAll true true x1 x2 b2 x1 y1 cells).1.bw
    rw [hfr.bw, ← hb2]; show 1 ≤ x2 - x1 + 1; omega
  · show (placeAll true true x1 x2 b2 x1 y1 cells).1.lw = 80
    rw [hfr.lw, ← hb2]; rfl
  · show (placeAll true true x1 x2 b2 x1 y1 cells).1.ice = .ice
    rw [hfr.ice, ← hb2]
  · show pal16 (from63 _) = true
    apply pal16_from63
    · rw [List.length_take, List.length_drop, hhs, hfs, hps]; omega
    · intro b hbm; exact hb b (List.mem_of_mem_drop (List.mem_of_mem_take hbm))
  · refine ⟨(data.drop (BinFmt.idfHeaderSize + scan.2)).take BinFmt.idfFontSize, ?_, ?_⟩
    · show (0, mkFont 16 _) :: (placeAll true true x1 x2 b2 x1 y1 cells).1.fonts.filter (fun e => e.1 != 0) = _
      rw [hfr.fonts, ← hb2]
      rfl
    · rw [List.length_take, List.length_drop, hhs, hfs]; omega
  · show (placeAll true true x1 x2 b2 x1 y1 cells).1.sauce = _
    rw [hfr.sauce, ← hb2]

/-- a loaded IDF picture of at most 80 columns and 200 rows is in the writer's domain -/
theorem idf_loaded_representable (o : Opts) (s : Option Sauce.Sauce) (g : LBuf) (hr : IdfRange s g) (hm : metaOk g.sauce = true)
    (hh : 1 ≤ g.bh) (hh2 : g.bh ≤ 200) (hw : g.bw ≤ 80) : Representable .idf o g.toPic = true := by
  unfold Representable
  have hwf := toPic_wellFormed g hh
  have hice : g.toPic.ice = .ice := hr.ice
  have hcells : allCells g.toPic (attrCell true) = true :=
    allCells_toPic _ _ g hr.cells (fun c _ hc => hc.1) (attrCell_dflt _) (attrCell_invisible _)
  have hpg : analyzeFontUsage g.toPic.rows.flatten = [0] :=
    toPic_usage_zero g hh hr.w1 (fun l hl c hc hv => (hr.cells l hl c hc hv).2)
  obtain ⟨fd, hfd, hfl⟩ := hr.font
  have hfont : lookupFont g.toPic.fonts 0 = some (mkFont 16 fd) := by
    show lookupFont g.fonts 0 = _; rw [hfd]; exact lookupFont_single' _
  have hh' : g.toPic.h ≤ 200 := by show g.bh.toNat ≤ 200; omega
  simp only [Bool.and_eq_true, beq_iff_eq, decide_eq_true_eq, hfont]
  refine ⟨⟨hm, hwf⟩, ⟨⟨⟨⟨⟨⟨⟨hr.w1, hw⟩, hh'⟩, hice⟩, hcells⟩, hr.pal⟩, hpg⟩, ?_⟩⟩
  unfold font16 mkFont; simp [hfl]

/-- more than 200 rows: the writer refuses (no file is written) -/
theorem idf_loaded_refused (o : Opts) (date : List Nat) (s : Option Sauce.Sauce) (g : LBuf) (hr : IdfRange s g) (hh : g.bh > 200) :
    save .idf o date g.toPic = .err := by
  show idfSave o.compress o.sauce date g.toPic = .err
  unfold idfSave
  have h1 : (g.toPic.ice != IceMode.ice) = false := by show (g.ice != IceMode.ice) = false; rw [hr.ice]; rfl
  have h2 : g.toPic.h > BinFmt.idfMaxHeight := by
    show g.bh.toNat > 200; omega
  simp only [h1, Bool.false_eq_true, if_false, h2, if_true]

end IcyVerif.BinFormats
