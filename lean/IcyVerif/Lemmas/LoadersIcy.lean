import IcyVerif.Lemmas.LoadersBase
set_option linter.unusedSimpArgs false
set_option linter.unusedVariables false
/-! IcyDraw chunk payload decoding never panics (C02), except at sites owned by other properties. -/
namespace IcyVerif.Loaders
open IcyVerif.Bytes IcyVerif.Bytes.Res IcyVerif.Gen IcyVerif.Gen.Loaders

/-- the only panic-like outcome of the IcyDraw model itself: the abort of `char::from_u32_unchecked` on an
    invalid scalar value, present only while the source still has the unchecked conversion (owned by C10) -/
def IcyOwn (s : String) : Prop := icyCharUnchecked = true ∧ s = sIcyAbort

/-- ... plus a panic inside the font / palette / SAUCE loader a chunk payload is handed to (owned by the
    C10/C17, C16, C11 models; the harness passes what those loaders answered) -/
def IcySite (s : String) : Prop := IcyOwn s ∨ s = sForeign

theorem icyCell_sat (d : Bytes) (o : Nat) (short : Bool) : (icyCell d o short).SatS IcyOwn (fun _ => True) := by
  unfold icyCell
  split
  · split
    · exact True.intro
    · rename_i h
      apply SatS.bind (Sat.toSatS (rd_sat (by omega))); intro _ _
      apply SatS.bind (Sat.toSatS (rd_sat (by omega))); intro _ _
      apply SatS.bind (Sat.toSatS (rd_sat (by omega))); intro _ _
      apply SatS.bind (Sat.toSatS (rd_sat (by omega))); intro _ _
      exact True.intro
  · split
    · exact True.intro
    · rename_i h
      apply SatS.bind (Sat.toSatS (rdU32_sat (by omega))); intro ch _
      apply SatS.bind (Sat.toSatS (rdU32_sat (by omega))); intro _ _
      apply SatS.bind (Sat.toSatS (rdU32_sat (by omega))); intro _ _
      apply SatS.bind (Sat.toSatS (rdU16s_sat (by omega))); intro _ _
      split
      · rename_i hs
        exact ⟨by simpa using hs.1, rfl⟩
      · split
        · exact True.intro
        · exact True.intro

theorem icyRow_sat (d : Bytes) (y : Int) : ∀ (n : Nat) (x : Int) (o : Nat) (l : Lay), (icyRow d y n x o l).SatS IcyOwn (fun _ => True) := by
  intro n
  induction n with
  | zero => intro x o l; unfold icyRow; exact True.intro
  | succ n ih =>
    intro x o l
    unfold icyRow
    split
    · exact True.intro
    · rename_i h
      apply SatS.bind (Sat.toSatS (rdU16s_sat (by omega))); intro attr _
      dsimp only
      split
      · exact True.intro
      · generalize (if (attr &&& attrShortData != 0) = true then attr - attrShortData else attr) = attr'
        by_cases hinv : attr' = attrInvisible
        · rw [if_pos hinv]
          exact ih _ _ _
        · rw [if_neg hinv]
          apply SatS.bind (icyCell_sat d _ _); intro o' _
          exact ih _ _ _

theorem icyRows_sat (d : Bytes) : ∀ (n : Nat) (y : Int) (o : Nat) (l : Lay), (icyRows d n y o l).SatS IcyOwn (fun _ => True) := by
  intro n
  induction n with
  | zero => intro y o l; unfold icyRows; exact True.intro
  | succ n ih =>
    intro y o l
    unfold icyRows
    split
    · exact True.intro
    · apply SatS.bind (icyRow_sat d y _ 0 o l); intro r _
      exact ih _ _ _

theorem icyString_sat (d : Bytes) (o : Nat) (ho : o ≤ d.size) : (icyString d o).Sat (fun sz => o + sz ≤ d.size) := by
  unfold icyString
  apply Sat.bind (slice_sat (by omega)); intro _ _
  dsimp only
  split
  · exact True.intro
  · rename_i h
    apply Sat.bind (rdU32_sat (by omega)); intro size _
    apply Sat.bind (usub_sat (by omega)); intro r4 hr4
    split
    · exact True.intro
    · rename_i h2
      apply Sat.bind (slice_sat (by omega)); intro _ _
      show o + (size + 4) ≤ d.size
      omega

theorem icyNewLayer_sat (d : Bytes) (st : IcySt) : (icyNewLayer d st).SatS IcyOwn (fun _ => True) := by
  unfold icyNewLayer
  have e1 : icyLayerHeaderLen = 41 := rfl
  have e2 : icyImageHeaderLen = 16 := rfl
  apply SatS.bind (Sat.toSatS (icyString_sat d 0 (by omega))); intro size hsize
  dsimp only
  split
  · exact True.intro
  · rename_i hlen
    apply SatS.bind (Sat.toSatS (rd_sat (by omega))); intro role _
    apply SatS.bind (Sat.toSatS (rd_sat (by omega))); intro mode _
    split
    · exact True.intro
    · apply SatS.bind (Sat.toSatS (rd_sat (by omega))); intro _ _
      apply SatS.bind (Sat.toSatS (rd_sat (by omega))); intro _ _
      apply SatS.bind (Sat.toSatS (rd_sat (by omega))); intro _ _
      apply SatS.bind (Sat.toSatS (rd_sat (by omega))); intro _ _
      apply SatS.bind (Sat.toSatS (rdU32_sat (by omega))); intro flags _
      apply SatS.bind (Sat.toSatS (rd_sat (by omega))); intro _ _
      apply SatS.bind (Sat.toSatS (rdU32_sat (by omega))); intro ox _
      apply SatS.bind (Sat.toSatS (rdU32_sat (by omega))); intro oy _
      apply SatS.bind (Sat.toSatS (rdU32_sat (by omega))); intro w _
      apply SatS.bind (Sat.toSatS (rdU32_sat (by omega))); intro h _
      apply SatS.bind (Sat.toSatS (rdU16s_sat (by omega))); intro _ _
      apply SatS.bind (Sat.toSatS (rdU64_sat (by omega))); intro length _
      split
      · split
        · exact True.intro
        · rename_i himg
          apply SatS.bind (Sat.toSatS (rdU32_sat (by omega))); intro _ _
          apply SatS.bind (Sat.toSatS (rdU32_sat (by omega))); intro _ _
          apply SatS.bind (Sat.toSatS (rdU32_sat (by omega))); intro _ _
          apply SatS.bind (Sat.toSatS (rdU32_sat (by omega))); intro _ _
          apply SatS.bind (Sat.toSatS (slice_sat (by omega))); intro _ _
          exact True.intro
      · apply SatS.bind (Sat.toSatS (usub_sat (by omega))); intro rest _
        split
        · exact True.intro
        · apply SatS.bind (icyRows_sat d _ _ _ _); intro l _
          exact True.intro

theorem icyContinue_sat (d : Bytes) (st : IcySt) (n : Nat) : (icyContinue d st n).SatS IcyOwn (fun _ => True) := by
  unfold icyContinue
  split
  · dsimp only
    split
    · apply SatS.bind (icyRows_sat d _ _ _ _); intro l _
      exact True.intro
    · exact True.intro
  · exact True.intro

theorem SatS.weaken {α : Type} {S T : String → Prop} {P : α → Prop} {x : Res α} (h : x.SatS S P) (hST : ∀ s, S s → T s) : x.SatS T P := by
  cases x with
  | ok a => exact h
  | err => trivial
  | panic s => exact hST s h

theorem icyChunk_sat (S : String → Prop) (hS : ∀ s, IcyOwn s → S s) (kw : String) (d : Bytes) (f : Foreign) (st : IcySt)
    (hf : (foreign f).SatS S (fun _ => True)) : (icyChunk kw d f st).SatS S (fun _ => True) := by
  unfold icyChunk
  have e1 : icedHeaderSize = 19 := rfl
  split
  · exact True.intro
  · split
    · split
      · exact True.intro
      · rename_i hlen
        have hlen' : d.size = 19 := by
          rw [← e1]; exact Decidable.not_not.mp hlen
        apply SatS.bind (Sat.toSatS (rdU16s_sat (by omega))); intro _ _
        apply SatS.bind (Sat.toSatS (rd_sat (by omega))); intro _ _
        apply SatS.bind (Sat.toSatS (rd_sat (by omega))); intro _ _
        apply SatS.bind (Sat.toSatS (rd_sat (by omega))); intro _ _
        apply SatS.bind (Sat.toSatS (rdU32_sat (by omega))); intro _ _
        apply SatS.bind (Sat.toSatS (rdU32_sat (by omega))); intro _ _
        exact True.intro
    · split
      · apply SatS.bind hf; intro _ _
        exact True.intro
      · dsimp only
        split
        · split
          · exact True.intro
          · apply SatS.bind (Sat.toSatS (icyString_sat d 0 (by omega))); intro _ _
            apply SatS.bind hf; intro _ _
            exact True.intro
        · split
          · exact True.intro
          · split
            · split
              · exact True.intro
              · exact SatS.map (SatS.weaken (icyContinue_sat d st _) hS) (fun _ _ => True.intro)
            · exact SatS.map (SatS.weaken (icyNewLayer_sat d st) hS) (fun _ _ => True.intro)

theorem icyChunks_sat (S : String → Prop) (hS : ∀ s, IcyOwn s → S s) :
    ∀ (cs : List (String × Bytes × Foreign)) (st : IcySt), (∀ c ∈ cs, (foreign c.2.2).SatS S (fun _ => True)) →
      (icyChunks cs st).SatS S (fun _ => True) := by
  intro cs
  induction cs with
  | nil => intro st _; unfold icyChunks; exact True.intro
  | cons c rest ih =>
    intro st hf
    obtain ⟨kw, d, f⟩ := c
    unfold icyChunks
    apply SatS.bind (icyChunk_sat S hS kw d f st (hf (kw, d, f) (List.mem_cons_self ..))); intro r _
    split
    · exact True.intro
    · exact ih _ (fun c hc => hf c (List.mem_cons_of_mem _ hc))

theorem foreign_own (f : Foreign) (hf : f ≠ .panic) : (foreign f).SatS IcyOwn (fun _ => True) := by
  cases f
  · exact True.intro
  · exact True.intro
  · exact absurd rfl hf

theorem foreign_site (f : Foreign) : (foreign f).SatS IcySite (fun _ => True) := by
  cases f
  · exact True.intro
  · exact True.intro
  · exact Or.inr rfl

end IcyVerif.Loaders
