import IcyVerif.Model.Sauce
/-! Helper lemmas for C11: checked primitives, `SauceString` read/append, byte cursors. -/
set_option linter.unusedSimpArgs false
set_option linter.unusedVariables false
namespace IcyVerif.Sauce
open IcyVerif.Gen.Sauce

/-! ### `Res` -/
@[simp] theorem bind_ok {α β : Type} (a : α) (f : α → Res β) : (Res.ok a).bind f = f a := rfl
@[simp] theorem bind_err {α β : Type} (e : Err) (f : α → Res β) : (Res.err e : Res α).bind f = .err e := rfl
@[simp] theorem bind_panic {α β : Type} (s : String) (f : α → Res β) : (Res.panic s : Res α).bind f = .panic s := rfl
@[simp] theorem isPanic_ok {α : Type} (a : α) : (Res.ok a).isPanic = false := rfl
@[simp] theorem isPanic_err {α : Type} (e : Err) : (Res.err e : Res α).isPanic = false := rfl
@[simp] theorem isPanic_panic {α : Type} (s : String) : (Res.panic s : Res α).isPanic = true := rfl

/-- a bind does not panic if its first part does not and the continuation does not on any value -/
theorem bind_np {α β : Type} {r : Res α} {f : α → Res β} (h1 : r.isPanic = false)
    (h2 : ∀ a, r = .ok a → (f a).isPanic = false) : (r.bind f).isPanic = false := by
  cases r with
  | ok a => exact h2 a rfl
  | err e => rfl
  | panic s => cases h1

theorem isPanic_false_iff {α : Type} (r : Res α) : r.isPanic = false ↔ ∀ s, r ≠ .panic s := by
  cases r <;> simp [Res.isPanic]

/-! ### checked primitives succeed inside their bounds -/
theorem usub_ok {a b : Nat} (h : b ≤ a) : usub a b = .ok (a - b) := by simp [usub, h]
theorem slice_ok {d : List Nat} {a b : Nat} (h1 : a ≤ b) (h2 : b ≤ d.length) :
    slice d a b = .ok ((d.drop a).take (b - a)) := by simp [slice, h1, h2]
theorem sliceFrom_ok {d : List Nat} {a : Nat} (h : a ≤ d.length) : sliceFrom d a = .ok (d.drop a) := by
  simp [sliceFrom, h]
theorem idx_ok {d : List Nat} {i : Nat} (h : i < d.length) : idx d i = .ok d[i] := by
  simp [idx, List.getElem?_eq_getElem h]

theorem usub_np {a b : Nat} (h : b ≤ a) : (usub a b).isPanic = false := by rw [usub_ok h]; rfl
theorem slice_np {d : List Nat} {a b : Nat} (h1 : a ≤ b) (h2 : b ≤ d.length) : (slice d a b).isPanic = false := by
  rw [slice_ok h1 h2]; rfl
theorem idx_np {d : List Nat} {i : Nat} (h : i < d.length) : (idx d i).isPanic = false := by rw [idx_ok h]; rfl

/-! ### `SauceString::read` -/

/-- value of `last_non_empty` after scanning `xs` from index `i` -/
def lastNP (pad : Nat) : Nat → List Nat → Nat → Nat
  | _, [], last => last
  | i, b :: xs, last => lastNP pad (i+1) xs (if b ≠ pad then i+1 else last)

theorem readLoop_total (pad : Nat) : ∀ (n i : Nat) (rest acc : List Nat) (last : Nat), n ≤ rest.length →
    ∃ r, readLoop pad n i rest acc last = .ok r := by
  intro n
  induction n with
  | zero => intro i rest acc last _; exact ⟨_, rfl⟩
  | succ n ih =>
    intro i rest acc last h
    cases rest with
    | nil => simp at h
    | cons b rest =>
      simp only [readLoop]
      split
      · exact ⟨_, rfl⟩
      · exact ih _ _ _ _ (by simpa using h)

/-- blank-style padding (`EMPTY ≠ 0`): the loop never breaks early -/
theorem readLoop_nz {pad : Nat} (hp : pad ≠ 0) : ∀ (n i : Nat) (rest acc : List Nat) (last : Nat), n ≤ rest.length →
    readLoop pad n i rest acc last = .ok (acc ++ rest.take n, lastNP pad i (rest.take n) last) := by
  intro n
  induction n with
  | zero => intro i rest acc last _; simp [readLoop, lastNP]
  | succ n ih =>
    intro i rest acc last h
    cases rest with
    | nil => simp at h
    | cons b rest =>
      simp only [readLoop]
      rw [if_neg (by intro hh; exact hp hh.1)]
      rw [ih _ _ _ _ (by simpa using h)]
      simp [lastNP, List.take_succ_cons]

/-- NUL padding: the loop stops at the first NUL; `last_non_empty` never cuts anything off -/
theorem readLoop_z : ∀ (n i : Nat) (rest acc : List Nat) (last : Nat), i = acc.length → acc.length ≤ last →
    (n ≤ rest.length ∨ 0 ∈ rest.take n) →
    ∃ last', readLoop 0 n i rest acc last = .ok (acc ++ (rest.take n).takeWhile (· != 0), last') ∧
      (acc ++ (rest.take n).takeWhile (· != 0)).length ≤ last' := by
  intro n
  induction n with
  | zero => intro i rest acc last hi hl _; exact ⟨last, by simp [readLoop], by simpa using hl⟩
  | succ n ih =>
    intro i rest acc last hi hl h
    cases rest with
    | nil => simp at h
    | cons b rest =>
      simp only [readLoop]
      by_cases hb : b = 0
      · subst hb
        refine ⟨last, by simp, by simpa using hl⟩
      · rw [if_neg (by intro hh; exact hb hh.2)]
        have h' : n ≤ rest.length ∨ 0 ∈ rest.take n := by
          rcases h with h | h
          · left; simpa using h
          · right
            simp only [List.take_succ_cons, List.mem_cons] at h
            rcases h with h | h
            · exact absurd h.symm hb
            · exact h
        obtain ⟨l', h1, h2⟩ := ih (i+1) rest (acc ++ [b]) (if b ≠ 0 then i+1 else last) (by simp [hi])
          (by simp [hb, hi]) h'
        refine ⟨l', ?_, ?_⟩
        · rw [h1]; simp [List.take_succ_cons, List.takeWhile_cons, hb]
        · simpa [List.take_succ_cons, List.takeWhile_cons, hb] using h2

theorem strRead_total (len pad : Nat) (d : List Nat) (h : len ≤ d.length) : ∃ s, strRead len pad d = .ok s := by
  obtain ⟨r, hr⟩ := readLoop_total pad len 0 d [] len h
  refine ⟨(if r.2 < len then r.1.take r.2 else r.1), ?_⟩
  simp only [strRead, hr]

/-- `read` on a NUL-padded field: the bytes before the first NUL of the first `len` bytes -/
theorem strRead_nul (len : Nat) (d : List Nat) (h : len ≤ d.length ∨ 0 ∈ d.take len) :
    strRead len 0 d = .ok ((d.take len).takeWhile (· != 0)) := by
  obtain ⟨l', h1, h2⟩ := readLoop_z len 0 d [] len rfl (Nat.zero_le _) h
  simp only [strRead, h1, List.nil_append] at h2 ⊢
  split
  · rename_i hlt
    congr 1
    exact List.take_of_length_le h2
  · rfl

/-- what `read` keeps of `len` bytes of a blank-padded field -/
def normPad (len pad : Nat) (x : List Nat) : List Nat :=
  let l := lastNP pad 0 x len
  if l < len then x.take l else x

theorem strRead_pad {len pad : Nat} (hp : pad ≠ 0) (d : List Nat) (h : len ≤ d.length) :
    strRead len pad d = .ok (normPad len pad (d.take len)) := by
  simp only [strRead, readLoop_nz hp len 0 d [] len h, List.nil_append, normPad]

/-! ### `last_non_empty` is where the trailing padding starts -/

theorem lastNP_append_single (pad : Nat) : ∀ (xs : List Nat) (i b last : Nat),
    lastNP pad i (xs ++ [b]) last = if b ≠ pad then i + xs.length + 1 else lastNP pad i xs last := by
  intro xs
  induction xs with
  | nil => intro i b last; simp [lastNP]
  | cons x xs ih =>
    intro i b last
    simp only [List.cons_append, lastNP, ih, List.length_cons]
    split <;> simp <;> omega

theorem lastNP_reverse (pad last : Nat) : ∀ (r : List Nat),
    lastNP pad 0 r.reverse last = if r.all (· == pad) then last else (r.dropWhile (· == pad)).length := by
  intro r
  induction r with
  | nil => simp [lastNP]
  | cons b r ih =>
    simp only [List.reverse_cons, lastNP_append_single, List.length_reverse, List.all_cons, List.dropWhile_cons]
    by_cases hb : b = pad
    · subst hb; simp [ih]
    · simp [hb]

theorem reverse_dropWhile_eq_take (p : Nat → Bool) (x : List Nat) :
    (x.reverse.dropWhile p).reverse = x.take (x.reverse.dropWhile p).length := by
  have h := List.takeWhile_append_dropWhile (p := p) (l := x.reverse)
  have h2 : x = (x.reverse.dropWhile p).reverse ++ (x.reverse.takeWhile p).reverse := by
    have := congrArg List.reverse h
    rw [List.reverse_append, List.reverse_reverse] at this
    exact this.symm
  conv => rhs; rw [h2]
  rw [List.take_left' (by simp)]

/-- the declarative form of `normPad`: all-padding stays as it is, otherwise the trailing padding is dropped -/
theorem normPad_eq (len pad : Nat) (x : List Nat) (hx : x.length = len) :
    normPad len pad x = if x.all (· == pad) then x else (x.reverse.dropWhile (· == pad)).reverse := by
  have h := lastNP_reverse pad len x.reverse
  rw [List.reverse_reverse] at h
  simp only [normPad, h, List.all_reverse]
  split
  · rename_i hall; simp
  · rename_i hall
    rw [reverse_dropWhile_eq_take]
    split
    · rfl
    · rename_i hlt
      have : (x.reverse.dropWhile (· == pad)).length ≤ x.length := by
        have := (List.dropWhile_sublist (l := x.reverse) (· == pad)).length_le
        simpa using this
      rw [List.take_of_length_le (by omega)]

/-! ### `append_to` followed by `read` -/

theorem strAppend_nil_length {len pad : Nat} {s : List Nat} (h : s.length ≤ len) :
    (strAppend len pad s []).length = len := by
  simp only [strAppend]
  split <;> simp <;> omega

theorem strAppend_nil_eq (len pad : Nat) (s : List Nat) :
    strAppend len pad s [] = s ++ List.replicate (len - s.length) pad := by
  simp only [strAppend]
  split
  · simp
  · rename_i h; simp [Nat.sub_eq_zero_of_le (Nat.le_of_not_lt h)]

theorem strAppend_eq (len pad : Nat) (s vec : List Nat) : strAppend len pad s vec = vec ++ strAppend len pad s [] := by
  simp only [strAppend]
  split <;> simp

/-- blank-padded field: written by `append_to`, read back by `read`, whatever follows -/
theorem strRead_append_pad {len pad : Nat} (hp : pad ≠ 0) {s : List Nat} (hs : s.length ≤ len) (rest : List Nat) :
    strRead len pad (strAppend len pad s [] ++ rest) = .ok (carryPad len pad s) := by
  have hl := strAppend_nil_length (pad := pad) hs
  rw [strRead_pad hp _ (by simp [hl])]
  rw [List.take_left' hl, normPad_eq _ _ _ hl]
  rfl

theorem takeWhile_append_replicate_zero (f : List Nat) (k : Nat) :
    (f ++ List.replicate k 0).takeWhile (· != 0) = f.takeWhile (· != 0) := by
  induction f with
  | nil => cases k <;> simp [List.replicate_succ, List.takeWhile_cons]
  | cons b f ih => simp only [List.cons_append, List.takeWhile_cons]; split <;> simp [ih]

theorem takeWhile_ne_zero_self (s : List Nat) (h : 0 ∉ s) : s.takeWhile (· != 0) = s := by
  induction s with
  | nil => rfl
  | cons b s ih =>
    simp only [List.mem_cons, not_or] at h
    have hb : (b != 0) = true := by simpa using fun hb => h.1 hb.symm
    simp [List.takeWhile_cons, hb, ih h.2]

/-- NUL-padded field: written by `append_to`, read back by `read`, whatever follows -/
theorem strRead_append_nul {len : Nat} {s : List Nat} (hs : s.length ≤ len) (rest : List Nat) :
    strRead len 0 (strAppend len 0 s [] ++ rest) = .ok (carryNul s) := by
  have hl := strAppend_nil_length (pad := 0) hs
  rw [strRead_nul _ _ (Or.inl (by simp [hl]))]
  rw [List.take_left' hl, strAppend_nil_eq, takeWhile_append_replicate_zero]
  rfl

/-! ### `len()`, `to_string()`, `PartialEq` -/

/-- the string without trailing NULs/blanks -/
def stripT (s : List Nat) : List Nat := (s.reverse.dropWhile (fun c => stripSet.contains c)).reverse

theorem strText_eq (s : List Nat) : strText s = stripT s := by
  simp only [strText, strLen, stripT]
  exact (reverse_dropWhile_eq_take _ s).symm

theorem strEq_iff (a b : List Nat) : strEq a b = true ↔ stripT a = stripT b := by
  have ha := strText_eq a
  have hb := strText_eq b
  simp only [strText] at ha hb
  simp only [strEq, Bool.and_eq_true, beq_iff_eq, ha, hb]
  constructor
  · exact fun h => h.2
  · intro h
    refine ⟨?_, h⟩
    have := congrArg List.length h
    simpa [stripT, strLen] using this

theorem dropWhile_dropWhile_of_imp {p q : Nat → Bool} (h : ∀ x, p x = true → q x = true) (r : List Nat) :
    (r.dropWhile p).dropWhile q = r.dropWhile q := by
  induction r with
  | nil => rfl
  | cons b r ih =>
    by_cases hb : p b = true
    · simp [List.dropWhile_cons, hb, h b hb, ih]
    · simp [List.dropWhile_cons, hb]

theorem dropWhile_all {p : Nat → Bool} (r : List Nat) (h : r.all p = true) : r.dropWhile p = [] := by
  induction r with
  | nil => rfl
  | cons b r ih =>
    simp only [List.all_cons, Bool.and_eq_true] at h
    simp [List.dropWhile_cons, h.1, ih h.2]

theorem all_replicate_of (p : Nat → Bool) (k pad : Nat) (h : p pad = true) : (List.replicate k pad).all p = true := by
  induction k with
  | zero => rfl
  | succ k ih => simp [List.replicate_succ, h, ih]

theorem dropWhile_replicate_append (p : Nat → Bool) (k pad : Nat) (r : List Nat) (hp : p pad = true) :
    (List.replicate k pad ++ r).dropWhile p = r.dropWhile p := by
  induction k with
  | zero => simp
  | succ k ih => simp [List.replicate_succ, List.dropWhile_cons, hp, ih]

/-- `carryPad` in terms of the string itself (not of its padded form) -/
theorem carryPad_eq {len pad : Nat} {s : List Nat} (hs : s.length ≤ len) :
    carryPad len pad s =
      if s.all (· == pad) then List.replicate len pad else (s.reverse.dropWhile (· == pad)).reverse := by
  simp only [carryPad, strAppend_nil_eq]
  have hall : (s ++ List.replicate (len - s.length) pad).all (· == pad) = s.all (· == pad) := by
    simp [List.all_append, List.all_replicate]
  rw [hall]
  split
  · rename_i h
    have hs' : s = List.replicate s.length pad := by
      apply List.eq_replicate_iff.mpr
      refine ⟨rfl, fun b hb => ?_⟩
      have := List.all_eq_true.mp h b hb
      simpa using this
    obtain ⟨n, rfl⟩ : ∃ n, s = List.replicate n pad := ⟨s.length, hs'⟩
    simp only [List.length_replicate] at hs ⊢
    rw [List.replicate_append_replicate]
    congr 1; omega
  · rw [List.reverse_append, List.reverse_replicate, dropWhile_replicate_append _ _ _ _ (by simp)]

/-- a string whose last byte is not padding comes back unchanged -/
theorem carryPad_exact {len pad : Nat} {s : List Nat} (hs : s.length ≤ len) (hne : s ≠ [])
    (hlast : s.getLast? ≠ some pad) : carryPad len pad s = s := by
  rw [carryPad_eq hs]
  have hr : ∃ b r, s.reverse = b :: r ∧ b ≠ pad := by
    cases hrev : s.reverse with
    | nil => simp at hrev; exact absurd hrev hne
    | cons b r =>
      refine ⟨b, r, rfl, ?_⟩
      intro hb
      apply hlast
      have : s = (b :: r).reverse := by rw [← hrev, List.reverse_reverse]
      rw [this, hb]; simp
  obtain ⟨b, r, hrev, hb⟩ := hr
  have hnall : s.all (· == pad) = false := by
    have : s.reverse.all (· == pad) = false := by rw [hrev]; simp [hb]
    simpa using this
  rw [hnall]
  simp only [Bool.false_eq_true, if_false, hrev, List.dropWhile_cons]
  rw [if_neg (by simpa using hb), ← hrev, List.reverse_reverse]

/-- whatever `SauceString` calls equal (`PartialEq`, `to_string`) survives a blank-padded field — for every string,
    including trailing blanks and NULs -/
theorem carryPad_stripT {len pad : Nat} {s : List Nat} (hs : s.length ≤ len) (hpad : stripSet.contains pad = true) :
    stripT (carryPad len pad s) = stripT s := by
  rw [carryPad_eq hs]
  have himp : ∀ x, (x == pad) = true → stripSet.contains x = true := by
    intro x hx; rw [beq_iff_eq] at hx; subst hx; exact hpad
  split
  · rename_i h
    simp only [stripT]
    congr 1
    rw [dropWhile_all _ (by rw [List.all_reverse]; exact all_replicate_of _ _ _ hpad)]
    rw [dropWhile_all]
    have h2 : s.reverse.all (· == pad) = true := by simpa using h
    apply List.all_eq_true.mpr
    intro x hx
    exact himp x (List.all_eq_true.mp h2 x hx)
  · simp only [stripT, List.reverse_reverse]
    rw [dropWhile_dropWhile_of_imp himp]

/-! ### byte cursors: walking an explicitly known suffix of the file -/

/-- `rest` is what the file holds from offset `o` on -/
def Cur (d : List Nat) (o : Nat) (rest : List Nat) : Prop := ∃ pre, d = pre ++ rest ∧ pre.length = o

theorem Cur.mk' (pre rest : List Nat) : Cur (pre ++ rest) pre.length rest := ⟨pre, rfl, rfl⟩

theorem Cur.slice {d : List Nat} {o k o' : Nat} {f rest : List Nat} (c : Cur d o (f ++ rest)) (hk : f.length = k)
    (ho : o' = o + k) : slice d o (o + k) = .ok f ∧ Cur d o' rest := by
  obtain ⟨pre, hd, hl⟩ := c
  subst hd; subst hl; subst hk; subst ho
  constructor
  · rw [slice_ok (by omega) (by simp)]
    simp
  · exact ⟨pre ++ f, by simp, by simp⟩

theorem Cur.skip {d : List Nat} {o k o' : Nat} {f rest : List Nat} (c : Cur d o (f ++ rest)) (hk : f.length = k)
    (ho : o' = o + k) : Cur d o' rest := (c.slice hk ho).2

theorem Cur.idx {d : List Nat} {o o' b : Nat} {rest : List Nat} (c : Cur d o (b :: rest)) (ho : o' = o + 1) :
    idx d o = .ok b ∧ Cur d o' rest := by
  obtain ⟨pre, hd, hl⟩ := c
  subst hd; subst hl; subst ho
  constructor
  · simp [IcyVerif.Sauce.idx]
  · exact ⟨pre ++ [b], by simp, by simp⟩

theorem Cur.sliceFrom {d : List Nat} {o : Nat} {rest : List Nat} (c : Cur d o rest) : sliceFrom d o = .ok rest := by
  obtain ⟨pre, hd, hl⟩ := c
  subst hd; subst hl
  rw [sliceFrom_ok (by simp)]
  simp

theorem Cur.length {d : List Nat} {o : Nat} {rest : List Nat} (c : Cur d o rest) : d.length = o + rest.length := by
  obtain ⟨pre, hd, hl⟩ := c
  subst hd; subst hl; simp

theorem Cur.rd16 {d : List Nat} {o o' lo hi : Nat} {rest : List Nat} (c : Cur d o (lo :: hi :: rest)) (ho : o' = o + 2) :
    rd16 d o = .ok (lo + hi * 256) ∧ Cur d o' rest := by
  obtain ⟨h1, c1⟩ := c.idx (rfl : o + 1 = o + 1)
  obtain ⟨h2, c2⟩ := c1.idx (o' := o') (by omega)
  exact ⟨by simp [IcyVerif.Sauce.rd16, h1, h2], c2⟩

theorem Cur.readPad {d : List Nat} {o o' len pad : Nat} {s rest : List Nat} (hp : pad ≠ 0) (hs : s.length ≤ len)
    (c : Cur d o (strAppend len pad s [] ++ rest)) (ho : o' = o + len) :
    readAt len pad d o = .ok (carryPad len pad s) ∧ Cur d o' rest := by
  refine ⟨?_, c.skip (strAppend_nil_length hs) ho⟩
  simp [readAt, c.sliceFrom, strRead_append_pad hp hs]

theorem Cur.readNul {d : List Nat} {o o' len : Nat} {s rest : List Nat} (hs : s.length ≤ len)
    (c : Cur d o (strAppend len 0 s [] ++ rest)) (ho : o' = o + len) :
    readAt len 0 d o = .ok (carryNul s) ∧ Cur d o' rest := by
  refine ⟨?_, c.skip (strAppend_nil_length hs) ho⟩
  simp [readAt, c.sliceFrom, strRead_append_nul hs]

end IcyVerif.Sauce
