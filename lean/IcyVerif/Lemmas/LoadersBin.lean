import IcyVerif.Lemmas.LoadersBase
set_option linter.unusedSimpArgs false
set_option linter.unusedVariables false
/-! BIN and ADF loaders never panic for files whose length fits the `i32` row counter (C02). -/
namespace IcyVerif.Loaders
open IcyVerif.Bytes IcyVerif.Bytes.Res IcyVerif.Gen IcyVerif.Gen.Loaders

/-- the row counter of the 2-bytes-per-cell / 1-byte-per-cell loaders is an `i32` that grows with the file:
    the theorems for BIN, ADF and Tundra are stated for files of less than 2 GiB - 64 KiB -/
def FitsI32 (d : Bytes) : Prop := d.size + 65536 < 2147483648

theorem setChar_bw (g : Geo) (x y : Int) : (g.setChar x y).bw = g.bw := by
  unfold Geo.setChar; split
  · rfl
  · split <;> rfl

theorem setChar_lw (g : Geo) (x y : Int) : (g.setChar x y).lw = g.lw := by
  unfold Geo.setChar; split
  · rfl
  · split <;> rfl

theorem initGeo_bw (w h : Nat) (c : Bool) (s : Option (Nat × Nat)) (hw : 1 ≤ w) :
    1 ≤ (initGeo w h c s).bw ∧ (initGeo w h c s).bw ≤ max (w : Int) 1000 := by
  unfold initGeo
  have h1 : sauceMaxWidth = 1000 := rfl
  have h2 : sauceDefaultWidth = 80 := rfl
  cases s with
  | none => simp only []; omega
  | some p =>
    obtain ⟨sw, sh⟩ := p
    simp only []
    split <;> omega

theorem binRow_sat (d : Bytes) (hd : FitsI32 d) :
    ∀ (n o : Nat) (p : Pos) (g : Geo), o ≤ d.size → 0 ≤ p.x → p.x + n ≤ 1000000 → 0 ≤ p.y → p.y ≤ o →
      (binRow d n o p g).Sat (fun r => (r.1 = none → r.2.1 = o + 2 * n) ∧ r.2.1 ≤ d.size ∧ r.2.2.1.y = p.y ∧ r.2.2.2.bw = g.bw) := by
  unfold FitsI32 at hd
  intro n
  induction n with
  | zero => intro o p g ho hx hxn hy hyo; unfold binRow; exact ⟨fun _ => by simp, ho, rfl, rfl⟩
  | succ n ih =>
    intro o p g ho hx hxn hy hyo
    unfold binRow
    split
    · exact ⟨fun h => by simp at h, ho, rfl, rfl⟩
    · split
      · exact ⟨fun h => by simp at h, ho, rfl, rfl⟩
      · rename_i h1 h2
        apply Sat.bind (chk32_sat (by omega)); intro lh hlh
        apply Sat.bind (rd_sat (by omega)); intro _ _
        apply Sat.bind (rd_sat (by omega)); intro _ _
        apply Sat.bind (chk32_sat (by omega)); intro x hx'
        subst hx'
        apply Sat.mono (ih (o + 2) ⟨p.x + 1, p.y⟩ _ (by omega) (by simp only []; omega) (by simp only []; omega) hy (by simp only []; omega))
        intro r hr
        obtain ⟨r1, r2, r3, r4⟩ := hr
        refine ⟨fun h => by have := r1 h; omega, r2, r3, ?_⟩
        rw [r4, setChar_bw]

theorem binLoop_sat (d : Bytes) (hd : FitsI32 d) :
    ∀ (fuel o : Nat) (p : Pos) (g : Geo), d.size < fuel + o → o ≤ d.size → p.x = 0 → 0 ≤ p.y → p.y ≤ o → 1 ≤ g.bw → g.bw ≤ 1000 →
      (binLoop d fuel o p g).Sat (fun _ => True) := by
  intro fuel
  induction fuel with
  | zero =>
    intro o p g hf ho hx hy hyo hb1 hb2
    unfold binLoop
    apply Sat.bind (binRow_sat d hd _ o p g ho (by omega) (by omega) hy hyo); intro r hr
    obtain ⟨r1, r2, r3, r4⟩ := hr
    split
    · simp only [sat_pure]
    · rename_i hnone
      have := r1 hnone
      omega
  | succ fuel ih =>
    intro o p g hf ho hx hy hyo hb1 hb2
    unfold binLoop
    apply Sat.bind (binRow_sat d hd _ o p g ho (by omega) (by omega) hy hyo); intro r hr
    obtain ⟨r1, r2, r3, r4⟩ := hr
    split
    · simp only [sat_pure]
    · rename_i hnone
      have hro := r1 hnone
      unfold FitsI32 at hd
      apply Sat.bind (chk32_sat (by omega)); intro y hy'
      subst hy'
      exact ih r.2.1 ⟨0, r.2.2.1.y + 1⟩ r.2.2.2 (by omega) r2 rfl (by simp only []; omega) (by simp only []; omega) (by omega) (by omega)

theorem loadBin_sat (d : Bytes) (hd : FitsI32 d) (sauce : Option (Nat × Nat)) : (loadBin d sauce).Sat (fun _ => True) := by
  unfold loadBin
  have hb := initGeo_bw binInitW binInitH binLinesCleared sauce (by decide)
  have hw : binInitW = 160 := rfl
  exact binLoop_sat d hd _ 0 ⟨0, 0⟩ _ (by omega) (by omega) rfl (by decide) (by decide) hb.1 (by omega)

-- ------------------------------------------------------------------------------------------------ ADF

theorem adfRow_sat (d : Bytes) (hd : FitsI32 d) :
    ∀ (n o : Nat) (p : Pos) (g : Geo), o ≤ d.size → 0 ≤ p.x → p.x + n ≤ 1000000 → 0 ≤ p.y → p.y ≤ o →
      (adfRow d n o p g).Sat (fun r => (r.1 = none → r.2.1 = o + 2 * n) ∧ r.2.1 ≤ d.size ∧ r.2.2.1.y = p.y ∧ r.2.2.2.bw = g.bw) := by
  unfold FitsI32 at hd
  intro n
  induction n with
  | zero => intro o p g ho hx hxn hy hyo; unfold adfRow; exact ⟨fun _ => by simp, ho, rfl, rfl⟩
  | succ n ih =>
    intro o p g ho hx hxn hy hyo
    unfold adfRow
    split
    · exact ⟨fun h => by simp at h, ho, rfl, rfl⟩
    · rename_i h1
      apply Sat.bind (chk32_sat (by omega)); intro lh hlh
      apply Sat.bind (rd_sat (by omega)); intro _ _
      apply Sat.bind (rd_sat (by omega)); intro _ _
      apply Sat.bind (chk32_sat (by omega)); intro x hx'
      subst hx'
      apply Sat.mono (ih (o + 2) ⟨p.x + 1, p.y⟩ _ (by omega) (by simp only []; omega) (by simp only []; omega) hy (by simp only []; omega))
      intro r hr
      obtain ⟨r1, r2, r3, r4⟩ := hr
      refine ⟨fun h => by have := r1 h; omega, r2, r3, ?_⟩
      rw [r4, setChar_bw]

theorem adfLoop_sat (d : Bytes) (hd : FitsI32 d) :
    ∀ (fuel o : Nat) (p : Pos) (g : Geo), d.size < fuel + o → o ≤ d.size → p.x = 0 → 0 ≤ p.y → p.y ≤ o → 1 ≤ g.bw → g.bw ≤ 1000 →
      (adfLoop d fuel o p g).Sat (fun _ => True) := by
  intro fuel
  induction fuel with
  | zero =>
    intro o p g hf ho hx hy hyo hb1 hb2
    unfold adfLoop
    apply Sat.bind (adfRow_sat d hd _ o p g ho (by omega) (by omega) hy hyo); intro r hr
    obtain ⟨r1, r2, r3, r4⟩ := hr
    split
    · simp only [sat_pure]
    · rename_i hnone
      have := r1 hnone
      omega
  | succ fuel ih =>
    intro o p g hf ho hx hy hyo hb1 hb2
    unfold adfLoop
    apply Sat.bind (adfRow_sat d hd _ o p g ho (by omega) (by omega) hy hyo); intro r hr
    obtain ⟨r1, r2, r3, r4⟩ := hr
    split
    · simp only [sat_pure]
    · rename_i hnone
      have hro := r1 hnone
      unfold FitsI32 at hd
      apply Sat.bind (chk32_sat (by omega)); intro y hy'
      subst hy'
      exact ih r.2.1 ⟨0, r.2.2.1.y + 1⟩ r.2.2.2 (by omega) r2 rfl (by simp only []; omega) (by simp only []; omega) (by omega) (by omega)

theorem loadAdf_sat (d : Bytes) (hd : FitsI32 d) (sauce : Option (Nat × Nat)) : (loadAdf d sauce).Sat (fun _ => True) := by
  unfold loadAdf
  dsimp only
  have h1 : adfHeaderLength = 4289 := rfl
  have h2 : adfPaletteSize = 192 := rfl
  have h3 : adfFontSize = 4096 := rfl
  have h4 : adfWidth = 80 := rfl
  split
  · exact True.intro
  · rename_i hlen
    apply Sat.bind (rd_sat (by omega)); intro v _
    split
    · exact True.intro
    · apply Sat.bind (slice_sat (by omega)); intro _ _
      apply Sat.bind (slice_sat (by omega)); intro _ _
      exact adfLoop_sat d hd _ _ ⟨0, 0⟩ _ (by omega) (by omega) rfl (by decide) (by simp only []; omega) (by simp only [h4]; decide) (by simp only [h4]; decide)

end IcyVerif.Loaders
