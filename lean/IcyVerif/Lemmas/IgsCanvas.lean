import IcyVerif.Model.IgsCanvas
import IcyVerif.Lemmas.IgsPaint3
set_option linter.unusedSimpArgs false
set_option linter.unusedVariables false
/-! Lemmas about the IGS canvas model (lexer + DrawExecutor): every character and every loop step keeps the executor
invariant; the fused picture fold of the driver is the fold over `pictureData`. -/
namespace IcyVerif.IgsCanvas
open IcyVerif.Igs IcyVerif.IgsPaint

theorem runExec_good {lex' : Igs} {paint : Paint} {c : Nat} {ps : Res (List Int)} {s' : St} {o : COut}
    (hg : Good paint) (h : runExec lex' paint c ps = .ok s' o) : Good s'.paint := by
  unfold runExec at h
  split at h
  · cases h
  · cases h
  · split at h
    · rename_i p l he
      cases h
      exact exec_good hg (by rw [he]; rfl)
    · rename_i p he
      cases h
      exact exec_good hg (by rw [he]; rfl)
    · cases h
    · cases h
    · cases h

theorem step_good {s s' : St} {ch : Nat} {o : COut} (hg : Good s.paint) (h : IgsCanvas.step s ch = .ok s' o) : Good s'.paint := by
  unfold IgsCanvas.step at h
  split at h
  · cases h
  · split at h
    · exact runExec_good hg h
    · exact runExec_good hg h
  · cases h; exact hg

theorem nextAction_good {s s' : St} {o : COut} (hg : Good s.paint) (h : IgsCanvas.nextAction s = .ok s' o) : Good s'.paint := by
  unfold IgsCanvas.nextAction at h
  split at h
  · cases h
  · split at h
    · exact runExec_good hg h
    · cases h
  · cases h; exact hg

theorem drain_good : ∀ (n : Nat) (s s' : St) (o : COut), Good s.paint → drain n s = .ok s' o → Good s'.paint := by
  intro n
  induction n with
  | zero => intro s s' o hg h; unfold drain at h; cases h; exact hg
  | succ k ih =>
    intro s s' o hg h
    unfold drain at h
    split at h
    · cases h; exact hg
    · split at h
      · rename_i s1 o1 hn
        exact ih s1 s' o (nextAction_good hg hn) h
      · rename_i r hne
        exact absurd h (hne s' o)

theorem paint_new_good : Good Paint.new := by
  refine ⟨by decide, ?_, ?_, by decide, by decide, by decide, ?_⟩
  · show (Array.replicate (320 * 200) 1).size = _
    simp
    rfl
  · intro v hv
    exact mem_replicate_one hv
  · intro v hv
    simp [Paint.new] at hv

end IcyVerif.IgsCanvas

namespace IcyVerif.IgsPaint

/-- the list form of `pictureData` -/
def picList (pens : List Nat) : List Nat → Option (List Nat)
  | [] => some []
  | px :: t =>
    match pixelBytes pens px, picList pens t with
    | some b, some rest => some (b ++ rest)
    | _, _ => none

theorem pictureData_eq (p : Paint) : pictureData p = picList p.pens p.screen.toList := by
  unfold pictureData
  generalize p.screen.toList = l
  induction l with
  | nil => rfl
  | cons a t ih =>
    simp only [List.foldr_cons, picList, ih]
    cases pixelBytes p.pens a <;> cases picList p.pens t <;> rfl

theorem foldl_picStep_none {β : Type} (f : β → Nat → β) (pens : List Nat) : ∀ l : List Nat, l.foldl (picStep f pens) none = none := by
  intro l
  induction l with
  | nil => rfl
  | cons a t ih => simp only [List.foldl_cons, picStep, ih]

theorem foldl_picStep {β : Type} (f : β → Nat → β) (pens : List Nat) : ∀ (l : List Nat) (a : β),
    l.foldl (picStep f pens) (some a) = (picList pens l).map fun d => d.foldl f a := by
  intro l
  induction l with
  | nil => intro a; rfl
  | cons px t ih =>
    intro a
    simp only [List.foldl_cons, picList]
    cases hb : pixelBytes pens px with
    | none => simp only [picStep, hb, foldl_picStep_none]; rfl
    | some bs =>
      simp only [picStep, hb]
      rw [ih]
      cases picList pens t with
      | none => rfl
      | some rest => simp [List.foldl_append]

/-- the driver's fold over the picture bytes is the fold over `pictureData` -/
theorem picFold_eq {β : Type} (f : β → Nat → β) (init : β) (p : Paint) :
    picFold f init p = (pictureData p).map fun d => d.foldl f init := by
  unfold picFold
  rw [← Array.foldl_toList, foldl_picStep, pictureData_eq]

end IcyVerif.IgsPaint
