import IcyVerif.Lemmas.ArtAnsiRead
import IcyVerif.Lemmas.ArtScreen
/-! # The ANSI reader up to what is SHOWN (C04, output line length)

`push_result` may put `ESC [ s  CR LF  ESC [ u` in front of any piece of output.  On a file buffer the line feed makes
`Caret::lf` append empty rows, so the reader's `lines` differ from the run without the split — but only by rows that show
nothing.  `SimR` relates two reader states that agree on everything except `lines`, which agree in what they SHOW
(`shownAt`), and except the saved cursor position.  Every step of the ANSI parser preserves `SimR` (`step_cong`) — except
`CSI u` itself, which reads the saved position; the writer emits it only inside the split sequence.  -/
set_option linter.unusedSimpArgs false
namespace IcyVerif.ArtIO
open IcyVerif.Gen.Art

def LinesEq (a b : List (List Cell)) : Prop := ∀ x y, shownAt a x y = shownAt b x y

theorem LinesEq.refl (a : List (List Cell)) : LinesEq a a := fun _ _ => rfl

/-- same geometry and caret, lines that show the same; the caret is inside the row -/
structure ScrEq (s t : Screen) : Prop where
  w : s.w = t.w
  layerH : s.layerH = t.layerH
  cx : s.cx = t.cx
  cy : s.cy = t.cy
  lines : LinesEq s.lines t.lines
  inw : s.cx < s.w

theorem ScrEq.put {s t : Screen} (h : ScrEq s t) (c : Cell) : ScrEq (s.put c) (t.put c) := by
  obtain ⟨h1, h2, h3, h4, h5, h6⟩ := h
  have ht : t.cx < t.w := by omega
  rw [put_eq s c h6, put_eq t c ht]
  by_cases hw : s.cx + 1 < s.w
  · have hw' : t.cx + 1 < t.w := by omega
    rw [if_pos hw, if_pos hw']
    refine ⟨h1, by simp only; rw [h2, h4], by simp only; rw [h3], h4, ?_, hw⟩
    intro x y
    show shownAt (linesSetChar s.lines s.w s.cx s.cy c) x y = shownAt (linesSetChar t.lines t.w t.cx t.cy c) x y
    rw [shownAt_linesSetChar, shownAt_linesSetChar, h3, h4, h5 x y]
  · have hw' : ¬ t.cx + 1 < t.w := by omega
    rw [if_neg hw, if_neg hw']
    refine ⟨h1, by simp only; rw [h2, h4], rfl, by simp only; rw [h4], ?_, by show 0 < s.w; omega⟩
    intro x y
    show shownAt (linesExtend (linesSetChar s.lines s.w s.cx s.cy c) (s.cy + 1)) x y =
      shownAt (linesExtend (linesSetChar t.lines t.w t.cx t.cy c) (t.cy + 1)) x y
    rw [shownAt_linesExtend, shownAt_linesExtend, shownAt_linesSetChar, shownAt_linesSetChar, h3, h4, h5 x y]

theorem ScrEq.lf {s t : Screen} (h : ScrEq s t) : ScrEq s.lf t.lf := by
  obtain ⟨h1, h2, h3, h4, h5, h6⟩ := h
  refine ⟨h1, h2, rfl, by show s.cy + 1 = t.cy + 1; rw [h4], ?_, by show 0 < s.w; omega⟩
  intro x y
  show shownAt (linesExtend s.lines (s.cy + 1)) x y = shownAt (linesExtend t.lines (t.cy + 1)) x y
  rw [shownAt_linesExtend, shownAt_linesExtend, h5 x y]

theorem ScrEq.cr {s t : Screen} (h : ScrEq s t) : ScrEq s.cr t.cr := by
  obtain ⟨h1, h2, h3, h4, h5, h6⟩ := h
  exact ⟨h1, h2, rfl, h4, h5, by show 0 < s.w; omega⟩

theorem ScrEq.clear {s t : Screen} (h : ScrEq s t) : ScrEq s.clear t.clear := by
  obtain ⟨h1, h2, h3, h4, h5, h6⟩ := h
  exact ⟨h1, h2, rfl, rfl, fun _ _ => rfl, by show 0 < s.w; omega⟩

/-- the caret moved to a column / row that is the same on both sides, then clamped -/
theorem ScrEq.moveLimit {s t : Screen} (h : ScrEq s t) (x y : Nat) :
    ScrEq ({ s with cx := x, cy := y } : Screen).limit ({ t with cx := x, cy := y } : Screen).limit := by
  obtain ⟨h1, h2, h3, h4, h5, h6⟩ := h
  refine ⟨h1, h2, by show min x (s.w - 1) = min x (t.w - 1); rw [h1], rfl, h5, ?_⟩
  show min x (s.w - 1) < s.w
  omega

theorem ScrEq.right {s t : Screen} (h : ScrEq s t) (n : Nat) : ScrEq (s.right n) (t.right n) := by
  have := h.moveLimit (min (s.cx + n) 2147483647) s.cy
  unfold Screen.right
  rw [← h.cx]
  have e : ({ t with cx := min (s.cx + n) 2147483647 } : Screen) = { t with cx := min (s.cx + n) 2147483647, cy := s.cy } := by
    rw [h.cy]
  rw [e]; exact this

theorem lineShown_eraseIdx (l : List Cell) (k x : Nat) :
    lineShown (l.eraseIdx k) x = if x < k then lineShown l x else lineShown l (x + 1) := by
  unfold lineShown
  rw [List.getElem?_eraseIdx]
  by_cases hx : x < k <;> simp [hx]

theorem shownAt_del (lines : List (List Cell)) (cx cy x y : Nat) :
    shownAt (lines.modify cy (fun l => l.eraseIdx cx)) x y =
      if y = cy then (if x < cx then shownAt lines x y else shownAt lines (x + 1) y) else shownAt lines x y := by
  unfold shownAt
  rw [List.getElem?_modify]
  by_cases hy : y = cy
  · subst hy
    simp only [if_true]
    cases hl : lines[y]? with
    | none => simp [lineShown]
    | some l => simp [lineShown_eraseIdx]
  · have : ¬ cy = y := fun e => hy e.symm
    simp [hy, this]

theorem ScrEq.del {s t : Screen} (h : ScrEq s t) : ScrEq s.del t.del := by
  obtain ⟨h1, h2, h3, h4, h5, h6⟩ := h
  refine ⟨h1, h2, h3, h4, ?_, h6⟩
  intro x y
  show shownAt (s.lines.modify s.cy (fun l => l.eraseIdx s.cx)) x y = shownAt (t.lines.modify t.cy (fun l => l.eraseIdx t.cx)) x y
  rw [shownAt_del, shownAt_del, h3, h4, h5 x y, h5 (x + 1) y]

theorem ScrEq.puts {s t : Screen} (h : ScrEq s t) (cells : List Cell) :
    ScrEq (cells.foldl Screen.put s) (cells.foldl Screen.put t) := by
  induction cells generalizing s t with
  | nil => exact h
  | cons c cs ih => exact ih (h.put c)

/-! ### cores and parser states -/

structure CoreEq (c d : Core) : Prop where
  scr : ScrEq c.scr d.scr
  attr : c.attr = d.attr
  caretIce : c.caretIce = d.caretIce
  bufIce : c.bufIce = d.bufIce
  pal : c.pal = d.pal
  termH : c.termH = d.termH
  stuck : c.stuck = d.stuck

/-- the split run `(p, c)` next to the plain run `(p0, c0)`: same parser state and last character, cores that show the
    same; the saved cursor position is NOT related -/
structure SimR (p : AnsiP) (c : Core) (p0 : AnsiP) (c0 : Core) : Prop where
  st : p.st = p0.st
  lastCh : p.lastCh = p0.lastCh
  core : CoreEq c c0

def isCsiSt : AState → Bool
  | .csi _ _ => true
  | _ => false

theorem CoreEq.printAttr {c d : Core} (h : CoreEq c d) : c.printAttr = d.printAttr := by
  unfold Core.printAttr; rw [h.caretIce, h.attr]

theorem CoreEq.withScr {c d : Core} (h : CoreEq c d) {s t : Screen} (hs : ScrEq s t) :
    CoreEq { c with scr := s } { d with scr := t } :=
  ⟨hs, h.attr, h.caretIce, h.bufIce, h.pal, h.termH, h.stuck⟩

theorem CoreEq.printAnsi {c d : Core} (h : CoreEq c d) (ch : Nat) : CoreEq (c.printAnsi ch) (d.printAnsi ch) := by
  unfold Core.printAnsi
  rw [h.printAttr]
  exact h.withScr (h.scr.put _)

theorem CoreEq.ff {c d : Core} (h : CoreEq c d) : CoreEq c.ff d.ff :=
  ⟨h.scr.clear, rfl, h.caretIce, h.bufIce, h.pal, h.termH, h.stuck⟩

theorem CoreEq.stick {c d : Core} (h : CoreEq c d) : CoreEq c.stick d.stick :=
  ⟨h.scr, h.attr, h.caretIce, h.bufIce, h.pal, h.termH, rfl⟩

theorem CoreEq.sgr {c d : Core} (h : CoreEq c d) (nums : List Nat) : CoreEq (sgr c nums) (sgr d nums) := by
  unfold ArtIO.sgr
  rw [h.attr, h.pal]
  exact ⟨h.scr, rfl, h.caretIce, h.bufIce, rfl, h.termH, h.stuck⟩

theorem CoreEq.rep {c d : Core} (h : CoreEq c d) (lastCh : Nat) (nums : List Nat) : CoreEq (rep c lastCh nums) (rep d lastCh nums) := by
  unfold ArtIO.rep
  simp only []
  rw [h.printAttr, h.scr.w, h.termH]
  exact ⟨h.scr.puts _, h.attr, h.caretIce, h.bufIce, h.pal, rfl, h.stuck⟩

theorem CoreEq.color24 {c d : Core} (h : CoreEq c d) (nums : List Nat) : CoreEq (color24 c nums) (color24 d nums) := by
  obtain ⟨h1, h2, h3, h4, h5, h6, h7⟩ := h
  unfold ArtIO.color24
  simp only []
  rw [h5]
  rcases insertColor d.pal (nums.getD 1 0 % 256, nums.getD 2 0 % 256, nums.getD 3 0 % 256) with ⟨pal', idx⟩
  simp only []
  split
  · exact ⟨h1, by simp only [h2], h3, h4, rfl, h6, h7⟩
  · exact ⟨h1, by simp only [h2], h3, h4, rfl, h6, h7⟩
  · exact ⟨h1, h2, h3, h4, rfl, h6, h7⟩

theorem ScrEq.cup {s t : Screen} (h : ScrEq s t) (nums : List Nat) : ScrEq (cup s nums) (cup t nums) := by
  unfold ArtIO.cup
  match nums with
  | [] => exact ⟨h.w, h.layerH, rfl, rfl, h.lines, by show 0 < s.w; have := h.inw; omega⟩
  | [r] => exact h.moveLimit 0 (r - 1)
  | r :: c :: _ => exact h.moveLimit (c - 1) (r - 1)

/-- every step of the parser preserves `SimR`, except `CSI u` (which reads the saved position) -/
theorem step_cong {p p0 : AnsiP} {c c0 : Core} (h : SimR p c p0 c0) (ch : Nat) (hu : ch = 117 → isCsiSt p.st = false) :
    SimR (ansiStep p c ch).1 (ansiStep p c ch).2 (ansiStep p0 c0 ch).1 (ansiStep p0 c0 ch).2 := by
  obtain ⟨hst, hlc, hc⟩ := h
  unfold ansiStep
  by_cases hs : c.stuck = true
  · have hs0 : c0.stuck = true := by rw [← hc.stuck]; exact hs
    rw [if_pos hs, if_pos hs0]; exact ⟨hst, hlc, hc⟩
  · have hs0 : ¬ c0.stuck = true := by rw [← hc.stuck]; exact hs
    rw [if_neg hs, if_neg hs0, ← hst]
    cases hp : p.st with
    | ground =>
      simp only []
      by_cases h1 : ch = 27
      · simp only [h1, if_true]; exact ⟨rfl, hlc, hc⟩
      simp only [h1, if_false]
      by_cases h2 : ch = 10
      · simp only [h2, if_true]; exact ⟨hst, hlc, hc.withScr hc.scr.lf⟩
      simp only [h2, if_false]
      by_cases h3 : ch = 12
      · simp only [h3, if_true]; exact ⟨hst, hlc, hc.ff⟩
      simp only [h3, if_false]
      by_cases h4 : ch = 13
      · simp only [h4, if_true]; exact ⟨hst, hlc, hc.withScr hc.scr.cr⟩
      simp only [h4, if_false]
      by_cases h5 : ch = 7
      · simp only [h5, if_true]; exact ⟨hst, hlc, hc⟩
      simp only [h5, if_false]
      by_cases h6 : ch = 127
      · simp only [h6, if_true]; exact ⟨hst, hlc, hc.withScr hc.scr.del⟩
      simp only [h6, if_false]
      exact ⟨rfl, rfl, hc.printAnsi ch⟩
    | esc =>
      simp only []
      by_cases h1 : ch = 91
      · simp only [h1, if_true]; exact ⟨rfl, hlc, hc⟩
      simp only [h1, if_false]
      by_cases h2 : escPrintable ch = true
      · simp only [h2, if_true]; exact ⟨rfl, rfl, hc.printAnsi ch⟩
      simp only [h2, if_false, Bool.false_eq_true]
      split
      · exact ⟨hst, hlc, hc.stick⟩
      · exact ⟨rfl, hlc, hc⟩
    | csi nums start =>
      have hu' : ch ≠ 117 := by
        intro e; have := hu e; rw [hp] at this; cases this
      simp only []
      by_cases h1 : ch = 109
      · simp only [h1, if_true]; exact ⟨rfl, hlc, hc.sgr nums⟩
      simp only [h1, if_false]
      by_cases h2 : ch = 72 ∨ ch = 102
      · simp only [h2, if_true]; exact ⟨rfl, hlc, hc.withScr (hc.scr.cup nums)⟩
      simp only [h2, if_false]
      by_cases h3 : ch = 67
      · simp only [h3, if_true]; exact ⟨rfl, hlc, hc.withScr (hc.scr.right _)⟩
      simp only [h3, if_false]
      by_cases h4 : ch = 115
      · simp only [h4, if_true]; exact ⟨rfl, hlc, hc⟩
      simp only [h4, if_false, hu']
      by_cases h5 : ch = 74
      · simp only [h5, if_true]
        split
        · exact ⟨rfl, hlc, hc.withScr hc.scr.clear⟩
        · exact ⟨rfl, hlc, hc.withScr hc.scr.clear⟩
        · exact ⟨hst, hlc, hc.stick⟩
      simp only [h5, if_false]
      by_cases h6 : ch = 116
      · simp only [h6, if_true]
        split
        · exact ⟨rfl, hlc, hc.color24 nums⟩
        · split
          · exact ⟨hst, hlc, hc.stick⟩
          · exact ⟨rfl, hlc, hc⟩
      simp only [h6, if_false]
      by_cases h7 : ch = 98
      · simp only [h7, if_true]; rw [hlc]; exact ⟨rfl, rfl, hc.rep _ nums⟩
      simp only [h7, if_false]
      by_cases h8 : ch = 63
      · simp only [h8, if_true]
        split
        · exact ⟨rfl, hlc, hc⟩
        · exact ⟨hst, hlc, hc.stick⟩
      simp only [h8, if_false]
      by_cases h9 : ch = 32
      · simp only [h9, if_true]; exact ⟨rfl, hlc, hc⟩
      simp only [h9, if_false]
      by_cases h10 : isDigit ch = true
      · simp only [h10, if_true]; exact ⟨rfl, hlc, hc⟩
      simp only [h10, if_false, Bool.false_eq_true]
      by_cases h11 : ch = 59
      · simp only [h11, if_true]; exact ⟨rfl, hlc, hc⟩
      simp only [h11, if_false]
      exact ⟨hst, hlc, hc.stick⟩
    | csiQ nums =>
      simp only []
      by_cases h1 : isDigit ch = true
      · simp only [h1, if_true]; exact ⟨rfl, hlc, hc⟩
      simp only [h1, if_false, Bool.false_eq_true]
      by_cases h2 : ch = 59
      · simp only [h2, if_true]; exact ⟨rfl, hlc, hc⟩
      simp only [h2, if_false]
      by_cases h3 : ch = 104
      · simp only [h3, if_true]
        split
        · exact ⟨rfl, hlc, ⟨hc.scr, hc.attr, rfl, rfl, hc.pal, hc.termH, hc.stuck⟩⟩
        · exact ⟨hst, hlc, hc.stick⟩
      simp only [h3, if_false]
      by_cases h4 : ch = 108
      · simp only [h4, if_true]
        split
        · exact ⟨rfl, hlc, ⟨hc.scr, hc.attr, rfl, hc.bufIce, hc.pal, hc.termH, hc.stuck⟩⟩
        · exact ⟨hst, hlc, hc.stick⟩
      simp only [h4, if_false]
      exact ⟨hst, hlc, hc.stick⟩
    | csiSp nums =>
      simp only []
      by_cases h1 : ch = 68
      · simp only [h1, if_true]
        split
        · exact ⟨rfl, hlc, hc⟩
        · exact ⟨hst, hlc, hc.stick⟩
      simp only [h1, if_false]
      exact ⟨hst, hlc, hc.stick⟩

end IcyVerif.ArtIO
