import IcyVerif.Lemmas.ArtAnsiCells
import IcyVerif.Lemmas.ArtItems
/-! # The compressing ANSI writer: RLE scan, cursor-forward and repeat substitution (C04, `subst_sound`) -/
set_option linter.unusedSimpArgs false
namespace IcyVerif.ArtIO
open IcyVerif.Gen.Art

/-- the cells of (part of) a row next to the `CharCell`s `generate_cells` made of them: each one's SGR parameters are
    simple and move the reader from the previous cell's rendition to its own; no 24-bit colour command -/
inductive LineOk (o : AnsiOpts) (ic : Bool) : Attr → List Cell → List CharCell → Prop
  | nil (A : Attr) : LineOk o ic A [] []
  | cons (A : Attr) (c : Cell) (cc : CharCell) (cs : List Cell) (ccs : List CharCell) :
      cc.ch = c.ch → cc.sgrTc = [] → AllSimple cc.sgr → sgrSimple A cc.sgr = caretAttr ic c.attr →
      RelS ic cc.cur.isBlink cc.cur (caretAttr ic c.attr) → CellDom o ic c → LineOk o ic (caretAttr ic c.attr) cs ccs →
      LineOk o ic A (c :: cs) (cc :: ccs)

theorem LineOk.length_eq {o : AnsiOpts} {ic : Bool} {A : Attr} {cs : List Cell} {ccs : List CharCell} (h : LineOk o ic A cs ccs) :
    ccs.length = cs.length := by
  induction h with
  | nil => rfl
  | cons _ _ _ _ _ _ _ _ _ _ _ _ ih => simp [ih]

/-- the rendition in force after a list of cells -/
def lastAttr (ic : Bool) (A : Attr) : List Cell → Attr
  | [] => A
  | c :: cs => lastAttr ic (caretAttr ic c.attr) cs

/-- `generate_cells` on one row produces a `LineOk` line (16 colours, blink / unlimited mode) -/
theorem lineOk_gen (o : AnsiOpts) (im : IceMode) (ic : Bool) (hic : ic = decide (im = .ice)) (row : List Cell)
    (hd : ∀ c ∈ row, CellDom o ic c) :
    ∀ (n x : Nat) (st : AnsiState) (A : Attr), x + n ≤ row.length → RelS ic st.isBlink st A →
      LineOk o ic A ((row.drop x).take n) (genCellsRow o dosPalette im row n x st).1 ∧
      RelS ic (genCellsRow o dosPalette im row n x st).2.isBlink (genCellsRow o dosPalette im row n x st).2
        (lastAttr ic A ((row.drop x).take n)) := by
  subst hic
  intro n
  induction n with
  | zero => intro x st A _ h; exact ⟨by simp [genCellsRow]; exact LineOk.nil A, by simpa [genCellsRow, lastAttr] using h⟩
  | succ k ih =>
    intro x st A hx h
    have hxl : x < row.length := by omega
    have hget : row.getD x defaultCell = row[x] := by
      rw [List.getD_eq_getElem?_getD, List.getElem?_eq_getElem hxl]; rfl
    have hdc : CellDom o (decide (im = .ice)) row[x] := hd _ (List.getElem_mem hxl)
    have hvis : (row[x]).isVisible = true := by
      unfold Cell.isVisible; rw [hdc.1.2.2.2]; rfl
    obtain ⟨S1, S2, S3, S4⟩ := sgr_sync o im row[x].attr hdc.1 st A h
    obtain ⟨I1, I2⟩ := ih (x + 1) (getColor o dosPalette im row[x].attr st).1 (caretAttr (decide (im = .ice)) row[x].attr) (by omega) (by rw [← S4]; exact S3)
    have hdrop : (row.drop x).take (k + 1) = row[x] :: (row.drop (x + 1)).take k := by
      rw [List.drop_eq_getElem_cons hxl]; rfl
    unfold genCellsRow
    rw [hget, hdrop]
    simp only [hvis, if_true]
    refine ⟨?_, ?_⟩
    · exact LineOk.cons A row[x] _ _ _ rfl S1 S2 S4 (by rw [← S4]; exact S3) hdc I1
    · exact I2

/-- facts about the RLE scan: the counted cells repeat the first one's character and change no rendition -/
theorem rleCount_spec (first : CharCell) : ∀ (rest : List CharCell),
    rleCount first rest ≤ rest.length ∧
    ∀ j, j < rleCount first rest → ∃ cc, rest[j]? = some cc ∧ cc.ch = first.ch ∧ cc.sgr = [] ∧ cc.sgrTc = [] := by
  intro rest
  induction rest with
  | nil => exact ⟨Nat.le_refl _, fun j h => by simp [rleCount] at h⟩
  | cons c rest ih =>
    unfold rleCount
    by_cases hc : c.ch ≠ first.ch ∨ (!c.sgr.isEmpty) = true ∨ (!c.sgrTc.isEmpty) = true
    · rw [if_pos hc]
      exact ⟨Nat.zero_le _, fun j h => by omega⟩
    · rw [if_neg hc]
      obtain ⟨i1, i2⟩ := ih
      refine ⟨by simp; omega, ?_⟩
      intro j hj
      cases j with
      | zero =>
        refine ⟨c, rfl, ?_, ?_, ?_⟩
        · cases hq : decide (c.ch = first.ch) with
          | true => simpa using hq
          | false => exact absurd (Or.inl (by simpa using hq)) hc
        · cases hq : c.sgr with
          | nil => rfl
          | cons a b => exact absurd (Or.inr (Or.inl (by simp [hq]))) hc
        · cases hq : c.sgrTc with
          | nil => rfl
          | cons a b => exact absurd (Or.inr (Or.inr (by simp [hq]))) hc
      | succ j' =>
        obtain ⟨cc, e, h1, h2, h3⟩ := i2 j' (by omega)
        exact ⟨cc, by simpa using e, h1, h2, h3⟩

/-- a run found by the RLE scan: its cells carry the first cell's character and rendition, and the rest of the line is
    still `LineOk` from that rendition -/
theorem lineOk_run (o : AnsiOpts) (ic : Bool) (ch0 : Nat) : ∀ (r : Nat) (A : Attr) (cs : List Cell) (ccs : List CharCell),
    LineOk o ic A cs ccs → r ≤ ccs.length →
    (∀ j, j < r → ∃ cc, ccs[j]? = some cc ∧ cc.ch = ch0 ∧ cc.sgr = [] ∧ cc.sgrTc = []) →
    (∀ j, j < r → (cs.getD j defaultCell).ch = ch0 ∧ caretAttr ic (cs.getD j defaultCell).attr = A ∧
      CellDom o ic (cs.getD j defaultCell)) ∧
    LineOk o ic A (cs.drop r) (ccs.drop r) := by
  intro r
  induction r with
  | zero => intro A cs ccs h _ _; exact ⟨fun j hj => by omega, by simpa using h⟩
  | succ k ih =>
    intro A cs ccs h hr hrun
    cases h with
    | nil => simp at hr
    | cons _ c cc cs' ccs' h1 h2 h3 h4 h5 h6 h7 =>
      obtain ⟨cc0, e0, g1, g2, _⟩ := hrun 0 (by omega)
      simp at e0; subst e0
      have hA : caretAttr ic c.attr = A := by rw [← h4, g2]; rfl
      have hrun' : ∀ j, j < k → ∃ cc, ccs'[j]? = some cc ∧ cc.ch = ch0 ∧ cc.sgr = [] ∧ cc.sgrTc = [] := by
        intro j hj
        obtain ⟨cc, e, q1, q2, q3⟩ := hrun (j + 1) (by omega)
        exact ⟨cc, by simpa using e, q1, q2, q3⟩
      rw [hA] at h7
      obtain ⟨J1, J2⟩ := ih A cs' ccs' h7 (by simp at hr; omega) hrun'
      refine ⟨?_, by simpa using J2⟩
      intro j hj
      cases j with
      | zero => exact ⟨by simp; rw [← h1, g1], by simpa using hA, by simpa using h6⟩
      | succ j' => simpa using J1 j' (by omega)

/-! ### the reader on the three shapes of output -/

/-- the reader between two steps of the line loop: ground state, rendition `A`, screen width `w` -/
structure CInv (ic : Bool) (A : Attr) (w : Nat) (p : AnsiP) (c : Core) : Prop where
  ns : c.stuck = false
  ag : p.st = .ground
  ice : c.caretIce = ic
  attr : c.attr = A
  sw : c.scr.w = w
  th : 1 ≤ c.termH

theorem item_w (s : Screen) (it : Option Cell) : (s.item it).w = s.w := by
  cases it with
  | some c => exact exec_w s (Op.put c)
  | none => rfl

theorem runItems_w (items : List (Option Cell)) : ∀ (s : Screen), (s.runItems items).w = s.w := by
  induction items with
  | nil => intro s; rfl
  | cons it rest ih => intro s; rw [runItems_cons, ih, item_w]

/-- the SGR sequence (if any) in front of a cell sets the reader's rendition to the cell's -/
theorem pre_read (ic : Bool) (A A' : Attr) (w : Nat) (p : AnsiP) (core : Core) (sgrs tc : List Nat) (h : CInv ic A w p core)
    (htc : tc = []) (hs : AllSimple sgrs) (ha : sgrSimple A sgrs = A') :
    ∃ p1, ansiRun p core ((if sgrs.isEmpty then [] else csi sgrs 109) ++ tcSeqs tc.length tc) = (p1, { core with attr := A' }) ∧
      CInv ic A' w p1 { core with attr := A' } := by
  obtain ⟨ns, ag, ice, hat, sw, th⟩ := h
  subst htc
  have htc : tcSeqs ([] : List Nat).length [] = [] := rfl
  rw [htc, List.append_nil]
  by_cases hemp : sgrs.isEmpty = true
  · rw [if_pos hemp]
    have : sgrs = [] := by simpa using hemp
    rw [this, sgrSimple_nil] at ha
    refine ⟨p, ?_, ⟨ns, ag, ice, rfl, sw, th⟩⟩
    rw [ansiRun_nil, ← ha, ← hat]
  · rw [if_neg hemp]
    have hne : sgrs ≠ [] := by intro e; rw [e] at hemp; exact hemp rfl
    rw [csi_read p core sgrs 109 ns ag hne (fun n hn => (hs n hn).2)]
    refine ⟨{ p with st := .ground }, ?_, ⟨ns, rfl, ice, rfl, sw, th⟩⟩
    have e : ansiStep { p with st := .csi sgrs false } core 109 = ({ p with st := .ground }, sgr core sgrs) := by
      unfold ansiStep; simp [ns]
    rw [e, sgr_simple core sgrs hne (fun n hn => (hs n hn).1), hat, ha]

/-- the character of a cell (possibly ESC-prefixed) is printed with the current rendition -/
theorem char_read (o : AnsiOpts) (ic : Bool) (A PA : Attr) (w : Nat) (p : AnsiP) (core : Core) (ch : Nat) (h : CInv ic A w p core)
    (hd : EncDom o ch) (hpa : core.printAttr = PA) :
    ∃ p1, ansiRun p core (cellChar o ch) = (p1, { core with scr := core.scr.put ⟨ch, PA⟩ }) ∧ p1.lastCh = ch ∧
      CInv ic A w p1 { core with scr := core.scr.put ⟨ch, PA⟩ } := by
  obtain ⟨ns, ag, ice, hat, sw, th⟩ := h
  refine ⟨{ p with lastCh := ch }, ?_, rfl, ⟨ns, ag, ice, hat, ?_, th⟩⟩
  · rw [cellChar_read o p core ch ns ag hd]
    simp [Core.printAnsi, hpa]
  · show (core.scr.put ⟨ch, PA⟩).w = w
    rw [← sw]; exact exec_w core.scr (Op.put ⟨ch, PA⟩)

/-- `CSI n C` away from the right margin is `n` skipped items -/
theorem cuf_read (ic : Bool) (A : Attr) (w : Nat) (p : AnsiP) (core : Core) (n : Nat) (h : CInv ic A w p core) (hn : n < 1000)
    (hfit : core.scr.cx + n < w) (hw : w ≤ 100000) :
    ∃ p1, ansiRun p core (csi [n] 67) = (p1, { core with scr := core.scr.runItems (List.replicate n none) }) ∧
      CInv ic A w p1 { core with scr := core.scr.runItems (List.replicate n none) } := by
  obtain ⟨ns, ag, ice, hat, sw, th⟩ := h
  rw [csi_read p core [n] 67 ns ag (by simp) (by intro m hm; simp at hm; omega)]
  have e : ansiStep { p with st := .csi [n] false } core 67 = ({ p with st := .ground }, { core with scr := core.scr.right n }) := by
    unfold ansiStep; simp [ns]
  rw [e, right_n n core.scr (by rw [sw]; exact hfit) (by rw [sw]; exact hw)]
  exact ⟨_, rfl, ⟨ns, rfl, ice, hat, by show (core.scr.runItems _).w = w; rw [runItems_w, sw], th⟩⟩

/-- `CSI n b` repeats the character printed last with the current rendition -/
theorem rep_read (ic : Bool) (A PA : Attr) (w : Nat) (p : AnsiP) (core : Core) (n : Nat) (h : CInv ic A w p core) (hn : n < 1000) (hnw : n ≤ w)
    (hpa : core.printAttr = PA) :
    ∃ p1, ansiRun p core (csi [n] 98) = (p1, { core with scr := core.scr.runItems (List.replicate n (some ⟨p.lastCh, PA⟩)) }) ∧
      CInv ic A w p1 { core with scr := core.scr.runItems (List.replicate n (some ⟨p.lastCh, PA⟩)) } := by
  obtain ⟨ns, ag, ice, hat, sw, th⟩ := h
  rw [csi_read p core [n] 98 ns ag (by simp) (by intro m hm; simp at hm; omega)]
  have hmin : min n (core.scr.w * core.termH) = n := by
    have : core.scr.w ≤ core.scr.w * core.termH := Nat.le_mul_of_pos_right _ th
    omega
  have e : ansiStep { p with st := .csi [n] false } core 98 =
      ({ p with st := .ground }, { core with scr := core.scr.runItems (List.replicate n (some ⟨p.lastCh, PA⟩)) }) := by
    unfold ansiStep
    simp [ns, rep, hmin, hpa, puts_replicate]
  rw [e]
  exact ⟨_, rfl, ⟨ns, rfl, ice, hat, by show (core.scr.runItems _).w = w; rw [runItems_w, sw], th⟩⟩

/-! the same four facts with the resulting state abstracted (keeps the terms of the main induction small) -/

theorem pre_read' (ic : Bool) (A A' : Attr) (w : Nat) (p : AnsiP) (core : Core) (sgrs tc : List Nat) (h : CInv ic A w p core)
    (htc : tc = []) (hs : AllSimple sgrs) (ha : sgrSimple A sgrs = A') :
    ∃ p1 core1, ansiRun p core ((if sgrs.isEmpty then [] else csi sgrs 109) ++ tcSeqs tc.length tc) = (p1, core1) ∧
      core1.scr = core.scr ∧ CInv ic A' w p1 core1 := by
  obtain ⟨p1, e, inv⟩ := pre_read ic A A' w p core sgrs tc h htc hs ha
  exact ⟨p1, _, e, rfl, inv⟩

theorem char_read' (o : AnsiOpts) (ic : Bool) (A PA : Attr) (w : Nat) (p : AnsiP) (core : Core) (ch : Nat) (h : CInv ic A w p core)
    (hd : EncDom o ch) (hpa : core.printAttr = PA) :
    ∃ p1 core1, ansiRun p core (cellChar o ch) = (p1, core1) ∧ core1.scr = core.scr.put ⟨ch, PA⟩ ∧ p1.lastCh = ch ∧ CInv ic A w p1 core1 := by
  obtain ⟨p1, e, l, inv⟩ := char_read o ic A PA w p core ch h hd hpa
  exact ⟨p1, _, e, rfl, l, inv⟩

theorem cuf_read' (ic : Bool) (A : Attr) (w : Nat) (p : AnsiP) (core : Core) (n : Nat) (h : CInv ic A w p core) (hn : n < 1000)
    (hfit : core.scr.cx + n < w) (hw : w ≤ 100000) :
    ∃ p1 core1, ansiRun p core (csi [n] 67) = (p1, core1) ∧ core1.scr = core.scr.runItems (List.replicate n none) ∧ CInv ic A w p1 core1 := by
  obtain ⟨p1, e, inv⟩ := cuf_read ic A w p core n h hn hfit hw
  exact ⟨p1, _, e, rfl, inv⟩

theorem rep_read' (ic : Bool) (A PA : Attr) (w : Nat) (p : AnsiP) (core : Core) (n : Nat) (h : CInv ic A w p core) (hn : n < 1000) (hnw : n ≤ w)
    (hpa : core.printAttr = PA) :
    ∃ p1 core1, ansiRun p core (csi [n] 98) = (p1, core1) ∧
      core1.scr = core.scr.runItems (List.replicate n (some ⟨p.lastCh, PA⟩)) ∧ CInv ic A w p1 core1 := by
  obtain ⟨p1, e, inv⟩ := rep_read ic A PA w p core n h hn hnw hpa
  exact ⟨p1, _, e, rfl, inv⟩

/-! ### `subst_sound`: the line loop with RLE / CUF / REP substitution -/

/-- a cell the writer may skip with cursor forward: a space on colour 0 that does not blink -/
def SkipCell (c : Cell) : Prop := c.ch = 32 ∧ (printedAttr c.attr).bg = 0 ∧ (printedAttr c.attr).fl.blink = false

/-- the items the reader performs for the cells of (the rest of) a row that starts in column `x`: each cell is printed
    with its own rendition, or it is a skippable cell that is skipped away from the right margin -/
def ItemsOk (x w : Nat) (cells : List Cell) (items : List (Option Cell)) : Prop :=
  ∀ j, j < cells.length →
    items.getD j none = some (prImg (cells.getD j defaultCell)) ∨
    (items.getD j none = none ∧ SkipCell (cells.getD j defaultCell) ∧ x + j + 1 < w)

theorem lastAttr_run (ic : Bool) (A : Attr) : ∀ (r : Nat) (cs : List Cell),
    (∀ j, j < r → caretAttr ic (cs.getD j defaultCell).attr = A) → r ≤ cs.length → lastAttr ic A cs = lastAttr ic A (cs.drop r) := by
  intro r
  induction r with
  | zero => intro cs _ _; rfl
  | succ k ih =>
    intro cs h hr
    cases cs with
    | nil => simp at hr
    | cons c cs' =>
      have h0 : caretAttr ic c.attr = A := by simpa using h 0 (by omega)
      show lastAttr ic (caretAttr ic c.attr) cs' = lastAttr ic A (cs'.drop k)
      rw [h0]
      exact ih cs' (fun j hj => by simpa using h (j + 1) (by omega)) (by simp at hr; omega)

/-- a run of `m` equal items followed by the items of the rest -/
theorem itemsOk_run (x w m : Nat) (c : Cell) (cs : List Cell) (it : Option Cell) (items' : List (Option Cell))
    (hm : m ≤ cs.length + 1)
    (hrun : ∀ j, j < m → it = some (prImg ((c :: cs).getD j defaultCell)) ∨
      (it = none ∧ SkipCell ((c :: cs).getD j defaultCell) ∧ x + j + 1 < w))
    (hrest : ItemsOk (x + m) w ((c :: cs).drop m) items') :
    ItemsOk x w (c :: cs) (List.replicate m it ++ items') := by
  intro j hj
  by_cases hjm : j < m
  · have e : (List.replicate m it ++ items').getD j none = it := by
      rw [List.getD_eq_getElem?_getD, List.getElem?_append_left (by simp; exact hjm), List.getElem?_replicate, if_pos hjm]; rfl
    rw [e]; exact hrun j hjm
  · have e : (List.replicate m it ++ items').getD j none = items'.getD (j - m) none := by
      rw [List.getD_eq_getElem?_getD, List.getElem?_append_right (by simp; omega)]
      simp [List.getD_eq_getElem?_getD]
    have e2 : (c :: cs).getD j defaultCell = ((c :: cs).drop m).getD (j - m) defaultCell := by
      simp only [List.getD_eq_getElem?_getD, List.getElem?_drop]
      congr 2; omega
    have hlen : j - m < ((c :: cs).drop m).length := by simp at hj ⊢; omega
    rw [e, e2]
    rcases hrest (j - m) hlen with h | ⟨h1, h2, h3⟩
    · exact Or.inl h
    · exact Or.inr ⟨h1, h2, by omega⟩

theorem genLine_items (o : AnsiOpts) (ic : Bool) (w : Nat) (hw : w ≤ 999) : ∀ (fuel : Nat) (cells : List Cell) (line : List CharCell)
    (A : Attr) (x : Nat) (p : AnsiP) (core : Core),
    line.length ≤ fuel → LineOk o ic A cells line → x + cells.length ≤ w → CInv ic A w p core → (cells ≠ [] → core.scr.cx = x) →
    ∃ items : List (Option Cell), items.length = cells.length ∧ ItemsOk x w cells items ∧
      (ansiRun p core (genLine o w fuel x line)).2.scr = core.scr.runItems items ∧
      CInv ic (lastAttr ic A cells) w (ansiRun p core (genLine o w fuel x line)).1 (ansiRun p core (genLine o w fuel x line)).2 := by
  intro fuel
  induction fuel with
  | zero =>
    intro cells line A x p core hl hok _ hinv _
    have : line = [] := by cases line <;> simp_all
    subst this
    cases hok
    exact ⟨[], rfl, fun j hj => by simp at hj, rfl, hinv⟩
  | succ f ih =>
    intro cells line A x p core hl hok hfit hinv hcx
    cases hok with
    | nil => exact ⟨[], rfl, fun j hj => by simp at hj, by cases f <;> rfl, by cases f <;> exact hinv⟩
    | cons _ c cc cs rest h1 h2 h3 h4 h5 h6 h7 =>
      have hx : core.scr.cx = x := hcx (by simp)
      have hlr : rest.length = cs.length := h7.length_eq
      obtain ⟨r1, r2⟩ := rleCount_spec cc rest
      -- the SGR prefix
      obtain ⟨p1, core1, e1, s1, inv1⟩ := pre_read' ic A (caretAttr ic c.attr) w p core cc.sgr cc.sgrTc hinv h2 h3 h4
      have hpa1 : core1.printAttr = printedAttr c.attr := printAttr_caret ic c.attr h6.1 core1 inv1.ice inv1.attr
      -- the run the RLE scan found, on the picture's cells
      obtain ⟨run1, run2⟩ := lineOk_run o ic cc.ch (rleCount cc rest) (caretAttr ic c.attr) cs rest h7 r1 r2
      have hlast : lastAttr ic A (c :: cs) = lastAttr ic (caretAttr ic c.attr) (cs.drop (rleCount cc rest)) :=
        lastAttr_run ic (caretAttr ic c.attr) (rleCount cc rest) cs (fun j hj => (run1 j hj).2.1) (by omega)
      have hrunfacts : ∀ j, j < rleCount cc rest + 1 →
          ((c :: cs).getD j defaultCell).ch = c.ch ∧ caretAttr ic ((c :: cs).getD j defaultCell).attr = caretAttr ic c.attr ∧
          CellDom o ic ((c :: cs).getD j defaultCell) := by
        intro j hj
        cases j with
        | zero => exact ⟨rfl, rfl, h6⟩
        | succ j' =>
          have := run1 j' (by omega)
          rw [h1] at this
          simpa using this
      have hfit' : x + (rleCount cc rest + 1) + (cs.drop (rleCount cc rest)).length ≤ w := by
        simp at hfit ⊢; omega
      have hdropc : (c :: cs).drop (rleCount cc rest + 1) = cs.drop (rleCount cc rest) := rfl
      have hrl : rleCount cc rest < 1000 := by simp at hfit; omega
      have hxe : x + rleCount cc rest + 1 = x + (rleCount cc rest + 1) := by omega
      -- the cell alone: SGR prefix, character, then the rest of the line
      have plain : ∃ items : List (Option Cell), items.length = (c :: cs).length ∧ ItemsOk x w (c :: cs) items ∧
          (ansiRun p core (((if cc.sgr.isEmpty = true then [] else csi cc.sgr 109) ++ tcSeqs cc.sgrTc.length cc.sgrTc) ++
            cellChar o cc.ch ++ genLine o w f (x + 1) rest)).2.scr = core.scr.runItems items ∧
          CInv ic (lastAttr ic A (c :: cs)) w
            (ansiRun p core (((if cc.sgr.isEmpty = true then [] else csi cc.sgr 109) ++ tcSeqs cc.sgrTc.length cc.sgrTc) ++
              cellChar o cc.ch ++ genLine o w f (x + 1) rest)).1
            (ansiRun p core (((if cc.sgr.isEmpty = true then [] else csi cc.sgr 109) ++ tcSeqs cc.sgrTc.length cc.sgrTc) ++
              cellChar o cc.ch ++ genLine o w f (x + 1) rest)).2 := by
        rw [List.append_assoc, ansiRun_append, e1]
        simp only []
        obtain ⟨p2, core2, e2, s2, _, inv2⟩ := char_read' o ic (caretAttr ic c.attr) (printedAttr c.attr) w p1 core1 cc.ch inv1 (by rw [h1]; exact h6.2) hpa1
        rw [ansiRun_append, e2]
        simp only []
        have hitem : (⟨cc.ch, printedAttr c.attr⟩ : Cell) = prImg c := by rw [h1]; rfl
        have hscr2 : core2.scr = core.scr.put (prImg c) := by rw [s2, s1, hitem]
        have hpos : cs ≠ [] → core2.scr.cx = x + 1 := by
          intro hne
          have hlt : 0 < cs.length := List.length_pos_iff.2 hne
          rw [hscr2, (put_pos_in core.scr (prImg c) (by rw [hx, hinv.sw]; simp at hfit; omega)).1, hx]
        obtain ⟨items', q1, q2, q3, q4⟩ := ih cs rest (caretAttr ic c.attr) (x + 1) p2 core2 (by simp at hl; omega) h7
          (by simp at hfit; omega) inv2 hpos
        refine ⟨some (prImg c) :: items', by simp [q1], ?_, ?_, q4⟩
        · intro j hj
          cases j with
          | zero => left; rfl
          | succ j' =>
            have := q2 j' (by simp at hj; omega)
            rcases this with h | ⟨a, b, d⟩
            · left; simpa using h
            · right; exact ⟨by simpa using a, by simpa using b, by omega⟩
        · rw [q3, hscr2, runItems_cons]; rfl
      unfold genLine
      simp only []
      by_cases hcomp : o.compress = true
      · rw [if_pos hcomp]
        by_cases hcuf : o.useCursorForward = true ∧ cc.ch = 32 ∧ cc.cur.bgIdx = 0 ∧ cc.cur.bg = (0, 0, 0) ∧ (!cc.cur.isBlink) = true ∧
            x + rleCount cc rest + 1 < w ∧ (csi [rleCount cc rest + 1] 67).length ≤ rleCount cc rest
        · -- cursor forward over the whole run
          rw [if_pos hcuf]
          obtain ⟨_, k1, k2, _, k3, k4, _⟩ := hcuf
          rw [List.append_assoc, ansiRun_append, e1]
          simp only []
          obtain ⟨p2, core2, e2, s2, inv2⟩ := cuf_read' ic (caretAttr ic c.attr) w p1 core1 (rleCount cc rest + 1) inv1 (by omega)
            (by rw [s1, hx]; omega) (by omega)
          rw [ansiRun_append, e2]
          simp only []
          -- position after the skipped cells
          have hsk : SkipsInside core.scr (List.replicate (rleCount cc rest + 1) none) := by
            intro i hi _; simp at hi; rw [hx, hinv.sw]; omega
          have P := items_spec (List.replicate (rleCount cc rest + 1) none) core.scr (by simp; rw [hx, hinv.sw]; omega)
            (by rw [hinv.sw]; omega) hsk
          have hpos : cs.drop (rleCount cc rest) ≠ [] → core2.scr.cx = x + (rleCount cc rest + 1) := by
            intro _
            rw [s2, s1]
            have := (P.pos_in (by simp; rw [hx, hinv.sw]; omega)).1
            simpa [hx] using this
          obtain ⟨items', q1, q2, q3, q4⟩ := ih (cs.drop (rleCount cc rest)) (rest.drop (rleCount cc rest)) (caretAttr ic c.attr)
            (x + (rleCount cc rest + 1)) p2 core2 (by simp at hl ⊢; omega) run2 hfit' inv2 hpos
          rw [hxe]
          refine ⟨List.replicate (rleCount cc rest + 1) none ++ items', ?_, ?_, ?_, ?_⟩
          · simp [q1]; omega
          · apply itemsOk_run x w (rleCount cc rest + 1) c cs none items' (by omega)
            · intro j hj
              right
              obtain ⟨g1, g2, g3⟩ := hrunfacts j hj
              have hsk := skip_of_caret ic _ g3.1 (by rw [g2, ← h5.bi]; exact k2) (by
                rw [g2, h5.fl]
                show cc.cur.isBlink = false
                cases hb : cc.cur.isBlink with
                | false => rfl
                | true => simp [hb] at k3)
              exact ⟨rfl, ⟨by rw [g1, ← h1]; exact k1, hsk.1, hsk.2⟩, by omega⟩
            · rw [hdropc]; exact q2
          · rw [q3, s2, s1, runItems_append]
          · rw [hlast]; exact q4
        · rw [if_neg hcuf]
          by_cases hrep : o.useRepeatSequences = true ∧ (csi [rleCount cc rest] 98).length ≤ rleCount cc rest
          · -- the cell, then CSI n b for the rest of the run
            rw [if_pos hrep]
            have hr4 : 4 ≤ rleCount cc rest := by
              have : 4 ≤ (csi [rleCount cc rest] 98).length := by
                unfold csi params digits
                by_cases a : rleCount cc rest < 10 <;> by_cases b : rleCount cc rest < 100 <;> simp [a, b, hrl]
              omega
            rw [List.append_assoc, List.append_assoc, ansiRun_append, e1]
            simp only []
            obtain ⟨p2, core2, e2, s2, l2, inv2⟩ := char_read' o ic (caretAttr ic c.attr) (printedAttr c.attr) w p1 core1 cc.ch inv1 (by rw [h1]; exact h6.2) hpa1
            rw [ansiRun_append, e2]
            simp only []
            obtain ⟨p3, core3, e3, s3, inv3⟩ := rep_read' ic (caretAttr ic c.attr) (printedAttr c.attr) w p2 core2 (rleCount cc rest) inv2 (by omega) (by omega)
              (printAttr_caret ic c.attr h6.1 core2 inv2.ice inv2.attr)
            rw [ansiRun_append, e3]
            simp only []
            have hitem : (⟨cc.ch, printedAttr c.attr⟩ : Cell) = prImg c := by rw [h1]; rfl
            have hscr3 : core3.scr = core.scr.runItems (List.replicate (rleCount cc rest + 1) (some (prImg c))) := by
              rw [s3, s2, s1, l2, hitem, List.replicate_succ, runItems_cons]; rfl
            have hsk : SkipsInside core.scr (List.replicate (rleCount cc rest + 1) (some (prImg c))) := by
              intro i hi hn
              rw [List.getD_eq_getElem?_getD, List.getElem?_replicate, if_pos (by simpa using hi)] at hn
              cases hn
            have P := items_spec (List.replicate (rleCount cc rest + 1) (some (prImg c))) core.scr (by simp; rw [hx, hinv.sw]; omega)
              (by rw [hinv.sw]; omega) hsk
            have hpos : cs.drop (rleCount cc rest) ≠ [] → core3.scr.cx = x + (rleCount cc rest + 1) := by
              intro hne
              rw [hscr3]
              have hlt : 0 < (cs.drop (rleCount cc rest)).length := List.length_pos_iff.2 hne
              have := (P.pos_in (by simp; rw [hx, hinv.sw]; omega)).1
              simpa [hx] using this
            obtain ⟨items', q1, q2, q3, q4⟩ := ih (cs.drop (rleCount cc rest)) (rest.drop (rleCount cc rest)) (caretAttr ic c.attr)
              (x + (rleCount cc rest + 1)) p3 core3 (by simp at hl ⊢; omega) run2 hfit' inv3 hpos
            rw [hxe]
            refine ⟨List.replicate (rleCount cc rest + 1) (some (prImg c)) ++ items', ?_, ?_, ?_, ?_⟩
            · simp [q1]; omega
            · apply itemsOk_run x w (rleCount cc rest + 1) c cs (some (prImg c)) items' (by omega)
              · intro j hj
                left
                obtain ⟨g1, g2, g3⟩ := hrunfacts j hj
                show some (prImg c) = some (prImg ((c :: cs).getD j defaultCell))
                unfold prImg; rw [g1, printed_eq_of_caret_eq ic _ _ g3.1 h6.1 g2]
              · rw [hdropc]; exact q2
            · rw [q3, hscr3, runItems_append]
            · rw [hlast]; exact q4
          · -- the cell alone
            rw [if_neg hrep]
            exact plain
      · rw [if_neg hcomp]
        exact plain

end IcyVerif.ArtIO
