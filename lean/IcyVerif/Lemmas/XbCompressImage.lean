import IcyVerif.Lemmas.XbCompress
import IcyVerif.Lemmas.XbCompressLoad
set_option linter.unusedSimpArgs false
set_option linter.unusedVariables false
/-!
# Helper lemmas for the file-level corollaries of C06

`rows_as_runs`: a whole image written by `compress_backtrack` is, row by row, a serialisation of well-formed runs.
List plumbing (`flatMap` over rows vs. over the flattened cell list), the raw pair stream, and two facts about
`decode_char`/`encode_attr` on bytes used by `loaded_font_page`.
-/
namespace IcyVerif.XbCompress
open IcyVerif.Gen

theorem rows_as_runs (enc : Attr → Nat) (rows : List (List Cell)) :
    ∃ rr : List (List Run),
      rows.flatMap (compressRow enc) = rr.flatMap (fun rs => rs.flatMap Run.ser) ∧
      (∀ rs ∈ rr, ∀ r ∈ rs, r.ok) ∧ rr.map expand = rows.map (fun row => row.map (encCell enc)) := by
  induction rows with
  | nil => exact ⟨[], rfl, by simp, rfl⟩
  | cons row rows ih =>
    obtain ⟨rr, h1, h2, h3⟩ := ih
    obtain ⟨rs, g1, g2, g3⟩ := run_builder_sound enc realEndRun (realEndRun_forced enc) row
    refine ⟨rs :: rr, ?_, ?_, ?_⟩
    · simp only [List.flatMap_cons, h1]; rw [← g1]; rfl
    · intro a ha
      rcases List.mem_cons.mp ha with h | h
      · subst h; exact g2
      · exact h2 a h
    · simp [g3, h3]

theorem takePairs_raw (enc : Attr → Nat) (cells : List Cell) (tl : List Nat) :
    takePairs cells.length (cells.flatMap (fun c => [c.ch, enc c.attr]) ++ tl) = some (cells.map (encCell enc), tl) := by
  induction cells with
  | nil => simp [takePairs]
  | cons c cs ih => simp [takePairs, ih, encCell]

theorem flatMap_flatMap_eq {α β : Type} (f : α → List β) (ll : List (List α)) :
    ll.flatMap (fun l => l.flatMap f) = ll.flatten.flatMap f := by
  induction ll with
  | nil => rfl
  | cons l ls ih => simp [ih, List.flatMap_append]

theorem raw_flat (enc : Attr → Nat) (rows : List (List Cell)) :
    rows.flatMap (rawRow enc) = rows.flatten.flatMap (fun c => [c.ch, enc c.attr]) :=
  flatMap_flatMap_eq (fun c : Cell => [c.ch, enc c.attr]) rows

theorem expand_rows (rr : List (List Run)) (cells : List (List (Nat × Nat))) (h : rr.map expand = cells) :
    expand rr.flatten = cells.flatten := by
  rw [← h]
  have := flatMap_flatMap_eq Run.cells rr
  simp only [expand] at this ⊢
  rw [← this, List.flatMap_def]
  rfl

theorem decodeChar_page : ∀ b, b < 256 → ∀ ice : Bool, ∀ ch : Nat,
    (decodeChar ice true (ch, b)).attr.page = if b.testBit 3 then 1 else 0 := by
  have h : ∀ b, b < 256 → ∀ ice : Bool,
      (if (fromU8 ice b).fg > 7 then 1 else 0) = (if b.testBit 3 then 1 else 0) ∧ (fromU8 ice b).page = 0 := by decide +kernel
  intro b hb ice ch
  obtain ⟨h1, h2⟩ := h b hb ice
  unfold decodeChar
  by_cases hfg : (fromU8 ice b).fg > 7
  · simp [hfg] at h1 ⊢; simp [h1]
  · simp [hfg] at h1 ⊢; simp [h1, h2]

theorem encodeAttr_lt (im : IceMode) (p0 p1 : Nat) (a : Attr) : encodeAttr im [p0, p1] a < 256 := by
  have hkeep : Xb.encKeepMask = 247 := by decide
  have hbit : Xb.encPageBit = 8 := by decide
  have h1 : asU8 im a < 2 ^ 8 := by unfold asU8; exact Nat.mod_lt _ (by decide)
  have h2 : asU8 im a &&& 247 < 2 ^ 8 := Nat.lt_of_le_of_lt Nat.and_le_left h1
  unfold encodeAttr
  simp only [List.length_cons, List.length_nil, if_true, hkeep, hbit]
  by_cases h : a.page = [p0, p1].getD 1 0
  · simp only [h, if_true]; exact Nat.or_lt_two_pow h2 (by decide)
  · simp only [h, if_false]; exact Nat.or_lt_two_pow h2 (by decide)

end IcyVerif.XbCompress
