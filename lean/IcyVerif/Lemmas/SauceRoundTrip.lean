import IcyVerif.Lemmas.SauceExtract
/-! C11: the record written by `write_sauce_info` read back by `extract`, field by field (cursor walk), the comment
    block, and the per-variant interpretation = what the variant can carry. -/
set_option linter.unusedSimpArgs false
set_option linter.unusedVariables false
namespace IcyVerif.Sauce
open IcyVerif.Gen.Sauce

/-- the strings handed to the writer fit their fields (an invariant of `SauceString::from`) -/
structure Valid (b : BufInfo) : Prop where
  title : (b.sauce.getD {}).title.length ≤ titleLen
  author : (b.sauce.getD {}).author.length ≤ authorLen
  group : (b.sauce.getD {}).group.length ≤ groupLen
  comments : ∀ c ∈ (b.sauce.getD {}).comments, c.length ≤ commentLen

/-- raw fields a record written by `write_sauce_info` holds, as `read` returns them -/
def writtenHeader (a : WArm) (ft : Nat) (b : BufInfo) (nc : Nat) : Header :=
  let m := b.sauce.getD {}
  { title := carryPad titleLen titlePad m.title, author := carryPad authorLen authorPad m.author,
    group := carryPad groupLen groupPad m.group, dataType := a.dataType, fileType := ft,
    t1 := if a.w1 then b.width % 65536 else 0, t2 := if a.h2 then b.height % 65536 else 0,
    nComments := nc, flags := flagBits a b,
    tinfo := carryNul (strFrom tinfoLen (if a.font then b.fontName else [])) }

theorem le16_val (n : Nat) (h : n < 65536) : n % 256 + n / 256 % 256 * 256 = n := by omega

theorem parseHeader_record (dateOk : List Nat → Bool) (a : WArm) (ft : Nat) (b : BufInfo) (hv : Valid b)
    (date : List Nat) (hd : date.length = dateLen) (hok : dateOk date = true) (fileSize nc : Nat) (pre : List Nat) :
    parseHeader dateOk (pre ++ recordBytes a ft b date fileSize nc) pre.length = .ok (some (writtenHeader a ft b nc)) := by
  generalize hdata : pre ++ recordBytes a ft b date fileSize nc = data
  have c0 : Cur data pre.length (recordBytes a ft b date fileSize nc) := hdata ▸ Cur.mk' _ _
  simp only [recordBytes, le16, le32, List.append_assoc, List.cons_append, List.nil_append] at c0
  simp only [parseHeader]
  obtain ⟨s1, c1⟩ := c0.slice (k := sauceIdSlice) (o' := pre.length + sauceIdSkip) rfl rfl
  rw [s1, bind_ok, if_neg (by simp)]
  obtain ⟨s2, c2⟩ := c1.slice (k := versionRead.length) (o' := pre.length + sauceIdSkip + versionRead.length) rfl rfl
  rw [s2, bind_ok, if_neg (by decide)]
  obtain ⟨s3, c3⟩ := Cur.readPad (len := titleLen) (pad := titlePad) (by decide) hv.title c2 rfl
  rw [s3, bind_ok]
  obtain ⟨s4, c4⟩ := Cur.readPad (len := authorLen) (pad := authorPad) (by decide) hv.author c3 rfl
  rw [s4, bind_ok]
  obtain ⟨s5, c5⟩ := Cur.readPad (len := groupLen) (pad := groupPad) (by decide) hv.group c4 rfl
  rw [s5, bind_ok]
  obtain ⟨s6, c6⟩ := c5.slice (k := dateLen) hd rfl
  rw [s6, bind_ok, if_neg (by simp [hok])]
  have c7 := Cur.skip (f := [fileSize % 256, fileSize / 256 % 256, fileSize / 65536 % 256, fileSize / 16777216 % 256])
    (k := fileSizeLen) (o' := pre.length + sauceIdSkip + versionRead.length + titleLen + authorLen + groupLen + dateLen + fileSizeLen)
    c6 rfl rfl
  obtain ⟨s8, c8⟩ := c7.idx rfl
  rw [s8, bind_ok]
  obtain ⟨s9, c9⟩ := c8.idx rfl
  rw [s9, bind_ok]
  obtain ⟨s10, c10⟩ := c9.rd16 rfl
  rw [s10, bind_ok]
  obtain ⟨s11, c11⟩ := c10.rd16 rfl
  rw [s11, bind_ok]
  have c12 := Cur.skip (f := [0 % 256, 0 / 256 % 256]) (k := 2) c11 rfl rfl
  have c13 := Cur.skip (f := [0 % 256, 0 / 256 % 256]) (k := 2) c12 rfl rfl
  obtain ⟨s14, c14⟩ := c13.idx rfl
  rw [s14, bind_ok]
  obtain ⟨s15, c15⟩ := c14.idx rfl
  rw [s15, bind_ok]
  rw [← List.append_nil (strAppend tinfoLen tinfoPad _ [])] at c15
  obtain ⟨s16, c16⟩ := Cur.readNul (len := tinfoLen) (by simp [strFrom]; omega) c15 rfl
  rw [show readAt tinfoLen tinfoPad data _ = _ from s16, bind_ok]
  have hlen := c16.length
  rw [if_neg (by simp at hlen; omega)]
  simp only [writtenHeader]
  congr 3
  · split <;> omega
  · split <;> omega


theorem recordBytes_length (a : WArm) (ft : Nat) (b : BufInfo) (hv : Valid b) (date : List Nat)
    (hd : date.length = dateLen) (fileSize nc : Nat) : (recordBytes a ft b date fileSize nc).length = sauceLen := by
  have h1 := strAppend_nil_length (pad := titlePad) hv.title
  have h2 := strAppend_nil_length (pad := authorPad) hv.author
  have h3 := strAppend_nil_length (pad := groupPad) hv.group
  have h4 : (strAppend tinfoLen tinfoPad (strFrom tinfoLen (if a.font then b.fontName else [])) []).length = tinfoLen :=
    strAppend_nil_length (by simp [strFrom]; omega)
  simp only [recordBytes, List.length_append, h1, h2, h3, h4, hd, le16, le32, List.length_cons, List.length_nil]
  rfl

/-- the padded comment lines, one after the other -/
def commentLines (cs : List (List Nat)) : List Nat := cs.flatMap (fun c => strAppend commentLen commentPad c [])

theorem foldl_strAppend (cs : List (List Nat)) (init : List Nat) :
    cs.foldl (fun v c => strAppend commentLen commentPad c v) init = init ++ commentLines cs := by
  induction cs generalizing init with
  | nil => simp [commentLines]
  | cons c cs ih =>
    simp only [List.foldl_cons, ih, commentLines, List.flatMap_cons]
    rw [strAppend_eq]; simp

theorem commentBlock_eq (cs : List (List Nat)) :
    commentBlock cs = if cs.isEmpty then [] else commentId ++ commentLines cs := by
  simp only [commentBlock, foldl_strAppend]

theorem commentLines_length (cs : List (List Nat)) (h : ∀ c ∈ cs, c.length ≤ commentLen) :
    (commentLines cs).length = cs.length * 64 := by
  induction cs with
  | nil => rfl
  | cons c cs ih =>
    have := strAppend_nil_length (pad := commentPad) (h c (by simp))
    simp only [commentLines, List.flatMap_cons, List.length_append, this] at ih ⊢
    rw [ih (fun c hc => h c (by simp [hc]))]
    simp only [commentLen, List.length_cons]; omega

theorem readComments_cur (data : List Nat) : ∀ (cs : List (List Nat)) (o : Nat) (acc : List (List Nat)) (rest : List Nat),
    (∀ c ∈ cs, c.length ≤ commentLen) → Cur data o (commentLines cs ++ rest) →
    readComments data cs.length o acc = .ok (acc ++ cs.map carryNul) := by
  intro cs
  induction cs with
  | nil => intro o acc rest _ _; simp [readComments]
  | cons c cs ih =>
    intro o acc rest h cur
    simp only [commentLines, List.flatMap_cons, List.append_assoc] at cur
    obtain ⟨s1, c1⟩ := Cur.readNul (len := commentLen) (h c (by simp)) cur rfl
    simp only [List.length_cons, readComments]
    rw [show readAt commentLen commentPad data o = _ from s1, bind_ok]
    rw [ih _ _ _ (fun c hc => h c (by simp [hc])) c1]
    simp

/-- the comment part of `extract` on a file written by the engine: all lines, and `len` = content + EOF byte -/
theorem commentPart_written (content : List Nat) (cs : List (List Nat)) (hcs : ∀ c ∈ cs, c.length ≤ commentLen)
    (record : List Nat) (hr : record.length = sauceLen) :
    commentPart (content ++ [eofByte] ++ commentBlock cs ++ record) cs.length =
      .ok (cs.map carryNul, content.length + 1) := by
  simp only [commentPart]
  cases cs with
  | nil =>
    simp only [List.length_nil, Nat.lt_irrefl, if_false, commentBlock_eq, List.isEmpty_nil, if_true, List.append_nil,
      List.map_nil]
    have hl : (content ++ [eofByte] ++ record).length = content.length + 1 + sauceLen := by simp [hr]; omega
    rw [hl, usub_ok (Nat.le_add_left _ _), bind_ok, Nat.add_sub_cancel]
  | cons c cs =>
    have hl := commentLines_length (c :: cs) hcs
    generalize hdata : content ++ [eofByte] ++ commentBlock (c :: cs) ++ record = data
    have hcb : commentBlock (c :: cs) = commentId ++ commentLines (c :: cs) := by simp [commentBlock_eq]
    have hlen : data.length = content.length + 1 + (5 + (c :: cs).length * 64) + sauceLen := by
      rw [← hdata, hcb]; simp only [List.length_append, hl, hr]; rfl
    have cur : Cur data (content.length + 1) (commentId ++ (commentLines (c :: cs) ++ record)) := by
      rw [← hdata, hcb]
      have := Cur.mk' (content ++ [eofByte]) (commentId ++ (commentLines (c :: cs) ++ record))
      simpa using this
    rw [if_pos (by simp)]
    rw [hlen, usub_ok (Nat.le_add_left _ _), bind_ok, Nat.add_sub_cancel]
    rw [if_neg (by show ¬ (_ < _ * 64 + 5); omega), usub_ok (by show _ * 64 ≤ _; omega), bind_ok,
      usub_ok (by show 5 ≤ _ - _ * 64; omega), bind_ok]
    have hst : content.length + 1 + (5 + (c :: cs).length * 64) - (c :: cs).length * startLine - startId
        = content.length + 1 := by show _ - _ * 64 - 5 = _; omega
    rw [hst]
    obtain ⟨s1, c1⟩ := cur.slice (k := commentIdSlice) (o' := content.length + 1 + commentIdSkip) rfl rfl
    rw [s1, bind_ok, if_neg (by simp)]
    rw [readComments_cur data (c :: cs) _ [] record hcs c1]
    simp


/-- the `file_type` byte the writer arm `a` produces -/
def fileTypeOf (a : WArm) (b : BufInfo) : Nat :=
  match a.fileType with
  | some ft => ft
  | none => b.width / 2

theorem flags_eval (i a l : Bool) :
    (((if i then flagNonBlink else 0) ||| (if a then arStretch else 0) ||| (if l then ls9px else 0)) &&& flagNonBlink == flagNonBlink) = i ∧
    (((if i then flagNonBlink else 0) ||| (if a then arStretch else 0) ||| (if l then ls9px else 0)) &&& maskLetterSpacing == ls9px) = l ∧
    (((if i then flagNonBlink else 0) ||| (if a then arStretch else 0) ||| (if l then ls9px else 0)) &&& maskAspectRatio == arStretch) = a := by
  cases i <;> cases a <;> cases l <;> decide

theorem flagBits_spec (a : WArm) (b : BufInfo) :
    (flagBits a b &&& flagNonBlink == flagNonBlink) = (a.ice && b.ice) ∧
    (flagBits a b &&& maskLetterSpacing == ls9px) = (a.ls && (b.sauce.getD {}).ls) ∧
    (flagBits a b &&& maskAspectRatio == arStretch) = (a.ar && (b.sauce.getD {}).ar) := by
  simp only [flagBits]
  generalize (b.sauce.getD {}).ar = mar
  generalize (b.sauce.getD {}).ls = mls
  generalize b.ice = bice
  generalize a.ice = aice
  generalize a.ar = aar
  generalize a.ls = als
  cases bice <;> cases mar <;> cases mls <;> cases aice <;> cases aar <;> cases als <;> decide

theorem interpret_carry (k : Nat) (hk : k < 9) (b : BufInfo) (hbin : (writerArm k).fileType = none → b.width / 2 ≤ 255)
    (hl : Nat) :
    interpret (writtenHeader (writerArm k) (fileTypeOf (writerArm k) b) b (b.sauce.getD {}).comments.length)
      ((b.sauce.getD {}).comments.map carryNul) hl = carry k b hl := by
  have hk' : k = 0 ∨ k = 1 ∨ k = 2 ∨ k = 3 ∨ k = 4 ∨ k = 5 ∨ k = 6 ∨ k = 7 ∨ k = 8 := by omega
  obtain ⟨f1, f2, f3⟩ := flagBits_spec (writerArm k) b
  simp only [interpret, carry, writtenHeader, fileTypeOf, f1, f2, f3]
  rcases hk' with rfl | rfl | rfl | rfl | rfl | rfl | rfl | rfl | rfl
  all_goals
    simp [writerArm, writerArms, readerArm, readerArms, dataTypeMax, readerDefaultWidth, readerDefaultHeight] at hbin ⊢
  omega


theorem writeSauce_ok {k : Nat} {b : BufInfo} {date : List Nat} {fileSize : Nat} {tail : List Nat}
    (h : writeSauce k b date fileSize = .ok tail) :
    (b.sauce.getD {}).comments.length ≤ commentLimit ∧
    ((writerArm k).fileType = none → b.width / 2 ≤ 255) ∧
    tail = commentBlock (b.sauce.getD {}).comments ++
      recordBytes (writerArm k) (fileTypeOf (writerArm k) b) b date fileSize (b.sauce.getD {}).comments.length := by
  simp only [writeSauce] at h
  split at h
  · cases h
  rename_i hc
  refine ⟨by omega, ?_⟩
  simp only [fileTypeOf]
  split at h
  · rename_i ft hft
    exact ⟨by simp [hft], by rw [hft]; exact (Res.ok.inj h).symm⟩
  · rename_i hft
    split at h
    · cases h
    · rename_i hw
      exact ⟨fun _ => by omega, by rw [hft]; exact (Res.ok.inj h).symm⟩

/-- **round trip on the model**: whatever content precedes it, the EOF byte plus what `write_sauce_info` appends is
    found by `extract`, yields exactly what the variant can carry, and is measured exactly -/
theorem extract_writeSauce (dateOk : List Nat → Bool) {k : Nat} (hk : k < 9) {b : BufInfo} (hv : Valid b) {date : List Nat}
    (hd : date.length = dateLen) (hok : dateOk date = true) {fileSize : Nat} {tail : List Nat}
    (hw : writeSauce k b date fileSize = .ok tail) (content : List Nat) :
    extract dateOk (content ++ [eofByte] ++ tail) = .ok (some (carry k b (tail.length + 1))) := by
  obtain ⟨hc, hbin, ht⟩ := writeSauce_ok hw
  generalize hcs : (b.sauce.getD {}).comments = cs at *
  generalize hrec : recordBytes (writerArm k) (fileTypeOf (writerArm k) b) b date fileSize cs.length = record at *
  have hrl : record.length = sauceLen := by rw [← hrec]; exact recordBytes_length _ _ _ hv _ hd _ _
  subst ht
  have hdata : content ++ [eofByte] ++ (commentBlock cs ++ record) = (content ++ [eofByte] ++ commentBlock cs) ++ record := by
    simp
  rw [hdata]
  generalize hpre : content ++ [eofByte] ++ commentBlock cs = pre
  have hlen : (pre ++ record).length = pre.length + sauceLen := by simp [hrl]
  simp only [extract]
  rw [if_neg (by rw [hlen]; omega), hlen, usub_ok (Nat.le_add_left _ _), bind_ok, Nat.add_sub_cancel]
  rw [← hrec, parseHeader_record dateOk _ _ b hv date hd hok fileSize cs.length pre, bind_ok]
  simp only []
  rw [hrec, ← hpre, show (writtenHeader (writerArm k) (fileTypeOf (writerArm k) b) b cs.length).nComments = cs.length from rfl]
  rw [commentPart_written content cs (by rw [← hcs]; exact hv.comments) record hrl, bind_ok]
  simp only []
  have e : eofLen = 1 := rfl
  have hl2 : (content ++ [eofByte] ++ commentBlock cs).length + sauceLen = content.length + (1 + (commentBlock cs ++ record).length) := by
    simp [hrl]; omega
  rw [hl2, usub_ok (by omega), bind_ok]
  have hh : content.length + (1 + (commentBlock cs ++ record).length) - (content.length + 1 - eofLen)
      = (commentBlock cs ++ record).length + 1 := by omega
  rw [hh, ← hcs, ← interpret_carry k hk b hbin]

end IcyVerif.Sauce
