import IcyVerif.Lemmas.Crc
set_option linter.unusedSimpArgs false
namespace IcyVerif.Crc
open IcyVerif.Gen.Crc

theorem mask8_32 (j : Nat) : (255#32).getLsbD j = decide (j < 8) := by
  have : (255 : Nat) = 2^8 - 1 := by decide
  simp only [BitVec.getLsbD_ofNat, this, Nat.testBit_two_pow_sub_one]
  by_cases h : j < 8 <;> simp [h]; omega

/-- split a register into its low byte and the rest -/
theorem split32 (x : BitVec 32) : x = (x.setWidth 8).setWidth 32 ^^^ ((x >>> 8) <<< 8) := by
  apply BitVec.eq_of_getLsbD_eq
  intro j hj
  simp only [BitVec.getLsbD_xor, BitVec.getLsbD_shiftLeft, BitVec.getLsbD_setWidth, BitVec.getLsbD_ushiftRight]
  by_cases h : j < 8
  · simp [h, hj]
  · have e : 8 + (j - 8) = j := by omega
    simp [h, e, hj]

theorem hi_clean (x : BitVec 32) : Z ((x >>> 8) <<< 8) = x >>> 8 := by
  unfold Z
  rw [step32_clean _ 8]
  · apply BitVec.eq_of_getLsbD_eq
    intro j hj
    simp only [BitVec.getLsbD_shiftLeft, BitVec.getLsbD_ushiftRight]
    have e2 : ¬ (8 + j < 8) := by omega
    by_cases h : 8 + j < 32
    · simp [h, e2]
    · have : x.getLsbD (8 + j) = false := BitVec.getLsbD_of_ge _ _ (by omega)
      simp [h, this]
  · intro j hj
    simp [BitVec.getLsbD_shiftLeft, hj]

/-- eight bit-steps = one table-driven byte step -/
theorem Z_eq (x : BitVec 32) : Z x = tab32 0 (x.setWidth 8).toNat ^^^ (x >>> 8) := by
  conv => lhs; rw [split32 x]
  rw [Z_linear, hi_clean, tab32_0_eq _ (BitVec.isLt _)]
  congr 2
  apply BitVec.eq_of_toNat_eq
  simp

theorem update_crc32_eq (c : BitVec 32) (b : BitVec 8) : updateCrc32 c b = bitUpd32 c b := by
  unfold updateCrc32 bitUpd32
  rw [← Z, Z_eq]
  have h1 : (c ^^^ b.setWidth 32).setWidth 8 = b ^^^ c.setWidth 8 := by
    apply BitVec.eq_of_getLsbD_eq
    intro j hj
    simp [hj, Bool.xor_comm]
  have h2 : (c ^^^ b.setWidth 32) >>> 8 = c >>> 8 := by
    apply BitVec.eq_of_getLsbD_eq
    intro j hj
    simp
  rw [h1, h2, BitVec.xor_comm]

theorem slow_step_eq (c : BitVec 32) (b : BitVec 8) : slowStep c b = bitUpd32 c b := by
  rw [← update_crc32_eq]; unfold slowStep updateCrc32
  rw [BitVec.xor_comm (c.setWidth 8) b, BitVec.xor_comm]

end IcyVerif.Crc
