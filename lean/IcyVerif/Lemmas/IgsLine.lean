import IcyVerif.Lemmas.IgsPaint2
set_option linter.unusedSimpArgs false
set_option linter.unusedVariables false
/-! Lemmas about the IGS `DrawExecutor` model, part 4: `draw_line` (Bresenham with an error term) ends.  With `a` steps
in x and `b` steps in y taken, `err = dx - dy - a*dy + b*dx`; no x step is taken once `a = dx`, no y step once `b = dy`,
every iteration takes at least one step, and `-3*dy <= 2*err <= 3*dx` keeps the i32 arithmetic in range.  So the loop
ends after at most `dx + dy + 1` iterations: the fuel `draw_line` of the model starts with is never used up. -/
namespace IcyVerif.IgsPaint

theorem ok_bind {α β : Type} (a : α) (f : α → Res β) : (Res.ok a >>= f) = f a := rfl

theorem setPixel_res {p p' : Paint} {x y : Int} {c : Nat} (h : setPixel p x y c = .ok p') : p'.res = p.res := by
  obtain ⟨e, _⟩ := setPixel_kept h
  rw [e]

theorem lineLoop_total (x0 y0 x1 y1 dx dy sx sy : Int) (color : Nat)
    (hx0 : -1048576 ≤ x0 ∧ x0 ≤ 1048576) (hy0 : -1048576 ≤ y0 ∧ y0 ≤ 1048576)
    (hx1 : -1048576 ≤ x1 ∧ x1 ≤ 1048576) (hy1 : -1048576 ≤ y1 ∧ y1 ≤ 1048576)
    (hdx : 0 ≤ dx) (hdy : 0 ≤ dy) (hsx : sx = 1 ∨ sx = -1) (hsy : sy = 1 ∨ sy = -1)
    (hex : x1 = x0 + sx * dx) (hey : y1 = y0 + sy * dy) :
    ∀ (fuel : Nat) (p : Paint) (x y err : Int) (mask : Nat) (a b A B : Int), p.res < 3 →
      0 ≤ a → a ≤ dx → 0 ≤ b → b ≤ dy → A = a * dy → B = b * dx → x = x0 + sx * a → y = y0 + sy * b →
      err = dx - dy - A + B → -3 * dy ≤ 2 * err → 2 * err ≤ 3 * dx → (dx - a) + (dy - b) + 1 ≤ fuel →
      ∃ p', lineLoop x1 y1 dx dy sx sy color fuel p x y err mask = .ok p' := by
  have hdxb : dx ≤ 2097152 := by rcases hsx with h | h <;> subst h <;> omega
  have hdyb : dy ≤ 2097152 := by rcases hsy with h | h <;> subst h <;> omega
  intro fuel
  induction fuel with
  | zero => intro p x y err mask a b A B _ _ _ _ _ _ _ _ _ _ _ _ hf; omega
  | succ k ih =>
    intro p x y err mask a b A B hr ha0 ha1 hb0 hb1 hA hB hx hy herr hlo hhi hf
    have hxb : -1048576 ≤ x ∧ x ≤ 1048576 := by rcases hsx with h | h <;> subst h <;> omega
    have hyb : -1048576 ≤ y ∧ y ≤ 1048576 := by rcases hsy with h | h <;> subst h <;> omega
    have hxeq : x = x1 ↔ a = dx := by rcases hsx with h | h <;> subst h <;> omega
    have hyeq : y = y1 ↔ b = dy := by rcases hsy with h | h <;> subst h <;> omega
    -- the pixel
    have hp1 : ∃ p1, (if mask % 2 ≠ 0 then setPixel p x y color else (pure p : Res Paint)) = .ok p1 ∧ p1.res = p.res := by
      split
      · obtain ⟨p1, h1⟩ := setPixel_total p hr x y color hxb hyb
        exact ⟨p1, h1, setPixel_res h1⟩
      · exact ⟨p, rfl, rfl⟩
    obtain ⟨p1, hp1, hr1⟩ := hp1
    unfold lineLoop
    rw [hp1, ok_bind]
    by_cases hend : x = x1 ∧ y = y1
    · simp only [hend, and_self, if_true]
      exact ⟨p1, rfl⟩
    · simp only [hend, if_false]
      have hab : ¬ (a = dx ∧ b = dy) := by
        intro h; exact hend ⟨hxeq.mpr h.1, hyeq.mpr h.2⟩
      rw [chk_of_range (v := 2 * err) (by simp only [i32Min]; omega) (by simp only [i32Max]; omega), ok_bind]
      -- products at the boundaries
      have hP1 : a = dx → b ≤ dy - 1 → B ≤ dx * dy - dx := by
        intro _ hb
        have := Int.mul_le_mul_of_nonneg_right hb hdx
        rw [Int.sub_mul, Int.one_mul, Int.mul_comm dy dx] at this
        omega
      have hP2 : b = dy → a ≤ dx - 1 → A ≤ dx * dy - dy := by
        intro _ ha
        have := Int.mul_le_mul_of_nonneg_right ha hdy
        rw [Int.sub_mul, Int.one_mul] at this
        omega
      have hAe : a = dx → A = dx * dy := by intro h; rw [hA, h]
      have hBe : b = dy → B = dx * dy := by intro h; rw [hB, h, Int.mul_comm]
      -- no x step once a = dx, no y step once b = dy
      have hnox : 2 * err > -dy → a < dx := by
        intro hgt
        by_cases h : a = dx
        · have hb : b ≤ dy - 1 := by
            by_cases hb' : b = dy
            · exact absurd ⟨h, hb'⟩ hab
            · omega
          have := hP1 h hb
          have := hAe h
          omega
        · omega
      have hnoy : 2 * err < dx → b < dy := by
        intro hlt
        by_cases h : b = dy
        · have ha : a ≤ dx - 1 := by
            by_cases ha' : a = dx
            · exact absurd ⟨ha', h⟩ hab
            · omega
          have := hP2 h ha
          have := hBe h
          omega
        · omega
      have hA' : A + dy = (a + 1) * dy := by rw [hA, Int.add_mul, Int.one_mul]
      have hB' : B + dx = (b + 1) * dx := by rw [hB, Int.add_mul, Int.one_mul]
      by_cases hxs : 2 * err > -dy
      · have halt := hnox hxs
        simp only [hxs, if_true]
        rw [chk_of_range (v := err - dy) (by simp only [i32Min]; omega) (by simp only [i32Max]; omega), ok_bind]
        rw [chk_of_range (v := x + sx) (by simp only [i32Min]; rcases hsx with h | h <;> subst h <;> omega)
          (by simp only [i32Max]; rcases hsx with h | h <;> subst h <;> omega), ok_bind]
        show ∃ p', ((pure (err - dy, x + sx) : Res (Int × Int)) >>= _) = _
        rw [show (pure (err - dy, x + sx) : Res (Int × Int)) = Res.ok (err - dy, x + sx) from rfl, ok_bind]
        simp only []
        by_cases hys : 2 * err < dx
        · have hblt := hnoy hys
          simp only [hys, if_true]
          rw [chk_of_range (v := err - dy + dx) (by simp only [i32Min]; omega) (by simp only [i32Max]; omega), ok_bind]
          rw [chk_of_range (v := y + sy) (by simp only [i32Min]; rcases hsy with h | h <;> subst h <;> omega)
            (by simp only [i32Max]; rcases hsy with h | h <;> subst h <;> omega), ok_bind]
          rw [show (pure (err - dy + dx, y + sy) : Res (Int × Int)) = Res.ok (err - dy + dx, y + sy) from rfl, ok_bind]
          simp only []
          exact ih p1 (x + sx) (y + sy) (err - dy + dx) _ (a + 1) (b + 1) (A + dy) (B + dx) (by rw [hr1]; exact hr)
            (by omega) (by omega) (by omega) (by omega) hA' hB'
            (by rw [hx, Int.mul_add, Int.mul_one]; omega) (by rw [hy, Int.mul_add, Int.mul_one]; omega)
            (by omega) (by omega) (by omega) (by omega)
        · simp only [hys, if_false]
          rw [show (pure (err - dy, y) : Res (Int × Int)) = Res.ok (err - dy, y) from rfl, ok_bind]
          simp only []
          exact ih p1 (x + sx) y (err - dy) _ (a + 1) b (A + dy) B (by rw [hr1]; exact hr)
            (by omega) (by omega) hb0 hb1 hA' hB
            (by rw [hx, Int.mul_add, Int.mul_one]; omega) hy
            (by omega) (by omega) (by omega) (by omega)
      · simp only [hxs, if_false]
        rw [show (pure (err, x) : Res (Int × Int)) = Res.ok (err, x) from rfl, ok_bind]
        simp only []
        have hys : 2 * err < dx := by
          -- neither step would mean dx = dy = 0, i.e. the end point
          by_cases h : 2 * err < dx
          · exact h
          · exfalso
            have h1 : dx = 0 := by omega
            have h2 : dy = 0 := by omega
            exact hab ⟨by omega, by omega⟩
        have hblt := hnoy hys
        simp only [hys, if_true]
        rw [chk_of_range (v := err + dx) (by simp only [i32Min]; omega) (by simp only [i32Max]; omega), ok_bind]
        rw [chk_of_range (v := y + sy) (by simp only [i32Min]; rcases hsy with h | h <;> subst h <;> omega)
          (by simp only [i32Max]; rcases hsy with h | h <;> subst h <;> omega), ok_bind]
        rw [show (pure (err + dx, y + sy) : Res (Int × Int)) = Res.ok (err + dx, y + sy) from rfl, ok_bind]
        simp only []
        exact ih p1 x (y + sy) (err + dx) _ a (b + 1) A (B + dx) (by rw [hr1]; exact hr)
          ha0 ha1 (by omega) (by omega) hA hB'
          hx (by rw [hy, Int.mul_add, Int.mul_one]; omega)
          (by omega) (by omega) (by omega) (by omega)

/-- `draw_line` for end points within ±2^20: no overflow, no index out of range, and the loop ends (the fuel
`dx + dy + 1` is not used up) -/
theorem drawLine_total (p : Paint) (hr : p.res < 3) (x0 y0 x1 y1 : Int) (color mask : Nat)
    (hx0 : -1048576 ≤ x0 ∧ x0 ≤ 1048576) (hy0 : -1048576 ≤ y0 ∧ y0 ≤ 1048576)
    (hx1 : -1048576 ≤ x1 ∧ x1 ≤ 1048576) (hy1 : -1048576 ≤ y1 ∧ y1 ≤ 1048576) :
    ∃ p', drawLine p x0 y0 x1 y1 color mask = .ok p' := by
  unfold drawLine
  rw [chk_of_range (v := x0 - x1) (by simp only [i32Min]; omega) (by simp only [i32Max]; omega), ok_bind]
  rw [chk_of_range (v := ((x0 - x1).natAbs : Int)) (by simp only [i32Min]; omega) (by simp only [i32Max]; omega), ok_bind]
  rw [chk_of_range (v := y0 - y1) (by simp only [i32Min]; omega) (by simp only [i32Max]; omega), ok_bind]
  rw [chk_of_range (v := ((y0 - y1).natAbs : Int)) (by simp only [i32Min]; omega) (by simp only [i32Max]; omega), ok_bind]
  rw [chk_of_range (v := ((x0 - x1).natAbs : Int) - ((y0 - y1).natAbs : Int)) (by simp only [i32Min]; omega) (by simp only [i32Max]; omega), ok_bind]
  apply lineLoop_total x0 y0 x1 y1 _ _ _ _ color hx0 hy0 hx1 hy1 (by omega) (by omega)
    (by split <;> simp) (by split <;> simp) ?_ ?_ _ p x0 y0 _ _ 0 0 0 0 hr (by omega) (by omega) (by omega) (by omega)
    (by simp) (by simp) (by simp) (by simp) (by omega) (by omega) (by omega) (by omega)
  · split <;> omega
  · split <;> omega

end IcyVerif.IgsPaint

namespace IcyVerif.IgsPaint

def Bd (v : Int) : Prop := -1048576 ≤ v ∧ v ≤ 1048576

theorem drawLine_res {p p' : Paint} {x0 y0 x1 y1 : Int} {color mask : Nat} (hc : color < 16)
    (h : drawLine p x0 y0 x1 y1 color mask = .ok p') : p'.res = p.res := by
  obtain ⟨e, _⟩ := (drawLine_keeps hc h).1
  rw [e]

/-- the segment loop of `draw_poly` / `draw_polyline` on a coordinate list of even length: no index panic (the
`parameters[i + 1]` of an odd list), no overflow, every segment ends -/
theorem polySegs_total (color mask : Nat) (hc : color < 16) : ∀ (n : Nat) (l : List Int), l.length = 2 * n → (∀ v, v ∈ l → Bd v) →
    ∀ (p : Paint) (x y : Int), p.res < 3 → Bd x → Bd y →
    ∃ r, polySegs color mask l p x y = .ok r ∧ r.1.res = p.res ∧ Bd r.2.1 ∧ Bd r.2.2 := by
  intro n
  induction n with
  | zero =>
    intro l hl _ p x y _ hx hy
    have : l = [] := List.eq_nil_of_length_eq_zero (by omega)
    subst this
    exact ⟨(p, x, y), rfl, rfl, hx, hy⟩
  | succ k ih =>
    intro l hl hb p x y hr hx hy
    cases l with
    | nil => simp at hl
    | cons a t =>
      cases t with
      | nil => simp at hl; omega
      | cons b rest =>
        have ha : Bd a := hb a (by simp)
        have hbb : Bd b := hb b (by simp)
        obtain ⟨p1, h1⟩ := drawLine_total p hr x y a b color mask hx hy ha hbb
        have hr1 := drawLine_res hc h1
        unfold polySegs
        rw [h1, ok_bind]
        obtain ⟨r, e, r1, r2, r3⟩ := ih rest (by simp at hl; omega) (fun v hv => hb v (by simp [hv])) p1 a b (by rw [hr1]; exact hr) ha hbb
        exact ⟨r, e, by rw [r1, hr1], r2, r3⟩

/-- `draw_polyline` on `2 * n + 2` coordinates within ±2^20 -/
theorem drawPolyline_total (p : Paint) (hr : p.res < 3) (hf : p.fillColor < 16) (n : Nat) (ps : List Int) (hl : ps.length = 2 * n + 2)
    (hb : ∀ v, v ∈ ps → Bd v) : ∃ p', drawPolyline p ps = .ok p' := by
  cases ps with
  | nil => simp at hl
  | cons x t =>
    cases t with
    | nil => simp at hl
    | cons y rest =>
      obtain ⟨r, e, _⟩ := polySegs_total p.fillColor p.lineType hf n rest (by simp at hl; omega) (fun v hv => hb v (by simp [hv])) p x y hr
        (hb x (by simp)) (hb y (by simp))
      unfold drawPolyline
      simp only []
      rw [e, ok_bind]
      exact ⟨r.1, rfl⟩

/-- `draw_poly` (the closed border of PolyFill) on `2 * n + 2` coordinates within ±2^20 -/
theorem drawPoly_total (p : Paint) (hr : p.res < 3) (hf : p.fillColor < 16) (n : Nat) (ps : List Int) (hl : ps.length = 2 * n + 2)
    (hb : ∀ v, v ∈ ps → Bd v) : ∃ p', drawPoly p ps = .ok p' := by
  cases ps with
  | nil => simp at hl
  | cons x t =>
    cases t with
    | nil => simp at hl
    | cons y rest =>
      obtain ⟨r, e, r1, r2, r3⟩ := polySegs_total p.fillColor p.lineType hf n rest (by simp at hl; omega) (fun v hv => hb v (by simp [hv])) p x y hr
        (hb x (by simp)) (hb y (by simp))
      unfold drawPoly
      simp only []
      rw [e, ok_bind]
      exact drawLine_total r.1 (by rw [r1]; exact hr) _ _ _ _ _ _ r2 r3 (hb x (by simp)) (hb y (by simp))

end IcyVerif.IgsPaint
