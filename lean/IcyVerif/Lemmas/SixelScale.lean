import IcyVerif.Model.Sixel
set_option linter.unusedSimpArgs false
set_option linter.unusedVariables false
/-! The two scale fields never influence the decoder: the machine run from two states that differ only in
    `vscale` / `hscale` ends in states that differ only there (same rows, same errors, same panics).  Hence the
    picture `Sixel::parse_from` returns does not depend on the scales the terminal passes. -/
namespace IcyVerif.Sixel

/-- forget the scales -/
def strip (s : St) : St := { s with vscale := 0, hscale := 0 }

/-- equal up to the scale fields -/
def SE (a b : Out St) : Prop := mapOut strip a = mapOut strip b

theorem strip_strip (s : St) : strip (strip s) = strip s := rfl

theorem mapOut_ok (f : α → β) (a : α) : mapOut f (.ok a) = .ok (f a) := rfl
theorem mapOut_err (f : α → β) (e : Err) : mapOut f (.err e : Out α) = .err e := rfl
theorem mapOut_panic (f : α → β) (p : Site) : mapOut f (.panic p : Out α) = .panic p := rfl
theorem mapOut_huge (f : α → β) : mapOut f (.huge : Out α) = .huge := rfl

/-- a step function that reads no scale -/
def Blind (f : St → Out St) : Prop := ∀ s, SE (f s) (f (strip s))

theorem blind_of_eq {f : St → Out St} (h : Blind f) {s t : St} (e : strip s = strip t) : SE (f s) (f t) := by
  unfold SE
  rw [h s, h t, e]

theorem se_andThen {a b : Out St} {f : St → Out St} (h : SE a b) (hf : Blind f) : SE (a.andThen f) (b.andThen f) := by
  unfold SE at h ⊢
  cases a with
  | ok s =>
    cases b with
    | ok t => simp only [Out.andThen, mapOut] at h ⊢; injection h with h; exact blind_of_eq hf h
    | err e => simp [Out.andThen, mapOut] at h
    | panic p => simp [Out.andThen, mapOut] at h
    | huge => simp [Out.andThen, mapOut] at h
  | err e =>
    cases b with
    | ok t => simp [Out.andThen, mapOut] at h
    | err e' => simp only [Out.andThen, mapOut] at h ⊢; exact h
    | panic p => simp [Out.andThen, mapOut] at h
    | huge => simp [Out.andThen, mapOut] at h
  | panic p =>
    cases b with
    | ok t => simp [Out.andThen, mapOut] at h
    | err e' => simp [Out.andThen, mapOut] at h
    | panic p' => simp only [Out.andThen, mapOut] at h ⊢; exact h
    | huge => simp [Out.andThen, mapOut] at h
  | huge =>
    cases b with
    | ok t => simp [Out.andThen, mapOut] at h
    | err e' => simp [Out.andThen, mapOut] at h
    | panic p' => simp [Out.andThen, mapOut] at h
    | huge => rfl

theorem translate_blind (ch : Char) : Blind (fun s => translate s ch) := by
  intro s
  show mapOut strip (translate s ch) = mapOut strip (translate (strip s) ch)
  unfold translate
  show _ = mapOut strip (if ch.toNat < 63 then _ else if s.palLen % 4294967296 = 0 then _ else if s.y * 6 + 6 > i32Max then _ else _)
  split
  · rfl
  · split
    · rfl
    · split
      · rfl
      · show mapOut strip (if s.x ≥ maxSize ∨ lastLineOf s > maxSize then _ else _) = mapOut strip (if s.x ≥ maxSize ∨ lastLineOf s > maxSize then _ else _)
        split
        · rfl
        show mapOut strip ((growRows s.rows (lastLineOf s)).andThen _) = mapOut strip ((growRows s.rows (lastLineOf s)).andThen _)
        cases growRows s.rows (lastLineOf s) with
        | ok rows =>
          simp only [Out.andThen]
          show mapOut strip ((pixelLoop (ch.toNat - 63) (s.y * 6) (lastLineOf s) s.x [0, 1, 2, 3, 4, 5] rows).andThen _) =
            mapOut strip ((pixelLoop (ch.toNat - 63) (s.y * 6) (lastLineOf s) s.x [0, 1, 2, 3, 4, 5] rows).andThen _)
          cases pixelLoop (ch.toNat - 63) (s.y * 6) (lastLineOf s) s.x [0, 1, 2, 3, 4, 5] rows with
          | ok rows' =>
            simp only [Out.andThen]
            show mapOut strip (if s.x + 1 > i32Max then _ else _) = mapOut strip (if s.x + 1 > i32Max then _ else _)
            split <;> rfl
          | err e => rfl
          | panic p => rfl
          | huge => rfl
        | err e => rfl
        | panic p => rfl
        | huge => rfl

theorem se_refl (a : Out St) : SE a a := rfl
theorem se_trans {a b c : Out St} (h1 : SE a b) (h2 : SE b c) : SE a c := by unfold SE at *; rw [h1, h2]
theorem se_symm {a b : Out St} (h : SE a b) : SE b a := by unfold SE at *; rw [h]

theorem sixelData_blind (ch : Char) : Blind (fun s => sixelData s ch) := by
  intro s
  show mapOut strip (sixelData s ch) = mapOut strip (sixelData (strip s) ch)
  unfold sixelData
  split
  · rfl
  · split
    · rfl
    · split
      · show mapOut strip (if s.y + 1 > i32Max then _ else _) = mapOut strip (if s.y + 1 > i32Max then _ else _)
        split <;> rfl
      · split
        · rfl
        · split
          · rfl
          · split
            · rfl
            · exact translate_blind ch s

theorem repeatN_blind {f : St → Out St} (hf : Blind f) (n : Nat) : Blind (repeatN f n) := by
  induction n with
  | zero => intro s; rfl
  | succ n ih =>
    intro s
    rw [repeatN_succ, repeatN_succ]
    exact se_andThen (hf s) ih

theorem growPalette_blind : Blind growPalette := by
  intro s
  show mapOut strip (growPalette s) = mapOut strip (growPalette (strip s))
  unfold growPalette
  show mapOut strip (if s.palLen ≤ s.color then (if s.color + 1 > hugeLimit then _ else _) else _) =
    mapOut strip (if s.palLen ≤ s.color then (if s.color + 1 > hugeLimit then _ else _) else _)
  split
  · split <;> rfl
  · rfl

theorem colorArm_blind : Blind colorArm := by
  intro s
  show mapOut strip (colorArm s) = mapOut strip (colorArm (strip s))
  have hs : setColor (strip s) = strip (setColor s) := by
    unfold setColor
    show (match s.nums.head? with | some c => _ | none => _) = _
    cases s.nums.head? <;> rfl
  unfold colorArm
  rw [hs]
  generalize setColor s = u
  unfold defineColor
  show mapOut strip (if u.nums.length > 1 then (if u.nums.length ≠ 5 ∨ u.color ≥ maxColors then _ else match u.nums[1]? with
      | some 2 => (match u.nums[2]?, u.nums[3]?, u.nums[4]? with | some _, some _, some _ => growPalette u | _, _, _ => .panic .numIndex)
      | some 1 => (match u.nums[2]?, u.nums[3]?, u.nums[4]? with | some _, some _, some _ => growPalette u | _, _, _ => .panic .numIndex)
      | some _ => .err .unsupportedColorFormat
      | none => .err .invalidColor) else _) =
    mapOut strip (if u.nums.length > 1 then (if u.nums.length ≠ 5 ∨ u.color ≥ maxColors then _ else match u.nums[1]? with
      | some 2 => (match u.nums[2]?, u.nums[3]?, u.nums[4]? with | some _, some _, some _ => growPalette (strip u) | _, _, _ => .panic .numIndex)
      | some 1 => (match u.nums[2]?, u.nums[3]?, u.nums[4]? with | some _, some _, some _ => growPalette (strip u) | _, _, _ => .panic .numIndex)
      | some _ => .err .unsupportedColorFormat
      | none => .err .invalidColor) else _)
  split
  · split
    · rfl
    · split
      · split
        · exact growPalette_blind u
        · rfl
      · split
        · exact growPalette_blind u
        · rfl
      · rfl
      · rfl
  · rfl

theorem sizeArm_blind : Blind sizeArm := by
  intro s
  obtain ⟨state, nums, x, y, rows, heightSet, color, palLen, vscale, hscale⟩ := s
  generalize hs : St.mk state nums x y rows heightSet color palLen vscale hscale = s
  have hrows : (strip s).rows = s.rows := rfl
  show mapOut strip (sizeArm s) = mapOut strip (sizeArm (strip s))
  unfold sizeArm
  show mapOut strip (if s.nums.length < 2 ∨ s.nums.length > 4 ∨ (s.nums.drop 2).any (fun n => decide (n > maxSize)) then _ else match s.nums[0]?, s.nums[1]? with
      | some vs, some hs => _
      | _, _ => _) =
    mapOut strip (if s.nums.length < 2 ∨ s.nums.length > 4 ∨ (s.nums.drop 2).any (fun n => decide (n > maxSize)) then _ else match s.nums[0]?, s.nums[1]? with
      | some vs, some hs => _
      | _, _ => _)
  split
  · rfl
  · split
    · show mapOut strip (if s.nums.length = 3 then (match s.nums[2]? with | some height => _ | none => _)
          else if s.nums.length = 4 then (match s.nums[2]?, s.nums[3]? with | some w, some height => _ | _, _ => _) else _) =
        mapOut strip (if s.nums.length = 3 then (match s.nums[2]? with | some height => _ | none => _)
          else if s.nums.length = 4 then (match s.nums[2]?, s.nums[3]? with | some w, some height => _ | _, _ => _) else _)
      split
      · split
        · split <;> rfl
        · rfl
      · split
        · split
          · rename_i w height _ _
            show mapOut strip (if 4 * w > hugeLimit ∨ height > hugeLimit ∨ (height - s.rows.length) * (4 * w) > hugeLimit then _ else _) =
              mapOut strip (if 4 * w > hugeLimit ∨ height > hugeLimit ∨ (height - s.rows.length) * (4 * w) > hugeLimit then _ else _)
            split <;> rfl
          · rfl
        · rfl
    · rfl

theorem parseChar_blind (ch : Char) : Blind (fun s => parseChar s ch) := by
  intro s
  obtain ⟨state, nums, x, y, rows, heightSet, color, palLen, vscale, hscale⟩ := s
  show mapOut strip (parseChar _ ch) = mapOut strip (parseChar (strip _) ch)
  cases state with
  | read => exact sixelData_blind ch _
  | readColor =>
    show mapOut strip (if ch.isDigit then _ else if ch = ';' then _ else _) =
      mapOut strip (if ch.isDigit then _ else if ch = ';' then _ else _)
    split
    · rfl
    · split
      · rfl
      · exact se_andThen (colorArm_blind _) (sixelData_blind ch)
  | readSize =>
    show mapOut strip (if ch.isDigit then _ else if ch = ';' then _ else _) =
      mapOut strip (if ch.isDigit then _ else if ch = ';' then _ else _)
    split
    · rfl
    · split
      · rfl
      · exact se_andThen (sizeArm_blind _) (sixelData_blind ch)
  | repeat_ =>
    show mapOut strip (if ch.isDigit then _ else match nums.head? with | some n => _ | none => _) =
      mapOut strip (if ch.isDigit then _ else match nums.head? with | some n => _ | none => _)
    split
    · rfl
    · cases nums.head? with
      | none => rfl
      | some n =>
        have hb : Blind (fun s' : St => (Out.ok { s' with state := PState.read } : Out St)) := fun _ => rfl
        show mapOut strip (if n > maxSize then _ else _) = mapOut strip (if n > maxSize then _ else _)
        split
        · rfl
        · exact se_andThen (repeatN_blind (sixelData_blind ch) n _) hb

theorem run_blind (cs : List Char) : Blind (fun s => run s cs) := by
  induction cs with
  | nil => intro s; rfl
  | cons c cs ih =>
    intro s
    show SE (run s (c :: cs)) (run (strip s) (c :: cs))
    rw [run_cons, run_cons]
    exact se_andThen (parseChar_blind c s) ih

theorem finish_strip (s : St) : finish (strip s) = finish s := rfl

/-- **The picture does not depend on the scales**: `Sixel::parse_from` with any `horizontal_scale` /
    `vertical_scale` returns the picture (sizes, byte count), the error or the panic of `parse` -/
theorem decode_img (hs vs : Nat) (payload : List Char) :
    mapOut (·.img) (decode hs vs payload) = parse payload := by
  have h := run_blind (payload ++ ['#']) { hscale := hs, vscale := vs }
  have h0 : SE (run { hscale := hs, vscale := vs } (payload ++ ['#'])) (run {} (payload ++ ['#'])) := by
    have h1 := run_blind (payload ++ ['#']) {}
    exact se_trans h (se_symm h1)
  unfold SE at h0
  unfold decode parse
  generalize run { hscale := hs, vscale := vs } (payload ++ ['#']) = a at h0
  generalize run {} (payload ++ ['#']) = b at h0
  cases a with
  | ok s =>
    cases b with
    | ok t =>
      simp only [mapOut, Out.andThen] at h0 ⊢
      injection h0 with h0
      have : finish s = finish t := by rw [← finish_strip s, ← finish_strip t, h0]
      simp [this]
    | err e => simp [Out.andThen, mapOut] at h0
    | panic p => simp [Out.andThen, mapOut] at h0
    | huge => simp [Out.andThen, mapOut] at h0
  | err e =>
    cases b with
    | ok t => simp [Out.andThen, mapOut] at h0
    | err e' => simp only [Out.andThen, mapOut] at h0 ⊢; injection h0 with h0; rw [h0]
    | panic p => simp [Out.andThen, mapOut] at h0
    | huge => simp [Out.andThen, mapOut] at h0
  | panic p =>
    cases b with
    | ok t => simp [Out.andThen, mapOut] at h0
    | err e' => simp [Out.andThen, mapOut] at h0
    | panic p' => simp only [Out.andThen, mapOut] at h0 ⊢; injection h0 with h0; rw [h0]
    | huge => simp [Out.andThen, mapOut] at h0
  | huge =>
    cases b with
    | ok t => simp [Out.andThen, mapOut] at h0
    | err e' => simp [Out.andThen, mapOut] at h0
    | panic p' => simp [Out.andThen, mapOut] at h0
    | huge => rfl

end IcyVerif.Sixel
