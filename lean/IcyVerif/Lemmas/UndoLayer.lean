import IcyVerif.Lemmas.UndoHistory
set_option linter.unusedSimpArgs false
set_option linter.unusedVariables false
/-! # C08: how the layer primitives act on the observation (`LayerM.obs`) -/
namespace IcyVerif.Undo

theorem map_set_self {α β : Type} (f : α → β) (l : List α) (i : Nat) (a : α) (h : l[i]? = some a) : (l.map f).set i (f a) = l.map f := by
  apply List.ext_getElem?
  intro j
  simp only [List.getElem?_set, List.getElem?_map, List.length_map]
  split
  · rename_i hij; subst hij
    split
    · simp [h]
    · rename_i hl
      have : l[i]? = none := by simp at hl; exact List.getElem?_eq_none hl
      rw [this] at h; simp at h
  · rfl

theorem rowsGet_growTo_rows (ls : List Row) (n w : Nat) (x y : Nat) :
    rowsGet (growTo ls n (List.replicate w Cell.invisible)) x y = rowsGet ls x y := by
  simp only [rowsGet, growTo, List.getD_eq_getElem?_getD, List.getElem?_append, List.getElem?_replicate]
  split
  · rfl
  · rename_i hy
    have : ls[y]? = none := List.getElem?_eq_none (by omega)
    rw [this]
    split <;> simp [List.getElem?_replicate] <;> (try split) <;> simp

theorem rowsGet_growTo_nil (ls : List Row) (n : Nat) (x y : Nat) :
    rowsGet (growTo ls n []) x y = rowsGet ls x y := by
  have := rowsGet_growTo_rows ls n 0 x y
  simpa using this

theorem getD_setCell (r : Row) (x : Nat) (c : Cell) (x' : Nat) :
    (r.setCell x c).getD x' Cell.invisible = if x' = x then c else r.getD x' Cell.invisible := by
  simp only [Row.setCell, growTo, List.getD_eq_getElem?_getD, List.getElem?_set, List.getElem?_append, List.getElem?_replicate,
    List.length_append, List.length_replicate]
  by_cases h : x = x'
  · subst h
    have : x < List.length r + (x + 1 - List.length r) := by omega
    simp [this]
  · have h' : ¬ x' = x := fun hh => h hh.symm
    simp only [h, h', if_false]
    split
    · rfl
    · rename_i h3
      have : r[x']? = none := List.getElem?_eq_none (by omega)
      rw [this]
      split <;> simp


theorem rowsGet_set (ls : List Row) (y : Nat) (r : Row) (x' y' : Nat) (hy : y < ls.length) :
    rowsGet (ls.set y r) x' y' = if y' = y then r.getD x' Cell.invisible else rowsGet ls x' y' := by
  simp only [rowsGet, List.getD_eq_getElem?_getD, List.getElem?_set]
  by_cases h : y = y'
  · subst h; simp [hy]
  · have h' : ¬ y' = y := fun hh => h hh.symm
    simp [h, h']

def LObs.cells (a : LObs) : Nat → Nat → Cell := a.2.2.2
def LObs.props (a : LObs) : Props := a.2.2.1
def LObs.inside (a : LObs) (x y : Int) : Bool := 0 ≤ x && 0 ≤ y && x < a.1 && y < a.2.1
def LObs.getChar (a : LObs) (x y : Int) : Cell := if a.inside x y then a.cells x.toNat y.toNat else Cell.invisible
def LObs.writes (a : LObs) (x y : Int) : Bool :=
  a.inside x y && !(a.props.locked || !a.props.visible) &&
    !(a.props.hasAlpha && a.props.alphaLocked && !(a.cells x.toNat y.toNat).isVisible)
def LObs.setChar (a : LObs) (x y : Int) (c : Cell) : LObs :=
  (a.1, a.2.1, a.2.2.1, fun x' y' => if a.writes x y ∧ x' = x.toNat ∧ y' = y.toNat then c else a.cells x' y')

theorem getChar_obs (l : LayerM) (x y : Int) : l.getChar x y = l.obs.getChar x y := rfl

theorem setChar_obs (l : LayerM) (x y : Int) (c : Cell) : (l.setChar x y c).obs = l.obs.setChar x y c := by
  have hin : l.obs.inside x y = l.inside x y := rfl
  have hpr : l.obs.props = l.props := rfl
  have hce : l.obs.cells = rowsGet l.lines := rfl
  have key : ∀ (b : Bool), b = false → (l.obs.1, l.obs.2.1, l.obs.2.2.1, fun x' y' => if b = true ∧ x' = x.toNat ∧ y' = y.toNat then c else l.obs.cells x' y') = l.obs := by
    intro b hb; subst hb; simp [LObs.cells]
  unfold LayerM.setChar
  split
  · rename_i h1
    have : l.obs.writes x y = false := by simp [LObs.writes, hin]; intro h; simp [h] at h1
    unfold LObs.setChar
    rw [key _ this]
  · rename_i h1
    have h1' : l.inside x y = true := by simpa using h1
    split
    · rename_i h2
      have : l.obs.writes x y = false := by
        simp only [LObs.writes, hin, hpr, h1', h2]; simp
      unfold LObs.setChar
      rw [key _ this]
    · rename_i h2
      have h2' : (l.props.locked || !l.props.visible) = false := by simpa using h2
      have hy : y.toNat < (growTo l.lines (y.toNat + 1) (List.replicate l.w.toNat Cell.invisible)).length := by
        simp [growTo]; omega
      simp only []
      split
      · rename_i h3
        rw [rowsGet_growTo_rows] at h3
        have : l.obs.writes x y = false := by
          simp only [LObs.writes, hin, hpr, hce, h1', h2', h3]; simp
        unfold LObs.setChar
        rw [key _ this]
        show (l.w, l.h, l.props, rowsGet (growTo l.lines (y.toNat + 1) (List.replicate l.w.toNat Cell.invisible))) = (l.w, l.h, l.props, rowsGet l.lines)
        congr 3
        funext x' y'
        exact rowsGet_growTo_rows _ _ _ _ _
      · rename_i h3
        rw [rowsGet_growTo_rows] at h3
        have h3' : (l.props.hasAlpha && l.props.alphaLocked && !(rowsGet l.lines x.toNat y.toNat).isVisible) = false := by simpa using h3
        have : l.obs.writes x y = true := by
          simp only [LObs.writes, hin, hpr, hce, h1', h2', h3']; simp
        unfold LObs.setChar
        rw [this]
        show (l.w, l.h, l.props, rowsGet ((growTo l.lines (y.toNat + 1) (List.replicate l.w.toNat Cell.invisible)).set y.toNat _)) = (l.w, l.h, l.props, _)
        congr 3
        funext x' y'
        rw [rowsGet_set _ _ _ _ _ hy, getD_setCell]
        by_cases hy' : y' = y.toNat
        · subst hy'
          by_cases hx' : x' = x.toNat
          · simp [hx']
          · simp only [hx', if_false, if_true, and_false, false_and, and_true]
            show rowsGet (growTo l.lines (y.toNat + 1) (List.replicate l.w.toNat Cell.invisible)) x' y.toNat = _
            rw [rowsGet_growTo_rows]; rfl
        · simp only [hy', if_false, and_false]
          rw [rowsGet_growTo_rows]; rfl

def LObs.restoreChar (a : LObs) (x y : Int) (c : Cell) : LObs :=
  (a.1, a.2.1, a.2.2.1, fun x' y' => if a.inside x y ∧ x' = x.toNat ∧ y' = y.toNat then c else a.cells x' y')

/-- `restore_char` writes whatever the lock state is -/
theorem restoreChar_obs (l : LayerM) (x y : Int) (c : Cell) : (l.restoreChar x y c).obs = l.obs.restoreChar x y c := by
  have hin : l.obs.inside x y = l.inside x y := rfl
  unfold LayerM.restoreChar LObs.restoreChar
  rw [hin]
  split
  · rename_i h1
    have : l.inside x y = false := by simpa using h1
    rw [this]
    show l.obs = (l.w, l.h, l.props, fun x' y' => if false = true ∧ x' = x.toNat ∧ y' = y.toNat then c else rowsGet l.lines x' y')
    simp [LayerM.obs]
  · rename_i h1
    have h1' : l.inside x y = true := by simpa using h1
    rw [h1']
    have hy : y.toNat < (growTo l.lines (y.toNat + 1) (List.replicate l.w.toNat Cell.invisible)).length := by
      simp [growTo]; omega
    show (l.w, l.h, l.props, rowsGet ((growTo l.lines (y.toNat + 1) (List.replicate l.w.toNat Cell.invisible)).set y.toNat _)) = (l.w, l.h, l.props, _)
    congr 3
    funext x' y'
    rw [rowsGet_set _ _ _ _ _ hy, getD_setCell]
    by_cases hy' : y' = y.toNat
    · subst hy'
      by_cases hx' : x' = x.toNat
      · simp [hx']
      · simp only [hx', if_false, if_true, and_false, false_and, and_true]
        show rowsGet (growTo l.lines (y.toNat + 1) (List.replicate l.w.toNat Cell.invisible)) x' y.toNat = _
        rw [rowsGet_growTo_rows]; rfl
    · simp only [hy', if_false, and_false]
      rw [rowsGet_growTo_rows]; rfl

end IcyVerif.Undo
