import IcyVerif.Lemmas.LoadersBin
set_option linter.unusedSimpArgs false
set_option linter.unusedVariables false
/-! IceDraw (IDF) and Tundra loaders never panic (C02). -/
namespace IcyVerif.Loaders
open IcyVerif.Bytes IcyVerif.Bytes.Res IcyVerif.Gen IcyVerif.Gen.Loaders

-- ------------------------------------------------------------------------------------------------ IDF
def IdfPos (p : Pos) : Prop := 0 ≤ p.x ∧ p.x ≤ 65535 ∧ 0 ≤ p.y ∧ p.y ≤ 65536

theorem idfAdvance_sat (x1 x2 : Int) (h1 : 0 ≤ x1 ∧ x1 ≤ 65535) (h2 : x2 ≤ 65535) (p : Pos)
    (hp : 0 ≤ p.x ∧ p.x ≤ 65535 ∧ 0 ≤ p.y ∧ p.y ≤ 65535) : (idfAdvance x1 x2 p).Sat IdfPos := by
  unfold idfAdvance IdfPos
  apply Sat.bind (chk32_sat (by omega)); intro x hx; subst hx
  split
  · apply Sat.bind (chk32_sat (by omega)); intro y hy; subst hy
    simp only [sat_pure]; omega
  · simp only [sat_pure]; omega

theorem idfRun_sat (x1 x2 : Int) (h1 : 0 ≤ x1 ∧ x1 ≤ 65535) (h2 : x2 ≤ 65535) :
    ∀ (n : Nat) (p : Pos) (g : Geo), IdfPos p → (idfRun x1 x2 n p g).Sat (fun r => IdfPos r.1) := by
  intro n
  induction n with
  | zero => intro p g hp; unfold idfRun; exact hp
  | succ n ih =>
    intro p g hp
    unfold idfRun
    unfold IdfPos at hp
    split
    · exact True.intro
    · rename_i hy
      apply Sat.bind (chk32_sat (by omega)); intro h hh
      apply Sat.bind (idfAdvance_sat x1 x2 h1 h2 p (by omega)); intro q hq
      exact ih q _ hq

theorem idfLoop_sat (d : Bytes) (ds : Nat) (hds : ds + 4 ≤ d.size) (x1 x2 : Int) (h1 : 0 ≤ x1 ∧ x1 ≤ 65535) (h2 : x2 ≤ 65535) :
    ∀ (fuel o : Nat) (p : Pos) (g : Geo), ds < fuel + o → o ≤ ds → IdfPos p →
      (idfLoop d ds x1 x2 fuel o p g).Sat (fun r => r.1 ≤ ds) := by
  intro fuel
  induction fuel with
  | zero =>
    intro o p g hf ho hp
    unfold idfLoop
    split
    · exact ho
    · omega
  | succ fuel ih =>
    intro o p g hf ho hp
    unfold idfLoop
    split
    · exact ho
    · rename_i hc
      have hc' : o + 1 < ds := Decidable.not_not.mp hc
      apply Sat.bind (rd_sat (by omega)); intro ch _
      apply Sat.bind (rd_sat (by omega)); intro attr _
      dsimp only
      split
      · apply Sat.bind (rdU16_sat (by omega)); intro rle _
        split
        · show o + 2 ≤ ds
          omega
        · rename_i hb
          apply Sat.bind (rd_sat (by omega)); intro _ _
          apply Sat.bind (rd_sat (by omega)); intro _ _
          apply Sat.bind (idfRun_sat x1 x2 h1 h2 rle p g hp); intro r hr
          exact ih (o + 2 + 2 + 2) r.1 r.2 (by omega) (by omega) hr
      · apply Sat.bind (idfRun_sat x1 x2 h1 h2 1 p g hp); intro r hr
        exact ih (o + 2) r.1 r.2 (by omega) (by omega) hr

theorem loadIdf_sat (d : Bytes) (sauce : Option (Nat × Nat)) : (loadIdf d sauce).Sat (fun _ => True) := by
  unfold loadIdf
  dsimp only
  have e1 : idfHeaderSize = 12 := rfl
  have e2 : idfFontSize = 4096 := rfl
  have e3 : idfPaletteSize = 48 := rfl
  split
  · exact True.intro
  · rename_i hlen
    apply Sat.bind (slice_sat (by omega)); intro _ _
    split
    · exact True.intro
    · apply Sat.bind (rdU16_sat (by omega)); intro x1 hx1
      apply Sat.bind (rdU16_sat (by omega)); intro y1 hy1
      apply Sat.bind (rdU16_sat (by omega)); intro x2 hx2
      split
      · exact True.intro
      · rename_i hx
        apply Sat.bind (chk32_sat (by omega)); intro w _
        apply Sat.bind (usub_sat (by omega)); intro ds1 hds1
        apply Sat.bind (usub_sat (by omega)); intro ds hds
        have hA : ds + 4 ≤ d.size := by omega
        have hB : 12 ≤ ds := by omega
        have hF : ds < d.size + 1 + 12 := by omega
        have hX1 : (0 : Int) ≤ (x1 : Int) ∧ (x1 : Int) ≤ 65535 := by omega
        have hX2 : (x2 : Int) ≤ 65535 := by omega
        have hpos : IdfPos ⟨(x1 : Int), (y1 : Int)⟩ := by
          unfold IdfPos; simp only []; omega
        apply Sat.bind (idfLoop_sat d ds hA x1 x2 hX1 hX2 (d.size + 1) 12 _ _ hF hB hpos); intro r hr
        try dsimp only
        have hr' : r.1 + 4096 + 48 ≤ d.size := by omega
        refine Sat.bind (P := fun _ => True) (slice_sat (s := sIdf) (d := d) (a := r.1) (b := r.1 + idfFontSize) ?_) ?_
        · omega
        intro _ _
        generalize hq : r.1 + idfFontSize = q
        have : q + 48 ≤ d.size := by omega
        apply Sat.bind (slice_sat ⟨by omega, by omega⟩)
        intro _ _
        exact True.intro

-- ------------------------------------------------------------------------------------------------ Tundra
theorem tndU32_sat (d : Bytes) (o : Nat) (h : o + 4 ≤ d.size) :
    (tndU32 d o).Sat (fun v => -2147483648 ≤ v ∧ v ≤ 2147483647) := by
  unfold tndU32
  apply Sat.bind (slice_sat (by omega)); intro _ _
  apply Sat.bind (rd_sat (by omega)); intro _ _
  apply Sat.bind (rd_sat (by omega)); intro _ _
  apply Sat.bind (rd_sat (by omega)); intro _ _
  apply Sat.bind (rd_sat (by omega)); intro _ _
  simp only [sat_pure]
  exact asI32_range _

theorem tndColor_sat (d : Bytes) (o : Nat) (has : Bool) (ho : o ≤ d.size) :
    (tndColor d o has).Sat (fun o' => o ≤ o' ∧ o' ≤ d.size) := by
  unfold tndColor
  split
  · exact ⟨Nat.le_refl _, ho⟩
  · split
    · exact True.intro
    · rename_i h
      apply Sat.bind (rd_sat (by omega)); intro _ _
      apply Sat.bind (rd_sat (by omega)); intro _ _
      apply Sat.bind (rd_sat (by omega)); intro _ _
      simp only [sat_pure]; omega

theorem tndLoop_sat (d : Bytes) (hd : FitsI32 d) (bw : Int) (hbw : bw ≤ 2147483647) :
    ∀ (fuel o : Nat) (p : Pos) (g : Geo), d.size < fuel + o → o ≤ d.size →
      (-2147483648 ≤ p.x ∧ p.x < 2147483647) → (-2147483648 ≤ p.y ∧ p.y ≤ 65534 + (o : Int)) →
      (tndLoop d bw fuel o p g).Sat (fun _ => True) := by
  unfold FitsI32 at hd
  intro fuel
  induction fuel with
  | zero =>
    intro o p g hf ho hx hy
    unfold tndLoop
    split
    · exact True.intro
    · omega
  | succ fuel ih =>
    intro o p g hf ho hx hy
    unfold tndLoop
    split
    · exact True.intro
    · rename_i hc
      have hc' : o < d.size := Decidable.not_not.mp hc
      apply Sat.bind (rd_sat hc'); intro cmd _
      dsimp only
      split
      · split
        · exact True.intro
        · rename_i h8
          apply Sat.bind (tndU32_sat d _ (by omega)); intro y hy'
          split
          · exact True.intro
          · rename_i hy2
            apply Sat.bind (tndU32_sat d _ (by omega)); intro x hx'
            split
            · exact True.intro
            · rename_i hx2
              exact ih (o + 1 + 8) ⟨x, y⟩ g (by omega) (by omega) (by simp only []; omega) (by simp only []; omega)
      · have hops : (if cmd > tndCmdLo ∧ cmd ≤ tndCmdHi then
              if o + 1 ≥ d.size then Res.err else do
                let _ ← rd sTnd d (o + 1)
                let o ← tndColor d (o + 1 + 1) (cmd &&& tndColorFg != 0)
                tndColor d o (cmd &&& tndColorBg != 0)
            else Res.ok (o + 1)).Sat (fun o' => o + 1 ≤ o' ∧ o' ≤ d.size) := by
          split
          · split
            · exact True.intro
            · rename_i h1
              apply Sat.bind (rd_sat (by omega)); intro _ _
              apply Sat.bind (tndColor_sat d _ _ (by omega)); intro o1 ho1
              apply Sat.mono (tndColor_sat d o1 _ ho1.2)
              intro o2 ho2; omega
          · exact ⟨Nat.le_refl _, by omega⟩
        apply Sat.bind hops; intro o' ho'
        apply Sat.bind (chk32_sat (by omega)); intro h _
        apply Sat.bind (advance_sat (B := 2147483647) (by omega) hbw hx (by omega)); intro q hq
        obtain ⟨q1, q2, q3, q4, q5⟩ := hq
        exact ih o' q _ (by omega) ho'.2 ⟨q1, q2⟩ (by omega)

theorem tndGeo_bw (sauce : Option (Nat × Nat)) (hs : ∀ sw sh, sauce = some (sw, sh) → sw ≤ 2147483647) :
    1 ≤ (tndGeo sauce).bw ∧ (tndGeo sauce).bw ≤ 2147483647 := by
  have hb0 := initGeo_bw 80 25 tndLinesCleared sauce (by decide)
  have hwa : tndWideAbove = 1000 := rfl
  unfold tndGeo
  cases sauce with
  | none => simp only []; omega
  | some p =>
    obtain ⟨sw, sh⟩ := p
    have := hs sw sh rfl
    simp only []
    split
    · simp only []; omega
    · omega

theorem loadTnd_sat (d : Bytes) (hd : FitsI32 d) (sauce : Option (Nat × Nat)) (hs : ∀ sw sh, sauce = some (sw, sh) → sw ≤ 2147483647) :
    (loadTnd d sauce).Sat (fun _ => True) := by
  unfold loadTnd
  dsimp only
  have e1 : tndHeader.length = 8 := rfl
  have hb := tndGeo_bw sauce hs
  split
  · exact True.intro
  · rename_i hlen
    apply Sat.bind (slice_sat (by omega)); intro _ _
    split
    · exact True.intro
    · exact tndLoop_sat d hd _ (by omega) _ _ ⟨0, 0⟩ _ (by omega) (by omega) (by simp only []; omega) (by simp only []; omega)

end IcyVerif.Loaders
