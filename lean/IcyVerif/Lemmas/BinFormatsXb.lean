import IcyVerif.Lemmas.BinFormatsXbLoad
import IcyVerif.Props.C06
set_option linter.unusedSimpArgs false
set_option linter.unusedVariables false
/-!
# C05, XBin: save → load reproduces every representable picture
(one or two fonts, palette embedded or default, blink or ice, compressed or raw, with or without SAUCE)

The image data goes through C06: `C06.loader_reads_same_pairs` says the crate's loader hands `decode_char` the cells'
(character, attribute byte) pairs for the compressed as for the raw encoding.
-/
namespace IcyVerif.BinFormats
open IcyVerif.XbCompress IcyVerif.Gen

theorem imageData_some (im : IceMode) (compress : Bool) (rows : List (List Cell))
    (hlen : (analyzeFontUsage rows.flatten).length ≤ 2) (hfit : fits8 rows = true) :
    imageData im compress rows =
      some (if compress then rows.flatMap (compressRow (encodeAttr im (analyzeFontUsage rows.flatten)))
            else rows.flatMap (rawRow (encodeAttr im (analyzeFontUsage rows.flatten)))) := by
  unfold imageData
  have : ¬ ((analyzeFontUsage rows.flatten).length > 2) := by omega
  simp [this, hfit]

/-- what the crate's loader reads from the image data the writer produced, compressed or not -/
theorem xb_pairs (im : IceMode) (compress : Bool) (rows : List (List Cell)) (img : List Nat)
    (hlen : (analyzeFontUsage rows.flatten).length ≤ 2) (hfit : fits8 rows = true)
    (himg : imageData im compress rows = some img) :
    (if compress then readCompressed img else some (readUncompressed img)) =
      some (rows.flatten.map (encCell (encodeAttr im (analyzeFontUsage rows.flatten)))) := by
  have hc := imageData_some im true rows hlen hfit
  have hu := imageData_some im false rows hlen hfit
  simp only [if_true] at hc
  simp only [Bool.false_eq_true, if_false] at hu
  obtain ⟨h1, h2⟩ := IcyVerif.C06.loader_reads_same_pairs im rows _ _ hc hu
  cases compress with
  | true =>
    rw [hc] at himg
    have : img = _ := (Option.some.inj himg).symm
    subst this
    simp only [if_true]
    rw [h1, h2]
  | false =>
    rw [hu] at himg
    have : img = _ := (Option.some.inj himg).symm
    subst this
    simp only [Bool.false_eq_true, if_false]
    rw [h2]

/-- one font: `decode_char` of the stored pair is `shownCell` -/
theorem dec_xb_single (im : IceMode) (him : im = .blink ∨ im = .ice) (c : Cell)
    (h : attrCell (im == .ice) c = true) (hp : c.attr.page = 0) :
    decodeChar (im == .ice) false (encCell (encodeAttr im [0]) c) = shownCell c := by
  have henc : encodeAttr im [0] c.attr = asU8 im c.attr := by unfold encodeAttr; simp
  unfold encCell decodeChar
  simp only [henc, Bool.and_false, Bool.false_eq_true, if_false]
  rcases him with him | him <;> subst him
  · exact dec_blink c h hp
  · exact dec_ice c h hp

theorem decodeChar_split (ice ext : Bool) (ch b : Nat) :
    decodeChar ice ext (ch, b) = ⟨ch, (decodeChar ice ext (0, b)).attr⟩ := by
  unfold decodeChar
  by_cases h : ((fromU8 ice b).fg > 7 && ext) = true <;> simp [h]

theorem tab_dec_ext_ice : ∀ fg, fg < 8 → ∀ bg, bg < 16 → ∀ pg : Bool,
    (decodeChar true true (0, (attrByte false fg bg false false &&& Xb.encKeepMask) ||| (if pg then Xb.encPageBit else 0))).attr =
      ⟨fg, bg, 0, if pg then 1 else 0⟩ := by decide

theorem tab_dec_ext_blink : ∀ fg, fg < 8 → ∀ bg, bg < 8 → ∀ blink pg : Bool,
    (decodeChar false true (0, (attrByte true fg bg false blink &&& Xb.encKeepMask) ||| (if pg then Xb.encPageBit else 0))).attr =
      ⟨fg, bg, if blink then Xb.attrBlink else 0, if pg then 1 else 0⟩ := by decide

/-- two fonts: bit 3 of the stored attribute is the font, the foreground has three bits -/
theorem dec_xb_two (im : IceMode) (him : im = .blink ∨ im = .ice) (c : Cell)
    (h : attrCell (im == .ice) c = true) (hp : c.attr.page = 0 ∨ c.attr.page = 1) (hfg : c.attr.fg < 8) (hnb : isBold c.attr = false) :
    decodeChar (im == .ice) true (encCell (encodeAttr im [0, 1]) c) = shownCell c := by
  have henc : encodeAttr im [0, 1] c.attr =
      (asU8 im c.attr &&& Xb.encKeepMask) ||| (if decide (c.attr.page = 1) then Xb.encPageBit else 0) := by
    unfold encodeAttr
    simp only [List.length_cons, List.length_nil, if_true, List.getD_cons_succ, List.getD_cons_zero]
    by_cases h1 : c.attr.page = 1 <;> simp [h1]
  have hpage : (if decide (c.attr.page = 1) then 1 else 0) = c.attr.page := by
    rcases hp with hp | hp <;> rw [hp] <;> rfl
  have hshown : shownFg c.attr.fg (isBold c.attr) = c.attr.fg := by rw [hnb]; simp [shownFg]
  unfold encCell
  rw [henc, decodeChar_split]
  rcases him with him | him <;> subst him
  · obtain ⟨_, _, hbg⟩ := attrCell_blink c h
    rw [asU8_blink, hnb]
    show (⟨c.ch, (decodeChar false true (0, _)).attr⟩ : Cell) = _
    rw [tab_dec_ext_blink c.attr.fg hfg c.attr.bg hbg (isBlink c.attr) (decide (c.attr.page = 1)), hpage]
    unfold shownCell
    rw [hshown]
  · obtain ⟨_, _, hbg, hbl⟩ := attrCell_ice c h
    rw [asU8_ice, hnb, hbl]
    show (⟨c.ch, (decodeChar true true (0, _)).attr⟩ : Cell) = _
    rw [tab_dec_ext_ice c.attr.fg hfg c.attr.bg hbg (decide (c.attr.page = 1)), hpage]
    unfold shownCell
    rw [hshown, hbl]
    rfl

end IcyVerif.BinFormats
