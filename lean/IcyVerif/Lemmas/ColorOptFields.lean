import IcyVerif.Lemmas.ColorOptDoc
set_option linter.unusedSimpArgs false
set_option linter.unusedVariables false
/-! Lemmas for C12 (c): which fields of a cell the optimiser can change, as an invariant of the two loops.

`FieldsOk F B c c'`: the rewritten cell keeps font page and flags, its character is the old one or `' '`, and its colours
satisfy the predicates `F` (foreground) / `B` (background) — provided every input cell and the initial carried attribute
do.  This is what makes a format's representability domain (a conjunction of per-field conditions on every cell) closed
under the optimiser. -/
namespace IcyVerif.ColorOpt
open IcyVerif.Comp IcyVerif.Gen.Fonts

/-- pointwise relation of two lists of the same length (core has no `List.Forall₂`) -/
inductive Rel2 {α β : Type} (R : α → β → Prop) : List α → List β → Prop
  | nil : Rel2 R [] []
  | cons {a b as bs} : R a b → Rel2 R as bs → Rel2 R (a :: as) (b :: bs)

theorem Rel2.length {α β : Type} {R : α → β → Prop} {l : List α} {l' : List β} (h : Rel2 R l l') : l'.length = l.length := by
  induction h with
  | nil => rfl
  | cons _ _ ih => simp [ih]

theorem Rel2.mono {α β : Type} {R S : α → β → Prop} (hRS : ∀ a b, R a b → S a b) {l : List α} {l' : List β}
    (h : Rel2 R l l') : Rel2 S l l' := by
  induction h with
  | nil => exact .nil
  | cons hab _ ih => exact .cons (hRS _ _ hab) ih

theorem Rel2.map {α β γ δ : Type} {R : γ → δ → Prop} (f : α → γ) (g : β → δ) {l : List α} {l' : List β}
    (h : Rel2 (fun a b => R (f a) (g b)) l l') : Rel2 R (l.map f) (l'.map g) := by
  induction h with
  | nil => exact .nil
  | cons hab _ ih => exact .cons hab ih

theorem Rel2.of_map_left {α γ β : Type} {R : γ → β → Prop} (f : α → γ) {l : List α} {l' : List β}
    (h : Rel2 R (l.map f) l') : Rel2 (fun a b => R (f a) b) l l' := by
  induction l generalizing l' with
  | nil => cases h; exact .nil
  | cons a l ih =>
    cases h with
    | cons hab ht => exact .cons hab (ih ht)

/-- a property of the left elements that `R` carries over holds for all right elements -/
theorem Rel2.all_right {α β : Type} {R : α → β → Prop} {P : α → Prop} {Q : β → Prop} (hPQ : ∀ a b, R a b → P a → Q b)
    {l : List α} {l' : List β} (h : Rel2 R l l') (hl : ∀ a ∈ l, P a) : ∀ b ∈ l', Q b := by
  induction h with
  | nil => intro b hb; cases hb
  | cons hab _ ih =>
    intro b hb
    rcases List.mem_cons.mp hb with rfl | hb
    · exact hPQ _ _ hab (hl _ List.mem_cons_self)
    · exact ih (fun a ha => hl a (List.mem_cons_of_mem _ ha)) b hb

/-- a function of the elements that `R` preserves gives the same list -/
theorem Rel2.map_eq {α β γ : Type} {R : α → β → Prop} (f : α → γ) (g : β → γ) (hfg : ∀ a b, R a b → g b = f a)
    {l : List α} {l' : List β} (h : Rel2 R l l') : l'.map g = l.map f := by
  induction h with
  | nil => rfl
  | cons hab _ ih => simp [hfg _ _ hab, ih]

theorem Rel2.append {α β : Type} {R : α → β → Prop} {a c : List α} {b d : List β} (h1 : Rel2 R a b) (h2 : Rel2 R c d) :
    Rel2 R (a ++ c) (b ++ d) := by
  induction h1 with
  | nil => exact h2
  | cons hab _ ih => exact .cons hab ih

theorem Rel2.flatten {α β : Type} {R : α → β → Prop} {l : List (List α)} {l' : List (List β)} (h : Rel2 (Rel2 R) l l') :
    Rel2 R l.flatten l'.flatten := by
  induction h with
  | nil => exact .nil
  | cons hab _ ih =>
    simp only [List.flatten_cons]
    exact Rel2.append hab ih

def FieldsOk (F B : Nat → Prop) (c c' : Cell) : Prop :=
  c'.attr.page = c.attr.page ∧ c'.attr.flags = c.attr.flags ∧ (c'.ch = c.ch ∨ c'.ch = spaceCh) ∧ F c'.attr.fg ∧ B c'.attr.bg

theorem optCell_fields {fonts : Nat → Option Font} {norm : Bool} (F B : Nat → Prop) {k : Attr} {c c' : Cell}
    (h : optCell fonts norm k c = some c') (hk : F k.fg ∧ B k.bg) (hc : F c.attr.fg ∧ B c.attr.bg) : FieldsOk F B c c' := by
  obtain ⟨f, rows, _, _, hcase⟩ := optCell_cases h
  rcases hcase with ⟨_, rfl⟩ | ⟨_, rfl⟩ | ⟨_, rfl⟩
  · refine ⟨rfl, rfl, ?_, hk.1, hc.2⟩
    by_cases hn : (norm && (f.glyph spaceCh).isSome) = true
    · right; simp [hn]
    · left; simp [hn]
  · exact ⟨rfl, rfl, Or.inl rfl, hc.1, hk.2⟩
  · exact ⟨rfl, rfl, Or.inl rfl, hc.1, hc.2⟩

theorem optimizeRow_fields {fonts : Nat → Option Font} {norm : Bool} (F B : Nat → Prop) :
    ∀ (row : List Cell) (k k' : Attr) (row' : List Cell), optimizeRow fonts norm k row = some (row', k') →
      F k.fg ∧ B k.bg → (∀ c ∈ row, F c.attr.fg ∧ B c.attr.bg) → Rel2 (FieldsOk F B) row row' ∧ F k'.fg ∧ B k'.bg := by
  intro row
  induction row with
  | nil =>
    intro k k' row' h hk _
    simp only [optimizeRow, Option.some.injEq, Prod.mk.injEq] at h
    obtain ⟨rfl, rfl⟩ := h
    exact ⟨.nil, hk⟩
  | cons a row ih =>
    intro k k' row' h hk hrow
    unfold optimizeRow at h
    cases ha : optCell fonts norm k a with
    | none => rw [ha] at h; cases h
    | some a' =>
      rw [ha] at h
      simp only at h
      cases hr : optimizeRow fonts norm a'.attr row with
      | none => rw [hr] at h; cases h
      | some p =>
        obtain ⟨cs', kk⟩ := p
        rw [hr] at h
        simp only [Option.some.injEq, Prod.mk.injEq] at h
        obtain ⟨rfl, rfl⟩ := h
        have hf := optCell_fields F B ha hk (hrow a List.mem_cons_self)
        obtain ⟨hrel, hkk⟩ := ih a'.attr _ cs' hr ⟨hf.2.2.2.1, hf.2.2.2.2⟩ (fun c hc => hrow c (List.mem_cons_of_mem _ hc))
        exact ⟨.cons hf hrel, hkk⟩

theorem optimizeRows_fields {fonts : Nat → Option Font} {norm : Bool} (F B : Nat → Prop) :
    ∀ (rows : List (List Cell)) (k k' : Attr) (rows' : List (List Cell)), optimizeRows fonts norm k rows = some (rows', k') →
      F k.fg ∧ B k.bg → (∀ r ∈ rows, ∀ c ∈ r, F c.attr.fg ∧ B c.attr.bg) →
      Rel2 (Rel2 (FieldsOk F B)) rows rows' := by
  intro rows
  induction rows with
  | nil =>
    intro k k' rows' h _ _
    simp only [optimizeRows, Option.some.injEq, Prod.mk.injEq] at h
    obtain ⟨rfl, _⟩ := h
    exact .nil
  | cons a rows ih =>
    intro k k' rows' h hk hrows
    unfold optimizeRows at h
    cases ha : optimizeRow fonts norm k a with
    | none => rw [ha] at h; cases h
    | some p =>
      obtain ⟨a', ka⟩ := p
      rw [ha] at h
      simp only at h
      cases hr : optimizeRows fonts norm ka rows with
      | none => rw [hr] at h; cases h
      | some q =>
        obtain ⟨rs', kk⟩ := q
        rw [hr] at h
        simp only [Option.some.injEq, Prod.mk.injEq] at h
        obtain ⟨rfl, _⟩ := h
        obtain ⟨hrel, hka⟩ := optimizeRow_fields F B a k ka a' ha hk (hrows a List.mem_cons_self)
        exact .cons hrel (ih ka _ rs' hr hka (fun r hr' => hrows r (List.mem_cons_of_mem _ hr')))

end IcyVerif.ColorOpt
