import IcyVerif.Lemmas.RowsStep
set_option linter.unusedSimpArgs false
set_option linter.unusedVariables false
/-! # No content operation panics: the four wrappers of the ANSI parser and the five byte-oriented emulations -/
namespace IcyVerif.Rows
open IcyVerif.Term

attribute [local irreducible] checkScrollUpT checkScrollDownT echT insT delT bsT removeTerminalLine insertTerminalLine
  clearBufferDown clearBufferUp clearLine clearLineEnd clearLineStart scrollUp scrollDown scrollLeft scrollRight lfT
  printCharT printNT repaintAll fillToEol layerSetChar fillArea times

/-! ## wrappers -/
def WGood (w : Int) (x : WJ) : Prop := GoodSt x.1.inner ∧ BwOk x.1.inner.s ∧ W w x.2
abbrev WGoodR (w : Int) (r : WJ × Out) : Prop := WGood w r.1

theorem geoW_good (w : Int) (w0 : WSt) (r : WR) (t : RRes Tab) (hg : okOrOv r GoodW) (hbw : okThen r (BwW w0))
    (hb : BwOk w0.inner.s) (ht : Ok t (W w)) : JOk (geoW r t) (WGoodR w) := by
  unfold geoW
  cases r with
  | error e =>
    obtain ⟨site, he⟩ := hg
    exact ⟨site, by rw [he]⟩
  | ok p =>
    obtain ⟨w', out⟩ := p
    cases t with
    | error e => exact ht.elim
    | ok t' => exact ⟨hg, bwOk_of_step hbw hb, ht⟩

theorem innerJ_good (w : Int) (hw : 0 ≤ w) (x : WJ) (o : Nat → Orc) (ch : Char) (h : WGood w x) :
    JOk (innerJ x o ch) (WGoodR w) := by
  unfold innerJ
  have hs := stepJ_good w hw wcfg o (x.1.inner, x.2) ch h
  cases hst : stepJ wcfg o (x.1.inner, x.2) ch with
  | error e => rw [hst] at hs; exact hs
  | ok r => rw [hst] at hs; obtain ⟨⟨st, t⟩, out⟩ := r; exact hs

theorem avtRepeatJ_good (w : Int) (hw : 0 ≤ w) (o : Nat → Orc) (ch : Char) : ∀ (n : Nat) (x : WJ), WGood w x →
    JOk (avtRepeatJ o ch n x) (WGoodR w) := by
  intro n
  induction n with
  | zero => intro x h; exact h
  | succ n ih =>
    intro x h
    unfold avtRepeatJ
    have hs := stepJ_good w hw wcfg o (x.1.inner, x.2) ch h
    cases hst : stepJ wcfg o (x.1.inner, x.2) ch with
    | error e => rw [hst] at hs; exact hs
    | ok r =>
      rw [hst] at hs
      obtain ⟨⟨st, t⟩, out⟩ := r
      cases out with
      | err => exact hs
      | ok => exact ih _ hs
      | resize => exact ih _ hs

theorem avatarJ_good (w : Int) (hw : 0 ≤ w) (x : WJ) (o : Nat → Orc) (ch : Char) (h : WGood w x)
    (hb : x.1.inner.s.bh ≤ 1073741854) : JOk (avatarJ x o ch) (WGoodR w) := by
  obtain ⟨hg, hbw, ht⟩ := h
  have hgeo := avatarStep_good x.1 o ch hg hb
  have hbs := avatarStep_bw x.1 o ch hg
  unfold avatarJ
  simp only []
  split
  · repeat' (first | (apply ok_ite <;> intro _) | split)
    · exact geoW_good w x.1 _ _ hgeo hbs hbw ht
    · exact geoW_good w x.1 _ _ hgeo hbs hbw ht
    · exact innerJ_good w hw x o ch ⟨hg, hbw, ht⟩
  · split
    · have hr := avtRepeatJ_good w hw o x.1.avtChar (min ch.toNat 255) ({ x.1 with avt := .repeatChars 3 }, x.2) ⟨hg, hbw, ht⟩
      cases hrr : avtRepeatJ o x.1.avtChar (min ch.toNat 255) ({ x.1 with avt := .repeatChars 3 }, x.2) with
      | error e => rw [hrr] at hr; exact hr
      | ok r =>
        rw [hrr] at hr
        obtain ⟨⟨w', t'⟩, out⟩ := r
        cases out <;> exact hr
    · exact geoW_good w x.1 _ _ hgeo hbs hbw ht
  · exact geoW_good w x.1 _ _ hgeo hbs hbw ht

theorem pcboardJ_good (w : Int) (hw : 0 ≤ w) (x : WJ) (o : Nat → Orc) (ch : Char) (h : WGood w x) :
    JOk (pcboardJ x o ch) (WGoodR w) := by
  obtain ⟨hg, hbw, ht⟩ := h
  unfold pcboardJ
  simp only []
  split
  · exact geoW_good w x.1 _ _ (pcboardStep_good x.1 o ch hg) (pcboardStep_bw x.1 o ch hg) hbw ht
  · exact innerJ_good w hw x o ch ⟨hg, hbw, ht⟩

theorem renegadeJ_good (w : Int) (hw : 0 ≤ w) (x : WJ) (o : Nat → Orc) (ch : Char) (h : WGood w x) :
    JOk (renegadeJ x o ch) (WGoodR w) := by
  obtain ⟨hg, hbw, ht⟩ := h
  unfold renegadeJ
  simp only []
  split
  · exact innerJ_good w hw x o ch ⟨hg, hbw, ht⟩
  · exact geoW_good w x.1 _ _ (renegadeStep_good x.1 o ch hg) (renegadeStep_bw x.1 o ch hg) hbw ht

theorem ctrlaJ_good (w : Int) (hw : 0 ≤ w) (x : WJ) (o : Nat → Orc) (ch : Char) (h : WGood w x)
    (hb : x.1.inner.s.bh ≤ 1073741854) : JOk (ctrlaJ x o ch) (WGoodR w) := by
  obtain ⟨hg, hbw, ht⟩ := h
  have hgeo := ctrlaStep_good x.1 o ch hg hb
  have hbs := ctrlaStep_bw x.1 o ch hg
  obtain ⟨_, hx, hy, htw, hbot, hcol, hk, hc⟩ := pre_of_good w hw x.1.inner hg hbw
  unfold ctrlaJ
  simp only []
  split
  · split
    · have hs := stepJ_good w hw wcfg o (x.1.inner, x.2) '\x01' ⟨hg, hbw, ht⟩
      cases hst : stepJ wcfg o (x.1.inner, x.2) '\x01' with
      | error e => rw [hst] at hs; exact hs
      | ok r => rw [hst] at hs; obtain ⟨⟨st, t⟩, out⟩ := r; exact hs
    · apply geoW_good w x.1 _ _ hgeo hbs hbw
      repeat' (first | (apply ok_ite <;> intro _))
      all_goals rarm
  · split
    · exact geoW_good w x.1 _ _ hgeo hbs hbw ht
    · exact innerJ_good w hw x o ch ⟨hg, hbw, ht⟩

theorem wstepJ_good (w : Int) (hw : 0 ≤ w) (e : Emu) (o : Nat → Orc) (x : WJ) (ch : Char) (h : WGood w x) :
    JOk (wstepJ e o x ch) (WGoodR w) := by
  unfold wstepJ
  split
  · exact ⟨_, rfl⟩
  · rename_i hr
    have hb := bh_of_good x.1.inner h.1 (Classical.not_not.mp hr)
    cases e with
    | avatar => exact avatarJ_good w hw x o ch h hb
    | pcboard => exact pcboardJ_good w hw x o ch h
    | ctrla => exact ctrlaJ_good w hw x o ch h hb
    | renegade => exact renegadeJ_good w hw x o ch h

theorem wrunJ_good (w : Int) (hw : 0 ≤ w) (e : Emu) (o : Nat → Orc) : ∀ (cs : List Char) (x : WJ), WGood w x →
    JOk (wrunJ e o x cs) (WGood w) := by
  intro cs
  induction cs with
  | nil => intro x h; exact h
  | cons ch rest ih =>
    intro x h
    unfold wrunJ
    have h2 := wstepJ_good w hw e o x ch h
    cases hs : wstepJ e o x ch with
    | error e => rw [hs] at h2; exact h2
    | ok r => rw [hs] at h2; obtain ⟨x', out⟩ := r; exact ih x' h2

/-! ## byte-oriented emulations -/
theorem pre_of_goodO (w : Int) (hw : 0 ≤ w) (st : OSt) (h : GoodO st) (hb : BwOk st.s) : Pre w st.s st.c :=
  pre_of_good w hw { s := st.s, c := st.c, p := {} } (goodO_toSt st h) hb

theorem printValueT_ok (w : Int) (s : Scr) (c : Car) (v : Nat) (t : Tab) (hp : Pre w s c) (ht : W w t) :
    Ok (printValueT s c v t) (W w) := by
  obtain ⟨hw, hx, hy, htw, hbot, hcol, hk, hc⟩ := hp
  unfold printValueT
  apply ok_ite
  · intro _; exact ht
  · intro _; rarm

/-- the flags are irrelevant for totality: the result keeps the layer width -/
abbrev WX (w : Int) (r : OX × Tab) : Prop := W w r.2

theorem keep_ok (w : Int) (x : OX) (r : RRes Tab) (h : Ok r (W w)) : Ok (andThen r fun t => .ok (x, t)) (WX w) :=
  ok_andThen h (fun _ ha => ha)

theorem asciiRows_ok (w : Int) (st : OSt) (ch : Char) (t : Tab) (hp : Pre w st.s st.c) (ht : W w t) :
    Ok (asciiRows st ch t) (W w) := by
  have hpv := fun v => printValueT_ok w st.s st.c v t hp ht
  obtain ⟨hw, hx, hy, htw, hbot, hcol, hk, hc⟩ := hp
  unfold asciiRows
  simp only []
  repeat' (first | (apply ok_ite <;> intro _))
  all_goals first | rarm | exact hpv _

theorem atasciiRows_ok (w : Int) (st : OSt) (ch : Char) (t : Tab) (hp : Pre w st.s st.c) (ht : W w t) :
    Ok (atasciiRows st ch t) (W w) := by
  have hpv := fun v => printValueT_ok w st.s st.c v t hp ht
  obtain ⟨hw, hx, hy, htw, hbot, hcol, hk, hc⟩ := hp
  unfold atasciiRows
  simp only []
  repeat' (first | (apply ok_ite <;> intro _))
  all_goals first | rarm | exact hpv _

theorem petsciiRows_ok (w : Int) (st : OSt) (x : OX) (ch : Char) (t : Tab) (hp : Pre w st.s st.c) (ht : W w t) :
    Ok (petsciiRows st x ch t) (WX w) := by
  obtain ⟨hw, hx, hy, htw, hbot, hcol, hk, hc⟩ := hp
  unfold petsciiRows
  simp only []
  repeat' (first | (apply ok_ite <;> intro _) | split)
  all_goals first
    | exact ht
    | (apply keep_ok; rarm)
    | (apply ok_andThen (P := W w); rarm; intro t' ht'; exact ht')

theorem viewdataRows_ok (w : Int) (st : OSt) (x : OX) (ch : Char) (cnt : Nat) (t : Tab) (hp : Pre w st.s st.c) (ht : W w t) :
    Ok (viewdataRows st x ch cnt t) (WX w) := by
  obtain ⟨hw, hx, hy, htw, hbot, hcol, hk, hc⟩ := hp
  unfold viewdataRows
  simp only []
  repeat' (first | (apply ok_ite <;> intro _))
  all_goals first
    | exact ht
    | skip
  -- interpret_char
  apply ok_andThen (P := WX w)
  · repeat' (first | (apply ok_ite <;> intro _))
    all_goals first
      | exact ht
      | (apply ok_andThen (P := W w); rarm; intro t' ht'; exact ht')
  · intro r hr
    obtain ⟨x1, t1⟩ := r
    have ht1 : W w t1 := hr
    apply ok_andThen (P := W w)
    · rarm
    · intro t2 ht2
      simp only []
      repeat' (first | (apply ok_ite <;> intro _))
      all_goals first
        | exact ht2
        | (apply ok_andThen (P := W w); rarm; intro t' ht'; exact ht')

theorem m7PrintT_ok (w : Int) (hw : 0 ≤ w) (s : Scr) (c : Car) (t : Tab) (ht : W w t) : Ok (m7PrintT s c t) (W w) := by
  unfold m7PrintT
  apply ok_andThen (P := W w)
  · rarm
  · intro t1 ht1
    apply ok_ite
    · intro _; rarm
    · intro _; exact ht1

theorem mode7Rows_ok (w : Int) (st : OSt) (x : OX) (ch : Char) (cnt : Nat) (t : Tab) (hp : Pre w st.s st.c) (ht : W w t) :
    Ok (mode7Rows st x ch cnt t) (WX w) := by
  obtain ⟨hw, hx, hy, htw, hbot, hcol, hk, hc⟩ := hp
  have hfp : Ok (andThen (fillToEol st.s st.c cnt t) fun t => m7PrintT st.s st.c t) (W w) := by
    apply ok_andThen (P := W w)
    · rarm
    · intro t1 ht1; exact m7PrintT_ok w hw _ _ t1 ht1
  have hpr := m7PrintT_ok w hw st.s st.c t ht
  unfold mode7Rows
  simp only []
  repeat' (first | (apply ok_ite <;> intro _))
  all_goals first
    | exact ht
    | exact keep_ok w _ _ hfp
    | exact keep_ok w _ _ hpr
    | (apply keep_ok; rarm)
    | (apply keep_ok; apply ok_ite <;> intro _ <;> rarm)

theorem orows_ok (w : Int) (e : Emu2) (st : OSt) (x : OX) (ch : Char) (cnt : Nat) (t : Tab) (hp : Pre w st.s st.c)
    (ht : W w t) : Ok (orows e st x ch cnt t) (WX w) := by
  unfold orows
  cases e with
  | ascii => exact keep_ok w x _ (asciiRows_ok w st ch t hp ht)
  | atascii => exact keep_ok w x _ (atasciiRows_ok w st ch t hp ht)
  | petscii => exact petsciiRows_ok w st x ch t hp ht
  | viewdata => exact viewdataRows_ok w st x ch cnt t hp ht
  | mode7 => exact mode7Rows_ok w st x ch cnt t hp ht

def OGood (w : Int) (e : Emu2) (x : OJ) : Prop :=
  GoodO x.1 ∧ (e = .viewdata ∨ e = .mode7 → Fixed x.1) ∧ BwOk x.1.s ∧ W w x.2.2

theorem ostepJ_good (w : Int) (hw : 0 ≤ w) (e : Emu2) (x : OJ) (ch : Char) (cnt : Nat) (h : OGood w e x) :
    JOk (ostepJ e x ch cnt) (fun r => OGood w e r.1) := by
  obtain ⟨hg, hf, hb, ht⟩ := h
  unfold ostepJ
  have hgd := ostep_good e x.1 ch hg hf
  have hbw := ostep_bw e x.1 ch hg.1
  cases hs : ostep e x.1 ch with
  | error p =>
    rw [hs] at hgd
    obtain ⟨site, he⟩ := hgd
    exact ⟨site, by rw [he]⟩
  | ok r =>
    rw [hs] at hgd hbw
    obtain ⟨st', out⟩ := r
    have hr := orows_ok w e x.1 x.2.1 ch cnt x.2.2 (pre_of_goodO w hw x.1 hg hb) ht
    cases hrr : orows e x.1 x.2.1 ch cnt x.2.2 with
    | error site => rw [hrr] at hr; exact hr.elim
    | ok r2 =>
      rw [hrr] at hr
      obtain ⟨ox', t'⟩ := r2
      refine ⟨hgd.1, hgd.2, ?_, hr⟩
      cases hbw with
      | inl g => unfold BwOk at *; rw [g]; exact hb
      | inr g => exact g

theorem orunJ_good (w : Int) (hw : 0 ≤ w) (e : Emu2) : ∀ (cs : List (Char × Nat)) (x : OJ), OGood w e x →
    JOk (orunJ e x cs) (OGood w e) := by
  intro cs
  induction cs with
  | nil => intro x h; exact h
  | cons p rest ih =>
    intro x h
    obtain ⟨ch, cnt⟩ := p
    unfold orunJ
    have h2 := ostepJ_good w hw e x ch cnt h
    cases hs : ostepJ e x ch cnt with
    | error e => rw [hs] at h2; exact h2
    | ok r => rw [hs] at h2; obtain ⟨x', out⟩ := r; exact ih x' h2

end IcyVerif.Rows
