import IcyVerif.Lemmas.Sixel
set_option linter.unusedSimpArgs false
set_option linter.unusedVariables false
/-! Cost of the sixel decoder (C03): since the size-limit repairs (`MAX_SIXEL_SIZE`, `MAX_SIXEL_COLORS`) every reachable
    machine state is SMALL — at most `maxSize` rows of at most `4 * maxSize` bytes, at most `maxColors` palette entries —
    whatever numbers the payload contains; no allocation request leaves the modelled range (`Out.huge` is unreachable);
    and the only parameter-driven loop (the repeat introducer `!Pn`) runs at most `maxSize` times per payload character. -/
namespace IcyVerif.Sixel

/-- the limits found in the source keep every allocation the model checks inside the modelled range -/
theorem limits_fit : 4 * maxSize ≤ hugeLimit ∧ maxSize * (4 * maxSize) ≤ hugeLimit ∧ maxColors ≤ hugeLimit ∧ 16 ≤ maxColors := by decide

structure Small (s : St) : Prop where
  height : s.rows.length ≤ maxSize
  rows : ∀ r ∈ s.rows, r ≤ 4 * maxSize
  pal : s.palLen ≤ maxColors

/-- what a step from a small state may produce: a small state, a parse error (or a panic, excluded by C14) — never `huge` -/
def OutSmall : Out St → Prop
  | .ok s => Small s
  | .huge => False
  | _ => True

theorem small_init : Small {} := ⟨by simp, by simp, limits_fit.2.2.2⟩

theorem andThen_small {o : Out St} {f : St → Out St} (ho : OutSmall o) (hf : ∀ s, Small s → OutSmall (f s)) :
    OutSmall (o.andThen f) := by
  cases o with
  | ok s' => exact hf s' ho
  | err e => trivial
  | panic p => trivial
  | huge => exact ho.elim

theorem width_le {rows : List Nat} (h : ∀ r ∈ rows, r ≤ 4 * maxSize) : width rows * 4 ≤ 4 * maxSize := by
  unfold width; cases rows with
  | nil => simp
  | cons r rs => have := h r (by simp); simp only; omega

/-- rows after a loop / a resize: small rows (and their number), never out of range -/
def LoopSmall (n : Nat) : Out (List Nat) → Prop
  | .ok rows' => (∀ r ∈ rows', r ≤ 4 * maxSize) ∧ rows'.length = n
  | .huge => False
  | _ => True

def GrowSmall : Out (List Nat) → Prop
  | .ok rows' => (∀ r ∈ rows', r ≤ 4 * maxSize) ∧ rows'.length ≤ maxSize
  | _ => False

/-- the pixel loop on small rows at a column below the limit: small rows again, same number, never out of range -/
theorem pixelLoop_small (mask yPos lastLine x : Nat) (hx : x < maxSize) (is : List Nat) (rows : List Nat)
    (hr : ∀ r ∈ rows, r ≤ 4 * maxSize) : LoopSmall rows.length (pixelLoop mask yPos lastLine x is rows) := by
  have hfit := limits_fit.1
  induction is generalizing rows with
  | nil => exact ⟨hr, rfl⟩
  | cons i is ih =>
    simp only [pixelLoop]
    split
    · split
      · exact ⟨hr, rfl⟩
      · split
        · trivial
        · rename_i len hsome
          have hmem : len ∈ rows := List.mem_of_getElem? hsome
          have hok := hr len hmem
          have hnh : ¬ (len ≤ x * 4 ∧ (x + 1) * 4 > hugeLimit) := by omega
          simp only [hnh, if_false]
          by_cases hidx : x * 4 + 3 < (if len ≤ x * 4 then (x + 1) * 4 else len)
          · simp only [hidx, if_true]
            have hr' : ∀ r ∈ rows.set (yPos + i) (if len ≤ x * 4 then (x + 1) * 4 else len), r ≤ 4 * maxSize := by
              intro r hrm
              rcases List.mem_or_eq_of_mem_set hrm with h | h
              · exact hr r h
              · rw [h]; split <;> omega
            have := ih (rows.set (yPos + i) (if len ≤ x * 4 then (x + 1) * 4 else len)) hr'
            simpa using this
          · simp only [hidx, if_false]; trivial
    · exact ih rows hr

theorem growRows_small {rows : List Nat} (hr : ∀ r ∈ rows, r ≤ 4 * maxSize) (lastLine : Nat) (hl : lastLine ≤ maxSize)
    (hh : rows.length ≤ maxSize) : GrowSmall (growRows rows lastLine) := by
  unfold growRows
  have hw := width_le hr
  by_cases h1 : rows.length < lastLine
  · simp only [h1, if_true]
    have h2 : ¬ (lastLine > hugeLimit ∨ (lastLine - rows.length) * (width rows * 4) > hugeLimit) := by
      have hprod : (lastLine - rows.length) * (width rows * 4) ≤ maxSize * (4 * maxSize) :=
        Nat.mul_le_mul (by omega) hw
      have := limits_fit.2.1
      have := limits_fit.1
      omega
    simp only [h2, if_false]
    refine ⟨?_, by rw [length_resizeRows]; exact hl⟩
    intro r hrm
    rcases mem_resizeRows hrm with h | h
    · exact hr r h
    · rw [h]; exact hw
  · simp only [h1, if_false]; exact ⟨hr, hh⟩

theorem translate_small {s : St} (g : Small s) (ch : Char) : OutSmall (translate s ch) := by
  unfold translate
  by_cases h1 : ch.toNat < 63
  · simp only [h1, if_true]; trivial
  simp only [h1, if_false]
  by_cases h2 : s.palLen % 4294967296 = 0
  · simp only [h2, if_true]; trivial
  simp only [h2, if_false]
  by_cases h3 : s.y * 6 + 6 > i32Max
  · simp only [h3, if_true]; trivial
  simp only [h3, if_false]
  by_cases h4 : s.x ≥ maxSize ∨ lastLineOf s > maxSize
  · simp only [h4, if_true]; trivial
  simp only [h4, if_false]
  have hx : s.x < maxSize := by omega
  have hl : lastLineOf s ≤ maxSize := by omega
  have hg := growRows_small g.rows (lastLineOf s) hl g.height
  revert hg
  cases growRows s.rows (lastLineOf s) with
  | ok rows =>
    intro ⟨hr, hlen⟩
    simp only [Out.andThen]
    have := pixelLoop_small (ch.toNat - 63) (s.y * 6) (lastLineOf s) s.x hx [0, 1, 2, 3, 4, 5] rows hr
    revert this
    cases pixelLoop (ch.toNat - 63) (s.y * 6) (lastLineOf s) s.x [0, 1, 2, 3, 4, 5] rows with
    | ok rows' =>
      intro ⟨h1, h2⟩
      simp only
      split
      · trivial
      · exact ⟨by simp only; omega, h1, g.pal⟩
    | err e => intro _; trivial
    | panic p => intro _; trivial
    | huge => intro h; exact h.elim
  | err e => intro h; exact h.elim
  | panic p => intro h; exact h.elim
  | huge => intro h; exact h.elim

theorem sixelData_small {s : St} (g : Small s) (ch : Char) : OutSmall (sixelData s ch) := by
  unfold sixelData
  split
  · exact ⟨g.height, g.rows, g.pal⟩
  split
  · exact ⟨g.height, g.rows, g.pal⟩
  split
  · split
    · trivial
    · exact ⟨g.height, g.rows, g.pal⟩
  split
  · exact ⟨g.height, g.rows, g.pal⟩
  split
  · exact ⟨g.height, g.rows, g.pal⟩
  split
  · exact g
  · exact translate_small g ch

theorem repeatN_small (f : St → Out St) (hf : ∀ s, Small s → OutSmall (f s)) (n : Nat) {s : St} (g : Small s) :
    OutSmall (repeatN f n s) := by
  induction n generalizing s with
  | zero => exact g
  | succ n ih => rw [repeatN_succ]; exact andThen_small (hf s g) (fun s' g' => ih g')

theorem growPalette_small {s : St} (g : Small s) (hc : s.color < maxColors) : OutSmall (growPalette s) := by
  unfold growPalette
  have := limits_fit.2.2.1
  split
  · have hnh : ¬ s.color + 1 > hugeLimit := by omega
    simp only [hnh, if_false]
    exact ⟨g.height, g.rows, by simp only; omega⟩
  · exact g

theorem setColor_small {s : St} (g : Small s) : Small (setColor s) := by
  unfold setColor; split
  · exact ⟨g.height, g.rows, g.pal⟩
  · exact g

theorem defineColor_small {s : St} (g : Small s) : OutSmall (defineColor s) := by
  unfold defineColor
  by_cases h1 : s.nums.length > 1
  · simp only [h1, if_true]
    by_cases h5 : s.nums.length ≠ 5 ∨ s.color ≥ maxColors
    · rw [if_pos h5]; trivial
    · rw [if_neg h5]
      have hc : s.color < maxColors := by omega
      split
      · split
        · exact growPalette_small g hc
        · trivial
      · split
        · exact growPalette_small g hc
        · trivial
      · trivial
      · trivial
  · simp only [h1, if_false]; exact g

theorem colorArm_small {s : St} (g : Small s) : OutSmall (colorArm s) := defineColor_small (setColor_small g)

theorem drop2_le {nums : List Nat} (h : ¬ ((nums.drop 2).any (fun n => decide (n > maxSize)) = true)) (k : Nat) (v : Nat)
    (hk : 2 ≤ k) (hv : nums[k]? = some v) : v ≤ maxSize := by
  have hmem : v ∈ nums.drop 2 := by
    have : (nums.drop 2)[k - 2]? = some v := by
      rw [List.getElem?_drop]; rw [show 2 + (k - 2) = k by omega]; exact hv
    exact List.mem_of_getElem? this
  by_cases hle : v ≤ maxSize
  · exact hle
  · exfalso; apply h
    rw [List.any_eq_true]
    exact ⟨v, hmem, by simp; omega⟩

theorem sizeArm_small {s : St} (g : Small s) : OutSmall (sizeArm s) := by
  unfold sizeArm
  have hf1 := limits_fit.1
  have hf2 := limits_fit.2.1
  split
  · trivial
  · rename_i hguard
    have hany : ¬ ((s.nums.drop 2).any (fun n => decide (n > maxSize)) = true) := by
      intro h; exact hguard (Or.inr (Or.inr h))
    split
    · split
      · split
        · rename_i height hh
          have hle := drop2_le hany 2 height (by omega) hh
          have hnh : ¬ height > hugeLimit := by omega
          simp only [hnh, if_false]
          refine ⟨by simp only [length_resizeRows]; exact hle, ?_, g.pal⟩
          intro r hr
          rcases mem_resizeRows hr with h | h
          · exact g.rows r h
          · omega
        · trivial
      · split
        · split
          · rename_i w height hw hh
            have hwle := drop2_le hany 2 w (by omega) hw
            have hhle := drop2_le hany 3 height (by omega) hh
            have hprod : (height - s.rows.length) * (4 * w) ≤ maxSize * (4 * maxSize) := Nat.mul_le_mul (by omega) (by omega)
            have hnh : ¬ (4 * w > hugeLimit ∨ height > hugeLimit ∨ (height - s.rows.length) * (4 * w) > hugeLimit) := by omega
            simp only [hnh, if_false]
            refine ⟨by simp only [length_resizeRows]; exact hhle, ?_, g.pal⟩
            intro r hr
            rcases mem_resizeRows hr with h | h
            · exact g.rows r h
            · omega
          · trivial
        · exact ⟨g.height, g.rows, g.pal⟩
    · trivial

theorem parseChar_small {s : St} (g : Small s) (ch : Char) : OutSmall (parseChar s ch) := by
  unfold parseChar
  split
  · exact sixelData_small g ch
  · split
    · exact ⟨g.height, g.rows, g.pal⟩
    split
    · exact ⟨g.height, g.rows, g.pal⟩
    · exact andThen_small (colorArm_small g) (fun s' g' => sixelData_small g' ch)
  · split
    · exact ⟨g.height, g.rows, g.pal⟩
    split
    · exact ⟨g.height, g.rows, g.pal⟩
    · exact andThen_small (sizeArm_small g) (fun s' g' => sixelData_small g' ch)
  · split
    · exact ⟨g.height, g.rows, g.pal⟩
    · split
      · rename_i n _
        split
        · trivial
        · exact andThen_small (repeatN_small (fun t => sixelData t ch) (fun t gt => sixelData_small gt ch) n g)
            (fun s' h => ⟨h.height, h.rows, h.pal⟩)
      · trivial

theorem run_small {s : St} (g : Small s) (cs : List Char) : OutSmall (run s cs) := by
  induction cs generalizing s with
  | nil => exact g
  | cons c cs ih => rw [run_cons]; exact andThen_small (parseChar_small g c) (fun s' g' => ih g')

-- ------------------------------------------------------------------------------------------------ the repeat loop
/-- calls of `parse_sixel_data` one payload character causes: one, or `Pn` for the character behind a repeat introducer
    (0 when `Pn` is beyond the limit: the command is rejected before the loop) -/
def charWork (s : St) (ch : Char) : Nat :=
  match s.state with
  | .repeat_ =>
    if ch.isDigit then 1
    else match s.nums.head? with
      | some n => if n > maxSize then 1 else 1 + n
      | none => 1
  | _ => 1

/-- … summed over a run (the machine stops at the first error) -/
def runWork : St → List Char → Nat
  | _, [] => 0
  | s, c :: cs =>
    charWork s c + (match parseChar s c with
      | .ok s' => runWork s' cs
      | _ => 0)

theorem charWork_le (s : St) (ch : Char) : charWork s ch ≤ maxSize + 1 := by
  unfold charWork
  split
  · split
    · omega
    · split
      · split <;> omega
      · omega
  · omega

theorem runWork_le : ∀ (cs : List Char) (s : St), runWork s cs ≤ (maxSize + 1) * cs.length := by
  intro cs
  induction cs with
  | nil => intro s; simp [runWork]
  | cons c cs ih =>
    intro s
    have h1 := charWork_le s c
    simp only [runWork, List.length_cons, Nat.mul_succ]
    cases parseChar s c with
    | ok s' => have := ih s'; simp only; omega
    | err e => simp only; omega
    | panic p => simp only; omega
    | huge => simp only; omega

theorem rowLen_le {rows : List Nat} (h : ∀ r ∈ rows, r ≤ 4 * maxSize) : rowLen rows ≤ 4 * maxSize :=
  foldl_max_prop (fun v => v ≤ 4 * maxSize) rows 0 (by omega) h

end IcyVerif.Sixel
