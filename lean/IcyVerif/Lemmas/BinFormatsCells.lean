import IcyVerif.Lemmas.BinFormatsPic
set_option linter.unusedSimpArgs false
set_option linter.unusedVariables false
/-!
# C05: font pages in use; the attribute byte read back is `shownCell`

* `page_of_usage`: every cell's font page is listed by `analyze_font_usage`.
* `dec_ice`, `dec_blink`, `dec_unl`: writing a representable cell's attribute with `as_u8` and reading it with `from_u8`
  gives `shownCell` — for every cell in the domain of `attrCell` (the finite tables of `BinFormatsBasic` lifted).
-/
namespace IcyVerif.BinFormats
open IcyVerif.XbCompress IcyVerif.Gen

theorem mem_insertSorted (x p : Nat) (l : List Nat) : x ∈ insertSorted p l ↔ x = p ∨ x ∈ l := by
  induction l with
  | nil => simp [insertSorted]
  | cons q qs ih =>
    unfold insertSorted
    by_cases h1 : p < q
    · simp [h1]
    · by_cases h2 : p = q
      · subst h2; simp [h1]
      · simp only [h1, h2, if_false, List.mem_cons, ih]
        constructor
        · rintro (h | h | h) <;> simp [h]
        · rintro (h | h | h) <;> simp [h]

theorem mem_usage_fold (cells : List Cell) : ∀ (acc : List Nat) (x : Nat),
    (x ∈ acc ∨ ∃ c ∈ cells, c.attr.page = x) → x ∈ cells.foldl (fun acc c => insertSorted c.attr.page acc) acc := by
  induction cells with
  | nil => intro acc x h; rcases h with h | ⟨c, hc, _⟩; exact h; simp at hc
  | cons c cs ih =>
    intro acc x h
    simp only [List.foldl_cons]
    apply ih
    rcases h with h | ⟨c', hc', he⟩
    · left; exact (mem_insertSorted _ _ _).mpr (Or.inr h)
    · simp only [List.mem_cons] at hc'
      rcases hc' with hc' | hc'
      · subst hc'; left; exact (mem_insertSorted _ _ _).mpr (Or.inl he.symm)
      · right; exact ⟨c', hc', he⟩

/-- every cell's font page is in the list `analyze_font_usage` answers -/
theorem page_of_usage (cells : List Cell) (c : Cell) (h : c ∈ cells) : c.attr.page ∈ analyzeFontUsage cells :=
  mem_usage_fold cells [] c.attr.page (Or.inr ⟨c, h, rfl⟩)

theorem page_zero (rows : List (List Cell)) (hu : analyzeFontUsage rows.flatten = [0]) (r : List Cell) (hr : r ∈ rows)
    (c : Cell) (hc : c ∈ r) : c.attr.page = 0 := by
  have := page_of_usage rows.flatten c (List.mem_flatten.mpr ⟨r, hr, hc⟩)
  rw [hu] at this
  simpa using this

/-- the conditions of `attrCell` spelled out -/
theorem attrCell_ice (c : Cell) (h : attrCell true c = true) :
    c.ch ≤ 255 ∧ c.attr.fg < 16 ∧ c.attr.bg < 16 ∧ isBlink c.attr = false := by
  unfold attrCell at h
  simp only [if_true, Bool.and_eq_true, decide_eq_true_eq, Bool.not_eq_true'] at h
  obtain ⟨⟨h1, h3⟩, h4, h5⟩ := h
  exact ⟨h1, h3, h4, h5⟩

theorem attrCell_blink (c : Cell) (h : attrCell false c = true) :
    c.ch ≤ 255 ∧ c.attr.fg < 16 ∧ c.attr.bg < 8 := by
  unfold attrCell at h
  simp only [Bool.false_eq_true, if_false, Bool.and_eq_true, decide_eq_true_eq] at h
  obtain ⟨⟨h1, h3⟩, h4⟩ := h
  exact ⟨h1, h3, h4⟩

/-- ice colours: attribute written with `as_u8(Ice)`, read with `from_u8(.., Ice)` -/
theorem dec_ice (c : Cell) (h : attrCell true c = true) (hp : c.attr.page = 0) :
    (⟨c.ch, fromU8 true (asU8 .ice c.attr)⟩ : Cell) = shownCell c := by
  obtain ⟨_, hfg, hbg, hbl⟩ := attrCell_ice c h
  obtain ⟨_, t2, t3⟩ := tab_ice c.attr.fg hfg c.attr.bg hbg (isBold c.attr) (isBlink c.attr)
  rw [asU8_ice]
  unfold fromU8 shownCell
  rw [hbl] at t2 t3
  simp only [if_true, hbl, t2, t3, Bool.false_eq_true, if_false, hp]
  rfl

/-- blink mode: attribute written with `as_u8(Blink)`, read with `from_u8(.., Blink)` (or `Unlimited`, which reads alike) -/
theorem dec_blink (c : Cell) (h : attrCell false c = true) (hp : c.attr.page = 0) :
    (⟨c.ch, fromU8 false (asU8 .blink c.attr)⟩ : Cell) = shownCell c := by
  obtain ⟨_, hfg, hbg⟩ := attrCell_blink c h
  obtain ⟨_, t2, t3, t4⟩ := tab_blink c.attr.fg hfg c.attr.bg hbg (isBold c.attr) (isBlink c.attr)
  rw [asU8_blink]
  unfold fromU8 shownCell
  simp only [Bool.false_eq_true, if_false, t2, t3, t4, hp]
  rfl

/-- `as_u8(Unlimited)` on the four things it looks at -/
def unlByte (fg bg : Nat) (bold blink : Bool) : Nat :=
  let fg0 := fg &&& 0b1111
  let fg' := if bold then fg0 ||| 0b1000 else fg0
  let bg' := (bg &&& 0b1111) ||| (if blink then 0b1000 else 0)
  (fg' ||| (bg' <<< 4)) % 256

theorem tab_unl : ∀ fg, fg < 16 → ∀ bg, bg < 8 → ∀ bold blink : Bool, unlByte fg bg bold blink = attrByte true fg bg bold blink := by
  decide

theorem asU8'_unl (a : Attr) : asU8' .unlimited a = unlByte a.fg a.bg (isBold a) (isBlink a) := rfl

/-- `Unlimited` buffers whose cells fit the blink layout are written like `Blink` ones -/
theorem dec_unl (c : Cell) (h : attrCell false c = true) (hp : c.attr.page = 0) :
    (⟨c.ch, fromU8 false (asU8' .unlimited c.attr)⟩ : Cell) = shownCell c := by
  obtain ⟨_, hfg, hbg⟩ := attrCell_blink c h
  rw [asU8'_unl, tab_unl _ hfg _ hbg, ← asU8_blink]
  exact dec_blink c h hp

theorem pairsOf_flat (cells : List Cell) (f : Cell → Nat) (g : Cell → Nat) :
    pairsOf (cells.flatMap fun c => [f c, g c]) = cells.map fun c => (f c, g c) := by
  induction cells with
  | nil => rfl
  | cons c cs ih => simp [pairsOf, List.flatMap_cons, ih]

theorem flatMap_rows {α : Type} (rows : List (List Cell)) (f : Cell → List α) :
    (rows.flatMap fun row => row.flatMap f) = rows.flatten.flatMap f := by
  induction rows with
  | nil => rfl
  | cons r rs ih => simp [List.flatMap_cons, List.flatten_cons, List.flatMap_append, ih]

theorem map_flatten_rows {α β : Type} (rows : List (List α)) (f : α → β) :
    rows.flatten.map f = (rows.map fun r => r.map f).flatten := by
  induction rows with
  | nil => rfl
  | cons r rs ih => simp [List.flatten_cons, ih]

/-- mapping with two functions that agree on every cell of every row -/
theorem map_rows_congr (rows : List (List Cell)) (f g : Cell → Cell) (h : ∀ r ∈ rows, ∀ c ∈ r, f c = g c) :
    (rows.map fun r => r.map f) = rows.map fun r => r.map g := by
  apply List.map_congr_left
  intro r hr
  apply List.map_congr_left
  intro c hc
  exact h r hr c hc

theorem dateOk_length (d : List Nat) (h : dateOk d = true) : d.length = 8 := by
  unfold dateOk at h
  match d, h with
  | [_, _, _, _, _, _, _, _], _ => rfl

end IcyVerif.BinFormats
