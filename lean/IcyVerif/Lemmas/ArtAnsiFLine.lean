import IcyVerif.Lemmas.ArtAnsiXComp
import IcyVerif.Lemmas.ArtAnsiEvs
/-! # The cell loop of the whole ANSI writer against the reader: font pages (C04, `ansi_rt`)

`bytesOf evs` = the bytes of the events without any split = what `push_result` writes when no line-length limit is set.
`genLine_itemsF` is `genLine_itemsX` (Lemmas/ArtAnsiXComp.lean) for the event-level cell loop `genLineEv`: the font switch
`ESC [ 0 ; n SP D` (n an ANSI font page) leaves everything the picture shows alone, and the RLE scan that also stops at
a font change finds a run that is a prefix of the run the plain scan finds — the substitution lemmas need no more. -/
set_option linter.unusedSimpArgs false
namespace IcyVerif.ArtIO
open IcyVerif.Gen.Art

/-- the bytes all `ext` events carry, in order -/
def bytesOf : List Ev → List Nat
  | [] => []
  | .ext bs :: es => bs ++ bytesOf es
  | _ :: es => bytesOf es

theorem bytesOf_nil : bytesOf [] = [] := rfl
theorem bytesOf_ext (bs : List Nat) (es : List Ev) : bytesOf (.ext bs :: es) = bs ++ bytesOf es := rfl
theorem bytesOf_push (es : List Ev) : bytesOf (.push :: es) = bytesOf es := rfl
theorem bytesOf_eol (es : List Ev) : bytesOf (.eol :: es) = bytesOf es := rfl
theorem bytesOf_drop (es : List Ev) : bytesOf (.drop :: es) = bytesOf es := rfl

theorem bytesOf_append (a b : List Ev) : bytesOf (a ++ b) = bytesOf a ++ bytesOf b := by
  induction a with
  | nil => rfl
  | cons e es ih =>
    cases e with
    | ext bs => simp [bytesOf_ext, ih]
    | push => simpa [bytesOf_push] using ih
    | eol => simpa [bytesOf_eol] using ih
    | drop => simpa [bytesOf_drop] using ih

theorem bytesOf_tcEvs : ∀ (fuel : Nat) (tc : List Nat), bytesOf (tcEvs fuel tc) = tcSeqs fuel tc := by
  intro fuel
  induction fuel with
  | zero => intro tc; simp [tcEvs, tcSeqs, bytesOf]
  | succ f ih =>
    intro tc
    match tc with
    | [] => simp [tcEvs, tcSeqs, bytesOf]
    | [_] => simp [tcEvs, tcSeqs, bytesOf]
    | [_, _] => simp [tcEvs, tcSeqs, bytesOf]
    | [_, _, _] => simp [tcEvs, tcSeqs, bytesOf]
    | a :: b :: c :: d :: rest =>
      unfold tcEvs tcSeqs
      rw [bytesOf_append, ih rest]
      simp [bytesOf]

theorem bytesOf_sgrEvs (cell : CharCell) :
    bytesOf (sgrEvs cell) = (if cell.sgr.isEmpty then [] else csi cell.sgr 109) ++ tcSeqs cell.sgrTc.length cell.sgrTc := by
  unfold sgrEvs
  rw [bytesOf_append, bytesOf_tcEvs]
  by_cases h : cell.sgr.isEmpty = true <;> simp [h, bytesOf]

/-- facts about the RLE scan with font pages: the counted cells repeat the first one's character and change no rendition -/
theorem rleCountF_spec (first : CharCell) (f : Nat) : ∀ (rest : List CharCell) (fs : List Nat),
    rleCountF first f rest fs ≤ rest.length ∧
    ∀ j, j < rleCountF first f rest fs → ∃ cc, rest[j]? = some cc ∧ cc.ch = first.ch ∧ cc.sgr = [] ∧ cc.sgrTc = [] := by
  intro rest
  induction rest with
  | nil => intro fs; exact ⟨Nat.le_refl _, fun j h => by simp [rleCountF] at h⟩
  | cons c rest ih =>
    intro fs
    unfold rleCountF
    by_cases hc : c.ch ≠ first.ch ∨ (!c.sgr.isEmpty) = true ∨ (!c.sgrTc.isEmpty) = true ∨ fs.headD 0 ≠ f
    · rw [if_pos hc]
      exact ⟨Nat.zero_le _, fun j h => by omega⟩
    · rw [if_neg hc]
      obtain ⟨i1, i2⟩ := ih fs.tail
      refine ⟨by simp; omega, ?_⟩
      intro j hj
      cases j with
      | zero =>
        refine ⟨c, rfl, ?_, ?_, ?_⟩
        · cases hq : decide (c.ch = first.ch) with
          | true => simpa using hq
          | false => exact absurd (Or.inl (by simpa using hq)) hc
        · cases hq : c.sgr with
          | nil => rfl
          | cons a b => exact absurd (Or.inr (Or.inl (by simp [hq]))) hc
        · cases hq : c.sgrTc with
          | nil => rfl
          | cons a b => exact absurd (Or.inr (Or.inr (Or.inl (by simp [hq])))) hc
      | succ j' =>
        obtain ⟨cc, e, h1, h2, h3⟩ := i2 j' (by omega)
        exact ⟨cc, by simpa using e, h1, h2, h3⟩

/-- the font switch to an ANSI font page: the parser returns to its ground state, the core is untouched -/
theorem font_read (p : AnsiP) (c : Core) (n : Nat) (hs : c.stuck = false) (hg : p.st = .ground) (hn : n < ansiFonts) :
    ansiRun p c (fontSeq n) = ({ p with st := .ground }, c) := by
  have hn' : n < 42 := hn
  have e : fontSeq n = [27, 91] ++ params [0, n] ++ [32, 68] := by
    rw [fontSeq_eq]; simp [params, digits]
  rw [e, List.append_assoc, ansiRun_append]
  have e1 : ansiRun p c [27, 91] = ({ p with st := .csi [] true }, c) := by
    simp [ansiRun, ansiStep, hs, hg]
  rw [e1]
  simp only []
  rw [ansiRun_append, csi_params c hs [0, n] { p with st := .csi [] true } [] true (by simp)
    (by intro k hk; simp at hk; rcases hk with h | h <;> omega) (Or.inr ⟨rfl, rfl⟩)]
  simp only [List.nil_append]
  have hf : ¬ (ansiFonts ≤ n) := by omega
  simp [ansiRun, ansiStep, hs, isDigit, hn]

theorem font_readX (ic : Bool) (R : RdSt) (w : Nat) (p : AnsiP) (core : Core) (n : Nat) (h : CInvX ic R w p core) (hn : n < ansiFonts) :
    ∃ p1, ansiRun p core (fontSeq n) = (p1, core) ∧ CInvX ic R w p1 core := by
  obtain ⟨⟨ns, ag, ice, hat, sw, th⟩, hp⟩ := h
  exact ⟨{ p with st := .ground }, font_read p core n ns ag hn, ⟨ns, rfl, ice, hat, sw, th⟩, hp⟩

/-- the optional font switch in front of a cell -/
theorem fontEv_readX (ic : Bool) (R : RdSt) (w : Nat) (p : AnsiP) (core : Core) (cur f : Nat) (h : CInvX ic R w p core) (hf : f < ansiFonts) :
    ∃ p1, ansiRun p core (bytesOf (if cur ≠ f then [Ev.ext (fontSeq f), Ev.push] else [])) = (p1, core) ∧ CInvX ic R w p1 core := by
  by_cases hc : cur ≠ f
  · rw [if_pos hc]
    show ∃ p1, ansiRun p core (fontSeq f ++ []) = _ ∧ _
    rw [List.append_nil]
    exact font_readX ic R w p core f h hf
  · rw [if_neg hc]
    exact ⟨p, rfl, h⟩

theorem genLine_itemsF (o : AnsiOpts) (ic : Bool) (pal : List Rgb) (w : Nat) (hw : w ≤ 999) : ∀ (fuel : Nat) (cells : List Cell)
    (line : List CharCell) (fonts : List Nat) (R Re : RdSt) (x cur : Nat) (p : AnsiP) (core : Core),
    line.length ≤ fuel → LineOkX o ic pal R cells line Re → x + cells.length ≤ w → CInvX ic R w p core → (cells ≠ [] → core.scr.cx = x) →
    (∀ f ∈ fonts, f < ansiFonts) →
    ∃ items : List (Option Cell), items.length = cells.length ∧ ItemsOkX pal Re.2 x w cells items ∧
      (ansiRun p core (bytesOf (genLineEv o w fuel x cur line fonts).1)).2.scr = core.scr.runItems items ∧
      CInvX ic Re w (ansiRun p core (bytesOf (genLineEv o w fuel x cur line fonts).1)).1
        (ansiRun p core (bytesOf (genLineEv o w fuel x cur line fonts).1)).2 := by
  intro fuel
  induction fuel with
  | zero =>
    intro cells line fonts R Re x cur p core hl hok _ hinv _ _
    have : line = [] := by cases line <;> simp_all
    subst this
    cases hok
    exact ⟨[], rfl, fun j hj => by simp at hj, rfl, hinv⟩
  | succ f ih =>
    intro cells line fonts R Re x cur p core hl hok hfit hinv hcx hfonts
    cases hok with
    | nil => exact ⟨[], rfl, fun j hj => by simp at hj, rfl, hinv⟩
    | cons _ R' _ c cc cs rest h1 h2 h3 h4 h5 h6 h7 h8 h9 h10 =>
      have hx : core.scr.cx = x := hcx (by simp)
      have hlr : rest.length = cs.length := h10.length_eq
      have hf0 : fonts.headD 0 < ansiFonts := by
        cases fonts with
        | nil => show 0 < ansiFonts; decide
        | cons a b => exact hfonts a List.mem_cons_self
      have hftail : ∀ g ∈ fonts.tail, g < ansiFonts := fun g hg => hfonts g (List.mem_of_mem_tail hg)
      have hfdrop : ∀ n, ∀ g ∈ fonts.tail.drop n, g < ansiFonts := fun n g hg => hftail g (List.mem_of_mem_drop hg)
      generalize hrl0 : rleCountF cc (fonts.headD 0) rest fonts.tail = rl
      obtain ⟨r1, r2⟩ := rleCountF_spec cc (fonts.headD 0) rest fonts.tail
      rw [hrl0] at r1 r2
      obtain ⟨g1, g2⟩ := h10.grow
      -- the font switch, then the SGR prefix
      obtain ⟨p0, e0, inv0⟩ := fontEv_readX ic R w p core cur (fonts.headD 0) hinv hf0
      obtain ⟨p1, core1, e1, s1, inv1⟩ := pre_readX ic R w p0 core cc.sgr cc.sgrTc inv0 h2 h3
      rw [h4] at inv1
      have epre : ansiRun p core (bytesOf ((if cur ≠ fonts.headD 0 then [Ev.ext (fontSeq (fonts.headD 0)), Ev.push] else []) ++ sgrEvs cc)) = (p1, core1) := by
        rw [bytesOf_append, ansiRun_append, e0, bytesOf_sgrEvs]
        exact e1
      -- the run the RLE scan found, on the picture's cells
      obtain ⟨run1, run2⟩ := lineOk_runX o ic pal cc.ch rl R' Re cs rest h10 r1 r2
      have hrunfacts : ∀ j, j < rl + 1 →
          ((c :: cs).getD j defaultCell).ch = c.ch ∧ Disp pal R'.2 ((c :: cs).getD j defaultCell) ⟨c.ch, prAttr ic R'.1⟩ ∧
          EncDom o ((c :: cs).getD j defaultCell).ch := by
        intro j hj
        cases j with
        | zero => exact ⟨rfl, h7, h9⟩
        | succ j' =>
          have := run1 j' (by omega)
          rw [h1] at this
          simpa using this
      have hfit' : x + (rl + 1) + (cs.drop rl).length ≤ w := by
        simp at hfit ⊢; omega
      have hdropc : (c :: cs).drop (rl + 1) = cs.drop rl := rfl
      have hrl : rl < 1000 := by simp at hfit; omega
      have hxe : x + rl + 1 = x + (rl + 1) := by omega
      have hsw : core.scr.w = w := hinv.base.sw
      -- the cell alone: prefix, character, then the rest of the line
      have plain : ∀ (tailEv : List Ev),
          tailEv = (genLineEv o w f (x + 1) (fonts.headD 0) rest fonts.tail).1 →
          ∃ items : List (Option Cell), items.length = (c :: cs).length ∧ ItemsOkX pal Re.2 x w (c :: cs) items ∧
          (ansiRun p core (bytesOf (((if cur ≠ fonts.headD 0 then [Ev.ext (fontSeq (fonts.headD 0)), Ev.push] else []) ++ sgrEvs cc) ++
            [Ev.ext (cellChar o cc.ch), Ev.push] ++ tailEv))).2.scr = core.scr.runItems items ∧
          CInvX ic Re w
            (ansiRun p core (bytesOf (((if cur ≠ fonts.headD 0 then [Ev.ext (fontSeq (fonts.headD 0)), Ev.push] else []) ++ sgrEvs cc) ++
              [Ev.ext (cellChar o cc.ch), Ev.push] ++ tailEv))).1
            (ansiRun p core (bytesOf (((if cur ≠ fonts.headD 0 then [Ev.ext (fontSeq (fonts.headD 0)), Ev.push] else []) ++ sgrEvs cc) ++
              [Ev.ext (cellChar o cc.ch), Ev.push] ++ tailEv))).2 := by
        intro tailEv htail
        rw [List.append_assoc, bytesOf_append, ansiRun_append, epre]
        simp only []
        rw [bytesOf_append]
        show ∃ items : List (Option Cell), _ ∧ _ ∧ (ansiRun p1 core1 ((cellChar o cc.ch ++ []) ++ bytesOf tailEv)).2.scr = _ ∧
          CInvX ic Re w (ansiRun p1 core1 ((cellChar o cc.ch ++ []) ++ bytesOf tailEv)).1 (ansiRun p1 core1 ((cellChar o cc.ch ++ []) ++ bytesOf tailEv)).2
        rw [List.append_nil]
        obtain ⟨p2, core2, e2, s2, _, inv2⟩ := char_readX o ic R' w p1 core1 cc.ch inv1 (by rw [h1]; exact h9)
        rw [ansiRun_append, e2]
        simp only []
        have hscr2 : core2.scr = core.scr.put ⟨c.ch, prAttr ic R'.1⟩ := by rw [s2, s1, h1]
        have hpos : cs ≠ [] → core2.scr.cx = x + 1 := by
          intro hne
          have hlt : 0 < cs.length := List.length_pos_iff.2 hne
          rw [hscr2, (put_pos_in core.scr _ (by rw [hx, hsw]; simp at hfit; omega)).1, hx]
        obtain ⟨items', q1, q2, q3, q4⟩ := ih cs rest fonts.tail R' Re (x + 1) (fonts.headD 0) p2 core2 (by simp at hl; omega) h10
          (by simp at hfit; omega) inv2 hpos hftail
        rw [htail]
        refine ⟨some ⟨c.ch, prAttr ic R'.1⟩ :: items', by simp [q1], ?_, ?_, q4⟩
        · intro j hj
          cases j with
          | zero => left; exact ⟨_, rfl, h7.mono g1⟩
          | succ j' =>
            have := q2 j' (by simp at hj; omega)
            rcases this with ⟨l, a, b⟩ | ⟨a, b, d⟩
            · left; exact ⟨l, by simpa using a, by simpa using b⟩
            · right; exact ⟨by simpa using a, by simpa using b, by omega⟩
        · rw [q3, hscr2, runItems_cons]; rfl
      unfold genLineEv
      simp only [hrl0]
      by_cases hcomp : o.compress = true
      · rw [if_pos hcomp]
        by_cases hcuf : o.useCursorForward = true ∧ cc.ch = 32 ∧ cc.cur.bgIdx = 0 ∧ cc.cur.bg = (0, 0, 0) ∧ (!cc.cur.isBlink) = true ∧
            x + rl + 1 < w ∧ (csi [rl + 1] 67).length ≤ rl
        · -- cursor forward over the whole run
          rw [if_pos hcuf]
          simp only []
          obtain ⟨_, k1, _, k2, k3, k4, _⟩ := hcuf
          have hnb : cc.cur.isBlink = false := by
            cases hb : cc.cur.isBlink with
            | false => rfl
            | true => simp [hb] at k3
          obtain ⟨sk1, sk2⟩ := h8 k2 hnb
          rw [List.append_assoc, bytesOf_append, ansiRun_append, epre]
          simp only []
          rw [bytesOf_append]
          show ∃ items : List (Option Cell), _ ∧ _ ∧ (ansiRun p1 core1 ((csi [rl + 1] 67 ++ []) ++ _)).2.scr = _ ∧
            CInvX ic Re w (ansiRun p1 core1 ((csi [rl + 1] 67 ++ []) ++ _)).1 (ansiRun p1 core1 ((csi [rl + 1] 67 ++ []) ++ _)).2
          rw [List.append_nil]
          obtain ⟨p2, core2, e2, s2, inv2⟩ := cuf_readX ic R' w p1 core1 (rl + 1) inv1 (by omega)
            (by rw [s1, hx]; omega) (by omega)
          rw [ansiRun_append, e2]
          simp only []
          have hsk : SkipsInside core.scr (List.replicate (rl + 1) none) := by
            intro i hi _; simp at hi; rw [hx, hsw]; omega
          have P := items_spec (List.replicate (rl + 1) none) core.scr (by simp; rw [hx, hsw]; omega)
            (by rw [hsw]; omega) hsk
          have hpos : cs.drop rl ≠ [] → core2.scr.cx = x + (rl + 1) := by
            intro _
            rw [s2, s1]
            have := (P.pos_in (by simp; rw [hx, hsw]; omega)).1
            simpa [hx] using this
          obtain ⟨items', q1, q2, q3, q4⟩ := ih (cs.drop rl) (rest.drop rl) (fonts.tail.drop rl) R' Re
            (x + (rl + 1)) (fonts.headD 0) p2 core2 (by simp at hl ⊢; omega) run2 hfit' inv2 hpos (hfdrop rl)
          rw [hxe]
          refine ⟨List.replicate (rl + 1) none ++ items', ?_, ?_, ?_, q4⟩
          · simp [q1]; omega
          · apply itemsOk_runX pal Re.2 x w (rl + 1) c cs none items' (by omega)
            · intro j hj
              right
              obtain ⟨f1, f2, _⟩ := hrunfacts j hj
              have hbg : getRgb pal ((c :: cs).getD j defaultCell).attr.bg = black := by
                rw [← f2.bg, h7.bg]; exact sk1
              have hbl : ((c :: cs).getD j defaultCell).attr.fl.blink = false := by
                rw [← f2.blink, h7.blink]; exact sk2
              exact ⟨rfl, ⟨by rw [f1, ← h1]; exact k1, hbg, hbl⟩, by omega⟩
            · rw [hdropc]; exact q2
          · rw [q3, s2, s1, runItems_append]
        · rw [if_neg hcuf]
          by_cases hrep : o.useRepeatSequences = true ∧ (csi [rl] 98).length ≤ rl
          · -- the cell, then CSI n b for the rest of the run
            rw [if_pos hrep]
            simp only []
            have hr4 : 4 ≤ rl := by
              have : 4 ≤ (csi [rl] 98).length := by
                unfold csi params digits
                by_cases a : rl < 10 <;> by_cases b : rl < 100 <;> simp [a, b, hrl]
              omega
            rw [List.append_assoc, bytesOf_append, ansiRun_append, epre]
            simp only []
            rw [bytesOf_append]
            show ∃ items : List (Option Cell), _ ∧ _ ∧ (ansiRun p1 core1 ((cellChar o cc.ch ++ (csi [rl] 98 ++ [])) ++ _)).2.scr = _ ∧
              CInvX ic Re w (ansiRun p1 core1 ((cellChar o cc.ch ++ (csi [rl] 98 ++ [])) ++ _)).1
                (ansiRun p1 core1 ((cellChar o cc.ch ++ (csi [rl] 98 ++ [])) ++ _)).2
            rw [List.append_nil, List.append_assoc]
            obtain ⟨p2, core2, e2, s2, l2, inv2⟩ := char_readX o ic R' w p1 core1 cc.ch inv1 (by rw [h1]; exact h9)
            rw [ansiRun_append, e2]
            simp only []
            obtain ⟨p3, core3, e3, s3, inv3⟩ := rep_readX ic R' w p2 core2 rl inv2 (by omega) (by omega)
            rw [ansiRun_append, e3]
            simp only []
            have hscr3 : core3.scr = core.scr.runItems (List.replicate (rl + 1) (some ⟨c.ch, prAttr ic R'.1⟩)) := by
              rw [s3, s2, s1, l2, h1, List.replicate_succ, runItems_cons]; rfl
            have hsk : SkipsInside core.scr (List.replicate (rl + 1) (some ⟨c.ch, prAttr ic R'.1⟩)) := by
              intro i hi hn
              rw [List.getD_eq_getElem?_getD, List.getElem?_replicate, if_pos (by simpa using hi)] at hn
              cases hn
            have P := items_spec (List.replicate (rl + 1) (some ⟨c.ch, prAttr ic R'.1⟩)) core.scr (by simp; rw [hx, hsw]; omega)
              (by rw [hsw]; omega) hsk
            have hpos : cs.drop rl ≠ [] → core3.scr.cx = x + (rl + 1) := by
              intro hne
              rw [hscr3]
              have hlt : 0 < (cs.drop rl).length := List.length_pos_iff.2 hne
              have := (P.pos_in (by simp; rw [hx, hsw]; omega)).1
              simpa [hx] using this
            obtain ⟨items', q1, q2, q3, q4⟩ := ih (cs.drop rl) (rest.drop rl) (fonts.tail.drop rl) R' Re
              (x + (rl + 1)) (fonts.headD 0) p3 core3 (by simp at hl ⊢; omega) run2 hfit' inv3 hpos (hfdrop rl)
            rw [hxe]
            refine ⟨List.replicate (rl + 1) (some ⟨c.ch, prAttr ic R'.1⟩) ++ items', ?_, ?_, ?_, q4⟩
            · simp [q1]; omega
            · apply itemsOk_runX pal Re.2 x w (rl + 1) c cs (some ⟨c.ch, prAttr ic R'.1⟩) items' (by omega)
              · intro j hj
                left
                obtain ⟨_, f2, _⟩ := hrunfacts j hj
                exact ⟨_, rfl, f2.mono g1⟩
              · rw [hdropc]; exact q2
            · rw [q3, hscr3, runItems_append]
          · -- the cell alone
            rw [if_neg hrep]
            exact plain _ rfl
      · rw [if_neg hcomp]
        exact plain _ rfl

end IcyVerif.ArtIO
