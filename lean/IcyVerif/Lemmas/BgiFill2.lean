import IcyVerif.Lemmas.BgiFill
set_option linter.unusedSimpArgs false
set_option linter.unusedVariables false
/-! Lemmas about the flood-fill model, part 2: the span lists.  `unc` counts the pixels of the 640 x 350 window that
no collected span covers; every span the scan loop collects covers a pixel that was not covered before, so `unc`
strictly decreases — the termination measure of `flood_fill`. -/
namespace IcyVerif.Bgi

theorem sum_map_set {α : Type} (f : α → Nat) : ∀ (l : List α) (i : Nat) (v : α) (h : i < l.length),
    ((l.set i v).map f).sum + f l[i] = (l.map f).sum + f v := by
  intro l
  induction l with
  | nil => intro i v h; simp at h
  | cons a t ih =>
    intro i v h
    cases i with
    | zero => simp [List.set]; omega
    | succ j =>
      simp only [List.set, List.map_cons, List.sum_cons, List.getElem_cons_succ]
      have := ih j v (by simpa using h)
      omega

theorem filter_length_lt {α : Type} (p q : α → Bool) (hpq : ∀ a, q a = true → p a = true) :
    ∀ (l : List α), (l.filter q).length ≤ (l.filter p).length ∧
      ∀ a0, a0 ∈ l → p a0 = true → q a0 = false → (l.filter q).length + 1 ≤ (l.filter p).length := by
  intro l
  induction l with
  | nil => exact ⟨Nat.le_refl _, fun a0 h => by simp at h⟩
  | cons a t ih =>
    obtain ⟨ih1, ih2⟩ := ih
    constructor
    · simp only [List.filter_cons]
      by_cases hq : q a = true
      · simp only [hq, hpq a hq, if_true, List.length_cons]; omega
      · by_cases hp : p a = true
        · simp only [hq, hp, if_true, List.length_cons]; simp; omega
        · simp only [hq, hp]; simpa using ih1
    · intro a0 hmem hp0 hq0
      simp only [List.filter_cons]
      rcases List.mem_cons.mp hmem with h | h
      · subst h
        simp only [hp0, hq0, if_true, List.length_cons]
        simp
        omega
      · have := ih2 a0 h hp0 hq0
        by_cases hq : q a = true
        · simp only [hq, hpq a hq, if_true, List.length_cons]; omega
        · by_cases hp : p a = true
          · simp only [hq, hp, if_true, List.length_cons]; simp; omega
          · simp only [hq, hp]; simpa using this

/-- is column `x` inside one of the spans of the row? -/
def coversX (row : List LI) (x : Int) : Bool := row.any fun li => decide (li.x1 ≤ x) && decide (x ≤ li.x2)

/-- pixels of one screen row that no span of the row covers -/
def uncRow (row : List LI) : Nat := ((List.range 640).filter fun (x : Nat) => !coversX row (x : Int)).length

/-- pixels of the window no collected span covers -/
def unc (fl : Array (List LI)) : Nat := (fl.toList.map uncRow).sum

/-- number of collected spans -/
def spans (fl : Array (List LI)) : Nat := (fl.toList.map List.length).sum

theorem uncRow_le (row : List LI) : uncRow row ≤ 640 := by
  unfold uncRow
  have := List.length_filter_le (fun (x : Nat) => !coversX row (x : Int)) (List.range 640)
  rw [List.length_range] at this
  exact this

theorem uncRow_cons (li : LI) (row : List LI) : uncRow (li :: row) ≤ uncRow row ∧
    ∀ cx : Int, 0 ≤ cx → cx ≤ 639 → coversX row cx = false → li.x1 ≤ cx → cx ≤ li.x2 → uncRow (li :: row) + 1 ≤ uncRow row := by
  have hpq : ∀ a : Nat, (!coversX (li :: row) (a : Int)) = true → (!coversX row (a : Int)) = true := by
    intro a h
    simp only [coversX, List.any_cons, Bool.not_eq_true', Bool.or_eq_false_iff] at h ⊢
    exact h.2
  obtain ⟨h1, h2⟩ := filter_length_lt (fun x : Nat => !coversX row (x : Int)) (fun x : Nat => !coversX (li :: row) (x : Int)) hpq (List.range 640)
  refine ⟨h1, ?_⟩
  intro cx h0 h639 hnc hl hr
  have hmem : cx.toNat ∈ List.range 640 := List.mem_range.mpr (by omega)
  have hcast : ((cx.toNat : Nat) : Int) = cx := by omega
  apply h2 cx.toNat hmem
  · simp only [hcast, hnc]; rfl
  · simp only [hcast, coversX, List.any_cons]
    simp [hl, hr]

/-- the span of row `r`: row number and column range -/
def LIok (li : LI) (r : Nat) : Prop := li.y = r ∧ 0 ≤ li.x1 ∧ li.x1 ≤ 639 ∧ -1 ≤ li.x2 ∧ li.x2 ≤ 639

/-- `fill_lines`: one list per screen row, the spans of a list lie in its row -/
def FlOk (fl : Array (List LI)) : Prop :=
  fl.size = 350 ∧ ∀ (r : Nat) (row : List LI), fl[r]? = some row → ∀ li, li ∈ row → LIok li r

theorem covers_eq_coversX {row : List LI} {r : Nat} (h : ∀ li, li ∈ row → LIok li r) (x : Int) :
    covers row x (r : Int) = coversX row x := by
  unfold covers coversX
  induction row with
  | nil => rfl
  | cons a t ih =>
    simp only [List.any_cons]
    have ha := (h a (List.mem_cons_self)).1
    rw [ih (fun li hli => h li (List.mem_cons_of_mem _ hli))]
    have : ((r : Int) == a.y) = true := by simp [ha]
    simp [this]

theorem rowAt_ok {fl : Array (List LI)} (hf : FlOk fl) {y : Int} (h0 : 0 ≤ y) (h1 : y < 350) :
    ∃ row, rowAt fl y = some row ∧ fl[y.toNat]? = some row := by
  unfold rowAt
  simp only [h0, if_true]
  have : y.toNat < fl.size := by rw [hf.1]; omega
  exact ⟨fl[y.toNat], by simp [this], by simp [this]⟩

/-- `already_drawn` on a screen row: no index panic, and the answer is "some span of the row covers the column" -/
theorem alreadyDrawn_ok {fl : Array (List LI)} (hf : FlOk fl) (x : Int) {y : Int} (h0 : 0 ≤ y) (h1 : y < 350) :
    ∃ row, fl[y.toNat]? = some row ∧ alreadyDrawn fl x y = some (coversX row x) := by
  obtain ⟨row, hr, hg⟩ := rowAt_ok hf h0 h1
  refine ⟨row, hg, ?_⟩
  unfold alreadyDrawn
  rw [hr]
  have hy : ((y.toNat : Nat) : Int) = y := by omega
  have := covers_eq_coversX (hf.2 y.toNat row hg) x
  rw [hy] at this
  simp [this]

theorem unc_le {fl : Array (List LI)} (hf : fl.size = 350) : unc fl ≤ 224000 := by
  unfold unc
  have : ∀ l : List (List LI), (l.map uncRow).sum ≤ l.length * 640 := by
    intro l
    induction l with
    | nil => simp
    | cons a t ih =>
      simp only [List.map_cons, List.sum_cons, List.length_cons]
      have := uncRow_le a
      rw [Nat.add_mul]
      omega
  have h := this fl.toList
  simp only [Array.length_toList, hf] at h
  omega

/-- pushing a span of row `li.y` on its list: no index panic, the lists stay well formed, one span more, `unc` does
not grow — and shrinks when the span covers a column of the window that was not covered -/
theorem pushLine_ok {fl : Array (List LI)} (hf : FlOk fl) (li : LI) (r : Nat) (hr : r < 350) (hli : LIok li r) :
    ∃ fl', pushLine fl li = some fl' ∧ FlOk fl' ∧ spans fl' = spans fl + 1 ∧ unc fl' ≤ unc fl ∧
      (∀ cx : Int, 0 ≤ cx → cx ≤ 639 → alreadyDrawn fl cx li.y = some false → li.x1 ≤ cx → cx ≤ li.x2 → unc fl' + 1 ≤ unc fl) := by
  have hy : li.y = (r : Int) := hli.1
  have hy0 : 0 ≤ li.y := by omega
  have hy1 : li.y < 350 := by omega
  have hyn : li.y.toNat = r := by omega
  obtain ⟨row, hrow, hg⟩ := rowAt_ok hf hy0 hy1
  rw [hyn] at hg
  have hlt : r < fl.size := by rw [hf.1]; exact hr
  have hlt' : r < fl.toList.length := by simpa using hlt
  have hget : fl.toList[r] = row := by
    have := hg
    rw [Array.getElem?_eq_getElem hlt] at this
    simpa using this
  refine ⟨fl.setIfInBounds r (li :: row), ?_, ?_, ?_, ?_, ?_⟩
  · unfold pushLine; rw [hrow, hyn]; rfl
  · refine ⟨by rw [Array.size_setIfInBounds]; exact hf.1, ?_⟩
    intro r' row' hr' l hl
    rw [Array.getElem?_setIfInBounds] at hr'
    by_cases he : r = r'
    · subst he
      simp only [if_true, hlt] at hr'
      cases hr'
      rcases List.mem_cons.mp hl with h | h
      · subst h; exact hli
      · exact hf.2 r row hg l h
    · simp only [he, if_false] at hr'
      exact hf.2 r' row' hr' l hl
  · unfold spans
    rw [Array.toList_setIfInBounds]
    have := sum_map_set List.length fl.toList r (li :: row) hlt'
    rw [hget] at this
    simp only [List.length_cons] at this
    omega
  · unfold unc
    rw [Array.toList_setIfInBounds]
    have := sum_map_set uncRow fl.toList r (li :: row) hlt'
    rw [hget] at this
    have := (uncRow_cons li row).1
    omega
  · intro cx h0 h639 had hl hr2
    obtain ⟨row2, hg2, had2⟩ := alreadyDrawn_ok hf cx hy0 hy1
    rw [hyn, hg] at hg2
    cases hg2
    rw [had2] at had
    have hnc : coversX row cx = false := by simpa using had
    unfold unc
    rw [Array.toList_setIfInBounds]
    have := sum_map_set uncRow fl.toList r (li :: row) hlt'
    rw [hget] at this
    have := (uncRow_cons li row).2 cx h0 h639 hnc hl hr2
    omega

theorem flOk_replicate : FlOk (Array.replicate 350 ([] : List LI)) := by
  refine ⟨by simp, ?_⟩
  intro r row h li hli
  rw [Array.getElem?_replicate] at h
  split at h
  · cases h; simp at hli
  · cases h

theorem spans_replicate : spans (Array.replicate 350 ([] : List LI)) = 0 := by
  unfold spans
  rw [Array.toList_replicate]
  have : ∀ n : Nat, ((List.replicate n ([] : List LI)).map List.length).sum = 0 := by
    intro n
    induction n with
    | zero => rfl
    | succ k ih => rw [List.replicate_succ, List.map_cons, List.sum_cons, ih]; rfl
  exact this 350

end IcyVerif.Bgi
