import IcyVerif.Lemmas.FontDcs
import IcyVerif.Lemmas.FontRaw
import IcyVerif.Lemmas.Base64
set_option linter.unusedSimpArgs false
set_option linter.unusedVariables false
/-! # C17: one complete `encode_as_ansi` stream through `Model/FontDcs.lean` (helpers of `Props/C17Dcs.lean`)
`fontAt`/`setFont` laws, the payload of `encode_as_ansi` is ESC-free and starts with `CTerm:Font:`, `load_custom_font` on it,
and `stream_effect`: what one complete sequence behind ESC-free text does to a parser in the Default state. -/
namespace IcyVerif.FontDcs
open IcyVerif.Font

theorem fontAt_setFont_self (fs : List (Nat × BitFont)) (slot : Nat) (f : BitFont) : fontAt (setFont fs slot f) slot = some f := by
  simp [setFont, fontAt]

theorem fontAt_filter_ne (fs : List (Nat × BitFont)) (slot k : Nat) (hk : k ≠ slot) :
    fontAt (fs.filter (fun e => e.1 ≠ slot)) k = fontAt fs k := by
  induction fs with
  | nil => rfl
  | cons e fs ih =>
    obtain ⟨a, g⟩ := e
    by_cases ha : a = slot
    · subst ha
      have : fontAt ((a, g) :: fs) k = fontAt fs k := by simp [fontAt, Ne.symm hk]
      rw [this, ← ih]
      simp [List.filter]
    · have hf : ((a, g) :: fs).filter (fun e => e.1 ≠ slot) = (a, g) :: fs.filter (fun e => e.1 ≠ slot) := by
        simp [List.filter, ha]
      rw [hf]
      show (if a = k then some g else fontAt (fs.filter (fun e => e.1 ≠ slot)) k) = (if a = k then some g else fontAt fs k)
      rw [ih]

theorem fontAt_setFont_other (fs : List (Nat × BitFont)) (slot k : Nat) (f : BitFont) (hk : k ≠ slot) :
    fontAt (setFont fs slot f) k = fontAt fs k := by
  unfold setFont
  have : fontAt ((slot, f) :: fs.filter (fun e => e.1 ≠ slot)) k = fontAt (fs.filter (fun e => e.1 ≠ slot)) k := by
    simp [fontAt, Ne.symm hk]
  rw [this, fontAt_filter_ne fs slot k hk]

/-- the payload `encode_as_ansi` writes contains no ESC -/
theorem payload_noesc (slot : Nat) (d : List Nat) :
    ESC ∉ prefixCTerm ++ IcyVerif.B64.stdCodec.fmt slot ++ [58] ++ IcyVerif.B64.stdCodec.b64e d := by
  have henc : ∀ (n : Nat) (x : List Nat), x.length ≤ n → ESC ∉ IcyVerif.B64.encode x := by
    have hch : ∀ k, IcyVerif.B64.encChar k ≠ ESC := by
      intro k e
      have h1 := IcyVerif.B64.decChar_encChar k
      rw [e, decChar_esc] at h1
      cases h1
    intro n
    induction n with
    | zero =>
      intro x hx
      have : x = [] := by cases x with | nil => rfl | cons _ _ => simp at hx
      subst this; simp [IcyVerif.B64.encode]
    | succ n ih =>
      intro x hx
      match x, hx with
      | [], _ => simp [IcyVerif.B64.encode]
      | [a], _ =>
        simp only [IcyVerif.B64.encode, List.mem_cons, List.not_mem_nil, or_false, not_or]
        exact ⟨fun e => hch _ e.symm, fun e => hch _ e.symm, by decide, by decide⟩
      | [a, b], _ =>
        simp only [IcyVerif.B64.encode, List.mem_cons, List.not_mem_nil, or_false, not_or]
        exact ⟨fun e => hch _ e.symm, fun e => hch _ e.symm, fun e => hch _ e.symm, by decide⟩
      | a :: b :: c :: rest, hx =>
        simp only [IcyVerif.B64.encode, List.mem_cons, not_or]
        exact ⟨fun e => hch _ e.symm, fun e => hch _ e.symm, fun e => hch _ e.symm, fun e => hch _ e.symm,
          ih rest (by simp at hx; omega)⟩
  simp only [List.mem_append, List.mem_cons, List.not_mem_nil, or_false, not_or]
  refine ⟨⟨⟨prefix_noesc, ?_⟩, by decide⟩, henc d.length d (Nat.le_refl _)⟩
  intro h
  have := IcyVerif.B64.fmtNat_digits slot ESC h
  simp [ESC] at this

/-- `load_custom_font` on the payload `encode_as_ansi` writes: the slot number comes back, the font is whatever
    `from_bytes` makes of the raw glyph bytes -/
theorem load_payload (slot : Nat) (hs : slot < 18446744073709551616) (d : List Nat) (hb : ∀ x ∈ d, x < 256) :
    loadCustomFont IcyVerif.B64.stdCodec (prefixCTerm ++ IcyVerif.B64.stdCodec.fmt slot ++ [58] ++ IcyVerif.B64.stdCodec.b64e d) =
      (match fromBytes d with | .ok g => .ok (slot, g) | .err => .err | .panic => .panic) := by
  unfold loadCustomFont
  have hdrop : (prefixCTerm ++ IcyVerif.B64.stdCodec.fmt slot ++ [58] ++ IcyVerif.B64.stdCodec.b64e d).drop
      prefixCTerm.length = IcyVerif.B64.stdCodec.fmt slot ++ 58 :: IcyVerif.B64.stdCodec.b64e d := by
    simp [List.append_assoc]
  rw [hdrop, splitColon_append _ _ (IcyVerif.B64.std_nocolon slot)]
  simp only [IcyVerif.B64.std_num slot hs, IcyVerif.B64.std_b64 _ hb]
  cases fromBytes d <;> rfl

theorem payload_prefix (slot : Nat) (d : List Nat) :
    prefixCTerm.isPrefixOf (prefixCTerm ++ IcyVerif.B64.stdCodec.fmt slot ++ [58] ++ IcyVerif.B64.stdCodec.b64e d) = true := by
  rw [List.isPrefixOf_iff_prefix]
  exact ⟨IcyVerif.B64.stdCodec.fmt slot ++ [58] ++ IcyVerif.B64.stdCodec.b64e d, by simp [List.append_assoc]⟩

/-- what one complete font sequence does to a parser in the Default state (any text in front of it) -/
theorem stream_effect (f : BitFont) (h : Nat) (wf : WfFont f h) (hb : ∀ x ∈ flat f.glyphs, x < 256)
    (slot : Nat) (hs : slot < 18446744073709551616) (p : P) (hp : p.st = .dflt) (t : List Nat) (ht : ESC ∉ t) :
    ∃ s, encodeStream f slot = .ok s ∧
      (run p (t ++ s)).st = .dflt ∧ (run p (t ++ s)).macros = p.macros ∧
      (run p (t ++ s)).fonts = (match fromBytes (flat f.glyphs) with | .ok g => setFont p.fonts slot g | _ => p.fonts) := by
  refine ⟨ESC :: 80 :: ((prefixCTerm ++ IcyVerif.B64.stdCodec.fmt slot ++ [58] ++ IcyVerif.B64.stdCodec.b64e (flat f.glyphs)) ++ [ESC, 92]), ?_, ?_⟩
  · unfold encodeStream encodeAnsi; rw [toU8_eq f h wf]
  · rw [run_append, run_text p t hp ht, dcs_frame p _ hp (payload_noesc slot _)]
    have hstr : ({ p with st := .dflt, strRev := (prefixCTerm ++ IcyVerif.B64.stdCodec.fmt slot ++ [58] ++
        IcyVerif.B64.stdCodec.b64e (flat f.glyphs)).reverse, nums := [] } : P).str =
        prefixCTerm ++ IcyVerif.B64.stdCodec.fmt slot ++ [58] ++ IcyVerif.B64.stdCodec.b64e (flat f.glyphs) := by
      simp [P.str]
    refine ⟨by rw [executeDcs_st], ?_, ?_⟩
    · rw [executeDcs_macros_font _ (by rw [hstr]; exact payload_prefix slot _)]
    · rw [executeDcs_fonts, hstr, payload_prefix]
      simp only [if_true]
      rw [load_payload slot hs _ hb]
      cases fromBytes (flat f.glyphs) <;> rfl

end IcyVerif.FontDcs
