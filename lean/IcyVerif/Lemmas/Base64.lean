import IcyVerif.Model.Base64
import IcyVerif.Lemmas.FontRt
set_option linter.unusedSimpArgs false
set_option linter.unusedVariables false
/-! # base64 and decimal codec laws for the executable codec of `Model/Base64.lean` (C17, DCS font loading)

`decode_encode`: base64 decoding of the encoding gives the bytes back, for EVERY byte string (all three padding shapes).
`parse_fmt`: `parse::<usize>(format!("{n}")) = n` for every `n < 2^64`; a formatted number contains no colon.
Hence `stdCodec` satisfies what the DCS round trip needs (`std_b64`, `std_num`, `std_nocolon`). -/
namespace IcyVerif.B64

set_option maxRecDepth 100000 in
theorem decChar_alpha : ∀ k, k < 64 → decChar (alphabet.getD k 65) = some k := by decide
set_option maxRecDepth 100000 in
theorem alpha_ne_pad : ∀ k, k < 64 → alphabet.getD k 65 ≠ 61 := by decide

theorem decChar_encChar (n : Nat) : decChar (encChar n) = some (n % 64) := decChar_alpha _ (Nat.mod_lt _ (by decide))
theorem encChar_ne_pad (n : Nat) : encChar n ≠ 61 := alpha_ne_pad _ (Nat.mod_lt _ (by decide))

theorem decode_quad (a b c d : Nat) (rest : List Nat) (hc : c ≠ 61) (hd : d ≠ 61) :
    decode (a :: b :: c :: d :: rest) =
      match decChar a, decChar b, decChar c, decChar d with
      | some x, some y, some z, some w =>
        (decode rest).map fun r => (x * 4 + y / 16) :: (y % 16 * 16 + z / 4) :: (z % 4 * 64 + w) :: r
      | _, _, _, _ => none := by
  rw [decode.eq_def]
  split
  · simp_all
  · simp_all
  · simp_all
  · rename_i heq
    simp only [List.cons.injEq] at heq
    obtain ⟨rfl, rfl, rfl, rfl, rfl⟩ := heq
    rfl
  · rename_i hx
    exact (hx a b c d rest rfl).elim

theorem decode_pad2 (a b : Nat) : decode [a, b, 61, 61] =
    match decChar a, decChar b with
    | some x, some y => if y % 16 = 0 then some [x * 4 + y / 16] else none
    | _, _ => none := by
  rw [decode.eq_def]
  split
  · rename_i heq; cases heq
  · rename_i heq
    simp only [List.cons.injEq, and_true] at heq
    obtain ⟨rfl, rfl⟩ := heq
    rfl
  · rename_i hx heq
    simp only [List.cons.injEq, and_true] at heq
    exact (hx heq.2.2.symm).elim
  · rename_i hx _ heq
    simp only [List.cons.injEq] at heq
    obtain ⟨rfl, rfl, rfl, rfl, rfl⟩ := heq
    exact (hx rfl rfl rfl).elim
  · rename_i hx _ _
    exact (hx a b rfl).elim

theorem decode_pad1 (a b c : Nat) (hc : c ≠ 61) : decode [a, b, c, 61] =
    match decChar a, decChar b, decChar c with
    | some x, some y, some z => if z % 4 = 0 then some [x * 4 + y / 16, y % 16 * 16 + z / 4] else none
    | _, _, _ => none := by
  rw [decode.eq_def]
  split
  · rename_i heq; cases heq
  · rename_i heq
    simp only [List.cons.injEq, and_true] at heq
    exact absurd heq.2.2 hc
  · rename_i heq
    simp only [List.cons.injEq, and_true] at heq
    obtain ⟨rfl, rfl, rfl⟩ := heq
    rfl
  · rename_i hx heq
    simp only [List.cons.injEq] at heq
    obtain ⟨rfl, rfl, rfl, rfl, rfl⟩ := heq
    exact (hx rfl rfl).elim
  · rename_i hx _
    exact (hx a b c rfl).elim

/-- base64: decoding the encoding gives the bytes back, for every byte string -/
theorem decode_encode : ∀ (n : Nat) (x : List Nat), x.length ≤ n → (∀ b ∈ x, b < 256) → decode (encode x) = some x := by
  intro n
  induction n using Nat.strongRecOn with
  | _ n ih =>
    intro x hl hb
    match x, hl, hb with
    | [], _, _ => simp [encode, decode]
    | [a], _, hb =>
      have ha := hb a (by simp)
      simp only [encode]
      rw [decode_pad2, decChar_encChar, decChar_encChar]
      have e1 : a * 65536 / 262144 % 64 = a / 4 := by omega
      have e2 : a * 65536 / 4096 % 64 = a % 4 * 16 := by omega
      simp only [e1, e2]
      have : a % 4 * 16 % 16 = 0 := by omega
      simp only [this, if_true]
      congr 2
      omega
    | [a, b], _, hb =>
      have ha := hb a (by simp)
      have hbb := hb b (by simp)
      simp only [encode]
      rw [decode_pad1 _ _ _ (encChar_ne_pad _), decChar_encChar, decChar_encChar, decChar_encChar]
      have e1 : (a * 65536 + b * 256) / 262144 % 64 = a / 4 := by omega
      have e2 : (a * 65536 + b * 256) / 4096 % 64 = a % 4 * 16 + b / 16 := by omega
      have e3 : (a * 65536 + b * 256) / 64 % 64 = b % 16 * 4 := by omega
      simp only [e1, e2, e3]
      have : b % 16 * 4 % 4 = 0 := by omega
      simp only [this, if_true]
      congr 2
      · omega
      · congr 1; omega
    | a :: b :: c :: rest, hl, hb =>
      have ha := hb a (by simp)
      have hbb := hb b (by simp)
      have hc := hb c (by simp)
      simp only [encode]
      rw [decode_quad _ _ _ _ _ (encChar_ne_pad _) (encChar_ne_pad _), decChar_encChar, decChar_encChar, decChar_encChar,
        decChar_encChar]
      simp only
      rw [ih (n - 3) (by simp at hl; omega) rest (by simp at hl; omega) (fun y hy => hb y (by simp [hy]))]
      simp only [Option.map_some]
      have e1 : (a * 65536 + b * 256 + c) / 262144 % 64 = a / 4 := by omega
      have e2 : (a * 65536 + b * 256 + c) / 4096 % 64 = a % 4 * 16 + b / 16 := by omega
      have e3 : (a * 65536 + b * 256 + c) / 64 % 64 = b % 16 * 4 + c / 64 := by omega
      have e4 : (a * 65536 + b * 256 + c) % 64 = c % 64 := by omega
      simp only [e1, e2, e3, e4]
      congr 2
      · omega
      · congr 1
        · omega
        · congr 1; omega

theorem decode_encode' (x : List Nat) (hb : ∀ b ∈ x, b < 256) : decode (encode x) = some x :=
  decode_encode x.length x (Nat.le_refl _) hb

/-! ## decimal -/

theorem digitsRev_spec : ∀ (fuel n : Nat), n < fuel →
    digitsRev fuel n ≠ [] ∧ (∀ c ∈ digitsRev fuel n, 48 ≤ c ∧ c ≤ 57) ∧
    (digitsRev fuel n).foldr (fun c acc => acc * 10 + (c - 48)) 0 = n := by
  intro fuel
  induction fuel with
  | zero => intro n h; omega
  | succ fuel ih =>
    intro n h
    unfold digitsRev
    by_cases h0 : n / 10 = 0
    · simp only [h0, if_true]
      refine ⟨by simp, ?_, ?_⟩
      · intro c hc; simp at hc; omega
      · simp; omega
    · simp only [h0, if_false]
      obtain ⟨_, h2, h3⟩ := ih (n / 10) (by omega)
      refine ⟨by simp, ?_, ?_⟩
      · intro c hc
        simp only [List.mem_cons] at hc
        rcases hc with rfl | hc
        · omega
        · exact h2 c hc
      · simp only [List.foldr_cons, h3]; omega

theorem fmtNat_digits (n : Nat) : ∀ c ∈ fmtNat n, 48 ≤ c ∧ c ≤ 57 := by
  intro c hc
  unfold fmtNat at hc
  exact (digitsRev_spec (n + 1) n (by omega)).2.1 c (by simpa using hc)

theorem fmtNat_nocolon (n : Nat) : 58 ∉ fmtNat n := by
  intro h; have := fmtNat_digits n 58 h; omega

theorem parse_fmt (n : Nat) (hn : n < 18446744073709551616) : parseUsize (fmtNat n) = some n := by
  obtain ⟨hne, hd, hv⟩ := digitsRev_spec (n + 1) n (by omega)
  have hne' : fmtNat n ≠ [] := by unfold fmtNat; simpa using hne
  have hval : (fmtNat n).foldl (fun acc c => acc * 10 + (c - 48)) 0 = n := by
    unfold fmtNat; rw [List.foldl_reverse]; exact hv
  have hall : (fmtNat n).all (fun c => decide (48 ≤ c) && decide (c ≤ 57)) = true := by
    apply List.all_eq_true.mpr
    intro c hc
    have := fmtNat_digits n c hc
    simp [this.1, this.2]
  unfold parseUsize
  cases hf : fmtNat n with
  | nil => exact absurd hf hne'
  | cons c r =>
    have hc : c ≠ 43 := by
      have := fmtNat_digits n c (by rw [hf]; simp); omega
    rw [hf] at hall hval
    have he : (c :: r).isEmpty = false := rfl
    have key : ∀ ds : List Nat, ds = c :: r →
        (if ds.isEmpty = true then none
         else if (ds.all fun c => decide (48 ≤ c) && decide (c ≤ 57)) = true then
           (if List.foldl (fun acc c => acc * 10 + (c - 48)) 0 ds < 18446744073709551616 then
             some (List.foldl (fun acc c => acc * 10 + (c - 48)) 0 ds) else none)
         else none) = some n := by
      intro ds hds
      subst hds
      simp only [he, Bool.false_eq_true, if_false, hall, if_true, hval, hn]
    apply key
    split
    · rename_i heq; simp only [List.cons.injEq] at heq; exact (hc heq.1).elim
    · rfl

theorem std_b64 (x : List Nat) (hb : ∀ b ∈ x, b < 256) : stdCodec.b64d (stdCodec.b64e x) = some x := decode_encode' x hb
theorem std_num (n : Nat) (hn : n < 18446744073709551616) : stdCodec.parse (stdCodec.fmt n) = some n := parse_fmt n hn
theorem std_nocolon (n : Nat) : 58 ∉ stdCodec.fmt n := fmtNat_nocolon n

end IcyVerif.B64
