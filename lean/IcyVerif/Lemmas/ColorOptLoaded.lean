import IcyVerif.Lemmas.ColorOptFont
import IcyVerif.Model.Font
set_option linter.unusedSimpArgs false
set_option linter.unusedVariables false
/-! Lemmas for C12, fourth part: fonts that come out of the font LOADERS (`BitFont::from_bytes`: PSF1, PSF2, raw;
`from_basic`/`create_8`: the fonts embedded in XBin / ADF / IDF files), through C17's model of `src/fonts.rs`
(`Model/Font.lean`, tied to the real loaders by C17's correspondence run).  Every glyph such a font holds has exactly
`height` data bytes — the `rows_len` clause of `FontOk` — and PSF1 / raw / embedded fonts are 8 columns wide. -/
namespace IcyVerif.ColorOpt
open IcyVerif.Font IcyVerif.Uni

/-- a loaded `BitFont` as the colour optimiser and the renderer see it -/
def ofLoaded (b : BitFont) : Font := ⟨b.w.toNat, b.h.toNat, b.get⟩

theorem splitExact_length : ∀ (n : Nat) (l g rest : List Nat), splitExact n l = some (g, rest) → g.length = n
  | 0, l, g, rest, h => by
    simp only [splitExact, Option.some.injEq, Prod.mk.injEq] at h
    rw [← h.1]; rfl
  | n+1, [], g, rest, h => by simp [splitExact] at h
  | n+1, x :: l, g, rest, h => by
    simp only [splitExact, Option.map_eq_some_iff] at h
    obtain ⟨⟨g', r'⟩, hs, he⟩ := h
    simp only [Prod.mk.injEq] at he
    rw [← he.1, List.length_cons, splitExact_length n l g' r' hs]

theorem glyphLoop_rows (h : Nat) : ∀ (fuel ch : Nat) (data : List Nat) (r : Glyph),
    some r ∈ glyphLoop h fuel ch data → r.length = h
  | 0, _, _, r, hm => by simp [glyphLoop] at hm
  | fuel+1, ch, data, r, hm => by
    unfold glyphLoop at hm
    cases hs : splitExact h data with
    | none => rw [hs] at hm; simp at hm
    | some p =>
      obtain ⟨g, rest⟩ := p
      rw [hs] at hm
      simp only [List.mem_cons] at hm
      rcases hm with hm | hm
      · by_cases hsc : isScalar ch = true
        · simp only [hsc, if_true, Option.some.injEq] at hm
          rw [hm]; exact splitExact_length h data g rest hs
        · have hf : isScalar ch = false := by cases hx : isScalar ch <;> simp_all
          simp [hf] at hm
      · exact glyphLoop_rows h fuel (ch + 1) rest r hm

theorem glyphsFromU8_rows (h : Nat) (data : List Nat) (r : Glyph) (hm : some r ∈ glyphsFromU8 h data) : r.length = h := by
  unfold glyphsFromU8 at hm
  by_cases h0 : h = 0
  · simp [h0] at hm
  · simp only [h0, if_false] at hm
    exact glyphLoop_rows h _ _ _ r hm

theorem get_mem {b : BitFont} {k : Nat} {r : Glyph} (h : b.get k = some r) : some r ∈ b.glyphs := by
  unfold BitFont.get at h
  cases hk : b.glyphs[k]? with
  | none => rw [hk] at h; cases h
  | some o =>
    rw [hk] at h
    simp only [Option.join_some] at h
    subst h
    exact List.mem_of_getElem? hk

/-- a font whose glyph table is `glyphs_from_u8_data(h, …)` and whose height is `h` -/
theorem rowsLen_of_glyphs {b : BitFont} {h : Nat} {data : List Nat} (hg : b.glyphs = glyphsFromU8 h data)
    (hh : b.h.toNat = h) : RowsLen (ofLoaded b) := by
  intro ch rows hget
  have hm := get_mem (b := b) hget
  rw [hg] at hm
  show rows.length = b.h.toNat
  rw [hh]
  exact glyphsFromU8_rows h data rows hm

theorem loadPsf1_shape {d : List Nat} {b : BitFont} (h : loadPsf1 d = .ok b) :
    b.w = 8 ∧ ∃ hh data, b.glyphs = glyphsFromU8 hh data ∧ b.h.toNat = hh := by
  unfold loadPsf1 at h
  split at h
  · cases h; exact ⟨rfl, _, _, rfl, by simp⟩
  · cases h

theorem loadPlain_shape {d : List Nat} {b : BitFont} (h : loadPlain d = .ok b) :
    b.w = 8 ∧ ∃ hh data, b.glyphs = glyphsFromU8 hh data ∧ b.h.toNat = hh := by
  unfold loadPlain at h
  split at h
  · cases h
  · cases h
    refine ⟨rfl, _, _, rfl, ?_⟩
    show ((d.length : Int) / 256).toNat = d.length / 256
    omega

theorem asI32_of_lt {n : Nat} (h : n < 2147483648) : asI32 n = (n : Int) := by
  unfold asI32
  have : n % 4294967296 = n := Nat.mod_eq_of_lt (by omega)
  simp only [this]
  simp [h]

theorem asI32_le (n : Nat) : asI32 n ≤ 2147483647 := by
  unfold asI32
  simp only
  split
  · omega
  · have := Nat.mod_lt n (show 4294967296 > 0 by omega); omega

theorem loadPsf2_shape {d : List Nat} {b : BitFont} (h : loadPsf2 d = .ok b) :
    ∃ hh data, b.glyphs = glyphsFromU8 hh data ∧ b.h.toNat = hh := by
  unfold loadPsf2 at h
  split at h
  · cases h
  · split at h
    · rename_i version hs len cs height width _ _ _ _ _ _
      split at h
      · cases h
      · simp only at h
        split at h
        · cases h
        · rename_i hcond
          cases h
          refine ⟨height, _, rfl, ?_⟩
          show (asI32 height).toNat = height
          -- charsize = height * ceil(width / 8) is a positive i32, so height < 2^31
          have hc : ¬ (asI32 cs ≤ 0) := fun hle => hcond (Or.inr (Or.inl hle))
          have he : asI32 cs = ((height * ((width + 7) / 8) : Nat) : Int) := by
            by_cases hq : asI32 cs = ((height * ((width + 7) / 8) : Nat) : Int)
            · exact hq
            · exact absurd (Or.inr (Or.inr (Or.inr hq))) hcond
          have hle := asI32_le cs
          have hpos : 0 < height * ((width + 7) / 8) := by omega
          have hk : 1 ≤ (width + 7) / 8 := by
            rcases Nat.eq_zero_or_pos ((width + 7) / 8) with h0 | h0
            · rw [h0] at hpos; omega
            · exact h0
          have hlt : height < 2147483648 := by
            have : height * 1 ≤ height * ((width + 7) / 8) := Nat.mul_le_mul_left _ hk
            omega
          rw [asI32_of_lt hlt]; simp
    · cases h

/-- `BitFont::from_bytes` (PSF1, PSF2, raw): every glyph of the loaded font has `height` data bytes -/
theorem fromBytes_rowsLen {d : List Nat} {b : BitFont} (h : fromBytes d = .ok b) : RowsLen (ofLoaded b) := by
  unfold fromBytes at h
  split at h
  · split at h
    · split at h
      · cases h
      · obtain ⟨_, hh, data, hg, he⟩ := loadPsf1_shape h; exact rowsLen_of_glyphs hg he
    · split at h
      · obtain ⟨hh, data, hg, he⟩ := loadPsf2_shape h; exact rowsLen_of_glyphs hg he
      · obtain ⟨_, hh, data, hg, he⟩ := loadPlain_shape h; exact rowsLen_of_glyphs hg he
  · cases h

/-- a font loaded from a PSF1 or a raw file is 8 columns wide -/
theorem fromBytes_width8 {d : List Nat} {b : BitFont} (h : fromBytes d = .ok b)
    (hnot2 : ∀ a0 a1 a2 a3 rest, d = a0 :: a1 :: a2 :: a3 :: rest → (a0 = 0x36 ∧ a1 = 0x04) ∨ le32 a0 a1 a2 a3 ≠ psf2Magic) :
    (ofLoaded b).w = 8 := by
  unfold fromBytes at h
  split at h
  · rename_i a0 a1 a2 a3 rest
    split at h
    · split at h
      · cases h
      · obtain ⟨hw, _⟩ := loadPsf1_shape h; show b.w.toNat = 8; rw [hw]; rfl
    · rename_i hn1
      split at h
      · rename_i h2
        rcases hnot2 a0 a1 a2 a3 rest rfl with h1 | h3
        · exact absurd h1 hn1
        · exact absurd h2 h3
      · obtain ⟨hw, _⟩ := loadPlain_shape h; show b.w.toNat = 8; rw [hw]; rfl
  · cases h

/-- `from_basic` / `create_8` with `height` rows: the fonts embedded in XBin, ADF and IDF files -/
theorem fromBasic_rowsLen (w h : Nat) (data : List Nat) : RowsLen (ofLoaded (fromBasic w h data)) :=
  rowsLen_of_glyphs (b := fromBasic w h data) rfl (by simp [fromBasic])

end IcyVerif.ColorOpt
