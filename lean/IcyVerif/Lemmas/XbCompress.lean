import IcyVerif.Model.XbCompress
set_option linter.unusedSimpArgs false
set_option linter.unusedVariables false
/-!
# The generic run-builder lemma for XBin compression (C06)

`run_builder_sound`: for ANY end-of-run decision function `dec` that fires whenever it is forced to
(`Forced`: the run already holds 64 cells; Char run and the character differs; Attr run and the stored
attribute byte differs; Full run and the stored pair differs), the bytes `compressRowWith enc dec row` are the
serialisation of a list of well-formed runs (`Run.ok`: 1..=64 cells, uniform as the run type demands) whose
cells are exactly `row.map (encCell enc)`.

`parseRow_sers` / `parseImage_rows`: the specification decoder reads such a serialisation back run by run,
stops exactly at the row end and leaves whatever follows untouched.

`realEndRun_forced`: the heuristic of `compress_backtrack` (with its `count_length` look-ahead, whatever it
computes) is such a decision function, for every attribute encoding `enc`.
-/
namespace IcyVerif.XbCompress
open IcyVerif.Gen

/-! ## runs and their byte layout -/

/-- the data bytes that follow the repeat-counter byte -/
def Run.payload (r : Run) : List Nat :=
  match r.mode with
  | .off => r.cells.flatMap fun c => [c.1, c.2]
  | .chr => r.head.1 :: r.cells.map (·.2)
  | .att => r.head.2 :: r.cells.map (·.1)
  | .full => [r.head.1, r.head.2]

def Run.ser (r : Run) : List Nat := (r.mode.code ||| r.rest.length) :: r.payload

/-- at most 64 cells, and the cells are uniform in the way the run type claims -/
def Run.ok (r : Run) : Prop :=
  r.rest.length < 64 ∧
  match r.mode with
  | .off => True
  | .chr => ∀ c ∈ r.rest, c.1 = r.head.1
  | .att => ∀ c ∈ r.rest, c.2 = r.head.2
  | .full => ∀ c ∈ r.rest, c = r.head

theorem Run.len_pos (r : Run) : 1 ≤ r.len := by unfold Run.len; omega
theorem Run.ok_len (r : Run) (h : r.ok) : r.len ≤ 64 := by unfold Run.len; have := h.1; omega
theorem Run.cells_length (r : Run) : r.cells.length = r.len := by simp [Run.cells, Run.len]

/-! ## the repeat-counter byte -/

theorem hdr_off : ∀ n, n < 64 → (Xb.compOff ||| n) / 64 = 0 ∧ (Xb.compOff ||| n) % 64 = n := by decide
theorem hdr_chr : ∀ n, n < 64 → (Xb.compChar ||| n) / 64 = 1 ∧ (Xb.compChar ||| n) % 64 = n := by decide
theorem hdr_att : ∀ n, n < 64 → (Xb.compAttr ||| n) / 64 = 2 ∧ (Xb.compAttr ||| n) % 64 = n := by decide
theorem hdr_full : ∀ n, n < 64 → (Xb.compFull ||| n) / 64 = 3 ∧ (Xb.compFull ||| n) % 64 = n := by decide

/-! ## the specification decoder reads a serialised run back -/

theorem takeN_append (xs tl : List Nat) : takeN xs.length (xs ++ tl) = some (xs, tl) := by
  induction xs with
  | nil => simp [takeN]
  | cons x xs ih => simp [takeN, ih]

theorem takePairs_flat (cs : List (Nat × Nat)) (tl : List Nat) :
    takePairs cs.length (cs.flatMap (fun c => [c.1, c.2]) ++ tl) = some (cs, tl) := by
  induction cs with
  | nil => simp [takePairs]
  | cons c cs ih => simp [takePairs, ih]

theorem map_fst_const (h : Nat) (l : List (Nat × Nat)) (hl : ∀ c ∈ l, c.1 = h) :
    (l.map (·.2)).map (fun a' => (h, a')) = l := by
  induction l with
  | nil => rfl
  | cons c l ih =>
    have h1 := hl c (by simp)
    have h2 := ih (fun c hc => hl c (by simp [hc]))
    simp only [List.map_cons, h2]
    rw [← h1]

theorem map_snd_const (h : Nat) (l : List (Nat × Nat)) (hl : ∀ c ∈ l, c.2 = h) :
    (l.map (·.1)).map (fun c' => (c', h)) = l := by
  induction l with
  | nil => rfl
  | cons c l ih =>
    have h1 := hl c (by simp)
    have h2 := ih (fun c hc => hl c (by simp [hc]))
    simp only [List.map_cons, h2]
    rw [← h1]

theorem replicate_of_all (h : Nat × Nat) (l : List (Nat × Nat)) (hl : ∀ c ∈ l, c = h) :
    List.replicate l.length h = l := by
  induction l with
  | nil => rfl
  | cons c l ih =>
    have h1 := hl c (by simp)
    have h2 := ih (fun c hc => hl c (by simp [hc]))
    simp only [List.length_cons, List.replicate_succ, h2, h1]

theorem parseRun_ser (r : Run) (hr : r.ok) (tl : List Nat) : parseRun (r.ser ++ tl) = some (r, tl) := by
  obtain ⟨m, hd, rest⟩ := r
  obtain ⟨hlen, hm⟩ := hr
  simp only at hlen hm
  cases m with
  | off =>
    obtain ⟨h1, h2⟩ := hdr_off rest.length hlen
    have := takePairs_flat (hd :: rest) tl
    simp only [List.length_cons] at this
    simp only [Run.ser, Run.payload, Run.cells, Mode.code, List.cons_append, parseRun, h1, h2, if_true, this]
  | chr =>
    obtain ⟨h1, h2⟩ := hdr_chr rest.length hlen
    have := takeN_append ((hd :: rest).map (·.2)) tl
    simp only [List.length_map, List.length_cons] at this
    have hmap := map_fst_const hd.1 rest hm
    simp only [Run.ser, Run.payload, Run.cells, Mode.code, List.cons_append, parseRun, h1, h2, this]
    simp [hmap]
  | att =>
    obtain ⟨h1, h2⟩ := hdr_att rest.length hlen
    have := takeN_append ((hd :: rest).map (·.1)) tl
    simp only [List.length_map, List.length_cons] at this
    have hmap := map_snd_const hd.2 rest hm
    simp only [Run.ser, Run.payload, Run.cells, Mode.code, List.cons_append, parseRun, h1, h2, this]
    simp [hmap]
  | full =>
    obtain ⟨h1, h2⟩ := hdr_full rest.length hlen
    have hrep := replicate_of_all hd rest hm
    simp only [Run.ser, Run.payload, Mode.code, List.cons_append, parseRun, h1, h2]
    simp [hrep]

theorem expand_cons (r : Run) (rs : List Run) : expand (r :: rs) = r.cells ++ expand rs := by
  simp [expand]

theorem expand_append (a b : List Run) : expand (a ++ b) = expand a ++ expand b := by
  simp [expand]

/-- a row that is the serialisation of well-formed runs is read back exactly, whatever follows it -/
theorem parseRow_sers (runs : List Run) (hok : ∀ r ∈ runs, r.ok) (tl : List Nat) :
    ∀ fuel, (expand runs).length ≤ fuel →
      parseRow fuel (expand runs).length (runs.flatMap Run.ser ++ tl) = some (runs, tl) := by
  induction runs with
  | nil => intro fuel _; cases fuel <;> simp [expand, parseRow]
  | cons r rs ih =>
    intro fuel hf
    have hr := hok r (by simp)
    have hrs : ∀ r ∈ rs, r.ok := fun r' h' => hok r' (by simp [h'])
    have hlen : (expand (r :: rs)).length = r.len + (expand rs).length := by
      simp [expand_cons, Run.cells_length]
    have hpos := r.len_pos
    rw [hlen] at hf ⊢
    obtain ⟨f, rfl⟩ : ∃ f, fuel = f + 1 := ⟨fuel - 1, by omega⟩
    obtain ⟨n, hn⟩ : ∃ n, r.len + (expand rs).length = n + 1 := ⟨r.len + (expand rs).length - 1, by omega⟩
    have hp : parseRun (r.ser ++ (rs.flatMap Run.ser ++ tl)) = some (r, rs.flatMap Run.ser ++ tl) :=
      parseRun_ser r hr _
    have hsub : n + 1 - r.len = (expand rs).length := by omega
    have hle : r.len ≤ n + 1 := by omega
    have ih' := ih hrs f (by omega)
    rw [hn]
    simp only [List.flatMap_cons, List.append_assoc, parseRow, hp, hle, if_true, hsub, ih']

/-- whole image: every row is read back, the data ends with the last row, the tail is left alone -/
theorem parseImage_rows (w : Nat) (rows : List (List Run)) (hok : ∀ rs ∈ rows, ∀ r ∈ rs, r.ok)
    (hw : ∀ rs ∈ rows, (expand rs).length = w) (tl : List Nat) :
    parseImage w rows.length (rows.flatMap (fun rs => rs.flatMap Run.ser) ++ tl) = some (rows, tl) := by
  induction rows with
  | nil => simp [parseImage]
  | cons rs rows ih =>
    have h1 := hw rs (by simp)
    have hrow := parseRow_sers rs (hok rs (by simp)) (rows.flatMap (fun rs => rs.flatMap Run.ser) ++ tl) w (by omega)
    rw [h1] at hrow
    have ih' := ih (fun a ha => hok a (by simp [ha])) (fun a ha => hw a (by simp [ha]))
    simp only [List.length_cons, List.flatMap_cons, List.append_assoc, parseImage, hrow, ih']

/-! ## the generic lemma about the writer's row loop -/

/-- the decision function fires whenever the open run cannot take the current cell -/
def Forced (enc : Attr → Nat) (dec : Decision) : Prop :=
  ∀ (mode : Mode) (runCh : Cell) (count : Nat) (row : List Cell) (x : Nat), x < row.length → 0 < count →
    (64 ≤ count ∨
     (mode = .chr ∧ (getChar row x).ch ≠ runCh.ch) ∨
     (mode = .att ∧ enc (getChar row x).attr ≠ enc runCh.attr) ∨
     (mode = .full ∧ encCell enc (getChar row x) ≠ encCell enc runCh)) →
    dec mode runCh count row x = true

/-- loop invariant before column `x`: the closed part of the output is a list of well-formed runs, the open run
    (if any) is well-formed and `run_buf` is its payload, and together they cover exactly the first `x` cells -/
def Good (enc : Attr → Nat) (row : List Cell) (x : Nat) (s : St) : Prop :=
  ∃ (runs : List Run) (rs : List (Nat × Nat)),
    s.out = runs.flatMap Run.ser ∧ (∀ r ∈ runs, r.ok) ∧
    ((s.count = 0 ∧ expand runs = (row.take x).map (encCell enc)) ∨
     (s.count = rs.length + 1 ∧
      Run.ok ⟨s.mode, encCell enc s.runCh, rs⟩ ∧
      s.buf = Run.payload ⟨s.mode, encCell enc s.runCh, rs⟩ ∧
      expand runs ++ (encCell enc s.runCh :: rs) = (row.take x).map (encCell enc)))

theorem take_succ_map (enc : Attr → Nat) (row : List Cell) (x : Nat) (hx : x < row.length) :
    (row.take (x + 1)).map (encCell enc) = (row.take x).map (encCell enc) ++ [encCell enc (getChar row x)] := by
  have : getChar row x = row[x] := by
    unfold getChar
    simp [List.getD, List.getElem?_eq_getElem hx]
  rw [this, List.take_add_one, List.getElem?_eq_getElem hx]
  simp only [Option.toList_some, List.map_append, List.map_cons, List.map_nil]

/-- a freshly opened run -/
theorem fresh_payload (m : Mode) (c : Nat × Nat) :
    Run.payload ⟨m, c, []⟩ = if m = .att then [c.2, c.1] else [c.1, c.2] := by
  cases m <;> simp [Run.payload, Run.cells]

theorem fresh_ok (m : Mode) (c : Nat × Nat) : Run.ok ⟨m, c, []⟩ := by
  unfold Run.ok; cases m <;> simp

/-- opening a new run at column `x` from a state whose output covers the first `x` cells -/
theorem good_open (enc : Attr → Nat) (row : List Cell) (x : Nat) (hx : x < row.length)
    (runs : List Run) (hok : ∀ r ∈ runs, r.ok) (hcells : expand runs = (row.take x).map (encCell enc))
    (s : St) (hout : s.out = runs.flatMap Run.ser) (m : Mode) :
    Good enc row (x + 1)
      { s with mode := m,
               buf := if m = .att then [enc (getChar row x).attr, (getChar row x).ch]
                      else [(getChar row x).ch, enc (getChar row x).attr],
               runCh := getChar row x, count := 0 + 1 } := by
  refine ⟨runs, [], hout, hok, Or.inr ⟨by simp, fresh_ok _ _, ?_, ?_⟩⟩
  · simp only [fresh_payload, encCell]
  · rw [take_succ_map enc row x hx, hcells]

theorem payload_snoc (m : Mode) (h : Nat × Nat) (rs : List (Nat × Nat)) (c : Nat × Nat) :
    Run.payload ⟨m, h, rs ++ [c]⟩ =
      Run.payload ⟨m, h, rs⟩ ++ (match m with
        | .off => [c.1, c.2] | .chr => [c.2] | .att => [c.1] | .full => []) := by
  cases m <;> simp [Run.payload, Run.cells]

/-- the three ways one loop iteration can go -/
theorem step_first (enc : Attr → Nat) (dec : Decision) (row : List Cell) (s : St) (x : Nat) (hc : s.count = 0) :
    step enc dec row s x =
      { s with mode := pickMode row x (getChar row x) (if x + 1 < row.length then getChar row (x + 1) else Cell.dflt),
               buf := if pickMode row x (getChar row x) (if x + 1 < row.length then getChar row (x + 1) else Cell.dflt) = .att
                      then [enc (getChar row x).attr, (getChar row x).ch]
                      else [(getChar row x).ch, enc (getChar row x).attr],
               runCh := getChar row x, count := 0 + 1 } := by
  simp [step, hc]

theorem step_close (enc : Attr → Nat) (dec : Decision) (row : List Cell) (s : St) (x : Nat) (hpos : s.count > 0)
    (hdec : dec s.mode s.runCh s.count row x = true) :
    step enc dec row s x =
      { ({ s with out := s.flush, count := 0 } : St) with
               mode := pickMode row x (getChar row x) (if x + 1 < row.length then getChar row (x + 1) else Cell.dflt),
               buf := if pickMode row x (getChar row x) (if x + 1 < row.length then getChar row (x + 1) else Cell.dflt) = .att
                      then [enc (getChar row x).attr, (getChar row x).ch]
                      else [(getChar row x).ch, enc (getChar row x).attr],
               runCh := getChar row x, count := 0 + 1 } := by
  simp [step, hpos, hdec]

theorem step_join (enc : Attr → Nat) (dec : Decision) (row : List Cell) (s : St) (x : Nat) (hpos : s.count > 0)
    (hdec : dec s.mode s.runCh s.count row x = false) :
    step enc dec row s x =
      { s with buf := s.buf ++ (match s.mode with
                 | .off => [(getChar row x).ch, enc (getChar row x).attr]
                 | .chr => [enc (getChar row x).attr]
                 | .att => [(getChar row x).ch]
                 | .full => []),
               count := s.count + 1 } := by
  obtain ⟨out, buf, mode, count, runCh⟩ := s
  simp only at hpos hdec
  simp only [step, hpos, hdec, decide_true, Bool.and_false, Bool.false_eq_true, if_false, if_true]
  cases mode <;> simp

theorem step_good (enc : Attr → Nat) (dec : Decision) (hd : Forced enc dec) (row : List Cell) (x : Nat)
    (hx : x < row.length) (s : St) (hs : Good enc row x s) : Good enc row (x + 1) (step enc dec row s x) := by
  obtain ⟨runs, rs, hout, hok, hcase⟩ := hs
  rcases hcase with ⟨hc0, hcells⟩ | ⟨hcnt, hrok, hbuf, hcells⟩
  · -- no open run (only before the first cell)
    rw [step_first enc dec row s x hc0]
    exact good_open enc row x hx runs hok hcells s hout _
  · have hpos : s.count > 0 := by omega
    cases hdec : dec s.mode s.runCh s.count row x with
    | true =>
      -- the run is closed and a new one opened
      rw [step_close enc dec row s x hpos hdec]
      let r : Run := ⟨s.mode, encCell enc s.runCh, rs⟩
      have hflush : s.flush = (runs ++ [r]).flatMap Run.ser := by
        have : s.count - 1 = rs.length := by omega
        simp [St.flush, hout, Run.ser, hbuf, this, r]
      have hok' : ∀ r' ∈ runs ++ [r], r'.ok := by
        intro r' hr'
        rcases List.mem_append.mp hr' with h | h
        · exact hok r' h
        · simp at h; subst h; exact hrok
      have hcells' : expand (runs ++ [r]) = (row.take x).map (encCell enc) := by
        rw [expand_append, ← hcells]; simp [expand, Run.cells, r]
      exact good_open enc row x hx (runs ++ [r]) hok' hcells' { s with out := s.flush, count := 0 } hflush _
    | false =>
      -- the current cell joins the open run
      rw [step_join enc dec row s x hpos hdec]
      have hnf : ¬ (64 ≤ s.count ∨ (s.mode = .chr ∧ (getChar row x).ch ≠ s.runCh.ch) ∨
          (s.mode = .att ∧ enc (getChar row x).attr ≠ enc s.runCh.attr) ∨
          (s.mode = .full ∧ encCell enc (getChar row x) ≠ encCell enc s.runCh)) := by
        intro h
        have := hd s.mode s.runCh s.count row x hx hpos h
        rw [hdec] at this
        exact Bool.false_ne_true this
      have h64 : s.count < 64 := by
        apply Nat.lt_of_not_ge; intro h; exact hnf (Or.inl h)
      have hchr : s.mode = .chr → (getChar row x).ch = s.runCh.ch := by
        intro hm; apply Classical.byContradiction; intro h; exact hnf (Or.inr (Or.inl ⟨hm, h⟩))
      have hatt : s.mode = .att → enc (getChar row x).attr = enc s.runCh.attr := by
        intro hm; apply Classical.byContradiction; intro h; exact hnf (Or.inr (Or.inr (Or.inl ⟨hm, h⟩)))
      have hfull : s.mode = .full → encCell enc (getChar row x) = encCell enc s.runCh := by
        intro hm; apply Classical.byContradiction; intro h; exact hnf (Or.inr (Or.inr (Or.inr ⟨hm, h⟩)))
      have hrok' : Run.ok ⟨s.mode, encCell enc s.runCh, rs ++ [encCell enc (getChar row x)]⟩ := by
        obtain ⟨hl, hm⟩ := hrok
        refine ⟨by simp; omega, ?_⟩
        cases hmode : s.mode <;> simp only [hmode] at hm ⊢
        · intro c hc
          rcases List.mem_append.mp hc with h | h
          · exact hm c h
          · simp at h; subst h; simpa [encCell] using hchr hmode
        · intro c hc
          rcases List.mem_append.mp hc with h | h
          · exact hm c h
          · simp at h; subst h; simpa [encCell] using hatt hmode
        · intro c hc
          rcases List.mem_append.mp hc with h | h
          · exact hm c h
          · simp at h; subst h; exact hfull hmode
      have hcells' : expand runs ++ (encCell enc s.runCh :: (rs ++ [encCell enc (getChar row x)])) =
          (row.take (x + 1)).map (encCell enc) := by
        rw [take_succ_map enc row x hx, ← hcells]; simp
      have hpl := payload_snoc s.mode (encCell enc s.runCh) rs (encCell enc (getChar row x))
      refine ⟨runs, rs ++ [encCell enc (getChar row x)], hout, hok, Or.inr ⟨?_, hrok', ?_, hcells'⟩⟩
      · simp [hcnt]
      · show s.buf ++ _ = _
        rw [hpl, hbuf]
        cases s.mode <;> simp [encCell]

theorem init_good (enc : Attr → Nat) (row : List Cell) : Good enc row 0 St.init :=
  ⟨[], [], rfl, by simp, Or.inl ⟨rfl, by simp [expand]⟩⟩

theorem loop_good (enc : Attr → Nat) (dec : Decision) (hd : Forced enc dec) (row : List Cell) :
    ∀ n, n ≤ row.length → Good enc row n ((List.range n).foldl (step enc dec row) St.init) := by
  intro n
  induction n with
  | zero => intro _; simpa using init_good enc row
  | succ n ih =>
    intro hn
    rw [List.range_succ, List.foldl_append]
    exact step_good enc dec hd row n (by omega) _ (ih (by omega))

/-- **Generic run-builder lemma.**  Whatever the (forced-respecting) end-of-run heuristic does, the emitted row is
    a sequence of well-formed runs standing for exactly the row's cells. -/
theorem run_builder_sound (enc : Attr → Nat) (dec : Decision) (hd : Forced enc dec) (row : List Cell) :
    ∃ runs : List Run, compressRowWith enc dec row = runs.flatMap Run.ser ∧ (∀ r ∈ runs, r.ok) ∧
      expand runs = row.map (encCell enc) := by
  have hg := loop_good enc dec hd row row.length (Nat.le_refl _)
  unfold compressRowWith
  generalize (List.range row.length).foldl (step enc dec row) St.init = st at hg
  obtain ⟨runs, rs, hout, hok, hcase⟩ := hg
  simp only [List.take_length] at hcase
  rcases hcase with ⟨hc0, hcells⟩ | ⟨hcnt, hrok, hbuf, hcells⟩
  · exact ⟨runs, by simp [hc0, hout], hok, hcells⟩
  · refine ⟨runs ++ [⟨st.mode, encCell enc st.runCh, rs⟩], ?_, ?_, ?_⟩
    · have hpos : st.count > 0 := by omega
      have : st.count - 1 = rs.length := by omega
      simp [hpos, St.flush, hout, Run.ser, hbuf, this]
    · intro r' hr'
      rcases List.mem_append.mp hr' with h | h
      · exact hok r' h
      · simp at h; subst h; exact hrok
    · rw [expand_append, ← hcells]; simp [expand, Run.cells]

/-- … hence the specification decoder reads the row back: every run 1..=64 cells, the row ends exactly where the
    emitted bytes end (`tl`, whatever follows, is untouched), and the cells are the row's cells. -/
theorem run_builder_decodes (enc : Attr → Nat) (dec : Decision) (hd : Forced enc dec) (row : List Cell)
    (tl : List Nat) :
    ∃ runs : List Run,
      parseRow row.length row.length (compressRowWith enc dec row ++ tl) = some (runs, tl) ∧
      expand runs = row.map (encCell enc) ∧ (∀ r ∈ runs, 1 ≤ r.len ∧ r.len ≤ 64) := by
  obtain ⟨runs, hser, hok, hcells⟩ := run_builder_sound enc dec hd row
  have hlen : (expand runs).length = row.length := by rw [hcells]; simp
  have := parseRow_sers runs hok tl row.length (by omega)
  rw [hlen] at this
  exact ⟨runs, by rw [hser]; exact this, hcells, fun r hr => ⟨r.len_pos, r.ok_len (hok r hr)⟩⟩

/-! ## the real heuristic is forced-respecting -/

theorem Attr.eq_of_eqv (a b : Attr) (h : a.eqv b = true) (hp : a.page = b.page) : a = b := by
  obtain ⟨f1, b1, fl1, p1⟩ := a
  obtain ⟨f2, b2, fl2, p2⟩ := b
  simp [Attr.eqv] at h hp
  simp [h, hp]

theorem Cell.eq_of_eqv (a b : Cell) (h : a.eqv b = true) (hp : a.attr.page = b.attr.page) : a = b := by
  obtain ⟨c1, a1⟩ := a
  obtain ⟨c2, a2⟩ := b
  simp [Cell.eqv] at h hp
  have := Attr.eq_of_eqv a1 a2 h.2 hp
  simp [h.1, this]

theorem runLimit_eq : Xb.runLimit = 64 := by decide

/-- `compress_backtrack`'s decision ends the run whenever the cell cannot join it — for every attribute encoding,
    because its comparisons are on the cells themselves (attribute AND font page), not on the encoded byte. -/
theorem realEndRun_forced (enc : Attr → Nat) : Forced enc realEndRun := by
  intro mode runCh count row x hx hc h
  unfold realEndRun
  simp only [runLimit_eq]
  by_cases h64 : count ≥ 64
  · simp [h64]
  · have hc' : count > 0 := hc
    simp only [h64, if_false, hc', if_true]
    rcases h with h | ⟨hm, h⟩ | ⟨hm, h⟩ | ⟨hm, h⟩
    · exact absurd h h64
    · subst hm
      have : ((getChar row x).ch != runCh.ch) = true := by simpa using h
      simp [this]
    · subst hm
      by_cases he : (getChar row x).attr.eqv runCh.attr = true
      · by_cases hp : (getChar row x).attr.page = runCh.attr.page
        · exact absurd (congrArg enc (Attr.eq_of_eqv _ _ he hp)) h
        · have : ((getChar row x).attr.page != runCh.attr.page) = true := by simpa using hp
          simp [this]
      · simp [he]
    · subst hm
      by_cases he : (getChar row x).eqv runCh = true
      · by_cases hp : (getChar row x).attr.page = runCh.attr.page
        · exact absurd (congrArg (encCell enc) (Cell.eq_of_eqv _ _ he hp)) h
        · have : ((getChar row x).attr.page != runCh.attr.page) = true := by simpa using hp
          simp [this]
      · simp [he]

end IcyVerif.XbCompress
