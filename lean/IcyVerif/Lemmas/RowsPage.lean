import IcyVerif.Lemmas.RowsOther
set_option linter.unusedSimpArgs false
set_option linter.unusedVariables false
/-! # Viewdata / Mode 7: the page keeps its shape
On the fixed 40x24 page every row that exists has exactly 40 cells and there are at most 24 rows: the two emulations
write cells with `Layer::set_char` only (which allocates full-width rows), clear with `Layer::clear`, and Mode 7
scrolls with `Buffer::scroll_up` (again `set_char`).  Consequence: `fill_to_eol` changes no row length after its
first cell, so the content-dependent number of cells it visits does not matter for the row table. -/
namespace IcyVerif.Rows
open IcyVerif.Term

/-- shape of layer 0 of a 40x24 page -/
def PageTab (t : Tab) : Prop := t.lw = 40 ∧ t.lh = 24 ∧ t.rows.length ≤ 24 ∧ ∀ n ∈ t.rows, n = 40

theorem pageTab_clear (t : Tab) (h : PageTab t) : PageTab (layerClear t) :=
  ⟨h.1, h.2.1, by simp [layerClear], by simp [layerClear]⟩

theorem getElem_page (t : Tab) (h : PageTab t) (i : Nat) (hi : i < t.rows.length) : t.rows[i] = 40 :=
  h.2.2.2 _ (List.getElem_mem hi)

theorem lineSetChar_in (n : Nat) (x : Int) (h0 : 0 ≤ x) (h1 : x < n) : lineSetChar n x = .ok n := by
  unfold lineSetChar
  have hc : ¬ (x ≥ (n : Int)) := by omega
  have hx : ¬ (x < 0) := by omega
  simp only [hc, hx, if_false, or_self]

/-- `Layer::set_char` on a page: allocates rows of 40 cells up to row 23, never lengthens a row -/
theorem layerSetChar_page (t : Tab) (x y : Int) (h : PageTab t) : Ok (layerSetChar t x y) PageTab := by
  obtain ⟨hw, hh, hlen, hall⟩ := h
  unfold layerSetChar
  apply ok_ite
  · intro _; exact ⟨hw, hh, hlen, hall⟩
  · intro hg
    rw [hw, hh] at hg
    have hx : 0 ≤ x ∧ x < 40 := by omega
    have hy : 0 ≤ y ∧ y < 24 := by omega
    apply ok_andThen (P := fun rows => (y : Int) < rows.length ∧ rows.length ≤ 24 ∧ ∀ n ∈ rows, n = 40)
    · apply ok_ite
      · intro hl
        unfold lineCreate
        have : ¬ t.lw < 0 := by rw [hw]; omega
        simp only [this, if_false, andThen, vecResize]
        have : ¬ y + 1 < 0 := by omega
        simp only [this, if_false, ok_ok]
        split
        · rename_i h1; omega
        · refine ⟨?_, ?_, ?_⟩
          · rw [List.length_append, List.length_replicate]; omega
          · rw [List.length_append, List.length_replicate]; omega
          · intro n hn
            rw [List.mem_append] at hn
            cases hn with
            | inl h1 => exact hall n h1
            | inr h1 => rw [List.mem_replicate] at h1; rw [h1.2, hw]; rfl
      · intro hl; simp only [ok_ok]; exact ⟨by omega, hlen, hall⟩
    · intro rows ⟨hr1, hr2, hr3⟩
      unfold vecIndex
      have hy0 : ¬ y < 0 := by omega
      simp only [hy0, if_false]
      have hlt : y.toNat < rows.length := by omega
      rw [List.getElem?_eq_getElem hlt]
      simp only [andThen]
      have h40 : rows[y.toNat] = 40 := hr3 _ (List.getElem_mem hlt)
      rw [h40, lineSetChar_in 40 x hx.1 (by omega)]
      simp only [if_true, ok_ok]
      exact ⟨hw, hh, hr2, hr3⟩

/-- on a page, writing a cell of a row that exists (or outside the page) changes nothing -/
theorem layerSetChar_fix (t : Tab) (x y : Int) (h : PageTab t) (hrow : y < 0 ∨ 24 ≤ y ∨ y < t.rows.length) :
    layerSetChar t x y = .ok t := by
  obtain ⟨hw, hh, hlen, hall⟩ := h
  unfold layerSetChar
  by_cases hg : x < 0 ∨ y < 0 ∨ x ≥ t.lw ∨ y ≥ t.lh
  · rw [if_pos hg]
  · rw [if_neg hg]
    rw [hw, hh] at hg
    have hl : ¬ (y ≥ (t.rows.length : Int)) := by omega
    rw [if_neg hl]
    simp only [andThen]
    unfold vecIndex
    have hy0 : ¬ y < 0 := by omega
    simp only [hy0, if_false]
    have hlt : y.toNat < t.rows.length := by omega
    rw [List.getElem?_eq_getElem hlt]
    simp only []
    have h40 : t.rows[y.toNat] = 40 := hall _ (List.getElem_mem hlt)
    rw [h40, lineSetChar_in 40 x (by omega) (by omega)]
    simp only [if_true]

/-! ## the operations the two emulations use keep the page shape -/
theorem setRow_page (lo hi y : Int) (t : Tab) (h : PageTab t) :
    Ok (forRange lo hi (fun x t => layerSetChar t x y) t) PageTab :=
  forRange_ok _ _ _ PageTab t (fun x t _ ht => layerSetChar_page t x y ht) h

theorem fillToEol_page (s : Scr) (c : Car) (cnt : Nat) (t : Tab) (h : PageTab t) : Ok (fillToEol s c cnt t) PageTab := by
  unfold fillToEol
  apply ok_ite
  · intro _; exact h
  · intro _; exact setRow_page _ _ _ t h

theorem scrollUp_page (s : Scr) (t : Tab) (h : PageTab t) : Ok (scrollUp s t) PageTab := by
  unfold scrollUp
  apply forRange_ok _ _ _ PageTab t _ h
  intro x t _ ht
  apply ok_andThen (P := PageTab)
  · apply forRange_ok _ _ _ PageTab t _ ht
    intro y t _ ht
    exact ok_andThen (layerGetChar_ok t x (y + 1)) (fun _ _ => layerSetChar_page t x y ht)
  · intro t ht; exact layerSetChar_page t x _ ht

theorem checkScrollDownT_page (s : Scr) (c : Car) (force : Bool) (t : Tab) (h : PageTab t) :
    Ok (checkScrollDownT s c force t) PageTab := by
  unfold checkScrollDownT
  apply ok_ite
  · intro _; exact scrollUp_page s t h
  · intro _; exact h

theorem m7PrintT_page (s : Scr) (c : Car) (t : Tab) (h : PageTab t) : Ok (m7PrintT s c t) PageTab := by
  unfold m7PrintT
  apply ok_andThen (P := PageTab)
  · exact layerSetChar_page t _ _ h
  · intro t1 ht1
    apply ok_ite
    · intro _; exact checkScrollDownT_page _ _ _ t1 ht1
    · intro _; exact ht1

attribute [local irreducible] checkScrollDownT fillToEol layerSetChar m7PrintT bsT

abbrev PX (r : OX × Tab) : Prop := PageTab r.2

theorem keep_page (x : OX) (r : RRes Tab) (h : Ok r PageTab) : Ok (andThen r fun t => .ok (x, t)) PX :=
  ok_andThen h (fun _ ha => ha)

theorem viewdataRows_page (st : OSt) (x : OX) (ch : Char) (cnt : Nat) (t : Tab) (ht : PageTab t) :
    Ok (viewdataRows st x ch cnt t) PX := by
  unfold viewdataRows
  simp only []
  repeat' (first | (apply ok_ite <;> intro _))
  all_goals first
    | exact ht
    | exact pageTab_clear t ht
    | skip
  apply ok_andThen (P := PX)
  · repeat' (first | (apply ok_ite <;> intro _))
    all_goals first
      | exact ht
      | (apply ok_andThen (P := PageTab); exact fillToEol_page _ _ _ t ht; intro t' ht'; exact ht')
  · intro r hr
    obtain ⟨x1, t1⟩ := r
    have ht1 : PageTab t1 := hr
    apply ok_andThen (P := PageTab)
    · exact layerSetChar_page t1 _ _ ht1
    · intro t2 ht2
      simp only []
      repeat' (first | (apply ok_ite <;> intro _))
      all_goals first
        | exact ht2
        | (apply ok_andThen (P := PageTab); exact fillToEol_page _ _ _ t2 ht2; intro t' ht'; exact ht')

theorem mode7Rows_page (st : OSt) (x : OX) (ch : Char) (cnt : Nat) (t : Tab) (ht : PageTab t) :
    Ok (mode7Rows st x ch cnt t) PX := by
  have hfp : Ok (andThen (fillToEol st.s st.c cnt t) fun t => m7PrintT st.s st.c t) PageTab :=
    ok_andThen (fillToEol_page _ _ _ t ht) (fun t1 ht1 => m7PrintT_page _ _ t1 ht1)
  have hpr := m7PrintT_page st.s st.c t ht
  unfold mode7Rows
  simp only []
  repeat' (first | (apply ok_ite <;> intro _))
  all_goals first
    | exact ht
    | exact pageTab_clear t ht
    | exact keep_page _ _ hfp
    | exact keep_page _ _ hpr
    | (apply keep_page; exact checkScrollDownT_page _ _ _ t ht)
    | (apply keep_page; apply ok_ite <;> intro _ <;> first | exact checkScrollDownT_page _ _ _ t ht | exact ht)
    | (apply keep_page; unfold bsT; exact layerSetChar_page t _ _ ht)

/-- along every Viewdata / Mode 7 stream (and every sequence of `fill_to_eol` counts) the page keeps its shape -/
theorem orunJ_page (e : Emu2) (he : e = .viewdata ∨ e = .mode7) : ∀ (cs : List (Char × Nat)) (x x' : OJ),
    PageTab x.2.2 → orunJ e x cs = .ok x' → PageTab x'.2.2 := by
  intro cs
  induction cs with
  | nil =>
    intro x x' h hr
    have e0 : orunJ e x [] = .ok x := rfl
    rw [e0] at hr
    cases hr
    exact h
  | cons p rest ih =>
    intro x x' h hr
    obtain ⟨ch, cnt⟩ := p
    unfold orunJ at hr
    cases hs : ostepJ e x ch cnt with
    | error e => rw [hs] at hr; cases hr
    | ok r =>
      rw [hs] at hr
      obtain ⟨y, out⟩ := r
      refine ih y x' ?_ hr
      unfold ostepJ at hs
      cases hg : ostep e x.1 ch with
      | error p => rw [hg] at hs; cases hs
      | ok g =>
        rw [hg] at hs
        obtain ⟨st', out'⟩ := g
        simp only [] at hs
        have hrow : Ok (orows e x.1 x.2.1 ch cnt x.2.2) PX := by
          unfold orows
          cases he with
          | inl h1 => rw [h1]; exact viewdataRows_page x.1 x.2.1 ch cnt x.2.2 h
          | inr h1 => rw [h1]; exact mode7Rows_page x.1 x.2.1 ch cnt x.2.2 h
        cases hro : orows e x.1 x.2.1 ch cnt x.2.2 with
        | error site => rw [hro] at hs; cases hs
        | ok r2 =>
          rw [hro] at hs hrow
          obtain ⟨ox', t'⟩ := r2
          simp only [Except.ok.injEq, Prod.mk.injEq] at hs
          rw [← hs.1]
          exact hrow

/-! ## `fill_to_eol`: the number of cells it visits does not matter on a page -/
theorem loop_fix (y : Int) : ∀ (n : Nat) (i : Int) (t : Tab), PageTab t → (y < 0 ∨ 24 ≤ y ∨ y < t.rows.length) →
    loopFrom (fun x t => layerSetChar t x y) n i t = .ok t := by
  intro n
  induction n with
  | zero => intro i t _ _; rfl
  | succ n ih =>
    intro i t h hrow
    unfold loopFrom
    rw [layerSetChar_fix t i y h hrow]
    exact ih (i + 1) t h hrow

/-- after the first cell of row `y` has been written the row exists (or `y` is outside the page) -/
theorem setChar_row_exists (t t' : Tab) (x y : Int) (h : PageTab t) (hx : 0 ≤ x ∧ x < 40)
    (hs : layerSetChar t x y = .ok t') : y < 0 ∨ 24 ≤ y ∨ y < t'.rows.length := by
  by_cases hy : y < 0 ∨ 24 ≤ y
  · cases hy with
    | inl h1 => exact Or.inl h1
    | inr h1 => exact Or.inr (Or.inl h1)
  · refine Or.inr (Or.inr ?_)
    obtain ⟨hw, hh, hlen, hall⟩ := h
    unfold layerSetChar at hs
    have hg : ¬ (x < 0 ∨ y < 0 ∨ x ≥ t.lw ∨ y ≥ t.lh) := by rw [hw, hh]; omega
    rw [if_neg hg] at hs
    by_cases hl : y ≥ (t.rows.length : Int)
    · rw [if_pos hl] at hs
      unfold lineCreate at hs
      have : ¬ t.lw < 0 := by rw [hw]; omega
      simp only [this, if_false, andThen, vecResize] at hs
      have : ¬ y + 1 < 0 := by omega
      simp only [this, if_false] at hs
      have hlen2 : ¬ ((y + 1).toNat ≤ t.rows.length) := by omega
      simp only [hlen2, if_false] at hs
      unfold vecIndex at hs
      have hy0 : ¬ y < 0 := by omega
      simp only [hy0, if_false] at hs
      split at hs
      · rename_i n hn
        cases hls : lineSetChar n x with
        | error e => rw [hls] at hs; cases hs
        | ok n' =>
          rw [hls] at hs
          simp only [Except.ok.injEq] at hs
          rw [← hs]
          split
          · simp only [List.length_append, List.length_replicate]; omega
          · simp only [List.length_set, List.length_append, List.length_replicate]; omega
      · cases hs
    · have hfix := layerSetChar_fix t x y ⟨hw, hh, hlen, hall⟩ (Or.inr (Or.inr (by omega)))
      unfold layerSetChar at hfix
      rw [if_neg hg] at hfix
      rw [hfix] at hs
      simp only [Except.ok.injEq] at hs
      rw [← hs]; omega

/-- `fill_to_eol` on a 40-column page: any count `>= 1` gives the same row table as count 1
    (which is what the driver of the correspondence run passes) -/
theorem fill_count_irrelevant (s : Scr) (c : Car) (cnt : Nat) (t : Tab) (h : PageTab t) (htw : s.tw = 40) (hc : 1 ≤ cnt) :
    fillToEol s c cnt t = fillToEol s c 1 t := by
  unfold fillToEol
  by_cases hx : c.x ≤ 0
  · rw [if_pos hx, if_pos hx]
  · rw [if_neg hx, if_neg hx]
    unfold forRange
    rw [htw]
    by_cases hin : c.x < 40
    · have e1 : (min 40 (c.x + ((1 : Nat) : Int)) - c.x).toNat = 1 := by omega
      obtain ⟨k, hk⟩ : ∃ k, (min 40 (c.x + (cnt : Int)) - c.x).toNat = k + 1 := ⟨(min 40 (c.x + (cnt : Int)) - c.x).toNat - 1, by omega⟩
      rw [e1, hk]
      unfold loopFrom
      cases hs : layerSetChar t c.x c.y with
      | error e => rfl
      | ok t1 =>
        simp only []
        have hp1 : PageTab t1 := by
          have := layerSetChar_page t c.x c.y h
          rw [hs] at this
          exact this
        rw [loop_fix c.y k (c.x + 1) t1 hp1 (setChar_row_exists t t1 c.x c.y h ⟨by omega, hin⟩ hs)]
        rfl
    · have e1 : (min 40 (c.x + ((1 : Nat) : Int)) - c.x).toNat = 0 := by omega
      have e2 : (min 40 (c.x + (cnt : Int)) - c.x).toNat = 0 := by omega
      rw [e1, e2]

end IcyVerif.Rows
