import IcyVerif.Lemmas.BinFormatsIdf
import IcyVerif.Lemmas.BinFormatsAdf
import IcyVerif.Lemmas.SauceExtract
set_option linter.unusedSimpArgs false
/-! C16, whole files: what the round-trip theorems of the C05 whole-file model say about the PALETTE. -/
namespace IcyVerif.BinFormats
open IcyVerif.XbCompress IcyVerif.Gen

/-- two palettes of 16 colours that resolve every index 0..15 alike are the same list -/
theorem pal_eq_of_palSame (p : Pic) (g : LBuf) (h16 : pal16 p.pal = true) (h : palSame p g = true) : g.pal = p.pal := by
  unfold palSame at h
  unfold pal16 at h16
  simp only [Bool.and_eq_true, beq_iff_eq, List.all_eq_true, List.mem_range] at h h16
  obtain ⟨hl, hc⟩ := h
  have h16l := h16.1
  apply List.ext_getElem (by omega)
  intro i h1 h2
  have hi : i < 16 := by omega
  have := hc i hi
  unfold getRgb at this
  have hn : ¬ (i ≥ 2147483648) := by omega
  simp only [hn, if_false] at this
  simp only [List.getD_eq_getElem?_getD, List.getElem?_eq_getElem h1, List.getElem?_eq_getElem h2, Option.getD_some] at this
  exact this.symm

/-- every representable picture of the three formats that embed a palette carries 16 six-bit colours -/
theorem rep_pal16 (f : Fmt) (o : Opts) (p : Pic) (hf : f = .xb ∨ f = .adf ∨ f = .idf) (hrep : Representable f o p = true) :
    pal16 p.pal = true := by
  unfold Representable at hrep
  rcases hf with rfl | rfl | rfl <;> simp only [Bool.and_eq_true] at hrep
  · exact hrep.2.1.1.2
  · exact hrep.2.1.1.2
  · exact hrep.2.1.1.2


/-! ## the XBin writer and loader on EVERY picture / EVERY file: what decides the palette block -/

theorem writeSauce_prefix (k : SauceKind) (p : Pic) (date body bytes : List Nat) (h : writeSauce k p date body = .ok bytes) :
    ∃ tail, bytes = body ++ tail := by
  unfold writeSauce at h
  split at h
  · exact absurd h (by simp)
  · split at h
    · exact absurd h (by simp)
    · -- `write_sauce_info` (C11's `Sauce.writeSauceInfo` since the merge of the C05 work package): body, EOF, comments, record
      split at h
      · rename_i bs hw
        injection h with h
        subst h
        simp only [Sauce.writeSauceInfo] at hw
        obtain ⟨tail, _, h2⟩ := Sauce.bind_eq_ok hw
        have := (Sauce.Res.ok.inj h2).symm
        subst this
        exact ⟨[Gen.Sauce.eofByte] ++ tail, by simp [List.append_assoc]⟩
      · cases h
      · cases h

theorem sauce_or_plain (sauce : Bool) (k : SauceKind) (p : Pic) (date body bytes : List Nat)
    (h : (if sauce = true then writeSauce k p date body else Out.ok body) = .ok bytes) : ∃ tail, bytes = body ++ tail := by
  cases sauce
  · simp only [Bool.false_eq_true, if_false] at h; injection h with h; exact ⟨[], by simp [h]⟩
  · simp only [if_true] at h; exact writeSauce_prefix k p date body bytes h

theorem hdr_shape (a0 a1 a2 a3 a4 a5 a6 a7 a8 a9 fl : Nat) (mid tail : List Nat) :
    ([a0, a1, a2, a3, a4, a5, a6, a7, a8, a9, fl] ++ mid ++ tail).getD 10 0 = fl ∧
    ([a0, a1, a2, a3, a4, a5, a6, a7, a8, a9, fl] ++ mid ++ tail).drop 11 = mid ++ tail := ⟨rfl, rfl⟩

theorem take_pal (pb rest : List Nat) (n : Nat) (h : pb.length = n) : (pb ++ rest).take n = pb := by
  rw [← h, List.take_left']; rfl

/-- THE XBIN WRITER, EVERY PICTURE IT ACCEPTS (one font or two, any cells, any palette of at most 16 colours): the flag
    byte says "palette" exactly when the palette is not the DOS default, and then the 48 bytes after the header are the
    six-bit values of the palette padded to 16 colours — nothing else in the picture has a say -/
theorem xb_writer_palette (c s : Bool) (date : List Nat) (p : Pic) (bytes : List Nat) (h : xbSave c s date p = .ok bytes) :
    ((bytes.getD 10 0 &&& Xb.flagPalette == Xb.flagPalette) = !palIsDefault p.pal) ∧
    (palIsDefault p.pal = false → (bytes.drop 11).take Xb.paletteLength = asVec63 (fillTo16 p.pal)) := by
  unfold xbSave at h
  dsimp only at h
  split at h
  · exact absurd h (by simp)
  rename_i font hfont
  split at h
  · exact absurd h (by simp)
  split at h
  · exact absurd h (by simp)
  split at h
  · exact absurd h (by simp)
  rename_i hpb
  split at h
  · exact absurd h (by simp)
  rename_i hfd
  obtain ⟨bp, _⟩ := xbFlags_bits (!font.isDefault || decide ((analyzeFontUsage p.rows.flatten).length > 1)) (!palIsDefault p.pal) c
    (p.ice == IceMode.ice) ((analyzeFontUsage p.rows.flatten).length == 2)
  generalize xbFlags (!font.isDefault || decide ((analyzeFontUsage p.rows.flatten).length > 1)) (!palIsDefault p.pal) c
    (p.ice == IceMode.ice) ((analyzeFontUsage p.rows.flatten).length == 2) = fl at *
  have key : ∃ rest, bytes = [88, 66, 73, 78, 26, p.w % 256, p.w / 256 % 256, p.h % 256, p.h / 256 % 256, font.height % 256, fl] ++
      (if fl &&& Xb.flagPalette = Xb.flagPalette then asVec63 (fillTo16 p.pal) else []) ++ rest := by
    split at h
    · exact absurd h (by simp)
    · split at h
      · exact absurd h (by simp)
      · split at h
        · exact absurd h (by simp)
        · rename_i f2 _ _ _ img _
          obtain ⟨tail, ht⟩ := sauce_or_plain _ _ _ _ _ _ h
          exact ⟨font.data ++ f2.data ++ img ++ tail, by rw [ht]; simp only [List.append_assoc]⟩
    · split at h
      · exact absurd h (by simp)
      · rename_i img _
        obtain ⟨tail, ht⟩ := sauce_or_plain _ _ _ _ _ _ h
        exact ⟨(if fl &&& Xb.flagFont = Xb.flagFont then font.data else []) ++ img ++ tail, by rw [ht]; simp only [List.append_assoc]⟩
  obtain ⟨rest, hb⟩ := key
  subst hb
  obtain ⟨g1, g2⟩ := hdr_shape 88 66 73 78 26 (p.w % 256) (p.w / 256 % 256) (p.h % 256) (p.h / 256 % 256) (font.height % 256) fl
    (if fl &&& Xb.flagPalette = Xb.flagPalette then asVec63 (fillTo16 p.pal) else []) rest
  refine ⟨by rw [g1]; exact bp, fun hd => ?_⟩
  have hfp : fl &&& Xb.flagPalette = Xb.flagPalette := by
    rw [hd] at bp; simpa using bp
  rw [g2, if_pos hfp]
  apply take_pal
  by_cases hl : (asVec63 (fillTo16 p.pal)).length = Xb.paletteLength
  · exact hl
  · exact absurd ⟨hfp, hl⟩ hpb

theorem setChar_keeps_pal (b : LBuf) (x y : Nat) (c : Cell) : (b.setChar x y c).pal = b.pal := by
  unfold LBuf.setChar; split <;> rfl

theorem placeCell_keeps_pal (gl gb : Bool) (x0 xl : Nat) (s : LBuf × Nat × Nat) (c : Cell) :
    (placeCell gl gb x0 xl s c).1.pal = s.1.pal := by
  unfold placeCell
  simp only []
  split <;> (simp only [setChar_keeps_pal]; cases gl <;> cases gb <;> rfl)

theorem placeAll_keeps_pal (gl gb : Bool) (x0 xl : Nat) (cells : List Cell) : ∀ (b : LBuf) (x y : Nat),
    (placeAll gl gb x0 xl b x y cells).1.pal = b.pal := by
  induction cells with
  | nil => intro b x y; rfl
  | cons c cs ih =>
    intro b x y
    unfold placeAll
    simp only [List.foldl_cons]
    have := ih (placeCell gl gb x0 xl (b, x, y) c).1 (placeCell gl gb x0 xl (b, x, y) c).2.1 (placeCell gl gb x0 xl (b, x, y) c).2.2
    unfold placeAll at this
    rw [this, placeCell_keeps_pal]

theorem crop_pal (b : LBuf) : b.crop.pal = b.pal := rfl

theorem ite_err_ok {α : Type} {c : Prop} [Decidable c] {b : Out α} {g : α} (h : (if c then Out.err else b) = .ok g) :
    ¬c ∧ b = .ok g := by
  by_cases hc : c
  · rw [if_pos hc] at h; exact absurd h (by simp)
  · rw [if_neg hc] at h; exact ⟨hc, h⟩

theorem ite_panic_ok {α : Type} {c : Prop} [Decidable c] {b : Out α} {g : α} (h : (if c then Out.panic else b) = .ok g) :
    ¬c ∧ b = .ok g := by
  by_cases hc : c
  · rw [if_pos hc] at h; exact absurd h (by simp)
  · rw [if_neg hc] at h; exact ⟨hc, h⟩

theorem xbBlocks_pal (b1 : LBuf) (hasPal hasFont ext : Bool) (fs : Nat) (rest : List Nat) (r : LBuf × List Nat)
    (h : xbBlocks b1 hasPal hasFont ext fs rest = .ok r) :
    r.1.pal = if hasPal = true then from63 (rest.take Xb.paletteLength) else b1.pal := by
  unfold xbBlocks at h
  obtain ⟨_, h⟩ := ite_err_ok h
  obtain ⟨_, h⟩ := ite_err_ok h
  simp only [] at h
  obtain ⟨_, h⟩ := ite_err_ok h
  obtain ⟨_, h⟩ := ite_err_ok h
  injection h with h
  subst h
  cases hasPal <;> cases hasFont <;> cases ext <;> rfl

theorem xbImage_pal (b3 : LBuf) (w : Nat) (comp ice ext : Bool) (rest3 : List Nat) (g : LBuf)
    (h : xbImage b3 w comp ice ext rest3 = .ok g) : g.pal = b3.pal := by
  unfold xbImage at h
  simp only [] at h
  split at h
  · cases h
  · injection h with h
    subst h
    rw [crop_pal, placeAll_keeps_pal]

/-- (merge note: re-proved along the new shape of `xbLoad` — header, `xbBlocks`, `xbImage`; the record is C11's
    `Sauce.Sauce`; statement unchanged) -/
theorem xb_loader_palette (data : List Nat) (s : Option Sauce.Sauce) (g : LBuf) (h : xbLoad data s = .ok g) :
    g.pal = if (data.getD 10 0 &&& Xb.flagPalette == Xb.flagPalette) = true
      then from63 ((data.drop 11).take Xb.paletteLength) else dosPalette := by
  obtain ⟨bw, lw, bh, lh, im, hst⟩ := xb_start s
  unfold xbLoad at h
  rw [hst] at h
  split at h
  · rename_i i0 i1 i2 i3 eof wl wh hl hh fs0 flags rest
    show g.pal = if (flags &&& Xb.flagPalette == Xb.flagPalette) = true then from63 (rest.take Xb.paletteLength) else dosPalette
    simp only [] at h
    obtain ⟨_, h⟩ := ite_err_ok h
    obtain ⟨_, h⟩ := ite_err_ok h
    obtain ⟨_, h⟩ := ite_err_ok h
    split at h
    · rename_i b3 rest3 hb
      rw [xbImage_pal _ _ _ _ _ _ _ h]
      exact xbBlocks_pal _ _ _ _ _ _ _ hb
    · cases h
    · cases h
  · exact absurd h (by simp)

/-- writer and loader together, for every picture the writer accepts (body without SAUCE record, whatever SAUCE information
    the loader is handed) -/
theorem xb_any_palette (c : Bool) (date : List Nat) (p : Pic) (body : List Nat) (s : Option Sauce.Sauce) (g : LBuf)
    (hs : xbSave c false date p = .ok body) (hl : xbLoad body s = .ok g) :
    g.pal = if palIsDefault p.pal = true then dosPalette else from63 (asVec63 (fillTo16 p.pal)) := by
  obtain ⟨w1, w2⟩ := xb_writer_palette c false date p body hs
  rw [xb_loader_palette body s g hl, w1]
  cases hd : palIsDefault p.pal
  · simp only [Bool.not_false, if_true, Bool.false_eq_true, if_false]
    rw [w2 hd]
  · simp

end IcyVerif.BinFormats
