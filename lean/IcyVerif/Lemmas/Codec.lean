import IcyVerif.Model.Codec
set_option linter.unusedSimpArgs false
/-! Helper lemmas for C18: list-traversal checks of the complete generated tables and their lifting to
    index-quantified statements. -/
namespace IcyVerif.Codec
open IcyVerif.Gen.Codec

/-- `P index value` along a list, starting at index `i` -/
def allFrom (P : Nat → Nat → Bool) : Nat → List Nat → Bool
  | _, [] => true
  | i, v :: vs => P i v && allFrom P (i+1) vs

theorem allFrom_spec (P : Nat → Nat → Bool) (l : List Nat) (i : Nat) (h : allFrom P i l = true)
    (j d : Nat) (hj : j < l.length) : P (i+j) (l.getD j d) = true := by
  induction l generalizing i j with
  | nil => simp at hj
  | cons v vs ih =>
    simp only [allFrom, Bool.and_eq_true] at h
    cases j with
    | zero => simpa using h.1
    | succ j =>
      have := ih (i+1) h.2 j (by simpa using hj)
      simpa [Nat.add_assoc, Nat.add_comm 1 j] using this

/-! ### the complete tables, one traversal each -/

def Pcp437 (i v : Nat) : Bool := fromUni .cp437 v == i
theorem cp437_ok : allFrom Pcp437 0 cp437 = true ∧ cp437.length = 256 := by decide +kernel

/-- only the `atariRev` (= 128) base codes are in the reverse map -/
def Patari (i v : Nat) : Bool := decide (atariRev ≤ i) || fromUni .atascii v == i
theorem atari_ok : allFrom Patari 0 atari = true ∧ atari.length = 256 ∧ atariRev = 128 := by decide +kernel

/-- PETSCII `CHAR_TABLE` pairs, both directions -/
def allPairs (P : Nat × Nat → Bool) : List (Nat × Nat) → Bool
  | [] => true
  | p :: ps => P p && allPairs P ps
theorem allPairs_spec (P : Nat × Nat → Bool) (l : List (Nat × Nat)) (h : allPairs P l = true)
    (p : Nat × Nat) (hp : p ∈ l) : P p = true := by
  induction l with
  | nil => simp at hp
  | cons q qs ih =>
    simp only [allPairs, Bool.and_eq_true] at h
    rcases List.mem_cons.mp hp with rfl | hp
    · exact h.1
    · exact ih h.2 hp

def Ppetscii (p : Nat × Nat) : Bool :=
  fromUni .petscii p.1 == p.2 && toUni .petscii p.2 == p.1 && decide (p.1 < 256) && decide (p.2 < 256)
theorem petscii_ok : allPairs Ppetscii petscii = true := by decide +kernel

/-! ### attributes -/

theorem enc_dec_core : ∀ m ∈ IceMode.all, ∀ fg, fg < 16 → ∀ bg, bg < 16 → ∀ bold blink : Bool,
    ExpressibleT m fg bg bold blink →
      (fromU8 m (encByte m fg bg bold blink)).fg = fg ∧ (fromU8 m (encByte m fg bg bold blink)).bg = bg ∧
      (fromU8 m (encByte m fg bg bold blink)).isBlink = blink := by decide +kernel

/-- bold attributes whose foreground is already bright (bit 3 set) are carried too: bold only ORs bit 3 in -/
theorem enc_dec_bold_core : ∀ m ∈ IceMode.all, ∀ fg, fg < 16 → 8 ≤ fg → ∀ bg, bg < 16 → ∀ blink : Bool,
    ExpressibleT m fg bg false blink →
      (fromU8 m (encByte m fg bg true blink)).fg = fg ∧ (fromU8 m (encByte m fg bg true blink)).bg = bg ∧
      (fromU8 m (encByte m fg bg true blink)).isBlink = blink := by decide +kernel

theorem IceMode.mem_all (m : IceMode) : m ∈ IceMode.all := by cases m <;> decide

theorem dec_enc_core : ∀ m ∈ IceMode.all, ∀ b, b < 256 → asU8 m (fromU8 m b) = b := by decide +kernel

/-- decoding any byte lands in the expressible set of its mode -/
theorem dec_expressible_core : ∀ m ∈ IceMode.all, ∀ b, b < 256 → Expressible m (fromU8 m b) := by decide +kernel

/-- on the 16 x 16 x bold x blink grid the round trip holds ONLY on the expressible set (bold aside) -/
theorem enc_dec_only_core : ∀ m ∈ IceMode.all, ∀ fg, fg < 16 → ∀ bg, bg < 16 → ∀ blink : Bool,
    ((fromU8 m (encByte m fg bg false blink)).fg = fg ∧ (fromU8 m (encByte m fg bg false blink)).bg = bg ∧
      (fromU8 m (encByte m fg bg false blink)).isBlink = blink) → ExpressibleT m fg bg false blink := by
  decide +kernel

theorem fromU8_fg (m : IceMode) (x : Nat) : (fromU8 m x).fg = x &&& 15 := by
  unfold fromU8 Attr.setBlink
  cases m <;> simp only [] <;> split <;> rfl

theorem fromU8_bg_lt (m : IceMode) (x : Nat) (hx : x < 256) : (fromU8 m x).bg < 16 := by
  have h7 : (x >>> 4) &&& 7 ≤ 7 := Nat.and_le_right
  have h4 : x >>> 4 < 16 := by rw [Nat.shiftRight_eq_div_pow]; omega
  unfold fromU8 Attr.setBlink
  cases m <;> simp only [] <;> split <;> simp only [decShift, decBgMask, decIceShift] <;> omega

theorem encByte_lt (m : IceMode) (fg bg : Nat) (bold blink : Bool) : encByte m fg bg bold blink < 256 := by
  unfold encByte; exact Nat.mod_lt _ (by decide)

/-- the pinned `as_u8` fails to re-encode exactly the Unlimited bytes with bit 7 set -/
theorem pinned_core : ∀ m ∈ IceMode.all, ∀ b, b < 256 →
    (asU8Pinned m (fromU8 m b) = b ↔ ¬ (m = .unlimited ∧ 128 ≤ b)) := by decide +kernel

theorem Conv.mem_all (c : Conv) : c ∈ Conv.all := by cases c <;> decide

theorem typed_core : ∀ c ∈ Conv.all, ∀ ch, ch < 123 → IsTyped ch → toUni c (fromUni c ch) = ch := by
  decide +kernel

/-- "the emulation's code": where code `ch` displays as character `ch`, that is the code the key sends -/
theorem typed_code_core : ∀ c ∈ Conv.all, ∀ ch, ch < 123 → IsTyped ch → toUni c ch = ch → fromUni c ch = ch := by
  decide +kernel

theorem typedChars_spec : ∀ ch, ch < 123 → (ch ∈ typedChars ↔ IsTyped ch) := by decide +kernel

end IcyVerif.Codec
