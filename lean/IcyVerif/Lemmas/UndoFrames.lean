import IcyVerif.Lemmas.UndoArea
import IcyVerif.Lemmas.UndoScroll
import IcyVerif.Model.UndoApi
set_option linter.unusedSimpArgs false
set_option linter.unusedVariables false
/-! # C08: every `UndoLayerChange`-based operation edits inside its snapshot area only (`Frame`), hence obeys the inverse law -/
namespace IcyVerif.Undo

theorem isInside_iff (r : Rect) (X Y : Int) : r.isInside X Y = true ↔ r.x ≤ X ∧ r.y ≤ Y ∧ X < r.x + r.w ∧ Y < r.y + r.h := by
  simp only [Rect.isInside, Bool.and_eq_true, decide_eq_true_eq]
  constructor
  · rintro ⟨⟨⟨h1, h2⟩, h3⟩, h4⟩; exact ⟨h1, h2, h3, h4⟩
  · rintro ⟨h1, h2, h3, h4⟩; exact ⟨⟨⟨h1, h2⟩, h3⟩, h4⟩

theorem frame_setChar {a : Rect} {l0 l : LayerM} (h : Frame a l0.obs l.obs) (X Y : Int) (c : Cell) (hin : a.isInside X Y = true) :
    Frame a l0.obs (l.setChar X Y c).obs := by
  rw [setChar_obs]; exact h.setChar X Y c hin

theorem frame_foldl {α : Type} {a : Rect} {l0 : LayerM} (step : LayerM → α → LayerM) (xs : List α)
    (hstep : ∀ l x, x ∈ xs → Frame a l0.obs l.obs → Frame a l0.obs (step l x).obs) (l : LayerM) (h : Frame a l0.obs l.obs) :
    Frame a l0.obs (xs.foldl step l).obs := by
  induction xs generalizing l with
  | nil => exact h
  | cons x xs ih =>
    simp only [List.foldl_cons]
    exact ih (fun l x' hx' => hstep l x' (List.mem_cons_of_mem _ hx')) _ (hstep l x List.mem_cons_self h)

theorem frame_w {a : Rect} {l0 l : LayerM} (h : Frame a l0.obs l.obs) : l.w = l0.w := h.1
theorem frame_h {a : Rect} {l0 l : LayerM} (h : Frame a l0.obs l.obs) : l.h = l0.h := h.2.1
theorem frame_props {a : Rect} {l0 l : LayerM} (h : Frame a l0.obs l.obs) : l.props = l0.props := h.2.2.1

/-! ## the operations that write through `set_char` -/

theorem flipX_frame (d : Doc) (l : LayerM) (a : Rect) (l' : LayerM) (h : flipXF d l a = .ok l') : Frame a l.obs l'.obs := by
  unfold flipXF at h
  split at h
  · simp at h
  · simp only [Except.ok.injEq] at h
    subst h
    apply frame_foldl _ _ _ _ (Frame.refl _ _)
    intro l1 y hy h1
    apply frame_foldl _ _ _ _ h1
    intro l2 x hx h2
    obtain ⟨hy1, hy2⟩ := mem_intRange.mp hy
    obtain ⟨hx1, hx2⟩ := mem_intRange.mp hx
    simp only [Rect.bottom, Rect.right] at hy2 ⊢
    apply frame_setChar (frame_setChar h2 _ _ _ ?_) _ _ _ ?_
    · exact (isInside_iff _ _ _).mpr ⟨by omega, by omega, by omega, by omega⟩
    · exact (isInside_iff _ _ _).mpr ⟨by omega, by omega, by omega, by omega⟩

theorem flipY_frame (d : Doc) (l : LayerM) (a : Rect) (l' : LayerM) (h : flipYF d l a = .ok l') : Frame a l.obs l'.obs := by
  unfold flipYF at h
  split at h
  · simp at h
  · simp only [Except.ok.injEq] at h
    subst h
    apply frame_foldl _ _ _ _ (Frame.refl _ _)
    intro l1 x hx h1
    apply frame_foldl _ _ _ _ h1
    intro l2 y hy h2
    obtain ⟨hy1, hy2⟩ := mem_intRange.mp hy
    obtain ⟨hx1, hx2⟩ := mem_intRange.mp hx
    simp only [Rect.bottom, Rect.right] at hx2 ⊢
    apply frame_setChar (frame_setChar h2 _ _ _ ?_) _ _ _ ?_
    · exact (isInside_iff _ _ _).mpr ⟨by omega, by omega, by omega, by omega⟩
    · exact (isInside_iff _ _ _).mpr ⟨by omega, by omega, by omega, by omega⟩

theorem justifyLeft_frame (d : Doc) (l : LayerM) (a : Rect) (l' : LayerM) (h : justifyLeftF d l a = .ok l') : Frame a l.obs l'.obs := by
  unfold justifyLeftF at h
  simp only [Except.ok.injEq] at h
  subst h
  apply frame_foldl _ _ _ _ (Frame.refl _ _)
  intro l1 y hy h1
  split
  · exact h1
  · apply frame_foldl _ _ _ _ h1
    intro l2 x hx h2
    obtain ⟨hy1, hy2⟩ := mem_intRange.mp hy
    obtain ⟨hx1, hx2⟩ := mem_intRange.mp hx
    simp only [Rect.bottom, Rect.right] at hy2 hx2
    exact frame_setChar h2 _ _ _ ((isInside_iff _ _ _).mpr ⟨by omega, by omega, by omega, by omega⟩)

theorem justifyRight_frame (d : Doc) (l : LayerM) (a : Rect) (l' : LayerM) (h : justifyRightF d l a = .ok l') : Frame a l.obs l'.obs := by
  unfold justifyRightF at h
  simp only [Except.ok.injEq] at h
  subst h
  apply frame_foldl _ _ _ _ (Frame.refl _ _)
  intro l1 y hy h1
  split
  · exact h1
  · apply frame_foldl _ _ _ _ h1
    intro l2 x hx h2
    obtain ⟨hy1, hy2⟩ := mem_intRange.mp hy
    obtain ⟨hx1, hx2⟩ := mem_intRange.mp (List.mem_reverse.mp hx)
    simp only [Rect.bottom, Rect.right] at hy2 hx2
    exact frame_setChar h2 _ _ _ ((isInside_iff _ _ _).mpr ⟨by omega, by omega, by omega, by omega⟩)

theorem center_frame (d : Doc) (l : LayerM) (a : Rect) (l' : LayerM) (h : centerF d l a = .ok l') : Frame a l.obs l'.obs := by
  unfold centerF at h
  simp only [Except.ok.injEq] at h
  subst h
  apply frame_foldl _ _ _ _ (Frame.refl _ _)
  intro l1 y hy h1
  split
  · exact h1
  · apply frame_foldl _ _ _ _ h1
    intro l2 x hx h2
    obtain ⟨hy1, hy2⟩ := mem_intRange.mp hy
    obtain ⟨hx1, hx2⟩ := mem_intRange.mp hx
    simp only [Rect.bottom, Rect.right] at hy2 ⊢
    exact frame_setChar h2 _ _ _ ((isInside_iff _ _ _).mpr ⟨by omega, by omega, by omega, by omega⟩)

/-! ## from the frame to the inverse law -/

theorem curLayer_some {d : Doc} {i : Nat} {l : LayerM} (h : d.curLayer = some (i, l)) : d.layers[i]? = some l := by
  unfold Doc.curLayer at h
  cases hc : d.currentLayer with
  | none => rw [hc] at h; simp at h
  | some j =>
    rw [hc] at h
    simp only at h
    cases hl : d.layers[j]? with
    | none => rw [hl] at h; simp at h
    | some l0 =>
      rw [hl] at h
      simp at h
      obtain ⟨rfl, rfl⟩ := h
      exact hl

theorem layerEdit_undoable {d : Doc} {i : Nat} {l : LayerM} {a : Rect} {r : Except Err LayerM} {op : UndoOp} {d' : Doc}
    (hl : d.layers[i]? = some l) (hf : ∀ l', r = .ok l' → Frame a l.obs l'.obs)
    (h : layerEdit d i l a r = .ok (some (op, d'))) : Undoable op d.obs d'.obs := by
  unfold layerEdit at h
  cases hold : fromLayer l a with
  | error e => rw [hold] at h; simp at h
  | ok old =>
    rw [hold] at h
    simp only at h
    cases hr : r with
    | error e => rw [hr] at h; simp at h
    | ok l' =>
      rw [hr] at h
      simp only at h
      cases hnew : fromLayer l' a with
      | error e => rw [hnew] at h; simp at h
      | ok new =>
        rw [hnew] at h
        simp at h
        obtain ⟨rfl, rfl⟩ := h
        exact undoable_layerChange d i a l l' old new hl hold hnew (hf l' hr)

theorem areaOp_good (f : Doc → LayerM → Rect → Except Err LayerM)
    (hf : ∀ d l l', f d l (getArea d.sel l.rect) = .ok l' → Frame (getArea d.sel l.rect) l.obs l'.obs) :
    (Step.edit (areaOp f)).Good := by
  intro d op d' h
  unfold areaOp at h
  cases hc : d.curLayer with
  | none => rw [hc] at h; simp at h
  | some p =>
    obtain ⟨i, l⟩ := p
    rw [hc] at h
    exact layerEdit_undoable (curLayer_some hc) (fun l' hl' => hf d l l' hl') h

/-- `make_layer_transparent` -/
theorem makeTransparent_good : (Step.edit makeTransparentEdit).Good := by
  intro d op d' h
  unfold makeTransparentEdit at h
  cases hc : d.curLayer with
  | none => rw [hc] at h; simp at h
  | some p =>
    obtain ⟨i, l⟩ := p
    rw [hc] at h
    refine layerEdit_undoable (curLayer_some hc) ?_ h
    intro l' hl'
    simp only [Except.ok.injEq] at hl'
    subst hl'
    apply frame_foldl _ _ _ _ (Frame.refl _ _)
    intro l1 x hx h1
    apply frame_foldl _ _ _ _ h1
    intro l2 y hy h2
    split
    · obtain ⟨hx1, hx2⟩ := mem_intRange.mp hx
      obtain ⟨hy1, hy2⟩ := mem_intRange.mp hy
      rw [frame_h h1] at hy2
      exact frame_setChar h2 _ _ _ ((isInside_iff _ _ _).mpr ⟨hx1, hy1, by simpa using hx2, by simpa using hy2⟩)
    · exact h2

/-- `stamp_layer_down` -/
theorem stampDown_good : (Step.edit stampDownEdit).Good := by
  intro d op d' h
  unfold stampDownEdit at h
  cases hc : d.curLayer with
  | none => rw [hc] at h; simp at h
  | some p =>
    obtain ⟨i, l⟩ := p
    rw [hc] at h
    simp only at h
    split at h
    · simp at h
    · cases hb : d.layers[i - 1]? with
      | none => rw [hb] at h; simp at h
      | some base =>
        rw [hb] at h
        simp only at h
        refine layerEdit_undoable hb ?_ h
        intro l' hl'
        simp only [Except.ok.injEq] at hl'
        subst hl'
        apply frame_foldl _ _ _ _ (Frame.refl _ _)
        intro b1 x hx h1
        apply frame_foldl _ _ _ _ h1
        intro b2 y hy h2
        split
        · obtain ⟨hx1, hx2⟩ := mem_intRange.mp hx
          obtain ⟨hy1, hy2⟩ := mem_intRange.mp hy
          exact frame_setChar h2 _ _ _ ((isInside_iff _ _ _).mpr ⟨by simp only []; omega, by simp only []; omega, by simp only []; omega, by simp only []; omega⟩)
        · exact h2

end IcyVerif.Undo
