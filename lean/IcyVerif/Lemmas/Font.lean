import IcyVerif.Model.Font
import IcyVerif.Lemmas.Unicode
set_option linter.unusedSimpArgs false
/-! round-trip lemmas for `Model/Font.lean` (C17) -/
namespace IcyVerif.Font
open IcyVerif.Uni

/-- the glyph rows of a complete table, concatenated -/
def flat : List (Option Glyph) → List Nat
  | [] => []
  | some r :: gs => r ++ flat gs
  | none :: gs => flat gs

/-- every entry present with exactly `h` rows of byte values -/
def AllRows (h : Nat) (gs : List (Option Glyph)) : Prop :=
  ∀ g ∈ gs, ∃ r, g = some r ∧ r.length = h

theorem AllRows.tail {h : Nat} {g : Option Glyph} {gs : List (Option Glyph)} (hr : AllRows h (g :: gs)) : AllRows h gs :=
  fun x hx => hr x (List.mem_cons_of_mem _ hx)

theorem flat_length (h : Nat) (gs : List (Option Glyph)) (hr : AllRows h gs) : (flat gs).length = gs.length * h := by
  induction gs with
  | nil => simp [flat]
  | cons g gs ih =>
    obtain ⟨r, rfl, hl⟩ := hr g (List.mem_cons_self ..)
    simp only [flat, List.length_append, List.length_cons, ih hr.tail, hl, Nat.add_mul, Nat.one_mul]
    omega

theorem lookups_self (gs : List (Option Glyph)) : lookups gs.length gs = gs := by
  induction gs with
  | nil => rfl
  | cons g gs ih => simp [lookups, ih]

theorem allGlyphs_flat (h : Nat) (gs : List (Option Glyph)) (hr : AllRows h gs) : allGlyphs gs = some (flat gs) := by
  induction gs with
  | nil => rfl
  | cons g gs ih =>
    obtain ⟨r, rfl, _⟩ := hr g (List.mem_cons_self ..)
    simp [allGlyphs, flat, ih hr.tail]

theorem convertAux_flat (h : Nat) (hh : Int) (gs : List (Option Glyph)) (hr : AllRows h gs) :
    convertAux hh gs = .ok (flat gs) := by
  induction gs with
  | nil => rfl
  | cons g gs ih =>
    obtain ⟨r, rfl, _⟩ := hr g (List.mem_cons_self ..)
    simp [convertAux, flat, ih hr.tail]

theorem splitExact_append (r rest : List Nat) : splitExact r.length (r ++ rest) = some (r, rest) := by
  induction r with
  | nil => simp [splitExact]
  | cons x xs ih => simp [splitExact, ih]

theorem splitExact_nil (h : Nat) (hh : 1 ≤ h) : splitExact h [] = none := by
  cases h with
  | zero => omega
  | succ n => rfl

/-- reading concatenated rows back gives the table, as long as every index is a scalar value -/
theorem glyphLoop_flat (h : Nat) (hh : 1 ≤ h) (gs : List (Option Glyph)) (hr : AllRows h gs) :
    ∀ (ch fuel : Nat), ch + gs.length ≤ 55296 → (flat gs).length ≤ fuel → glyphLoop h fuel ch (flat gs) = gs := by
  induction gs with
  | nil =>
    intro ch fuel _ _
    cases fuel with
    | zero => rfl
    | succ n => simp [glyphLoop, flat, splitExact_nil h hh]
  | cons g gs ih =>
    intro ch fuel hch hf
    obtain ⟨r, rfl, hl⟩ := hr g (List.mem_cons_self ..)
    simp only [flat, List.length_append] at hf
    cases fuel with
    | zero => omega
    | succ n =>
      simp only [glyphLoop, flat]
      rw [← hl, splitExact_append]
      simp only
      have hs : isScalar ch = true := by rw [isScalar_iff]; simp at hch; omega
      rw [hs]
      simp only [if_true]
      congr 1
      rw [hl]
      apply ih hr.tail
      · simp at hch; omega
      · omega

theorem glyphsFromU8_flat (h : Nat) (hh : 1 ≤ h) (gs : List (Option Glyph)) (hr : AllRows h gs)
    (hn : gs.length ≤ 55296) : glyphsFromU8 h (flat gs) = gs := by
  unfold glyphsFromU8
  rw [if_neg (by omega)]
  exact glyphLoop_flat h hh gs hr 0 _ (by omega) (Nat.le_refl _)

theorem le32_u32le (n : Nat) : le32 (n % 256) (n / 256 % 256) (n / 65536 % 256) (n / 16777216 % 256) = n % 4294967296 := by
  unfold le32; omega

theorem asI32_small (n : Nat) (h : n < 2147483648) : asI32 n = n := by
  unfold asI32
  have : n % 4294967296 = n := Nat.mod_eq_of_lt (by omega)
  simp only [this]
  rw [if_pos h]

theorem asU32_nat (n : Nat) (h : n < 4294967296) : asU32 (n : Int) = n := by
  unfold asU32
  have : ((n : Int) % 4294967296) = n := Int.emod_eq_of_lt (by omega) (by omega)
  rw [this]; simp

end IcyVerif.Font
