import IcyVerif.Model.SixelShadow
set_option linter.unusedSimpArgs false
set_option linter.unusedVariables false
/-! # The indexed shadow-removal loop is total and computes `removeShadowed` (for every list of images) -/
namespace IcyVerif.SixelShadow
open IcyVerif.SixelQueue IcyVerif.SixelLoad

theorem removeShadowed_cons (cfg : Cfg) (new old : Img) (rest : List Img) :
    removeShadowed cfg new (old :: rest) =
      if covers cfg new old then removeShadowed cfg new rest else old :: removeShadowed cfg new rest := rfl

/-- the loop invariant: with `vec = pre ++ suf`, `i = pre.len()`, `sixel_count = vec.len()` and more fuel than `suf` is
    long, the loop ends with `pre ++ (suf without the covered images)` — no index leaves the vector -/
theorem shadowLoop_spec (cfg : Cfg) (new : Img) : ∀ (suf pre : List Img) (fuel : Nat), suf.length < fuel →
    shadowLoop cfg new fuel (pre ++ suf) pre.length (pre.length + suf.length) = .ok (pre ++ removeShadowed cfg new suf) := by
  intro suf
  induction suf with
  | nil =>
    intro pre fuel hf
    cases fuel with
    | zero => simp at hf
    | succ f => simp [shadowLoop, removeShadowed]
  | cons old rest ih =>
    intro pre fuel hf
    cases fuel with
    | zero => simp at hf
    | succ f =>
      have hf' : rest.length < f := by simp only [List.length_cons] at hf; omega
      have hlt : pre.length < pre.length + (old :: rest).length := by simp only [List.length_cons]; omega
      have hget : (pre ++ old :: rest)[pre.length]? = some old := by simp
      rw [shadowLoop, if_pos hlt, hget]
      simp only []
      rw [removeShadowed_cons]
      cases hc : covers cfg new old with
      | true =>
        have hrm : vecRemove (pre ++ old :: rest) pre.length = .ok (pre ++ rest) := by
          unfold vecRemove
          rw [if_pos (by simp only [List.length_append, List.length_cons]; omega)]
          rw [List.eraseIdx_append_of_length_le (Nat.le_refl _)]
          simp
        simp only [if_true, hrm]
        have hne : ¬ (pre.length + (old :: rest).length = 0) := by simp only [List.length_cons]; omega
        rw [if_neg hne]
        have hcnt : pre.length + (old :: rest).length - 1 = pre.length + rest.length := by
          simp only [List.length_cons]; omega
        rw [hcnt]
        exact ih pre f hf'
      | false =>
        simp only [Bool.false_eq_true, if_false]
        have h1 : pre ++ old :: rest = (pre ++ [old]) ++ rest := by simp
        have h2 : pre.length + 1 = (pre ++ [old]).length := by simp
        have h3 : pre.length + (old :: rest).length = (pre ++ [old]).length + rest.length := by
          simp only [List.length_cons, List.length_append, List.length_nil]; omega
        rw [h1, h2, h3, ih (pre ++ [old]) f hf']
        simp

/-- **the shadow-removal loop is total**: for every layer content and every new image, `len + 1` iterations are enough,
    no `vec[i]` / `vec.remove(i)` is out of range, `sixel_count` never underflows, and the result is the list without the
    covered images -/
theorem shadowLoop_total (cfg : Cfg) (new : Img) (vec : List Img) :
    shadowLoop cfg new (vec.length + 1) vec 0 vec.length = .ok (removeShadowed cfg new vec) := by
  have h := shadowLoop_spec cfg new vec [] (vec.length + 1) (Nat.lt_succ_self _)
  simpa using h

theorem placeX_eq (cfg : Cfg) (layer : List Img) (img : Img) : placeX cfg layer img = .ok (place cfg layer img) := by
  unfold placeX place
  rw [shadowLoop_total]

theorem pollLoopX_eq (cfg : Cfg) : ∀ (q : List (Nat × Option Res)) (layer : List Img) (log : List Nat) (upd : Bool),
    pollLoopX cfg q layer log upd = .ok (pollLoop cfg q layer log upd) := by
  intro q
  induction q with
  | nil => intro layer log upd; rfl
  | cons e q ih =>
    intro layer log upd
    obtain ⟨id, h⟩ := e
    cases h with
    | none => rfl
    | some r =>
      cases r with
      | ok img =>
        simp only [pollLoopX, pollLoop, isFinished, join, Option.isSome, Bool.not_true, Bool.false_eq_true, if_false, placeX_eq]
        exact ih _ _ _
      | err => rfl
      | panicked =>
        simp only [pollLoopX, pollLoop, isFinished, join, Option.isSome, Bool.not_true, Bool.false_eq_true, if_false]
        exact ih _ _ _

theorem pollX_eq (cfg : Cfg) (s : St) : pollX cfg s = .ok (poll cfg s) := pollLoopX_eq cfg _ _ _ _

theorem joinLoopX_eq (cfg : Cfg) : ∀ (sched : List (List Nat)) (s : St), joinLoopX cfg sched s = .ok (joinLoop cfg sched s) := by
  intro sched
  induction sched with
  | nil =>
    intro s
    simp only [joinLoopX, joinLoop]
    split <;> rfl
  | cons fin rest ih =>
    intro s
    simp only [joinLoopX, joinLoop, pollX_eq]
    split
    · rfl
    · cases hr : (poll cfg (finishAll cfg s fin)).2 with
      | ok u => simp only [hr]; exact ih _
      | err => simp only [hr]
      | blocked => simp only [hr]

theorem loadFromX_eq (cfg : Cfg) (s0 : St) (sched : List (List Nat)) : loadFromX cfg s0 sched = .ok (loadFrom cfg s0 sched) := by
  simp only [loadFromX, loadFrom, joinLoopX_eq]
  cases hr : (joinLoop cfg sched s0).2 with
  | done => simp only [hr]; split <;> rfl
  | err => simp only [hr]
  | blocked => simp only [hr]
  | waiting => simp only [hr]

theorem loadSixelsX_eq (cfg : Cfg) (ids : List Nat) (sched : List (List Nat)) :
    loadSixelsX cfg ids sched = .ok (loadSixels cfg ids sched) := loadFromX_eq cfg _ sched

end IcyVerif.SixelShadow
