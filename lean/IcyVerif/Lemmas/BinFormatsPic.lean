import IcyVerif.Lemmas.BinFormatsPlace
import IcyVerif.Lemmas.BinFormatsBasic
set_option linter.unusedSimpArgs false
set_option linter.unusedVariables false
/-!
# "The same picture" (C05) and the cell every attribute-byte format loads

* `SamePicture f p g` — the statement of the property for one picture `p` and the buffer `g` loaded from its file.
* `shownCell c` — what the attribute-byte formats (XBin, BIN, ADF, IDF) load for a cell `c`: the same character, the
  foreground index the cell is DISPLAYED with (bold folded in), the background, blink, the font page.
* `same_of_rows` — a loaded buffer whose rows are `shownCell` of the picture's rows shows the same picture.
-/
namespace IcyVerif.BinFormats
open IcyVerif.XbCompress IcyVerif.Gen

/-- the property for one picture: size, no allocated rows outside the picture, mode, every cell (character, displayed
    colours through the two palettes, blink, font page), and — where the format embeds them — fonts and palette -/
structure SamePicture (f : Fmt) (p : Pic) (g : LBuf) : Prop where
  width : g.bw = p.w
  height : g.bh = (p.h : Int)
  rows_alloc : (g.lines.length : Int) ≤ g.bh
  mode : isIce g.ice = isIce p.ice
  cells : ∀ y x, y < p.h → x < p.w →
    cellSame p.pal g.pal (p.cell x y) (g.getCell x y) = true ∧ (g.getCell x y).attr.page = (p.cell x y).attr.page
  fonts : f.embeds = true → fontsSame p g = true
  palette : f.embeds = true → palSame p g = true

/-- the decidable check of the driver says the same -/
theorem picSame_of_same (f : Fmt) (p : Pic) (g : LBuf) (h : SamePicture f p g) : picSame true f p g = true := by
  unfold picSame
  simp only [Bool.and_eq_true, beq_iff_eq, decide_eq_true_eq, List.all_eq_true, List.mem_range, Bool.true_or, if_true,
    Bool.or_eq_true, Bool.not_eq_true', Bool.not_true, Bool.false_or]
  refine ⟨⟨⟨⟨⟨h.width, h.height⟩, h.rows_alloc⟩, h.mode⟩, fun y hy x hx => ⟨(h.cells y x hy hx).1, ?_⟩⟩, ?_⟩
  · exact (h.cells y x hy hx).2.symm
  · by_cases he : f.embeds = true
    · exact Or.inr ⟨h.fonts he, h.palette he⟩
    · left; simpa using he

def shownCell (c : Cell) : Cell :=
  ⟨c.ch, ⟨shownFg c.attr.fg (isBold c.attr), c.attr.bg, if isBlink c.attr then Xb.attrBlink else 0, c.attr.page⟩⟩

theorem isBold_of_flags (fl : Nat) (fg bg pg : Nat) (h : fl = 0 ∨ fl = Xb.attrBlink) : isBold ⟨fg, bg, fl, pg⟩ = false := by
  cases h with
  | inl h => subst h; show (0 &&& Xb.attrBold == Xb.attrBold) = false; decide
  | inr h => subst h; show (Xb.attrBlink &&& Xb.attrBold == Xb.attrBold) = false; decide

theorem isBlink_flags (b : Bool) (fg bg pg : Nat) : isBlink ⟨fg, bg, if b then Xb.attrBlink else 0, pg⟩ = b := by
  cases b
  · show (0 &&& Xb.attrBlink == Xb.attrBlink) = false; decide
  · show (Xb.attrBlink &&& Xb.attrBlink == Xb.attrBlink) = true; decide

theorem dispFg_shown (pal : List Rgb) (c : Cell) : dispFg pal (shownCell c) = dispFg pal c := by
  unfold dispFg shownCell
  have hb : isBold ⟨shownFg c.attr.fg (isBold c.attr), c.attr.bg, if isBlink c.attr then Xb.attrBlink else 0, c.attr.page⟩ = false := by
    apply isBold_of_flags
    by_cases h : isBlink c.attr = true <;> simp [h]
  simp only [hb, Bool.false_eq_true, false_and, if_false]
  rfl

theorem cellSame_shown (pal : List Rgb) (c : Cell) : cellSame pal pal c (shownCell c) = true := by
  unfold cellSame
  rw [dispFg_shown]
  have hk : isBlink (shownCell c).attr = isBlink c.attr := isBlink_flags _ _ _ _
  have hbg : dispBg pal (shownCell c) = dispBg pal c := rfl
  have hch : (shownCell c).ch = c.ch := rfl
  simp [hk, hbg, hch]

theorem shownCell_visible (c : Cell) : isVisible (shownCell c) = true := by
  unfold isVisible shownCell
  by_cases h : isBlink c.attr = true
  · simp only [h, if_true]; show (Xb.attrBlink &&& Xb.attrInvisible != Xb.attrInvisible) = true; decide
  · have h' : isBlink c.attr = false := by simpa using h
    simp only [h', Bool.false_eq_true, if_false]; show (0 &&& Xb.attrInvisible != Xb.attrInvisible) = true; decide

theorem getD_map' {α β : Type} (f : α → β) (l : List α) (i : Nat) (d : α) (d' : β) (h : i < l.length) :
    (l.map f).getD i d' = f (l.getD i d) := by
  rw [List.getD_eq_getElem?_getD, List.getD_eq_getElem?_getD, List.getElem?_map, List.getElem?_eq_getElem h]; rfl

theorem getD_map_map {α β : Type} (f : α → β) (rows : List (List α)) (y x : Nat) (d : α) (d' : β)
    (hy : y < rows.length) (hx : x < (rows.getD y []).length) :
    ((rows.map (fun r => r.map f)).getD y []).getD x d' = f ((rows.getD y []).getD x d) := by
  rw [getD_map' (fun r => r.map f) rows y [] [] hy]
  exact getD_map' f _ x d d' hx

theorem row_length_of_wf (p : Pic) (hwf : wellFormed p = true) (y : Nat) (hy : y < p.h) :
    (p.rows.getD y []).length = p.w ∧ y < p.rows.length := by
  unfold wellFormed at hwf
  simp only [Bool.and_eq_true, beq_iff_eq, List.all_eq_true, decide_eq_true_eq] at hwf
  obtain ⟨⟨h1, h2⟩, _⟩ := hwf
  have hy' : y < p.rows.length := by omega
  refine ⟨?_, hy'⟩
  have : p.rows.getD y [] ∈ p.rows := by
    rw [List.getD_eq_getElem?_getD, List.getElem?_eq_getElem hy']; simp
  exact h2 _ this

/-- a loaded buffer whose rows are the `shownCell`s of the picture's rows (layer at least as wide as the picture)
    shows the picture's cells -/
theorem cells_of_rows (p : Pic) (g : LBuf) (hwf : wellFormed p = true) (hlw : p.w ≤ g.lw) (hlh : g.lh = (p.h : Int))
    (hpal : g.pal = p.pal) (hlines : g.lines = (p.rows.map (fun r => r.map shownCell)).map (partRow g.lw)) :
    ∀ y x, y < p.h → x < p.w →
      cellSame p.pal g.pal (p.cell x y) (g.getCell x y) = true ∧ (g.getCell x y).attr.page = (p.cell x y).attr.page := by
  intro y x hy hx
  obtain ⟨hrl, hyr⟩ := row_length_of_wf p hwf y hy
  have hcell : g.getCell x y = shownCell (p.cell x y) := by
    unfold LBuf.getCell Pic.cell
    have h1 : x < g.lw ∧ (y : Int) < g.lh := ⟨by omega, by rw [hlh]; omega⟩
    simp only [h1, and_self, if_true]
    rw [hlines, getD_map_partRow _ _ _ (by simpa using hyr)]
    have hx' : x < ((p.rows.map (fun r => r.map shownCell)).getD y []).length := by
      rw [getD_map' (fun r => r.map shownCell) p.rows y [] [] hyr, List.length_map, hrl]; exact hx
    rw [getD_partRow _ _ _ hx', getD_map_map shownCell p.rows y x Cell.invisible Cell.invisible hyr (by rw [hrl]; exact hx)]
    simp [shownCell_visible]
  rw [hcell, hpal]
  exact ⟨cellSame_shown _ _, rfl⟩

theorem partRow_self (w : Nat) (row : List Cell) (h : row.length = w) : partRow w row = row := by
  unfold partRow; simp [h]

end IcyVerif.BinFormats
