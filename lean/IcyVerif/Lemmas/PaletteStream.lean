import IcyVerif.Model.PalStream
import IcyVerif.Lemmas.PaletteIdx
set_option linter.unusedSimpArgs false
/-! Stream-level palette laws (C16): the invariant "an index that was handed out for a colour resolves to that colour",
    stability of every valid index under everything except an OSC 4 of that very index, palette growth bounds, and what
    kind of operations each decoder (SGR, `CSI t`, OSC, Tundra) can produce at all. -/
namespace IcyVerif.PalStream
open IcyVerif.Palette IcyVerif.Gen.PalStream

/-! ## one operation -/

/-- the operation redefines palette entry `i` -/
def Op.sets (i : Nat) : Op → Prop
  | .set k _ => k = i
  | _ => False

instance (i : Nat) (op : Op) : Decidable (op.sets i) := by
  cases op <;> simp only [Op.sets] <;> infer_instance

/-- the operation is an OSC-4 style redefinition -/
def Op.isSet : Op → Bool
  | .set _ _ => true
  | _ => false

theorem not_sets_of_not_isSet {op : Op} (h : op.isSet = false) (i : Nat) : ¬ op.sets i := by
  cases op <;> simp_all [Op.isSet, Op.sets]

theorem exec_len (s : St) (op : Op) : s.pal.length ≤ (exec s op).pal.length := by
  cases op <;> simp only [exec] <;> first | exact Nat.le_refl _ | exact insertColor_len _ _ | exact setColor_len _ _ _

/-- no operation except `set i` changes what a valid index `i` holds -/
theorem exec_getD (s : St) (op : Op) (i : Nat) (hi : i < s.pal.length) (h : ¬ op.sets i) :
    (exec s op).pal.getD i black = s.pal.getD i black := by
  cases op with
  | set k c => exact setColor_getD_ne s.pal k i c (fun e => h e.symm)
  | insFg c => exact insertColor_getD_lt s.pal c i hi
  | insBg c => exact insertColor_getD_lt s.pal c i hi
  | ins c => exact insertColor_getD_lt s.pal c i hi
  | _ => rfl

theorem run_cons (s : St) (op : Op) (ops : List Op) : run s (op :: ops) = run (exec s op) ops := rfl
theorem run_append (s : St) (a b : List Op) : run s (a ++ b) = run (run s a) b := by
  simp [run, List.foldl_append]

theorem run_len (ops : List Op) (s : St) : s.pal.length ≤ (run s ops).pal.length := by
  induction ops generalizing s with
  | nil => exact Nat.le_refl _
  | cons op ops ih => exact Nat.le_trans (exec_len s op) (ih (exec s op))

/-- HISTORIES: a valid index keeps its colour through every history without an OSC 4 of that index -/
theorem run_getD (ops : List Op) (s : St) (i : Nat) (hi : i < s.pal.length) (h : ∀ op ∈ ops, ¬ op.sets i) :
    (run s ops).pal.getD i black = s.pal.getD i black := by
  induction ops generalizing s with
  | nil => rfl
  | cons op ops ih =>
    rw [run_cons, ih (exec s op) (Nat.lt_of_lt_of_le hi (exec_len s op)) (fun o ho => h o (by simp [ho]))]
    exact exec_getD s op i hi (h op (by simp))

/-! ## the colour an index was handed out for -/

/-- what the caret colours were last SELECTED BY COLOUR for (`none`: selected by index / reset / entry redefined since) -/
structure Want where
  fg : Option Rgb
  bg : Option Rgb
  deriving DecidableEq, Repr

def Want.none : Want := ⟨Option.none, Option.none⟩

def track (s : St) (w : Want) : Op → Want
  | .selFg _ => { w with fg := Option.none }
  | .selBg _ => { w with bg := Option.none }
  | .insFg c => { w with fg := some c }
  | .insBg c => { w with bg := some c }
  | .ins _ => w
  | .swap => ⟨w.bg, w.fg⟩
  | .reset => Want.none
  | .set k _ => ⟨if s.fg = k then Option.none else w.fg, if s.bg = k then Option.none else w.bg⟩
  | .put _ => w

def trackRun : St → Want → List Op → Want
  | _, w, [] => w
  | s, w, op :: ops => trackRun (exec s op) (track s w op) ops

/-- a wanted colour sits at the caret's index, inside the palette -/
def Holds (pal : List Rgb) (idx : Nat) : Option Rgb → Prop
  | Option.none => True
  | some c => idx < pal.length ∧ pal.getD idx black = c

def Good (s : St) (w : Want) : Prop := Holds s.pal s.fg w.fg ∧ Holds s.pal s.bg w.bg

theorem Holds.mono {p q : List Rgb} {i : Nat} {o : Option Rgb} (h : Holds p i o) (hl : p.length ≤ q.length)
    (hq : i < p.length → q.getD i black = p.getD i black) : Holds q i o := by
  cases o with
  | none => trivial
  | some c => exact ⟨Nat.lt_of_lt_of_le h.1 hl, (hq h.1).trans h.2⟩

theorem holds_insert (p : List Rgb) (c : Rgb) : Holds (insertColor p c).1 (insertColor p c).2 (some c) :=
  ⟨insertColor_idx_lt p c, insertColor_getD p c⟩

theorem holds_after_insert {p : List Rgb} {i : Nat} {o : Option Rgb} (c : Rgb) (h : Holds p i o) :
    Holds (insertColor p c).1 i o :=
  h.mono (insertColor_len p c) (fun hi => insertColor_getD_lt p c i hi)

theorem holds_after_set {p : List Rgb} {i k : Nat} {o : Option Rgb} (c : Rgb) (h : Holds p i o) :
    Holds (setColor p k c) i (if i = k then Option.none else o) := by
  by_cases e : i = k
  · simp [e, Holds]
  · rw [if_neg e]; exact h.mono (setColor_len p k c) (fun _ => setColor_getD_ne p k i c e)

/-- THE INVARIANT, one step -/
theorem good_exec (s : St) (w : Want) (op : Op) (h : Good s w) : Good (exec s op) (track s w op) := by
  obtain ⟨hf, hb⟩ := h
  cases op with
  | selFg i => exact ⟨trivial, hb⟩
  | selBg i => exact ⟨hf, trivial⟩
  | insFg c => exact ⟨holds_insert s.pal c, holds_after_insert c hb⟩
  | insBg c => exact ⟨holds_after_insert c hf, holds_insert s.pal c⟩
  | ins c => exact ⟨holds_after_insert c hf, holds_after_insert c hb⟩
  | swap => exact ⟨hb, hf⟩
  | reset => exact ⟨trivial, trivial⟩
  | set k c => exact ⟨holds_after_set c hf, holds_after_set c hb⟩
  | put t => exact ⟨hf, hb⟩

theorem trackRun_append (s : St) (w : Want) (a b : List Op) :
    trackRun s w (a ++ b) = trackRun (run s a) (trackRun s w a) b := by
  induction a generalizing s w with
  | nil => rfl
  | cons op a ih => simp only [List.cons_append, trackRun, run_cons]; exact ih _ _

/-- THE INVARIANT, every history -/
theorem good_run (ops : List Op) (s : St) (w : Want) (h : Good s w) : Good (run s ops) (trackRun s w ops) := by
  induction ops generalizing s w with
  | nil => exact h
  | cons op ops ih => exact ih (exec s op) (track s w op) (good_exec s w op h)

theorem good_none (s : St) : Good s Want.none := ⟨trivial, trivial⟩

/-! ## growth -/

def Op.bound : Op → Nat
  | .set k _ => k + 1
  | _ => 0

theorem setColor_length (p : List Rgb) (i : Nat) (c : Rgb) : (setColor p i c).length = max p.length (i + 1) := by
  unfold setColor; split
  · simp only [List.length_set, List.length_append, List.length_replicate]; omega
  · simp only [List.length_set]; omega

theorem insertColor_length_le (p : List Rgb) (c : Rgb) : (insertColor p c).1.length ≤ p.length + 1 := by
  unfold insertColor; split <;> simp

theorem exec_len_le (s : St) (op : Op) (B : Nat) (hb : op.bound ≤ B) :
    (exec s op).pal.length ≤ max s.pal.length B + 1 := by
  cases op with
  | set k c => simp only [exec, setColor_length]; simp only [Op.bound] at hb; omega
  | insFg c => have := insertColor_length_le s.pal c; simp only [exec]; omega
  | insBg c => have := insertColor_length_le s.pal c; simp only [exec]; omega
  | ins c => have := insertColor_length_le s.pal c; simp only [exec]; omega
  | _ => simp only [exec]; omega

/-- a history whose redefinitions stay below `B` grows the palette by at most one entry per operation beyond `B` -/
theorem run_len_le (ops : List Op) (s : St) (B : Nat) (hb : ∀ op ∈ ops, op.bound ≤ B) :
    (run s ops).pal.length ≤ max s.pal.length B + ops.length := by
  induction ops generalizing s with
  | nil => simp [run]; omega
  | cons op ops ih =>
    have h1 := exec_len_le s op B (hb op (by simp))
    have h2 := ih (exec s op) (fun o ho => hb o (by simp [ho]))
    rw [run_cons]; simp only [List.length_cons]; omega

/-! ## duplicates -/

theorem insertColor_nodup (p : List Rgb) (c : Rgb) (h : p.Nodup) : (insertColor p c).1.Nodup := by
  unfold insertColor; split
  · exact h
  · rename_i hn
    have : c ∉ p := fun hc => hn ((firstIdx_lt_iff c p).mpr hc)
    simp only []
    rw [List.nodup_append]
    exact ⟨h, by simp, fun a ha b hb => by simp at hb; subst hb; exact fun e => this (e ▸ ha)⟩

theorem exec_nodup (s : St) (op : Op) (hs : op.isSet = false) (h : s.pal.Nodup) : (exec s op).pal.Nodup := by
  cases op with
  | set k c => simp [Op.isSet] at hs
  | insFg c => exact insertColor_nodup s.pal c h
  | insBg c => exact insertColor_nodup s.pal c h
  | ins c => exact insertColor_nodup s.pal c h
  | _ => exact h

theorem run_nodup (ops : List Op) (s : St) (hs : ∀ op ∈ ops, op.isSet = false) (h : s.pal.Nodup) :
    (run s ops).pal.Nodup := by
  induction ops generalizing s with
  | nil => exact h
  | cons op ops ih =>
    exact ih (exec s op) (fun o ho => hs o (by simp [ho])) (exec_nodup s op (hs op (by simp)) h)

/-! ## what the decoders can produce -/

theorem toOp_noSet (c : COp) : c.toOp.isSet = false := by cases c <;> rfl

theorem map_toOp_noSet (l : List COp) : ∀ op ∈ l.map COp.toOp, op.isSet = false := by
  intro op h
  obtain ⟨c, _, rfl⟩ := List.mem_map.mp h
  exact toOp_noSet c

/-- SGR (and with it 38;5;n, 38;2;r;g;b) never redefines a palette entry -/
theorem sgrOps_noSet (nums : List Nat) : ∀ op ∈ (sgrOps nums).1, op.isSet = false := map_toOp_noSet _

theorem tOps_noSet (nums : List Nat) : ∀ op ∈ (tOps nums).1, op.isSet = false := map_toOp_noSet _

/-- loading a Tundra file only ever INSERTS colours -/
theorem tndOps_noSet (data : List Nat) (ops : List Op) (e : End) (h : tndOps data = some (ops, e)) :
    ∀ op ∈ ops, op.isSet = false := by
  unfold tndOps at h
  split at h
  · cases h
  · split at h
    · cases h
    · simp only [Option.some.injEq, Prod.mk.injEq] at h
      rw [← h.1]; exact map_toOp_noSet _

theorem oscSets_le (ms : List (List Nat × Rgb)) : ∀ kc ∈ (oscSets ms).1, kc.1 ≤ oscMaxIndex := by
  induction ms with
  | nil => simp [oscSets]
  | cons m ms ih =>
    obtain ⟨ds, c⟩ := m
    simp only [oscSets]
    split
    · exact ih
    · split
      · simp
      · split
        · exact ih
        · intro kc h
          simp only [List.mem_cons] at h
          rcases h with e | e
          · subst e; simp only []; omega
          · exact ih kc e

/-- OSC produces nothing but redefinitions of entries 0..=255; it never moves the caret colours -/
theorem oscOps_onlySet (payload : List Nat) :
    ∀ op ∈ (oscOps payload).1, ∃ k c, op = .set k c ∧ k ≤ oscMaxIndex := by
  unfold oscOps
  intro op h
  simp only [] at h
  split at h
  · simp only [setOps, List.mem_map] at h
    obtain ⟨kc, hk, rfl⟩ := h
    exact ⟨kc.1, kc.2, rfl, oscSets_le _ kc hk⟩
  · split at h <;> simp at h

/-! ## cells, concrete SGR shapes -/

theorem cells_put (s : St) (a b : List Op) (t : Nat) : (t, (run s a).fg, (run s a).bg) ∈ cells s (a ++ .put t :: b) := by
  induction a generalizing s with
  | nil => simp [cells, run]
  | cons op a ih =>
    cases op with
    | put u => simp only [List.cons_append, cells, run_cons, exec]; exact List.mem_cons_of_mem _ (ih s)
    | _ => simp only [List.cons_append, cells, run_cons]; exact ih _

theorem sgrArm_38 : sgrArm 38 = some (38, 38, 5, 0, 0) := by decide
theorem sgrArm_48 : sgrArm 48 = some (48, 48, 6, 0, 0) := by decide

theorem sgrOps_fg256 (n : Nat) (h : n ≤ 255) : sgrOps [38, 5, n] = ([.insFg (xterm n)], true) := by
  have h' : n ≤ extMax := h
  simp [sgrOps, sgrOpsC, sgrGo, sgrOne, sgrArm_38, extColor, extIndexed, h', COp.toOp]

theorem sgrOps_bg256 (n : Nat) (h : n ≤ 255) : sgrOps [48, 5, n] = ([.insBg (xterm n)], true) := by
  have h' : n ≤ extMax := h
  simp [sgrOps, sgrOpsC, sgrGo, sgrOne, sgrArm_48, extColor, extIndexed, h', COp.toOp]

theorem sgrOps_fgRgb (c : Rgb) (h : c.Valid) : sgrOps [38, 2, c.r, c.g, c.b] = ([.insFg c], true) := by
  obtain ⟨h1, h2, h3⟩ := h
  have e1 : c.r ≤ extMax := by show c.r ≤ 255; omega
  have e2 : c.g ≤ extMax := by show c.g ≤ 255; omega
  have e3 : c.b ≤ extMax := by show c.b ≤ 255; omega
  simp [sgrOps, sgrOpsC, sgrGo, sgrOne, sgrArm_38, extColor, extIndexed, extRgb, e1, e2, e3, COp.toOp]

/-! ## `fill_to_16`, `resize` -/

theorem getD_append_left' (p q : List Rgb) (i : Nat) (hi : i < p.length) : (p ++ q).getD i black = p.getD i black := by
  simp [List.getD_eq_getElem?_getD, List.getElem?_append_left hi]

theorem fillTo16_getD (p : List Rgb) (i : Nat) (hi : i < p.length) : (fillTo16 p).getD i black = p.getD i black :=
  getD_append_left' _ _ i hi

theorem fillTo16_length (p : List Rgb) : (fillTo16 p).length = max p.length dosDefault.length := by
  simp [fillTo16]; omega

theorem resize_length (p : List Rgb) (n : Nat) : (resize p n).length = n := by
  unfold resize
  simp only []
  split
  · rename_i h
    split
    · simp only [List.length_take, List.length_append, List.length_replicate]; omega
    · rename_i h2
      simp only [List.length_append, List.length_replicate] at h2 ⊢
      have := fillTo16_length p
      omega
  · split
    · simp only [List.length_take]; omega
    · omega

/-- `resize` keeps every index that survives it -/
theorem resize_getD (p : List Rgb) (n i : Nat) (hi : i < p.length) (hn : i < n) :
    (resize p n).getD i black = p.getD i black := by
  have take_getD : ∀ (q : List Rgb) (m : Nat), i < m → (q.take m).getD i black = q.getD i black := by
    intro q m hm
    simp [List.getD_eq_getElem?_getD, List.getElem?_take, hm]
  have hfill : i < (fillTo16 p).length := by rw [fillTo16_length]; omega
  unfold resize
  simp only []
  split
  · split
    · rw [take_getD _ _ hn, getD_append_left' _ _ i hfill]; exact fillTo16_getD p i hi
    · rw [getD_append_left' _ _ i hfill]; exact fillTo16_getD p i hi
  · split
    · exact take_getD _ _ hn
    · rfl

end IcyVerif.PalStream
