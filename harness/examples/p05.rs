use icy_engine::*;
use std::path::Path;
fn sauce(dt: u8, ft: u8, t1: u16, t2: u16, flags: u8) -> Vec<u8> {
    let mut v = vec![0x1A];
    v.extend(b"SAUCE00");
    v.extend(std::iter::repeat(b' ').take(75));
    v.extend(b"20240101");
    v.extend([0, 0, 0, 0, dt, ft]);
    v.extend(t1.to_le_bytes());
    v.extend(t2.to_le_bytes());
    v.extend([0, 0, 0, 0, 0, flags]);
    v.extend(std::iter::repeat(0).take(22));
    v
}
fn main() {
    let mut o = SaveOptions::new();
    o.save_sauce = true;
    o.lossles_output = true;
    // bin with an ANSI-type SAUCE of width 301
    let mut d: Vec<u8> = Vec::new();
    for i in 0..602 { d.push(0x41 + (i % 7) as u8); d.push(7); }
    d.extend(sauce(1, 1, 301, 2, 0));
    let l = Buffer::from_bytes(Path::new("a.bin"), false, &d).unwrap();
    println!("bin/ansi-sauce 301: {}x{}", l.get_width(), l.get_height());
    match l.to_bytes("bin", &o) {
        Ok(b) => { let l2 = Buffer::from_bytes(Path::new("a.bin"), false, &b).unwrap(); println!("  resaved -> {}x{}", l2.get_width(), l2.get_height()); }
        Err(e) => println!("  save err {}", e),
    }
    // xbin 512 flag without font
    let mut d: Vec<u8> = b"XBIN\x1a".to_vec();
    d.extend([2, 0, 1, 0, 16, 0x10]);
    d.extend([0x41, 0x0F, 0x42, 0x07]);
    let l = Buffer::from_bytes(Path::new("a.xb"), false, &d).unwrap();
    println!("xb 512 nofont: {}x{} page {}", l.get_width(), l.get_height(), l.get_char((0,0)).get_font_page());
    match l.to_bytes("xb", &o) { Ok(_) => println!("  save ok"), Err(e) => println!("  save err {}", e) }
    // idf 201 rows
    let mut d: Vec<u8> = b"\x041.4".to_vec();
    d.extend([0,0,0,0,0,0,200,0]);
    for _ in 0..201 { d.push(0x41); d.push(7); }
    d.extend(vec![0u8; 4096+48]);
    let l = Buffer::from_bytes(Path::new("a.idf"), false, &d).unwrap();
    println!("idf: {}x{}", l.get_width(), l.get_height());
    match l.to_bytes("idf", &o) { Ok(_) => println!("  save ok"), Err(e) => println!("  save err {}", e) }
    // sauce only file
    let s = sauce(6, 0, 3, 1, 0);
    let l = Buffer::from_bytes(Path::new("a.bin"), false, &s[1..]);
    println!("sauce-only bin: {:?}", l.map(|b| (b.get_width(), b.get_height())).map_err(|e| e.to_string()));
}
