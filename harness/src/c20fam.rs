//! C20 generator families that walk a state graph instead of sampling it (used by `c20.rs`):
//!  * `igs_pairs`      two-command IGS sequences: a command ABANDONED in every lexer sub-state, followed by every command kind
//!  * `igs_blocks`     every two-dimensional IGS block command (blit / fill / grab / box) with both extents huge
//!  * `rip_text_styles` every `|Y` font / direction / size combination followed by every text-drawing command
use crate::util::*;
use icy_engine::igs::{CommandExecutor, DrawExecutor};
use icy_engine::{igs, Buffer, BufferParser, Caret};
use std::collections::BTreeSet;
use std::panic::AssertUnwindSafe;
use std::sync::{Arc, Mutex};

// ------------------------------------------------------------------------------------------------ IGS: abandoned command x next command
/// abstract lexer state of the real parser after `bytes` (what the lexer's further behaviour can depend on, values
/// abstracted away): main state, number of pending numbers, loop sub-state, shape of the loop parameter list, `::` flag,
/// a loop still running, pending string.  `None`: the real code panicked while reading the (well-formed) prefix.
fn igs_abstract_state(bytes: &[u8]) -> Option<(String, String)> {
    let mut buf = Buffer::new((80, 25));
    buf.is_terminal_buffer = true;
    let mut caret = Caret::default();
    let exe: Arc<Mutex<Box<dyn CommandExecutor>>> = Arc::new(Mutex::new(Box::<DrawExecutor>::default()));
    let mut p = igs::Parser::new(exe);
    for b in bytes {
        let (pp, bb, cc) = (&mut p, &mut buf, &mut caret);
        if catch(AssertUnwindSafe(|| pp.print_char(bb, 0, cc, *b as char).is_ok())).is_err() {
            return None;
        }
    }
    let d = p.verif_digest();
    let st = match d.0.as_str() {
        s if s.starts_with("ReadCommand(") => {
            let name = &s["ReadCommand(".len()..s.len() - 1];
            match name {
                "WriteText" if d.1.len() >= 3 => "W-text".to_string(),
                "WriteText" => "W-numbers".to_string(),
                "LoopCommand" if d.1.len() >= 4 => format!("loop-{}", d.3),
                "LoopCommand" => "loop-numbers".to_string(),
                _ => "generic".to_string(),
            }
        }
        s => s.to_string(),
    };
    // the class (printed into the evidence) names where the first command was left; the key adds everything else
    let class = format!("{}/stale-{}", st, d.3);
    let key = format!(
        "{}|n{}|s{}|lp{}:{}|dc{}|run{}",
        class,
        d.1.len().min(6),
        d.2.is_empty(),
        d.5.len().min(3),
        d.5.last().map(|g| g.len().min(3)).unwrap_or(0),
        d.6,
        d.7.is_some()
    );
    Some((class, key))
}

/// first commands: every prefix of each is a place where a command can be abandoned
const IGS_FIRST: &[&str] = &[
    "G#L>10,20,30,40:",
    "G#W>10,20,Hello@",
    "G#&>0,3,1,0,L,4,0,0,x,y:",
    "G#&>0,3,1,0,L,8,0,0,x,y:+1,+1,x,y:",
    "G#&>5,1,2,0,P|2,x,y:",
    "G#&>0,2,1,0,W@4,10,10,ab,cd:",
    "G#C>1,2:\n",
    "G#C>1,2:_\n",
    "G#C>1,2:L>0,0,5,",
    "G#C>1,2:\r\n&>0,3,1,0,L,",
];
/// what ends the abandoned command: nothing (cut off), a character no field accepts, end of line, the start of the next
/// IGS sequence, a field / command terminator in the wrong place
const IGS_TAILS: &[&str] = &["", "x", "\r\n", "\n", "\r", "G", ":", ",", "@", "_", "4x", "|"];

/// every command kind, well-formed: each letter of the table with its usual number of parameters, `W` with its text, and
/// `&` loops (one group, two groups, `|` separator, a text loop), each after `G#`; the lexically distinct kinds also
/// chained without `G#` and on a new line
fn igs_next_commands(letters: &[u8], arity: &dyn Fn(u8) -> usize) -> Vec<(String, Vec<u8>)> {
    let mut v: Vec<(String, Vec<u8>)> = Vec::new();
    let loops: [&str; 4] = ["&>0,3,1,0,L,4,0,0,x,y:", "&>0,3,1,0,L,8,0,0,x,y:+1,+1,x,y:", "&>5,1,2,0,P|2,x,y:", "&>0,2,1,0,W@4,10,10,ab,cd:"];
    for c in letters {
        let mut body: Vec<u8> = Vec::new();
        match *c {
            b'&' => continue,
            b'W' => body.extend_from_slice(b"W>1,2,Hi@"),
            c => {
                body.push(c);
                body.push(b'>');
                let n = arity(c);
                for i in 0..n {
                    if i > 0 {
                        body.push(b',');
                    }
                    body.push(b'1');
                }
                body.push(b':');
            }
        }
        v.push((format!("{}", *c as char), [&b"G#"[..], &body].concat()));
    }
    for (i, l) in loops.iter().enumerate() {
        v.push((format!("&{}", i), [&b"G#"[..], l.as_bytes()].concat()));
        v.push((format!("chained-&{}", i), l.as_bytes().to_vec()));
        v.push((format!("newline-&{}", i), [&b"\r\nG#"[..], l.as_bytes()].concat()));
    }
    for (n, s) in [("chained-L", &b"L>1,1,9,9:"[..]), ("chained-W", b"W>1,2,Hi@"), ("newline-L", b"\r\nG#L>1,1,9,9:"), ("text", b"hello\r\n"), ("unknown", b"G#e>1:")] {
        v.push((n.to_string(), s.to_vec()));
    }
    v
}

/// two-command sequences over the lexer state graph: (every prefix of every first command + every tail) x (every next
/// command).  Quick tier: one representative per distinct abstract lexer state reached (so the product is exhaustive
/// over the STATES); thorough: every prefix + tail.  `count` receives one bucket per generated case.
pub fn igs_pairs(thorough: bool, letters: &[u8], arity: &dyn Fn(u8) -> usize, count: &mut dyn FnMut(&str)) -> Vec<Vec<u8>> {
    let nexts = igs_next_commands(letters, arity);
    let mut seen: BTreeSet<String> = BTreeSet::new();
    let mut out = Vec::new();
    for f in IGS_FIRST {
        let fb = f.as_bytes();
        for cut in 0..=fb.len() {
            for t in IGS_TAILS {
                let first = [&fb[..cut], t.as_bytes()].concat();
                let (class, key) = igs_abstract_state(&first).unwrap_or_else(|| ("prefix-panics".into(), format!("panic:{}", hex(&first))));
                if !seen.insert(key) && !thorough {
                    continue;
                }
                for (nk, n) in &nexts {
                    let kind = if nk.contains('&') { "loop" } else if nk.ends_with('W') { "W" } else if nk == "text" || nk == "unknown" { nk.as_str() } else { "generic" };
                    count(&format!("igs:pair:{}:then-{}", class, kind));
                    out.push([&first[..], &n[..]].concat());
                }
            }
        }
    }
    out
}

// ------------------------------------------------------------------------------------------------ IGS: block commands x extents
/// every two-dimensional block command of the IGS executor — GrabScreen modes 0..3 (screen to screen, screen to memory,
/// memory to screen whole / part), FilledRectangle, Box (border off) — with every combination of extents from
/// {1, screen height, screen width, huge, very huge} in x and y (so: both small, one huge, BOTH huge), sources and
/// destinations at the origin, inside and at the far corner of the screen, on the 320x200 and the 640x200 canvas, for
/// the memory blits after grabs of a small and of a whole-screen block
pub fn igs_blocks(thorough: bool, count: &mut dyn FnMut(&str)) -> Vec<Vec<u8>> {
    let ext: &[i64] = if thorough { &[0, 1, 200, 320, 641, 3000, 20000, 99999] } else { &[1, 320, 3000, 20000] };
    let spots: &[((i64, i64), (i64, i64))] = &[((0, 0), (0, 0)), ((5, 7), (10, 10)), ((319, 199), (300, 190)), ((0, 0), (150, 90))];
    let preludes: &[&str] = &["", "R>1,0:", "A>2,3,0:C>2,5:"];
    let cls = |e: i64| if e <= 1 { "small" } else if e <= 641 { "screen" } else { "huge" };
    let mut out = Vec::new();
    for (pi, pre) in preludes.iter().enumerate() {
        for w in ext.iter() {
            for h in ext.iter() {
                for (si, ((fx, fy), (dx, dy))) in spots.iter().enumerate() {
                    // quick tier (the model walks every block cell by cell): every pair of extents once at the origin of the
                    // fresh canvas; BOTH extents huge at every spot and after every prelude (3000 x 3000), and once each for
                    // the pairs with 20000
                    if !thorough {
                        let both_huge = *w == 3000 && *h == 3000;
                        let very = *w == 20000 || *h == 20000;
                        let keep = if both_huge { pi < 2 || si == 1 } else if very { pi == 0 && si == 1 && *w >= 3000 && *h >= 3000 } else { pi == 0 && si == 0 };
                        if !keep {
                            continue;
                        }
                    }
                    let (tx, ty) = (fx + w, fy + h);
                    let cmds: Vec<(&str, String)> = vec![
                        ("G0", format!("G>0,3,{},{},{},{},{},{}:", fx, fy, tx, ty, dx, dy)),
                        ("G1", format!("G>1,3,{},{},{},{}:G>2,3,{},{}:", fx, fy, tx, ty, dx, dy)),
                        ("G3-small-block", format!("G>1,3,2,2,40,30:G>3,3,{},{},{},{},{},{}:", fx, fy, tx, ty, dx, dy)),
                        ("G3-screen-block", format!("G>1,3,0,0,99999,99999:G>3,3,{},{},{},{},{},{}:G>2,3,{},{}:", fx, fy, tx, ty, dx, dy, dx, dy)),
                        ("Z", format!("Z>{},{},{},{}:", fx, fy, tx, ty)),
                        ("B", format!("B>{},{},{},{},0:", fx, fy, tx, ty)),
                    ];
                    for (name, c) in cmds {
                        count(&format!("igs:block:{}:{}x{}", name, cls(*w), cls(*h)));
                        out.push(format!("G#{}{}", pre, c).into_bytes());
                    }
                }
            }
        }
    }
    out
}

// ------------------------------------------------------------------------------------------------ RIP: |Y x text commands
/// `ript:` cases: every font number 0..=12 (the table ends at 11), 35, 255, 256, 257 (= 1 as u8), 266, 267, 1295 x every
/// size 0..=36 and 1295 (ZZ), directions 0 / 1 (/ 2, 257 in thorough), with a text that has ASCII letters, a digit, a blank
/// and codes at both ends of the fonts' character tables (0x7f, 0xfe, 0xff); plus the empty text and random texts
pub fn rip_text_styles(thorough: bool, rng: &mut Rng) -> Vec<String> {
    let fonts: Vec<u32> = (0..=12).chain([35, 255, 256, 257, 266, 267, 1295]).collect();
    let sizes: Vec<u32> = (0..=36).chain([1295]).collect();
    let dirs: &[u32] = if thorough { &[0, 1, 2, 257] } else { &[0, 1] };
    let texts: [&[u8]; 3] = [b"Ag 1", b"hello\x7f\xfe\xffW", b"Qy"];
    let mut out = Vec::new();
    for (fi, f) in fonts.iter().enumerate() {
        for (si, s) in sizes.iter().enumerate() {
            for (di, d) in dirs.iter().enumerate() {
                // quick: the two directions alternate over the (font, size) grid, except at the sizes around the clamp
                if !thorough && (fi + si + di) % 2 == 1 && !(9..=12).contains(s) {
                    continue;
                }
                let t = texts[(fi + si + di) % texts.len()];
                out.push(format!("ript:{},{},{},{}", f, d, s, hex(t)));
            }
        }
        out.push(format!("ript:{},0,4,-", f));
    }
    for _ in 0..(if thorough { 2000 } else { 60 }) {
        let n = rng.range(1, 12) as usize;
        let t: Vec<u8> = (0..n).map(|_| { let c = rng.range(0x20, 0xff) as u8; if b"|\\!$".contains(&c) { b'x' } else { c } }).collect();
        out.push(format!("ript:{},{},{},{}", rng.range(0, 1295), rng.range(0, 2), rng.range(0, 40), hex(&t)));
    }
    out
}
