//! shared by C13 / C12: a plain description of a layer stack that can be (a) turned into real
//! `icy_engine::Layer`s and (b) written as the integer stream the Lean drivers parse.
use crate::util::*;
use icy_engine::{AttributedChar, Layer, Line, TextAttribute};

pub const INVISIBLE: u16 = icy_engine::attribute::INVISIBLE;
pub const TRANSPARENT: u32 = TextAttribute::TRANSPARENT_COLOR;

#[derive(Clone, Copy, Debug, PartialEq, Eq, Hash)]
pub struct CellSpec {
    pub ch: u32,
    pub fg: u32,
    pub bg: u32,
    pub flags: u16,
    pub page: usize,
}

impl CellSpec {
    pub fn to_char(self) -> AttributedChar {
        let mut a = TextAttribute::new(self.fg, self.bg);
        a.attr = self.flags;
        a.set_font_page(self.page);
        AttributedChar::new(char::from_u32(self.ch).unwrap_or('?'), a)
    }
    pub fn of(c: AttributedChar) -> Self {
        CellSpec {
            ch: c.ch as u32,
            fg: c.attribute.get_foreground(),
            bg: c.attribute.get_background(),
            flags: c.attribute.attr,
            page: c.attribute.get_font_page(),
        }
    }
    pub fn show(self) -> String {
        format!("{},{},{},{},{}", self.ch, self.fg, self.bg, self.flags, self.page)
    }
    pub fn visible(self) -> bool {
        self.flags & INVISIBLE == 0
    }
}

/// Rust `PartialEq` of the engine (font page ignored); two invisible cells compare equal
pub fn same_displayed(a: AttributedChar, b: AttributedChar) -> bool {
    if !a.is_visible() && !b.is_visible() {
        return true;
    }
    a == b
}

/// `None` = `AttributedChar::invisible()`
pub type CellOpt = Option<CellSpec>;

#[derive(Clone, Debug, PartialEq, Eq, Hash)]
pub struct LayerSpec {
    pub visible: bool,
    pub alpha: bool,
    pub mode: u8, // 0 normal, 1 chars, 2 attributes
    pub ox: i32,
    pub oy: i32,
    pub w: i32,
    pub h: i32,
    pub dflt: usize,
    pub rows: Vec<Vec<CellOpt>>,
}

impl LayerSpec {
    /// what `Layer::new(size)` creates: `h` rows of `w` invisible cells
    pub fn empty(w: i32, h: i32) -> Self {
        LayerSpec { visible: true, alpha: false, mode: 0, ox: 0, oy: 0, w, h, dflt: 0, rows: vec![vec![None; w.max(0) as usize]; h.max(0) as usize] }
    }
    pub fn build(&self) -> Layer {
        let mut l = Layer::new("l", (self.w, self.h));
        l.lines = self
            .rows
            .iter()
            .map(|r| Line { chars: r.iter().map(|c| c.map(|c| c.to_char()).unwrap_or_else(AttributedChar::invisible)).collect() })
            .collect();
        l.properties.has_alpha_channel = self.alpha;
        l.properties.mode = match self.mode {
            0 => icy_engine::Mode::Normal,
            1 => icy_engine::Mode::Chars,
            _ => icy_engine::Mode::Attributes,
        };
        l.properties.offset = (self.ox, self.oy).into();
        l.default_font_page = self.dflt;
        l.properties.is_visible = self.visible;
        l
    }
    pub fn covers(&self, x: i32, y: i32) -> bool {
        let (lx, ly) = (x as i64 - self.ox as i64, y as i64 - self.oy as i64);
        lx >= 0 && ly >= 0 && lx < self.w as i64 && ly < self.h as i64
    }
    pub fn encode(&self, out: &mut Vec<i64>) {
        out.extend([self.visible as i64, self.alpha as i64, self.mode as i64, self.ox as i64, self.oy as i64, self.w as i64, self.h as i64, self.dflt as i64, self.rows.len() as i64]);
        for r in &self.rows {
            out.push(r.len() as i64);
            for c in r {
                match c {
                    None => out.push(-1),
                    Some(c) => out.extend([c.ch as i64, c.fg as i64, c.bg as i64, c.flags as i64, c.page as i64]),
                }
            }
        }
    }
    pub fn decode(it: &mut impl Iterator<Item = i64>) -> Option<Self> {
        let visible = it.next()? != 0;
        let alpha = it.next()? != 0;
        let mode = it.next()? as u8;
        let ox = it.next()? as i32;
        let oy = it.next()? as i32;
        let w = it.next()? as i32;
        let h = it.next()? as i32;
        let dflt = it.next()? as usize;
        let nr = it.next()?;
        let mut rows = Vec::new();
        for _ in 0..nr {
            let n = it.next()?;
            let mut r = Vec::new();
            for _ in 0..n {
                let a = it.next()?;
                if a == -1 {
                    r.push(None);
                } else {
                    r.push(Some(CellSpec { ch: a as u32, fg: it.next()? as u32, bg: it.next()? as u32, flags: it.next()? as u16, page: it.next()? as usize }));
                }
            }
            rows.push(r);
        }
        Some(LayerSpec { visible, alpha, mode, ox, oy, w, h, dflt, rows })
    }
}

pub fn join(xs: &[i64], sep: &str) -> String {
    let mut s = String::with_capacity(xs.len() * 3);
    for (i, x) in xs.iter().enumerate() {
        if i > 0 {
            s.push_str(sep);
        }
        s.push_str(&x.to_string());
    }
    s
}

pub fn parse_ints(s: &str) -> Option<Vec<i64>> {
    s.split(',').map(|t| t.trim().parse::<i64>().ok()).collect()
}

/// generator knobs shared by the two properties
pub struct CellGen<'a> {
    pub chars: &'a [u32],
    pub colors: &'a [u32],
    pub flags: &'a [u16],
    pub pages: &'a [usize],
    /// per mille of cells that carry the INVISIBLE bit together with arbitrary other content
    pub weird_invisible: u64,
}

impl CellGen<'_> {
    pub fn cell(&self, rng: &mut Rng) -> CellSpec {
        let mut c = CellSpec { ch: *rng.pick(self.chars), fg: *rng.pick(self.colors), bg: *rng.pick(self.colors), flags: *rng.pick(self.flags), page: *rng.pick(self.pages) };
        if rng.below(1000) < self.weird_invisible {
            c.flags |= INVISIBLE;
        }
        c
    }
}
