//! shared by C15 / C04: a plain description of a single-layer picture (`Pic`) that can be (a) turned into a
//! real `icy_engine::Buffer`, (b) written as the integer stream the Lean driver `artio` parses and (c) written as
//! a compact replay string without blanks.
use crate::util::*;
use icy_engine::{AttributedChar, Buffer, Color, IceMode, Palette, TextAttribute, TextPane};

/// one cell: code point, colour INDICES into the picture's palette (`pal`), attribute flag word
#[derive(Clone, Copy, Debug, PartialEq, Eq, Hash)]
pub struct PCell {
    pub ch: u32,
    pub fg: u32,
    pub bg: u32,
    pub flags: u16,
}

pub const DEFAULT_CELL: PCell = PCell { ch: 32, fg: 7, bg: 0, flags: 0 };

#[derive(Clone, Debug, PartialEq, Eq, Hash)]
pub struct Pic {
    pub w: i32,
    pub h: i32,
    /// 0 blink, 1 ice, 2 unlimited (`IceMode`)
    pub ice: u8,
    /// colours appended to the 16 DOS colours (palette index 16, 17, …)
    pub extra: Vec<(u8, u8, u8)>,
    /// `rows[y]` holds the cells that were set explicitly (x = 0..len); the rest of the row is left untouched
    /// (invisible in the layer, shown as the default cell by `Buffer::get_char`)
    pub rows: Vec<Vec<PCell>>,
}

pub fn ice_of(i: u8) -> IceMode {
    match i {
        0 => IceMode::Blink,
        1 => IceMode::Ice,
        _ => IceMode::Unlimited,
    }
}

impl Pic {
    pub fn build(&self) -> Buffer {
        let mut buf = Buffer::new((self.w, self.h));
        buf.is_terminal_buffer = false;
        buf.ice_mode = ice_of(self.ice);
        if !self.extra.is_empty() {
            let mut pal = Palette::dos_default();
            for &(r, g, b) in &self.extra {
                pal.push(Color::new(r, g, b));
            }
            buf.palette = pal;
        }
        for (y, row) in self.rows.iter().enumerate() {
            for (x, c) in row.iter().enumerate() {
                let mut a = TextAttribute::new(c.fg, c.bg);
                a.attr = c.flags;
                buf.layers[0].set_char((x as i32, y as i32), AttributedChar::new(char::from_u32(c.ch).unwrap_or('?'), a));
            }
        }
        buf
    }
    /// what `Buffer::get_char` shows at (x, y) of the original
    pub fn at(&self, x: i32, y: i32) -> PCell {
        self.rows.get(y as usize).and_then(|r| r.get(x as usize)).copied().unwrap_or(DEFAULT_CELL)
    }
    /// `TextPane::get_line_length` of the original: index of the last cell that is not (blank on colour 0) + 1
    pub fn line_len(&self, y: i32) -> i32 {
        let mut l = 0;
        for x in 0..self.w {
            let c = self.at(x, y);
            if !((c.ch == 0 || c.ch == 32) && c.bg == 0) {
                l = x + 1;
            }
        }
        l
    }
    /// replay form: `w:h:ice:extra:rows`; extra = `rrggbb` joined by `.` or `-`; rows joined by `/`, cells by `,`,
    /// a cell is `ch.fg.bg[.flags]`, a run of n equal cells is `n*cell`
    pub fn encode(&self) -> String {
        let ex = if self.extra.is_empty() { "-".to_string() } else { self.extra.iter().map(|c| format!("{:02x}{:02x}{:02x}", c.0, c.1, c.2)).collect::<Vec<_>>().join(".") };
        let rows: Vec<String> = self
            .rows
            .iter()
            .map(|r| {
                let mut parts = Vec::new();
                let mut i = 0;
                while i < r.len() {
                    let mut j = i;
                    while j + 1 < r.len() && r[j + 1] == r[i] {
                        j += 1;
                    }
                    let c = r[i];
                    let cs = if c.flags == 0 { format!("{}.{}.{}", c.ch, c.fg, c.bg) } else { format!("{}.{}.{}.{}", c.ch, c.fg, c.bg, c.flags) };
                    let n = j - i + 1;
                    parts.push(if n > 1 { format!("{}*{}", n, cs) } else { cs });
                    i = j + 1;
                }
                if parts.is_empty() {
                    "e".to_string()
                } else {
                    parts.join(",")
                }
            })
            .collect();
        format!("{}:{}:{}:{}:{}", self.w, self.h, self.ice, ex, rows.join("/"))
    }
    pub fn decode(s: &str) -> Option<Pic> {
        let p: Vec<&str> = s.split(':').collect();
        if p.len() != 5 {
            return None;
        }
        let w: i32 = p[0].parse().ok()?;
        let h: i32 = p[1].parse().ok()?;
        let ice: u8 = p[2].parse().ok()?;
        let mut extra = Vec::new();
        if p[3] != "-" {
            for e in p[3].split('.') {
                if e.len() != 6 {
                    return None;
                }
                let v = u32::from_str_radix(e, 16).ok()?;
                extra.push(((v >> 16) as u8, (v >> 8) as u8, v as u8));
            }
        }
        let mut rows = Vec::new();
        for r in p[4].split('/') {
            let mut row = Vec::new();
            if r != "e" && !r.is_empty() {
                for c in r.split(',') {
                    let (n, cs) = match c.split_once('*') {
                        Some((n, cs)) => (n.parse::<usize>().ok()?, cs),
                        None => (1, c),
                    };
                    let f: Vec<&str> = cs.split('.').collect();
                    if f.len() < 3 {
                        return None;
                    }
                    let cell = PCell { ch: f[0].parse().ok()?, fg: f[1].parse().ok()?, bg: f[2].parse().ok()?, flags: if f.len() > 3 { f[3].parse().ok()? } else { 0 } };
                    for _ in 0..n {
                        row.push(cell);
                    }
                }
            }
            rows.push(row);
        }
        if rows.len() > h as usize || rows.iter().any(|r| r.len() > w as usize) {
            return None;
        }
        Some(Pic { w, h, ice, extra, rows })
    }
    /// integer stream for the Lean driver: `w h ice nextra {r g b}* nrows {len {ch fg bg flags}*}*`
    pub fn ints(&self) -> Vec<i64> {
        let mut v = vec![self.w as i64, self.h as i64, self.ice as i64, self.extra.len() as i64];
        for c in &self.extra {
            v.extend([c.0 as i64, c.1 as i64, c.2 as i64]);
        }
        v.push(self.rows.len() as i64);
        for r in &self.rows {
            v.push(r.len() as i64);
            for c in r {
                v.extend([c.ch as i64, c.fg as i64, c.bg as i64, c.flags as i64]);
            }
        }
        v
    }
    /// the same stream with the WHOLE palette given (a custom base palette): the colour count is sent as `100000 + n`
    pub fn ints_with_palette(&self, pal: &[(u8, u8, u8)]) -> Vec<i64> {
        let mut v = vec![self.w as i64, self.h as i64, self.ice as i64, 100000 + pal.len() as i64];
        for c in pal {
            v.extend([c.0 as i64, c.1 as i64, c.2 as i64]);
        }
        v.push(self.rows.len() as i64);
        for r in &self.rows {
            v.push(r.len() as i64);
            for c in r {
                v.extend([c.ch as i64, c.fg as i64, c.bg as i64, c.flags as i64]);
            }
        }
        v
    }
    pub fn hash(&self) -> u64 {
        fnv(self.ints().into_iter().map(|x| x as u64))
    }
}

pub fn join_i(v: &[i64]) -> String {
    v.iter().map(|x| x.to_string()).collect::<Vec<_>>().join(" ")
}

/// the loaded picture as `Buffer::get_char` shows it: per row the cells 0..width as (ch, fg, bg, flags)
pub fn cells_of(buf: &Buffer, w: i32, h: i32) -> Vec<Vec<PCell>> {
    (0..h)
        .map(|y| {
            (0..w)
                .map(|x| {
                    let c = buf.get_char((x, y));
                    PCell { ch: c.ch as u32, fg: c.attribute.get_foreground(), bg: c.attribute.get_background(), flags: c.attribute.attr }
                })
                .collect()
        })
        .collect()
}

/// canonical text of a loaded picture for the correspondence run: `h;row;row…`, each row trimmed of trailing
/// cells that are blank on colour 0 with no flag other than INVISIBLE (what `get_line_length` ignores), cells as
/// `ch.fg.bg.flags` with the INVISIBLE bit cleared and runs compressed
pub fn show_cells(rows: &[Vec<PCell>]) -> String {
    let mut out = vec![rows.len().to_string()];
    for r in rows {
        let mut r: Vec<PCell> = r.iter().map(|c| PCell { flags: c.flags & 0x7FFF, ..*c }).collect();
        while let Some(c) = r.last() {
            if (c.ch == 32 || c.ch == 0) && c.bg == 0 && c.flags == 0 && c.fg == 7 {
                r.pop();
            } else {
                break;
            }
        }
        let mut parts = Vec::new();
        let mut i = 0;
        while i < r.len() {
            let mut j = i;
            while j + 1 < r.len() && r[j + 1] == r[i] {
                j += 1;
            }
            let c = r[i];
            let cs = format!("{}.{}.{}.{}", c.ch, c.fg, c.bg, c.flags);
            let n = j - i + 1;
            parts.push(if n > 1 { format!("{}*{}", n, cs) } else { cs });
            i = j + 1;
        }
        out.push(if parts.is_empty() { "e".to_string() } else { parts.join(",") });
    }
    out.join(";")
}
