//! C10: the macro table of the ANSI parser as a store of `String`s.
//!
//! Case `macro:<item>/<item>/…` — a history; `<item>` = `ris` (ESC c) or the code points (comma separated) that follow
//! `ESC P`, up to and including the terminating `ESC \`. Observation (hook `ansi::Parser::verif_dcs_view`): the outcome of
//! every item and the BYTES of every stored macro body. Model: `unimacro run …` (`Model/UniMacro.lean`).
//! Oracle (independent of the model):
//!  * every stored body is valid UTF-8 (`std::str::from_utf8` on the bytes);
//!  * a body equals its definition: a small spec decoder for CANONICAL definitions (`Pid;Pdt;0!z text`, `Pid;Pdt;1!z`
//!    upper-case hex pairs and closed/trailing repeat groups that fit the macro space) says what the table must hold;
//!    after a non-canonical item nothing is claimed about earlier definitions.
use crate::util::*;
use icy_engine::{ansi, Buffer, Caret};
use std::collections::BTreeMap;

const ESC: u32 = 27;
const MACRO_SPACE: usize = 32767;

fn utf8_len(b: u32) -> usize {
    char::from_u32(b).map(|c| c.len_utf8()).unwrap_or(1)
}

/// what a canonical definition must leave in the table: (id, clear first, body as UTF-8 bytes); None = not canonical
fn spec_decode(content: &[u32]) -> Option<(usize, bool, Vec<u8>)> {
    if content.contains(&ESC) {
        return None;
    }
    let s: Vec<char> = content.iter().filter_map(|c| char::from_u32(*c)).collect();
    if s.len() != content.len() {
        return None;
    }
    let mut i = 0;
    let mut num = |i: &mut usize| -> Option<usize> {
        let st = *i;
        while *i < s.len() && s[*i].is_ascii_digit() {
            *i += 1;
        }
        if *i == st || *i - st > 9 {
            return None;
        }
        s[st..*i].iter().collect::<String>().parse().ok()
    };
    let pid = num(&mut i)?;
    if s.get(i) != Some(&';') {
        return None;
    }
    i += 1;
    let pdt = num(&mut i)?;
    if s.get(i) != Some(&';') {
        return None;
    }
    i += 1;
    let enc = num(&mut i)?;
    if s.get(i) != Some(&'!') || s.get(i + 1) != Some(&'z') {
        return None;
    }
    i += 2;
    let body = &s[i..];
    match enc {
        0 => Some((pid, pdt == 1, body.iter().collect::<String>().into_bytes())),
        1 => {
            // ( HH | '!' digits ';' HH* ';' )*  [ '!' digits ';' HH* ]   with HH upper-case hex
            let hv = |c: char| if c.is_ascii_digit() || ('A'..='F').contains(&c) { c.to_digit(16) } else { None };
            let mut out = String::new();
            let mut j = 0;
            while j < body.len() {
                if body[j] == '!' {
                    j += 1;
                    let st = j;
                    while j < body.len() && body[j].is_ascii_digit() {
                        j += 1;
                    }
                    if j == st || j - st > 9 || body.get(j) != Some(&';') {
                        return None;
                    }
                    let n: usize = body[st..j].iter().collect::<String>().parse().ok()?;
                    j += 1;
                    let mut rec = String::new();
                    while j < body.len() && body[j] != ';' {
                        let h = hv(body[j])?;
                        let l = hv(*body.get(j + 1)?)?;
                        rec.push(char::from_u32(h * 16 + l)?);
                        j += 2;
                    }
                    if j < body.len() {
                        j += 1; // the closing ';'
                    }
                    if out.len() + n * rec.len() > MACRO_SPACE {
                        return None; // the macro space cuts the repeat: not claimed here
                    }
                    for _ in 0..n {
                        out.push_str(&rec);
                    }
                } else {
                    let h = hv(body[j])?;
                    let l = hv(*body.get(j + 1)?)?;
                    out.push(char::from_u32(h * 16 + l)?);
                    j += 2;
                }
            }
            Some((pid, pdt == 1, out.into_bytes()))
        }
        _ => None,
    }
}

pub fn exec_macro(items: &str, fails: &mut Vec<(String, String)>) -> String {
    let (mut buf, mut caret, mut p): (Buffer, Caret, ansi::Parser) = crate::c10::term_buffer();
    let mut outs: Vec<&str> = Vec::new();
    let mut expected: BTreeMap<usize, Vec<u8>> = BTreeMap::new();
    let mut complete = true;
    for item in items.split('/') {
        if item == "ris" {
            let r = catch(std::panic::AssertUnwindSafe(|| crate::c10::feed(&mut p, &mut buf, &mut caret, "\x1bc".chars())));
            outs.push(match r {
                Ok(Ok(_)) => "ok",
                Ok(Err(_)) => "err",
                Err(_) => "panic",
            });
            expected.clear();
            complete = true;
            continue;
        }
        let cps: Vec<u32> = if item == "-" || item.is_empty() { vec![] } else { item.split(',').map(|x| x.parse().unwrap_or(0x3F)).collect() };
        let text: String = "\x1bP".chars().chain(cps.iter().map(|c| char::from_u32(*c).unwrap_or('?'))).collect();
        let r = catch(std::panic::AssertUnwindSafe(|| crate::c10::feed(&mut p, &mut buf, &mut caret, text.chars())));
        outs.push(match r {
            Ok(Ok(_)) => "ok",
            Ok(Err(_)) => "err",
            Err(_) => "panic",
        });
        let n = cps.len();
        let canonical = if n >= 2 && cps[n - 2] == ESC && cps[n - 1] == 92 { spec_decode(&cps[..n - 2]) } else { None };
        match canonical {
            Some((id, clear, body)) => {
                if clear {
                    expected.clear();
                    complete = true;
                }
                expected.insert(id, body);
            }
            None => {
                expected.clear();
                complete = false;
            }
        }
    }
    let (state, _nums, table) = p.verif_dcs_view();
    let mut obs = outs.join(",");
    if state != "Default" {
        obs.push_str(&format!(" state={state}"));
    }
    for (id, body) in &table {
        obs.push_str(&format!(" {id}={}", hex(body.as_bytes())));
    }
    // --- oracle
    let mut all_valid = true;
    for (id, body) in &table {
        if std::str::from_utf8(body.as_bytes()).is_err() {
            all_valid = false;
            fails.push(("macro_table".to_string(), format!("macro {id} is stored as {}, which is not valid UTF-8", hex(body.as_bytes()))));
            break;
        }
    }
    for (id, want) in &expected {
        match table.iter().find(|(k, _)| k == id) {
            Some((_, got)) if got.as_bytes() == &want[..] => {}
            Some((_, got)) => {
                let show = |b: &[u8]| if b.len() > 24 { format!("…{} ({} bytes)", hex(&b[b.len() - 24..]), b.len()) } else { hex(b) };
                fails.push(("macro_table".to_string(), format!("macro {id}: the definition says {}, the table holds {}", show(want), show(got.as_bytes()))));
                break;
            }
            None => {
                fails.push(("macro_table".to_string(), format!("macro {id} was defined but is not in the table")));
                break;
            }
        }
    }
    if complete && table.len() != expected.len() {
        fails.push(("macro_table".to_string(), format!("the table holds {} macros, the definitions since the last clear are {}", table.len(), expected.len())));
    }
    // --- replay every stored macro (cells must stay scalar values); not when a body can start escape sequences, and
    // not when a stored `String` is already known to be malformed (walking it is undefined behaviour: the process may die
    // and the verdict above would be lost)
    if all_valid && table.iter().all(|(id, b)| !b.as_bytes().contains(&0x1B) && *id <= 100_000) {
        for (id, _) in table.iter().take(4) {
            let s = format!("\x1b[{id}*z");
            let _ = catch(std::panic::AssertUnwindSafe(|| {
                let _ = crate::c10::feed(&mut p, &mut buf, &mut caret, s.chars());
            }));
        }
    }
    crate::c10::scan_buffer(&buf, "macro_table", fails);
    obs
}

fn item(prefix: &str, body: &[u32]) -> String {
    let mut v: Vec<u32> = prefix.chars().map(|c| c as u32).collect();
    v.extend(body);
    // never a sixel (`<numbers>q…`) or a custom font (`CTerm:Font:…`): other properties' models
    let k = v.iter().position(|c| !((0x30..=0x39).contains(c) || *c == 0x3B)).unwrap_or(v.len());
    if v.get(k) == Some(&('q' as u32)) {
        v[k] = 'x' as u32;
    }
    if v.len() >= 11 && v[..11].iter().map(|c| char::from_u32(*c).unwrap_or('?')).collect::<String>() == "CTerm:Font:" {
        v[0] = 'c' as u32;
    }
    v.extend([ESC, 92]);
    v.iter().map(|x| x.to_string()).collect::<Vec<_>>().join(",")
}

fn text_item(pid: u32, pdt: u32, body: &[u32]) -> String {
    item(&format!("{pid};{pdt};0!z"), body)
}

fn hex_item(pid: u32, pdt: u32, body: &str) -> String {
    item(&format!("{pid};{pdt};1!z{body}"), &[])
}

/// a scalar value whose UTF-8 encoding has `len` bytes and ends in byte `fb` (0x80..=0xBF)
fn char_with_final_byte(rng: &mut Rng, len: usize, fb: u8) -> u32 {
    let low = (fb & 0x3F) as u32;
    loop {
        let c = match len {
            2 => (rng.range(0x80 >> 6, 0x7FF >> 6) as u32) << 6 | low,
            3 => (rng.range(0x800 >> 6, 0xFFFF >> 6) as u32) << 6 | low,
            _ => (rng.range(0x1_0000 >> 6, 0x10_FFFF >> 6) as u32) << 6 | low,
        };
        if crate::unibounds::is_scalar(c) && c >= 0x80 {
            return c;
        }
    }
}

fn random_body_char(rng: &mut Rng) -> u32 {
    match rng.below(12) {
        0..=3 => rng.range(0x20, 0x7E) as u32,
        4 => rng.range(0x80, 0x7FF) as u32,
        5 => {
            let fb = rng.range(0x80, 0xBF) as u8;
            char_with_final_byte(rng, 3, fb)
        }
        6 => {
            let fb = rng.range(0x80, 0xBF) as u8;
            char_with_final_byte(rng, 4, fb)
        }
        7 => *rng.pick(&[0x9C, 0xDC, 0x11C, 0x15C, 0x71C, 0x201C, 0x1F61C, 0x80, 0xBF, 0xFF, 0x7FF, 0x800, 0xFFFD, 0xFFFF, 0x10000, 0x10FFFF, 0xD7FF, 0xE000]),
        8 => *rng.pick(&['!' as u32, 'z' as u32, ';' as u32, 'q' as u32, '0' as u32, '9' as u32]),
        9 => [rng.range(0, 0x1A) as u32, 0x7F, 0x9B, 0x90, 0x9C][rng.below(5) as usize],
        _ => rng.range(0x41, 0x5A) as u32,
    }
}

pub fn gen_macro_cases(rng: &mut Rng, thorough: bool) -> Vec<String> {
    let mut c: Vec<String> = Vec::new();
    let two: Vec<u32> = (0x80u32..=0x7FF).collect();
    // --- F1: text macros whose LAST / FIRST character is every two-byte character
    for (i, &ch) in two.iter().enumerate() {
        let other = two[(i * 7 + 13) % two.len()];
        let body: Vec<u32> = match i % 3 {
            0 => vec![ch],
            1 => vec![other, ch],
            _ => vec![other, 'x' as u32, ch],
        };
        c.push(format!("macro:{}", text_item(1 + (i % 5) as u32, 0, &body)));
        let body: Vec<u32> = match i % 3 {
            0 => vec![ch, 'y' as u32],
            1 => vec![ch, other],
            _ => vec![ch, 'y' as u32, other, 'z' as u32],
        };
        c.push(format!("macro:{}", text_item(1 + (i % 5) as u32, 0, &body)));
    }
    // --- F2: three- and four-byte characters by final byte (every continuation byte value), last and first
    let per = if thorough { 12 } else { 3 };
    for fb in 0x80u8..=0xBF {
        for len in [3usize, 4] {
            for k in 0..per {
                let ch = char_with_final_byte(rng, len, fb);
                let ofb = rng.range(0x80, 0xBF) as u8;
                let o = char_with_final_byte(rng, 2 + (k % 3), ofb);
                c.push(format!("macro:{}", text_item(2, 0, &if k % 2 == 0 { vec![ch] } else { vec![o, ch] })));
                c.push(format!("macro:{}", text_item(2, 0, &[ch, 'a' as u32, o])));
            }
        }
    }
    for ch in [0x800u32, 0xFFF, 0x1000, 0xD7FF, 0xE000, 0xFFFD, 0xFFFE, 0xFFFF, 0x10000, 0x3FFFF, 0x40000, 0xFFFFF, 0x100000, 0x10FFFF, 0x7F, 0x80, 0] {
        c.push(format!("macro:{}", text_item(3, 0, &[ch])));
        c.push(format!("macro:{}", text_item(3, 0, &['a' as u32, ch])));
        c.push(format!("macro:{}", text_item(3, 0, &[ch, 'a' as u32])));
    }
    // --- F2b: every (lead, second) byte pair of three- and four-byte characters as the FIRST and the LAST character of a
    // body (a byte-wise strip of a prefix such as a BOM, or of a suffix, cuts inside these), and the (second-to-last,
    // last) continuation-byte pairs (all in `thorough`, a seeded quarter in `quick`)
    for lead in 0xE0u32..=0xF4 {
        for second in 0x80u32..=0xBF {
            let (len, ch) = if lead < 0xF0 {
                (3, ((lead & 0x0F) << 12) | ((second & 0x3F) << 6) | rng.below(64) as u32)
            } else {
                (4, ((lead & 0x07) << 18) | ((second & 0x3F) << 12) | (rng.below(64) as u32) << 6 | rng.below(64) as u32)
            };
            let min = if len == 3 { 0x800 } else { 0x1_0000 };
            if ch < min || !crate::unibounds::is_scalar(ch) {
                continue; // overlong / surrogate / above U+10FFFF: not a character
            }
            c.push(format!("macro:{}", text_item(2, 0, &[ch, 'm' as u32])));
            c.push(format!("macro:{}", text_item(2, 0, &['m' as u32, ch])));
        }
    }
    let quarter = rng.below(4) as u32;
    for b2 in 0x80u32..=0xBF {
        for b3 in 0x80u32..=0xBF {
            if !thorough && (b2 + b3) % 4 != quarter {
                continue;
            }
            let c3 = loop {
                let x = (rng.range(0, 15) as u32) << 12 | (b2 & 0x3F) << 6 | (b3 & 0x3F);
                if x >= 0x800 && crate::unibounds::is_scalar(x) {
                    break x;
                }
            };
            let c4 = loop {
                let x = (rng.range(0x10, 0x10F) as u32) << 12 | (b2 & 0x3F) << 6 | (b3 & 0x3F);
                if x >= 0x1_0000 && crate::unibounds::is_scalar(x) {
                    break x;
                }
            };
            c.push(format!("macro:{}", text_item(2, 0, &['m' as u32, c3])));
            c.push(format!("macro:{}", text_item(2, 0, &[c4, 'm' as u32, c4])));
        }
    }
    // --- F6: LONG text macros: bodies whose byte length passes every power of two up to the macro space and beyond, made
    // of 2-, 3- and 4-byte characters behind 0..3 bytes of ASCII padding, so that every byte offset near such a length
    // falls inside a character for one of them (a length-dependent byte-wise cut shows as a split character)
    let lens: &[usize] = if thorough {
        &[15, 16, 31, 32, 63, 64, 127, 128, 255, 256, 511, 512, 1023, 1024, 2047, 2048, 4095, 4096, 8191, 8192, 16383, 16384, 32766, 32767, 32768, 65535, 65536]
    } else {
        &[16, 32, 64, 128, 255, 256, 512, 1024, 4096, 32767, 32768]
    };
    for (i, &l) in lens.iter().enumerate() {
        for pad in 0..4usize {
            for (w, ch) in [(2usize, 0xDCu32), (3, 0x201C), (4, 0x1F61C)] {
                if !thorough && l > 4096 && (pad + w + i) % 3 != 0 {
                    continue;
                }
                let mut body: Vec<u32> = vec!['p' as u32; pad];
                let n = (l + 8 - pad) / w + 1;
                body.extend(std::iter::repeat(ch).take(n));
                c.push(format!("macro:{}", text_item(7, 0, &body)));
            }
        }
    }
    // --- F3: hex macros whose last / first character is every byte value: plain, closed group, trailing open group
    for b in 0..=255u32 {
        let h = format!("{b:02X}");
        for body in [
            h.clone(),
            format!("41{h}"),
            format!("{h}41"),
            format!("!2;41{h};"),
            format!("!3;{h}"),
            format!("41!2;{h};"),
            format!("{h}!1;42;43"),
            format!("!0;41;{h}"),
        ] {
            c.push(format!("macro:{}", hex_item(4, 0, &body)));
        }
        // lower-case second digit (accepted), lower-case first digit (rejected: the table must not change)
        c.push(format!("macro:{}/{}", text_item(4, 0, &[0x41]), hex_item(4, (b % 2) as u32, &h.to_lowercase())));
    }
    // --- F4: number-prefix quirks and malformed introducers
    for pre in [
        "5;0;0!z", ";5;0;0!z", "5;;0!z", "5;0!z", "5!z", "!z", ";;!z", ";;0!z", ";;1!z", "5;0;0;7!z", "5;1;0!z", "5;1;1!z", "5;1;2!z", "5;2;0!z", "05;00;00!z", "99999999999;0;0!z",
        "2147483599;0;0!z", "2147483600;0;0!z", "5;0;00000000001!z", "5;0;0!Z", "5;0;0!", "5;0;0z", "5;0;0!!z", "5;0;0 !z", "5;0;0", "", "5;0;0!zz", "5;0;10!z", "5;11;0!z", "5;0;0:!z", "CTerm:Fon", "x5;0;0!z",
    ] {
        for body in [vec![], vec![0xDCu32], vec![0x41, 0x9C], vec![0x34, 0x31, 0x44, 0x43], vec![0x34, 0x31, 0x39, 0x43]] {
            // a canonical definition first, so that clears / overwrites are visible
            c.push(format!("macro:{}/{}", text_item(5, 0, &[0x42, 0xDC]), item(pre, &body)));
        }
    }
    // ESC pairs inside the body (kept as two characters), ESC ESC
    for pair in [[ESC, 0x41], [ESC, ESC], [ESC, 0x5D], [ESC, 0x50], [ESC, 0xDC], [ESC, 0x63]] {
        c.push(format!("macro:{}", text_item(6, 0, &[0x41, pair[0], pair[1], 0xDC])));
        c.push(format!("macro:{}", text_item(6, 0, &[pair[0], pair[1]])));
    }
    // --- F5: seeded histories
    let n = if thorough { 6000 } else { 400 };
    for _ in 0..n {
        let k = rng.range(1, 5) as usize;
        let mut items = Vec::new();
        for _ in 0..k {
            if rng.chance(1, 12) {
                items.push("ris".to_string());
                continue;
            }
            let pid = *rng.pick(&[0u32, 1, 2, 3, 63, 64, 1000]);
            let pdt = *rng.pick(&[0u32, 0, 0, 1, 2]);
            let len = rng.below(8) as usize;
            match rng.below(8) {
                0..=2 => {
                    let mut body: Vec<u32> = (0..len).map(|_| random_body_char(rng)).collect();
                    if rng.chance(1, 6) && !body.is_empty() {
                        let at = rng.below(body.len() as u64) as usize;
                        body.insert(at, ESC);
                        // ESC must not be followed by `[` (macro invocation inside a DCS) or `\` (terminator) here
                        if at + 1 >= body.len() || body[at + 1] == 0x5B || body[at + 1] == 0x5C {
                            body.insert(at + 1, 0x41);
                        }
                    }
                    items.push(text_item(pid, pdt, &body));
                }
                3..=5 => {
                    let mut h = String::new();
                    for _ in 0..len {
                        match rng.below(10) {
                            0 => h.push_str(&format!("!{};", rng.below(5))),
                            1 => h.push(';'),
                            2 => h.push_str(*rng.pick(&["9C", "DC", "9c", "dC", "C39C", "80", "BF", "C2", "FF"])),
                            3 => h.push(*rng.pick(&['G', 'g', ' ', 'Ü', '!', 'z'])),
                            _ => h.push_str(&format!("{:02X}", rng.below(256))),
                        }
                    }
                    if h.to_uppercase().contains("1B") {
                        h = h.to_uppercase().replace("1B", "1C");
                    }
                    items.push(hex_item(pid, pdt, &h));
                }
                6 => {
                    // raw: random number prefix, random introducer, random rest — never a font / sixel / invocation
                    let pre: String = (0..rng.below(7)).map(|_| *rng.pick(&['0', '1', '5', '9', ';', ';'])).collect();
                    let intro = *rng.pick(&["!z", "!z", "!z", "!", "z", "!Z", "", "x"]);
                    let body: Vec<u32> = (0..len).map(|_| random_body_char(rng)).filter(|c| *c != ESC).collect();
                    let mut s = format!("{pre}{intro}");
                    if intro.is_empty() && body.first() == Some(&('q' as u32)) {
                        s.push('x');
                    }
                    items.push(item(&s, &body));
                }
                _ => {
                    let body: Vec<u32> = (0..len)
                        .map(|_| {
                            let l = 2 + rng.below(3) as usize;
                            char_with_final_byte(rng, l, 0x9C)
                        })
                        .collect();
                    items.push(text_item(pid, pdt, &body));
                }
            }
        }
        c.push(format!("macro:{}", items.join("/")));
    }
    c
}
