//! C13: layer compositing obeys the stacking laws.
//!
//! correspondence: `Buffer::get_char` at every position of the stack's bounding box + 2 against the Lean model
//! (`icydrv comp get …`), the half-block classifier sampled from the implementation (`Buffer::make_solid_color`).
//! oracle (independent of the model): the relational laws of the property applied to real `Buffer`s.
use crate::doc::*;
use crate::util::*;
use icy_engine::{AttributedChar, BitFont, Buffer, TextAttribute, TextPane};
use std::collections::BTreeSet;
use std::panic::AssertUnwindSafe;

#[derive(Clone, Debug)]
pub struct Case {
    pub is_term: bool,
    pub tseed: u64,
    /// query rectangle (inclusive)
    pub rect: (i32, i32, i32, i32),
    pub layers: Vec<LayerSpec>,
}

impl Case {
    fn bbox_rect(layers: &[LayerSpec]) -> (i32, i32, i32, i32) {
        let x0 = layers.iter().map(|l| l.ox).min().unwrap_or(0);
        let y0 = layers.iter().map(|l| l.oy).min().unwrap_or(0);
        let x1 = layers.iter().map(|l| l.ox + l.w - 1).max().unwrap_or(0);
        let y1 = layers.iter().map(|l| l.oy + l.h - 1).max().unwrap_or(0);
        (x0 - 2, y0 - 2, x1 + 2, y1 + 2)
    }
    fn encode(&self) -> Vec<i64> {
        let mut v = vec![1, self.is_term as i64, self.tseed as i64, self.rect.0 as i64, self.rect.1 as i64, self.rect.2 as i64, self.rect.3 as i64, self.layers.len() as i64];
        for l in &self.layers {
            l.encode(&mut v);
        }
        v
    }
    fn decode(s: &str) -> Option<Case> {
        let v = parse_ints(s)?;
        let mut it = v.into_iter();
        if it.next()? != 1 {
            return None;
        }
        let is_term = it.next()? != 0;
        let tseed = it.next()? as u64;
        let rect = (it.next()? as i32, it.next()? as i32, it.next()? as i32, it.next()? as i32);
        let n = it.next()?;
        let mut layers = Vec::new();
        for _ in 0..n {
            layers.push(LayerSpec::decode(&mut it)?);
        }
        Some(Case { is_term, tseed, rect, layers })
    }
    fn input(&self) -> String {
        join(&self.encode(), ",")
    }
    fn positions(&self) -> Vec<(i32, i32)> {
        let mut v = Vec::new();
        for y in self.rect.1..=self.rect.3 {
            for x in self.rect.0..=self.rect.2 {
                v.push((x, y));
            }
        }
        v
    }
}

/// font slots of every test buffer: 0 = CP437 8x16, 1 = C64 8x8, 3 = Amiga Topaz; slot 2 is absent
pub fn build(is_term: bool, layers: &[LayerSpec]) -> Buffer {
    let mut buf = Buffer::new((16, 8));
    buf.is_terminal_buffer = is_term;
    buf.set_font(1, BitFont::from_ansi_font_page(32).unwrap());
    buf.set_font(3, BitFont::from_ansi_font_page(42).unwrap());
    buf.layers.clear();
    for l in layers {
        buf.layers.push(l.build());
    }
    buf
}

fn observe(buf: &Buffer, pos: &[(i32, i32)]) -> Vec<Result<AttributedChar, String>> {
    pos.iter().map(|&(x, y)| catch(AssertUnwindSafe(|| buf.get_char((x, y))))).collect()
}

fn show(obs: &[Result<AttributedChar, String>]) -> String {
    let mut s = String::new();
    for (i, o) in obs.iter().enumerate() {
        if i > 0 {
            s.push(' ');
        }
        match o {
            Ok(c) => s.push_str(&CellSpec::of(*c).show()),
            Err(_) => s.push_str("panic"),
        }
    }
    s
}

/// the (page, char) pairs `make_solid_color` can be asked about, classified by the implementation
pub fn sample_hb(buf: &Buffer, layers: &[LayerSpec]) -> Vec<i64> {
    let mut pages: BTreeSet<usize> = [0usize].into_iter().collect();
    let mut chars: BTreeSet<u32> = [32u32].into_iter().collect();
    for l in layers {
        pages.insert(l.dflt);
        for c in l.rows.iter().flatten().flatten() {
            pages.insert(c.page);
            chars.insert(c.ch);
        }
    }
    let mut out = vec![(pages.len() * chars.len()) as i64];
    let t = AttributedChar::new(223 as char, TextAttribute::new(TRANSPARENT, TRANSPARENT));
    for &p in &pages {
        for &ch in &chars {
            let u = CellSpec { ch, fg: 1, bg: 2, flags: 0, page: p }.to_char();
            let r = buf.make_solid_color(t, u);
            out.extend([p as i64, ch as i64, (r.attribute.get_foreground() == 1) as i64, (r.attribute.get_background() == 1) as i64]);
        }
    }
    out
}

fn correspond(run: &mut Run, case: &Case, buf: &Buffer) -> Vec<Result<AttributedChar, String>> {
    let pos = case.positions();
    let obs = observe(buf, &pos);
    let mut op = vec![case.is_term as i64, case.rect.0 as i64, case.rect.1 as i64, case.rect.2 as i64, case.rect.3 as i64];
    op.extend(sample_hb(buf, &case.layers));
    op.push(case.layers.len() as i64);
    for l in &case.layers {
        l.encode(&mut op);
    }
    run.case(&format!("comp get {}", join(&op, " ")), &show(&obs));
    obs
}

const CHARS: &[u32] = &[0, 32, 65, 66, 97, 176, 178, 219, 220, 221, 223, 255, 0x2588];
const COLORS: &[u32] = &[0, 0, 1, 2, 7, 8, 15, 200, TRANSPARENT, TRANSPARENT, TRANSPARENT | 0x12_34_56];
const FLAGS: &[u16] = &[0, 0, 0, 1, 8, 0x0212, 0x4000];
const PAGES: &[usize] = &[0, 0, 0, 1, 2, 3];

fn gen() -> CellGen<'static> {
    CellGen { chars: CHARS, colors: COLORS, flags: FLAGS, pages: PAGES, weird_invisible: 40 }
}

fn rand_rows(rng: &mut Rng, w: i32, h: i32, density: u64, ragged: bool) -> Vec<Vec<CellOpt>> {
    let g = gen();
    let nrows = if ragged && rng.chance(1, 4) { rng.range(0, h as i64 + 1) as usize } else { h as usize };
    (0..nrows)
        .map(|_| {
            let len = if ragged && rng.chance(1, 4) { rng.range(0, w as i64 + 2) as usize } else { w as usize };
            (0..len)
                .map(|_| {
                    if rng.below(100) < density {
                        let mut c = g.cell(rng);
                        // transparent-colour half blocks, as the half-block painter produces them
                        if rng.chance(1, 6) {
                            c.ch = *rng.pick(&[220u32, 223, 223, 65]);
                            if rng.chance(1, 2) {
                                c.bg = TRANSPARENT
                            } else {
                                c.fg = TRANSPARENT
                            }
                        }
                        Some(c)
                    } else {
                        None
                    }
                })
                .collect()
        })
        .collect()
}

fn rand_layer(rng: &mut Rng) -> LayerSpec {
    let w = rng.range(1, 12) as i32;
    let h = rng.range(1, 8) as i32;
    let density = *rng.pick(&[10u64, 30, 30, 60, 95]);
    LayerSpec {
        visible: !rng.chance(1, 5),
        alpha: rng.chance(3, 5),
        mode: *rng.pick(&[0u8, 0, 0, 1, 2]),
        ox: rng.range(-4, 6) as i32,
        oy: rng.range(-4, 6) as i32,
        w,
        h,
        dflt: *rng.pick(&[0usize, 0, 1, 2, 3]),
        rows: rand_rows(rng, w, h, density, true),
    }
}

fn rand_case(rng: &mut Rng) -> Case {
    let n = rng.range(1, 5) as usize;
    let layers: Vec<LayerSpec> = (0..n).map(|_| rand_layer(rng)).collect();
    Case { is_term: rng.chance(1, 2), tseed: rng.next() >> 12, rect: Case::bbox_rect(&layers), layers }
}

/// compare two observation vectors cell by cell with the engine's `PartialEq`
fn first_diff(a: &[Result<AttributedChar, String>], b: &[Result<AttributedChar, String>], pos: &[(i32, i32)], filter: impl Fn(i32, i32) -> bool) -> Option<String> {
    for (i, (x, y)) in a.iter().zip(b.iter()).enumerate() {
        if !filter(pos[i].0, pos[i].1) {
            continue;
        }
        let same = match (x, y) {
            (Ok(p), Ok(q)) => same_displayed(*p, *q),
            (Err(_), Err(_)) => true,
            _ => false,
        };
        if !same {
            let sh = |r: &Result<AttributedChar, String>| match r {
                Ok(c) => CellSpec::of(*c).show(),
                Err(e) => format!("panic@{}", panic_site(e)),
            };
            return Some(format!("at ({},{}) before={} after={}", pos[i].0, pos[i].1, sh(x), sh(y)));
        }
    }
    None
}

fn one(run: &mut Run, case: &Case, in_quantifier: bool) {
    let buf = build(case.is_term, &case.layers);
    let base = correspond(run, case, &buf);
    let pos = case.positions();
    let input = case.input();
    run.nontrivial(fnv(case.encode().into_iter().map(|x| x as u64)));
    run.count(&format!("layers={}", case.layers.len()));
    for l in &case.layers {
        run.count(&format!("mode{}{}{}", l.mode, if l.alpha { "a" } else { "o" }, if l.visible { "v" } else { "h" }));
    }
    for o in &base {
        match o {
            Ok(c) if !c.is_visible() => run.count("result:invisible"),
            Ok(c) if c.attribute.get_foreground() == TRANSPARENT || c.attribute.get_background() == TRANSPARENT => run.count("result:unresolved-transparent"),
            Ok(_) => run.count("result:visible"),
            Err(e) => {
                run.count("result:panic");
                if in_quantifier {
                    run.oracle_fail(&format!("panic:{}", panic_site(e)), &input, "Buffer::get_char panicked inside the property's quantifier");
                }
            }
        }
    }
    if !in_quantifier {
        return;
    }
    let mut rng = Rng::new(case.tseed ^ 0xC13);
    let n = case.layers.len();
    let all = |_: i32, _: i32| true;

    // --- "topmost first", stated on the stack itself (no model, no second buffer): walking down from the top, the first visible
    // covering layer that has a visible cell at the position decides.  When that layer is a Normal-mode layer (and no visible
    // Chars/Attributes cell lies above it, which would merge into it) the displayed character is its character and every colour
    // of that cell that is not the transparent colour is displayed unchanged — cells further down may only fill the
    // transparent colours in.
    for (k, (x, y)) in pos.iter().enumerate() {
        let shown = match &base[k] {
            Ok(c) => *c,
            Err(_) => continue,
        };
        // positions touched by a visible cell of a Chars/Attributes layer anywhere in the stack are left to the model
        // correspondence (such a cell merges into the cells beneath it; see DESIGN §9.7 for what the code does when it lies
        // beneath a transparent-colour cell)
        let merging = case.layers.iter().any(|l| {
            l.visible && l.mode != 0 && l.covers(*x, *y)
                && l.rows.get((*y - l.oy) as usize).and_then(|r| r.get((*x - l.ox) as usize)).copied().flatten().map(|c| c.visible()).unwrap_or(false)
        });
        if merging {
            continue;
        }
        for (li, l) in case.layers.iter().enumerate().rev() {
            if !l.visible || !l.covers(*x, *y) {
                continue;
            }
            let cell: CellOpt = l.rows.get((*y - l.oy) as usize).and_then(|r| r.get((*x - l.ox) as usize)).copied().flatten();
            let vis = cell.map(|c| c.visible()).unwrap_or(false);
            if l.mode != 0 {
                if vis {
                    break; // merges into the cell below: outside this clause
                }
                continue;
            }
            if let (true, Some(c)) = (vis, cell) {
                let s = CellSpec::of(shown);
                let ok = shown.is_visible() && s.ch == c.to_char().ch as u32 && (c.fg == TRANSPARENT || s.fg == c.fg) && (c.bg == TRANSPARENT || s.bg == c.bg);
                if !ok {
                    run.oracle_fail("topmost_first", &input, &format!("at ({},{}) the topmost visible cell is {} of layer {} but {} is displayed", x, y, c.show(), li, s.show()));
                }
                break;
            }
            if !l.alpha {
                break; // opaque layer without a visible cell here: shows the default cell
            }
        }
    }

    // --- consequence 1: inserting an empty alpha layer anywhere
    for idx in 0..=n {
        let mut e = LayerSpec::empty(rng.range(1, 12) as i32, rng.range(1, 8) as i32);
        e.alpha = true;
        e.ox = rng.range(-4, 6) as i32;
        e.oy = rng.range(-4, 6) as i32;
        e.dflt = *rng.pick(&[0usize, 1, 2, 3]);
        e.mode = *rng.pick(&[0u8, 0, 0, 1, 2]);
        let mut ls = case.layers.clone();
        ls.insert(idx, e);
        let b2 = build(case.is_term, &ls);
        let o2 = observe(&b2, &pos);
        if let Some(d) = first_diff(&base, &o2, &pos, all) {
            run.oracle_fail("insert_empty_alpha", &input, &format!("empty alpha layer inserted at index {} changes the picture {}", idx, d));
        }
        if idx == n / 2 && rng.chance(1, 3) {
            let c2 = Case { layers: ls, ..case.clone() };
            correspond(run, &c2, &b2);
        }
    }
    // --- consequence 2: editing a hidden layer (content, size, offset, mode, alpha)
    for i in 0..n {
        if case.layers[i].visible {
            continue;
        }
        let mut ls = case.layers.clone();
        let mut l = rand_layer(&mut rng);
        l.visible = false;
        ls[i] = l;
        let o2 = observe(&build(case.is_term, &ls), &pos);
        if let Some(d) = first_diff(&base, &o2, &pos, all) {
            run.oracle_fail("edit_hidden", &input, &format!("editing hidden layer {} changes the picture {}", i, d));
        }
        // law: a hidden layer can be removed
        let mut ls = case.layers.clone();
        ls.remove(i);
        let o2 = observe(&build(case.is_term, &ls), &pos);
        if let Some(d) = first_diff(&base, &o2, &pos, all) {
            run.oracle_fail("remove_hidden", &input, &format!("removing hidden layer {} changes the picture {}", i, d));
        }
    }
    // --- consequence 3: translating the whole stack
    {
        let (dx, dy) = (rng.range(-7, 7) as i32, rng.range(-7, 7) as i32);
        let mut ls = case.layers.clone();
        for l in &mut ls {
            l.ox += dx;
            l.oy += dy;
        }
        let b2 = build(case.is_term, &ls);
        let pos2: Vec<(i32, i32)> = pos.iter().map(|&(x, y)| (x + dx, y + dy)).collect();
        let o2 = observe(&b2, &pos2);
        if let Some(d) = first_diff(&base, &o2, &pos, all) {
            run.oracle_fail("translate_stack", &input, &format!("translating the stack by ({},{}) changes a cell other than by that translation {}", dx, dy, d));
        }
    }
    // --- law: a layer does not influence positions it does not cover
    {
        let i = rng.below(n as u64) as usize;
        let mut ls = case.layers.clone();
        let removed = ls.remove(i);
        let o2 = observe(&build(case.is_term, &ls), &pos);
        if let Some(d) = first_diff(&base, &o2, &pos, |x, y| !removed.covers(x, y)) {
            run.oracle_fail("uncovered_layer", &input, &format!("removing layer {} changes a position it does not cover {}", i, d));
        }
    }
    // --- law: invisible cells of alpha layers (and of char / attribute layers) never influence the picture:
    //     replace every invisible cell by another invisible cell with arbitrary character / colours
    {
        let i = rng.below(n as u64) as usize;
        let l = &case.layers[i];
        if l.alpha || l.mode != 0 {
            let g = gen();
            let mut ls = case.layers.clone();
            let mut changed = false;
            // materialise the full w x h grid so that ragged (missing) cells can be edited too
            let mut rows = ls[i].rows.clone();
            rows.resize(l.h as usize, Vec::new());
            for r in rows.iter_mut() {
                if r.len() < l.w as usize {
                    r.resize(l.w as usize, None);
                }
                for c in r.iter_mut() {
                    let inv = c.map(|c| !c.visible()).unwrap_or(true);
                    if inv && rng.chance(1, 2) {
                        let mut nc = g.cell(&mut rng);
                        nc.flags |= INVISIBLE;
                        *c = Some(nc);
                        changed = true;
                    }
                }
            }
            if changed {
                ls[i].rows = rows;
                let o2 = observe(&build(case.is_term, &ls), &pos);
                if let Some(d) = first_diff(&base, &o2, &pos, all) {
                    let key = if l.mode == 1 { "invisible_cell_chars_layer" } else { "invisible_alpha_cell" };
                    run.oracle_fail(key, &input, &format!("rewriting invisible cells of layer {} (mode {}) with other invisible cells changes the picture {}", i, l.mode, d));
                }
            }
        }
    }
    // --- same law, deterministic form: every cell carrying the INVISIBLE bit on an alpha / chars / attributes
    //     layer may be replaced by `AttributedChar::invisible()`
    {
        let mut ls = case.layers.clone();
        let mut modes = BTreeSet::new();
        for l in ls.iter_mut() {
            if !(l.alpha || l.mode != 0) {
                continue;
            }
            for c in l.rows.iter_mut().flatten() {
                if c.map(|c| !c.visible()).unwrap_or(false) {
                    *c = None;
                    modes.insert(l.mode);
                }
            }
        }
        if !modes.is_empty() {
            let o2 = observe(&build(case.is_term, &ls), &pos);
            if let Some(d) = first_diff(&base, &o2, &pos, all) {
                let key = if modes.contains(&1) { "invisible_cell_chars_layer" } else { "invisible_alpha_cell" };
                run.oracle_fail(key, &input, &format!("replacing cells that carry the INVISIBLE attribute by AttributedChar::invisible() changes the picture {}", d));
            }
        }
    }
    // --- law: an opaque (normal-mode) layer hides everything beneath it inside its rectangle
    for i in 0..n {
        let l = &case.layers[i];
        if !(l.visible && !l.alpha && l.mode == 0) {
            continue;
        }
        let mut ls: Vec<LayerSpec> = (0..rng.range(0, 3)).map(|_| rand_layer(&mut rng)).collect();
        ls.extend_from_slice(&case.layers[i..]);
        let o2 = observe(&build(case.is_term, &ls), &pos);
        let l = l.clone();
        if let Some(d) = first_diff(&base, &o2, &pos, |x, y| l.covers(x, y)) {
            run.oracle_fail("opaque_cuts", &input, &format!("replacing the layers beneath opaque layer {} changes a cell inside its rectangle {}", i, d));
        }
        break;
    }
}

/// a 1x1 layer at the origin
fn tiny(visible: bool, alpha: bool, mode: u8, cell: CellOpt, dflt: usize) -> LayerSpec {
    LayerSpec { visible, alpha, mode, ox: 0, oy: 0, w: 1, h: 1, dflt, rows: vec![vec![cell]] }
}

const TINY_CELLS: &[CellOpt] = &[
    None,
    Some(CellSpec { ch: 65, fg: 7, bg: 0, flags: 0, page: 0 }),
    Some(CellSpec { ch: 32, fg: 3, bg: 0, flags: 0, page: 1 }),
    Some(CellSpec { ch: 223, fg: 4, bg: TRANSPARENT, flags: 0, page: 0 }),
    Some(CellSpec { ch: 66, fg: TRANSPARENT, bg: 5, flags: 1, page: 3 }),
    Some(CellSpec { ch: 67, fg: 1, bg: 2, flags: INVISIBLE, page: 0 }),
];

fn tiny_configs(with_hidden: bool) -> Vec<LayerSpec> {
    let mut v = Vec::new();
    for vis in if with_hidden { vec![true, false] } else { vec![true] } {
        for alpha in [false, true] {
            for mode in 0..3u8 {
                for (k, c) in TINY_CELLS.iter().enumerate() {
                    v.push(tiny(vis, alpha, mode, *c, k % 4));
                }
            }
        }
    }
    v
}

pub fn run(run: &mut Run, seed: u64, thorough: bool, replay: Option<&str>, corpus: &[String]) {
    if let Some(r) = replay {
        match Case::decode(r.trim()) {
            Some(c) => one(run, &c, true),
            None => eprintln!("c13: cannot decode replay input"),
        }
        return;
    }
    for c in corpus {
        if let Some(c) = Case::decode(c) {
            one(run, &c, true);
        }
    }
    let mut rng = Rng::new(seed);
    // stacks per the property's quantifier
    for _ in 0..(if thorough { 12000 } else { 2000 }) {
        let c = rand_case(&mut rng);
        one(run, &c, true);
    }
    // half-block towers: dense layers of half blocks with transparent colours over half blocks / blocks
    // (exercises every arm of make_solid_color over asymmetric glyphs)
    for _ in 0..(if thorough { 3000 } else { 400 }) {
        let n = rng.range(2, 4) as usize;
        let w = rng.range(2, 6) as i32;
        let h = rng.range(1, 3) as i32;
        let mut layers = Vec::new();
        for k in 0..n {
            let rows = (0..h)
                .map(|_| {
                    (0..w)
                        .map(|_| {
                            if rng.chance(1, 6) {
                                return None;
                            }
                            let mut c = CellSpec { ch: *rng.pick(&[220u32, 223, 219, 221, 65, 32]), fg: *rng.pick(&[1u32, 2, 3, 4]), bg: *rng.pick(&[0u32, 5, 6]), flags: 0, page: *rng.pick(&[0usize, 0, 1, 3]) };
                            if k > 0 && rng.chance(2, 3) {
                                match rng.below(3) {
                                    0 => c.fg = TRANSPARENT,
                                    1 => c.bg = TRANSPARENT,
                                    _ => {
                                        c.fg = TRANSPARENT;
                                        c.bg = TRANSPARENT
                                    }
                                }
                            }
                            Some(c)
                        })
                        .collect()
                })
                .collect();
            layers.push(LayerSpec { visible: true, alpha: k > 0 || rng.chance(1, 2), mode: if k > 0 && rng.chance(1, 6) { *rng.pick(&[1u8, 2]) } else { 0 }, ox: rng.range(0, 1) as i32, oy: 0, w, h, dflt: *rng.pick(&[0usize, 1, 3]), rows });
        }
        let c = Case { is_term: rng.chance(1, 2), tseed: rng.next() >> 12, rect: Case::bbox_rect(&layers), layers };
        one(run, &c, true);
        run.count("half-block-tower");
    }
    // small scope: stacks of 1x1 layers at the origin, queried at the origin and its border
    let cfg2 = tiny_configs(true);
    let cfg3 = tiny_configs(false);
    let mut small: Vec<Case> = Vec::new();
    let mk = |layers: Vec<LayerSpec>, t: bool| Case { is_term: t, tseed: 7, rect: (-1, 0, 1, 0), layers };
    if thorough {
        for a in &cfg2 {
            for t in [false, true] {
                small.push(mk(vec![a.clone()], t));
            }
            for b in &cfg2 {
                small.push(mk(vec![a.clone(), b.clone()], a.dflt % 2 == 0));
            }
        }
        for a in &cfg3 {
            for b in &cfg3 {
                for c in &cfg3 {
                    small.push(mk(vec![a.clone(), b.clone(), c.clone()], (a.dflt + b.dflt) % 2 == 0));
                }
            }
        }
    } else {
        for _ in 0..4000 {
            let n = rng.range(1, 4) as usize;
            let layers = (0..n).map(|_| rng.pick(&cfg2).clone()).collect();
            small.push(mk(layers, rng.chance(1, 2)));
        }
    }
    run.extra.push(("small_scope_stacks".into(), small.len().to_string()));
    run.extra.push(("exhaustive_small_scope".into(), thorough.to_string()));
    for c in &small {
        let buf = build(c.is_term, &c.layers);
        correspond(run, c, &buf);
        run.count("small-scope");
    }
    // outside the quantifier (correspondence only): offsets at the edge of i32 — the subtraction
    // `pos - offset` is a checked i32 operation in the debug profile
    for _ in 0..(if thorough { 400 } else { 40 }) {
        let mut c = rand_case(&mut rng);
        let far = *rng.pick(&[i32::MAX, i32::MIN, i32::MIN + 1, 1 << 30, -(1 << 30), i32::MAX - 5]);
        let k = rng.below(c.layers.len() as u64) as usize;
        if rng.chance(1, 2) {
            c.layers[k].ox = far;
        } else {
            c.layers[k].oy = far;
        }
        let cx = *rng.pick(&[0i32, -3, 5, far, far.wrapping_add(1), i32::MAX, i32::MIN]);
        let cy = *rng.pick(&[0i32, -3, 5, far, far.wrapping_add(1)]);
        c.rect = (cx.saturating_sub(1), cy.saturating_sub(1), cx.saturating_add(1), cy.saturating_add(1));
        one(run, &c, false);
        run.count("far-offset");
    }
}
