//! C13: layer compositing obeys the stacking laws.
//!
//! correspondence: `Buffer::get_char` at every position of the stack's bounding box + 2 against the Lean model
//! (`icydrv comp get …`; the half-block classifier is the model of `HalfBlock::from` over the regenerated font bitmaps);
//! real `Layer`s driven through histories of `set_offset` / `set_preview_offset` / position lock / direct writes of
//! `properties.offset` and then composited (`comp ops …`, together with the three getters); `make_solid_color` on every
//! glyph of the installed fonts (`comp solid …`); `AttributedChar::{is_visible, is_transparent}` (`comp pred …`);
//! `Layer::get_char` on ragged rows inside and outside the layer (`comp lget …`).
//! oracle (independent of the model): the relational laws of the property applied to real `Buffer`s.
use crate::doc::*;
use crate::util::*;
use icy_engine::{AttributedChar, BitFont, Buffer, Position, TextAttribute, TextPane};
use std::collections::BTreeSet;
use std::panic::AssertUnwindSafe;

/// an operation on the position state of one layer (src/layer.rs)
#[derive(Clone, Copy, Debug, PartialEq, Eq)]
pub enum Op {
    /// `layer.set_offset(q)`
    SetOffset(i32, i32),
    /// `layer.set_preview_offset(Some(p))`
    Preview(i32, i32),
    /// `layer.set_preview_offset(None)`
    PreviewNone,
    /// `layer.properties.is_position_locked = b`
    Lock(bool),
    /// `layer.properties.offset = q` (public field)
    Assign(i32, i32),
}

impl Op {
    fn encode(&self) -> [i64; 3] {
        match *self {
            Op::SetOffset(x, y) => [0, x as i64, y as i64],
            Op::Preview(x, y) => [1, x as i64, y as i64],
            Op::PreviewNone => [2, 0, 0],
            Op::Lock(b) => [3, b as i64, 0],
            Op::Assign(x, y) => [4, x as i64, y as i64],
        }
    }
    fn decode(c: i64, a: i64, b: i64) -> Option<Op> {
        Some(match c {
            0 => Op::SetOffset(a as i32, b as i32),
            1 => Op::Preview(a as i32, b as i32),
            2 => Op::PreviewNone,
            3 => Op::Lock(a != 0),
            4 => Op::Assign(a as i32, b as i32),
            _ => return None,
        })
    }
    fn apply(&self, l: &mut icy_engine::Layer) {
        match *self {
            Op::SetOffset(x, y) => l.set_offset((x, y)),
            Op::Preview(x, y) => l.set_preview_offset(Some(Position::new(x, y))),
            Op::PreviewNone => l.set_preview_offset(None),
            Op::Lock(b) => l.properties.is_position_locked = b,
            Op::Assign(x, y) => l.properties.offset = Position::new(x, y),
        }
    }
    fn name(&self) -> &'static str {
        match self {
            Op::SetOffset(..) => "set_offset",
            Op::Preview(..) => "set_preview_offset_some",
            Op::PreviewNone => "set_preview_offset_none",
            Op::Lock(_) => "position_lock",
            Op::Assign(..) => "assign_offset",
        }
    }
}

#[derive(Clone, Debug)]
pub struct Case {
    pub is_term: bool,
    pub tseed: u64,
    /// query rectangle (inclusive)
    pub rect: (i32, i32, i32, i32),
    pub layers: Vec<LayerSpec>,
    /// history of position operations `(layer index, op)` applied to the freshly built stack (encoding version 2)
    pub ops: Vec<(usize, Op)>,
}

impl Case {
    fn bbox_rect(layers: &[LayerSpec]) -> (i32, i32, i32, i32) {
        let x0 = layers.iter().map(|l| l.ox).min().unwrap_or(0);
        let y0 = layers.iter().map(|l| l.oy).min().unwrap_or(0);
        let x1 = layers.iter().map(|l| l.ox + l.w - 1).max().unwrap_or(0);
        let y1 = layers.iter().map(|l| l.oy + l.h - 1).max().unwrap_or(0);
        (x0 - 2, y0 - 2, x1 + 2, y1 + 2)
    }
    fn encode(&self) -> Vec<i64> {
        let version = if self.ops.is_empty() { 1 } else { 2 };
        let mut v = vec![version, self.is_term as i64, self.tseed as i64, self.rect.0 as i64, self.rect.1 as i64, self.rect.2 as i64, self.rect.3 as i64, self.layers.len() as i64];
        for l in &self.layers {
            l.encode(&mut v);
        }
        if version == 2 {
            v.push(self.ops.len() as i64);
            for (i, op) in &self.ops {
                v.push(*i as i64);
                v.extend(op.encode());
            }
        }
        v
    }
    fn decode(s: &str) -> Option<Case> {
        let v = parse_ints(s)?;
        let mut it = v.into_iter();
        let version = it.next()?;
        if version != 1 && version != 2 {
            return None;
        }
        let is_term = it.next()? != 0;
        let tseed = it.next()? as u64;
        let rect = (it.next()? as i32, it.next()? as i32, it.next()? as i32, it.next()? as i32);
        let n = it.next()?;
        let mut layers = Vec::new();
        for _ in 0..n {
            layers.push(LayerSpec::decode(&mut it)?);
        }
        let mut ops = Vec::new();
        if version == 2 {
            let k = it.next()?;
            for _ in 0..k {
                let i = it.next()?;
                if i < 0 || i as usize >= layers.len() {
                    return None;
                }
                ops.push((i as usize, Op::decode(it.next()?, it.next()?, it.next()?)?));
            }
        }
        Some(Case { is_term, tseed, rect, layers, ops })
    }
    fn input(&self) -> String {
        join(&self.encode(), ",")
    }
    fn positions(&self) -> Vec<(i32, i32)> {
        let mut v = Vec::new();
        for y in self.rect.1..=self.rect.3 {
            for x in self.rect.0..=self.rect.2 {
                v.push((x, y));
            }
        }
        v
    }
}

/// font slots of every test buffer as (buffer slot, ANSI font slot): 0 = CP437 8x16, 1 = C64 8x8, 3 = Amiga Topaz;
/// slot 2 is absent.  The translator (tools/gens/comp.py: HARNESS_ANSI_SLOTS) regenerates exactly these bitmaps.
pub const FONT_SLOTS: &[(usize, usize)] = &[(0, 0), (1, 32), (3, 42)];

fn font_words() -> Vec<i64> {
    let mut v = vec![FONT_SLOTS.len() as i64];
    for (b, a) in FONT_SLOTS {
        v.extend([*b as i64, *a as i64]);
    }
    v
}

pub fn build(is_term: bool, layers: &[LayerSpec]) -> Buffer {
    let mut buf = Buffer::new((16, 8));
    buf.is_terminal_buffer = is_term;
    for (b, a) in FONT_SLOTS {
        buf.set_font(*b, BitFont::from_ansi_font_page(*a).unwrap());
    }
    buf.layers.clear();
    for l in layers {
        buf.layers.push(l.build());
    }
    buf
}

fn observe(buf: &Buffer, pos: &[(i32, i32)]) -> Vec<Result<AttributedChar, String>> {
    pos.iter().map(|&(x, y)| catch(AssertUnwindSafe(|| buf.get_char((x, y))))).collect()
}

fn show(obs: &[Result<AttributedChar, String>]) -> String {
    let mut s = String::new();
    for (i, o) in obs.iter().enumerate() {
        if i > 0 {
            s.push(' ');
        }
        match o {
            Ok(c) => s.push_str(&CellSpec::of(*c).show()),
            Err(_) => s.push_str("panic"),
        }
    }
    s
}

/// the (page, char) pairs `make_solid_color` can be asked about, classified by the implementation
/// (C12's driver takes the classifier as this sampled table; C13 uses the model of `HalfBlock::from`)
pub fn sample_hb(buf: &Buffer, layers: &[LayerSpec]) -> Vec<i64> {
    let mut pages: BTreeSet<usize> = [0usize].into_iter().collect();
    let mut chars: BTreeSet<u32> = [32u32].into_iter().collect();
    for l in layers {
        pages.insert(l.dflt);
        for c in l.rows.iter().flatten().flatten() {
            pages.insert(c.page);
            chars.insert(c.ch);
        }
    }
    let mut out = vec![(pages.len() * chars.len()) as i64];
    let t = AttributedChar::new(223 as char, TextAttribute::new(TRANSPARENT, TRANSPARENT));
    for &p in &pages {
        for &ch in &chars {
            let u = CellSpec { ch, fg: 1, bg: 2, flags: 0, page: p }.to_char();
            let r = buf.make_solid_color(t, u);
            out.extend([p as i64, ch as i64, (r.attribute.get_foreground() == 1) as i64, (r.attribute.get_background() == 1) as i64]);
        }
    }
    out
}

fn correspond(run: &mut Run, case: &Case, buf: &Buffer) -> Vec<Result<AttributedChar, String>> {
    let pos = case.positions();
    let obs = observe(buf, &pos);
    let mut op = vec![case.is_term as i64, case.rect.0 as i64, case.rect.1 as i64, case.rect.2 as i64, case.rect.3 as i64];
    op.extend(font_words());
    op.push(case.layers.len() as i64);
    for l in &case.layers {
        l.encode(&mut op);
    }
    run.case(&format!("comp get {}", join(&op, " ")), &show(&obs));
    obs
}

const CHARS: &[u32] = &[0, 32, 65, 66, 97, 176, 178, 219, 220, 221, 223, 255, 0x2588];
const COLORS: &[u32] = &[0, 0, 1, 2, 7, 8, 15, 200, TRANSPARENT, TRANSPARENT, TRANSPARENT | 0x12_34_56];
const FLAGS: &[u16] = &[0, 0, 0, 1, 8, 0x0212, 0x4000];
const PAGES: &[usize] = &[0, 0, 0, 1, 2, 3];

fn gen() -> CellGen<'static> {
    CellGen { chars: CHARS, colors: COLORS, flags: FLAGS, pages: PAGES, weird_invisible: 40 }
}

fn rand_rows(rng: &mut Rng, w: i32, h: i32, density: u64, ragged: bool) -> Vec<Vec<CellOpt>> {
    let g = gen();
    let nrows = if ragged && rng.chance(1, 4) { rng.range(0, h as i64 + 1) as usize } else { h as usize };
    (0..nrows)
        .map(|_| {
            let len = if ragged && rng.chance(1, 4) { rng.range(0, w as i64 + 2) as usize } else { w as usize };
            (0..len)
                .map(|_| {
                    if rng.below(100) < density {
                        let mut c = g.cell(rng);
                        // transparent-colour half blocks, as the half-block painter produces them
                        if rng.chance(1, 6) {
                            c.ch = *rng.pick(&[220u32, 223, 223, 65]);
                            if rng.chance(1, 2) {
                                c.bg = TRANSPARENT
                            } else {
                                c.fg = TRANSPARENT
                            }
                        }
                        Some(c)
                    } else {
                        None
                    }
                })
                .collect()
        })
        .collect()
}

fn rand_layer(rng: &mut Rng) -> LayerSpec {
    let w = rng.range(1, 12) as i32;
    let h = rng.range(1, 8) as i32;
    let density = *rng.pick(&[10u64, 30, 30, 60, 95]);
    LayerSpec {
        visible: !rng.chance(1, 5),
        alpha: rng.chance(3, 5),
        mode: *rng.pick(&[0u8, 0, 0, 1, 2]),
        ox: rng.range(-4, 6) as i32,
        oy: rng.range(-4, 6) as i32,
        w,
        h,
        dflt: *rng.pick(&[0usize, 0, 1, 2, 3]),
        rows: rand_rows(rng, w, h, density, true),
    }
}

fn rand_case(rng: &mut Rng) -> Case {
    let n = rng.range(1, 5) as usize;
    let layers: Vec<LayerSpec> = (0..n).map(|_| rand_layer(rng)).collect();
    Case { is_term: rng.chance(1, 2), tseed: rng.next() >> 12, rect: Case::bbox_rect(&layers), layers, ops: Vec::new() }
}

/// compare two observation vectors cell by cell with the engine's `PartialEq`
fn first_diff(a: &[Result<AttributedChar, String>], b: &[Result<AttributedChar, String>], pos: &[(i32, i32)], filter: impl Fn(i32, i32) -> bool) -> Option<String> {
    for (i, (x, y)) in a.iter().zip(b.iter()).enumerate() {
        if !filter(pos[i].0, pos[i].1) {
            continue;
        }
        let same = match (x, y) {
            (Ok(p), Ok(q)) => same_displayed(*p, *q),
            (Err(_), Err(_)) => true,
            _ => false,
        };
        if !same {
            let sh = |r: &Result<AttributedChar, String>| match r {
                Ok(c) => CellSpec::of(*c).show(),
                Err(e) => format!("panic@{}", panic_site(e)),
            };
            return Some(format!("at ({},{}) before={} after={}", pos[i].0, pos[i].1, sh(x), sh(y)));
        }
    }
    None
}

/// `AttributedChar::is_transparent` as the Chars arm of the walk uses it: a blank on background 0 is "no character"
fn blank(c: CellSpec) -> bool {
    (c.ch == 0 || c.ch == 32) && c.bg == 0
}

/// `fn merge`: the character of a Chars cell and the whole attribute of an Attributes cell replace those of `c`
fn merged(c: CellSpec, ch: Option<u32>, attr: Option<CellSpec>) -> CellSpec {
    let mut r = c;
    if let Some(ch) = ch {
        r.ch = ch;
    }
    if let Some(a) = attr {
        r.fg = a.fg;
        r.bg = a.bg;
        r.flags = a.flags;
        r.page = a.page;
    }
    r
}

/// `shown` is `t` with at most its transparent colours replaced (Lean: `Cell.fills`); exact when `t` has none
fn fills(t: CellSpec, shown: CellSpec) -> bool {
    shown.ch == t.ch && shown.flags == t.flags && shown.page == t.page && (t.fg == TRANSPARENT || shown.fg == t.fg) && (t.bg == TRANSPARENT || shown.bg == t.bg)
}

/// "topmost first", stated on the stack itself (no model, no second buffer) — exactly the Lean theorems `topmost_first`,
/// `topmost_opaque_blank` and `nothing_visible`: walking down from the top, hidden / non-covering layers are skipped, a
/// visible cell of a Chars layer (unless blank on background 0) sets the character and a visible cell of an Attributes
/// layer the attribute for the cells beneath (the LOWEST such cell above the deciding layer wins), an alpha Normal layer
/// with an invisible cell is looked through; the first Normal layer with a visible cell decides: the displayed cell is that
/// cell merged with the modifiers, and only its transparent colours may have been filled in by what lies beneath.  An opaque
/// Normal layer with an invisible cell shows the default cell (on its default font page) merged with the modifiers.  If
/// nothing decides, the fall-through cell is shown.
fn topmost_oracle(run: &mut Run, case: &Case, pos: &[(i32, i32)], base: &[Result<AttributedChar, String>], input: &str) {
    let default = CellSpec { ch: 32, fg: 7, bg: 0, flags: 0, page: 0 };
    for (k, (x, y)) in pos.iter().enumerate() {
        let shown = match &base[k] {
            Ok(c) => *c,
            Err(_) => continue,
        };
        let s = CellSpec::of(shown);
        let mut ch_opt: Option<u32> = None;
        let mut attr_opt: Option<CellSpec> = None;
        let mut decided = false;
        for (li, l) in case.layers.iter().enumerate().rev() {
            if !l.visible || !l.covers(*x, *y) {
                continue;
            }
            // normalise through the engine's types exactly as `LayerSpec::build` does
            let cell: CellOpt = l.rows.get((*y - l.oy) as usize).and_then(|r| r.get((*x - l.ox) as usize)).copied().flatten().map(|c| CellSpec::of(c.to_char()));
            let vis = cell.map(|c| c.visible()).unwrap_or(false);
            match (l.mode, vis, cell) {
                (1, true, Some(c)) => {
                    if !blank(c) {
                        ch_opt = Some(c.ch);
                    }
                }
                (2, true, Some(c)) => attr_opt = Some(c),
                (0, true, Some(c)) => {
                    let found = merged(c, ch_opt, attr_opt);
                    let ok = shown.is_visible() && fills(found, s);
                    if !ok {
                        run.oracle_fail("topmost_first", input, &format!("at ({},{}) the topmost visible cell is {} of layer {} (with the char/attribute layers above it: {}) but {} is displayed", x, y, c.show(), li, found.show(), s.show()));
                    }
                    decided = true;
                    break;
                }
                (0, false, _) if !l.alpha => {
                    let mut d = default;
                    d.page = l.dflt;
                    let res = merged(d, ch_opt, attr_opt);
                    if !(shown.is_visible() && fills(res, s)) {
                        run.oracle_fail("topmost_opaque_blank", input, &format!("at ({},{}) opaque layer {} has no visible cell: the default cell with the char/attribute layers above it is {} but {} is displayed", x, y, li, res.show(), s.show()));
                    }
                    decided = true;
                    break;
                }
                _ => {}
            }
        }
        if !decided {
            let expect = if case.is_term || ch_opt.is_some() || attr_opt.is_some() { merged(default, ch_opt, attr_opt).to_char() } else { AttributedChar::invisible() };
            if !same_displayed(shown, expect) {
                run.oracle_fail("nothing_visible", input, &format!("at ({},{}) no layer has a cell of its own: expected {} but {} is displayed", x, y, CellSpec::of(expect).show(), s.show()));
            }
        }
    }
}

/// the position state of a layer as the API documents it (the harness's own bookkeeping, independent of the model)
#[derive(Clone, Copy)]
struct PosState {
    base: (i32, i32),
    pending: Option<(i32, i32)>,
    locked: bool,
}

impl PosState {
    fn shown(&self) -> (i32, i32) {
        self.pending.unwrap_or(self.base)
    }
}

/// a stack driven through a history of position operations: after every operation the picture must be the picture of a
/// stack built from scratch with every layer at the offset the API says it has; at the end `comp ops` correspondence
fn one_ops(run: &mut Run, case: &Case) {
    let input = case.input();
    let pos = case.positions();
    let n = case.layers.len();
    let mut buf = build(case.is_term, &case.layers);
    let mut st: Vec<PosState> = case.layers.iter().map(|l| PosState { base: (l.ox, l.oy), pending: None, locked: false }).collect();
    run.nontrivial(fnv(case.encode().into_iter().map(|x| x as u64)));
    run.count(&format!("ops={}", case.ops.len().min(9)));
    let all = |_: i32, _: i32| true;
    // only the first oracle failure of a history is reported; the history is always run to its end and compared with the model
    let mut reported = false;
    for (step, (i, op)) in case.ops.iter().enumerate() {
        let i = *i;
        let was_locked = st[i].locked;
        let r = catch(AssertUnwindSafe(|| op.apply(&mut buf.layers[i])));
        if let Err(e) = r {
            run.oracle_fail(&format!("panic:{}", panic_site(&e)), &input, &format!("{} panicked", op.name()));
            return;
        }
        run.count(&format!("op:{}{}", op.name(), if was_locked { ":locked" } else { "" }));
        match *op {
            Op::SetOffset(x, y) => {
                if !st[i].locked {
                    st[i].base = (x, y);
                    st[i].pending = None;
                }
            }
            Op::Preview(x, y) => st[i].pending = Some((x, y)),
            Op::PreviewNone => st[i].pending = None,
            Op::Lock(b) => st[i].locked = b,
            Op::Assign(x, y) => st[i].base = (x, y),
        }
        // the picture of a stack built from scratch with every layer where the API says it is
        let mut ls = case.layers.clone();
        for j in 0..n {
            let (x, y) = st[j].shown();
            ls[j].ox = x;
            ls[j].oy = y;
        }
        if reported {
            continue;
        }
        let got = observe(&buf, &pos);
        let want = observe(&build(case.is_term, &ls), &pos);
        if let Some(d) = first_diff(&want, &got, &pos, all) {
            let key = match op {
                Op::SetOffset(..) if was_locked => "offset_api:set_offset_on_locked_layer",
                Op::SetOffset(..) => "offset_api:set_offset",
                Op::Preview(..) => "offset_api:set_preview_offset",
                Op::PreviewNone => "offset_api:cancel_preview",
                Op::Lock(_) => "offset_api:position_lock",
                Op::Assign(..) => "offset_api:assign_offset",
            };
            let (sx, sy) = st[i].shown();
            run.oracle_fail(key, &input, &format!("after operation {} ({:?} on layer {}) the layer must contribute at ({},{}): the picture differs from that of a stack built from scratch with it there, {} (before = built from scratch, after = real layers after the operations)", step, op, i, sx, sy, d));
            reported = true;
            continue;
        }
        let l = &buf.layers[i];
        let (g, b) = (l.get_offset(), l.get_base_offset());
        if (g.x, g.y) != st[i].shown() || (b.x, b.y) != st[i].base || l.get_preview_offset().map(|p| (p.x, p.y)) != st[i].pending {
            run.oracle_fail("offset_api:getters", &input, &format!("after operation {} ({:?} on layer {}): get_offset={:?} get_base_offset={:?} get_preview_offset={:?}, expected {:?} / {:?} / {:?}", step, op, i, g, b, l.get_preview_offset(), st[i].shown(), st[i].base, st[i].pending));
            reported = true;
        }
    }
    // correspondence: the real layers after the history, composited, and their getters
    let obs = observe(&buf, &pos);
    let mut words = vec![case.is_term as i64, case.rect.0 as i64, case.rect.1 as i64, case.rect.2 as i64, case.rect.3 as i64];
    words.extend(font_words());
    words.push(n as i64);
    for l in &case.layers {
        l.encode(&mut words);
    }
    words.push(case.ops.len() as i64);
    for (i, op) in &case.ops {
        words.push(*i as i64);
        words.extend(op.encode());
    }
    let mut seen = show(&obs);
    seen.push_str(" |");
    for l in &buf.layers {
        let (g, b) = (l.get_offset(), l.get_base_offset());
        seen.push_str(&format!(" {},{};{},{};{}", g.x, g.y, b.x, b.y, l.get_preview_offset().map(|p| format!("{},{}", p.x, p.y)).unwrap_or_else(|| "none".into())));
    }
    run.case(&format!("comp ops {}", join(&words, " ")), &seen);
}

fn one(run: &mut Run, case: &Case, in_quantifier: bool) {
    if !case.ops.is_empty() {
        one_ops(run, case);
        return;
    }
    let buf = build(case.is_term, &case.layers);
    let base = correspond(run, case, &buf);
    let pos = case.positions();
    let input = case.input();
    run.nontrivial(fnv(case.encode().into_iter().map(|x| x as u64)));
    run.count(&format!("layers={}", case.layers.len()));
    for l in &case.layers {
        run.count(&format!("mode{}{}{}", l.mode, if l.alpha { "a" } else { "o" }, if l.visible { "v" } else { "h" }));
    }
    for o in &base {
        match o {
            Ok(c) if !c.is_visible() => run.count("result:invisible"),
            Ok(c) if c.attribute.get_foreground() == TRANSPARENT || c.attribute.get_background() == TRANSPARENT => run.count("result:unresolved-transparent"),
            Ok(_) => run.count("result:visible"),
            Err(e) => {
                run.count("result:panic");
                if in_quantifier {
                    run.oracle_fail(&format!("panic:{}", panic_site(e)), &input, "Buffer::get_char panicked inside the property's quantifier");
                }
            }
        }
    }
    if !in_quantifier {
        return;
    }
    let mut rng = Rng::new(case.tseed ^ 0xC13);
    let n = case.layers.len();
    let all = |_: i32, _: i32| true;

    topmost_oracle(run, case, &pos, &base, &input);

    // --- consequence 1: inserting an empty alpha layer anywhere
    for idx in 0..=n {
        let mut e = LayerSpec::empty(rng.range(1, 12) as i32, rng.range(1, 8) as i32);
        e.alpha = true;
        e.ox = rng.range(-4, 6) as i32;
        e.oy = rng.range(-4, 6) as i32;
        e.dflt = *rng.pick(&[0usize, 1, 2, 3]);
        e.mode = *rng.pick(&[0u8, 0, 0, 1, 2]);
        let mut ls = case.layers.clone();
        ls.insert(idx, e);
        let b2 = build(case.is_term, &ls);
        let o2 = observe(&b2, &pos);
        if let Some(d) = first_diff(&base, &o2, &pos, all) {
            run.oracle_fail("insert_empty_alpha", &input, &format!("empty alpha layer inserted at index {} changes the picture {}", idx, d));
        }
        if idx == n / 2 && rng.chance(1, 3) {
            let c2 = Case { layers: ls, ..case.clone() };
            correspond(run, &c2, &b2);
        }
    }
    // --- consequence 2: editing a hidden layer (content, size, offset, mode, alpha)
    for i in 0..n {
        if case.layers[i].visible {
            continue;
        }
        let mut ls = case.layers.clone();
        let mut l = rand_layer(&mut rng);
        l.visible = false;
        ls[i] = l;
        let o2 = observe(&build(case.is_term, &ls), &pos);
        if let Some(d) = first_diff(&base, &o2, &pos, all) {
            run.oracle_fail("edit_hidden", &input, &format!("editing hidden layer {} changes the picture {}", i, d));
        }
        // law: a hidden layer can be removed
        let mut ls = case.layers.clone();
        ls.remove(i);
        let o2 = observe(&build(case.is_term, &ls), &pos);
        if let Some(d) = first_diff(&base, &o2, &pos, all) {
            run.oracle_fail("remove_hidden", &input, &format!("removing hidden layer {} changes the picture {}", i, d));
        }
    }
    // --- consequence 3: translating the whole stack
    {
        let (dx, dy) = (rng.range(-7, 7) as i32, rng.range(-7, 7) as i32);
        let mut ls = case.layers.clone();
        for l in &mut ls {
            l.ox += dx;
            l.oy += dy;
        }
        let b2 = build(case.is_term, &ls);
        let pos2: Vec<(i32, i32)> = pos.iter().map(|&(x, y)| (x + dx, y + dy)).collect();
        let o2 = observe(&b2, &pos2);
        if let Some(d) = first_diff(&base, &o2, &pos, all) {
            run.oracle_fail("translate_stack", &input, &format!("translating the stack by ({},{}) changes a cell other than by that translation {}", dx, dy, d));
        }
    }
    // --- law: a layer does not influence positions it does not cover
    {
        let i = rng.below(n as u64) as usize;
        let mut ls = case.layers.clone();
        let removed = ls.remove(i);
        let o2 = observe(&build(case.is_term, &ls), &pos);
        if let Some(d) = first_diff(&base, &o2, &pos, |x, y| !removed.covers(x, y)) {
            run.oracle_fail("uncovered_layer", &input, &format!("removing layer {} changes a position it does not cover {}", i, d));
        }
    }
    // --- law: invisible cells of alpha layers (and of char / attribute layers) never influence the picture:
    //     replace every invisible cell by another invisible cell with arbitrary character / colours
    {
        let i = rng.below(n as u64) as usize;
        let l = &case.layers[i];
        if l.alpha || l.mode != 0 {
            let g = gen();
            let mut ls = case.layers.clone();
            let mut changed = false;
            // materialise the full w x h grid so that ragged (missing) cells can be edited too
            let mut rows = ls[i].rows.clone();
            rows.resize(l.h as usize, Vec::new());
            for r in rows.iter_mut() {
                if r.len() < l.w as usize {
                    r.resize(l.w as usize, None);
                }
                for c in r.iter_mut() {
                    let inv = c.map(|c| !c.visible()).unwrap_or(true);
                    if inv && rng.chance(1, 2) {
                        let mut nc = g.cell(&mut rng);
                        nc.flags |= INVISIBLE;
                        *c = Some(nc);
                        changed = true;
                    }
                }
            }
            if changed {
                ls[i].rows = rows;
                let o2 = observe(&build(case.is_term, &ls), &pos);
                if let Some(d) = first_diff(&base, &o2, &pos, all) {
                    let key = if l.mode == 1 { "invisible_cell_chars_layer" } else { "invisible_alpha_cell" };
                    run.oracle_fail(key, &input, &format!("rewriting invisible cells of layer {} (mode {}) with other invisible cells changes the picture {}", i, l.mode, d));
                }
            }
        }
    }
    // --- same law, deterministic form: every cell carrying the INVISIBLE bit on an alpha / chars / attributes
    //     layer may be replaced by `AttributedChar::invisible()`
    {
        let mut ls = case.layers.clone();
        let mut modes = BTreeSet::new();
        for l in ls.iter_mut() {
            if !(l.alpha || l.mode != 0) {
                continue;
            }
            for c in l.rows.iter_mut().flatten() {
                if c.map(|c| !c.visible()).unwrap_or(false) {
                    *c = None;
                    modes.insert(l.mode);
                }
            }
        }
        if !modes.is_empty() {
            let o2 = observe(&build(case.is_term, &ls), &pos);
            if let Some(d) = first_diff(&base, &o2, &pos, all) {
                let key = if modes.contains(&1) { "invisible_cell_chars_layer" } else { "invisible_alpha_cell" };
                run.oracle_fail(key, &input, &format!("replacing cells that carry the INVISIBLE attribute by AttributedChar::invisible() changes the picture {}", d));
            }
        }
    }
    // --- law: an opaque (normal-mode) layer hides everything beneath it inside its rectangle
    for i in 0..n {
        let l = &case.layers[i];
        if !(l.visible && !l.alpha && l.mode == 0) {
            continue;
        }
        let mut ls: Vec<LayerSpec> = (0..rng.range(0, 3)).map(|_| rand_layer(&mut rng)).collect();
        ls.extend_from_slice(&case.layers[i..]);
        let o2 = observe(&build(case.is_term, &ls), &pos);
        let l = l.clone();
        if let Some(d) = first_diff(&base, &o2, &pos, |x, y| l.covers(x, y)) {
            run.oracle_fail("opaque_cuts", &input, &format!("replacing the layers beneath opaque layer {} changes a cell inside its rectangle {}", i, d));
        }
        break;
    }
}

/// a 1x1 layer at the origin
fn tiny(visible: bool, alpha: bool, mode: u8, cell: CellOpt, dflt: usize) -> LayerSpec {
    LayerSpec { visible, alpha, mode, ox: 0, oy: 0, w: 1, h: 1, dflt, rows: vec![vec![cell]] }
}

const TINY_CELLS: &[CellOpt] = &[
    None,
    Some(CellSpec { ch: 65, fg: 7, bg: 0, flags: 0, page: 0 }),
    Some(CellSpec { ch: 32, fg: 3, bg: 0, flags: 0, page: 1 }),
    Some(CellSpec { ch: 223, fg: 4, bg: TRANSPARENT, flags: 0, page: 0 }),
    Some(CellSpec { ch: 66, fg: TRANSPARENT, bg: 5, flags: 1, page: 3 }),
    Some(CellSpec { ch: 67, fg: 1, bg: 2, flags: INVISIBLE, page: 0 }),
];

fn tiny_configs(with_hidden: bool) -> Vec<LayerSpec> {
    let mut v = Vec::new();
    for vis in if with_hidden { vec![true, false] } else { vec![true] } {
        for alpha in [false, true] {
            for mode in 0..3u8 {
                for (k, c) in TINY_CELLS.iter().enumerate() {
                    v.push(tiny(vis, alpha, mode, *c, k % 4));
                }
            }
        }
    }
    v
}

/// `make_solid_color(t, u)` on the real buffer, with its two oracle clauses; returns the observed cell
fn solid_check(run: &mut Run, buf: &Buffer, t: CellSpec, u: CellSpec) -> String {
    let rs = CellSpec::of(buf.make_solid_color(t.to_char(), u.to_char()));
    let input = format!("solid:{},{}", t.show(), u.show());
    // oracle (Lean: `halfblock_cp437_blocks`): on CP437 8x16 (buffer slot 0) a full block shows its foreground in both halves,
    // a blank its background, the upper / lower half block one each — seen through an all-transparent upper half block
    if u.page == 0 && t.ch == 223 && t.fg == TRANSPARENT && t.bg == TRANSPARENT {
        let want = match u.ch {
            219 => Some((u.fg, u.fg)),
            32 => Some((u.bg, u.bg)),
            223 => Some((u.fg, u.bg)),
            220 => Some((u.bg, u.fg)),
            _ => None,
        };
        if let Some((up, lo)) = want {
            if (rs.fg, rs.bg) != (up, lo) {
                run.oracle_fail("halfblock_shapes", &input, &format!("a transparent upper half block over {} must show ({},{}) but make_solid_color gives {}", u.show(), up, lo, rs.show()));
            }
        }
    }
    // oracle (Lean: `makeSolid_fills`): make_solid_color only fills the transparent colours of `t` in, with a colour of `u`
    let from_u = |c: u32| c == u.fg || c == u.bg;
    if !(fills(t, rs) && (t.fg != TRANSPARENT || from_u(rs.fg)) && (t.bg != TRANSPARENT || from_u(rs.bg))) {
        run.oracle_fail("make_solid_color", &input, &format!("make_solid_color({}, {}) = {}: not the transparent cell with its transparent colours replaced by colours of the cell beneath", t.show(), u.show(), rs.show()));
    }
    rs.show()
}

/// `is_visible` / `is_transparent` of one cell; oracle: visibility is the INVISIBLE bit and nothing else
fn pred_check(run: &mut Run, c: CellSpec) -> String {
    let a = c.to_char();
    if a.is_visible() != (c.flags & INVISIBLE == 0) {
        run.oracle_fail("is_visible", &format!("cell:{}", c.show()), &format!("is_visible() = {} for attribute bits {:#06x}", a.is_visible(), c.flags));
    }
    format!("{}{}", a.is_visible() as u8, a.is_transparent() as u8)
}

fn cell_words(c: CellSpec) -> [i64; 5] {
    [c.ch as i64, c.fg as i64, c.bg as i64, c.flags as i64, c.page as i64]
}

fn parse_cells(s: &str) -> Option<Vec<CellSpec>> {
    let v = parse_ints(s)?;
    if v.len() % 5 != 0 {
        return None;
    }
    Some(v.chunks(5).map(|w| CellSpec::of(CellSpec { ch: w[0] as u32, fg: w[1] as u32, bg: w[2] as u32, flags: w[3] as u16, page: w[4] as usize }.to_char())).collect())
}

/// replay inputs of the direct families: `solid:<t>,<u>` and `cell:<c>` (cells as `ch,fg,bg,flags,page`)
fn replay_direct(run: &mut Run, r: &str) -> bool {
    if let Some(rest) = r.strip_prefix("solid:") {
        if let Some(cs) = parse_cells(rest).filter(|cs| cs.len() == 2) {
            let buf = build(false, &[]);
            let seen = solid_check(run, &buf, cs[0], cs[1]);
            let mut words = font_words();
            words.push(1);
            words.extend(cell_words(cs[0]));
            words.extend(cell_words(cs[1]));
            run.case(&format!("comp solid {}", join(&words, " ")), &seen);
            return true;
        }
    }
    if let Some(rest) = r.strip_prefix("cell:") {
        if let Some(cs) = parse_cells(rest).filter(|cs| cs.len() == 1) {
            let seen = pred_check(run, cs[0]);
            let mut words = vec![1];
            words.extend(cell_words(cs[0]));
            run.case(&format!("comp pred {}", join(&words, " ")), &seen);
            return true;
        }
    }
    false
}

pub fn run(run: &mut Run, seed: u64, thorough: bool, replay: Option<&str>, corpus: &[String]) {
    if let Some(r) = replay {
        if replay_direct(run, r.trim()) {
            return;
        }
        match Case::decode(r.trim()) {
            Some(c) => one(run, &c, true),
            None => eprintln!("c13: cannot decode replay input"),
        }
        return;
    }
    for c in corpus {
        if replay_direct(run, c.trim()) {
            continue;
        }
        if let Some(c) = Case::decode(c) {
            one(run, &c, true);
        }
    }
    let mut rng = Rng::new(seed);
    // stacks per the property's quantifier
    for _ in 0..(if thorough { 12000 } else { 2000 }) {
        let c = rand_case(&mut rng);
        one(run, &c, true);
    }
    // half-block towers: dense layers of half blocks with transparent colours over half blocks / blocks
    // (exercises every arm of make_solid_color over asymmetric glyphs)
    for _ in 0..(if thorough { 3000 } else { 400 }) {
        let n = rng.range(2, 4) as usize;
        let w = rng.range(2, 6) as i32;
        let h = rng.range(1, 3) as i32;
        let mut layers = Vec::new();
        for k in 0..n {
            let rows = (0..h)
                .map(|_| {
                    (0..w)
                        .map(|_| {
                            if rng.chance(1, 6) {
                                return None;
                            }
                            let mut c = CellSpec { ch: *rng.pick(&[220u32, 223, 219, 221, 65, 32]), fg: *rng.pick(&[1u32, 2, 3, 4]), bg: *rng.pick(&[0u32, 5, 6]), flags: 0, page: *rng.pick(&[0usize, 0, 1, 3]) };
                            if k > 0 && rng.chance(2, 3) {
                                match rng.below(3) {
                                    0 => c.fg = TRANSPARENT,
                                    1 => c.bg = TRANSPARENT,
                                    _ => {
                                        c.fg = TRANSPARENT;
                                        c.bg = TRANSPARENT
                                    }
                                }
                            }
                            Some(c)
                        })
                        .collect()
                })
                .collect();
            layers.push(LayerSpec { visible: true, alpha: k > 0 || rng.chance(1, 2), mode: if k > 0 && rng.chance(1, 6) { *rng.pick(&[1u8, 2]) } else { 0 }, ox: rng.range(0, 1) as i32, oy: 0, w, h, dflt: *rng.pick(&[0usize, 1, 3]), rows });
        }
        let c = Case { is_term: rng.chance(1, 2), tseed: rng.next() >> 12, rect: Case::bbox_rect(&layers), layers, ops: Vec::new() };
        one(run, &c, true);
        run.count("half-block-tower");
    }
    // small scope: stacks of 1x1 layers at the origin, queried at the origin and its border
    let cfg2 = tiny_configs(true);
    let cfg3 = tiny_configs(false);
    let mut small: Vec<Case> = Vec::new();
    let mk = |layers: Vec<LayerSpec>, t: bool| Case { is_term: t, tseed: 7, rect: (-1, 0, 1, 0), layers, ops: Vec::new() };
    if thorough {
        for a in &cfg2 {
            for t in [false, true] {
                small.push(mk(vec![a.clone()], t));
            }
            for b in &cfg2 {
                small.push(mk(vec![a.clone(), b.clone()], a.dflt % 2 == 0));
            }
        }
        for a in &cfg3 {
            for b in &cfg3 {
                for c in &cfg3 {
                    small.push(mk(vec![a.clone(), b.clone(), c.clone()], (a.dflt + b.dflt) % 2 == 0));
                }
            }
        }
    } else {
        for _ in 0..4000 {
            let n = rng.range(1, 4) as usize;
            let layers = (0..n).map(|_| rng.pick(&cfg2).clone()).collect();
            small.push(mk(layers, rng.chance(1, 2)));
        }
    }
    run.extra.push(("small_scope_stacks".into(), small.len().to_string()));
    run.extra.push(("exhaustive_small_scope".into(), thorough.to_string()));
    for c in &small {
        let buf = build(c.is_term, &c.layers);
        correspond(run, c, &buf);
        run.count("small-scope");
    }
    // --- histories of position operations on real layers (set_offset / set_preview_offset / lock / direct writes)
    {
        // seeded: random stacks per the quantifier, 1..=8 operations on random layers
        for _ in 0..(if thorough { 6000 } else { 500 }) {
            let mut c = rand_case(&mut rng);
            for l in c.layers.iter_mut() {
                if rng.chance(3, 4) {
                    l.visible = true;
                }
            }
            let k = rng.range(1, 8) as usize;
            let n = c.layers.len();
            let mut last: Vec<(i32, i32)> = c.layers.iter().map(|l| (l.ox, l.oy)).collect();
            for _ in 0..k {
                let i = rng.below(n as u64) as usize;
                let fresh = (rng.range(-4, 6) as i32, rng.range(-4, 6) as i32);
                // "same" = the offset most recently given to this layer through any operation
                let q = if rng.chance(1, 3) { last[i] } else { fresh };
                let op = match rng.below(10) {
                    0..=2 => Op::SetOffset(q.0, q.1),
                    3..=5 => Op::Preview(fresh.0, fresh.1),
                    6 => Op::PreviewNone,
                    7 => Op::Lock(rng.chance(1, 2)),
                    8 => Op::Assign(q.0, q.1),
                    _ => Op::SetOffset(c.layers[i].ox, c.layers[i].oy),
                };
                if let Op::SetOffset(x, y) | Op::Assign(x, y) = op {
                    last[i] = (x, y);
                }
                c.ops.push((i, op));
            }
            // the pictures move around: query the union of the places a layer can be
            c.rect = (c.rect.0.min(-6), c.rect.1.min(-6), c.rect.2.max(19), c.rect.3.max(15));
            one(run, &c, true);
            run.count("offset-history");
        }
        // exhaustive: every history of length <= 3 (thorough: <= 4) over the alphabet below on the top layer of a fixed
        // two-layer stack (an opaque background and a small alpha layer at (2,1))
        let cell = |ch: u32, fg: u32, bg: u32| Some(CellSpec { ch, fg, bg, flags: 0, page: 0 });
        let bottom = LayerSpec { visible: true, alpha: false, mode: 0, ox: -1, oy: 0, w: 8, h: 4, dflt: 0, rows: (0..4).map(|y| (0..8).map(|x| if (x + 2 * y) % 3 != 0 { cell(46, 8, 1) } else { None }).collect()).collect() };
        let top = LayerSpec { visible: true, alpha: true, mode: 0, ox: 2, oy: 1, w: 3, h: 2, dflt: 0, rows: vec![vec![cell(65, 15, 4), None, cell(66, 14, 4)], vec![None, cell(223, 13, TRANSPARENT), None]] };
        let alphabet = [Op::SetOffset(2, 1), Op::SetOffset(4, 2), Op::SetOffset(-3, 0), Op::Preview(5, 3), Op::Preview(2, 1), Op::PreviewNone, Op::Lock(true), Op::Lock(false), Op::Assign(0, 0)];
        let maxlen = if thorough { 4 } else { 3 };
        let mut seqs: Vec<Vec<Op>> = vec![Vec::new()];
        let mut frontier: Vec<Vec<Op>> = vec![Vec::new()];
        for _ in 0..maxlen {
            let mut next = Vec::new();
            for sq in &frontier {
                for op in &alphabet {
                    let mut t = sq.clone();
                    t.push(*op);
                    next.push(t);
                }
            }
            seqs.extend(next.iter().cloned());
            frontier = next;
        }
        run.extra.push(("exhaustive_offset_histories".into(), (seqs.len() - 1).to_string()));
        for sq in seqs.iter().skip(1) {
            let c = Case { is_term: false, tseed: 7, rect: (-4, -1, 9, 5), layers: vec![bottom.clone(), top.clone()], ops: sq.iter().map(|o| (1usize, *o)).collect() };
            one(run, &c, true);
            run.count("offset-history-exhaustive");
        }
    }
    // --- make_solid_color / HalfBlock::from on every glyph of every installed font (and an absent font, an absent glyph)
    {
        let buf = build(false, &[]);
        let shapes: &[(u32, u32, u32)] = &[(223, TRANSPARENT, TRANSPARENT), (220, TRANSPARENT, TRANSPARENT), (65, TRANSPARENT, TRANSPARENT), (223, 3, TRANSPARENT), (220, TRANSPARENT, 4), (219, 5, 6)];
        let pages: &[usize] = &[0, 1, 2, 3];
        let step = 1;
        for &page in pages {
            for (si, &(tch, tfg, tbg)) in shapes.iter().enumerate() {
                if !thorough && si >= 3 && page != 0 {
                    continue;
                }
                let mut words = font_words();
                let mut chars: Vec<u32> = (0..256).step_by(step).collect();
                chars.extend([256u32, 0x2588, 0xFFFF]);
                words.push(chars.len() as i64);
                let mut seen = Vec::new();
                for &ch in &chars {
                    let t = CellSpec { ch: tch, fg: tfg, bg: tbg, flags: (si as u16) & 1, page: 3 - page };
                    let u = CellSpec { ch, fg: 1 + (ch % 5), bg: 9 + (ch % 3), flags: 0, page };
                    let (t, u) = (CellSpec::of(t.to_char()), CellSpec::of(u.to_char()));
                    words.extend([t.ch as i64, t.fg as i64, t.bg as i64, t.flags as i64, t.page as i64, u.ch as i64, u.fg as i64, u.bg as i64, u.flags as i64, u.page as i64]);
                    seen.push(solid_check(run, &buf, t, u));
                }
                run.case(&format!("comp solid {}", join(&words, " ")), &seen.join(" "));
                run.count("make-solid-row");
            }
        }
    }
    // --- AttributedChar::is_visible / is_transparent on every attribute bit and the blank characters
    {
        let mut cells = Vec::new();
        for ch in [0u32, 32, 33, 65, 255] {
            for bg in [0u32, 1, TRANSPARENT] {
                for bit in 0..16u16 {
                    cells.push(CellSpec { ch, fg: 7, bg, flags: 1 << bit, page: 0 });
                }
                for flags in [0u16, 0xFFFF, 0x7FFF, 0x8001, 0xC000] {
                    cells.push(CellSpec { ch, fg: 7, bg, flags, page: 0 });
                }
            }
        }
        let mut words = vec![cells.len() as i64];
        let mut seen = Vec::new();
        for c in &cells {
            words.extend([c.ch as i64, c.fg as i64, c.bg as i64, c.flags as i64, c.page as i64]);
            seen.push(pred_check(run, *c));
        }
        run.case(&format!("comp pred {}", join(&words, " ")), &seen.join(" "));
    }
    // --- Layer::get_char on ragged rows, inside and outside the layer
    for _ in 0..(if thorough { 2000 } else { 200 }) {
        let mut l = rand_layer(&mut rng);
        if rng.chance(1, 3) {
            // rows longer / more numerous than the layer size
            let (w, h) = (l.w, l.h);
            l.rows = rand_rows(&mut rng, w + 3, h + 2, 60, true);
        }
        let real = l.build();
        let mut words = Vec::new();
        l.encode(&mut words);
        let rect = (-2, -2, l.w + 2, l.h + 2);
        words.extend([rect.0 as i64, rect.1 as i64, rect.2 as i64, rect.3 as i64]);
        let mut seen = Vec::new();
        for y in rect.1..=rect.3 {
            for x in rect.0..=rect.2 {
                seen.push(CellSpec::of(real.get_char((x, y))).show());
            }
        }
        run.case(&format!("comp lget {}", join(&words, " ")), &seen.join(" "));
        run.count("layer-get-char");
    }
    // outside the quantifier (correspondence only): offsets at the edge of i32 — the subtraction
    // `pos - offset` is a checked i32 operation in the debug profile
    for _ in 0..(if thorough { 400 } else { 40 }) {
        let mut c = rand_case(&mut rng);
        let far = *rng.pick(&[i32::MAX, i32::MIN, i32::MIN + 1, 1 << 30, -(1 << 30), i32::MAX - 5]);
        let k = rng.below(c.layers.len() as u64) as usize;
        if rng.chance(1, 2) {
            c.layers[k].ox = far;
        } else {
            c.layers[k].oy = far;
        }
        let cx = *rng.pick(&[0i32, -3, 5, far, far.wrapping_add(1), i32::MAX, i32::MIN]);
        let cy = *rng.pick(&[0i32, -3, 5, far, far.wrapping_add(1)]);
        c.rect = (cx.saturating_sub(1), cy.saturating_sub(1), cx.saturating_add(1), cy.saturating_add(1));
        one(run, &c, false);
        run.count("far-offset");
    }
}
