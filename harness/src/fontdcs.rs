//! C17, the DCS framing of `CTerm:Font:`: whole character streams through the REAL `ansi::Parser` next to
//! `Model/FontDcs.lean` (`fontdcs run <hex>`), observed through the add-only hook `Parser::verif_dcs_view` (state name,
//! parsed numbers, macro table), the public `parse_string` / `macro_dcs` fields and the buffer's font table.
//!
//! The model covers the states Default / ReadEscapeSequence / RecordDCS / RecordDCSEscape / ReadPossibleMacroInDCS; a stream is
//! cut in front of the character that would leave them (`ESC [`, `ESC ]`, `ESC _` in ReadEscapeSequence) and in front of a
//! macro invocation whose replay could leave them (a macro body with an ESC that is followed by `[`, `]`, `_`, ESC or
//! nothing — except a leading `ESC [`, which is read in RecordDCS).
//!
//! Oracle (independent of the model): every complete font sequence installs exactly its font in its slot and leaves the
//! other slots alone; a sequence that is cut off, not terminated, or interrupted by a foreign escape sequence (including the
//! start of the next font sequence) leaves every font untouched.
use crate::fontgen::*;
use crate::util::*;
use icy_engine::{ansi, BitFont, Buffer, BufferParser, Caret};

const FRAGMENT: [&str; 7] = ["Default", "ReadEscapeSequence", "RecordDCS", "RecordDCSEscape", "ReadPossibleMacroInDCS(0)", "ReadPossibleMacroInDCS(1)", "ReadPossibleMacroInDCS(2)"];

fn st_num(tag: &str) -> u64 {
    match tag {
        "Default" => 1,
        "ReadEscapeSequence" => 2,
        "RecordDCS" => 3,
        "RecordDCSEscape" => 4,
        "ReadPossibleMacroInDCS(0)" => 10,
        "ReadPossibleMacroInDCS(1)" => 11,
        "ReadPossibleMacroInDCS(2)" => 12,
        _ => 0,
    }
}

pub fn font_digest(f: &BitFont) -> u64 {
    let mut keys: Vec<char> = f.glyphs.keys().copied().collect();
    keys.sort_unstable();
    let mut v: Vec<u64> = vec![f.size.width.max(0) as u64, f.size.height.max(0) as u64, f.length.max(0) as u64];
    for k in keys {
        let g = &f.glyphs[&k];
        v.push(k as u64);
        v.push(g.data.len() as u64);
        v.extend(g.data.iter().map(|b| *b as u64));
    }
    fnv(v)
}

fn table_digest(buf: &Buffer) -> u64 {
    let mut t: Vec<(usize, u64)> = buf.font_iter().map(|(k, f)| (*k, font_digest(f))).collect();
    t.sort_unstable();
    fnv(t.iter().flat_map(|e| [e.0 as u64, e.1]))
}

/// a macro body whose replay (it starts in RecordDCS) cannot leave the modelled states
fn safe_body(body: &str) -> bool {
    let cs: Vec<char> = body.chars().collect();
    if cs.len() > 4096 {
        return false;
    }
    let start = if cs.len() >= 2 && cs[0] == '\x1b' && cs[1] == '[' { 2 } else { 0 };
    for i in start..cs.len() {
        if cs[i] == '\x1b' {
            match cs.get(i + 1) {
                None => return false,
                Some('[') | Some(']') | Some('_') | Some('\x1b') => return false,
                _ => {}
            }
        }
    }
    true
}

pub struct StreamResult {
    /// macro invocations inside a DCS: (of a defined macro, of an undefined one, refused because a body is not safe)
    pub invocations: (u32, u32, u32),
    /// number of characters fed (the stream is cut where it would leave the model's states)
    pub fed: usize,
    pub fonts: Vec<(usize, BitFont)>,
    pub final_state: String,
    pub summary: String,
}

/// feeds `stream` to a fresh parser next to a buffer with an empty font table; `Err` = panic site
pub fn run_stream(stream: &str) -> Result<StreamResult, String> {
    let chars: Vec<char> = stream.chars().collect();
    catch(std::panic::AssertUnwindSafe(move || {
        let mut buf = Buffer::create((80, 25));
        buf.is_terminal_buffer = true;
        buf.clear_font_table();
        buf.set_font_table_is_updated();
        let mut caret = Caret::default();
        let mut p = ansi::Parser::default();
        let mut roll: u64 = 14695981039346656037;
        let mut events: Vec<String> = Vec::new();
        let mut fed = 0usize;
        let mut invocations = (0u32, 0u32, 0u32);
        for (i, ch) in chars.iter().enumerate() {
            let (tag, nums, macros) = p.verif_dcs_view();
            if !FRAGMENT.contains(&tag.as_str()) {
                break;
            }
            if tag == "ReadEscapeSequence" && matches!(ch, '[' | ']' | '_') {
                break;
            }
            if tag == "ReadPossibleMacroInDCS(2)" && *ch == 'z' && nums.len() == 1 {
                if !macros.iter().all(|m| safe_body(&m.1)) {
                    invocations.2 += 1;
                    break;
                }
                if macros.iter().any(|m| m.0 as i64 == nums[0] as i64) {
                    invocations.0 += 1;
                } else {
                    invocations.1 += 1;
                }
            }
            let res = p.print_char(&mut buf, 0, &mut caret, *ch);
            fed = i + 1;
            let (tag, nums, _) = p.verif_dcs_view();
            for x in [u64::from(res.is_err()), st_num(&tag), p.parse_string.chars().count() as u64, p.macro_dcs.chars().count() as u64, nums.len() as u64] {
                roll = fnv_step(roll, x);
            }
            for n in &nums {
                roll = fnv_step(roll, *n as u32 as u64);
            }
            if buf.is_font_table_updated() {
                events.push(format!("{i}:{}", table_digest(&buf)));
                buf.set_font_table_is_updated();
            }
        }
        let (tag, nums, macros) = p.verif_dcs_view();
        let mut fonts: Vec<(usize, BitFont)> = buf.font_iter().map(|(k, f)| (*k, f.clone())).collect();
        fonts.sort_by_key(|e| e.0);
        let fonts_s: Vec<String> = fonts.iter().map(|(k, f)| format!("{k}:{}", font_digest(f))).collect();
        let mh = fnv(macros.iter().flat_map(|(k, v)| {
            let cs: Vec<u64> = v.chars().map(|c| c as u64).collect();
            let mut x = vec![*k as u64, cs.len() as u64];
            x.extend(cs);
            x
        }));
        let summary = if FRAGMENT.contains(&tag.as_str()) {
            format!(
                "st={tag} str={}:{} mdcs={}:{} nums=[{}] macros={}:{mh} fonts=[{}] roll={roll} events=[{}]",
                p.parse_string.chars().count(),
                fnv(p.parse_string.chars().map(|c| c as u64)),
                p.macro_dcs.chars().count(),
                fnv(p.macro_dcs.chars().map(|c| c as u64)),
                nums.iter().map(|n| n.to_string()).collect::<Vec<_>>().join(","),
                macros.len(),
                fonts_s.join(","),
                events.join(",")
            )
        } else {
            "out".to_string()
        };
        StreamResult { invocations, fed, fonts, final_state: tag, summary }
    }))
}

/// correspondence case for one stream; returns what the implementation did
pub fn stream_case(run: &mut Run, input: &str, stream: &str) -> Option<StreamResult> {
    match run_stream(stream) {
        Ok(r) => {
            let fed: String = stream.chars().take(r.fed).collect();
            run.case(&format!("fontdcs run {}", hex(fed.as_bytes())), &r.summary);
            run.nontrivial(fnv(fed.bytes().map(|b| b as u64)));
            let total = stream.chars().count();
            if r.fed < total {
                run.count(&format!("dcs stream: cut where it leaves the modelled states, after {} of the stream", match 4 * r.fed / total.max(1) { 0 => "<25%", 1 => "<50%", 2 => "<75%", _ => ">=75%" }));
            }
            run.count(&format!("dcs stream ends in {}", r.final_state));
            for (n, what) in [(r.invocations.0, "of a defined macro"), (r.invocations.1, "of an undefined macro"), (r.invocations.2, "refused by the harness (a macro body could leave the modelled states)")] {
                for _ in 0..n {
                    run.count(&format!("dcs stream: macro invocation inside a DCS {what}"));
                }
            }
            run.count(&format!("dcs stream: {} font installation events", match r.summary.split("events=[").nth(1).map(|e| if e.starts_with(']') { 0 } else { e.matches(',').count() + 1 }).unwrap_or(0) { 0 => "0", 1 => "1", 2 => "2", _ => "3+" }));
            Some(r)
        }
        Err(l) => {
            run.case(&format!("fontdcs run {}", hex(stream.as_bytes())), "panic");
            run.oracle_fail("dcs_stream_panic", input, &format!("panic at {} while feeding a DCS font stream", panic_site(&l)));
            None
        }
    }
}

// ------------------------------------------------------------------------------------------ generators

fn same_font(a: &BitFont, b: &BitFont) -> bool {
    a.size == b.size && a.length == b.length && a.glyphs == b.glyphs
}

fn has_magic(d: &[u8]) -> bool {
    d.len() >= 4 && ((d[0] == 0x36 && d[1] == 0x04) || d[0..4] == [0x72, 0xb5, 0x4a, 0x86])
}

/// a 256-glyph font of height `h` whose raw data does not start with a PSF magic number (inside `rawGuard`)
fn gen_font(rng: &mut Rng, h: usize) -> BitFont {
    let mut d = if rng.chance(1, 3) { fill_bytes(256 * h, rng.below(1000)) } else { rng.bytes(256 * h) };
    if has_magic(&d) {
        d[0] = 0;
    }
    BitFont::create_8("custom", 8, h as u8, &d)
}

fn gen_height(rng: &mut Rng, big: bool) -> usize {
    if big && rng.chance(1, 6) {
        *rng.pick(&[16usize, 32, 19])
    } else {
        *rng.pick(&[1usize, 1, 2, 3, 4, 8])
    }
}

fn gen_slot(rng: &mut Rng) -> usize {
    match rng.below(8) {
        0 => 0,
        1 => *rng.pick(&[255usize, 256, 65535, 4294967296, usize::MAX]),
        _ => rng.range(1, 12) as usize,
    }
}

/// text that keeps the parser in the Default state: printable ASCII, some control characters, non-ASCII characters
fn gen_text(rng: &mut Rng, max: usize) -> String {
    let n = rng.below(max as u64 + 1) as usize;
    (0..n)
        .map(|_| match rng.below(14) {
            0 => '\n',
            1 => '\r',
            2 => '\u{7}',
            3 => 'é',
            4 => '€',
            5 => '字',
            6 => '\u{0}',
            7 => *rng.pick(&['P', '\\', ':', 'z', '*', '!', ';', '=', '+']),
            8 => *rng.pick(&['[', ']', '_']),
            _ => *rng.pick(b"ABCDEFGHIJKLMNOPQRSTUVWXYZabcdefghijklmnopqrstuvwxyz0123456789 .,-#%&()<>{}|~^@$'\"/?") as char,
        })
        .collect()
}

const MACRO_ALPHA: &[u8] = b"ABCDEFGHIJKLMNOPQRSTUVWXYZabcdefghijklmnopqrstuvwxyz0123456789+/=:;!* CTerm:Font:AAAAQQQQ[_";

fn gen_payload_text(rng: &mut Rng, max: usize) -> String {
    let n = rng.below(max as u64 + 1) as usize;
    (0..n).map(|_| *rng.pick(MACRO_ALPHA) as char).collect()
}

fn hex_upper(s: &str) -> String {
    s.bytes().map(|b| format!("{b:02X}")).collect()
}

/// expectation of an oracle family: slot -> font that has to be there (`None` = the slot has to be empty)
type Expect = Vec<(usize, Option<BitFont>)>;

fn check_expect(run: &mut Run, key: &str, input: &str, r: &StreamResult, expect: &Expect, what: &str) {
    for (slot, want) in expect {
        let got = r.fonts.iter().find(|e| e.0 == *slot).map(|e| &e.1);
        match (want, got) {
            (Some(w), Some(g)) if same_font(w, g) => {}
            (Some(_), Some(_)) => run.oracle_fail(key, input, &format!("{what}: slot {slot} holds another font than the one sent to it")),
            (Some(_), None) => run.oracle_fail(key, input, &format!("{what}: the font sent to slot {slot} was not installed")),
            (None, Some(_)) => run.oracle_fail(key, input, &format!("{what}: slot {slot} holds a font although no complete font sequence was sent to it")),
            (None, None) => {}
        }
    }
    let extra: Vec<usize> = r.fonts.iter().map(|e| e.0).filter(|s| !expect.iter().any(|e| e.0 == *s)).collect();
    if !extra.is_empty() {
        run.oracle_fail(key, input, &format!("{what}: fonts appeared in slots {extra:?} that no sequence addressed"));
    }
}

fn set_expect(e: &mut Expect, slot: usize, f: Option<BitFont>) {
    e.retain(|x| x.0 != slot);
    e.push((slot, f));
}

/// `dcsg:<kind>:<seed>` — generated streams with an expectation
pub fn generated_case(run: &mut Run, input: &str, kind: &str, seed: u64) {
    let mut rng = Rng::new(seed ^ 0xDC5);
    let mut stream = String::new();
    let mut expect: Expect = Vec::new();
    let key;
    let what;
    match kind {
        // text, then k complete font sequences (slots may repeat: the last one wins), separated by text
        "seq" => {
            key = "dcs_stream_rt";
            what = "complete font sequences separated by text";
            stream.push_str(&gen_text(&mut rng, 12));
            for _ in 0..rng.range(1, 5) {
                let hh = gen_height(&mut rng, true);
            let f = gen_font(&mut rng, hh);
                let slot = gen_slot(&mut rng);
                stream.push_str(&f.encode_as_ansi(slot));
                if rng.chance(2, 3) {
                    stream.push_str(&gen_text(&mut rng, 6));
                }
                set_expect(&mut expect, slot, Some(f));
            }
        }
        // a complete sequence A, then a sequence B cut at a random point, then text without ESC: B never arrives
        "cut" => {
            key = "dcs_interrupted";
            what = "a font sequence cut off";
            let hh = gen_height(&mut rng, false);
            let a = gen_font(&mut rng, hh);
            let sa = gen_slot(&mut rng);
            if rng.chance(2, 3) {
                stream.push_str(&a.encode_as_ansi(sa));
                set_expect(&mut expect, sa, Some(a));
            }
            let hh = gen_height(&mut rng, false);
            let b = gen_font(&mut rng, hh);
            let sb = gen_slot(&mut rng);
            let s = b.encode_as_ansi(sb);
            let cut = match rng.below(5) {
                0 => 2,
                1 => s.len() - 1,
                2 => s.len() - 2,
                3 => rng.range(2, 16) as usize,
                _ => rng.range(2, s.len() as i64 - 1) as usize,
            };
            stream.push_str(&s[..cut]);
            stream.push_str(&gen_text(&mut rng, 8).replace('\\', "|"));
            if !expect.iter().any(|e| e.0 == sb) {
                set_expect(&mut expect, sb, None);
            }
        }
        // a sequence B cut at a random point, directly followed by a complete sequence C (and its terminator): the parser
        // records both as ONE string that contains an ESC -> neither font arrives
        "swallow" => {
            key = "dcs_interrupted";
            what = "a cut-off font sequence followed by a complete one (one DCS string with an ESC inside)";
            let hh = gen_height(&mut rng, false);
            let b = gen_font(&mut rng, hh);
            let sb = gen_slot(&mut rng);
            let s = b.encode_as_ansi(sb);
            let cut = match rng.below(4) {
                0 => 2,
                1 => s.len() - 1,
                2 => rng.range(2, 16) as usize,
                _ => rng.range(2, s.len() as i64 - 1) as usize,
            };
            stream.push_str(&s[..cut]);
            let hh = gen_height(&mut rng, false);
            let c = gen_font(&mut rng, hh);
            let sc = gen_slot(&mut rng);
            stream.push_str(&c.encode_as_ansi(sc));
            set_expect(&mut expect, sb, None);
            set_expect(&mut expect, sc, None);
            // a further complete sequence afterwards arrives
            if rng.chance(1, 2) {
                let hh = gen_height(&mut rng, false);
            let d = gen_font(&mut rng, hh);
                let sd = gen_slot(&mut rng);
                stream.push_str(&gen_text(&mut rng, 4));
                stream.push_str(&d.encode_as_ansi(sd));
                set_expect(&mut expect, sd, Some(d));
            }
        }
        // a foreign escape `ESC x` (x not `\` and not `[`) somewhere inside the payload
        "foreign" => {
            key = "dcs_interrupted";
            what = "a font sequence with a foreign ESC x inside";
            let hh = gen_height(&mut rng, false);
            let b = gen_font(&mut rng, hh);
            let sb = gen_slot(&mut rng);
            let s = b.encode_as_ansi(sb);
            let at = rng.range(2, s.len() as i64 - 2) as usize;
            let x = *rng.pick(&['A', 'P', 'c', '7', ']', '_', '\x1b', '\n', '\u{1}', 'é', '=', 'M']);
            stream.push_str(&s[..at]);
            stream.push('\x1b');
            stream.push(x);
            stream.push_str(&s[at..]);
            set_expect(&mut expect, sb, None);
        }
        // payload assembled from macros: macro 1 = first part, macro 12 = second part (the digits of the second
        // invocation are appended to the number of the first), invoked inside a DCS
        _ => {
            key = "dcs_stream_rt";
            what = "a font sequence whose payload is replayed from two macros";
            let hh = gen_height(&mut rng, false);
            let f = gen_font(&mut rng, hh);
            let slot = gen_slot(&mut rng);
            let s = f.encode_as_ansi(slot);
            let payload = &s[2..s.len() - 2];
            let at = rng.range(1, payload.len() as i64 - 1) as usize;
            if rng.chance(1, 2) {
                stream.push_str(&format!("\x1bP1;0;0!z{}\x1b\\", &payload[..at]));
            } else {
                stream.push_str(&format!("\x1bP1;0;1!z{}\x1b\\", hex_upper(&payload[..at])));
            }
            // (both ids: the oracle does not depend on that quirk, the correspondence does)
            stream.push_str(&format!("\x1bP12;0;0!z{}\x1b\\", &payload[at..]));
            stream.push_str(&format!("\x1bP2;0;0!z{}\x1b\\", &payload[at..]));
            stream.push_str(&gen_text(&mut rng, 4));
            stream.push_str("\x1bP\x1b[1*z\x1b[2*z\x1b\\");
            set_expect(&mut expect, slot, Some(f));
        }
    }
    run.count(&format!("dcs stream family {kind}"));
    if let Some(r) = stream_case(run, input, &stream) {
        if r.fed == stream.chars().count() {
            check_expect(run, key, input, &r, &expect, what);
            if kind != "cut" && r.final_state != "Default" {
                run.oracle_fail(key, input, &format!("{what}: the parser is left in state {} instead of Default", r.final_state));
            }
        }
    }
}

/// `dcsr:<seed>` — random streams over the unit alphabet (mostly well-formed units, some malformed)
pub fn random_stream(seed: u64) -> String {
    let mut rng = Rng::new(seed ^ 0x5EED);
    let mut s = String::new();
    let units = rng.range(2, 14);
    // the generator's belief whether the parser is recording a DCS (macro invocations are only read there; in the Default
    // state `ESC [` starts a CSI sequence, which is outside the model)
    let mut in_dcs = false;
    let mut defined: Vec<i32> = Vec::new();
    for _ in 0..units {
        // weights in percent; the bare ESC and the units that leave the modelled states are rare
        let roll = rng.below(100);
        let unit = [15u64, 30, 34, 40, 47, 55, 67, 72, 78, 82, 88, 92, 94, 95].iter().position(|b| roll < *b).unwrap_or(14);
        match unit {
            0 => s.push_str(&gen_text(&mut rng, 5)),
            1 => {
                let hh = *rng.pick(&[1usize, 1, 2, 3]);
                let f = gen_font(&mut rng, hh);
                let sl = gen_slot(&mut rng);
                let e = f.encode_as_ansi(sl);
                match rng.below(5) {
                    0 => {
                        s.push_str(&e[..rng.range(2, e.len() as i64 - 1) as usize]);
                        in_dcs = true;
                        continue;
                    }
                    1 => {
                        // one character damaged
                        let at = rng.range(2, e.len() as i64 - 3) as usize;
                        s.push_str(&e[..at]);
                        s.push(*rng.pick(&['*', '=', ':', 'é', ' ', '\n', '0']));
                        s.push_str(&e[at + 1..]);
                    }
                    _ => s.push_str(&e),
                }
                in_dcs = false;
            }
            2 => {
                s.push_str("\x1bP");
                in_dcs = true;
            }
            3 => {
                s.push_str("\x1b\\");
                in_dcs = false;
            }
            4 => {
                // text macro definition (pid small so that invocations hit it), sometimes clearing the table
                let body = gen_payload_text(&mut rng, 20);
                let pid = *rng.pick(&[1, 2, 12, 21, 3]);
                defined.push(pid);
                s.push_str(&format!("\x1bP{pid};{};0!z{}\x1b\\", rng.below(2), body));
                in_dcs = false;
            }
            5 => {
                // hex macro definition: may hold ESC \ and ESC P (a replay that ends the DCS and starts another)
                let mut body = gen_payload_text(&mut rng, 10);
                if rng.chance(1, 2) {
                    body.push_str("\x1b\\");
                    body.push_str(&gen_payload_text(&mut rng, 4));
                    if rng.chance(1, 2) {
                        body.push_str("\x1bP");
                        body.push_str(&gen_payload_text(&mut rng, 6));
                    }
                }
                if rng.chance(1, 4) {
                    body = format!("\x1b[{}*z{}", rng.range(1, 3), body);
                }
                let mut hx = hex_upper(&body);
                if rng.chance(1, 4) {
                    hx.push_str(&format!("!{};{};", rng.range(0, 4), hex_upper(&gen_payload_text(&mut rng, 3))));
                }
                if rng.chance(1, 8) {
                    hx.push('G');
                }
                let pid = *rng.pick(&[1, 2, 12, 3]);
                defined.push(pid);
                s.push_str(&format!("\x1bP{pid};{};1!z{}\x1b\\", rng.below(2), hx));
                in_dcs = false;
            }
            6 => {
                // macro invocation inside a DCS (well-formed)
                if !in_dcs && rng.chance(19, 20) {
                    s.push_str("\x1bP");
                    s.push_str(&gen_payload_text(&mut rng, 4));
                    in_dcs = true;
                }
                let id = if !defined.is_empty() && rng.chance(4, 5) { *rng.pick(&defined) } else { *rng.pick(&[1, 2, 3, 12, 21, 99]) };
                s.push_str(&format!("\x1b[{id}*z"));
            }
            7 => {
                // malformed invocations (the first five end in an error, i.e. in the Default state)
                if !in_dcs && rng.chance(19, 20) {
                    s.push_str("\x1bP");
                    s.push_str(&gen_payload_text(&mut rng, 4));
                    in_dcs = true;
                }
                let k = rng.below(11) as usize;
                s.push_str(["\x1b[z", "\x1b[*z", "\x1b[1[", "\x1b[1*2", "\x1b[[", "\x1b[1x", "\x1b[1*x", "\x1b[*", "\x1b[1", "\x1b[12*", "\x1b[\x1b"][k]);
                if k < 5 {
                    in_dcs = false;
                }
            }
            8 => s.push_str(&format!("\x1b{}", *rng.pick(&['c', '7', '8', 'D', 'M', 'E', 'H', 'A', '~', '0', '\x1b', '\n', '\u{1}', 'é', ' ', '/']))),
            9 => s.push_str(&format!("CTerm:Font:{}:{}", rng.below(20), gen_payload_text(&mut rng, 8))),
            10 => s.push_str(&gen_payload_text(&mut rng, 12)),
            11 => {
                s.push_str(*rng.pick(&["\x1bPq#0;2;0;0;0#0~~\x1b\\", "\x1bP0;1q\x1b\\", "\x1bP5;;7\x1b\\", "\x1bP1;0;2!zAB\x1b\\", "\x1bP!zAB\x1b\\", "\x1bP;;0!zAB\x1b\\"]));
                in_dcs = false;
            }
            12 => s.push_str("\x1b"),
            // leaves the modelled states: the case is cut here
            13 => s.push_str(*rng.pick(&["\x1b[2J", "\x1b]8;;\x1b\\", "\x1b_x\x1b\\"])),
            _ => {
                s.push_str("x\x1b\\");
                in_dcs = false;
            }
        }
    }
    s
}

pub fn cases(rng: &mut Rng, thorough: bool) -> Vec<String> {
    let m = if thorough { 12 } else { 1 };
    let mut v = Vec::new();
    for kind in ["seq", "cut", "swallow", "foreign", "macro"] {
        for _ in 0..10 * m {
            v.push(format!("dcsg:{kind}:{}", rng.below(1_000_000)));
        }
    }
    for _ in 0..150 * m {
        v.push(format!("dcsr:{}", rng.below(1_000_000)));
    }
    // boundary streams: every state met by ESC, `\`, `[`, `P`, `z`, a digit, `*`, and by the end of the stream
    for pre in ["", "\x1b", "\x1bP", "\x1bP\x1b", "\x1bP\x1b[", "\x1bP\x1b[1", "\x1bP\x1b[1*", "\x1bPCTerm:Font:1:QUJD", "\x1bPCTerm:Font:1:QUJD\x1b"] {
        for suf in ["", "\x1b", "\\", "[", "P", "z", "5", "*", "\x1b\\", "c", "\u{1}", "é"] {
            v.push(format!("dcsrun:{}", hex(format!("{pre}{suf}x\x1b\\").as_bytes())));
        }
    }
    v
}
