//! C16, the call sites: palette indices as byte streams see them (ANSI SGR / `CSI … t` / OSC 4 through the real
//! `ansi::Parser`), Tundra 24-bit colour records, XBin / IDF / ADF palette blocks in whole files, and the small
//! `Palette` helpers (`resize`, `fill_to_16`, `is_default`, …).
use crate::util::*;
use icy_engine::{ansi, AttributedChar, Buffer, BufferParser, Caret, Color, IceMode, Palette, SaveOptions, TextPane, DOS_DEFAULT_PALETTE, XTERM_256_PALETTE};
use std::path::Path;

type Rgb = (u8, u8, u8);

fn hex6(c: Rgb) -> String {
    format!("{:02x}{:02x}{:02x}", c.0, c.1, c.2)
}
fn unhex6(s: &str) -> Option<Rgb> {
    if s.len() != 6 || !s.bytes().all(|b| b.is_ascii_hexdigit()) {
        return None;
    }
    let b = unhex(s);
    Some((b[0], b[1], b[2]))
}

pub fn xterm(n: usize) -> Rgb {
    XTERM_256_PALETTE[n & 255].1.get_rgb()
}

// ------------------------------------------------------------------------------------------------ stream items
/// what the generator asked for (the oracle's side of the case; the model never sees it)
#[derive(Clone, Debug, Default)]
pub struct Intent {
    pub fg: Option<Rgb>,
    pub bg: Option<Rgb>,
    /// OSC 4: exactly these entries are redefined (in order; a later pair of the same index wins)
    pub sets: Option<Vec<(u32, Rgb)>>,
}

#[derive(Clone, Debug)]
pub struct Item {
    pub bytes: Vec<u8>,
    pub intent: Intent,
}

impl Item {
    fn plain(bytes: Vec<u8>) -> Item {
        Item { bytes, intent: Intent::default() }
    }
    fn token(&self) -> String {
        let mut s = hex(&self.bytes);
        if let Some(c) = self.intent.fg {
            s.push_str(&format!("@f{}", hex6(c)));
        }
        if let Some(c) = self.intent.bg {
            s.push_str(&format!("@b{}", hex6(c)));
        }
        if let Some(v) = &self.intent.sets {
            s.push_str("@s");
            s.push_str(&v.iter().map(|(k, c)| format!("{}={}", k, hex6(*c))).collect::<Vec<_>>().join("+"));
        }
        s
    }
    fn parse(t: &str) -> Option<Item> {
        let mut parts = t.split('@');
        let h = parts.next()?;
        if h != "-" && (h.len() % 2 != 0 || !h.bytes().all(|b| b.is_ascii_hexdigit())) {
            return None;
        }
        let mut it = Item::plain(unhex(h));
        for p in parts {
            if p.is_empty() {
                continue;
            }
            match &p[..1] {
                "f" => it.intent.fg = unhex6(&p[1..]),
                "b" => it.intent.bg = unhex6(&p[1..]),
                "s" => {
                    let mut v = Vec::new();
                    for kv in p[1..].split('+').filter(|x| !x.is_empty()) {
                        let mut q = kv.split('=');
                        if let (Some(k), Some(c)) = (q.next().and_then(|k| k.parse::<u32>().ok()), q.next().and_then(unhex6)) {
                            v.push((k, c));
                        }
                    }
                    it.intent.sets = Some(v);
                }
                _ => {}
            }
        }
        Some(it)
    }
    fn is_osc(&self) -> bool {
        self.bytes.starts_with(b"\x1b]")
    }
}

fn csi(params: &str, fin: char) -> Vec<u8> {
    format!("\x1b[{}{}", params, fin).into_bytes()
}
fn osc(payload: &str) -> Vec<u8> {
    format!("\x1b]{}\x1b\\", payload).into_bytes()
}

pub fn sgr_fg256(n: usize) -> Item {
    Item { bytes: csi(&format!("38;5;{}", n), 'm'), intent: Intent { fg: Some(xterm(n)), ..Default::default() } }
}
pub fn sgr_bg256(n: usize) -> Item {
    Item { bytes: csi(&format!("48;5;{}", n), 'm'), intent: Intent { bg: Some(xterm(n)), ..Default::default() } }
}
pub fn sgr_fg_rgb(c: Rgb) -> Item {
    Item { bytes: csi(&format!("38;2;{};{};{}", c.0, c.1, c.2), 'm'), intent: Intent { fg: Some(c), ..Default::default() } }
}
pub fn sgr_bg_rgb(c: Rgb) -> Item {
    Item { bytes: csi(&format!("48;2;{};{};{}", c.0, c.1, c.2), 'm'), intent: Intent { bg: Some(c), ..Default::default() } }
}
pub fn t24(sel: u32, c: Rgb) -> Item {
    let intent = match sel {
        0 => Intent { bg: Some(c), ..Default::default() },
        1 => Intent { fg: Some(c), ..Default::default() },
        _ => Intent::default(),
    };
    Item { bytes: csi(&format!("{};{};{};{}", sel, c.0, c.1, c.2), 't'), intent }
}
pub fn osc4(pairs: &[(u32, Rgb)]) -> Item {
    let body: Vec<String> = pairs.iter().map(|(k, c)| format!("{};rgb:{:02x}/{:02x}/{:02x}", k, c.0, c.1, c.2)).collect();
    Item { bytes: osc(&format!("4;{}", body.join(";"))), intent: Intent { sets: Some(pairs.iter().filter(|(k, _)| *k <= 255).cloned().collect()), ..Default::default() } }
}

// ------------------------------------------------------------------------------------------------ running a stream
pub struct Stream {
    init: String,
    pub buf: Buffer,
    pub caret: Caret,
    parser: ansi::Parser,
    tokens: Vec<String>,
    seqs: Vec<String>,
    obs: Vec<String>,
    fails: Vec<(String, String)>,
    panicked: Option<String>,
}

impl Stream {
    /// init: `d` = the buffer's own palette (DOS default), otherwise hex RGB triples
    pub fn new(init: &str) -> Stream {
        let mut buf = Buffer::new((80, 25));
        if init != "d" {
            buf.palette = Palette::from(&unhex(init)[..unhex(init).len() / 3 * 3]);
        }
        Stream { init: init.to_string(), buf, caret: Caret::default(), parser: ansi::Parser::default(), tokens: Vec::new(), seqs: Vec::new(), obs: Vec::new(), fails: Vec::new(), panicked: None }
    }
    pub fn fg(&self) -> u32 {
        self.caret.get_attribute().get_foreground()
    }
    pub fn bg(&self) -> u32 {
        self.caret.get_attribute().get_background()
    }
    pub fn len(&self) -> usize {
        self.buf.palette.len()
    }

    pub fn feed(&mut self, item: &Item) {
        if self.panicked.is_some() {
            return;
        }
        self.tokens.push(item.token());
        self.seqs.push(hex(&item.bytes));
        let k = self.tokens.len() - 1;
        let before: Vec<Rgb> = (0..self.buf.palette.len() as u32).map(|i| self.buf.palette.get_rgb(i)).collect();
        let pos = self.caret.get_position();
        let (fg0, bg0) = (self.fg(), self.bg());
        let bytes = item.bytes.clone();
        let (buf, caret, parser) = (&mut self.buf, &mut self.caret, &mut self.parser);
        let r = catch(std::panic::AssertUnwindSafe(|| {
            let mut ok = true;
            for b in &bytes {
                if parser.print_char(buf, 0, caret, *b as char).is_err() {
                    ok = false;
                }
            }
            ok
        }));
        let ok = match r {
            Ok(ok) => ok,
            Err(loc) => {
                self.panicked = Some(panic_site(&loc));
                self.obs.push(format!("panic:{}", panic_site(&loc)));
                return;
            }
        };
        let (fg, bg) = (self.fg(), self.bg());
        let pal = &self.buf.palette;
        self.obs.push(format!("{} {} {} {} {} {}", if ok { "o" } else { "e" }, fg, bg, pal.len(), hex6(pal.get_rgb(fg)), hex6(pal.get_rgb(bg))));
        // ---- the property, on the implementation alone
        let what = |s: &str| format!("sequence {} ({}): {}", k, String::from_utf8_lossy(&item.bytes).replace('\x1b', "ESC"), s);
        if let Some(c) = item.intent.fg {
            if pal.get_rgb(fg) != c {
                self.fails.push(("select_resolves/fg".into(), what(&format!("foreground index {} resolves to {} instead of the requested {}", fg, hex6(pal.get_rgb(fg)), hex6(c)))));
            }
        }
        if let Some(c) = item.intent.bg {
            if pal.get_rgb(bg) != c {
                self.fails.push(("select_resolves/bg".into(), what(&format!("background index {} resolves to {} instead of the requested {}", bg, hex6(pal.get_rgb(bg)), hex6(c)))));
            }
        }
        if !item.is_osc() {
            if pal.len() < before.len() {
                self.fails.push(("insert_only_stable".into(), what(&format!("palette shrank from {} to {}", before.len(), pal.len()))));
            }
            if let Some(i) = (0..before.len().min(pal.len())).find(|i| pal.get_rgb(*i as u32) != before[*i]) {
                self.fails.push(("insert_only_stable".into(), what(&format!("index {} changed from {} to {}", i, hex6(before[i]), hex6(pal.get_rgb(i as u32))))));
            }
        } else if let Some(sets) = &item.intent.sets {
            let mut want = before.clone();
            for (k, c) in sets {
                if want.len() <= *k as usize {
                    want.resize(*k as usize + 1, (0, 0, 0));
                }
                want[*k as usize] = *c;
            }
            let got: Vec<Rgb> = (0..pal.len() as u32).map(|i| pal.get_rgb(i)).collect();
            if got != want {
                let i = (0..got.len().max(want.len())).find(|i| got.get(*i) != want.get(*i)).unwrap_or(0);
                self.fails.push(("osc4_exact".into(), what(&format!("entry {} is {:?}, expected {:?} (length {} / {})", i, got.get(i).map(|c| hex6(*c)), want.get(i).map(|c| hex6(*c)), got.len(), want.len()))));
            }
            if fg0 != fg || bg0 != bg {
                self.fails.push(("osc4_exact".into(), what("the caret colours moved")));
            }
        }
        if item.bytes.len() == 1 && (32..127).contains(&item.bytes[0]) {
            // a cell stores the indices the caret holds
            let ch = self.buf.get_char(pos);
            if ch.attribute.get_foreground() != fg || ch.attribute.get_background() != bg {
                self.fails.push(("cell_stores_index".into(), what(&format!("cell at {:?} holds {}/{} but the caret {}/{}", pos, ch.attribute.get_foreground(), ch.attribute.get_background(), fg, bg))));
            }
        }
    }

    pub fn finish(self, run: &mut Run) {
        let inp = format!("stream:{}:{}", self.init, if self.tokens.is_empty() { "-".to_string() } else { self.tokens.join(",") });
        let op = format!("palstream run {} {}", self.init, if self.seqs.is_empty() { "-".to_string() } else { self.seqs.join(",") });
        let pal = self.buf.palette.as_vec();
        if let Some(site) = &self.panicked {
            run.case(&op, &format!("{} # panic", self.obs.join(" | ")));
            run.oracle_fail(&format!("panic/{}", site), &inp, "the ANSI parser panicked on a colour sequence");
        } else {
            run.case(&op, &format!("{} # {}", if self.obs.is_empty() { "-".to_string() } else { self.obs.join(" | ") }, fnv(pal.iter().map(|b| *b as u64))));
        }
        for (k, w) in &self.fails {
            run.oracle_fail(k, &inp, w);
        }
        run.count(&format!("stream/len{}", match self.tokens.len() { 0..=3 => "<=3", 4..=16 => "4-16", _ => ">16" }));
        run.count(&format!("stream/final-palette{}", match pal.len() / 3 { 0..=15 => "<16", 16 => "16", 17..=256 => "17-256", _ => ">256" }));
        run.nontrivial(fnv(inp.bytes().map(|b| b as u64)));
    }
}

pub fn stream_replay(run: &mut Run, init: &str, toks: &str) {
    let mut s = Stream::new(init);
    if toks != "-" {
        for t in toks.split(',') {
            if let Some(it) = Item::parse(t) {
                s.feed(&it);
            }
        }
    }
    s.finish(run);
}

// ------------------------------------------------------------------------------------------------ stream generators
fn rnd_rgb(rng: &mut Rng) -> Rgb {
    (rng.next() as u8, rng.next() as u8, rng.next() as u8)
}

fn init_palette(rng: &mut Rng) -> String {
    match rng.below(10) {
        0..=3 => "d".to_string(),
        4 => "-".to_string(),
        _ => {
            let n = *rng.pick(&[1usize, 2, 15, 16, 17, 40, 254, 255, 256, 257, 300]);
            let mut v = rng.bytes(3 * n);
            // duplicates: the same colour at several indices
            if n >= 2 {
                for _ in 0..rng.below(4) {
                    let (a, b) = (rng.below(n as u64) as usize, rng.below(n as u64) as usize);
                    for k in 0..3 {
                        v[3 * b + k] = v[3 * a + k];
                    }
                }
            }
            // some xterm / DOS colours already present
            if n >= 4 && rng.chance(1, 2) {
                let c = xterm(*rng.pick(&[9usize, 16, 196, 231, 255, 100]));
                let at = rng.below(n as u64) as usize;
                v[3 * at] = c.0;
                v[3 * at + 1] = c.1;
                v[3 * at + 2] = c.2;
            }
            hex(&v)
        }
    }
}

/// one random item; `s` lets it aim at the indices the implementation has handed out
fn gen_item(rng: &mut Rng, s: &Stream, xpool: &[usize], cpool: &[Rgb]) -> Item {
    let col = |rng: &mut Rng| -> Rgb {
        match rng.below(8) {
            0..=4 => *rng.pick(cpool),
            5 => xterm(*rng.pick(xpool)),
            6 if s.len() > 0 => s.buf.palette.get_rgb(rng.below(s.len() as u64) as u32),
            _ => rnd_rgb(rng),
        }
    };
    match rng.below(100) {
        0..=17 => sgr_fg256(*rng.pick(xpool)),
        18..=25 => sgr_bg256(*rng.pick(xpool)),
        26..=33 => sgr_fg_rgb(col(rng)),
        34..=38 => sgr_bg_rgb(col(rng)),
        39..=44 => t24(rng.below(2) as u32, col(rng)),
        45..=64 => {
            // OSC 4, mostly aimed at an index a selection was just given
            let n = 1 + rng.below(3) as usize;
            let pairs: Vec<(u32, Rgb)> = (0..n)
                .map(|_| {
                    let k = match rng.below(10) {
                        0..=3 => s.fg(),
                        4 | 5 => s.bg(),
                        6 => s.len() as u32 + rng.below(3) as u32,
                        7 => *rng.pick(&[0u32, 7, 15, 16, 254, 255, 256, 300]),
                        _ => rng.below(s.len().max(1) as u64) as u32,
                    };
                    (k.min(100_000), col(rng))
                })
                .collect();
            osc4(&pairs)
        }
        65..=70 => {
            // several selections in one SGR, with attribute-only parameters around them
            let (n, c) = (*rng.pick(xpool), col(rng));
            let pre = *rng.pick(&["", "0;", "1;", "0;1;5;", "22;", "7;"]);
            let swap_after = rng.chance(1, 5);
            let mut it = Item::plain(csi(&format!("{}38;5;{};48;2;{};{};{}{}", pre, n, c.0, c.1, c.2, if swap_after { ";7" } else { "" }), 'm'));
            it.intent = if swap_after { Intent { fg: Some(c), bg: Some(xterm(n)), ..Default::default() } } else { Intent { fg: Some(xterm(n)), bg: Some(c), ..Default::default() } };
            it
        }
        71..=78 => {
            // index selects, defaults, swap, reset
            let p = match rng.below(9) {
                0 => format!("{}", 30 + rng.below(8)),
                1 => format!("{}", 40 + rng.below(8)),
                2 => format!("{}", 90 + rng.below(8)),
                3 => format!("{}", 100 + rng.below(8)),
                4 => format!("{};{}", 30 + rng.below(8), 40 + rng.below(8)),
                5 => "7".to_string(),
                6 => "0".to_string(),
                7 => String::new(),
                _ => (*rng.pick(&["39", "49", "39;49", "1", "5;4;3", "10", "15", "53;55", "2;3;6", "8;9;21", "22;23;24;25", "28;29", "11;20", "1;2;3;4;5;6;8;9;10;21;22;23;24;25;28;29;53;55;31"])).to_string(),
            };
            Item::plain(csi(&p, 'm'))
        }
        79..=84 => Item::plain(vec![b'A' + rng.below(26) as u8]),
        85 => Item::plain(vec![0x1b, b'c']),
        86 => Item::plain(vec![12]),
        _ => gen_odd(rng, s, xpool, cpool),
    }
}

/// malformed / boundary shapes: every one has a definite behaviour in the code, and the model has to reproduce it
fn gen_odd(rng: &mut Rng, s: &Stream, xpool: &[usize], cpool: &[Rgb]) -> Item {
    let c = *rng.pick(cpool);
    let n = *rng.pick(xpool);
    let k = if rng.chance(1, 2) { s.fg() } else { rng.below(20) as u32 };
    let h = format!("{:02x}/{:02x}/{:02x}", c.0, c.1, c.2);
    let set1 = |k: u32| Some(vec![(k, c)]);
    let (bytes, intent): (Vec<u8>, Intent) = match rng.below(34) {
        0 => (csi("38", 'm'), Intent::default()),
        1 => (csi("38;5", 'm'), Intent::default()),
        2 => (csi("38;2;1;2", 'm'), Intent::default()),
        3 => (csi(&format!("38;5;{}", 256 + rng.below(3)), 'm'), Intent::default()),
        4 => (csi(&format!("38;2;{};{};256", c.0, c.1), 'm'), Intent::default()),
        5 => (csi(&format!("38;3;{}", n), 'm'), Intent::default()),
        6 => (csi(&format!("38;5;{};27;31", n), 'm'), Intent { fg: Some(xterm(n)), ..Default::default() }), // set, then Err at 27
        7 => (csi(&format!("48;5;{};99", n), 'm'), Intent { bg: Some(xterm(n)), ..Default::default() }),
        8 => (csi(&format!(";38;5;{}", n), 'm'), Intent { fg: Some(xterm(n)), ..Default::default() }), // the leading `;` pushes a 0 the digits then build on
        9 => (csi(&format!("38;5;{};", n), 'm'), Intent::default()), // trailing empty parameter = 0 = reset afterwards
        10 => (csi(&format!("38;05;00{}", n), 'm'), Intent { fg: Some(xterm(n)), ..Default::default() }),
        11 => (csi(&format!("38;5;99999999999{}", n), 'm'), Intent::default()), // saturates
        12 => (csi(&format!("1;{};{};{}", 256 + c.0 as u32, 512 + c.1 as u32, c.2), 't'), Intent { fg: Some(c), ..Default::default() }), // `as u8`
        13 => (csi(&format!("{};{};{};{}", 2 + rng.below(7), c.0, c.1, c.2), 't'), Intent::default()), // inserted, then Err
        14 => (csi("8;30;90", 't'), Intent::default()),
        15 => (csi("1;2;3", 't'), Intent::default()),
        16 => (csi(&format!("1;{};{}", c.0, c.1), 't'), Intent::default()),
        17 => (csi(&format!("1;{};{};{};4", c.0, c.1, c.2), 't'), Intent::default()),
        // OSC 4 shapes
        18 => (osc(&format!("4;{};RGB:{}", k, h.to_uppercase())), Intent { sets: set1(k), ..Default::default() }),
        19 => (osc(&format!("4;{};rGb:{}", k, h)), Intent { sets: set1(k), ..Default::default() }),
        20 => (osc(&format!("4;rgb:{}", h)), Intent { sets: set1(4), ..Default::default() }), // the selector itself is taken as the index
        21 => (osc(&format!("4;;rgb:{}", h)), Intent { sets: Some(vec![]), ..Default::default() }), // no index: skipped
        22 => (osc(&format!("4;{};rgb:1/2/3", k)), Intent { sets: Some(vec![]), ..Default::default() }),
        23 => (osc(&format!("4;{};rgb:{}0", k, h)), Intent { sets: set1(k), ..Default::default() }),
        24 => (osc(&format!("4;256;rgb:{};{};rgb:{}", h, k, h)), Intent { sets: set1(k), ..Default::default() }), // 256 skipped, next pair applied
        25 => (osc(&format!("4;{};rgb:{};4294967296;rgb:{};3;rgb:{}", k, h, h, h)), Intent { sets: set1(k), ..Default::default() }), // Err at the 2nd pair
        26 => (osc(&format!(";4;{};rgb:{}", k, h)), Intent { sets: set1(k), ..Default::default() }), // `;4` also reads as selector 4
        27 => (osc(&format!("04;{};rgb:{}", k, h)), Intent { sets: set1(k), ..Default::default() }),
        28 => (osc(&format!("5;{};rgb:{}", k, h)), Intent { sets: Some(vec![]), ..Default::default() }), // other selector: Err, nothing set
        29 => (osc(&format!("4;{};rgb:{}x{};rgb:{}", k, h, k + 1, h)), Intent { sets: Some(vec![(k, c), (k + 1, c)]), ..Default::default() }),
        30 => (osc(&format!("4;{} ;rgb:{}", k, h)), Intent { sets: Some(vec![]), ..Default::default() }),
        31 => (osc("8;;http://example.org/"), Intent { sets: Some(vec![]), ..Default::default() }),
        32 => (osc("8;;"), Intent { sets: Some(vec![]), ..Default::default() }),
        _ => (osc("0;window title 4;1;rgb:11/22/33"), Intent { sets: Some(vec![]), ..Default::default() }),
    };
    let mut intent = intent;
    if let Some(v) = &mut intent.sets {
        v.retain(|(k, _)| *k <= 255);
    }
    Item { bytes, intent }
}

fn pools(rng: &mut Rng) -> (Vec<usize>, Vec<Rgb>) {
    let mut xpool: Vec<usize> = (0..(2 + rng.below(4))).map(|_| rng.below(256) as usize).collect();
    xpool.push(*rng.pick(&[0usize, 7, 8, 15, 16, 231, 232, 255]));
    let mut cpool: Vec<Rgb> = (0..(2 + rng.below(4))).map(|_| rnd_rgb(rng)).collect();
    cpool.push(xterm(xpool[0])); // a 24-bit colour that is also an xterm colour
    cpool.push(DOS_DEFAULT_PALETTE[rng.below(16) as usize].get_rgb());
    let (r, g, b) = cpool[0];
    cpool.push((r ^ 1, g, b));
    cpool.push((0, 0, 0));
    (xpool, cpool)
}

fn random_stream(run: &mut Run, rng: &mut Rng, n: usize) {
    let init = init_palette(rng);
    let (xpool, cpool) = pools(rng);
    let mut s = Stream::new(&init);
    for _ in 0..n {
        let it = gen_item(rng, &s, &xpool, &cpool);
        s.feed(&it);
    }
    s.finish(run);
}

/// the same colour selected again and again while the index it was given is redefined in between
fn reselect_stream(run: &mut Run, rng: &mut Rng) {
    let init = init_palette(rng);
    let (xpool, cpool) = pools(rng);
    let mut s = Stream::new(&init);
    for round in 0..(2 + rng.below(4)) {
        let n = *rng.pick(&xpool);
        let c = *rng.pick(&cpool);
        let sel = |rng: &mut Rng, bg: bool| match (rng.below(3), bg) {
            (0, false) => sgr_fg_rgb(c),
            (0, true) => sgr_bg_rgb(c),
            (1, b) => t24(if b { 0 } else { 1 }, c),
            (_, false) => sgr_fg256(n),
            (_, true) => sgr_bg256(n),
        };
        let bg = rng.chance(1, 3);
        let first = sel(rng, bg);
        s.feed(&first);
        let k = if bg { s.bg() } else { s.fg() };
        match rng.below(4) {
            0 => s.feed(&osc4(&[(k, rnd_rgb(rng))])),
            1 => s.feed(&osc4(&[(k, *rng.pick(&cpool)), (k + 1, rnd_rgb(rng))])),
            2 => {
                // redefined and restored: the old index is valid again
                let old = s.buf.palette.get_rgb(k);
                s.feed(&osc4(&[(k, rnd_rgb(rng))]));
                s.feed(&osc4(&[(k, old)]));
            }
            _ => s.feed(&osc4(&[(rng.below(s.len().max(1) as u64) as u32, first.intent.fg.or(first.intent.bg).unwrap_or((1, 2, 3)))])), // the colour appears at a second index
        }
        if round % 2 == 0 {
            s.feed(&Item::plain(vec![b'x']));
        }
        s.feed(&first);
        let again = sel(rng, !bg);
        s.feed(&again);
    }
    s.finish(run);
}

/// palette growth: many distinct colours through every inserting sequence
fn growth_stream(run: &mut Run, rng: &mut Rng, init: &str, n: usize) {
    let mut s = Stream::new(init);
    let base = rng.below(256) as usize;
    for i in 0..n {
        let it = match i % 5 {
            0 => sgr_fg256((base + i) & 255),
            1 => sgr_bg_rgb(rnd_rgb(rng)),
            2 => t24((i as u32 / 5) % 2, rnd_rgb(rng)),
            3 => sgr_bg256((base + 7 * i) & 255),
            _ => sgr_fg_rgb(((i / 3) as u8, (i * 5) as u8, (i % 7) as u8)),
        };
        s.feed(&it);
        if i % 17 == 16 {
            s.feed(&osc4(&[(s.fg(), rnd_rgb(rng))]));
        }
    }
    s.finish(run);
}

fn small_alphabet() -> Vec<Item> {
    // xterm 196 = ff0000 and 21 = 0000ff are not DOS colours: from the default palette they go to 16 and 17
    let c1 = (0x12, 0x34, 0x56);
    vec![
        sgr_fg256(196),
        sgr_bg256(196),
        sgr_fg256(21),
        sgr_fg_rgb(c1),
        t24(0, c1),
        sgr_fg_rgb(xterm(196)),
        osc4(&[(16, (9, 9, 9))]),
        osc4(&[(17, xterm(196))]),
        osc4(&[(16, xterm(196))]),
        osc4(&[(18, c1)]),
        Item::plain(csi("7", 'm')),
        Item::plain(csi("0", 'm')),
        Item::plain(csi("31;44", 'm')),
        Item::plain(vec![b'#']),
    ]
}

fn exhaustive(run: &mut Run, init: &str, len: usize, alpha: &[Item]) {
    let n = alpha.len();
    let total = n.pow(len as u32);
    for code in 0..total {
        let mut s = Stream::new(init);
        let mut c = code;
        for _ in 0..len {
            s.feed(&alpha[c % n]);
            c /= n;
        }
        s.finish(run);
    }
    run.count(&format!("stream/exhaustive-len{}", len));
}

pub fn stream_cases(run: &mut Run, rng: &mut Rng, thorough: bool) {
    let scale = if thorough { 25 } else { 1 };
    // fixed witnesses
    for (init, items) in [
        ("d", vec![sgr_fg256(196), osc4(&[(16, (1, 2, 3))]), sgr_fg256(196)]),
        ("d", vec![sgr_bg256(21), osc4(&[(16, (1, 2, 3))]), sgr_bg256(21), sgr_fg256(21)]),
        ("d", vec![sgr_fg_rgb((1, 2, 3)), osc4(&[(16, (3, 2, 1))]), sgr_fg_rgb((1, 2, 3)), sgr_fg_rgb((3, 2, 1))]),
        ("d", vec![t24(1, (1, 2, 3)), osc4(&[(16, (3, 2, 1))]), t24(1, (1, 2, 3)), t24(0, (3, 2, 1))]),
        ("d", vec![sgr_fg256(9), sgr_fg256(1), sgr_fg256(12), sgr_fg256(255), sgr_fg256(231), sgr_fg256(15)]),
        ("d", vec![sgr_fg256(100), Item::plain(csi("1;2;3;4;5;6;8;9;10;11;20;21;22;23;24;25;28;29;53;55;31", 'm')), sgr_bg256(100), Item::plain(csi("4;27;32", 'm')), Item::plain(csi("7;39", 'm'))]),
        ("-", vec![sgr_fg256(0), sgr_bg256(0), osc4(&[(3, (7, 7, 7))]), sgr_fg_rgb((0, 0, 0)), sgr_bg_rgb((7, 7, 7))]),
        ("010203010203", vec![sgr_fg_rgb((1, 2, 3)), osc4(&[(0, (9, 9, 9))]), sgr_fg_rgb((1, 2, 3)), osc4(&[(1, (9, 9, 9))]), sgr_fg_rgb((1, 2, 3)), sgr_bg_rgb((9, 9, 9))]),
    ] {
        let mut s = Stream::new(init);
        for it in &items {
            s.feed(it);
        }
        s.finish(run);
    }
    // every xterm colour number, twice, with a redefinition of the index in between (one stream per 32 numbers)
    for block in 0..8 {
        let mut s = Stream::new(if block % 2 == 0 { "d" } else { "-" });
        for n in (block * 32)..(block * 32 + 32) {
            s.feed(&sgr_fg256(n));
            let k = s.fg();
            if n % 2 == 0 {
                s.feed(&osc4(&[(k, ((n as u8) ^ 0x5a, 1, 2))]));
            }
            s.feed(&sgr_bg256(n));
            s.feed(&sgr_fg256(n));
        }
        s.finish(run);
    }
    for _ in 0..(40 * scale) {
        let long = rng.chance(1, 6);
        let n = 1 + rng.below(if long { 120 } else { 24 }) as usize;
        random_stream(run, rng, n);
    }
    for _ in 0..(24 * scale) {
        reselect_stream(run, rng);
    }
    for init in ["d", "-"] {
        growth_stream(run, rng, init, if thorough { 600 } else { 290 });
    }
    let alpha = small_alphabet();
    exhaustive(run, "d", 2, &alpha);
    exhaustive(run, "d", 3, &alpha[..if thorough { alpha.len() } else { 9 }]);
    if thorough {
        exhaustive(run, "-", 3, &alpha);
        exhaustive(run, "d", 4, &alpha[..10]);
    }
}

// ------------------------------------------------------------------------------------------------ Tundra
const TND_HEADER: &[u8] = b"\x18TUNDRA24";

/// the cell as stored in the rows of layer 0 (`Layer::get_char` hides rows below the layer height, which a Tundra jump
/// back up leaves behind)
fn raw_cell(buf: &Buffer, x: i32, y: i32) -> AttributedChar {
    buf.layers[0].lines.get(y as usize).and_then(|l| l.chars.get(x as usize)).copied().unwrap_or_else(AttributedChar::invisible)
}

/// load a `.tnd` body with the real loader; correspondence line + oracle (every colour record's index resolves to the
/// record's RGB in the FINAL palette; the palette holds no colour twice)
pub fn tnd_case(run: &mut Run, file: &[u8]) {
    let inp = format!("tnd:{}", hex(file));
    let op = format!("palstream tnd {}", hex(file));
    let f = file.to_vec();
    let r = catch(move || Buffer::from_bytes(Path::new("a.tnd"), false, &f));
    run.nontrivial(fnv(inp.bytes().map(|b| b as u64)));
    let buf = match r {
        Ok(Ok(b)) => b,
        Ok(Err(_)) => {
            run.case(&op, "rej");
            run.count("tnd/rejected");
            return;
        }
        Err(loc) => {
            run.case(&op, &format!("panic:{}", panic_site(&loc)));
            run.oracle_fail(&format!("panic/{}", panic_site(&loc)), &inp, "the Tundra loader panicked");
            return;
        }
    };
    let pal: Vec<Rgb> = (0..buf.palette.len() as u32).map(|i| buf.palette.get_rgb(i)).collect();
    let mut cells = Vec::new();
    // every put sets the layer height to its row + 1, so a jump back up leaves rows below the height: read the allocated rows
    let h = buf.layers[0].get_height().max(buf.layers[0].lines.len() as i32);
    if h > 400 {
        // a jump far down: the loader accepted it (height up to 65535); not compared cell by cell
        run.count("tnd/too-high");
        return;
    }
    for y in 0..h {
        for x in 0..80 {
            let c = raw_cell(&buf, x, y);
            if c.is_visible() {
                cells.push(format!("{}.{}.{}", y * 80 + x, c.attribute.get_foreground(), c.attribute.get_background()));
            }
        }
    }
    run.case(&op, &format!("ok {} {} {} x=1", pal.len(), hex(&buf.palette.as_vec()), if cells.is_empty() { "-".to_string() } else { cells.join(",") }));
    run.count(&format!("tnd/palette{}", match pal.len() { 1 => "1", 2..=16 => "2-16", _ => ">16" }));
    // oracle: walk the records ourselves (file layout only), remember per cell which RGB was asked for
    let mut want: std::collections::BTreeMap<(i32, i32), (Option<Rgb>, Option<Rgb>)> = Default::default();
    let (mut x, mut y) = (0i32, 0i32);
    let (mut fg, mut bg): (Option<Rgb>, Option<Rgb>) = (None, None);
    let d = &file[TND_HEADER.len().min(file.len())..];
    let mut o = 0;
    let mut jumped = false;
    while o < d.len() {
        let cmd = d[o];
        o += 1;
        if cmd == 1 {
            jumped = true;
            if o + 8 > d.len() {
                break;
            }
            y = i32::from_be_bytes([d[o], d[o + 1], d[o + 2], d[o + 3]]);
            x = i32::from_be_bytes([d[o + 4], d[o + 5], d[o + 6], d[o + 7]]);
            o += 8;
            continue;
        }
        if cmd > 1 && cmd <= 6 {
            o += 1;
            if cmd & 2 != 0 && o + 4 <= d.len() {
                fg = Some((d[o + 1], d[o + 2], d[o + 3]));
                o += 4;
            }
            if cmd & 4 != 0 && o + 4 <= d.len() {
                bg = Some((d[o + 1], d[o + 2], d[o + 3]));
                o += 4;
            }
        }
        want.insert((x, y), (fg, bg));
        x += 1;
        if x >= 80 {
            x = 0;
            y += 1;
        }
    }
    for ((x, y), (wf, wb)) in &want {
        if *y >= h {
            continue;
        }
        let c = raw_cell(&buf, *x, *y);
        if let Some(wf) = wf {
            if buf.palette.get_rgb(c.attribute.get_foreground()) != *wf {
                run.oracle_fail("tnd/select_resolves", &inp, &format!("cell ({},{}) foreground index {} resolves to {} but the record says {}", x, y, c.attribute.get_foreground(), hex6(buf.palette.get_rgb(c.attribute.get_foreground())), hex6(*wf)));
                break;
            }
        }
        if let Some(wb) = wb {
            if buf.palette.get_rgb(c.attribute.get_background()) != *wb {
                run.oracle_fail("tnd/select_resolves", &inp, &format!("cell ({},{}) background index {} resolves to {} but the record says {}", x, y, c.attribute.get_background(), hex6(buf.palette.get_rgb(c.attribute.get_background())), hex6(*wb)));
                break;
            }
        }
    }
    // load -> save -> load (files without jumps): every cell shows the same two colours, whatever the indices are now
    if !file[TND_HEADER.len().min(file.len())..].is_empty() && !jumped {
        let op2 = format!("palstream resavepal tnd {}", hex(file));
        let o = save_opts();
        match catch(std::panic::AssertUnwindSafe(|| buf.to_bytes("tnd", &o))) {
            Ok(Ok(again)) => match load_file("tnd", &again) {
                Ok(b2) => {
                    run.case(&op2, &format!("ok {}", hex(&b2.palette.as_vec())));
                    for ((x, y), _) in &want {
                        let (c1, c2) = (raw_cell(&buf, *x, *y), raw_cell(&b2, *x, *y));
                        let rgb = |b: &Buffer, c: &AttributedChar| (b.palette.get_rgb(c.attribute.get_foreground()), b.palette.get_rgb(c.attribute.get_background()));
                        if c1.is_visible() && (!c2.is_visible() || rgb(&buf, &c1) != rgb(&b2, &c2)) {
                            run.oracle_fail("tnd/resave_colours", &inp, &format!("cell ({},{}) shows {:?} after load and {:?} after load -> save -> load", x, y, rgb(&buf, &c1), rgb(&b2, &c2)));
                            break;
                        }
                    }
                }
                Err(e) => {
                    run.case(&op2, &format!("rej2:{}", e));
                    run.oracle_fail("tnd/resave_colours", &inp, "the re-saved Tundra file does not load");
                }
            },
            Ok(Err(_)) => run.case(&op2, "save-err"),
            Err(loc) => {
                run.case(&op2, "save-panic");
                run.oracle_fail(&format!("panic/{}", panic_site(&loc)), &inp, "saving a loaded Tundra file panicked");
            }
        }
    }
    let mut sorted = pal.clone();
    sorted.sort();
    sorted.dedup();
    if sorted.len() != pal.len() {
        run.oracle_fail("tnd/insert_existing", &inp, "the loaded palette holds a colour twice (a present colour was added again)");
    }
    if pal.first() != Some(&(0, 0, 0)) {
        run.oracle_fail("tnd/insert_stable", &inp, "entry 0 of a Tundra palette is not black any more");
    }
}

fn gen_tnd(rng: &mut Rng, n: usize) -> Vec<u8> {
    let mut f = TND_HEADER.to_vec();
    let pool: Vec<Rgb> = {
        let mut p: Vec<Rgb> = (0..(1 + rng.below(6))).map(|_| rnd_rgb(rng)).collect();
        p.push((0, 0, 0));
        let (r, g, b) = p[0];
        p.push((r, g, b ^ 1));
        p
    };
    let rec = |rng: &mut Rng, f: &mut Vec<u8>| {
        let c = if rng.chance(1, 6) { rnd_rgb(rng) } else { *rng.pick(&pool) };
        f.extend([rng.next() as u8, c.0, c.1, c.2]);
    };
    for _ in 0..n {
        match rng.below(12) {
            0..=3 => f.push(*rng.pick(&[b'a', b' ', 0, 7, 65, 200, 255])),
            4 | 5 => {
                f.extend([2, b'f']);
                rec(rng, &mut f);
            }
            6 => {
                f.extend([4, b'b']);
                rec(rng, &mut f);
            }
            7 | 8 => {
                f.extend([6, b'x']);
                rec(rng, &mut f);
                rec(rng, &mut f);
            }
            9 => {
                let cmd = *rng.pick(&[3u8, 5]);
                f.extend([cmd, b'o']);
                rec(rng, &mut f);
            }
            10 => {
                f.push(1);
                f.extend((if rng.chance(1, 12) { *rng.pick(&[65534u32, 65535, 65536, 70000]) } else { rng.below(40) as u32 }).to_be_bytes());
                let wide = rng.chance(1, 12);
                f.extend((rng.below(if wide { 100 } else { 80 }) as u32).to_be_bytes());
            }
            _ => {
                // the same colour as the running one again (index reuse)
                f.extend([2, b'r']);
                let c = pool[0];
                f.extend([0, c.0, c.1, c.2]);
            }
        }
    }
    if rng.chance(1, 8) {
        let cut = rng.below(6) as usize;
        f.truncate(f.len().saturating_sub(cut).max(3));
    }
    f
}

pub fn tnd_cases(run: &mut Run, rng: &mut Rng, thorough: bool) {
    let with = |body: &[u8]| {
        let mut f = TND_HEADER.to_vec();
        f.extend(body);
        f
    };
    for body in [
        &b""[..],
        b"abc",
        b"\x02a\x00\x01\x02\x03\x02b\x00\x01\x02\x03\x04c\x00\x01\x02\x03",
        b"\x06a\x00\x00\x00\x00\x00\x00\x00\x00\x02b\x00\xff\xff\xff\x06c\x00\xff\xff\xff\x00\xff\xff\xfe",
        b"\x02a\x00\x01\x02",
        b"\x06a\x00\x01\x02\x03\x00\x01",
        b"\x01\x00\x00\x00\x02\x00\x00\x00\x05\x02z\x00\x09\x08\x07",
        b"\x01\x00\x00\xff\xff\x00\x00\x00\x00",
        b"\x01\x00\x00\x00\x00\x00\x00\x00\x50",
        b"\x02",
    ] {
        tnd_case(run, &with(body));
    }
    tnd_case(run, b"\x18TUNDRA2");
    tnd_case(run, b"\x18TUNDRA25abc");
    // more than 256 distinct colours, each used twice
    let mut big = TND_HEADER.to_vec();
    for round in 0..2 {
        for i in 0..300u32 {
            big.extend([2, b'0' + (round as u8), 0, (i >> 8) as u8, i as u8, 77]);
        }
    }
    tnd_case(run, &big);
    for _ in 0..(if thorough { 1500 } else { 60 }) {
        let n = 1 + rng.below(40) as usize;
        tnd_case(run, &gen_tnd(rng, n));
    }
}

// ------------------------------------------------------------------------------------------------ palette blocks in files
fn save_opts() -> SaveOptions {
    let mut o = SaveOptions::new();
    o.save_sauce = false;
    o.compress = false;
    o.lossles_output = true;
    o
}

fn load_file(ext: &str, bytes: &[u8]) -> Result<Buffer, String> {
    let name = format!("a.{}", ext);
    let b = bytes.to_vec();
    match catch(move || Buffer::from_bytes(Path::new(&name), false, &b)) {
        Ok(Ok(b)) => Ok(b),
        Ok(Err(_)) => Err("rej".into()),
        Err(loc) => Err(format!("panic:{}", panic_site(&loc))),
    }
}

/// a 16-colour palette given as 48 six-bit values -> buffer -> file -> buffer -> file
pub fn filepal_case(run: &mut Run, ext: &str, six: &[u8]) {
    let inp = format!("filepal:{}:{}", ext, hex(six));
    run.nontrivial(fnv(inp.bytes().map(|b| b as u64)));
    run.count(&format!("filepal/{}", ext));
    let mut buf = Buffer::new((80, 2));
    buf.ice_mode = IceMode::Ice;
    buf.palette = Palette::from_63(six);
    for (i, ch) in "palette".chars().enumerate() {
        let mut a = icy_engine::TextAttribute::default();
        a.set_foreground((i % 16) as u32);
        a.set_background(((i + 3) % 16) as u32);
        buf.layers[0].set_char((i as i32, 0), AttributedChar::new(ch, a));
    }
    let o = save_opts();
    let ext2 = ext.to_string();
    let bytes = match catch(std::panic::AssertUnwindSafe(|| buf.to_bytes(&ext2, &o))) {
        Ok(Ok(b)) => b,
        Ok(Err(e)) => {
            run.oracle_fail(&format!("filepal/{}/save", ext), &inp, &format!("a 16-colour six-bit palette does not save: {}", e));
            return;
        }
        Err(loc) => {
            run.oracle_fail(&format!("panic/{}", panic_site(&loc)), &inp, "saving panicked");
            return;
        }
    };
    file_palette(run, ext, &bytes, Some(six), &inp);
}

/// any file: the palette the real loader produces vs the model's; load -> save -> load keeps the palette
pub fn file_palette(run: &mut Run, ext: &str, bytes: &[u8], six: Option<&[u8]>, inp: &str) {
    let op = format!("palstream filepal {} {}", ext, hex(bytes));
    let b1 = match load_file(ext, bytes) {
        Ok(b) => b,
        Err(e) => {
            run.case(&op, &e);
            if six.is_some() {
                run.oracle_fail(&format!("filepal/{}/load", ext), inp, "the file just written does not load");
            }
            return;
        }
    };
    let p1 = b1.palette.as_vec();
    run.case(&op, &format!("ok {}", hex(&p1)));
    if let Some(six) = six {
        if six.iter().all(|v| *v < 64) && b1.palette.as_vec_63() != six {
            let got = b1.palette.as_vec_63();
            let i = (0..got.len().min(six.len())).find(|i| got[*i] != six[*i]).unwrap_or(0);
            run.oracle_fail(&format!("filepal/{}/six_bit_rt", ext), inp, &format!("six-bit value {} at position {} came back as {} after save -> load", six[i], i, got.get(i).copied().unwrap_or(0)));
        }
    }
    // load -> save -> load
    let o = save_opts();
    let ext2 = ext.to_string();
    let op2 = format!("palstream resavepal {} {}", ext, hex(bytes));
    match catch(std::panic::AssertUnwindSafe(|| b1.to_bytes(&ext2, &o))) {
        Ok(Ok(again)) => match load_file(ext, &again) {
            Ok(b2) => {
                let p2 = b2.palette.as_vec();
                run.case(&op2, &format!("ok {}", hex(&p2)));
                if p2 != p1 {
                    let i = (0..p1.len().min(p2.len())).find(|i| p1[*i] != p2[*i]).unwrap_or(p1.len().min(p2.len()));
                    run.oracle_fail(&format!("filepal/{}/idempotent", ext), inp, &format!("load -> save -> load changes the palette (byte {}: {:?} -> {:?}, {} -> {} colours)", i, p1.get(i), p2.get(i), p1.len() / 3, p2.len() / 3));
                }
            }
            Err(e) => {
                run.case(&op2, &format!("rej2:{}", e));
                run.oracle_fail(&format!("filepal/{}/idempotent", ext), inp, "the re-saved file does not load");
            }
        },
        Ok(Err(_)) => run.case(&op2, "save-err"),
        Err(loc) => {
            run.case(&op2, "save-panic");
            run.oracle_fail(&format!("panic/{}", panic_site(&loc)), inp, "re-saving a loaded file panicked");
        }
    }
}

pub fn filepal_cases(run: &mut Run, rng: &mut Rng, thorough: bool) {
    // all 64 six-bit values in every channel, spread over 4 palettes per arrangement
    for ext in ["xb", "idf", "adf"] {
        for arrangement in 0..3u32 {
            for part in 0..4u32 {
                let six: Vec<u8> = (0..16u32)
                    .flat_map(|i| {
                        let v = part * 16 + i;
                        match arrangement {
                            0 => [v as u8, (63 - v) as u8, ((v * 5) % 64) as u8],
                            1 => [((v * 7) % 64) as u8, v as u8, (v ^ 0x2a) as u8 & 63],
                            _ => [(v ^ 0x15) as u8 & 63, ((v * 11) % 64) as u8, v as u8],
                        }
                    })
                    .collect();
                filepal_case(run, ext, &six);
            }
        }
        for _ in 0..(if thorough { 200 } else { 6 }) {
            let six: Vec<u8> = (0..48).map(|_| rng.below(64) as u8).collect();
            filepal_case(run, ext, &six);
        }
        // the default palette (XBin: no palette block at all)
        filepal_case(run, ext, &Palette::dos_default().as_vec_63());
    }
    // raw palette blocks, including values >= 64, patched into engine-written files
    for ext in ["xb", "idf", "adf"] {
        let mut buf = Buffer::new((80, 1));
        buf.ice_mode = IceMode::Ice;
        buf.palette = Palette::from_63(&(0..48).map(|i| (i + 1) as u8).collect::<Vec<u8>>());
        buf.layers[0].set_char((0, 0), AttributedChar::new('x', icy_engine::TextAttribute::default()));
        let Ok(base) = buf.to_bytes(ext, &save_opts()) else { continue };
        let (off, len) = match ext {
            "xb" => (11usize, 48usize),
            "adf" => (1, 192),
            _ => (base.len() - 48, 48),
        };
        for _ in 0..(if thorough { 100 } else { 4 }) {
            let mut f = base.clone();
            for k in 0..len {
                f[off + k] = if rng.chance(1, 5) { rng.next() as u8 } else { rng.below(64) as u8 };
            }
            let inp = format!("rawfile:{}:{}", ext, hex(&f));
            run.nontrivial(fnv(inp.bytes().map(|b| b as u64)));
            run.count(&format!("filepal/{}/raw-block", ext));
            file_palette(run, ext, &f, None, &inp);
        }
    }
}

// ------------------------------------------------------------------------------------------------ small helpers of Palette
pub fn helper_case(run: &mut Run, rgb: &[u8], n: usize) {
    let rgb = &rgb[..rgb.len() / 3 * 3];
    let inp = format!("helpers:{}:{}", hex(rgb), n);
    run.nontrivial(fnv(inp.bytes().map(|b| b as u64)));
    run.count("helpers");
    let p = Palette::from(rgb);
    let before: Vec<Rgb> = (0..p.len() as u32).map(|i| p.get_rgb(i)).collect();
    let mut q = p.clone();
    q.resize(n);
    run.case(&format!("palstream resize {} {}", hex(rgb), n), &hex(&q.as_vec()));
    if q.len() != n {
        run.oracle_fail("resize/len", &inp, &format!("resize({}) leaves {} colours", n, q.len()));
    }
    if let Some(i) = (0..n.min(before.len())).find(|i| q.get_rgb(*i as u32) != before[*i]) {
        run.oracle_fail("resize/stable", &inp, &format!("resize({}) changed index {}", n, i));
    }
    let mut f = p.clone();
    f.fill_to_16();
    run.case(&format!("palstream fill16 {}", hex(rgb)), &hex(&f.as_vec()));
    if f.len() != before.len().max(16) || (0..before.len()).any(|i| f.get_rgb(i as u32) != before[i]) {
        run.oracle_fail("fill_to_16/stable", &inp, "fill_to_16 changed an existing index or the length is not max(len, 16)");
    }
    run.case(&format!("palstream isdefault {}", hex(rgb)), if p.is_default() { "1" } else { "0" });
    let dos = Palette::dos_default();
    if p.is_default() != (p.as_vec() == dos.as_vec()) {
        run.oracle_fail("is_default", &inp, "is_default disagrees with a comparison against dos_default()");
    }
    // get_color agrees with get_rgb on every index incl. the direct RGB encoding and the first index beyond the end
    for i in [0u32, 1, p.len() as u32, p.len() as u32 + 5, 0x8000_0000 | 0x123456, 0xFFFF_FFFF] {
        if p.get_color(i).get_rgb() != p.get_rgb(i) {
            run.oracle_fail("get_color", &inp, &format!("get_color({}) != get_rgb({})", i, i));
        }
    }
    // Color <-> hex text / tuples
    for c in before.iter().take(4) {
        let col = Color::new(c.0, c.1, c.2);
        match Color::from_hex(&col.to_hex()) {
            Ok(back) if back.get_rgb() == *c => {}
            _ => run.oracle_fail("color_hex_rt", &inp, &format!("Color::from_hex(to_hex({})) differs", hex6(*c))),
        }
        let t: (u8, u8, u8) = col.clone().into();
        let a: [u8; 3] = col.clone().into();
        if Color::from(t) != col || Color::from(a) != col {
            run.oracle_fail("color_tuple_rt", &inp, "Color <-> (u8,u8,u8) / [u8;3] conversion differs");
        }
    }
    let sl: Vec<Color> = before.iter().map(|c| Color::new(c.0, c.1, c.2)).collect();
    let fs = Palette::from_slice(&sl);
    if fs.as_vec() != p.as_vec() || !fs.are_colors_equal(&p) || fs.is_empty() != before.is_empty() {
        run.oracle_fail("from_slice", &inp, "Palette::from_slice differs from Palette::from on the same colours");
    }
    let mut cl = p.clone();
    cl.clear();
    if !cl.is_empty() || cl.insert_color_rgb(1, 2, 3) != 0 {
        run.oracle_fail("clear", &inp, "a cleared palette is not empty / its first colour does not get index 0");
    }
}

pub fn helper_cases(run: &mut Run, rng: &mut Rng, thorough: bool) {
    let dos = Palette::dos_default().as_vec();
    for n in [0usize, 1, 8, 15, 16, 17, 32, 256] {
        helper_case(run, &dos, n);
        helper_case(run, &dos[..3 * 5], n);
        helper_case(run, &[], n);
    }
    let mut almost = dos.clone();
    almost[47] ^= 1;
    helper_case(run, &almost, 16);
    let mut longer = dos.clone();
    longer.extend([1, 2, 3]);
    helper_case(run, &longer, 17);
    for _ in 0..(if thorough { 600 } else { 40 }) {
        let k = match rng.below(3) {
            0 => rng.below(20) as usize,
            1 => 16,
            _ => rng.below(300) as usize,
        };
        let mut v = rng.bytes(3 * k);
        if rng.chance(1, 3) {
            let m = v.len().min(dos.len());
            v[..m].copy_from_slice(&dos[..m]);
        }
        let n = match rng.below(4) {
            0 => k,
            1 => rng.below(20) as usize,
            _ => rng.below(300) as usize,
        };
        helper_case(run, &v, n);
    }
}
